(* C05 / C06 -- IMPLEMENTATION model of the storage mechanism TurDB's DML relies on
   (src/database/dml/insert.rs, delete.rs, update.rs, src/database/ddl.rs execute_truncate,
   src/database/database.rs is_simple_count_star).  Definitions only; hand-written (the code
   is far outside tools/rs2v.py), tied to the code by the correspondence run.

   State of one table:
     ents    the B-tree of the table file: row id -> (DELETE_BIT, row), ascending row ids
             (row ids come from the global counter next_row_id, so INSERT appends);
     rcount  TableFileHeader.row_count, which answers SELECT COUNT star without a filter;
     kidx    the unique index of the key column (column 0 declared PRIMARY KEY / UNIQUE):
             key value -> row id, only for rows whose key is not NULL;
     nextid  next_row_id.

   `step false` is the code AS IT IS (after the repairs 6de60fd, 42a3914, dd7107b, 00edbdb):
     * DELETE / UPDATE collect their rows with a cursor that skips entries with DELETE_BIT
       (is_tombstone), TRUNCATE reports the live rows, WHERE pk = literal on a PRIMARY KEY
       table goes through the index (and falls back to the scan when the entry found is a
       tombstone), UPDATE evaluates every SET expression on the old row with NULL-propagating
       arithmetic and returns its RETURNING rows on every path;
     * INSERT still validates and writes row by row (insert.rs:547) and adds the statement's
       count to row_count only after the loop: a row that fails (constraint or type error)
       leaves the earlier rows in the table and row_count stale (finding class 4).
   `step true` differs only there: a failing INSERT leaves nothing behind (proposed repair).
   The component functions keep their switch `fx`: do_delete / do_update / do_truncate /
   select / new_row with fx = false describe the code BEFORE those repairs (tombstones
   collected by the scans, revived by UPDATE and counted by TRUNCATE; one-pass UPDATE without
   RETURNING rows; literal assignments visible to the other SET expressions; NULL arithmetic
   an error); `step_old` assembles them and is only used to state what the repairs changed
   (former_classes_repaired). *)
From Coq Require Import ZArith List Bool.
From TV Require Import Model.SqlSpec Model.DmlSpec.
Import ListNotations.
Open Scope Z_scope.

Record entry := mkEnt { e_id : Z; e_del : bool; e_row : row }.
Record tstate := mkT { ents : list entry; rcount : Z; kidx : list (value * Z); nextid : Z }.
Definition t_empty : tstate := mkT [] 0 [] 1.

Definition live (e : entry) : bool := negb (e_del e).
Definition e_key (e : entry) : value := key_of (e_row e).
(* what a scan (SELECT star) shows: entries without DELETE_BIT *)
Definition visible (st : tstate) : table := map e_row (filter live (ents st)).
Definition count_star (st : tstate) : Z := rcount st.

(* ------------------------------------------------------------------ unique index *)
Definition idx_mem (k : value) (ix : list (value * Z)) : bool :=
  existsb (fun p => value_eqb (fst p) k) ix.
Definition idx_find (k : value) (ix : list (value * Z)) : option Z :=
  match find (fun p => value_eqb (fst p) k) ix with Some p => Some (snd p) | None => None end.
Definition find_ent (id : Z) (es : list entry) : option entry := find (fun e => e_id e =? id) es.

(* ------------------------------------------------------------------ INSERT *)
Definition has_key (sch : schema) (r : row) : bool := keyed sch && negb (is_null (key_of r)).
(* NOT NULL validation, unique-index probe, record building (a text value in a numeric column
   fails there: "column n is not a variable column") -- any of them ends the statement *)
Definition ins_row_ok (sch : schema) (st : tstate) (r : row) : bool :=
  row_fits (s_tys sch) r && nn_ok sch r && negb (has_key sch r && idx_mem (key_of r) (kidx st)).
Definition ins_write (sch : schema) (st : tstate) (r : row) : tstate :=
  mkT (ents st ++ [mkEnt (nextid st) false r]) (rcount st)
      (if has_key sch r then kidx st ++ [(key_of r, nextid st)] else kidx st)
      (nextid st + 1).
(* the per-row loop: (all rows written?, state, rows written) *)
Fixpoint ins_loop (sch : schema) (st : tstate) (rows : list row) (n : Z) : bool * tstate * Z :=
  match rows with
  | [] => (true, st, n)
  | r :: rs => if ins_row_ok sch st r then ins_loop sch (ins_write sch st r) rs (n + 1) else (false, st, n)
  end.
Definition add_count (st : tstate) (n : Z) : tstate := mkT (ents st) (rcount st + n) (kidx st) (nextid st).

Definition do_insert (fx : bool) (sch : schema) (st : tstate) (rows : list row) (ret : bool) : result * tstate :=
  if forallb (row_known (s_tys sch)) rows then
    match ins_loop sch st rows 0 with
    | (true, st', n) => (RAff n (ret_of ret rows), add_count st' n)
    | (false, st', _) => (RErr, if fx then st else st')
    end
  else (RUnmod, st).

(* ------------------------------------------------------------------ row selection of DELETE / UPDATE *)
Definition cand (fx : bool) (e : entry) : bool := if fx then live e else true.

(* WHERE pk = literal (either way round) *)
Definition pk_literal (w : option expr) : option value :=
  match w with
  | Some (ECmp CEq (ECol O) (ELit v)) => Some v
  | Some (ECmp CEq (ELit v) (ECol O)) => Some v
  | _ => None
  end.
(* the single entry the primary-key fast path selects: index lookup, then the entry under that
   row id if its key equals the literal *)
Definition pk_target (fx : bool) (sch : schema) (w : option expr) (st : tstate) : option entry :=
  match s_key sch, pk_literal w with
  | KPk, Some v =>
      match idx_find v (kidx st) with
      | Some id =>
          match find_ent id (ents st) with
          | Some e => if value_eqb (e_key e) v && cand fx e then Some e else None
          | None => None
          end
      | None => None
      end
  | _, _ => None
  end.
Definition scan (fx : bool) (w : option expr) (es : list entry) : list entry :=
  filter (fun e => cand fx e && wpass w (e_row e)) es.
Definition select (fx : bool) (sch : schema) (w : option expr) (st : tstate) : list entry :=
  match pk_target fx sch w st with
  | Some e => [e]
  | None => scan fx w (ents st)
  end.
(* the WHERE predicate has a defined truth value on every stored row, tombstones included *)
Definition where_modelled (w : option expr) (st : tstate) : bool := wdefined w (map e_row (ents st)).

Definition in_sel (sel : list entry) (e : entry) : bool := existsb (fun s => e_id s =? e_id e) sel.

(* ------------------------------------------------------------------ DELETE *)
Definition mark_del (sel : list entry) (es : list entry) : list entry :=
  map (fun e => if in_sel sel e then mkEnt (e_id e) true (e_row e) else e) es.
(* index_btree.delete(key) for every collected row with a non-NULL key *)
Definition key_in_sel (sel : list entry) (k : value) : bool :=
  existsb (fun s => negb (is_null (e_key s)) && value_eqb (e_key s) k) sel.
Definition idx_drop (sch : schema) (sel : list entry) (ix : list (value * Z)) : list (value * Z) :=
  if keyed sch then filter (fun p => negb (key_in_sel sel (fst p))) ix else ix.

Definition do_delete (fx : bool) (sch : schema) (st : tstate) (w : option expr) (ret : bool) : result * tstate :=
  if where_modelled w st then
    let sel := select fx sch w st in
    let n := zlen sel in
    (RAff n (ret_of ret (map e_row sel)),
     mkT (mark_del sel (ents st)) (Z.max 0 (rcount st - n)) (idx_drop sch sel (kidx st)) (nextid st))
  else (RUnmod, st).

(* ------------------------------------------------------------------ UPDATE *)
(* modelled SET expressions: a literal, a column, column (+ | - | x) integer literal *)
Definition set_has_col (e : expr) : bool := match e with ELit _ => false | _ => true end.
Definition ty_at (sch : schema) (i : nat) : option cty := nth_error (s_tys sch) i.
Definition cty_eqb (a b : cty) : bool :=
  match a, b with TInt, TInt | TFloat, TFloat | TText, TText => true | _, _ => false end.
Definition set_ok (sch : schema) (p : nat * expr) : bool :=
  match ty_at sch (fst p), snd p with
  | Some ty, ELit v => fits ty v
  | Some ty, ECol j => match ty_at sch j with Some ty' => cty_eqb ty ty' | None => false end
  | Some TInt, EArith _ (ECol j) (ELit (VInt k)) =>
      i64_ok k && match ty_at sch j with Some TInt => true | _ => false end
  | _, _ => false
  end.
Fixpoint cols_distinct (sets : list (nat * expr)) : bool :=
  match sets with
  | [] => true
  | (i, _) :: sets' => negb (existsb (fun p => Nat.eqb (fst p) i) sets') && cols_distinct sets'
  end.
Definition sets_modelled (sch : schema) (sets : list (nat * expr)) : bool :=
  forallb (set_ok sch) sets && cols_distinct sets && sets_plain sch sets
  && negb (match sets with [] => true | _ => false end).

Inductive ires := IVal (v : value) | IErr | IUn.
(* eval_expr_with_row / OwnedValue::eval_arithmetic on the modelled forms *)
Definition ieval (e : expr) (r : row) : ires :=
  match e with
  | ELit v => IVal v
  | ECol j => match nth_error r j with Some v => IVal v | None => IUn end
  | EArith op (ECol j) (ELit (VInt k)) =>
      match nth_error r j with
      | Some (VInt x) => let z := arith_z op x k in if i64_ok z then IVal (VInt z) else IUn
      | Some VNull => IErr
      | _ => IUn
      end
  | _ => IUn
  end.
(* the repaired evaluation: the reference `eval` (NULL propagates) *)
Definition feval (e : expr) (r : row) : ires :=
  match eval e r with Some v => IVal v | None => IUn end.

Inductive rres := ROk (r : row) | RowErr | RowUn.
Definition rcons (x : ires) (rest : rres) : rres :=
  match x, rest with
  | IUn, _ | _, RowUn => RowUn
  | IErr, _ | _, RowErr => RowErr
  | IVal v, ROk l => ROk (v :: l)
  end.
(* step 1 of the code as it is: only the literal assignments *)
Fixpoint lit_cols (sets : list (nat * expr)) (i : nat) (cur : row) : row :=
  match cur with
  | [] => []
  | v :: cur' =>
      (match assoc_set i sets with Some (ELit x) => x | _ => v end) :: lit_cols sets (S i) cur'
  end.
(* the new row, column by column; `src` is the row the column-mentioning expressions read *)
Fixpoint new_cols (ev : expr -> row -> ires) (sets : list (nat * expr)) (src : row) (i : nat) (cur : row) : rres :=
  match cur with
  | [] => ROk []
  | v :: cur' =>
      rcons (match assoc_set i sets with Some e => ev e src | None => IVal v end)
            (new_cols ev sets src (S i) cur')
  end.
Definition new_row (fx : bool) (sets : list (nat * expr)) (old : row) : rres :=
  if fx then new_cols feval sets old 0 old
  else new_cols ieval sets (lit_cols sets 0 old) 0 old.

Inductive ures := UOk (news : list row) | UEvalErr | UNnErr | UUn.
(* the collect phase over the selected entries, in cursor order: per row evaluation, then
   NOT NULL validation; the first failing row decides the error (update.rs:1497-1564);
   an unmodelled row anywhere makes the statement unmodelled *)
Fixpoint new_rows (fx : bool) (sch : schema) (sets : list (nat * expr)) (sel : list entry) : ures :=
  match sel with
  | [] => UOk []
  | e :: sel' =>
      let rest := new_rows fx sch sets sel' in
      match new_row fx sets (e_row e) with
      | RowUn => UUn
      | RowErr => match rest with UUn => UUn | _ => UEvalErr end
      | ROk r2 =>
          if nn_ok sch r2 then match rest with UOk l => UOk (r2 :: l) | o => o end
          else match rest with UUn => UUn | _ => UNnErr end
      end
  end.

Fixpoint assoc_new (id : Z) (sel : list entry) (news : list row) : option row :=
  match sel, news with
  | s :: sel', r :: news' => if e_id s =? id then Some r else assoc_new id sel' news'
  | _, _ => None
  end.
(* btree.update(key, wrap_record_for_update(..)): new values under a FRESH header *)
Definition write_upd (sel : list entry) (news : list row) (es : list entry) : list entry :=
  map (fun e => match assoc_new (e_id e) sel news with Some r => mkEnt (e_id e) false r | None => e end) es.

Definition has_text (sch : schema) : bool :=
  existsb (fun ty => match ty with TText => true | _ => false end) (s_tys sch).
(* update.rs:1316 can_onepass *)
Definition onepass (sch : schema) (sets : list (nat * expr)) (w : option expr) (st : tstate) : bool :=
  match pk_target false sch w st with
  | Some _ => negb (has_text sch) && forallb (fun p => negb (set_has_col (snd p))) sets
  | None => false
  end.

Definition do_update (fx : bool) (sch : schema) (st : tstate) (sets : list (nat * expr)) (w : option expr) (ret : bool)
  : result * tstate :=
  if where_modelled w st && sets_modelled sch sets then
    let sel := select fx sch w st in
    match new_rows fx sch sets sel with
    | UUn => (RUnmod, st)
    | UEvalErr | UNnErr => (RErr, st)
    | UOk news =>
        (RAff (zlen sel) (if negb fx && onepass sch sets w st then None else ret_of ret news),
         mkT (write_upd sel news (ents st)) (rcount st) (kidx st) (nextid st))
    end
  else (RUnmod, st).

(* ------------------------------------------------------------------ TRUNCATE *)
Definition do_truncate (fx : bool) (st : tstate) : result * tstate :=
  (RAff (zlen (filter (cand fx) (ents st))) None, mkT [] 0 [] (nextid st)).

(* ------------------------------------------------------------------ statements, histories *)
Definition step (fx : bool) (sch : schema) (st : tstate) (s : stmt) : result * tstate :=
  match s with
  | SInsert rows ret => do_insert fx sch st rows ret
  | SDelete w ret => do_delete true sch st w ret
  | SUpdate sets w ret => do_update true sch st sets w ret
  | STruncate => do_truncate true st
  | SMissing => (RErr, st)
  end.
(* the code before the repairs of DELETE / UPDATE / TRUNCATE *)
Definition step_old (sch : schema) (st : tstate) (s : stmt) : result * tstate :=
  match s with
  | SInsert rows ret => do_insert false sch st rows ret
  | SDelete w ret => do_delete false sch st w ret
  | SUpdate sets w ret => do_update false sch st sets w ret
  | STruncate => do_truncate false st
  | SMissing => (RErr, st)
  end.

Definition obs_of (r : result) (st : tstate) : obs := mkObs r (visible st) (count_star st).

Fixpoint trace (fx : bool) (sch : schema) (st : tstate) (h : list stmt) : list obs :=
  match h with
  | [] => []
  | s :: h' => let (r, st') := step fx sch st s in obs_of r st' :: trace fx sch st' h'
  end.
Fixpoint run (fx : bool) (sch : schema) (st : tstate) (h : list stmt) : tstate :=
  match h with
  | [] => st
  | s :: h' => run fx sch (snd (step fx sch st s)) h'
  end.

Fixpoint trace_old (sch : schema) (st : tstate) (h : list stmt) : list obs :=
  match h with
  | [] => []
  | s :: h' => let (r, st') := step_old sch st s in obs_of r st' :: trace_old sch st' h'
  end.

(* ------------------------------------------------------------------ the recorded finding class
   (decidable, evaluated on the state the code-as-it-is model has reached):
     4  INSERT that fails after it has written at least one row
    -1  the statement is outside the modelled fragment (not a finding: nothing is claimed)
   (classes 1, 2, 3, 5, 6, 7 of the earlier tree -- tombstones in DELETE / UPDATE / TRUNCATE,
   RETURNING on the one-pass path, SET evaluation order, NULL arithmetic -- are repaired) *)
Definition reads_col (e : expr) (j : nat) : bool :=
  match e with
  | ECol i => Nat.eqb i j
  | EArith _ (ECol i) _ => Nat.eqb i j
  | _ => false
  end.
Definition sets_mix (sets : list (nat * expr)) : bool :=
  existsb (fun p => negb (set_has_col (snd p)) &&
                    existsb (fun q => set_has_col (snd q) && reads_col (snd q) (fst p)) sets) sets.

Definition stmt_class (sch : schema) (st : tstate) (s : stmt) : Z :=
  match fst (step false sch st s) with
  | RUnmod => -1                         (* outside the modelled fragment: nothing is claimed *)
  | _ =>
  match s with
  | SInsert rows _ =>
      match ins_loop sch st rows 0 with
      | (false, _, n) => if 0 <? n then 4 else 0
      | _ => 0
      end
  | _ => 0
  end
  end.
(* the class of a history: the class of its first statement that is in one *)
Fixpoint hist_class (sch : schema) (st : tstate) (h : list stmt) : Z :=
  match h with
  | [] => 0
  | s :: h' =>
      let k := stmt_class sch st s in
      if k =? 0 then hist_class sch (snd (step false sch st s)) h' else k
  end.
