(* C28 / C29 model: the B+tree of src/btree/{tree,leaf,interior}.rs as an executable Gallina
   function on an abstract-node tree.  DEFINITIONS ONLY.

   What is kept from the code, as it is:
   - leaf pages carry their cells in slot order, the header field free_end (space of deleted
     cells is not reclaimed - delete_cell only removes the slot, and frag_bytes is a u8 so
     should_compact can never become true - except that a leaf whose LAST cell is deleted gets its
     whole cell area back, commit 09348e1) and frag_bytes; all "is there room" decisions are the
     byte-size decisions of the code (cell = key + varint(len) + value, 8-byte slot, 24-byte
     leaf header, 16-byte interior header, 12-byte interior slot, 16384-byte pages);
   - split_leaf: insertion position, duplicate check, 90% / 50% start, the two `mid` loops, the
     clamps, the refusal (before any page is touched) when a half would not fit (commit 9c96190),
     rebuild of both halves by insert_cell;
   - propagate_split / insert_into_interior (both branches, by slot index) / split_interior with
     the split point chosen by bytes, nearest to the middle (commit a0471f9), an interior page without
     separators handled explicitly (commit 691ce2c) / create_new_root, page numbers handed out by allocate_page in the order of the code;
   - the rightmost-leaf hint and both fast paths (an empty hinted leaf is not accepted, a847df1);
     delete without rebalancing; the three update cases (a growing update first checks room for
     the whole new cell, 0e115d7); cursor_first / cursor_seek / cursor_last, advance with
     skip_empty_leaves, prev with find_prev_leaf and find_rightmost_nonempty (8f0490a).
   What is abstracted (stated in tools/props.d/C28.json):
   - a page is its decoded content, the tree is an inductive tree whose nodes carry their page
     number; the leaf chain (next_leaf) is the in-order sequence of the leaves (C29 checks this
     on the real pages after every operation);
   - leaf search (find_key, SIMD + binary search) and interior search (binary search with 4-byte
     prefix short-cut) are the linear "first key >= / > probe" scans they equal on sorted nodes
     (C30 proves this for the leaf search);
   - values are an abstract type V with a byte length (the code never looks inside a value). *)
From Coq Require Import ZArith List Bool.
From TV Require Import Lib.MachInt Gen.Varint.
Import ListNotations.
Open Scope Z_scope.

Definition PAGE : Z := 16384.
Definition LEAF_START : Z := 24.
Definition SLOT : Z := 8.
Definition INT_START : Z := 16.
Definition ISLOT : Z := 12.
Definition LEAF_CAP : Z := PAGE - LEAF_START.

(* ---------------------------------------------------------------- keys: byte strings, slice order *)
Definition key := list Z.
Fixpoint kcmp (a b : key) : comparison :=
  match a, b with
  | [], [] => Eq
  | [], _ :: _ => Lt
  | _ :: _, [] => Gt
  | x :: a', y :: b' => match x ?= y with Eq => kcmp a' b' | c => c end
  end.
Definition kltb (a b : key) : bool := match kcmp a b with Lt => true | _ => false end.
Definition keqb (a b : key) : bool := match kcmp a b with Eq => true | _ => false end.
Definition kleb (a b : key) : bool := match kcmp a b with Gt => false | _ => true end.
Definition klen (k : key) : Z := Z.of_nat (length k).

Definition insert_at {A} (i : nat) (x : A) (l : list A) : list A := firstn i l ++ x :: skipn i l.
Definition remove_at {A} (i : nat) (l : list A) : list A := firstn i l ++ skipn (S i) l.
Definition replace_at {A} (i : nat) (x : A) (l : list A) : list A := firstn i l ++ x :: skipn (S i) l.
Definition sumz (l : list Z) : Z := fold_right Z.add 0 l.

Inductive err := EZeroSep | ELeafFull | EIntFull | ESepDup | EPanic | EFuel | ECorrupt.

Section BT.
Variable V : Type.
Variable vlen : V -> Z.

Definition entry := (key * V)%type.
Definition csize (e : entry) : Z := klen (fst e) + varint_len (vlen (snd e)) + vlen (snd e).

Record leaf := mkLeaf { lid : Z; lcells : list entry; lfe : Z; lfrag : Z }.

Inductive tree :=
| Leaf (l : leaf)
| Node (id : Z) (kids : list (key * tree)) (right : tree).

Definition lcount (l : leaf) : Z := Z.of_nat (length (lcells l)).
Definition lfstart (l : leaf) : Z := LEAF_START + SLOT * lcount l.
Definition lfree (l : leaf) : Z := lfe l - lfstart l.
(* LeafNodeMut::free_space is a plain u16 subtraction *)
Definition lguard (l : leaf) : bool := lfstart l <=? lfe l.

(* find_key on a sorted leaf: (found, index of the equal key or insertion point) *)
Fixpoint lfind (k : key) (cs : list entry) : bool * nat :=
  match cs with
  | [] => (false, O)
  | c :: r => match kcmp k (fst c) with
              | Lt => (false, O)
              | Eq => (true, O)
              | Gt => let '(f, i) := lfind k r in (f, S i)
              end
  end.
(* all_keys.iter().position(|x| x > key).unwrap_or(len) *)
Fixpoint ppos {A} (k : key) (cs : list (key * A)) : nat :=
  match cs with
  | [] => O
  | c :: r => if kltb k (fst c) then O else S (ppos k r)
  end.

Definition leaf_put (l : leaf) (pos : nat) (e : entry) : leaf :=
  mkLeaf (lid l) (insert_at pos e (lcells l)) (lfe l - csize e) (lfrag l).

Definition sat_u8 (x : Z) : Z := Z.min 255 x.
Definition compact_leaf (l : leaf) : leaf :=
  mkLeaf (lid l) (lcells l) (PAGE - sumz (map csize (lcells l))) 0.
Definition should_compact (l : leaf) : bool := (LEAF_CAP / 4) <? lfrag l.
(* delete_cell: the slot goes, the cell bytes stay; frag_bytes += cell_size as u8 (saturating) *)
Definition leaf_delete (l : leaf) (i : nat) : leaf :=
  match nth_error (lcells l) i with
  | None => l
  | Some e =>
      let rest := remove_at i (lcells l) in
      let l1 := match rest with
                | [] => mkLeaf (lid l) rest PAGE 0          (* the last cell is gone: the whole cell area is free again *)
                | _ => mkLeaf (lid l) rest (lfe l) (sat_u8 (lfrag l + (csize e) mod 256))
                end in
      if should_compact l1 then compact_leaf l1 else l1
  end.

Definition build_leaf (id : Z) (cs : list entry) : option leaf :=
  let tot := sumz (map csize cs) in
  if LEAF_START + SLOT * Z.of_nat (length cs) + tot <=? PAGE then Some (mkLeaf id cs (PAGE - tot) 0) else None.

(* ---------------------------------------------------------------- split point of split_leaf *)
Fixpoint loop1 (fuel : nat) (sizes : list Z) (n mid : nat) : nat :=
  match fuel with
  | O => mid
  | S f => if (sumz (skipn mid sizes) <=? LEAF_CAP) || (n - 1 <=? mid)%nat then mid
           else loop1 f sizes n (S mid)
  end.
Fixpoint loop2 (fuel : nat) (sizes : list Z) (mid : nat) : nat :=
  match fuel with
  | O => mid
  | S f => if (1 <? mid)%nat
           then (if sumz (firstn mid sizes) <=? LEAF_CAP then mid else loop2 f sizes (mid - 1))
           else mid
  end.
Definition choose_mid (rm : bool) (sizes : list Z) : nat :=
  let n := length sizes in
  let m0 := if rm then Nat.min (n * 9 / 10) (n - 1) else (n / 2)%nat in
  let m1 := loop1 n sizes n m0 in
  let m2 := loop2 n sizes m1 in
  let m3 := if (m2 =? 0)%nat then 1%nat else m2 in
  if (n <=? m3)%nat then (n - 1)%nat else m3.

Fixpoint ksorted (ks : list key) : bool :=
  match ks with
  | [] => true
  | a :: r => match r with [] => true | b :: _ => kltb a b && ksorted r end
  end.

Inductive ires :=
| IOk (t : tree) (np : Z)
| ISplit (l : tree) (sep : key) (r : tree) (np : Z)
| IDup (np : Z)
| IFull (np : Z)          (* clean refusal: Err before any tree page was touched (a page number is used up) *)
| IErr (e : err).

Definition split_leaf (rm : bool) (l : leaf) (e : entry) (np : Z) : ires :=
  let np' := np + 1 in
  let pos := ppos (fst e) (lcells l) in
  let all := insert_at pos e (lcells l) in
  let dup_before := match pos with
                    | O => false
                    | S p => match nth_error (lcells l) p with Some c => keqb (fst c) (fst e) | None => false end
                    end in
  let dup_after := match nth_error (lcells l) pos with Some c => keqb (fst e) (fst c) | None => false end in
  if dup_before || dup_after then IDup np' else
  if negb (ksorted (map fst all)) then IErr EPanic else
  let mid := choose_mid rm (map (fun c => csize c + SLOT) all) in
  match nth_error all mid with
  | None => IErr EPanic
  | Some sepc =>
      (* `ensure!(left_size <= page_capacity && right_size <= page_capacity)`: the same two inequalities
         that decide whether the rebuilt halves fit *)
      match build_leaf (lid l) (firstn mid all), build_leaf np (skipn mid all) with
      | Some L, Some R => ISplit (Leaf L) (fst sepc) (Leaf R) np'
      | _, _ => IFull np'
      end
  end.

Inductive imode := MInsert | MIine | MAppend.

Definition leaf_ins (m : imode) (rm : bool) (l : leaf) (e : entry) (np : Z) : ires :=
  let need := csize e + SLOT in
  match m with
  | MInsert =>
      if negb (lguard l) then IErr EPanic else
      if need <=? lfree l then
        match lfind (fst e) (lcells l) with
        | (true, _) => IDup np
        | (false, pos) => IOk (Leaf (leaf_put l pos e)) np
        end
      else split_leaf rm l e np
  | MIine =>
      match lfind (fst e) (lcells l) with
      | (true, _) => IDup np
      | (false, pos) =>
          if negb (lguard l) then IErr EPanic else
          if need <=? lfree l then IOk (Leaf (leaf_put l pos e)) np else split_leaf rm l e np
      end
  | MAppend =>
      if negb (lguard l) then IErr EPanic else
      if need <=? lfree l then IOk (Leaf (leaf_put l (length (lcells l)) e)) np
      else split_leaf rm l e np
  end.

(* ---------------------------------------------------------------- interior nodes *)
Definition kid := (key * tree)%type.
Definition ifree (kids : list kid) : Z :=
  PAGE - INT_START - sumz (map (fun sc : kid => klen (fst sc) + ISLOT) kids).

(* find_child: first separator greater than the key, else the right child *)
Fixpoint cidx (k : key) (kids : list kid) : nat :=
  match kids with
  | [] => O
  | sc :: r => if kltb k (fst sc) then O else S (cidx k r)
  end.
Definition child_at (kids : list kid) (right : tree) (i : nat) : tree :=
  match nth_error kids i with Some sc => snd sc | None => right end.
Definition set_child (kids : list kid) (right : tree) (i : nat) (c : tree) : list kid * tree :=
  match nth_error kids i with
  | Some sc => (replace_at i (fst sc, c) kids, right)
  | None => (kids, c)
  end.

(* find_insert_position: None = "separator key already exists" *)
Fixpoint ipos (s : key) (kids : list kid) : option nat :=
  match kids with
  | [] => Some O
  | sc :: r => match kcmp s (fst sc) with
               | Lt => Some O
               | Eq => None
               | Gt => option_map S (ipos s r)
               end
  end.
Fixpoint first_eq (s : key) (kids : list kid) : nat :=
  match kids with
  | [] => O
  | sc :: r => if keqb (fst sc) s then O else S (first_eq s r)
  end.

(* a fresh interior page filled by successive insert_separator calls *)
Fixpoint build_kids (acc todo : list kid) : err + list kid :=
  match todo with
  | [] => inr acc
  | sc :: r =>
      if klen (fst sc) + ISLOT <=? ifree acc then
        match ipos (fst sc) acc with
        | None => inl ESepDup
        | Some p => build_kids (insert_at p sc acc) r
        end
      else inl EIntFull
  end.

(* the split point: among the m with both halves fitting a page, the one nearest to len/2 (the first on ties) *)
Definition absdiff (a b : nat) : nat := ((a - b) + (b - a))%nat.
Fixpoint best_mid (sizes : list Z) (total : Z) (half m : nat) (left : Z) (best : option nat) : option nat :=
  match sizes with
  | [] => best
  | sz :: rest =>
      let right := total - left - sz in
      let best' :=
        if (left <=? PAGE - INT_START) && (right <=? PAGE - INT_START) then
          match best with
          | Some b => if (absdiff m half <? absdiff b half)%nat then Some m else best
          | None => Some m
          end
        else best in
      best_mid rest total half (S m) (left + sz) best'
  end.

Definition split_interior (id : Z) (kids1 : list kid) (right1 : tree) (s : key) (R : tree) (np : Z) : ires :=
  let seps := map fst kids1 in
  let chs := map snd kids1 in
  let p := ppos s kids1 in
  let seps' := insert_at p s seps in
  let chs' := if (p =? length chs)%nat then chs ++ [right1] else insert_at (S p) R chs in
  let sizes := map (fun k : key => klen k + ISLOT) seps' in
  let lastc := if (p =? length chs' - 1)%nat then R else right1 in
  match best_mid sizes (sumz sizes) (length seps' / 2)%nat O 0 None with
  | None => IErr EIntFull          (* "separators too large": Err AFTER the level below was split *)
  | Some mid =>
  match nth_error seps' mid, nth_error chs' mid with
  | Some prom, Some lright =>
      match build_kids [] (combine (firstn mid seps') (firstn mid chs')),
            build_kids [] (combine (skipn (S mid) seps') (skipn (S mid) chs')) with
      | inr lk, inr rk => ISplit (Node id lk lright) prom (Node np rk lastc) (np + 1)
      | inl e, _ => IErr e
      | _, inl e => IErr e
      end
  | _, _ => IErr EPanic
  end
  end.

(* insert_into_interior after child number i (page unchanged, now holding L) split off R *)
Definition int_ins (id : Z) (kids : list kid) (right : tree) (i : nat) (L : tree) (s : key) (R : tree) (np : Z) : ires :=
  let '(kids1, right1) := set_child kids right i L in
  if klen s + ISLOT <=? ifree kids then
    match last (map (fun x => Some (fst x)) kids) None with
    | None =>                        (* count == 0 (commit 691ce2c): the separator goes in front of the right child *)
        match ipos s kids1 with
        | None => IErr ESepDup
        | Some p => IOk (Node id (insert_at p (s, right1) kids1) R) np
        end
    | Some lastk =>
        if kleb lastk s then
          match ipos s kids1 with
          | None => IErr ESepDup
          | Some p => IOk (Node id (insert_at p (s, right1) kids1) R) np
          end
        else
          match ipos s kids1 with
          | None => IErr ESepDup
          | Some p =>
              let kids2 := insert_at p (s, L) kids1 in
              let j := first_eq s kids2 in
              let kids3 := match nth_error kids2 (S j) with
                           | Some sc => replace_at (S j) (fst sc, R) kids2
                           | None => kids2
                           end in
              IOk (Node id kids3 right1) np
          end
    end
  else split_interior id kids1 right1 s R np.

Fixpoint ins (h : nat) (m : imode) (rm : bool) (t : tree) (e : entry) (np : Z) : ires :=
  match t with
  | Leaf l => leaf_ins m rm l e np
  | Node id kids r =>
      match h with
      | O => IErr EFuel
      | S h' =>
          let i := cidx (fst e) kids in
          match ins h' m (rm && (i =? length kids)%nat) (child_at kids r i) e np with
          | IOk c np' => let '(k2, r2) := set_child kids r i c in IOk (Node id k2 r2) np'
          | ISplit L s R np' => int_ins id kids r i L s R np'
          | IDup np' => IDup np'
          | IFull np' => IFull np'
          | IErr er => IErr er
          end
      end
  end.

(* ---------------------------------------------------------------- tree shape helpers *)
Fixpoint depth (t : tree) : nat := match t with Leaf _ => O | Node _ _ r => S (depth r) end.
Fixpoint last_leaf (t : tree) : leaf := match t with Leaf l => l | Node _ _ r => last_leaf r end.
Fixpoint set_last_leaf (t : tree) (l' : leaf) : tree :=
  match t with Leaf _ => Leaf l' | Node id kids r => Node id kids (set_last_leaf r l') end.
Fixpoint rm_route (h : nat) (t : tree) (k : key) : bool :=
  match t with
  | Leaf _ => true
  | Node _ kids r =>
      match h with
      | O => false
      | S h' => (cidx k kids =? length kids)%nat && rm_route h' r k
      end
  end.
Fixpoint route (h : nat) (t : tree) (k : key) : option leaf :=
  match t with
  | Leaf l => Some l
  | Node _ kids r => match h with O => None | S h' => route h' (child_at kids r (cidx k kids)) k end
  end.
Fixpoint leaves (h : nat) (t : tree) : list leaf :=
  match t with
  | Leaf l => [l]
  | Node _ kids r =>
      match h with
      | O => []
      | S h' => flat_map (fun sc : kid => leaves h' (snd sc)) kids ++ leaves h' r
      end
  end.
Definition abs (h : nat) (t : tree) : list entry := flat_map lcells (leaves h t).

(* bounds of child number i of an interior node whose own key range is (lo, hi) *)
Fixpoint lo_at (lo : option key) (kids : list kid) (i : nat) : option key :=
  match i, kids with
  | S j, sc :: rest => lo_at (Some (fst sc)) rest j
  | _, _ => lo
  end.
Fixpoint hi_at (hi : option key) (kids : list kid) (i : nat) : option key :=
  match kids, i with
  | [], _ => hi
  | sc :: _, O => Some (fst sc)
  | _ :: rest, S j => hi_at hi rest j
  end.

(* the separator immediately left of the routed leaf on the descent path (its lower bound) *)
Fixpoint lower_sep (h : nat) (t : tree) (lo : option key) (k : key) : option key :=
  match t with
  | Leaf _ => lo
  | Node _ kids r =>
      match h with
      | O => lo
      | S h' => let i := cidx k kids in lower_sep h' (child_at kids r i) (lo_at lo kids i) k
      end
  end.

(* ---------------------------------------------------------------- delete / update / get *)
Inductive dres := DOk (t : tree) | DNotFound | DErr (e : err).
Fixpoint del (h : nat) (t : tree) (k : key) : dres :=
  match t with
  | Leaf l => match lfind k (lcells l) with
              | (true, i) => DOk (Leaf (leaf_delete l i))
              | (false, _) => DNotFound
              end
  | Node id kids r =>
      match h with
      | O => DErr EFuel
      | S h' =>
          let i := cidx k kids in
          match del h' (child_at kids r i) k with
          | DOk c => let '(k2, r2) := set_child kids r i c in DOk (Node id k2 r2)
          | other => other
          end
      end
  end.

Inductive ures := UTrue (l : leaf) | UFalse | ULost (l : leaf) | UPanic.
Definition leaf_update (l : leaf) (k : key) (v : V) : ures :=
  match lfind k (lcells l) with
  | (false, _) => UFalse
  | (true, i) =>
      match nth_error (lcells l) i with
      | None => UPanic
      | Some old =>
          let ol := vlen (snd old) in
          let nl := vlen v in
          if nl =? ol then UTrue (mkLeaf (lid l) (replace_at i (fst old, v) (lcells l)) (lfe l) (lfrag l))
          else if nl <? ol then
            let freed := (varint_len ol + ol) - (varint_len nl + nl) in
            UTrue (mkLeaf (lid l) (replace_at i (fst old, v) (lcells l)) (lfe l) (sat_u8 (lfrag l + freed mod 256)))
          else
            if csize (k, v) <=? Z.max 0 (lfree l) then       (* room for the whole new cell, not for the increase *)
              let l1 := leaf_delete l i in
              if negb (lguard l1) then UPanic else
              if csize (k, v) + SLOT <=? lfree l1 then
                match lfind k (lcells l1) with
                | (true, _) => ULost l1
                | (false, pos) => UTrue (leaf_put l1 pos (k, v))
                end
              else ULost l1
            else UFalse
      end
  end.
Inductive utres := UTOk (t : tree) (b : bool) | UTLost (t : tree) | UTErr (e : err).
Fixpoint upd (h : nat) (t : tree) (k : key) (v : V) : utres :=
  match t with
  | Leaf l => match leaf_update l k v with
              | UTrue l' => UTOk (Leaf l') true
              | UFalse => UTOk (Leaf l) false
              | ULost l' => UTLost (Leaf l')
              | UPanic => UTErr EPanic
              end
  | Node id kids r =>
      match h with
      | O => UTErr EFuel
      | S h' =>
          let i := cidx k kids in
          match upd h' (child_at kids r i) k v with
          | UTOk c b => let '(k2, r2) := set_child kids r i c in UTOk (Node id k2 r2) b
          | UTLost c => let '(k2, r2) := set_child kids r i c in UTLost (Node id k2 r2)
          | other => other
          end
      end
  end.

Definition leaf_get (l : leaf) (k : key) : option V :=
  match lfind k (lcells l) with
  | (true, i) => match nth_error (lcells l) i with Some c => Some (snd c) | None => None end
  | (false, _) => None
  end.

(* ---------------------------------------------------------------- cursors *)
Definition lempty (l : leaf) : bool := match lcells l with [] => true | _ => false end.
Definition flatl (ls : list leaf) : list entry := flat_map lcells ls.
(* a cursor standing at index `start` of the first leaf of ls, then key / value / advance until exhausted:
   skip_empty_leaves moves over leaves without (remaining) cells, so the enumeration is the rest of the
   first leaf followed by all cells of the following leaves *)
Definition scan_from (ls : list leaf) (start : nat) : list entry :=
  match ls with
  | [] => []
  | l :: r => skipn start (lcells l) ++ flatl r
  end.
Fixpoint seek_leaves (h : nat) (t : tree) (k : key) : list leaf :=
  match t with
  | Leaf l => [l]
  | Node _ kids r =>
      match h with
      | O => []
      | S h' =>
          let i := cidx k kids in
          seek_leaves h' (child_at kids r i) k
            ++ flat_map (fun sc : kid => leaves h' (snd sc)) (skipn (S i) kids)
            ++ (if (i <? length kids)%nat then leaves h' r else [])
      end
  end.

(* find_rightmost_nonempty: right child first, then the slots from the last to the first *)
Fixpoint first_some {A B} (f : A -> option B) (l : list A) : option B :=
  match l with [] => None | x :: r => match f x with Some y => Some y | None => first_some f r end end.
Fixpoint rnl (h : nat) (t : tree) : option leaf :=
  match t with
  | Leaf l => if lempty l then None else Some l
  | Node _ kids r =>
      match h with
      | O => None
      | S h' => first_some (rnl h') (r :: rev (map snd kids))
      end
  end.

Inductive pres := PFound (l : leaf) | PUp | PErr.
(* find_prev_leaf: descend by the last key of the current leaf, then pop: at every ancestor the left
   siblings are searched, nearest first, for their rightmost non-empty leaf *)
Fixpoint find_prev (h : nat) (t : tree) (nav : key) (cur : Z) : pres :=
  match t with
  | Leaf l => if lid l =? cur then PUp else PErr
  | Node _ kids r =>
      match h with
      | O => PErr
      | S h' =>
          let i := cidx nav kids in
          match find_prev h' (child_at kids r i) nav cur with
          | PUp => match first_some (rnl h') (rev (map snd (firstn i kids))) with
                   | Some l' => PFound l'
                   | None => PUp
                   end
          | PFound l' => PFound l'
          | PErr => PErr
          end
      end
  end.
(* prev ... from the last cell of leaf l: (entries, status); status 0 = ended by exhaustion,
   2 = navigation error, 3 = out of fuel *)
Fixpoint bwd_walk (fuel h : nat) (root : tree) (l : leaf) : list entry * Z :=
  let here := rev (lcells l) in
  match fuel with
  | O => (here, 3)
  | S f =>
      match last (map (fun c : entry => Some (fst c)) (lcells l)) None with
      | None => (here, 2)
      | Some nav =>
          match find_prev h root nav (lid l) with
          | PFound l' => let '(es, st) := bwd_walk f h root l' in (here ++ es, st)
          | PUp => (here, 0)
          | PErr => (here, 2)
          end
      end
  end.

(* ---------------------------------------------------------------- the BTree handle *)
Record state := mkState { root : tree; npages : Z; hint : option Z }.

Inductive op :=
| OInsert (k : key) (v : V) | OIine (k : key) (v : V) | OAppend (k : key) (v : V)
| OUpdate (k : key) (v : V) | ODelete (k : key) | OGet (k : key)
| OFwd (lim : nat) | OBwd (lim : nat) | OSeek (k : key) (lim : nat)
| OReopen (h : option Z).
Inductive out :=
| RUnit | RBool (b : bool) | RUniq (b : bool) | ROpt (o : option V) | RList (l : list entry) | RErr | RPanic.

(* outcome codes of the model (0 = regular).  All non-zero codes mark branches of the code that Proof/BTree*.v
   shows unreachable from a well-formed tree (they exist so that the model never hides an error path behind a
   default).  F_ZSEP was the zero-separator panic (finding F-C28-8), repaired by commit 691ce2c: no branch of the
   model produces it any more. *)
Definition F_UPD : Z := 4.      (* insert_cell failing after delete_cell inside update *)
Definition F_LEAFFULL : Z := 5. (* rebuilding a leaf half failing after the size check *)
Definition F_SEPDUP : Z := 6.   (* "separator key already exists" *)
Definition F_INTFULL : Z := 7.  (* split_interior: no split point / a half does not fit *)
Definition F_ZSEP : Z := 8.     (* HISTORICAL: `cell_count() as usize - 1` on an interior page without separators *)
Definition F_FUEL : Z := 9.
Definition F_PANIC : Z := 10.   (* any other panic branch *)

Definition err_flag (e : err) : Z :=
  match e with
  | EZeroSep => F_ZSEP | ELeafFull => F_LEAFFULL | EIntFull => F_INTFULL | ESepDup => F_SEPDUP
  | EPanic => F_PANIC | EFuel => F_FUEL | ECorrupt => F_PANIC
  end.
Definition err_out (e : err) : out := match e with EPanic | EZeroSep => RPanic | _ => RErr end.

(* try_fastpath_insert / try_append_fastpath: Some = Ok(true).  An empty hinted leaf is not accepted. *)
Definition fastpath (s : state) (e : entry) : option (err + state) :=
  match hint s with
  | None => None
  | Some p =>
      if (p <? 0) || (npages s <=? p) then None else
      let l := last_leaf (root s) in
      if negb (lid l =? p) then None else
      match last (map (fun c : entry => Some (fst c)) (lcells l)) None with
      | None => None
      | Some lk =>
          if negb (kltb lk (fst e)) then None else
          if negb (lguard l) then Some (inl EPanic) else
          if lfree l <? csize e + SLOT then None else
          Some (inr (mkState (set_last_leaf (root s) (leaf_put l (length (lcells l)) e)) (npages s) (hint s)))
      end
  end.

Definition slow_insert (m : imode) (s : state) (e : entry) : state * out * Z :=
  let h := depth (root s) in
  let rm := rm_route h (root s) (fst e) in
  let okout := match m with MIine => RUniq true | _ => RUnit end in
  match ins h m true (root s) e (npages s) with
  | IOk t np =>
      (mkState t np (if rm then Some (lid (last_leaf t)) else hint s), okout, 0)
  | ISplit L sp R np =>
      match build_kids [] [(sp, L)] with
      | inr kk => let t := Node np kk R in
                  (mkState t (np + 1) (if rm then Some (lid (last_leaf t)) else hint s), okout, 0)
      | inl er => (s, err_out er, err_flag er)
      end
  | IDup np => (mkState (root s) np (hint s), match m with MIine => RUniq false | _ => RErr end, 0)
  | IFull np => (mkState (root s) np (hint s), RErr, 0)       (* refused: the tree is untouched *)
  | IErr er => (s, err_out er, err_flag er)
  end.

Definition op_insert (m : imode) (s : state) (e : entry) : state * out * Z :=
  match (match m with MIine => None | _ => fastpath s e end) with
  | Some (inr s') => (s', RUnit, 0)
  | Some (inl er) => (s, err_out er, err_flag er)
  | None => slow_insert m s e
  end.

Definition step (s : state) (o : op) : state * out * Z :=
  let h := depth (root s) in
  match o with
  | OInsert k v => op_insert MInsert s (k, v)
  | OIine k v => op_insert MIine s (k, v)
  | OAppend k v => op_insert MAppend s (k, v)
  | ODelete k =>
      match del h (root s) k with
      | DOk t => (mkState t (npages s) (hint s), RBool true, 0)
      | DNotFound => (s, RBool false, 0)
      | DErr er => (s, err_out er, err_flag er)
      end
  | OUpdate k v =>
      match upd h (root s) k v with
      | UTOk t b => (mkState t (npages s) (hint s), RBool b, 0)
      | UTLost t => (mkState t (npages s) (hint s), RErr, F_UPD)
      | UTErr er => (s, err_out er, err_flag er)
      end
  | OGet k =>
      match route h (root s) k with
      | Some l => (s, ROpt (leaf_get l k), 0)
      | None => (s, RErr, F_FUEL)
      end
  | OFwd lim => (s, RList (firstn lim (scan_from (leaves h (root s)) 0)), 0)
  | OSeek k lim =>
      let ls := seek_leaves h (root s) k in
      let start := match ls with l :: _ => snd (lfind k (lcells l)) | [] => O end in
      (s, RList (firstn lim (scan_from ls start)), 0)
  | OBwd lim =>
      (* cursor_last: the rightmost leaf, or - when deletes emptied it - the rightmost non-empty leaf *)
      let l0 := last_leaf (root s) in
      match (if lempty l0 then rnl h (root s) else Some l0) with
      | None => (s, RList [], 0)
      | Some l =>
          let '(es, st) := bwd_walk (length (leaves h (root s))) h (root s) l in
          (s, (if st =? 2 then RErr else RList (firstn lim es)),
           if st =? 0 then 0 else if st =? 2 then F_PANIC else F_FUEL)
      end
  | OReopen hh => (mkState (root s) (npages s) hh, RUnit, 0)
  end.

Fixpoint run (s : state) (ops : list op) : list (out * Z) * state :=
  match ops with
  | [] => ([], s)
  | o :: r => let '(s', ot, f) := step s o in let '(res, sf) := run s' r in ((ot, f) :: res, sf)
  end.

(* every operation took a regular branch *)
Definition all_clear (res : list (out * Z)) : bool := forallb (fun p : out * Z => snd p =? 0) res.
Fixpoint first_flag (a : list (out * Z)) : Z :=
  match a with [] => 0 | (_, f) :: r => if f =? 0 then first_flag r else f end.
Definition abs_of (s : state) : list entry := abs (depth (root s)) (root s).

Definition init_state (rootpg np : Z) : state := mkState (Leaf (mkLeaf rootpg [] PAGE 0)) np None.

End BT.

Arguments mkLeaf {V}. Arguments lid {V}. Arguments lcells {V}. Arguments lfe {V}. Arguments lfrag {V}.
Arguments Leaf {V}. Arguments Node {V}.
Arguments IOk {V}. Arguments ISplit {V}. Arguments IDup {V}. Arguments IFull {V}. Arguments IErr {V}.
Arguments DOk {V}. Arguments DNotFound {V}. Arguments DErr {V}.
Arguments UTrue {V}. Arguments UFalse {V}. Arguments ULost {V}. Arguments UPanic {V}.
Arguments UTOk {V}. Arguments UTLost {V}. Arguments UTErr {V}.
Arguments PFound {V}. Arguments PUp {V}. Arguments PErr {V}.
Arguments OInsert {V}. Arguments OIine {V}. Arguments OAppend {V}. Arguments OUpdate {V}.
Arguments ODelete {V}. Arguments OGet {V}. Arguments OFwd {V}. Arguments OBwd {V}. Arguments OSeek {V}. Arguments OReopen {V}.
Arguments RUnit {V}. Arguments RBool {V}. Arguments RUniq {V}. Arguments ROpt {V}. Arguments RList {V}. Arguments RErr {V}. Arguments RPanic {V}.
Arguments mkState {V}. Arguments root {V}. Arguments npages {V}. Arguments hint {V}.
