(* C28 proofs, part 8: point lookup and the forward / seek cursor enumerations. *)
From Coq Require Import ZArith List Bool Lia Sorting.Permutation Sorting.Sorted.
From TV Require Import Lib.MachInt Gen.Varint Model.BTree Model.BTreeSpec Model.BTreeInv
  Proof.BTreeOrder Proof.BTreeInv Proof.BTreeLeaf.
Import ListNotations.
Open Scope Z_scope.
Arguments Z.sub : simpl never.
Arguments Z.add : simpl never.
Arguments Z.mul : simpl never.
Arguments Z.of_nat : simpl never.

Section S.
Variable V : Type.
Variable vlen : V -> Z.
Notation entry := (entry V).
Notation leaf := (leaf V).
Notation tree := (tree V).
Notation kid := (kid V).
Notation bounded := (bounded V vlen).
Notation abs := (abs V).
Notation leaves := (leaves V).
Notation keys := (keys V).
Notation kabs := (kabs V).
Notation kleaves := (kleaves V).

Definition flat (ls : list leaf) : list entry := flat_map (@lcells V) ls.

Lemma flat_sorted_each (ls : list leaf) l : ssorted V (flat ls) -> In l ls -> ssorted V (lcells l).
Proof.
  induction ls as [|x ls IH]; intros Hs Hin; [destruct Hin|]. unfold flat in Hs. cbn [flat_map] in Hs.
  apply ssorted_app in Hs as (H1 & H2 & _). destruct Hin as [<- | Hin]; [exact H1 | apply IH; assumption].
Qed.

Lemma leaf_sorted h lo hi (t : tree) l : bounded h lo hi t -> In l (leaves h t) -> ssorted V (lcells l).
Proof. intros HB Hin. eapply flat_sorted_each; [|exact Hin]. exact (abs_sorted V vlen h lo hi t HB). Qed.

(* ---------------------------------------------------------------- get *)
Lemma get_ok h lo hi (t : tree) k : bounded h lo hi t -> lo_ok lo k -> hi_ok hi k ->
  exists l, route V h t k = Some l /\ leaf_get V l k = om_get V k (abs h t).
Proof.
  intros HB Hlo Hhi. destruct (route_spec V vlen h lo hi t k HB Hlo Hhi) as (l & Hr & Hin). exists l. split; [exact Hr|].
  pose proof (route_in_leaves V h t k l Hr) as Hl. pose proof (leaf_sorted h lo hi t l HB Hl) as Hs.
  pose proof (abs_sorted V vlen h lo hi t HB) as Hsa. rewrite (leaf_get_om V l k Hs).
  destruct (om_get V k (lcells l)) as [v|] eqn:E.
  - symmetry. apply om_get_in; [exact Hsa|]. apply om_get_in in E; [|exact Hs]. eapply leaf_cells_in_abs; eassumption.
  - symmetry. destruct (om_get V k (abs h t)) as [v|] eqn:E2; [|reflexivity]. exfalso.
    apply om_get_in in E2; [|exact Hsa]. pose proof (Hin _ E2 eq_refl) as E3.
    apply (om_get_in V (lcells l) k v Hs) in E3. congruence.
Qed.

(* ---------------------------------------------------------------- forward enumeration *)
Lemma leaves_nonempty : forall h lo hi (t : tree), bounded h lo hi t -> leaves h t <> [].
Proof.
  induction h as [|h' IH]; intros lo hi t HB; destruct t as [l | id kids r]; cbn in HB; try contradiction; [discriminate|].
  destruct HB as [_ HB]. destruct (kids_bounded_right_c28 V _ _ _ _ _ HB) as (lo' & Hr). rewrite leaves_node. unfold BTreeInv.kleaves.
  intros E. apply app_eq_nil in E as [_ E]. exact (IH _ _ _ Hr E).
Qed.

Lemma fwd_ok h lo hi (t : tree) : bounded h lo hi t -> scan_from V (leaves h t) 0 = abs h t.
Proof.
  intros HB. unfold BTree.abs. pose proof (leaves_nonempty h lo hi t HB). destruct (leaves h t) as [|l r]; [contradiction|]. reflexivity.
Qed.

(* ---------------------------------------------------------------- seek *)
Lemma lfind_split k (cs : list entry) : ssorted V cs ->
  (forall x, In x (firstn (snd (lfind V k cs)) cs) -> klt (fst x) k)
  /\ (forall x, In x (skipn (snd (lfind V k cs)) cs) -> ~ klt (fst x) k).
Proof.
  induction cs as [|c cs IH]; intros Hs; [split; intros x []|].
  apply ssorted_cons_inv in Hs as [Hs Hf]. rewrite Forall_forall in Hf. cbn [lfind].
  destruct (kcmp k (fst c)) eqn:E.
  - cbn [snd firstn skipn]. split; [intros x []|]. intros x [<- | Hx] H1.
    + apply kcmp_eq in E. rewrite E in H1. exact (klt_irrefl _ H1).
    + apply kcmp_eq in E. specialize (Hf _ Hx). unfold elt in Hf. rewrite <- E in Hf. exact (klt_asym _ _ Hf H1).
  - cbn [snd firstn skipn]. split; [intros x []|]. intros x [<- | Hx] H1.
    + exact (klt_asym _ _ E H1).
    + specialize (Hf _ Hx). exact (klt_asym _ _ (klt_trans _ _ _ E Hf) H1).
  - destruct (IH Hs) as [I1 I2]. destruct (lfind V k cs) as [f i]. cbn [snd firstn skipn] in *. split.
    + intros x [<- | Hx]; [apply kcmp_gt_lt; exact E | apply I1; exact Hx].
    + exact I2.
Qed.

Definition seekk (h' : nat) (kids : list kid) (r : tree) (k : key) : list leaf :=
  let i := cidx V k kids in
  seek_leaves V h' (child_at V kids r i) k
    ++ flat_map (fun sc : kid => leaves h' (snd sc)) (skipn (S i) kids)
    ++ (if (i <? length kids)%nat then leaves h' r else []).

Definition tail_ge (ls : list leaf) (k : key) : Prop :=
  match ls with [] => True | _ :: rest => forall x, In x (flat rest) -> ~ klt (fst x) k end.

Lemma seek_decomp : forall h lo hi (t : tree) k, bounded h lo hi t -> lo_ok lo k -> hi_ok hi k ->
  (exists A, abs h t = A ++ flat (seek_leaves V h t k) /\ (forall x, In x A -> klt (fst x) k))
  /\ tail_ge (seek_leaves V h t k) k /\ seek_leaves V h t k <> [].
Proof.
  induction h as [|h' IH]; intros lo hi t k HB Hlo Hhi; destruct t as [l | id kids r]; cbn in HB; try contradiction.
  - split; [|split; [intros x []| discriminate]]. exists []. split; [|intros x []]. rewrite abs_leaf. cbn. rewrite app_nil_r. reflexivity.
  - destruct HB as [_ HB]. rewrite abs_node. change (seek_leaves V (S h') (Node id kids r) k) with (seekk h' kids r k).
    revert lo HB Hlo. induction kids as [|sc rest IHk]; intros lo HB Hlo.
    + unfold seekk. cbn [cidx child_at nth_error skipn flat_map length Nat.ltb Nat.leb app]. rewrite app_nil_r, kabs_nil. eapply IH; eassumption.
    + destruct HB as (H1 & H2 & H3 & H4). rewrite kabs_cons. unfold seekk. cbn [cidx]. destruct (kltb k (fst sc)) eqn:E.
      * apply kltb_true in E. destruct (IH _ _ _ k H3 Hlo E) as ((A & HA1 & HA2) & Htl & Hne).
        cbn [child_at nth_error skipn length]. change (0 <? S (length rest))%nat with true.
        split; [|split].
        -- exists A. split; [|exact HA2]. rewrite HA1. unfold flat, kabs, kleaves. rewrite !flat_map_app, <- app_assoc. reflexivity.
        -- destruct (seek_leaves V h' (snd sc) k) as [|l0 tl] eqn:Es; [contradiction|]. cbn [app tail_ge] in *.
           intros x Hx. unfold flat in Hx. rewrite flat_map_app in Hx. apply in_app_or in Hx as [Hx | Hx]; [apply Htl; exact Hx|].
           pose proof (kabs_in_bounds V vlen h' (abs_in_bounds V vlen h') _ _ _ _ H4) as B. unfold BTreeInv.cells_in in B. rewrite Forall_forall in B.
           assert (Hxk : In x (kabs h' rest r)) by (unfold BTreeInv.kabs, BTreeInv.kleaves; exact Hx).
           destruct (B _ Hxk) as [B1 _]. cbn in B1. intros Hlt. apply B1. eapply klt_trans; eassumption.
        -- destruct (seek_leaves V h' (snd sc) k); [contradiction | discriminate].
      * apply kltb_false in E. destruct (IHk (Some (fst sc)) H4 E) as ((A & HA1 & HA2) & Htl & Hne).
        unfold seekk in HA1, Htl, Hne. cbn [child_at nth_error skipn length].
        split; [|split; [exact Htl | exact Hne]].
        exists (abs h' (snd sc) ++ A). split.
        -- rewrite HA1, <- app_assoc. reflexivity.
        -- intros x Hx. apply in_app_or in Hx as [Hx | Hx]; [|apply HA2; exact Hx].
           pose proof (abs_in_bounds V vlen _ _ _ _ H3) as B. unfold BTreeInv.cells_in in B. rewrite Forall_forall in B.
           destruct (B _ Hx) as [_ B2]. cbn in B2. eapply lt_nlt_trans; [exact B2 | exact E].
Qed.

Lemma seek_head : forall h lo hi (t : tree) k, bounded h lo hi t -> lo_ok lo k -> hi_ok hi k ->
  exists l rest, seek_leaves V h t k = l :: rest /\ route V h t k = Some l.
Proof.
  induction h as [|h' IH]; intros lo hi t k HB Hlo Hhi; destruct t as [l | id kids r]; cbn in HB; try contradiction.
  - exists l, []. split; reflexivity.
  - destruct HB as [_ HB]. destruct (kids_child V _ kids lo hi r k HB Hlo Hhi) as (Hc & Hl & Hh).
    destruct (IH _ _ _ k Hc Hl Hh) as (l & rest & E1 & E2). cbn [seek_leaves route]. rewrite E1, E2.
    eexists. eexists. split; [cbn [app]; reflexivity | reflexivity].
Qed.

Lemma om_seek_head (b : list entry) k x b' : b = x :: b' -> ~ klt (fst x) k -> om_seek V k b = b.
Proof. intros -> H. cbn. assert (E : kltb (fst x) k = false) by (apply kltb_false; exact H). rewrite E. reflexivity. Qed.

Lemma om_seek_all_ge (b : list entry) k : (forall x, In x b -> ~ klt (fst x) k) -> om_seek V k b = b.
Proof. intros H. destruct b as [|x b']; [reflexivity|]. eapply om_seek_head; [reflexivity | apply H; left; reflexivity]. Qed.

Lemma seek_ok h lo hi (t : tree) k : bounded h lo hi t -> lo_ok lo k -> hi_ok hi k ->
  let ls := seek_leaves V h t k in
  let start := match ls with l :: _ => snd (lfind V k (lcells l)) | [] => O end in
  scan_from V ls start = om_seek V k (abs h t).
Proof.
  intros HB Hlo Hhi ls start.
  destruct (seek_decomp h lo hi t k HB Hlo Hhi) as ((A & HA1 & HA2) & Htl & _).
  destruct (seek_head h lo hi t k HB Hlo Hhi) as (l & rest & E1 & E2).
  fold ls in HA1, E1, Htl. unfold start in *. clear start. rewrite E1 in *. rewrite HA1, om_seek_app by exact HA2.
  pose proof (leaf_sorted h lo hi t l HB (route_in_leaves V h t k l E2)) as Hs.
  destruct (lfind_split k (lcells l) Hs) as [S1 S2]. set (i := snd (lfind V k (lcells l))) in *.
  unfold flat. cbn [flat_map scan_from tail_ge] in *.
  replace (lcells l ++ flat_map (@lcells V) rest) with (firstn i (lcells l) ++ (skipn i (lcells l) ++ flat_map (@lcells V) rest))
    by (rewrite app_assoc, firstn_skipn; reflexivity).
  rewrite om_seek_app by exact S1. symmetry. apply om_seek_all_ge.
  intros x Hx. apply in_app_or in Hx as [Hx | Hx]; [apply S2; exact Hx | apply Htl; exact Hx].
Qed.

End S.
