(* C32 proofs, part 1: arithmetic reading of the regenerated entry-word accessors (Gen/JsonbBits.v)
   and of the `|`-compositions of the builder; little-endian byte strings; slice reads. *)
From Coq Require Import ZArith List Bool Lia ZifyBool.
From TV Require Import Lib.MachInt Lib.MachIntFacts Gen.JsonbBits Model.Jsonb.
Import ListNotations.
Open Scope Z_scope.

Ltac Zify.zify_post_hook ::= Z.to_euclidean_division_equations.

(* ------------------------------------------------------------------ masks as div / mod *)
Lemma land_mask_shift x k n :
  0 <= k -> 0 <= n ->
  Z.land x (Z.shiftl (Z.ones n) k) = Z.shiftl (Z.land (Z.shiftr x k) (Z.ones n)) k.
Proof.
  intros Hk Hn. apply Z.bits_inj'. intros m Hm.
  rewrite Z.land_spec.
  destruct (Z.ltb_spec m k) as [Hlt|Hge].
  - rewrite !Z.shiftl_spec_low by lia. apply andb_false_r.
  - rewrite !Z.shiftl_spec by lia. rewrite Z.land_spec, Z.shiftr_spec by lia.
    replace (m - k + k) with m by lia. reflexivity.
Qed.

Lemma land_field x k n :
  0 <= x -> 0 <= k -> 0 <= n ->
  Z.land x (Z.ones n * 2 ^ k) / 2 ^ k = (x / 2 ^ k) mod 2 ^ n.
Proof.
  intros Hx Hk Hn.
  rewrite <- Z.shiftl_mul_pow2 by lia.
  rewrite land_mask_shift by lia.
  rewrite Z.shiftl_mul_pow2 by lia.
  rewrite Z.div_mul by (apply Z.pow_nonzero; lia).
  rewrite Z.land_ones by lia. rewrite Z.shiftr_div_pow2 by lia. reflexivity.
Qed.

Lemma entry_offset_mod e : 0 <= e -> entry_offset e = e mod 2 ^ 24.
Proof.
  intros He. unfold entry_offset, OFFSET_MASK.
  change 16777215 with (Z.ones 24). apply Z.land_ones. lia.
Qed.

Lemma entry_type_div e : 0 <= e -> entry_type e = (e / 2 ^ 24) mod 64.
Proof.
  intros He. unfold entry_type.
  replace TYPE_MASK with (Z.ones 6 * 2 ^ 24) by (vm_compute; reflexivity).
  change (2 ^ TYPE_SHIFT) with (2 ^ 24).
  rewrite land_field by lia. change (2 ^ 6) with 64.
  unfold wrap_u. change (2 ^ 8) with 256.
  assert (0 <= (e / 2 ^ 24) mod 64 < 64) by (apply Z.mod_pos_bound; lia).
  apply Z.mod_small. lia.
Qed.

Lemma entry_is_key_bit e : 0 <= e -> entry_is_key e = negb ((e / 2 ^ 31) mod 2 =? 0).
Proof.
  intros He. unfold entry_is_key.
  replace FLAG_IS_KEY with (Z.ones 1 * 2 ^ 31) by (vm_compute; reflexivity).
  pose proof (land_field e 31 1 He ltac:(lia) ltac:(lia)) as H.
  change (2 ^ 1) with 2 in H.
  assert (Hm : Z.land e (Z.ones 1 * 2 ^ 31) = ((e / 2 ^ 31) mod 2) * 2 ^ 31).
  { rewrite <- Z.shiftl_mul_pow2 by lia. rewrite land_mask_shift by lia.
    rewrite Z.shiftl_mul_pow2 by lia. rewrite Z.land_ones by lia.
    rewrite Z.shiftr_div_pow2 by lia. reflexivity. }
  rewrite Hm. f_equal.
  assert (0 <= (e / 2 ^ 31) mod 2 < 2) by (apply Z.mod_pos_bound; lia).
  change (2 ^ 31) with 2147483648. lia.
Qed.

(* ------------------------------------------------------------------ `|` of disjoint fields is `+` *)
Lemma lor_disjoint a b k :
  0 <= k -> 0 <= b < 2 ^ k -> Z.lor (a * 2 ^ k) b = a * 2 ^ k + b.
Proof.
  intros Hk Hb.
  assert (Hl : Z.land (a * 2 ^ k) b = 0).
  { apply Z.bits_inj'. intros m Hm. rewrite Z.land_spec, Z.bits_0.
    destruct (Z.ltb_spec m k).
    - rewrite Z.mul_pow2_bits_low by lia. reflexivity.
    - replace b with (b mod 2 ^ k) by (apply Z.mod_small; lia).
      rewrite Z.mod_pow2_bits_high by lia. apply andb_false_r. }
  rewrite <- Z.lxor_lor by exact Hl. symmetry. apply Z.add_nocarry_lxor. exact Hl.
Qed.

(* an entry word c * 2^24 + off, 0 <= c < 256, 0 <= off < 2^24 *)
Lemma word_fields c off :
  0 <= c < 256 -> 0 <= off < 2 ^ 24 ->
  let w := c * 2 ^ 24 + off in
  0 <= w < 2 ^ 32 /\ entry_offset w = off /\ entry_type w = c mod 64 /\ entry_is_key w = (128 <=? c).
Proof.
  intros Hc Ho w. subst w.
  change (2 ^ 24) with 16777216 in *. change (2 ^ 32) with 4294967296.
  assert (Hw : 0 <= c * 16777216 + off) by lia.
  split; [lia|].
  rewrite entry_offset_mod, entry_type_div, entry_is_key_bit by exact Hw.
  change (2 ^ 24) with 16777216. change (2 ^ 31) with 2147483648.
  repeat split; lia.
Qed.

Lemma entry_word_var it c off :
  it_var it = true -> it_word it = c * 2 ^ 24 -> 0 <= off < 2 ^ 24 ->
  entry_word it off = c * 2 ^ 24 + off.
Proof.
  intros Hv Hw Ho. unfold entry_word. rewrite Hv, Hw.
  rewrite wrap_u_small by (change (2 ^ 24) with 16777216 in Ho; change (2 ^ 32) with 4294967296; lia).
  unfold OFFSET_MASK. change 16777215 with (Z.ones 24). rewrite Z.land_ones by lia.
  rewrite Z.mod_small by lia. apply lor_disjoint; lia.
Qed.

(* ------------------------------------------------------------------ little-endian byte strings *)
Lemma le_bytes_length n v : length (le_bytes n v) = n.
Proof. revert v. induction n as [|n IH]; intros v; cbn [le_bytes length]; [reflexivity|]. rewrite IH. reflexivity. Qed.

Lemma blen_le_bytes n v : blen (le_bytes n v) = Z.of_nat n.
Proof. unfold blen. rewrite le_bytes_length. reflexivity. Qed.

Lemma from_le_le_bytes n v : 0 <= v -> from_le (le_bytes n v) = v mod 2 ^ (8 * Z.of_nat n).
Proof.
  revert v. induction n as [|n IH]; intros v Hv.
  - cbn [le_bytes from_le]. change (2 ^ (8 * Z.of_nat 0)) with 1. rewrite Z.mod_1_r. reflexivity.
  - cbn [le_bytes from_le]. rewrite IH by (apply Z.div_pos; lia).
    replace (8 * Z.of_nat (S n)) with (8 + 8 * Z.of_nat n) by lia.
    rewrite Z.pow_add_r by lia. change (2 ^ 8) with 256.
    set (m := 2 ^ (8 * Z.of_nat n)).
    assert (Hm : 0 < m) by (apply Z.pow_pos_nonneg; lia).
    rewrite (Z.rem_mul_r v 256 m) by lia. lia.
Qed.

Lemma u32le_length x : blen (u32le x) = 4.
Proof. unfold u32le. rewrite blen_le_bytes. reflexivity. Qed.
Lemma u16le_length x : blen (u16le x) = 2.
Proof. unfold u16le. rewrite blen_le_bytes. reflexivity. Qed.

Lemma from_le_u32le x : 0 <= x < 2 ^ 32 -> from_le (u32le x) = x.
Proof.
  intros Hx. unfold u32le. rewrite wrap_u_small by exact Hx.
  rewrite from_le_le_bytes by lia. apply Z.mod_small. exact Hx.
Qed.
Lemma from_le_u16le x : 0 <= x < 2 ^ 16 -> from_le (u16le x) = x.
Proof.
  intros Hx. unfold u16le. rewrite wrap_u_small by exact Hx.
  rewrite from_le_le_bytes by lia. apply Z.mod_small. exact Hx.
Qed.
Lemma from_le_le8 x : 0 <= x < 2 ^ 64 -> from_le (le_bytes 8 x) = x.
Proof. intros Hx. rewrite from_le_le_bytes by lia. apply Z.mod_small. exact Hx. Qed.

(* ------------------------------------------------------------------ slice reads *)
Lemma skipn_app_exact {A} (x r : list A) : skipn (length x) (x ++ r) = r.
Proof. induction x; cbn; auto. Qed.
Lemma firstn_app_exact {A} (x r : list A) : firstn (length x) (x ++ r) = x.
Proof. induction x; cbn; f_equal; auto. Qed.

Lemma sub_mid x p r : sub (x ++ p ++ r) (blen x) (blen p) = Ok p.
Proof.
  unfold sub. pose proof (blen_nonneg x). pose proof (blen_nonneg p). pose proof (blen_nonneg r).
  rewrite !blen_app.
  replace ((0 <=? blen x) && (0 <=? blen p) && (blen x + blen p <=? blen x + (blen p + blen r))) with true by lia.
  unfold blen. rewrite !Nat2Z.id. rewrite skipn_app_exact, firstn_app_exact. reflexivity.
Qed.

Lemma sub_mid' l x p r lo n : l = x ++ p ++ r -> lo = blen x -> n = blen p -> sub l lo n = Ok p.
Proof. intros -> -> ->. apply sub_mid. Qed.

Lemma from_app x r : from (x ++ r) (blen x) = Ok r.
Proof.
  unfold from. pose proof (blen_nonneg x). pose proof (blen_nonneg r). rewrite blen_app.
  replace ((0 <=? blen x) && (blen x <=? blen x + blen r)) with true by lia.
  unfold blen. rewrite Nat2Z.id, skipn_app_exact. reflexivity.
Qed.
