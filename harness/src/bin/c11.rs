//! C11 "every stored value reads back unchanged": short histories of INSERT / UPDATE / DELETE /
//! close+reopen on one table `t (k BIGINT [PRIMARY KEY], c <TYPE>)` are run through the real
//! `Database` (SQL API; literal, execute_with_params and prepared-statement paths); every `Q` step
//! reads the whole table back and the values seen (type tag + exact bits/bytes) are printed for
//! coq/Corr/C11.v to judge.  Direct calls of the public helpers of src/storage/toast.rs (pointer
//! codec, chunk keys, chunk_count, needs_toast, is_toast_pointer) are compared with the model too.
//!
//! replay lines:
//!   h ty=<TYPE> wal=<0|1> pk=<0|1> ops=<op> <op> ...
//!     I<p>:<k>=<val>   INSERT INTO t VALUES (k, val)       p = L literal | P execute_with_params | S the session's prepared statement (bind, execute)
//!     U<p>:<k>=<val>   UPDATE t SET c = val WHERE k = k
//!     D:<k>            DELETE FROM t WHERE k = k
//!     X                close the database and open it again
//!     Q<s>             read back:  s=0 SELECT k, c FROM t | 1 SELECT * FROM t WHERE k = <k> (per key) | 2 SELECT k, c FROM t ORDER BY k
//!   ptr rid=<u64> col=<u16> size=<u64>        ToastPointer::new / encode / decode / row_id / column_index / is_toast_pointer
//!   dec <bytes>                               ToastPointer::decode + is_toast_pointer on arbitrary bytes
//!   key id=<u64> seq=<u32>                    make_chunk_key / parse_chunk_key
//!   cnt n=<usize>                             chunk_count, needs_toast (on n zero bytes)
//! value tokens: N | b0 b1 | i<dec> | f<hex u64> | T<bytes> (text, must be UTF-8) | B<bytes> (blob) |
//!   d<dec> (date) m<dec> (time) s<dec> (timestamp) | u<hex 16 bytes> | j<hex of JSON text> | v<hex u32>.<hex u32>..
//! bytes: segments joined by '+': hex digits | r<count>x<hh> (run) | g<kind><len>s<seed> (generated:
//!   a ascii, q ascii with quotes/backslashes, u unicode of all planes, r random bytes);  '-' = empty
//! A trailing `class=<n>` token (written by search mode) is ignored when parsing.
//! Kept out of the generated histories because they belong to other properties: on a PRIMARY KEY table a
//! re-executed prepared INSERT with a key below an earlier one leaves the pk index unsorted (WHERE k = x then
//! misses rows), and `SELECT c, k .. ORDER BY k` returns the columns in table order.
use std::io::Write as _;
use std::panic::AssertUnwindSafe;
use turdb::storage::toast as ts;
use turdb::{Database, OwnedValue};
use tvh::*;

// ---------------------------------------------------------------- byte strings
fn gen_bytes(kind: char, len: usize, seed: u64) -> Vec<u8> {
    let mut r = Rng::new(seed ^ 0xC11);
    let mut out: Vec<u8> = Vec::with_capacity(len + 4);
    match kind {
        'a' => { let al = b"abcdefghijklmnopqrstuvwxyzABCDEFGHIJKLMNOPQRSTUVWXYZ0123456789 _-"; while out.len() < len { out.push(*r.pick(&al[..])); } }
        'q' => { let al = b"ab'\"\\%_;-- \n\t\0x?$1[]{}()"; while out.len() < len { out.push(*r.pick(&al[..])); } }
        'r' => { out = r.bytes(len); }
        'u' => {
            // code points of all planes / widths; padded with ASCII to the exact length
            while out.len() < len {
                let room = len - out.len();
                let c = match r.below(8) {
                    0 => r.below(0x80) as u32,
                    1 => 0x80 + r.below(0x780) as u32,
                    2 => { let x = 0x800 + r.below(0xF800) as u32; if (0xD800..0xE000).contains(&x) { 0xFFFD } else { x } }
                    3 => 0x10000 + r.below(0x100000) as u32,
                    4 => *r.pick(&[0x7Fu32, 0x80, 0x7FF, 0x800, 0xFFFF, 0x10000, 0x10FFFF, 0xD7FF, 0xE000, 0xFEFF, 0xFFFE]),
                    5 => 0x1F600 + r.below(80) as u32,
                    6 => 0x4E00 + r.below(0x5000) as u32,
                    _ => 0x300 + r.below(0x70) as u32,
                };
                let ch = char::from_u32(c).unwrap_or('?');
                if ch.len_utf8() <= room { let mut b = [0u8; 4]; out.extend_from_slice(ch.encode_utf8(&mut b).as_bytes()); } else { out.push(b'.'); }
            }
        }
        _ => { out = vec![0; len]; }
    }
    out
}

fn dec_bytes(s: &str) -> Option<Vec<u8>> {
    let mut out = vec![];
    if s == "-" || s.is_empty() { return Some(out); }
    for seg in s.split('+') {
        if let Some(r) = seg.strip_prefix('r') {
            let mut it = r.split('x');
            let n: usize = it.next()?.parse().ok()?;
            let x = u8::from_str_radix(it.next()?, 16).ok()?;
            out.extend(std::iter::repeat(x).take(n));
        } else if let Some(r) = seg.strip_prefix('g') {
            let kind = r.chars().next()?;
            let mut it = r[1..].split('s');
            let n: usize = it.next()?.parse().ok()?;
            let seed: u64 = it.next()?.parse().ok()?;
            out.extend(gen_bytes(kind, n, seed));
        } else {
            if seg.len() % 2 != 0 || !seg.bytes().all(|c| c.is_ascii_hexdigit()) { return None; }
            out.extend(unhex(seg));
        }
    }
    Some(out)
}

fn bhash(b: &[u8]) -> u64 {
    let mut h: u64 = 1469598103934665603 & ((1u64 << 61) - 1);
    for x in b { h = (h.wrapping_mul(1099511628211) ^ (*x as u64)) & ((1u64 << 61) - 1); }
    h
}

fn segs_of(b: &[u8]) -> Vec<(u8, usize)> {
    let mut segs: Vec<(u8, usize)> = vec![];
    for x in b { match segs.last_mut() { Some((y, n)) if *y == *x => *n += 1, _ => segs.push((*x, 1)) } }
    segs
}

/// Corr.C11.bdesc of a byte string: a reference to the value written at an earlier step when the bytes
/// are the same, else literal / run-length
fn coq_bytes(b: &[u8], env: &[Vec<u8>], upto: usize) -> String {
    if b.len() > 16 {
        for (i, e) in env.iter().enumerate().take(upto) { if e.as_slice() == b { return format!("(BRef {})", i); } }
    }
    if b.len() <= 48 { return format!("(BLit {})", cbytes(b)); }
    let segs = segs_of(b);
    if segs.len() * 3 <= b.len() {
        let parts: Vec<String> = segs.iter().map(|(x, n)| format!("({}, {})", n, x)).collect();
        return format!("(BRuns {})", clist(&parts));
    }
    format!("(BLit {})", cbytes(b))
}

// ---------------------------------------------------------------- values
#[derive(Clone, Debug, PartialEq)]
enum Val { Null, Bool(bool), Int(i64), Float(u64), Text(Vec<u8>), Blob(Vec<u8>), Date(i32), Time(i64), Ts(i64), Uuid([u8; 16]), Json(Vec<u8>), Vector(Vec<u32>) }

fn parse_val(t: &str) -> Option<Val> {
    if t.is_empty() { return None; }
    let (h, r) = t.split_at(1);
    Some(match h {
        "N" => Val::Null,
        "b" => Val::Bool(r == "1"),
        "i" => Val::Int(r.parse().ok()?),
        "f" => Val::Float(u64::from_str_radix(r, 16).ok()?),
        "T" => { let b = dec_bytes(r)?; if std::str::from_utf8(&b).is_err() { return None; } Val::Text(b) }
        "B" => Val::Blob(dec_bytes(r)?),
        "d" => Val::Date(r.parse().ok()?),
        "m" => Val::Time(r.parse().ok()?),
        "s" => Val::Ts(r.parse().ok()?),
        "u" => { let b = unhex(r); if b.len() != 16 { return None; } let mut a = [0u8; 16]; a.copy_from_slice(&b); Val::Uuid(a) }
        "j" => { let b = unhex(r); if std::str::from_utf8(&b).is_err() { return None; } Val::Json(b) }
        "v" => { let mut v = vec![]; if !r.is_empty() { for x in r.split('.') { v.push(u32::from_str_radix(x, 16).ok()?); } } Val::Vector(v) }
        _ => return None,
    })
}

fn civil(days: i64) -> (i64, u32, u32) {
    let z = days + 719468;
    let era = z.div_euclid(146097);
    let doe = z.rem_euclid(146097);
    let yoe = (doe - doe / 1460 + doe / 36524 - doe / 146096) / 365;
    let y = yoe + era * 400;
    let doy = doe - (365 * yoe + yoe / 4 - yoe / 100);
    let mp = (5 * doy + 2) / 153;
    let d = (doy - (153 * mp + 2) / 5 + 1) as u32;
    let m = if mp < 10 { mp + 3 } else { mp - 9 } as u32;
    (if m <= 2 { y + 1 } else { y }, m, d)
}
fn time_str(us: i64) -> String {
    let s = us.div_euclid(1_000_000); let f = us.rem_euclid(1_000_000);
    format!("{:02}:{:02}:{:02}.{:06}", s / 3600, (s / 60) % 60, s % 60, f)
}
fn date_str(d: i64) -> String { let (y, m, dd) = civil(d); format!("{:04}-{:02}-{:02}", y, m, dd) }

/// SQL literal of a value (None: this value has no literal form here, e.g. NaN, exponent notation)
fn literal(v: &Val) -> Option<String> {
    Some(match v {
        Val::Null => "NULL".into(),
        Val::Bool(b) => if *b { "TRUE".into() } else { "FALSE".into() },
        Val::Int(i) => i.to_string(),
        Val::Float(bits) => { let f = f64::from_bits(*bits); if !f.is_finite() { return None; } let s = format!("{:?}", f); if s.contains('e') { return None; } s }
        Val::Text(b) => format!("'{}'", std::str::from_utf8(b).ok()?.replace('\'', "''")),
        Val::Blob(b) => format!("X'{}'", hex(b)),
        Val::Date(d) => format!("'{}'", date_str(*d as i64)),
        Val::Time(t) => format!("'{}'", time_str(*t)),
        Val::Ts(t) => format!("'{} {}'", date_str(t.div_euclid(86_400_000_000)), time_str(t.rem_euclid(86_400_000_000))),
        Val::Uuid(u) => { let h = hex(u); format!("'{}-{}-{}-{}-{}'", &h[0..8], &h[8..12], &h[12..16], &h[16..20], &h[20..32]) }
        Val::Json(b) => format!("'{}'", std::str::from_utf8(b).ok()?.replace('\'', "''")),
        Val::Vector(v) => { let parts: Vec<String> = v.iter().map(|x| { let f = f32::from_bits(*x); let s = format!("{:?}", f); if f.is_finite() && !s.contains('e') { Some(s) } else { None } }).collect::<Option<Vec<_>>>()?; format!("'[{}]'", parts.join(",")) }
    })
}

/// the bound parameter for a value (Json: the JSONB bytes the implementation's own text->JSONB conversion gives)
fn param(v: &Val, jsonb: Option<&Vec<u8>>) -> Option<OwnedValue> {
    Some(match v {
        Val::Null => OwnedValue::Null,
        Val::Bool(b) => OwnedValue::Bool(*b),
        Val::Int(i) => OwnedValue::Int(*i),
        Val::Float(bits) => OwnedValue::Float(f64::from_bits(*bits)),
        Val::Text(b) => OwnedValue::Text(String::from_utf8(b.clone()).ok()?),
        Val::Blob(b) => OwnedValue::Blob(b.clone()),
        Val::Date(d) => OwnedValue::Date(*d),
        Val::Time(t) => OwnedValue::Time(*t),
        Val::Ts(t) => OwnedValue::Timestamp(*t),
        Val::Uuid(u) => OwnedValue::Uuid(*u),
        Val::Json(_) => OwnedValue::Jsonb(jsonb?.clone()),
        Val::Vector(v) => OwnedValue::Vector(v.iter().map(|x| f32::from_bits(*x)).collect()),
    })
}

/// what the value is expected to read back as (Json text: its JSONB bytes, from the oracle)
fn expected(v: &Val, jsonb: Option<&Vec<u8>>) -> Option<OwnedValue> { param(v, jsonb) }

fn val_env_bytes(v: &Val, jsonb: Option<&Vec<u8>>) -> Vec<u8> {
    match v { Val::Text(b) | Val::Blob(b) => b.clone(), Val::Json(_) => jsonb.cloned().unwrap_or_default(), _ => vec![] }
}

fn coq_val(v: &Val, jsonb: Option<&Vec<u8>>, env: &[Vec<u8>], upto: usize) -> String {
    match v {
        Val::Null => "CNull".into(),
        Val::Bool(b) => format!("(CBool {})", cbool(*b)),
        Val::Int(i) => format!("(CInt {})", z(*i)),
        Val::Float(b) => format!("(CFloat {})", b),
        Val::Text(b) => format!("(CText {})", coq_bytes(b, env, upto)),
        Val::Blob(b) => format!("(CBlob {})", coq_bytes(b, env, upto)),
        Val::Date(d) => format!("(CDate {})", z(*d)),
        Val::Time(t) => format!("(CTime {})", z(*t)),
        Val::Ts(t) => format!("(CTs {})", z(*t)),
        Val::Uuid(u) => format!("(CUuid {})", cbytes(u)),
        Val::Json(_) => format!("(CJsonb {})", coq_bytes(jsonb.map(|x| x.as_slice()).unwrap_or(&[]), env, upto)),
        Val::Vector(v) => format!("(CVec {})", clist(&v.iter().map(|x| x.to_string()).collect::<Vec<_>>())),
    }
}

/// what SELECT returned, as a Coq term (anything the case language has no constructor for is COther)
fn coq_owned(v: &OwnedValue, env: &[Vec<u8>]) -> String {
    let n = env.len();
    match v {
        OwnedValue::Null => "CNull".into(),
        OwnedValue::Bool(b) => format!("(CBool {})", cbool(*b)),
        OwnedValue::Int(i) => format!("(CInt {})", z(*i)),
        OwnedValue::Float(f) => format!("(CFloat {})", f.to_bits()),
        OwnedValue::Text(s) => format!("(CText {})", coq_bytes(s.as_bytes(), env, n)),
        OwnedValue::Blob(b) => format!("(CBlob {})", coq_bytes(b, env, n)),
        OwnedValue::Date(d) => format!("(CDate {})", z(*d)),
        OwnedValue::Time(t) => format!("(CTime {})", z(*t)),
        OwnedValue::Timestamp(t) => format!("(CTs {})", z(*t)),
        OwnedValue::Uuid(u) => format!("(CUuid {})", cbytes(u)),
        OwnedValue::Jsonb(b) => format!("(CJsonb {})", coq_bytes(b, env, n)),
        OwnedValue::Vector(v) => format!("(CVec {})", clist(&v.iter().map(|x| x.to_bits().to_string()).collect::<Vec<_>>())),
        OwnedValue::ToastPointer(b) => format!("(CPtr {})", coq_bytes(b, env, n)),
        _ => "COther".into(),
    }
}

/// bit-exact equality of two read-back values (floats by bits)
fn same_value(a: &OwnedValue, b: &OwnedValue) -> bool {
    match (a, b) {
        (OwnedValue::Float(x), OwnedValue::Float(y)) => x.to_bits() == y.to_bits(),
        (OwnedValue::Vector(x), OwnedValue::Vector(y)) => x.len() == y.len() && x.iter().zip(y.iter()).all(|(p, q)| p.to_bits() == q.to_bits()),
        _ => a == b,
    }
}

// ---------------------------------------------------------------- histories
#[derive(Clone, Debug)]
enum Op { Ins(char, i64, Val), Upd(char, i64, Val), Del(i64), Reopen, Query(u8) }
#[derive(Clone, Debug)]
struct Hist { ty: String, wal: bool, pk: bool, ops: Vec<Op>, src: Vec<String> }

fn parse_hist(l: &str) -> Option<Hist> {
    let l = l.strip_prefix("h ")?;
    let i = l.find("ops=")?;
    let (head, opstr) = (&l[..i], &l[i + 4..]);
    let mut ty = "TEXT".to_string();
    let mut wal = false;
    let mut pk = false;
    for t in head.split_whitespace() {
        if let Some(v) = t.strip_prefix("pk=") { pk = v == "1"; }
        if let Some(v) = t.strip_prefix("ty=") { ty = v.to_string(); }
        if let Some(v) = t.strip_prefix("wal=") { wal = v == "1"; }
    }
    if !ty.bytes().all(|c| c.is_ascii_alphanumeric() || c == b'(' || c == b')') { return None; }
    let mut ops = vec![];
    let mut src = vec![];
    for t in opstr.split_whitespace() {
        if t.starts_with("class=") { continue; }
        let op = if t == "X" { Op::Reopen }
        else if let Some(r) = t.strip_prefix("Q") { Op::Query(r.parse().ok()?) }
        else if let Some(r) = t.strip_prefix("D:") { Op::Del(r.parse().ok()?) }
        else if t.starts_with('I') || t.starts_with('U') {
            let p = t.chars().nth(1)?;
            if !"LPS".contains(p) { return None; }
            if t.as_bytes().get(2) != Some(&b':') { return None; }
            let rest = t.get(3..)?;
            let eq = rest.find('=')?;
            let k: i64 = rest[..eq].parse().ok()?;
            let v = parse_val(&rest[eq + 1..])?;
            if t.starts_with('I') { Op::Ins(p, k, v) } else { Op::Upd(p, k, v) }
        } else { return None };
        ops.push(op);
        src.push(t.to_string());
    }
    Some(Hist { ty, wal, pk, ops, src })
}

fn show_hist(h: &Hist) -> String { format!("h ty={} wal={} pk={} ops={}", h.ty, h.wal as u8, h.pk as u8, h.src.join(" ")) }

fn coq_ty(ty: &str) -> &'static str {
    let u = ty.to_ascii_uppercase();
    if u == "TEXT" || u.starts_with("VARCHAR") { "TText" } else if u == "BLOB" { "TBlob" } else { "TScalar" }
}

fn open_session(path: &std::path::Path, create: bool, wal: bool) -> Result<Database, String> {
    let db = if create { Database::create(path) } else { Database::open(path) }.map_err(|e| format!("{:#}", e))?;
    if wal { db.execute("PRAGMA wal=ON").map_err(|e| format!("{:#}", e))?; }
    Ok(db)
}

fn tmp_dir(tag: &str) -> std::path::PathBuf {
    let shm = std::path::Path::new("/dev/shm");
    let base = if shm.is_dir() { shm.join("tv-c11") } else { std::path::Path::new(env!("CARGO_MANIFEST_DIR")).join("../build/tmp") };
    let _ = std::fs::create_dir_all(&base);
    base.join(format!("c11-{}-{}", tag, std::process::id()))
}

/// observation of one step
#[derive(Clone)]
enum Obs {
    Wrote(bool, String),                       // statement Ok? (error text for the log)
    Skipped,                                   // the value has no form on this path (e.g. NaN literal): step not executed
    Rows(Result<Vec<(i64, OwnedValue)>, String>),
    Reopened(bool),
    Abort,                                     // the child process running the history died in this step
    NotRun,
    Weird(String),
}

struct Session { db: Option<Database>, ins: Option<turdb::PreparedStatement>, upd: Option<turdb::PreparedStatement> }

/// the implementation's text -> JSONB conversion, observed through a scratch table (an oracle column)
fn json_oracle(dir: &std::path::Path, text: &[u8]) -> Option<Vec<u8>> {
    let path = dir.join("jsonoracle");
    let _ = std::fs::remove_dir_all(&path);
    let r = catch(AssertUnwindSafe(|| {
        let db = Database::create(&path).ok()?;
        db.execute("CREATE TABLE j (c JSONB)").ok()?;
        let s = std::str::from_utf8(text).ok()?;
        db.execute(&format!("INSERT INTO j VALUES ('{}')", s.replace('\'', "''"))).ok()?;
        let rows = db.query("SELECT c FROM j").ok()?;
        match rows.get(0).and_then(|r| r.values.get(0)) { Some(OwnedValue::Jsonb(b)) => Some(b.clone()), _ => None }
    }));
    let _ = std::fs::remove_dir_all(&path);
    match r { Caught::Done(x) => x, _ => None }
}

/// per step: the JSONB bytes of a Json value (oracle), computed before the history runs
fn resolve_json(h: &Hist, dir: &std::path::Path) -> Vec<Option<Vec<u8>>> {
    let _ = std::fs::create_dir_all(dir);
    h.ops.iter().map(|op| match op { Op::Ins(_, _, Val::Json(t)) | Op::Upd(_, _, Val::Json(t)) => json_oracle(dir, t), _ => None }).collect()
}

/// is the step executed at all? (a value without a form on its path is skipped: an input-side decision)
fn step_skipped(op: &Op, jsonb: Option<&Vec<u8>>) -> bool {
    match op {
        Op::Ins(p, _, v) | Op::Upd(p, _, v) => {
            if let Val::Json(_) = v { if jsonb.is_none() { return true; } }
            if *p == 'L' { literal(v).is_none() } else { param(v, jsonb).is_none() }
        }
        _ => false,
    }
}

fn run_hist(h: &Hist, jsonbs: &[Option<Vec<u8>>], dir: &std::path::Path, on_step: &mut dyn FnMut(usize, &Obs)) -> Vec<Obs> {
    let _ = std::fs::remove_dir_all(dir);
    let _ = std::fs::create_dir_all(dir);
    let path = dir.join("db");
    let mut obs: Vec<Obs> = vec![];
    let mut s = Session { db: None, ins: None, upd: None };
    let mut setup_err: Option<String> = None;
    match open_session(&path, true, h.wal) { Ok(d) => s.db = Some(d), Err(e) => setup_err = Some(e) }
    if setup_err.is_none() {
        if let Err(e) = s.db.as_ref().unwrap().execute(&format!("CREATE TABLE t (k BIGINT{}, c {})", if h.pk { " PRIMARY KEY" } else { "" }, h.ty)) { setup_err = Some(format!("ddl: {:#}", e)); }
    }
    if let Some(e) = setup_err {
        for i in 0..h.ops.len() { let o = Obs::Weird(e.clone()); on_step(i, &o); obs.push(o); }
        return obs;
    }
    let mut keys: Vec<i64> = vec![];
    for (si, op) in h.ops.iter().enumerate() {
        let jb = jsonbs.get(si).and_then(|x| x.as_ref());
        let o = if s.db.is_none() { Obs::Weird("no database".into()) }
        else if step_skipped(op, jb) { Obs::Skipped }
        else { match op {
            Op::Ins(p, k, v) | Op::Upd(p, k, v) => {
                let d = s.db.as_ref().unwrap();
                let is_ins = matches!(op, Op::Ins(..));
                if is_ins && !keys.contains(k) { keys.push(*k); }
                let r = match p {
                    'L' => {
                        let lit = literal(v).unwrap_or_default();
                        let sql = if is_ins { format!("INSERT INTO t VALUES ({}, {})", k, lit) } else { format!("UPDATE t SET c = {} WHERE k = {}", lit, k) };
                        catch(AssertUnwindSafe(|| d.execute(&sql).map(|_| ()).map_err(|e| format!("{:#}", e))))
                    }
                    'P' => {
                        let pv = param(v, jb).unwrap_or(OwnedValue::Null);
                        let (sql, ps) = if is_ins { ("INSERT INTO t VALUES (?, ?)", vec![OwnedValue::Int(*k), pv]) } else { ("UPDATE t SET c = ? WHERE k = ?", vec![pv, OwnedValue::Int(*k)]) };
                        catch(AssertUnwindSafe(|| d.execute_with_params(sql, &ps).map(|_| ()).map_err(|e| format!("{:#}", e))))
                    }
                    _ => {
                        let pv = param(v, jb).unwrap_or(OwnedValue::Null);
                        let slot = if is_ins { &mut s.ins } else { &mut s.upd };
                        if slot.is_none() {
                            let sql = if is_ins { "INSERT INTO t VALUES (?, ?)" } else { "UPDATE t SET c = ? WHERE k = ?" };
                            if let Caught::Done(Ok(st)) = catch(AssertUnwindSafe(|| d.prepare(sql))) { *slot = Some(st); }
                        }
                        match slot.as_ref() {
                            None => Caught::Panicked("prepare failed".to_string()),
                            Some(st) => {
                                let k = *k;
                                catch(AssertUnwindSafe(|| {
                                    let b = if is_ins { st.bind(OwnedValue::Int(k)).bind(pv) } else { st.bind(pv).bind(OwnedValue::Int(k)) };
                                    b.execute(d).map(|_| ()).map_err(|e| format!("{:#}", e))
                                }))
                            }
                        }
                    }
                };
                match r {
                    Caught::Panicked(m) => Obs::Weird(format!("panic: {}", m)),
                    Caught::Done(Ok(())) => Obs::Wrote(true, String::new()),
                    Caught::Done(Err(e)) => Obs::Wrote(false, e),
                }
            }
            Op::Del(k) => {
                let d = s.db.as_ref().unwrap();
                match catch(AssertUnwindSafe(|| d.execute(&format!("DELETE FROM t WHERE k = {}", k)))) {
                    Caught::Done(Ok(_)) => Obs::Wrote(true, String::new()),
                    Caught::Done(Err(e)) => Obs::Wrote(false, format!("{:#}", e)),
                    Caught::Panicked(m) => Obs::Weird(format!("panic: {}", m)),
                }
            }
            Op::Reopen => {
                s.ins = None; s.upd = None;
                let old = s.db.take().unwrap();
                let c = catch(AssertUnwindSafe(|| { let r = old.close().is_ok(); drop(old); r }));
                match c {
                    Caught::Panicked(m) => Obs::Weird(format!("panic in close: {}", m)),
                    Caught::Done(_) => match open_session(&path, false, h.wal) {
                        Ok(nd) => { s.db = Some(nd); Obs::Reopened(true) }
                        Err(e) => Obs::Weird(format!("reopen: {}", e)),
                    },
                }
            }
            Op::Query(shape) => {
                let d = s.db.as_ref().unwrap();
                let run = |sql: &str, kc: (usize, usize)| -> Result<Vec<(i64, OwnedValue)>, String> {
                    match catch(AssertUnwindSafe(|| d.query(sql))) {
                        Caught::Panicked(m) => Err(format!("PANIC {}", m)),
                        Caught::Done(Err(e)) => Err(format!("{:#}", e)),
                        Caught::Done(Ok(rows)) => {
                            let mut out = vec![];
                            for r in rows { match (r.values.get(kc.0), r.values.get(kc.1)) {
                                (Some(OwnedValue::Int(k)), Some(v)) => out.push((*k, v.clone())),
                                _ => return Err(format!("WEIRD row shape {:?}", r.values.iter().map(|v| { let s = format!("{:?}", v); s.chars().take(40).collect::<String>() }).collect::<Vec<_>>())),
                            } }
                            Ok(out)
                        }
                    }
                };
                let res = match shape {
                    0 => run("SELECT k, c FROM t", (0, 1)),
                    2 => run("SELECT k, c FROM t ORDER BY k", (0, 1)),
                    _ => { let mut all = vec![]; let mut err = None;
                           for k in &keys { match run(&format!("SELECT * FROM t WHERE k = {}", k), (0, 1)) { Ok(mut r) => all.append(&mut r), Err(e) => { err = Some(e); break; } } }
                           match err { Some(e) => Err(e), None => Ok(all) } }
                };
                Obs::Rows(res.map(|mut v| { v.sort_by_key(|x| x.0); v }))
            }
        } };
        on_step(si, &o);
        obs.push(o);
    }
    drop(s);
    let _ = std::fs::remove_dir_all(dir);
    obs
}

/// a 17-byte 0xFE-led blob whose size field makes Vec::with_capacity abort the process: run those in a child
fn dangerous(h: &Hist) -> bool {
    h.ops.iter().any(|op| match op {
        Op::Ins(_, _, Val::Blob(b)) | Op::Upd(_, _, Val::Blob(b)) | Op::Ins(_, _, Val::Text(b)) | Op::Upd(_, _, Val::Text(b)) =>
            b.len() == 17 && b[0] == 0xFE && u64::from_le_bytes(b[1..9].try_into().unwrap()) >= (1u64 << 31),
        _ => false,
    })
}

fn env_of(h: &Hist, jsonbs: &[Option<Vec<u8>>]) -> Vec<Vec<u8>> {
    h.ops.iter().enumerate().map(|(i, op)| {
        let jb = jsonbs.get(i).and_then(|x| x.as_ref());
        if step_skipped(op, jb) { return vec![]; }
        match op { Op::Ins(_, _, v) | Op::Upd(_, _, v) => val_env_bytes(v, jb), _ => vec![] }
    }).collect()
}

fn coq_op(i: usize, op: &Op, jb: Option<&Vec<u8>>, env: &[Vec<u8>]) -> String {
    if step_skipped(op, jb) { return "KSkip".into(); }
    match op {
        Op::Ins(p, k, v) => format!("KIns P{} {} {}", p, z(*k), coq_val(v, jb, env, i)),
        Op::Upd(p, k, v) => format!("KUpd P{} {} {}", p, z(*k), coq_val(v, jb, env, i)),
        Op::Del(k) => format!("KDel {}", z(*k)),
        Op::Reopen => "KReopen".into(),
        Op::Query(s) => format!("KQuery {}", s),
    }
}
fn coq_step_obs(o: &Obs, env: &[Vec<u8>]) -> String {
    match o {
        Obs::Wrote(ok, _) => format!("BWrote {}", cbool(*ok)),
        Obs::Skipped => "BSkipped".into(),
        Obs::Rows(Ok(rows)) => format!("BRows {}", clist(&rows.iter().map(|(k, v)| format!("({}, {})", z(*k), coq_owned(v, env))).collect::<Vec<_>>())),
        Obs::Rows(Err(e)) => if e.starts_with("PANIC") { "BQueryPanic".into() } else if e.starts_with("WEIRD") { "BWeird".into() } else { "BQueryErr".into() },
        Obs::Reopened(ok) => format!("BReopened {}", cbool(*ok)),
        Obs::Abort => "BQueryAbort".into(),
        Obs::NotRun => "BNotRun".into(),
        Obs::Weird(_) => "BWeird".into(),
    }
}

/// run one history (in a child process when it can abort) and give the Coq terms of the steps' observations
fn observe(h: &Hist, tag: &str) -> (Vec<Option<Vec<u8>>>, Vec<String>, Vec<Obs>) {
    let dir = tmp_dir(tag);
    let jsonbs = resolve_json(h, &dir);
    let env = env_of(h, &jsonbs);
    if !dangerous(h) {
        let obs = run_hist(h, &jsonbs, &dir, &mut |_, _| {});
        let terms = obs.iter().map(|o| coq_step_obs(o, &env)).collect();
        return (jsonbs, terms, obs);
    }
    // child: prints one observation term per completed step
    let lf = dir.with_extension("line");
    let _ = std::fs::write(&lf, show_hist(h) + "\n");
    let cdir = dir.with_extension("child");
    let out = std::process::Command::new(std::env::current_exe().expect("exe")).arg("child").arg("--lines").arg(&lf)
        .env("C11_CHILD_DIR", &cdir).stderr(std::process::Stdio::null()).output();
    let _ = std::fs::remove_file(&lf);
    let _ = std::fs::remove_dir_all(&dir);
    let _ = std::fs::remove_dir_all(&cdir);
    let mut terms: Vec<String> = vec![];
    let mut clean = false;
    if let Ok(o) = out {
        clean = o.status.success();
        for l in String::from_utf8_lossy(&o.stdout).lines() { if let Some(t) = l.strip_prefix("STEP ") { terms.push(t.to_string()); } }
    }
    terms.truncate(h.ops.len());
    let mut obs: Vec<Obs> = terms.iter().map(|t| Obs::Weird(format!("(child) {}", t))).collect();
    if terms.len() < h.ops.len() {
        let died_in_query = matches!(h.ops[terms.len()], Op::Query(_));
        terms.push(if !clean && died_in_query { "BQueryAbort".to_string() } else { "BWeird".to_string() });
        obs.push(Obs::Abort);
        while terms.len() < h.ops.len() { terms.push("BNotRun".into()); obs.push(Obs::NotRun); }
    }
    (jsonbs, terms, obs)
}

fn child(a: &Args) {
    for l in a.replay_lines().unwrap_or_default() {
        if let Some(h) = parse_hist(&l) {
            let dir = match std::env::var("C11_CHILD_DIR") { Ok(d) => std::path::PathBuf::from(d), Err(_) => tmp_dir("child") };
            let jsonbs = resolve_json(&h, &dir);
            let env = env_of(&h, &jsonbs);
            let _ = run_hist(&h, &jsonbs, &dir, &mut |_, o| {
                let out = std::io::stdout();
                let mut lk = out.lock();
                let _ = writeln!(lk, "STEP {}", coq_step_obs(o, &env));
                let _ = lk.flush();
            });
        }
    }
}

fn hist_term(h: &Hist, jsonbs: &[Option<Vec<u8>>], obs_terms: &[String]) -> String {
    let env = env_of(h, jsonbs);
    let steps: Vec<String> = h.ops.iter().enumerate().map(|(i, op)| {
        format!("({}, {})", coq_op(i, op, jsonbs.get(i).and_then(|x| x.as_ref()), &env), obs_terms.get(i).cloned().unwrap_or_else(|| "BWeird".into()))
    }).collect();
    format!("Hist {} {} {} {}", coq_ty(&h.ty), cbool(h.wal), cbool(h.pk), clist(&steps))
}

fn is_big(v: &Val) -> bool { match v { Val::Text(b) | Val::Blob(b) => b.len() > ts::TOAST_THRESHOLD, _ => false } }
fn is_fake_ptr(v: &Val) -> bool { match v { Val::Text(b) | Val::Blob(b) => b.len() == 17 && b[0] == 0xFE, _ => false } }
fn is_utf8_blob(v: &Val) -> bool { match v { Val::Blob(b) => b.len() > ts::TOAST_THRESHOLD && std::str::from_utf8(b).is_ok(), _ => false } }

/// reaches the regime the property is about: a value above the TOAST threshold is written and read afterwards
fn nontrivial(h: &Hist) -> bool {
    let mut seen_big = false;
    for op in &h.ops {
        match op {
            Op::Ins(_, _, v) | Op::Upd(_, _, v) => if is_big(v) { seen_big = true; },
            Op::Query(_) => if seen_big { return true; },
            _ => {}
        }
    }
    false
}

// ---------------------------------------------------------------- unit cases (public helpers of storage::toast)
fn copt2(o: Option<(u64, u64)>) -> String { match o { Some((a, b)) => format!("(Some ({}, {}))", a, b), None => "None".into() } }

fn unit_case(l: &str) -> Option<String> {
    let kv = |name: &str| -> Option<u64> { l.split_whitespace().find_map(|t| t.strip_prefix(name).and_then(|v| v.strip_prefix('=')).and_then(|v| v.parse::<u64>().ok())) };
    if l.starts_with("ptr ") {
        let (rid, col, size) = (kv("rid")?, kv("col")?, kv("size")?);
        if col > 65535 { return None; }
        let r = catch(move || {
            let p = ts::ToastPointer::new(rid, col as u16, size);
            let enc = p.encode().to_vec();
            let dec = ts::ToastPointer::decode(&enc).ok().map(|d| (d.total_size, d.chunk_id));
            (enc.clone(), dec, p.row_id(), p.column_index(), ts::is_toast_pointer(&enc))
        });
        return Some(match r {
            Caught::Done((enc, dec, row_id, ci, isptr)) => format!("Ptr {} {} {} {} {} {} {} {}", rid, col, size, cbytes(&enc), copt2(dec), row_id, ci, cbool(isptr)),
            Caught::Panicked(_) => format!("Ptr {} {} {} [] None 0 0 false", rid, col, size),
        });
    }
    if let Some(r) = l.strip_prefix("dec ") {
        let b = dec_bytes(r.trim())?;
        let b2 = b.clone();
        let r = catch(move || (ts::ToastPointer::decode(&b2).ok().map(|d| (d.total_size, d.chunk_id)), ts::is_toast_pointer(&b2)));
        return Some(match r {
            Caught::Done((dec, isptr)) => format!("Dec {} {} {}", cbytes(&b), copt2(dec), cbool(isptr)),
            Caught::Panicked(_) => format!("Dec {} (Some (0, 0)) true", cbytes(&b)),   // a panic: never what the model says for the same bytes
        });
    }
    if l.starts_with("key ") {
        let (id, seq) = (kv("id")?, kv("seq")?);
        if seq > u32::MAX as u64 { return None; }
        let r = catch(move || { let k = ts::make_chunk_key(id, seq as u32).to_vec(); let p = ts::parse_chunk_key(&k).ok().map(|(a, b)| (a, b as u64)); (k, p) });
        return Some(match r {
            Caught::Done((k, p)) => format!("Key {} {} {} {}", id, seq, cbytes(&k), copt2(p)),
            Caught::Panicked(_) => format!("Key {} {} [] None", id, seq),
        });
    }
    if l.starts_with("cnt ") {
        let n = kv("n")?;
        if n > 100_000 { // needs_toast wants real bytes: only for small n; chunk_count takes any usize
            let r = catch(move || ts::chunk_count(n as usize));
            return Some(match r { Caught::Done(c) => format!("Cnt {} {} true", n, c), Caught::Panicked(_) => format!("Cnt {} (-1) true", n) });
        }
        let r = catch(move || (ts::chunk_count(n as usize), ts::needs_toast(&vec![0u8; n as usize])));
        return Some(match r { Caught::Done((c, nt)) => format!("Cnt {} {} {}", n, c, cbool(nt)), Caught::Panicked(_) => format!("Cnt {} (-1) false", n) });
    }
    None
}

// ---------------------------------------------------------------- generators
fn tok_bytes(b: &[u8]) -> String {
    if b.is_empty() { return "-".into(); }
    let mut parts: Vec<String> = vec![];
    let mut lit: Vec<u8> = vec![];
    for (x, n) in segs_of(b) {
        if n >= 12 { if !lit.is_empty() { parts.push(hex(&lit)); lit.clear(); } parts.push(format!("r{}x{:02x}", n, x)); }
        else { lit.extend(std::iter::repeat(x).take(n)); }
    }
    if !lit.is_empty() { parts.push(hex(&lit)); }
    parts.join("+")
}

const SIZES: [usize; 22] = [0, 1, 16, 17, 18, 999, 1000, 1001, 1002, 3999, 4000, 4001, 4002, 7999, 8000, 8001, 11999, 12000, 12001, 16311, 16312, 20000];

/// text of exactly `len` bytes; style chosen by the PRNG (runs with multi-byte characters across the chunk boundaries, or generated content when short)
fn text_token(r: &mut Rng, len: usize) -> String {
    if len <= 1300 && r.chance(1, 2) { return format!("T{}", if len == 0 { "-".to_string() } else { format!("g{}{}s{}", r.pick(&['a', 'q', 'u']), len, r.below(1_000_000)) }); }
    let mut b: Vec<u8> = Vec::with_capacity(len);
    let base = *r.pick(&[b'a', b'z', b' ', b'0']);
    // multi-byte characters straddling 1000, 4000, 8000, ... when they fit
    let marks: Vec<(usize, &[u8])> = vec![(999, "é".as_bytes()), (3999, "€".as_bytes()), (7998, "😀".as_bytes()), (11999, "é".as_bytes()), (15998, "€".as_bytes())];
    while b.len() < len {
        let pos = b.len();
        if let Some((_, m)) = marks.iter().find(|(p, m)| *p == pos && pos + m.len() <= len) { b.extend_from_slice(m); continue; }
        let next = marks.iter().map(|(p, _)| *p).filter(|p| *p > pos).min().unwrap_or(usize::MAX).min(len);
        let run = next - pos;
        b.extend(std::iter::repeat(base).take(run));
    }
    format!("T{}", tok_bytes(&b))
}
/// blob of `len` bytes: invalid UTF-8 unless `utf8`
fn blob_token(r: &mut Rng, len: usize, utf8: bool) -> String {
    if len == 0 { return "B-".into(); }
    if utf8 {
        if len <= 1300 && r.chance(1, 2) { return format!("Bg{}{}s{}", r.pick(&['a', 'u']), len, r.below(1_000_000)); }
        let t = text_token(r, len);
        return format!("B{}", &t[1..]);
    }
    if len <= 1300 && r.chance(1, 3) {
        // random bytes, made certainly invalid by a final 0xFF
        let mut b = gen_bytes('r', len, r.below(1_000_000));
        let n = b.len(); b[n - 1] = 0xFF;
        if b.len() == 17 && b[0] == 0xFE { b[0] = 0xFD; }
        return format!("B{}", hex(&b));
    }
    let mut b: Vec<u8> = vec![];
    match r.below(4) {
        0 => { b.extend(std::iter::repeat(0xFFu8).take(len)); }
        1 => { b.extend(std::iter::repeat(0u8).take(len)); let n = b.len(); b[n - 1] = 0x80; }
        2 => { b.extend(std::iter::repeat(b'a').take(len)); let n = b.len(); b[n / 2] = 0xC0; }
        _ => { b.extend(std::iter::repeat(b'x').take(len)); b[0] = 0xFE; }
    }
    if b.len() == 17 && b[0] == 0xFE { b[0] = 0xFD; }   // never a fake pointer by accident
    format!("B{}", tok_bytes(&b))
}
fn var_token(r: &mut Rng, blob: bool, len: usize) -> String { if blob { blob_token(r, len, false) } else { text_token(r, len) } }

fn pick_path(r: &mut Rng) -> char { *r.pick(&['L', 'P', 'S']) }

fn scalar_tables() -> Vec<(&'static str, Vec<String>)> {
    let f = |x: f64| format!("f{:016x}", x.to_bits());
    let fb = |x: u64| format!("f{:016x}", x);
    let f32v = |x: f32| format!("f{:016x}", (x as f64).to_bits());
    let js = |s: &str| format!("j{}", hex(s.as_bytes()));
    let sv = |v: &[&str]| -> Vec<String> { v.iter().map(|s| s.to_string()).collect() };
    let deep = format!("{}1{}", "[".repeat(20), "]".repeat(20));
    let bigjson = format!("{{\"k\":\"{}\",\"n\":[{}]}}", "x".repeat(1500), (0..50).map(|i| i.to_string()).collect::<Vec<_>>().join(","));
    vec![
        ("BIGINT", sv(&["i0", "i1", "i-1", "i9223372036854775807", "i-9223372036854775808", "i-9223372036854775807", "i9007199254740993", "i2147483648", "i-2147483649", "i4294967296", "N"])),
        ("INT", sv(&["i0", "i1", "i-1", "i2147483647", "i-2147483648", "i65536", "i-32769", "N"])),
        ("SMALLINT", sv(&["i0", "i1", "i-1", "i32767", "i-32768", "i255", "i-256", "N"])),
        ("DOUBLE", vec![f(0.0), f(-0.0), f(1.5), f(0.1), f(-2.5e-3), fb(1), fb(0x000f_ffff_ffff_ffff), fb(0x0010_0000_0000_0000), f(f64::MAX), f(f64::MIN), f(f64::INFINITY), f(f64::NEG_INFINITY),
                        fb(0x7ff8_0000_0000_0000), fb(0x7ff8_0000_0000_0001), fb(0xfff8_0000_0000_0000), fb(0x7ff0_0000_0000_0001), fb(0x7fff_ffff_ffff_ffff), fb(0xfff4_0000_dead_beef), f(123456789.125), "N".into()]),
        ("REAL", vec![f32v(0.0), f32v(-0.0), f32v(1.5), f32v(0.1), f32v(f32::MAX), f32v(f32::MIN_POSITIVE), f32v(f32::from_bits(1)), f32v(f32::INFINITY), f32v(f32::NEG_INFINITY), fb(0x7ff8_0000_0000_0000), "N".into()]),
        ("BOOLEAN", sv(&["b1", "b0", "N"])),
        ("DATE", sv(&["d0", "d-719162", "d2932896", "d11016", "d19782", "d789", "d-25509", "d-25508", "d-1", "d59", "d60", "d365", "N"])),
        ("TIME", sv(&["m0", "m1", "m86399999999", "m43200000000", "m3599999999", "m3600000000", "N"])),
        ("TIMESTAMP", sv(&["s0", "s-1", "s1", "s-62135596800000000", "s253402300799999999", "s1700000000123456", "s951782400000000", "s951868799999999", "N"])),
        ("UUID", sv(&["u00000000000000000000000000000000", "uffffffffffffffffffffffffffffffff", "u0123456789abcdef0123456789abcdef", "ufe000000000000000000000000000001", "u6ba7b8109dad11d180b400c04fd430c8", "N"])),
        ("JSONB", vec![js("{\"a\":[1,2,{\"b\":null}],\"c\":\"x\"}"), js("[]"), js("{}"), js("\"hi\""), js("123"), js("-0.5"), js("true"), js("null"), js(&deep), js("{\"u\":\"h\\u00e9llo \\ud83d\\ude00 \u{4e16}\u{754c}\"}"), js(&bigjson), js("[1e308,-1e-308,0.1,9007199254740993]"), "N".into()]),
    ]
}

fn vec_token(r: &mut Rng, dim: usize, special: bool) -> String {
    let specials: [u32; 10] = [0x0000_0000, 0x8000_0000, 0x7f80_0000, 0xff80_0000, 0x7fc0_0000, 0x7fc0_0001, 0xffc0_0000, 0x0000_0001, 0x7f7f_ffff, 0x0080_0000];
    let fin: [f32; 8] = [0.0, -0.0, 1.0, -1.5, 0.1, 3.25, 1024.0, -65504.0];
    let parts: Vec<String> = (0..dim).map(|_| {
        let bits = if special && r.chance(1, 2) { *r.pick(&specials) } else if r.chance(1, 2) { r.pick(&fin).to_bits() } else { ((r.range(-4000, 4000) as f32) / 8.0).to_bits() };
        format!("{:08x}", bits)
    }).collect();
    format!("v{}", parts.join("."))
}

/// all generated histories: (replay line, kind)
fn histories(rng: &mut Rng, thorough: bool) -> Vec<(String, &'static str)> {
    let mut out: Vec<(String, &'static str)> = vec![];
    let hdr = |ty: &str, wal: bool, pk: bool| format!("h ty={} wal={} pk={} ops=", ty, wal as u8, pk as u8);
    let rounds = if thorough { 6 } else { 1 };

    // ---- scalar types: boundary tables, INSERT and UPDATE, every path, before and after reopen
    for round in 0..rounds {
        for (ty, vals) in scalar_tables() {
            for variant in 0..2 {
                let pk = variant == 1;
                let wal = rng.chance(1, 2);
                let mut ops: Vec<String> = vec![];
                let n = vals.len();
                for (i, v) in vals.iter().enumerate() { ops.push(format!("I{}:{}={}", ['L', 'P', 'S'][(i + round + variant) % 3], i + 1, v)); }
                ops.push(format!("Q{}", rng.below(3)));
                ops.push("X".into());
                ops.push(format!("Q{}", rng.below(3)));
                // every row takes its neighbour's value
                for i in 0..n { ops.push(format!("U{}:{}={}", ['P', 'L', 'S'][(i + round) % 3], i + 1, vals[(i + 1 + round) % n])); }
                ops.push(format!("Q{}", rng.below(3)));
                ops.push("X".into());
                ops.push("Q0".into());
                out.push((hdr(ty, wal, pk) + &ops.join(" "), "scalar"));
            }
        }
        for dim in [1usize, 2, 3, 7, 16, 33, 70] {
            let mut ops: Vec<String> = vec![];
            for i in 0..6 { let p = ['L', 'P', 'S'][i % 3]; ops.push(format!("I{}:{}={}", p, i + 1, vec_token(rng, dim, p != 'L'))); }
            ops.push("Q0".into());
            for i in 0..3 { ops.push(format!("U{}:{}={}", ['P', 'S', 'L'][i % 3], i + 1, vec_token(rng, dim, i != 2))); }
            ops.push(format!("Q{}", rng.below(3))); ops.push("X".into()); ops.push("Q2".into());
            out.push((hdr(&format!("VECTOR({})", dim), rng.chance(1, 2), false) + &ops.join(" "), "vector"));
        }
    }

    // ---- text / blob: the size table, by INSERT and by UPDATE, each path
    let reps = if thorough { 5 } else { 1 };
    for _ in 0..reps {
        for &size in SIZES.iter() {
            for blob in [false, true] {
                let ty = if blob { "BLOB" } else if rng.chance(1, 5) { "VARCHAR(2000000)" } else { "TEXT" };
                for p in ['L', 'P', 'S'] {
                    // insert (for S: once as the first, once as a re-execution of the prepared statement)
                    let wal = rng.chance(1, 3);
                    let v = var_token(rng, blob, size);
                    let small = var_token(rng, blob, 3);
                    let pre = if p == 'S' && rng.chance(1, 2) { format!("IS:0={} ", small) } else { String::new() };   // keys ascending: see the note on PRIMARY KEY tables
                    out.push((format!("{}{}I{}:1={} Q{} X Q{}", hdr(ty, wal, rng.chance(1, 4)), pre, p, v, rng.below(3), rng.below(3)), if blob { "blob_insert" } else { "text_insert" }));
                    // update of a small value to this one, then to another size, then back (quick tier: one path per size)
                    if !thorough && ['L', 'P', 'S'][(size + blob as usize) % 3] != p { continue; }
                    let sz2 = *rng.pick(&SIZES);
                    let v2 = var_token(rng, blob, sz2);
                    let v3 = var_token(rng, blob, size);
                    out.push((format!("{}IL:1={} U{}:1={} Q{} U{}:1={} Q0 X Q{} U{}:1={} Q0", hdr(ty, wal, false), small, p, v3, rng.below(3), pick_path(rng), v2, rng.below(3), pick_path(rng), small),
                              if blob { "blob_update" } else { "text_update" }));
                }
            }
        }
    }
    // sizes around the thresholds, densely (thorough) / a few (quick)
    let dense: Vec<usize> = if thorough { (990..=1012).chain(3990..=4012).chain(7995..=8005).collect() } else { vec![998, 1003, 3998, 4003] };
    for size in dense {
        let blob = rng.chance(1, 2);
        let v = var_token(rng, blob, size);
        out.push((format!("{}I{}:1={} Q0 X Q1", hdr(if blob { "BLOB" } else { "TEXT" }, false, false), pick_path(rng), v), "threshold"));
    }
    // very large values
    let mib = 1usize << 20;
    let bigs: Vec<(bool, usize, char, bool)> = if thorough {
        vec![(false, mib, 'L', true), (true, mib, 'P', true), (false, mib + 1, 'S', false), (true, 2 * mib + 17, 'L', false), (false, 40001, 'P', true), (true, 40000, 'S', false), (false, 2 * mib, 'P', true)]
    } else { vec![(false, mib, 'L', true), (true, mib + 1, 'P', false), (false, 40001, 'S', false)] };
    for (blob, size, p, upd) in bigs {
        let v = var_token(rng, blob, size);
        let ty = if blob { "BLOB" } else { "TEXT" };
        if upd { out.push((format!("{}IL:1={} U{}:1={} Q0 X Q2", hdr(ty, rng.chance(1, 2), false), var_token(rng, blob, 5), p, v), "huge")); }
        else { out.push((format!("{}I{}:1={} Q0 X Q2", hdr(ty, rng.chance(1, 2), false), p, v), "huge")); }
    }

    // ---- blobs that are valid UTF-8, above and below the threshold (the repaired class 1: they stay BLOBs)
    let n1 = if thorough { 60 } else { 12 };
    for i in 0..n1 {
        let size = *rng.pick(&[5usize, 999, 1000, 1001, 1001, 1500, 4000, 4001, 9000]);
        let v = blob_token(rng, size, true);
        let p = pick_path(rng);
        if i % 2 == 0 { out.push((format!("{}I{}:1={} IL:2={} Q{} X Q0", hdr("BLOB", rng.chance(1, 2), false), p, v, blob_token(rng, 1200, false), rng.below(3)), "blob_utf8")); }
        else { out.push((format!("{}IL:1=B00 U{}:1={} Q0 X Q{}", hdr("BLOB", false, false), p, v, rng.below(3)), "blob_utf8")); }
    }

    // ---- 17-byte blobs led by 0xFE.  On the ordinary paths they are stored out of line since 170f3f6 and must read
    // back unchanged whatever their size / chunk-id fields say (the repaired class 2) ...
    let ptr = |size: u64, cid: u64| { let mut b = vec![0xFEu8]; b.extend_from_slice(&size.to_le_bytes()); b.extend_from_slice(&cid.to_le_bytes()); format!("B{}", hex(&b)) };
    let real = |rid: u64| (1u64 << 48) | rid;
    let mut likes: Vec<String> = vec![
        format!("IL:1={} Q0 X Q0", ptr(0, 0x0101010101010101)),
        format!("IP:1={} Q1", ptr(5, 0x0101010101010101)),
        format!("IL:1=Br1500x61+ff IL:2={} Q0 X Q2", ptr(7, real(1))),
        format!("IL:1=Br5000x62+ff IS:2={} Q0 D:1 Q0", ptr(4500, real(1))),
        format!("IL:1=Br1200x63 IL:2={} Q0 UL:2=B00 Q0 X Q0", ptr(1200, real(1))),
        format!("IL:1=B00 UL:1={} Q0 UP:1={} Q0 UL:1=B01 Q0", ptr(3, real(9)), ptr(0, real(1))),
        format!("IL:1={} Q0 X Q0", ptr(0x0101010101010101, 0x0101010101010101)),
        format!("IP:1=B00 IP:2={} Q2 UL:2=Br1001xff Q0", ptr(1u64 << 63, 1)),
        format!("IL:1={} UL:1={} Q0 D:1 Q0", ptr(u64::MAX, u64::MAX), ptr(u64::MAX, real(1))),
    ];
    if thorough {
        for _ in 0..30 {
            let size = *rng.pick(&[0u64, 1, 17, 999, 1001, 4000, 4001, 8001, 1 << 40, 1 << 62, u64::MAX]);
            let cid = if rng.chance(1, 2) { real(rng.below(3) + 1) } else { rng.next() };
            let p3 = *rng.pick(&['L', 'P']);
            likes.push(format!("I{}:1={} I{}:2={} I{}:3={} Q{} U{}:1={} Q0 X Q0", pick_path(rng), blob_token(rng, 1100, false), pick_path(rng), blob_token(rng, 4100, false), p3, ptr(size, cid), rng.below(3), *rng.pick(&['L', 'P']), ptr(size, cid)));
        }
    }
    for f in likes { out.push((hdr("BLOB", rng.chance(1, 3), rng.chance(1, 4)) + &f, "pointer_like")); }
    // ... and through a re-executed prepared INSERT: since cc39952 such parameters leave the cached plan to the ordinary
    // path (the repaired class 4; before, insert_cached stored them inline: error / empty blob / another row's bytes / abort / panic)
    let mut fakes: Vec<String> = vec![
        format!("IS:1=B00 IS:2={} Q0 X Q0", ptr(0, 0x0101010101010101)),
        format!("IS:1=B00 IS:2={} Q1", ptr(5, 0x0101010101010101)),
        format!("IL:1=Br1500x61+ff IS:2=B01 IS:3={} Q0 X Q2", ptr(7, real(1))),
        format!("IS:1=B00 IS:2={} Q0", ptr(0x0101010101010101, 0x0101010101010101)),
        format!("IS:1=B00 IS:2={} Q2", ptr(1u64 << 63, 1)),
    ];
    if thorough {
        for _ in 0..12 {
            let size = *rng.pick(&[0u64, 1, 17, 999, 1001, 4000, 4001, 8001]);
            let cid = if rng.chance(1, 2) { real(rng.below(2) + 1) } else { rng.next() };
            fakes.push(format!("I{}:1={} IS:2={} IS:3=B02 IS:4={} Q{} X Q0", *rng.pick(&['L', 'P']), blob_token(rng, 1100, false), blob_token(rng, 4100, false), ptr(size, cid), rng.below(3)));
        }
    }
    for f in fakes { out.push((hdr("BLOB", false, false) + &f, "cached_pointer")); }

    // ---- the repaired class 3: UPDATEs whose chunk id used to be taken (derived from the primary-key value, 0 without one);
    // since 1b44555 every UPDATE toasts under the row's own row id and all of these succeed
    let big = |r: &mut Rng, blob: bool| { let sz = *r.pick(&[1001usize, 1500, 4001, 9000]); var_token(r, blob, sz) };
    let n3 = if thorough { 40 } else { 8 };
    for i in 0..n3 {
        let blob = rng.chance(1, 3);
        let ty = if blob { "BLOB" } else { "TEXT" };
        let (p1, p2) = (*rng.pick(&['L', 'P']), *rng.pick(&['L', 'P']));
        let s = var_token(rng, blob, 2);
        let line = match i % 4 {
            // no primary key: two rows updated to big values; the second row held a toasted value
            0 => format!("{}IL:1={} I{}:2={} U{}:1={} Q0 U{}:2={} Q0 X Q0", hdr(ty, rng.chance(1, 2), false), s, p1, big(rng, blob), p2, big(rng, blob), p1, big(rng, blob)),
            // the same, but the second row held a small value
            1 => format!("{}IL:1={} IL:2={} U{}:1={} Q0 U{}:2={} Q0 X Q0", hdr(ty, false, false), s, s, p1, big(rng, blob), p2, big(rng, blob)),
            // primary key: the row with k=1 was inserted second (row id 2)
            2 => format!("{}I{}:5={} I{}:1={} Q0 U{}:1={} Q0 X Q0", hdr(ty, rng.chance(1, 2), true), p1, big(rng, blob), p2, big(rng, blob), p1, big(rng, blob)),
            // primary key equal to the row id
            _ => format!("{}I{}:1={} I{}:2={} Q0 U{}:1={} U{}:2={} Q0 X Q0 D:1 UL:2={} Q0", hdr(ty, false, true), p1, big(rng, blob), p2, big(rng, blob), p1, big(rng, blob), p2, big(rng, blob), big(rng, blob)),
        };
        out.push((line, "collision"));
    }

    // ---- random histories
    let nr = if thorough { 1200 } else { 160 };
    for _ in 0..nr {
        let blob = rng.chance(2, 5);
        let pk = rng.chance(1, 3);
        let ty = if blob { "BLOB" } else { "TEXT" };
        let mut ops: Vec<String> = vec![];
        let mut next_k = 1i64;
        let mut live: Vec<i64> = vec![];
        let nops = 4 + rng.below(9);
        let mut reopened = false;
        let rsize = |r: &mut Rng| -> usize { match r.below(10) { 0..=3 => r.below(40) as usize, 4..=6 => *r.pick(&[999usize, 1000, 1001, 1002, 1500]), 7 => *r.pick(&[3999usize, 4000, 4001, 8001]), 8 => 4000 + r.below(9000) as usize, _ => r.below(1300) as usize } };
        for _ in 0..nops {
            match rng.below(10) {
                0..=3 if !reopened || rng.chance(1, 3) => {
                    let k = if pk && rng.chance(1, 2) { next_k + 3 } else { next_k }; next_k = k + 1; live.push(k); let sz = rsize(rng);
                    ops.push(format!("I{}:{}={}", pick_path(rng), k, var_token(rng, blob, sz)));
                }
                0..=6 if !live.is_empty() => { let k = *rng.pick(&live); let sz = rsize(rng); ops.push(format!("U{}:{}={}", pick_path(rng), k, var_token(rng, blob, sz))); }
                7 if !live.is_empty() => { let i = rng.below(live.len() as u64) as usize; let k = live.remove(i); ops.push(format!("D:{}", k)); }
                8 => { ops.push("X".into()); reopened = true; }
                _ => ops.push(format!("Q{}", rng.below(3))),
            }
        }
        ops.push(format!("Q{}", rng.below(3))); ops.push("X".into()); ops.push("Q0".into());
        out.push((hdr(ty, rng.chance(1, 3), pk) + &ops.join(" "), "random"));
    }
    out
}

fn unit_lines(rng: &mut Rng, thorough: bool) -> Vec<(String, &'static str)> {
    let mut out = vec![];
    let rids = [0u64, 1, 2, 255, 256, 65535, (1 << 32) - 1, 1 << 32, (1 << 48) - 1, 1 << 48, (1 << 48) + 1, (1 << 63), u64::MAX];
    let cols = [0u64, 1, 2, 255, 256, 65535];
    let sizes = [0u64, 1, 1000, 1001, 4000, 4001, (1 << 32) - 1, 1 << 32, (1 << 63), u64::MAX];
    for r in rids { for c in cols { let s = *rng.pick(&sizes); out.push((format!("ptr rid={} col={} size={}", r, c, s), "unit_ptr")); } }
    let n = if thorough { 4000 } else { 300 };
    for _ in 0..n {
        let bits = 1 + rng.below(64) as u32;
        out.push((format!("ptr rid={} col={} size={}", rng.next() >> (64 - bits), rng.below(65536), rng.next() >> (64 - (1 + rng.below(64) as u32))), "unit_ptr"));
        out.push((format!("key id={} seq={}", rng.next() >> (64 - bits), (rng.next() >> (64 - (1 + rng.below(32) as u32))) & 0xFFFF_FFFF), "unit_key"));
        let len = *rng.pick(&[0usize, 1, 16, 17, 17, 17, 18, 30]);
        let mut b = rng.bytes(len);
        if len > 0 && rng.chance(2, 3) { b[0] = 0xFE; }
        out.push((format!("dec {}", if b.is_empty() { "-".to_string() } else { hex(&b) }), "unit_dec"));
    }
    for id in [0u64, 1, 255, 256, (1 << 48) | 1, u64::MAX] { for seq in [0u64, 1, 255, 256, 65535, 65536, (1 << 32) - 1] { out.push((format!("key id={} seq={}", id, seq), "unit_key")); } }
    let top = if thorough { 24_010u64 } else { 12_010 };
    let mut ns: Vec<u64> = (0..=20).chain(990..=1010).chain(3990..=4010).chain(7990..=8010).chain(11990..=12010).collect();
    for _ in 0..(if thorough { 2000 } else { 150 }) { ns.push(rng.below(top)); }
    ns.extend([1u64 << 20, (1 << 20) + 1, 1 << 26, (1 << 32) - 1, 1 << 32, (1 << 40) + 3999, (1u64 << 62)]);
    for n in ns { out.push((format!("cnt n={}", n), "unit_cnt")); }
    out
}

fn main() {
    let a = Args::parse();
    match a.mode.as_str() {
        "gen" => gen(&a),
        "search" => search(&a),
        "probe" => probe(&a),
        "child" => child(&a),
        _ => { eprintln!("c11: unknown mode"); std::process::exit(2); }
    }
}

fn debug_obs(o: &Obs) -> String {
    let short = |v: &OwnedValue| -> String { match v {
        OwnedValue::Text(s) => format!("Text(len={},h={})", s.len(), bhash(s.as_bytes())),
        OwnedValue::Blob(b) => format!("Blob(len={},h={})", b.len(), bhash(b)),
        OwnedValue::Jsonb(b) => format!("Jsonb({})", hex(b)),
        OwnedValue::ToastPointer(b) => format!("ToastPointer({})", hex(b)),
        o => format!("{:?}", o) } };
    match o {
        Obs::Wrote(ok, e) => format!("wrote ok={} {}", ok, e),
        Obs::Skipped => "skipped".into(),
        Obs::Rows(Ok(r)) => format!("rows {:?}", r.iter().map(|(k, v)| format!("{}:{}", k, short(v))).collect::<Vec<_>>()),
        Obs::Rows(Err(e)) => format!("query error: {}", e),
        Obs::Reopened(ok) => format!("reopened {}", ok),
        Obs::Abort => "ABORT".into(),
        Obs::NotRun => "not run".into(),
        Obs::Weird(m) => format!("WEIRD {}", m),
    }
}

fn probe(a: &Args) {
    if std::env::var("C11_LOUD").is_ok() { let _ = std::panic::take_hook(); }
    for l in a.replay_lines().unwrap_or_default() {
        println!("== {}", if l.len() > 200 { &l[..200] } else { &l });
        match parse_hist(&l) {
            None => match unit_case(&l) { Some(t) => println!("   {}", t), None => println!("   unparsable") },
            Some(h) => {
                let (_, terms, obs) = observe(&h, "probe");
                for (i, o) in obs.iter().enumerate() {
                    println!("   [{}] {} -> {}   {}", i, h.src.get(i).map(|s| if s.len() > 60 { &s[..60] } else { &s[..] }).unwrap_or("?"), debug_obs(o),
                             terms.get(i).map(|t| if t.len() > 100 { &t[..100] } else { &t[..] }).unwrap_or(""));
                }
            }
        }
    }
}

fn gen(a: &Args) {
    let mut rng = Rng::new(a.seed);
    let mut w = CaseWriter::new(&a.out, "C11", "Corr.C11", 700);
    let mut in_shard = 0usize;
    let lines: Vec<(String, &'static str)> = match a.replay_lines() {
        Some(ls) => ls.into_iter().map(|l| (l, "replay")).collect(),
        None => { let mut v = histories(&mut rng, a.thorough()); v.extend(unit_lines(&mut rng, a.thorough())); v }
    };
    let (mut n_big, mut n_known) = (0u64, 0u64);
    for (l, kind) in lines {
        if let Some(h) = parse_hist(&l) {
            let (jsonbs, terms, _) = observe(&h, "gen");
            if nontrivial(&h) { n_big += 1; }
            let _ = &mut n_known;   // no finding class is left open
            if kind == "huge" && in_shard > 0 { w.flush(); in_shard = 0; }   // a shard of its own
            w.push(hist_term(&h, &jsonbs, &terms), show_hist(&h), nontrivial(&h), kind);
            // histories are the expensive cases for coqc: short shards, evaluated in parallel
            in_shard += 1;
            if in_shard >= 32 || kind == "huge" { w.flush(); in_shard = 0; }
        } else if let Some(t) = unit_case(&l) {
            if in_shard > 0 { w.flush(); in_shard = 0; }
            w.push(t, l.clone(), false, kind);
        }
    }
    w.finish(&[("histories_reaching_toast".to_string(), n_big.to_string()), ("histories_aimed_at_known_classes".to_string(), n_known.to_string())]);
}

/// Oracle only (no model): every SELECT must show, for every key, the value of the last write that reported
/// success - same type tag, same bits.  A failing history is printed with the class of the recorded
/// finding it falls in (by its inputs / symptoms), if any.
fn search(a: &Args) {
    let mut rng = Rng::new(a.seed ^ 0xC11_5EA);
    let mut fails: Vec<String> = vec![];
    let mut tried = 0u64;
    let start = std::time::Instant::now();
    let budget = a.budget.min(4000);
    let mut pool = histories(&mut rng, false);
    let mut extra = histories(&mut Rng::new(a.seed ^ 0x77), true);
    pool.append(&mut extra);
    for (l, _) in pool {
        if tried >= budget || start.elapsed().as_secs() > 900 { break; }
        let h = match parse_hist(&l) { Some(h) => h, None => continue };
        if dangerous(&h) { continue; }
        tried += 1;
        let dir = tmp_dir("search");
        let jsonbs = resolve_json(&h, &dir);
        let obs = run_hist(&h, &jsonbs, &dir, &mut |_, _| {});
        let mut exp: std::collections::BTreeMap<i64, OwnedValue> = Default::default();
        let mut ok = true;
        for (i, (op, o)) in h.ops.iter().zip(obs.iter()).enumerate() {
            let jb = jsonbs.get(i).and_then(|x| x.as_ref());
            match (op, o) {
                (Op::Ins(_, k, v), Obs::Wrote(true, _)) => { if let Some(e) = expected(v, jb) { exp.insert(*k, e); } }
                (Op::Upd(_, k, v), Obs::Wrote(true, _)) => { if exp.contains_key(k) { if let Some(e) = expected(v, jb) { exp.insert(*k, e); } } }
                (Op::Del(k), Obs::Wrote(true, _)) => { exp.remove(k); }
                (_, Obs::Wrote(false, _)) | (_, Obs::Skipped) | (Op::Reopen, Obs::Reopened(true)) => {}
                (Op::Query(_), Obs::Rows(Ok(rows))) => {
                    let want: Vec<(i64, OwnedValue)> = exp.iter().map(|(k, v)| (*k, v.clone())).collect();
                    if rows.len() != want.len() || !rows.iter().zip(want.iter()).all(|(x, y)| x.0 == y.0 && same_value(&x.1, &y.1)) { ok = false; }
                }
                _ => { ok = false; }
            }
        }
        if !ok && fails.len() < 60 {
            let class = 0;   // every recorded class has been repaired: a failing history is a new violation
            fails.push(format!("{} class={}", show_hist(&h), class));
        }
    }
    let mut out = String::new();
    out.push_str(&format!("tried={}\n", tried));
    for f in &fails { out.push_str("FAIL "); out.push_str(f); out.push('\n'); }
    std::fs::write(&a.out, out).expect("write search output");
}
