(* C38: the two refutations on Model/CommitOrder.v (the code as it is, fx = true), as concrete
   fine-grained runs evaluated by vm_compute. *)
From Coq Require Import ZArith List Bool.
From TV Require Import Lib.Interleave Model.GroupCommit Model.CommitOrder.
Import ListNotations.
Open Scope Z_scope.

(* two handles, one page, one update each *)
Definition w_progs : list (list txn) := [[[(1, 0)]]; [[(1, 1)]]].

(* A writes and captures page 1 (image {0}) and is preempted at site 401 (locks dropped, not yet
   submitted); B writes, captures image {0,1}, submits, flushes, returns; then A submits and
   flushes: the log ends with the OLDER image of page 1. *)
Definition order_sched : list nat := repeat 0%nat 7 ++ repeat 1%nat 30 ++ repeat 0%nat 30.
Lemma log_order_refuted_l :
  let s := run (step38 true) order_sched (init38 w_progs) in
  frames s = [(1, 3); (1, 1)] /\ order_ok (frames s) = false /\
  map la_ok (lacks s) = [true; true] /\ all_finished38 s = true /\
  inverted s = true /\ borrowed s = false /\ stolen (sh (base s)) = false.
Proof. vm_compute. repeat split. Qed.

(* A writes page 1 and is preempted before COMMIT; B writes, and its COMMIT captures page 1 -
   including A's uncommitted update - draining the global dirty tracker, and is preempted at 401;
   A's COMMIT finds no dirty table, skips the WAL commit and returns Ok: the log is empty. *)
Definition cover_sched : list nat := repeat 0%nat 3 ++ repeat 1%nat 7 ++ repeat 0%nat 5.
Lemma coverage_refuted_l :
  let s := run (step38 true) cover_sched (init38 w_progs) in
  frames s = [] /\ lacks s = [LAck 0%nat 1 [(1, 0)] true 0] /\
  forallb (covered (frames s)) (lacks s) = false /\
  borrowed s = true /\ inverted s = false /\ stolen (sh (base s)) = false.
Proof. vm_compute. repeat split. Qed.

(* ... and when everybody has finished the page image with both updates is in the log, but A was
   told Ok before *)
Lemma coverage_refuted_final_l :
  let s := run (step38 true) (cover_sched ++ repeat 1%nat 30) (init38 w_progs) in
  frames s = [(1, 3)] /\ map la_frames (lacks s) = [0; 1] /\ all_finished38 s = true /\
  forallb (covered (frames s)) (lacks s) = false.
Proof. vm_compute. repeat split. Qed.
