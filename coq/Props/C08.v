(* C08 - Uncommitted changes are isolated from other handles.
   Property theorems only.
   (1) The statement of the property is the snapshot-isolation reference Model/SI.v (statement
       granularity, several handles); its guarantees are proved for every state / every schedule.
   (2) The implementation model Model/MvccImpl.v (= Model/UndoLog.v with one undo log per handle on
       ONE shared table, scans that filter DELETE_BIT only) refutes the property: design-level
       findings F-C08-1..3, each witness replayed on the real Database.
   (3) The visibility / write-conflict helpers of src/mvcc/version.rs decide correctly -- they are
       simply never called by scans or DML. *)
From Coq Require Import ZArith List Bool.
From TV Require Import Model.SqlSpec Model.UndoLog Model.SI Model.MvccImpl Proof.SI Proof.MvccRefute.
Import ListNotations.
Open Scope Z_scope.

(* no dirty read: no statement of an open transaction of h' (other than its COMMIT) changes what
   any other handle h reads *)
Theorem si_no_dirty_read :
  forall s h h' o, h <> h' -> in_txn h' s -> o <> OCommit ->
    si_view h (snd (si_exec h' o s)) = si_view h s.
Proof. exact si_no_dirty_read_l. Qed.

(* consistent snapshot: whatever another handle does (DML, COMMIT, autocommit statements), the
   reads of an open transaction do not change and it stays open *)
Theorem si_snapshot_stable :
  forall s h h' o, h <> h' -> in_txn h s ->
    si_view h (snd (si_exec h' o s)) = si_view h s /\ in_txn h (snd (si_exec h' o s)).
Proof. exact si_snapshot_stable_l. Qed.

(* ... for all schedules of the other handles *)
Theorem si_txn_reads_stable :
  forall sched s h,
    in_txn h s -> forallb (fun p => negb (Nat.eqb (fst p) h)) sched = true ->
    si_view h (si_run sched s) = si_view h s.
Proof. exact si_txn_reads_stable_l. Qed.

(* a transaction body followed by ROLLBACK is invisible to every other handle *)
Theorem si_rollback_invisible :
  forall body s h h', h <> h' -> in_txn h' s -> forallb keeps_open body = true ->
    si_view h (si_run (map (pair h') (body ++ [ORollback])) s) = si_view h s.
Proof. exact si_rollback_invisible_l. Qed.

(* no lost update: of two open transactions that wrote the same row, once one has committed the
   COMMIT of the other fails *)
Theorem si_no_lost_update :
  forall s a b ta tb k s',
    si_wf s -> a <> b ->
    nth_error (hs s) a = Some (Some ta) -> nth_error (hs s) b = Some (Some tb) ->
    kmem_v k (wkeys ta) = true -> kmem_v k (wkeys tb) = true ->
    si_exec a OCommit s = (ROk, s') ->
    fst (si_exec b OCommit s') = RErr.
Proof. exact si_no_lost_update_l. Qed.

(* the well-formedness used above holds in every state any schedule reaches *)
Theorem si_wf_reachable : forall nh sched, si_wf (si_run sched (si_init nh)).
Proof. exact si_wf_reachable_l. Qed.

(* the header rule of src/mvcc/version.rs, were it called *)
Theorem visible_rule_sound :
  forall hd ts, is_visible_to hd ts = Visible <-> (h_locked hd = false /\ h_txn hd <= ts /\ h_deleted hd = false).
Proof. exact visible_rule_sound_l. Qed.
Theorem can_write_sound :
  forall hd w rts,
    can_write hd w rts = CanWrite <-> ((h_locked hd = true /\ h_txn hd = w) \/ (h_locked hd = false /\ h_txn hd <= rts)).
Proof. exact can_write_sound_l. Qed.

(* in the implementation model the undo log of a handle is private to it *)
Theorem impl_txn_private :
  forall sch s h h' o, h <> h' -> nth_error (snd (snd (exec_h sch h' o s))) h = nth_error (snd s) h.
Proof. exact impl_txn_private_l. Qed.

(* ------------------------------------------------------------------ refutations (design-level findings) *)
Theorem impl_dirty_read_refuted :
  exists sched h,
    impl_view (impl_run sch0 sched (impl_init 2)) = [R (VInt 1) (VInt 10)] /\
    si_view h (si_run sched (si_init 2)) = [].
Proof. exact impl_dirty_read_refuted_l. Qed.

Theorem impl_snapshot_refuted :
  exists pre sched h,
    impl_view (impl_run sch0 (pre ++ sched) (impl_init 2)) <> impl_view (impl_run sch0 pre (impl_init 2)) /\
    si_view h (si_run (pre ++ sched) (si_init 2)) = si_view h (si_run pre (si_init 2)).
Proof. exact impl_snapshot_refuted_l. Qed.

Theorem impl_lost_update_refuted :
  fst (exec_h sch0 1 OCommit (impl_run sch0 lost_update_sched (impl_init 2))) = ROk /\
  fst (si_exec 1 OCommit (si_run lost_update_sched (si_init 2))) = RErr.
Proof. exact impl_lost_update_refuted_l. Qed.

Theorem impl_rollback_clobbers_refuted :
  exists sched,
    impl_view (impl_run sch0 sched (impl_init 2)) = [R (VInt 1) (VInt 20)] /\
    committed (si_run sched (si_init 2)) = [R (VInt 1) (VInt 10)].
Proof. exact impl_rollback_clobbers_refuted_l. Qed.

(* non-vacuity: a state with two open transactions that wrote the same key is reachable, and there
   the first COMMIT succeeds *)
Example c08_example :
  let s := si_run [(0%nat, OIns [R (VInt 1) (VInt 10)]); (0%nat, OBegin); (1%nat, OBegin);
                   (0%nat, OUpd C1 (VInt 20) (Some (C0, VInt 1))); (1%nat, OUpd C1 (VInt 30) (Some (C0, VInt 1)))] (si_init 2) in
  fst (si_exec 0 OCommit s) = ROk /\ si_view 1 s = [R (VInt 1) (VInt 30)] /\ si_view 0 s = [R (VInt 1) (VInt 20)]
  /\ committed s = [R (VInt 1) (VInt 10)].
Proof. vm_compute. repeat split; reflexivity. Qed.

Check si_no_dirty_read :
  forall s h h' o, h <> h' -> in_txn h' s -> o <> OCommit ->
    si_view h (snd (si_exec h' o s)) = si_view h s.
Check si_snapshot_stable :
  forall s h h' o, h <> h' -> in_txn h s ->
    si_view h (snd (si_exec h' o s)) = si_view h s /\ in_txn h (snd (si_exec h' o s)).
Check si_txn_reads_stable :
  forall sched s h,
    in_txn h s -> forallb (fun p => negb (Nat.eqb (fst p) h)) sched = true ->
    si_view h (si_run sched s) = si_view h s.
Check si_rollback_invisible :
  forall body s h h', h <> h' -> in_txn h' s -> forallb keeps_open body = true ->
    si_view h (si_run (map (pair h') (body ++ [ORollback])) s) = si_view h s.
Check si_no_lost_update :
  forall s a b ta tb k s',
    si_wf s -> a <> b ->
    nth_error (hs s) a = Some (Some ta) -> nth_error (hs s) b = Some (Some tb) ->
    kmem_v k (wkeys ta) = true -> kmem_v k (wkeys tb) = true ->
    si_exec a OCommit s = (ROk, s') ->
    fst (si_exec b OCommit s') = RErr.
Check si_wf_reachable : forall nh sched, si_wf (si_run sched (si_init nh)).
Check visible_rule_sound :
  forall hd ts, is_visible_to hd ts = Visible <-> (h_locked hd = false /\ h_txn hd <= ts /\ h_deleted hd = false).
Check can_write_sound :
  forall hd w rts,
    can_write hd w rts = CanWrite <-> ((h_locked hd = true /\ h_txn hd = w) \/ (h_locked hd = false /\ h_txn hd <= rts)).
Check impl_txn_private :
  forall sch s h h' o, h <> h' -> nth_error (snd (snd (exec_h sch h' o s))) h = nth_error (snd s) h.
Check impl_dirty_read_refuted :
  exists sched h,
    impl_view (impl_run sch0 sched (impl_init 2)) = [R (VInt 1) (VInt 10)] /\
    si_view h (si_run sched (si_init 2)) = [].
Check impl_snapshot_refuted :
  exists pre sched h,
    impl_view (impl_run sch0 (pre ++ sched) (impl_init 2)) <> impl_view (impl_run sch0 pre (impl_init 2)) /\
    si_view h (si_run (pre ++ sched) (si_init 2)) = si_view h (si_run pre (si_init 2)).
Check impl_lost_update_refuted :
  fst (exec_h sch0 1 OCommit (impl_run sch0 lost_update_sched (impl_init 2))) = ROk /\
  fst (si_exec 1 OCommit (si_run lost_update_sched (si_init 2))) = RErr.
Check impl_rollback_clobbers_refuted :
  exists sched,
    impl_view (impl_run sch0 sched (impl_init 2)) = [R (VInt 1) (VInt 20)] /\
    committed (si_run sched (si_init 2)) = [R (VInt 1) (VInt 10)].

Print Assumptions si_no_dirty_read.
Print Assumptions si_snapshot_stable.
Print Assumptions si_txn_reads_stable.
Print Assumptions si_rollback_invisible.
Print Assumptions si_no_lost_update.
Print Assumptions si_wf_reachable.
Print Assumptions visible_rule_sound.
Print Assumptions can_write_sound.
Print Assumptions impl_txn_private.
Print Assumptions impl_dirty_read_refuted.
Print Assumptions impl_snapshot_refuted.
Print Assumptions impl_lost_update_refuted.
Print Assumptions impl_rollback_clobbers_refuted.
