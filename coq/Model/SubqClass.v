(* C18 finding classes (definitions only): a narrow, decidable description of the statements on
   which TurDB, as it is, is known not to return what SQL defines.  0 = no recorded finding.
   Every class names ONE mechanism of the implementation model (Model/SubqImpl.v); the first
   that applies is reported.  Proof/SubqImpl.v proves that on class 0 the model returns what
   the reference semantics defines.

   set-operation chains
     3  a branch whose WHERE contains a subquery (decorrelated branch = no table scan: error;
        scalar subquery never computed)
     2  two or more operators whose standard reading (INTERSECT first, then left to right)
        differs from the parser's right-associative reading
     1  (repaired by 432d38e, no longer assigned) INTERSECT ALL / EXCEPT ALL by membership
   single SELECT
     4  a subquery in the select list (never computed: NULL)
     5  EXISTS / IN (subquery) next to other conjuncts: the Filter is replaced by the join, the
        other conjuncts are dropped
     6  NOT IN (subquery) executed as a plain anti join (NULLs ignored)
     7  bare column names in the join condition of a decorrelated subquery resolve over the
        combined row: in a key of the hash path (condition = column = column conjuncts only) to
        the outer table first, in a nested-loop condition to the subquery's table first (the
        dropped residual condition of the hash path was repaired by 53a2c94 / 824c6c8)
     8  a subquery nested in the WHERE of a decorrelated subquery (EXISTS / IN read TRUE, a scalar
        subquery is missing)
     9  EXISTS / IN (subquery) that is not decorrelated (under OR / NOT / IS NULL, or over a
        derived table): reads TRUE
    10  a correlated scalar subquery: error "column not found"
    11  a scalar subquery whose own WHERE contains a subquery, or whose FROM is a derived table
        (NULL, or computed with EXISTS / IN read as TRUE)
    12  (repaired by 855697d: now the SQL error; kept as a side condition of the theorem, not
        reported by Corr) a scalar subquery with more than one row
    13  FROM (subquery) whose levels or whose outer WHERE contain subqueries *)
From Coq Require Import ZArith List Bool Arith.
From TV Require Import Model.SqlSpec Model.SubqSpec Model.SubqImpl Model.SubqWf.
Import ListNotations.
Open Scope Z_scope.

(* ------------------------------------------------------------------ chains *)
(* the two readings of the chain, compared on the NUMBERS of the leaves *)
Fixpoint stree_eqb (a b : stree nat) : bool :=
  match a, b with
  | TLeaf x, TLeaf y => (x =? y)%nat
  | TNode k1 a1 l1 r1, TNode k2 a2 l2 r2 =>
      (match k1, k2 with KUnion, KUnion | KIntersect, KIntersect | KExcept, KExcept => true | _, _ => false end)
      && Bool.eqb a1 a2 && stree_eqb l1 l2 && stree_eqb r1 r2
  | _, _ => false
  end.
Fixpoint number_ops {A} (n : nat) (l : list (setk * bool * A)) : list (setk * bool * nat) :=
  match l with
  | [] => []
  | (k, all, _) :: l' => (k, all, n) :: number_ops (S n) l'
  end.
Definition number_chain {A} (c : gchain A) : gchain nat := (O, number_ops 1 (snd c)).
Definition same_reading {A} (c : gchain A) : bool :=
  stree_eqb (parse_std (number_chain c)) (parse_right (number_chain c)).

Definition leaf_has_sub (q : qry) : bool :=
  match q with
  | QSel items _ w => existsb has_sub items || match w with Some p => has_sub p | None => false end
  | QSet _ _ _ _ => true
  end.
Definition is_all_ie (o : setk * bool * qry) : bool :=
  match o with
  | (KIntersect, true, _) | (KExcept, true, _) => true
  | _ => false
  end.

Definition chain_class (c : chain) : Z :=
  if leaf_has_sub (fst c) || existsb (fun o => leaf_has_sub (snd o)) (snd c) then 3
  else if negb (same_reading c) then 2
  else 0.

(* ------------------------------------------------------------------ single SELECT *)
Section Db.
  Variable widths : list nat.
  Variable db : list table.

  (* a key column resolves (find_column_idx) to the table its level says: level 0 = the
     subquery's table (right), level 1 = the outer table (left) *)
  Definition key_side_ok (lw rw : nat) (c : nat * nat * bool) : bool :=
    match c with
    | (O, i, _) => match key_idx lw rw c with Some j => (j =? lw + i)%nat | None => false end
    | (S O, i, _) => (i <? lw)%nat && match key_idx lw rw c with Some j => (j =? i)%nat | None => false end
    | _ => false
    end.
  (* every conjunct of the condition is a usable key: column = column pairing an outer with an
     inner column *)
  Fixpoint pure_keys (lw rw : nat) (e : sx) : bool :=
    match e with
    | XAnd a b => pure_keys lw rw a && pure_keys lw rw b
    | XCmp CEq (XCol l1 i1 q1) (XCol l2 i2 q2) =>
        match key_pair lw rw ((l1, i1, q1), (l2, i2, q2)) with Some _ => true | None => false end
        && key_side_ok lw rw (l1, i1, q1) && key_side_ok lw rw (l2, i2, q2)
    | _ => false
    end.

  (* a scalar subquery the implementation computes as SQL defines: uncorrelated, subquery-free
     WHERE over a base table, at most one row *)
  Definition scalar_class (q : qry) : Z :=
    match q with
    | QSel [XCol O _ _] (SBase k) w =>
        match w with
        | None => match nth_error db k with Some (_ :: _ :: _) => 12 | _ => 0 end
        | Some p =>
            if own_outer p then 10
            else if has_sub p then 11
            else
              match nth_error db k with
              | Some T =>
                  match filter_opt (fun r => ipass (look_own r) (fun _ => None) p) T with
                  | Some (_ :: _ :: _) => 12
                  | _ => 0
                  end
              | None => 0
              end
        end
    | QSel [XCol (S _) _ _] _ _ => 10
    | _ => 11
    end.
  Fixpoint first_nonzero (l : list Z) : Z :=
    match l with [] => 0 | x :: l' => if x =? 0 then first_nonzero l' else x end.

  (* IN / EXISTS anywhere in the expression (outside scalar subqueries) *)
  Fixpoint has_inex (e : sx) : bool :=
    match e with
    | XCol _ _ _ | XLit _ | XScalar _ => false
    | XArith _ a b | XCmp _ a b | XAnd a b | XOr a b => has_inex a || has_inex b
    | XNot a | XIsNull _ a => has_inex a
    | XIn _ _ _ | XExists _ _ => true
    end.

  Definition is_sub_atom (p : sx) : bool :=
    match p with XIn _ _ _ | XExists _ _ => true | _ => false end.

  Definition where_class (lw : nat) (p : sx) : Z :=
    match decor p with
    | Some d =>
        if negb (is_sub_atom p) then 5
        else if (match d with DIn true _ _ _ _ => true | _ => false end) then 6
        else
          match nth_error widths (dec_tab d) with
          | None => 0
          | Some rw =>
              match join_cond d with
              | None => 0
              | Some c =>
                  if hash_path c then (if pure_keys lw rw c then 0 else 7)
                  else if has_sub c then 8 else if negb (bare_ok [rw; lw] c) then 7 else 0
              end
          end
    | None =>
        if has_inex p then 9
        else first_nonzero (map scalar_class (scalars_of p))
    end.

  Fixpoint derived_simple (q : qry) : bool :=
    match q with
    | QSel items s (Some p) =>
        negb (has_sub p) && forallb (fun it => match it with XCol O _ _ => true | _ => false end) items
        && match s with SBase _ => true | SSub q' => derived_simple q' end
    | _ => false
    end.

  Definition select_class (q : qry) : Z :=
    match q with
    | QSel items s w =>
        if existsb has_sub items then 4
        else
          match s with
          | SBase k =>
              match w, nth_error widths k with
              | Some p, Some lw => where_class lw p
              | _, _ => 0
              end
          | SSub q' =>
              if derived_simple q' && match w with Some p => negb (has_sub p) | None => true end then 0 else 13
          end
    | QSet _ _ _ _ => 0
    end.

  Definition stmt_class (c : chain) : Z :=
    match snd c with
    | [] => select_class (fst c)
    | _ => chain_class c
    end.
End Db.
