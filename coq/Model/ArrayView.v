(* C23 model, part 3: src/records/array.rs ArrayView on ARBITRARY bytes (the view of an ARRAY column
   value as stored in a row record).  Layout: total_size u32 | elem_type u8 | ndims u8 | len u16 |
   null bitmap ceil(len/8) | fixed-width elements, or u32 offset table + variable-width data.
   Hand-transcribed (byte-array patterns `u32::from_le_bytes([self.data[0], ..])` and &str are outside
   the rs2v subset).  ArrayView::new only checks `data.len() >= 8`; every getter then indexes
   `self.data[..]` by positions computed from the stored len / offsets WITHOUT a bounds check, and
   elem_type() `expect`s a valid type byte - all of that is modelled as it is (Panic).
   std::str::from_utf8 is Model/Utf8.v valid_utf8 (shared).  Definitions only, no proofs. *)
From Coq Require Import ZArith List Bool.
From TV Require Import Lib.MachInt Model.Utf8 Model.StoredBytes.
Import ListNotations.
Open Scope Z_scope.

Definition ARRAY_HEADER_SIZE : Z := 8.          (* const HEADER_SIZE *)

(* ArrayView::new *)
Definition array_new (d : list Z) : res unit := if blen d <? ARRAY_HEADER_SIZE then Err else Ok tt.

(* u16 / u32 ::from_le_bytes([self.data[p], self.data[p+1], ..]) : n unchecked single-byte reads *)
Fixpoint le_at (d : list Z) (p : Z) (n : nat) : res Z :=
  match n with
  | O => Ok 0
  | S k => b <- idx d p ;; r <- le_at d (p + 1) k ;; Ok (b + 256 * r)
  end.

Definition total_size (d : list Z) : res Z := le_at d 0 4.
Definition alen (d : list Z) : res Z := le_at d 6 2.
Definition ndims (d : list Z) : res Z := idx d 5.

(* DataType::try_from(u8) succeeds on these discriminants (src/types/data_type.rs) *)
Definition dtype_code_ok (b : Z) : bool :=
  ((0 <=? b) && (b <=? 13)) || ((20 <=? b) && (b <=? 25)) || (b =? 30) || (b =? 31)
  || ((40 <=? b) && (b <=? 43)) || (b =? 50) || ((60 <=? b) && (b <=? 62)) || (b =? 70) || (b =? 71).
(* elem_type(): DataType::try_from(self.data[4]).expect("corrupted array: invalid type byte") *)
Definition elem_type (d : list Z) : res Z :=
  b <- idx d 4 ;; if dtype_code_ok b then Ok b else Panic.

(* len.div_ceil(8) *)
Definition bitmap_size (n : Z) : Z := (n + 7) / 8.

(* is_null(idx) -> bool *)
Definition is_null (d : list Z) (i : Z) : res bool :=
  n <- alen d ;;
  if i >=? n then Ok true
  else b <- idx d (ARRAY_HEADER_SIZE + i / 8) ;; Ok (negb (Z.land b (2 ^ (i mod 8)) =? 0)).

(* get_int2 / get_int4 / get_int8 / get_float4 / get_float8 (w = 2,4,8; the unsigned little-endian value:
   the caller reads it as iN or as the bits of fN) and get_bool (w = 1) *)
Definition get_fixed (d : list Z) (w : nat) (i : Z) : res Z :=
  n <- alen d ;;
  if i <? n then le_at d (ARRAY_HEADER_SIZE + bitmap_size n + i * Z.of_nat w) w else Err.
Definition get_bool (d : list Z) (i : Z) : res bool :=
  v <- get_fixed d 1 i ;; Ok (negb (v =? 0)).

(* read_offset(idx) *)
Definition read_offset (d : list Z) (n i : Z) : res Z := le_at d (ARRAY_HEADER_SIZE + bitmap_size n + i * 4) 4.

(* get_var_bounds *)
Definition get_var_bounds (d : list Z) (i : Z) : res (Z * Z) :=
  n <- alen d ;;
  if i <? n then
    let ds := ARRAY_HEADER_SIZE + bitmap_size n + n * 4 in
    st <- read_offset d n i ;;
    en <- (if i + 1 <? n then read_offset d n (i + 1)
           else ts <- total_size d ;; if ts <? ds then Panic else Ok (ts - ds)) ;;   (* usize subtraction *)
    Ok (ds + st, ds + en)
  else Err.

(* get_blob *)
Definition get_blob (d : list Z) (i : Z) : res (list Z) :=
  nl <- is_null d i ;;
  if (nl : bool) then Err
  else be <- get_var_bounds d i ;; sub d (fst be) (snd be).

(* get_text: the bytes, when they are valid UTF-8 *)
Definition get_text (d : list Z) (i : Z) : res (list Z) :=
  b <- get_blob d i ;; if valid_utf8 b then Ok b else Err.

(* ------------------------------------------------------------------ where the getters go wrong *)
(* the type byte is no DataType discriminant (class of finding F-C23-6) *)
Definition array_type_bad (d : list Z) : bool := negb (dtype_code_ok (bidx d 4)).

(* ------------------------------------------------------------------ sufficient conditions *)
(* the null bitmap lies inside the data *)
Definition wf_bitmap (d : list Z) : bool :=
  (ARRAY_HEADER_SIZE <=? blen d) &&
  match alen d with Ok n => ARRAY_HEADER_SIZE + bitmap_size n <=? blen d | _ => false end.
(* variable-width arrays: bitmap and offset table lie inside the data, total_size covers them, and the
   element i announced by the offset table is a slice of the data *)
Definition wf_var (d : list Z) (i : Z) : bool :=
  (ARRAY_HEADER_SIZE <=? blen d) &&
  match alen d, total_size d with
  | Ok n, Ok ts =>
      let ds := ARRAY_HEADER_SIZE + bitmap_size n + n * 4 in
      (ds <=? blen d) && (ds <=? ts) &&
      match read_offset d n i, (if i + 1 <? n then read_offset d n (i + 1) else Ok (ts - ds)) with
      | Ok st, Ok en => (st <=? en) && (ds + en <=? blen d)
      | _, _ => false
      end
  | _, _ => false
  end.
(* a decidable well-formedness under which no getter panics: the header is there, the null bitmap and
   (fixed: the element area of width w; variable: the offset table) lie inside the data *)
Definition wf_fixed (d : list Z) (w : Z) : bool :=
  (ARRAY_HEADER_SIZE <=? blen d) &&
  match alen d with
  | Ok n => ARRAY_HEADER_SIZE + bitmap_size n + n * w <=? blen d
  | _ => false
  end.
