//! C38 (exploration stage): two/three cloned Database handles commit explicit transactions under
//! the deterministic scheduler; the WAL file is inspected afterwards.
use std::path::{Path, PathBuf};
use std::sync::{Arc, Mutex};
use std::time::{Duration, Instant};
use turdb::Database;
use tvh::sched::*;
use tvh::*;

const PAGE: usize = 16384;
const FRAME: usize = 32 + PAGE;

fn marker(t: usize, i: usize) -> i64 { 0x5A5A_0000_0000_0000u64 as i64 + ((t as i64 + 1) << 16) + (i as i64 + 1) }

/// frames of the WAL directory in write order: (file_id, page_no, set of markers present)
fn read_wal(dir: &Path, markers: &[(usize, usize)]) -> Vec<(u64, u32, Vec<(usize, usize)>)> {
    let mut segs: Vec<PathBuf> = std::fs::read_dir(dir).map(|rd| rd.filter_map(|e| e.ok().map(|e| e.path()))
        .filter(|p| p.file_name().map(|n| n.to_string_lossy().starts_with("wal.")).unwrap_or(false)).collect()).unwrap_or_default();
    segs.sort();
    let mut out = vec![];
    for s in segs {
        let b = std::fs::read(&s).unwrap_or_default();
        let mut off = 0;
        while off + FRAME <= b.len() {
            let file_id = u64::from_le_bytes(b[off..off + 8].try_into().unwrap());
            let page_no = u32::from_le_bytes(b[off + 8..off + 12].try_into().unwrap());
            let img = &b[off + 32..off + FRAME];
            let mut present = vec![];
            for &(t, i) in markers {
                let m = marker(t, i);
                let le = m.to_le_bytes();
                let be = m.to_be_bytes();
                if img.windows(8).any(|w| w == le || w == be) { present.push((t, i)); }
            }
            out.push((file_id, page_no, present));
            off += FRAME;
        }
    }
    out
}

fn interesting(site: u32) -> bool { matches!(site, 301 | 302 | 304 | 305 | 306 | 400 | 401 | 402 | 403) }

fn main() {
    let a = Args::parse();
    let base = std::env::temp_dir().join(format!("c38-{}", std::process::id()));
    let _ = std::fs::remove_dir_all(&base);
    std::fs::create_dir_all(&base).unwrap();
    let path = base.join("db");
    let db = Database::create(&path).expect("create");
    db.execute("PRAGMA wal=ON").expect("wal");
    db.execute("CREATE TABLE t (id INT PRIMARY KEY, v BIGINT)").expect("ddl");
    for i in 1..=6 { db.execute(&format!("INSERT INTO t VALUES ({}, {})", i, i)).expect("ins"); }
    let wal_dir = path.join("wal");
    let all_markers: Vec<(usize, usize)> = (0..3).flat_map(|t| (0..3).map(move |i| (t, i))).collect();
    let base_frames = read_wal(&wal_dir, &all_markers).len();
    eprintln!("baseline frames: {}", base_frames);
    // programs: thread t, txn i: update row (t*3+i+1)
    let n = 2;
    let sched_list: Vec<usize> = a.rest.iter().filter_map(|x| x.parse().ok()).collect();
    let s = Scheduler::new(n);
    s.install();
    let results: Arc<Mutex<Vec<String>>> = Arc::new(Mutex::new(vec![]));
    let mut hs = vec![];
    for id in 0..n {
        let h = db.clone();
        let res = Arc::clone(&results);
        hs.push(s.spawn(id, move || {
            for i in 0..1 {
                let r1 = h.execute("BEGIN");
                let r2 = h.execute(&format!("UPDATE t SET v = {} WHERE id = {}", marker(id, i), id * 3 + i + 1));
                turdb::verif_hooks::sched_point(400);
                let r3 = h.execute("COMMIT");
                res.lock().unwrap().push(format!("t{} txn{}: begin={:?} upd={:?} commit={:?}", id, i, r1.is_ok(), r2.as_ref().map(|_| ()).map_err(|e| format!("{:#}", e)), r3.as_ref().map(|_| ()).map_err(|e| format!("{:#}", e))));
            }
        }));
    }
    s.wait_all_started();
    let step_to_interesting = |t: usize| -> String {
        let t0 = Instant::now();
        let mut trail = vec![];
        loop {
            let o = s.step(t);
            match o {
                StepOutcome::Reached(x) if !interesting(x) && t0.elapsed() < Duration::from_secs(5) => { trail.push(x); continue; }
                other => return format!("{:?} (through {:?})", other, trail),
            }
        }
    };
    for &t in &sched_list {
        let o = step_to_interesting(t);
        let frames = read_wal(&wal_dir, &all_markers);
        eprintln!("step t{} -> {}   wal+{} {:?}", t, o, frames.len() - base_frames, &frames[base_frames..]);
    }
    // drain
    for _ in 0..200 {
        if s.all_finished() { break; }
        for t in 0..n { let _ = step_to_interesting(t); }
    }
    for h in hs { let _ = h.join(); }
    Scheduler::uninstall();
    let frames = read_wal(&wal_dir, &all_markers);
    eprintln!("final wal+{} {:?}", frames.len() - base_frames, &frames[base_frames..]);
    for r in results.lock().unwrap().iter() { eprintln!("{}", r); }
    let rows = db.query("SELECT id, v FROM t ORDER BY id");
    eprintln!("rows: {:?}", rows.map(|r| r.len()));
    let _ = std::fs::remove_dir_all(&base);
}
