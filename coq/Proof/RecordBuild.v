(* C31 proofs, part 2: the schema tables, and the builder: closed form of the bytes
   produced for a fitting row, and reset = new. *)
From Coq Require Import ZArith List Bool Lia ZifyBool.
From TV Require Import Lib.MachInt Lib.MachIntFacts Model.Record Proof.RecordBase.
Import ListNotations.
Open Scope Z_scope.

Ltac Zify.zify_post_hook ::= Z.to_euclidean_division_equations.

(* ------------------------------------------------------------------ schema tables *)
Definition nvars (s : schema) : nat := length (filter is_var s).

Lemma fsz_nonneg t : 0 <= fsz t.
Proof. destruct t; cbv; congruence. Qed.

Lemma total_fixed_nonneg s : 0 <= total_fixed s.
Proof. induction s as [|t s IH]; cbn [total_fixed]; [lia | pose proof (fsz_nonneg t); lia]. Qed.

Lemma total_fixed_app a b : total_fixed (a ++ b) = total_fixed a + total_fixed b.
Proof. induction a as [|t a IH]; cbn [total_fixed app]; [lia | rewrite IH; lia]. Qed.

Lemma is_var_fsz t : is_var t = true -> fsz t = 0.
Proof. destruct t; cbv; congruence. Qed.

Lemma fixed_offsets_from_app a : forall off b,
  fixed_offsets_from off (a ++ b) = fixed_offsets_from off a ++ fixed_offsets_from (off + total_fixed a) b.
Proof.
  induction a as [|t a IH]; intros off b; cbn [fixed_offsets_from total_fixed app].
  - f_equal. lia.
  - rewrite IH. do 3 f_equal. lia.
Qed.

Lemma fixed_offsets_from_length s : forall off, length (fixed_offsets_from off s) = length s.
Proof. induction s as [|t s IH]; intros off; cbn [fixed_offsets_from length]; [reflexivity | rewrite IH; reflexivity]. Qed.

Lemma fixed_offset_split done t todo :
  fixed_offset (done ++ t :: todo) (Z.of_nat (length done)) = Ok (total_fixed done).
Proof.
  unfold fixed_offset, fixed_offsets. rewrite fixed_offsets_from_app, Nat2Z.id.
  rewrite nth_error_app2 by (rewrite fixed_offsets_from_length; lia).
  rewrite fixed_offsets_from_length, Nat.sub_diag. cbn [fixed_offsets_from nth_error]. reflexivity.
Qed.

Lemma fixed_offset_oob s i : Z.of_nat (length s) <= i -> fixed_offset s i = Panic.
Proof.
  intros H. unfold fixed_offset, fixed_offsets.
  destruct (nth_error (fixed_offsets_from 0 s) (Z.to_nat i)) eqn:E; [|reflexivity].
  apply nth_error_Some_lt in E || idtac.
  assert (Hn : nth_error (fixed_offsets_from 0 s) (Z.to_nat i) <> None) by congruence.
  apply nth_error_Some in Hn. rewrite fixed_offsets_from_length in Hn. lia.
Qed.

Lemma column_split done t todo : column (done ++ t :: todo) (Z.of_nat (length done)) = Some t.
Proof.
  unfold column. rewrite Nat2Z.id, nth_error_app2 by lia. rewrite Nat.sub_diag. reflexivity.
Qed.

Lemma var_indices_from_app a : forall k b,
  var_indices_from k (a ++ b) = var_indices_from k a ++ var_indices_from (k + Z.of_nat (length a)) b.
Proof.
  induction a as [|t a IH]; intros k b; cbn [var_indices_from app length].
  - f_equal. lia.
  - rewrite IH. replace (k + 1 + Z.of_nat (length a)) with (k + Z.of_nat (S (length a))) by lia.
    destruct (is_var t); reflexivity.
Qed.

Lemma var_indices_from_range a : forall k x, In x (var_indices_from k a) -> k <= x < k + Z.of_nat (length a).
Proof.
  induction a as [|t a IH]; intros k x H; cbn [var_indices_from length] in *; [contradiction|].
  destruct (is_var t).
  - destruct H as [<-|H]; [lia | apply IH in H; lia].
  - apply IH in H. lia.
Qed.

Lemma var_indices_from_length a : forall k, length (var_indices_from k a) = nvars a.
Proof.
  unfold nvars. induction a as [|t a IH]; intros k; cbn [var_indices_from filter]; [reflexivity|].
  destruct (is_var t); cbn [length]; rewrite IH; reflexivity.
Qed.

Lemma nvar_nvars s : nvar s = Z.of_nat (nvars s).
Proof. unfold nvar, var_indices, blen. rewrite var_indices_from_length. reflexivity. Qed.

Lemma nvars_app a b : nvars (a ++ b) = (nvars a + nvars b)%nat.
Proof. unfold nvars. rewrite filter_app, app_length. reflexivity. Qed.

Lemma position_from_skip l1 : forall k x l2,
  ~ In x l1 -> position_from k x (l1 ++ l2) = position_from (k + Z.of_nat (length l1)) x l2.
Proof.
  induction l1 as [|y l1 IH]; intros k x l2 H; cbn [position_from app length].
  - f_equal. lia.
  - destruct (Z.eqb_spec y x) as [->|N]; [exfalso; apply H; left; reflexivity|].
    rewrite IH by (intros C; apply H; right; exact C). f_equal. lia.
Qed.

Lemma position_from_none l : forall k x, ~ In x l -> position_from k x l = None.
Proof.
  induction l as [|y l IH]; intros k x H; cbn [position_from]; [reflexivity|].
  destruct (Z.eqb_spec y x) as [->|N]; [exfalso; apply H; left; reflexivity|].
  apply IH. intros C; apply H; right; exact C.
Qed.

Lemma var_column_index_split done t todo :
  is_var t = true ->
  var_column_index (done ++ t :: todo) (Z.of_nat (length done)) = Some (Z.of_nat (nvars done)).
Proof.
  intros Hv. unfold var_column_index, var_indices. rewrite var_indices_from_app.
  rewrite position_from_skip.
  - cbn [var_indices_from]. rewrite Hv. cbn [position_from].
    rewrite Z.eqb_refl. rewrite var_indices_from_length. f_equal.
  - intros C. apply var_indices_from_range in C. lia.
Qed.

Lemma var_column_index_fixed done t todo :
  is_var t = false -> var_column_index (done ++ t :: todo) (Z.of_nat (length done)) = None.
Proof.
  intros Hv. unfold var_column_index, var_indices. rewrite var_indices_from_app.
  rewrite position_from_skip by (intros C; apply var_indices_from_range in C; lia).
  cbn [var_indices_from]. rewrite Hv. apply position_from_none.
  intros C. apply var_indices_from_range in C. lia.
Qed.

Lemma bitmap_idx n i : 0 <= i < n -> 0 <= i / 8 < bitmap_size n.
Proof. unfold bitmap_size. lia. Qed.

(* ------------------------------------------------------------------ what a value writes *)
(* the bytes handed to set_fixed_bytes / set_var_bytes by set_in_builder *)
Definition payload (t : dtype) (v : value) : list Z :=
  match v with
  | VNull => []
  | VBool b => [bool_byte b]
  | VInt i =>
      match t with
      | TInt2 => le 2 i | TInt4 => le 4 i | TBool => [bool_byte (negb (i =? 0))] | _ => le 8 i
      end
  | VFloat x => match t with TFloat4 => le 4 (f64_to_f32 x) | _ => le 8 x end
  | VText b | VBlob b | VJsonb b | VToast b => b
  | VVector fs => vector_bytes fs
  | VDate d => le 4 d
  | VTime x => le 8 x
  | VTimestamp x => le 8 x
  | VTimestampTz x tz => le 8 x ++ le 4 tz
  | VUuid b | VMacAddr b | VInet4 b | VInet6 b => b
  | VInterval mi d mo => le 8 mi ++ le 4 d ++ le 4 mo
  | VPoint x y => le 8 x ++ le 8 y
  | VBox a b c d => le 8 a ++ le 8 b ++ le 8 c ++ le 8 d
  | VCircle x y r => le 8 x ++ le 8 y ++ le 8 r
  | VDecimal d sc => decimal_bytes d sc
  | VEnum a o => le 2 a ++ le 2 o
  end.

Lemma set_in_builder_payload s st idx t v :
  column s idx = Some t -> fits t v = true -> is_vnull v = false ->
  set_in_builder s st idx v =
    if is_var t then set_var_bytes s st idx (payload t v) else set_fixed_bytes s st idx (payload t v).
Proof.
  intros Hc Hf Hn.
  destruct v; try discriminate Hn; destruct t; try discriminate Hf;
    cbn [set_in_builder payload is_var fixed_size]; try rewrite Hc; reflexivity.
Qed.

Lemma payload_fixed_len t v :
  fits t v = true -> is_vnull v = false -> is_var t = false ->
  blen (payload t v) = fsz t.
Proof.
  intros Hf Hn Hv.
  destruct v; try discriminate Hn; destruct t; try discriminate Hf; try discriminate Hv;
    cbn [payload fsz fixed_size]; rewrite ?blen_app, ?blen_le; try reflexivity;
    cbn [fits] in Hf; lia.
Qed.

Lemma payload_var_len t v :
  fits t v = true -> is_vnull v = false -> is_var t = true -> blen (payload t v) = var_len v.
Proof.
  intros Hf Hn Hv.
  destruct v; try discriminate Hn; destruct t; try discriminate Hf; try discriminate Hv;
    cbn [payload var_len]; try reflexivity.
  - (* vector *) unfold vector_bytes. rewrite blen_app, blen_le.
    assert (E : forall l, blen (flat_map (le 4) l) = 4 * blen l).
    { induction l as [|x l IH]; [reflexivity|]. cbn [flat_map]. rewrite blen_app, blen_le, IH, blen_cons. lia. }
    rewrite E. lia.
Qed.

(* ------------------------------------------------------------------ closed form of the areas *)
Definition fseg (t : dtype) (v : value) : list Z :=
  if is_var t then [] else if is_vnull v then repeat 0 (Z.to_nat (fsz t)) else payload t v.
Definition vseg (t : dtype) (v : value) : list (list Z) :=
  if is_var t then [if is_vnull v then [] else payload t v] else [].
Fixpoint fsegs (s : schema) (row : list value) : list Z :=
  match s, row with t :: s', v :: r => fseg t v ++ fsegs s' r | _, _ => [] end.
Fixpoint vsegs (s : schema) (row : list value) : list (list Z) :=
  match s, row with t :: s', v :: r => vseg t v ++ vsegs s' r | _, _ => [] end.

Lemma fsegs_app a : forall ra b rb, length a = length ra ->
  fsegs (a ++ b) (ra ++ rb) = fsegs a ra ++ fsegs b rb.
Proof.
  induction a as [|t a IH]; intros [|v ra] b rb H; cbn [length] in H; try discriminate; cbn [fsegs app].
  - reflexivity.
  - rewrite IH by lia. apply app_assoc.
Qed.
Lemma vsegs_app a : forall ra b rb, length a = length ra ->
  vsegs (a ++ b) (ra ++ rb) = vsegs a ra ++ vsegs b rb.
Proof.
  induction a as [|t a IH]; intros [|v ra] b rb H; cbn [length] in H; try discriminate; cbn [vsegs app].
  - reflexivity.
  - rewrite IH by lia. apply app_assoc.
Qed.

Lemma fits_cols_length s : forall row, fits_cols s row = true -> length s = length row.
Proof.
  induction s as [|t s IH]; intros [|v r] H; cbn [fits_cols] in H; try discriminate; [reflexivity|].
  apply andb_true_iff in H. destruct H as [_ H]. cbn [length]. f_equal. apply IH. exact H.
Qed.

Lemma fseg_len t v : fits t v = true -> blen (fseg t v) = fsz t.
Proof.
  intros Hf. unfold fseg. destruct (is_var t) eqn:Hv; [rewrite is_var_fsz by exact Hv; reflexivity|].
  destruct (is_vnull v) eqn:Hn.
  - rewrite blen_repeat. pose proof (fsz_nonneg t). lia.
  - apply payload_fixed_len; assumption.
Qed.

Lemma fsegs_len s : forall row, fits_cols s row = true ->
  blen (fsegs s row) = total_fixed s.
Proof.
  induction s as [|t s IH]; intros [|v r] Hf; cbn [fits_cols] in Hf; try discriminate; [reflexivity|].
  apply andb_true_iff in Hf. destruct Hf as [Hf Hr].
  cbn [fsegs total_fixed]. rewrite blen_app, fseg_len, IH by assumption. reflexivity.
Qed.

Lemma vsegs_length s : forall row, length s = length row -> length (vsegs s row) = nvars s.
Proof.
  unfold nvars. induction s as [|t s IH]; intros [|v r] H; cbn [length] in H; try discriminate; [reflexivity|].
  cbn [vsegs filter]. unfold vseg. rewrite app_length. destruct (is_var t); cbn [length]; rewrite IH by lia; reflexivity.
Qed.

Lemma concat_vsegs_len s : forall row, fits_cols s row = true ->
  blen (concat (vsegs s row)) = total_var s row.
Proof.
  induction s as [|t s IH]; intros [|v r] Hf; cbn [fits_cols] in Hf; try discriminate; [reflexivity|].
  apply andb_true_iff in Hf. destruct Hf as [Hf Hr].
  cbn [vsegs total_var]. rewrite concat_app, blen_app, IH by exact Hr. f_equal.
  unfold vseg. destruct (is_var t) eqn:Hv; [|reflexivity].
  cbn [concat]. rewrite app_nil_r. destruct (is_vnull v) eqn:Hn.
  - destruct v; try discriminate Hn. reflexivity.
  - apply payload_var_len; assumption.
Qed.

(* ------------------------------------------------------------------ list surgery *)
Lemma splice_mid a z c p : length z = length p -> splice (a ++ z ++ c) (blen a) p = a ++ p ++ c.
Proof.
  intros H. unfold splice. rewrite to_nat_blen.
  rewrite firstn_app, firstn_all, Nat.sub_diag. cbn [firstn]. rewrite app_nil_r.
  f_equal. f_equal.
  rewrite skipn_app. rewrite (skipn_all2 a) by lia. cbn [app].
  replace (length a + length p - length a)%nat with (length z) by lia.
  rewrite skipn_app, skipn_all, Nat.sub_diag. reflexivity.
Qed.

Lemma splice_length d off p :
  bslice_ok d off (off + blen p) = true -> length (splice d off p) = length d.
Proof.
  unfold bslice_ok, splice, blen. intros H.
  rewrite !app_length, firstn_length, skipn_length. lia.
Qed.

Lemma lupd_mid {A} (pre : list A) x rest y : lupd (pre ++ x :: rest) (length pre) y = pre ++ y :: rest.
Proof. induction pre as [|h pre IH]; cbn [lupd app length]; [reflexivity | rewrite IH; reflexivity]. Qed.

Lemma lupd_length {A} (l : list A) : forall i y, length (lupd l i y) = length l.
Proof. induction l as [|h l IH]; intros [|i] y; cbn [lupd length]; try reflexivity. rewrite IH. reflexivity. Qed.

Lemma repeat_add {A} (x : A) a b : repeat x (a + b) = repeat x a ++ repeat x b.
Proof. induction a as [|a IH]; cbn [repeat app Nat.add]; [reflexivity | rewrite IH; reflexivity]. Qed.

Lemma nth_is_vnull_default : is_vnull VNull = true.
Proof. reflexivity. Qed.

(* ------------------------------------------------------------------ the builder on a fitting row *)
Lemma set_row_closed :
  forall todo rtodo done rdone st,
    length done = length rdone ->
    fits_cols todo rtodo = true ->
    fd st = fsegs done rdone ++ repeat 0 (Z.to_nat (total_fixed todo)) ->
    vd st = vsegs done rdone ++ repeat [] (nvars todo) ->
    blen (fsegs done rdone) = total_fixed done -> length (vsegs done rdone) = nvars done ->
    bitmap_size (ncols (done ++ todo)) <= blen (nb st) ->
    exists st',
      set_row (done ++ todo) st (Z.of_nat (length done)) rtodo = BOk st' /\
      fd st' = fsegs (done ++ todo) (rdone ++ rtodo) /\
      vd st' = vsegs (done ++ todo) (rdone ++ rtodo) /\
      blen (nb st') = blen (nb st) /\
      (forall j, 0 <= j < Z.of_nat (length done) -> bit (nb st') j = bit (nb st) j) /\
      (forall j, (j < length todo)%nat ->
                 bit (nb st') (Z.of_nat (length done + j)) = is_vnull (nth j rtodo VNull)).
Proof.
  induction todo as [|t todo IH]; intros rtodo done rdone st Hlen Hfit Hfd Hvd Hfl Hvl Hbm.
  - destruct rtodo; [|discriminate Hfit]. exists st. cbn [set_row].
    rewrite !app_nil_r. cbn [total_fixed nvars filter length repeat] in *.
    change (Z.to_nat 0) with O in Hfd. cbn [repeat] in Hfd. rewrite app_nil_r in Hfd, Hvd.
    repeat split; auto. intros j Hj. cbn [length] in Hj. lia.
  - destruct rtodo as [|v rtodo]; [discriminate Hfit|].
    cbn [fits_cols] in Hfit. apply andb_true_iff in Hfit. destruct Hfit as [Hf Hfr].
    set (idx := Z.of_nat (length done)).
    assert (Hidx : 0 <= idx < ncols (done ++ t :: todo)).
    { unfold idx, ncols. rewrite app_length. cbn [length]. lia. }
    assert (Hj8 : 0 <= idx / 8 < blen (nb st)).
    { pose proof (bitmap_idx _ _ Hidx). lia. }
    (* one step *)
    assert (Hstep : exists st1,
      set_in_builder (done ++ t :: todo) st idx v = BOk st1 /\
      fd st1 = fsegs (done ++ [t]) (rdone ++ [v]) ++ repeat 0 (Z.to_nat (total_fixed todo)) /\
      vd st1 = vsegs (done ++ [t]) (rdone ++ [v]) ++ repeat [] (nvars todo) /\
      blen (nb st1) = blen (nb st) /\
      (forall j, 0 <= j -> bit (nb st1) j = if idx =? j then is_vnull v else bit (nb st) j)).
    { rewrite fsegs_app, vsegs_app by exact Hlen. cbn [fsegs vsegs]. rewrite !app_nil_r.
      destruct (is_vnull v) eqn:Hn.
      - (* NULL *)
        destruct v; try discriminate Hn. cbn [set_in_builder]. unfold set_null.
        rewrite set_bit_ok by lia.
        replace (idx <? ncols (done ++ t :: todo)) with true by lia.
        eexists. split; [reflexivity|]. cbn [nb fd vd].
        split; [|split; [|split]].
        + rewrite Hfd. rewrite <- app_assoc. f_equal. unfold fseg. cbn [total_fixed is_vnull].
          destruct (is_var t) eqn:Hv.
          * rewrite is_var_fsz by exact Hv. reflexivity.
          * pose proof (fsz_nonneg t). pose proof (total_fixed_nonneg todo).
            rewrite Z2Nat.inj_add by lia. apply repeat_add.
        + rewrite Hvd. rewrite <- app_assoc. f_equal. unfold vseg, nvars. cbn [filter is_vnull].
          destruct (is_var t); reflexivity.
        + apply blen_bupd.
        + intros j Hj. erewrite bit_set_bit; [|apply set_bit_ok; lia| lia | lia].
          destruct (Z.eqb_spec idx j); reflexivity.
      - (* a value *)
        rewrite (set_in_builder_payload _ _ _ t) by (try assumption; apply column_split).
        destruct (is_var t) eqn:Hv.
        + (* variable width *)
          unfold set_var_bytes. rewrite clear_bit_ok by lia.
          unfold idx. rewrite var_column_index_split by exact Hv. fold idx.
          rewrite Hvd, app_length, repeat_length, Hvl.
          assert (Hnv : nvars (t :: todo) = S (nvars todo)) by (unfold nvars; cbn [filter]; rewrite Hv; reflexivity).
          replace (Z.of_nat (nvars done) <? Z.of_nat (nvars done + nvars (t :: todo))) with true by lia.
          eexists. split; [reflexivity|]. cbn [nb fd vd].
          split; [|split; [|split]].
          * rewrite Hfd. rewrite <- app_assoc. f_equal. unfold fseg. rewrite Hv. cbn [total_fixed app].
            rewrite is_var_fsz by exact Hv. reflexivity.
          * rewrite Nat2Z.id, Hnv. cbn [repeat]. rewrite <- Hvl, lupd_mid.
            rewrite <- app_assoc. f_equal. unfold vseg. rewrite Hv, Hn. reflexivity.
          * apply blen_bupd.
          * intros j Hj. erewrite bit_clear_bit; [|apply clear_bit_ok; lia| lia | lia].
            destruct (Z.eqb_spec idx j); reflexivity.
        + (* fixed width *)
          unfold set_fixed_bytes. rewrite clear_bit_ok by lia.
          unfold idx. rewrite fixed_offset_split. fold idx.
          pose proof (payload_fixed_len t v Hf Hn Hv) as Hpl.
          pose proof (fsz_nonneg t) as Hz. pose proof (total_fixed_nonneg todo) as Hz'.
          assert (Hfdl : blen (fd st) = total_fixed done + fsz t + total_fixed todo).
          { rewrite Hfd, blen_app, blen_repeat, Hfl. cbn [total_fixed]. lia. }
          pose proof (total_fixed_nonneg done) as Hz''.
          replace (bslice_ok (fd st) (total_fixed done) (total_fixed done + blen (payload t v))) with true
            by (unfold bslice_ok; lia).
          eexists. split; [reflexivity|]. cbn [nb fd vd].
          split; [|split; [|split]].
          * rewrite Hfd. cbn [total_fixed]. rewrite Z2Nat.inj_add by lia. rewrite repeat_add.
            rewrite <- Hfl. rewrite splice_mid by (rewrite repeat_length; unfold blen in Hpl; lia).
            rewrite <- app_assoc. f_equal. unfold fseg. rewrite Hv, Hn. reflexivity.
          * rewrite Hvd. rewrite <- app_assoc. f_equal. unfold vseg, nvars. cbn [filter]. rewrite Hv. reflexivity.
          * apply blen_bupd.
          * intros j Hj. erewrite bit_clear_bit; [|apply clear_bit_ok; lia| lia | lia].
            destruct (Z.eqb_spec idx j); reflexivity. }
    destruct Hstep as [st1 [Hs1 [Hfd1 [Hvd1 [Hnb1 Hbit1]]]]].
    assert (Hlen1 : length (done ++ [t]) = length (rdone ++ [v])) by (rewrite !app_length; cbn [length]; lia).
    assert (Hfits1 : fits_cols (done ++ [t]) (rdone ++ [v]) = true -> True) by auto.
    specialize (IH rtodo (done ++ [t]) (rdone ++ [v]) st1 Hlen1 Hfr Hfd1 Hvd1).
    assert (Hfl1 : blen (fsegs (done ++ [t]) (rdone ++ [v])) = total_fixed (done ++ [t])).
    { rewrite fsegs_app by exact Hlen. cbn [fsegs]. rewrite app_nil_r, blen_app, Hfl, total_fixed_app.
      cbn [total_fixed]. rewrite fseg_len by assumption. lia. }
    assert (Hvl1 : length (vsegs (done ++ [t]) (rdone ++ [v])) = nvars (done ++ [t])).
    { apply vsegs_length. exact Hlen1. }
    assert (Happ : (done ++ [t]) ++ todo = done ++ t :: todo) by (rewrite <- app_assoc; reflexivity).
    assert (Happ' : (rdone ++ [v]) ++ rtodo = rdone ++ v :: rtodo) by (rewrite <- app_assoc; reflexivity).
    rewrite Happ, Happ' in IH.
    specialize (IH Hfl1 Hvl1). rewrite Hnb1 in IH. specialize (IH Hbm).
    destruct IH as [st' [Hrun [Hfd' [Hvd' [Hnb' [Hlow Hhigh]]]]]].
    exists st'. cbn [set_row]. fold idx. rewrite Hs1.
    replace (idx + 1) with (Z.of_nat (length (done ++ [t]))) by (unfold idx; rewrite app_length; cbn [length]; lia).
    split; [exact Hrun|]. split; [exact Hfd'|]. split; [exact Hvd'|]. split; [lia|].
    split.
    + intros j Hj. rewrite Hlow by (rewrite app_length; cbn [length]; lia).
      rewrite Hbit1 by lia. destruct (Z.eqb_spec idx j); [unfold idx in *; lia | reflexivity].
    + intros j Hj. destruct j as [|j].
      * rewrite Nat.add_0_r. cbn [nth]. rewrite Hlow by (rewrite app_length; cbn [length]; lia).
        rewrite Hbit1 by lia. unfold idx. rewrite Z.eqb_refl. reflexivity.
      * cbn [nth]. cbn [length] in Hj. specialize (Hhigh j ltac:(lia)).
        rewrite app_length in Hhigh. cbn [length] in Hhigh.
        replace (length done + S j)%nat with (length done + 1 + j)%nat by lia. exact Hhigh.
Qed.
