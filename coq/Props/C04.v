(* C04 - Close, reopen and checkpoint preserve the logical database.
   Property theorems only.  Model/Persist.v is the hand-written model of the persistence
   mechanism (which state is persistent, which is volatile and rebuilt at open, what the
   checkpoints do to the table files); `run true` executes a history with its interruptions,
   `run false` skips them; `oracle` is the comparison the correspondence check applies to the
   two runs of the REAL database (coq/Corr/C04.v spec_ok), `known_class_of` the recorded finding
   class (coq/Corr/C04.v known_class). *)
From Coq Require Import ZArith List Bool.
From TV Require Import Model.Persist Proof.Persist Proof.PersistRel Proof.PersistSim Proof.PersistWit Proof.PersistState Proof.PersistCor.
Import ListNotations.
Open Scope Z_scope.

(* every history of the modelled language (CREATE / DROP / re-CREATE TABLE, multi-row INSERT with and
   without PRIMARY KEY / AUTO_INCREMENT, DELETE, UPDATE, PRAGMA wal=ON|OFF, queries; interruptions
   close+open, drop+open, Database::checkpoint(), PRAGMA wal_checkpoint at arbitrary points - INSERTs
   after a reopen included), WAL on or off at the start: outside the recorded class every statement
   returns the same with and without the interruptions *)
Theorem persist_observational_id :
  forall wal h, in_lang h = true ->
    known_class_of wal h (run true (init wal) h) = 0 ->
    oracle h (run true (init wal) h) (run false (init wal) h) = true.
Proof. exact persist_observational_id_l. Qed.

(* Database::checkpoint() alone (it truncates the WAL without replaying it) never changes a result *)
Theorem checkpoint_api_id :
  forall wal h, in_lang h = true -> forallb only_api h = true ->
    oracle h (run true (init wal) h) (run false (init wal) h) = true.
Proof. exact checkpoint_api_id_l. Qed.

(* close() + open and Database::checkpoint() at arbitrary points (also with the WAL switched on and
   off inside the history, also with INSERTs after the reopen) never change a result *)
Theorem close_reopen_id :
  forall wal h, in_lang h = true -> forallb no_replay h = true ->
    oracle h (run true (init wal) h) (run false (init wal) h) = true.
Proof. exact close_reopen_id_l. Qed.

(* with the WAL never enabled, none of the four interruptions (PRAGMA wal_checkpoint and drop + open
   included) ever changes a result *)
Theorem no_wal_id :
  forall h, in_lang h = true -> forallb no_wal_on h = true ->
    oracle h (run true (init false) h) (run false (init false) h) = true.
Proof. exact no_wal_id_l. Qed.

(* the persistent state itself (what no query shows directly): outside the class an interruption at
   the end of any history leaves every table as it was - leaf rows with their row ids, header
   row_count, header AUTO_INCREMENT counter, PRIMARY KEY index (`exec true` = the state reached) *)
Theorem interruption_preserves_tables :
  forall wal h o, is_int o = true -> in_lang (h ++ [o]) = true ->
    known_class_of wal (h ++ [o]) (run true (init wal) (h ++ [o])) = 0 ->
    forall t, s_tab (exec true (init wal) (h ++ [o])) t = s_tab (exec true (init wal) h) t.
Proof. exact interruption_preserves_tables_l. Qed.

(* the faithful model does NOT satisfy the property inside class 2: PRAGMA wal_checkpoint (and drop +
   open) copy an old page image from the WAL over a page that changed while the WAL was off: a row
   disappears, COUNT( * ) keeps counting it *)
Theorem checkpoint_refuted :
  in_lang wit2 = true /\ known_class_of true wit2 (run true (init true) wit2) = 2
  /\ oracle wit2 (run true (init true) wit2) (run false (init true) wit2) = false
  /\ nth_error (run true (init true) wit2) 5
     = Some (OQ [TPresent [[Some 1; Some 10]] (Some 2) [[[Some 1; Some 10]]; []; []; []; []; []; []; []]; TAbsent; TAbsent])
  /\ in_lang wit2y = true /\ known_class_of true wit2y (run true (init true) wit2y) = 2
  /\ oracle wit2y (run true (init true) wit2y) (run false (init true) wit2y) = false.
Proof. exact checkpoint_refuted_l. Qed.

(* historical: the witnesses of the two repaired findings (F-C04-1: INSERT after a reopen failed,
   next_row_id restarted at 1, /repo 60cb117; F-C04-3: a table dropped and created again lost its rows
   at the reopen, /repo affacca) are inside the language, outside every class and satisfy the
   property on the model of the repaired code; the counter continues at 2 after the reopen *)
Theorem repaired_witnesses :
  in_lang wit1 = true /\ known_class_of false wit1 (run true (init false) wit1) = 0
  /\ oracle wit1 (run true (init false) wit1) (run false (init false) wit1) = true
  /\ nth_error (run true (init false) wit1) 3 = Some (OOk 1)
  /\ s_next (fst (step (fst (step (fst (step (init false) (Create 0 0))) (Ins 0 [(Some 1, 10)]))) ReopenClose)) = 2
  /\ in_lang wit3 = true /\ known_class_of false wit3 (run true (init false) wit3) = 0
  /\ oracle wit3 (run true (init false) wit3) (run false (init false) wit3) = true.
Proof. exact repaired_witnesses_l. Qed.

(* non-vacuity: histories with all four interruptions, WAL on, PRIMARY KEY AUTO_INCREMENT table, INSERTs
   after the reopens, a table dropped and re-created, inside the language and outside the class; and
   histories meeting the hypotheses of the two corollaries *)
Example c04_witness :
  in_lang good = true /\ known_class_of true good (run true (init true) good) = 0
  /\ oracle good (run true (init true) good) (run false (init true) good) = true
  /\ nth_error (run true (init true) good) 17
     = Some (OQ [TPresent [[Some 2; Some 14]; [Some 3; Some 13]; [Some 4; Some 16]] (Some 3)
                          [[]; [[Some 2; Some 14]]; [[Some 3; Some 13]]; [[Some 4; Some 16]]; []; []; []; []];
                 TPresent [[Some 5; Some 15]] (Some 1) [[]; []; []; []; [[Some 5; Some 15]]; []; []; []]; TAbsent]).
Proof. exact good_ok. Qed.
Example c04_witness_cor :
  in_lang cor1 = true /\ forallb no_replay cor1 = true
  /\ in_lang cor2 = true /\ forallb no_wal_on cor2 = true
  /\ nth_error (run true (init false) cor2) 13
     = Some (OQ [TAbsent; TPresent [[None; Some 13]] (Some 1) [[]; []; []; []; []; []; []; []]; TAbsent]).
Proof. exact cor_witness. Qed.

Check persist_observational_id :
  forall wal h, in_lang h = true ->
    known_class_of wal h (run true (init wal) h) = 0 ->
    oracle h (run true (init wal) h) (run false (init wal) h) = true.
Check checkpoint_api_id :
  forall wal h, in_lang h = true -> forallb only_api h = true ->
    oracle h (run true (init wal) h) (run false (init wal) h) = true.
Check close_reopen_id :
  forall wal h, in_lang h = true -> forallb no_replay h = true ->
    oracle h (run true (init wal) h) (run false (init wal) h) = true.
Check no_wal_id :
  forall h, in_lang h = true -> forallb no_wal_on h = true ->
    oracle h (run true (init false) h) (run false (init false) h) = true.
Check interruption_preserves_tables :
  forall wal h o, is_int o = true -> in_lang (h ++ [o]) = true ->
    known_class_of wal (h ++ [o]) (run true (init wal) (h ++ [o])) = 0 ->
    forall t, s_tab (exec true (init wal) (h ++ [o])) t = s_tab (exec true (init wal) h) t.
Check checkpoint_refuted :
  in_lang wit2 = true /\ known_class_of true wit2 (run true (init true) wit2) = 2
  /\ oracle wit2 (run true (init true) wit2) (run false (init true) wit2) = false
  /\ nth_error (run true (init true) wit2) 5
     = Some (OQ [TPresent [[Some 1; Some 10]] (Some 2) [[[Some 1; Some 10]]; []; []; []; []; []; []; []]; TAbsent; TAbsent])
  /\ in_lang wit2y = true /\ known_class_of true wit2y (run true (init true) wit2y) = 2
  /\ oracle wit2y (run true (init true) wit2y) (run false (init true) wit2y) = false.
Check repaired_witnesses :
  in_lang wit1 = true /\ known_class_of false wit1 (run true (init false) wit1) = 0
  /\ oracle wit1 (run true (init false) wit1) (run false (init false) wit1) = true
  /\ nth_error (run true (init false) wit1) 3 = Some (OOk 1)
  /\ s_next (fst (step (fst (step (fst (step (init false) (Create 0 0))) (Ins 0 [(Some 1, 10)]))) ReopenClose)) = 2
  /\ in_lang wit3 = true /\ known_class_of false wit3 (run true (init false) wit3) = 0
  /\ oracle wit3 (run true (init false) wit3) (run false (init false) wit3) = true.

Print Assumptions persist_observational_id.
Print Assumptions checkpoint_api_id.
Print Assumptions close_reopen_id.
Print Assumptions no_wal_id.
Print Assumptions interruption_preserves_tables.
Print Assumptions checkpoint_refuted.
Print Assumptions repaired_witnesses.
