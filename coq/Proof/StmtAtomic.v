(* C06 -- statement atomicity of the DML mechanism model (Model/Tombstone.v).
   A statement that returns RErr leaves the whole model state untouched (entries, header
   row_count, unique index, row-id counter) -- for UPDATE, DELETE and TRUNCATE always, for
   INSERT unless it fails after having written a row (finding class 4 of Model/Tombstone.v);
   with the proposed repair (fx = true) always. *)
From Coq Require Import ZArith List Bool Lia.
From TV Require Import Model.SqlSpec Model.DmlSpec Model.Tombstone.
Import ListNotations.
Open Scope Z_scope.

Lemma ins_loop_count_ge : forall sch rows st n b st' m,
  ins_loop sch st rows n = (b, st', m) -> n <= m.
Proof.
  induction rows as [|r rs IH]; intros st n b st' m H; cbn [ins_loop] in H.
  - inversion H; subst. lia.
  - destruct (ins_row_ok sch st r).
    + apply IH in H. lia.
    + inversion H; subst. lia.
Qed.

Lemma ins_loop_fail_first : forall sch rows st n st' m,
  ins_loop sch st rows n = (false, st', m) -> m = n -> st' = st.
Proof.
  intros sch rows st n st' m H Hm. destruct rows as [|r rs]; cbn [ins_loop] in H.
  - discriminate.
  - destruct (ins_row_ok sch st r).
    + apply ins_loop_count_ge in H. lia.
    + inversion H; subst. reflexivity.
Qed.

(* UPDATE, DELETE, TRUNCATE: an error means nothing was written *)
Lemma update_atomic : forall fx sch st sets w ret st',
  step fx sch st (SUpdate sets w ret) = (RErr, st') -> st' = st.
Proof.
  intros fx sch st sets w ret st' H. cbn [step] in H. unfold do_update in H.
  destruct (where_modelled w st && sets_modelled sch sets); [|discriminate].
  destruct (new_rows true sch sets (select true sch w st)); inversion H; reflexivity.
Qed.
Lemma delete_never_fails : forall fx sch st w ret st',
  step fx sch st (SDelete w ret) <> (RErr, st').
Proof.
  intros fx sch st w ret st' H. cbn [step] in H. unfold do_delete in H.
  destruct (where_modelled w st); discriminate.
Qed.
Lemma truncate_never_fails : forall fx sch st st', step fx sch st STruncate <> (RErr, st').
Proof. intros fx sch st st' H. cbn [step] in H. unfold do_truncate in H. discriminate. Qed.

(* INSERT: atomic outside class 4 (the failing row is the first one), and always once repaired *)
Lemma insert_atomic : forall fx sch st rows ret st',
  step fx sch st (SInsert rows ret) = (RErr, st') ->
  fx = true \/ stmt_class sch st (SInsert rows ret) <> 4 ->
  st' = st.
Proof.
  intros fx sch st rows ret st' H Hc. cbn [step] in H. unfold do_insert in H.
  unfold stmt_class in Hc. cbn [step] in Hc. unfold do_insert in Hc.
  destruct (forallb (row_known (s_tys sch)) rows); [|discriminate].
  destruct (ins_loop sch st rows 0) as [[b s1] n] eqn:E.
  destruct b; [discriminate|].
  inversion H; subst. destruct fx; [reflexivity|].
  destruct Hc as [Hc|Hc]; [discriminate|]. cbn [fst] in Hc.
  destruct (0 <? n) eqn:En; [congruence|].
  apply Z.ltb_ge in En. pose proof (ins_loop_count_ge _ _ _ _ _ _ _ E).
  eapply ins_loop_fail_first; [exact E|lia].
Qed.

(* the property for one statement of the model *)
Theorem stmt_atomic : forall fx sch st s st',
  step fx sch st s = (RErr, st') ->
  fx = true \/ stmt_class sch st s <> 4 ->
  st' = st.
Proof.
  intros fx sch st s st' H Hc. destruct s as [rows ret|w ret|sets w ret| |].
  - eapply insert_atomic; [exact H|exact Hc].
  - exfalso. eapply delete_never_fails; exact H.
  - eapply update_atomic; exact H.
  - exfalso. eapply truncate_never_fails; exact H.
  - cbn [step] in H. inversion H. reflexivity.
Qed.

(* histories: every failing statement outside class 4 leaves what is visible (rows, COUNT star)
   as it was.  trace_atomic says it on the observation trace the correspondence compares. *)
Fixpoint atomic_trace (prev_rows : table) (prev_cnt : Z) (tr : list obs) : Prop :=
  match tr with
  | [] => True
  | o :: tr' =>
      (o_res o = RErr -> o_rows o = prev_rows /\ o_cnt o = prev_cnt) /\ atomic_trace (o_rows o) (o_cnt o) tr'
  end.
Fixpoint no_partial_insert (sch : schema) (st : tstate) (h : list stmt) : Prop :=
  match h with
  | [] => True
  | s :: h' => stmt_class sch st s <> 4 /\ no_partial_insert sch (snd (step false sch st s)) h'
  end.

Theorem trace_atomic : forall sch h st,
  no_partial_insert sch st h ->
  atomic_trace (visible st) (count_star st) (trace false sch st h).
Proof.
  intros sch h. induction h as [|s h IH]; intros st Hc; cbn [trace atomic_trace]; [exact I|].
  cbn [no_partial_insert] in Hc. destruct Hc as [Hk Hc].
  destruct (step false sch st s) as [r st'] eqn:E. cbn [atomic_trace obs_of o_res o_rows o_cnt snd] in *. split.
  - intro Hr. subst r.
    assert (st' = st) as -> by (eapply stmt_atomic; [exact E|right; exact Hk]).
    split; reflexivity.
  - apply IH. exact Hc.
Qed.
Theorem trace_atomic_repaired : forall sch h st,
  atomic_trace (visible st) (count_star st) (trace true sch st h).
Proof.
  intros sch h. induction h as [|s h IH]; intros st; cbn [trace atomic_trace]; [exact I|].
  destruct (step true sch st s) as [r st'] eqn:E. cbn [atomic_trace obs_of o_res o_rows o_cnt]. split.
  - intro Hr. subst r.
    assert (st' = st) as -> by (eapply stmt_atomic; [exact E|left; reflexivity]).
    split; reflexivity.
  - apply IH.
Qed.

(* the refutation: [ok_row; dup_row] into a PRIMARY KEY table that already holds key 1.
   The statement fails and row 2 stays behind; COUNT star (the header) still says 1. *)
Definition pk2 : schema := mkSchema KPk [TInt; TInt] [false; false].
Definition st_one : tstate := snd (step false pk2 t_empty (SInsert [[VInt 1; VInt 10]] false)).
Definition bad_insert : stmt := SInsert [[VInt 2; VInt 20]; [VInt 1; VInt 30]] false.

Theorem stmt_atomic_refuted :
  exists sch st s st', step false sch st s = (RErr, st') /\ stmt_class sch st s = 4 /\
    visible st' <> visible st /\ count_star st' <> zlen (visible st').
Proof.
  exists pk2, st_one, bad_insert, (snd (step false pk2 st_one bad_insert)).
  split; [vm_compute; reflexivity|]. split; [vm_compute; reflexivity|].
  split; vm_compute; discriminate.
Qed.
(* ... and the same statement on the repaired mechanism leaves no trace *)
Theorem stmt_atomic_repaired_witness :
  step true pk2 st_one bad_insert = (RErr, st_one).
Proof. vm_compute. reflexivity. Qed.
