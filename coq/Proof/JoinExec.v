(* C17 proofs, part 1: the Volcano join executors compute the SQL join, as bags, for every
   condition / hash function / partition count.  Generic in the row types. *)
From Coq Require Import ZArith List Bool Lia Permutation.
From TV Require Import Model.SqlSpec Model.JoinSpec Model.JoinExec Proof.JoinBag.
Import ListNotations.
Open Scope Z_scope.

Section Exec.
  Variables A B C : Type.
  Variable both : A -> B -> C.
  Variable lonly : A -> C.
  Variable ronly : B -> C.
  Variable jt : jtype.

  (* ---------------------------------------------------------------- nested loop *)
  Lemma nl_row_split (on : A -> B -> bool) (R : list B) (l : A) :
    nl_row both lonly jt on R l =
    map (both l) (filter (on l) R) ++ (if left_outer jt && negb (existsb (on l) R) then [lonly l] else []).
  Proof.
    unfold nl_row. rewrite existsb_filter_nil.
    destruct (filter (on l) R) as [|r ms]; cbn [is_nil negb andb map app].
    - destruct (left_outer jt); reflexivity.
    - rewrite andb_false_r. rewrite app_nil_r. reflexivity.
  Qed.

  Lemma left_part_flat (on : A -> B -> bool) (L : list A) (R : list B) :
    flat_map (fun l => if left_outer jt && negb (existsb (on l) R) then [lonly l] else []) L
    = (if left_outer jt then left_part on lonly L R else []).
  Proof.
    unfold left_part. destruct (left_outer jt); cbn [andb].
    - apply flat_map_opt.
    - apply flat_map_nil.
  Qed.

  Lemma nl_exec_spec_l (on : A -> B -> bool) (L : list A) (R : list B) :
    Permutation (nl_exec both lonly ronly jt on L R) (join_g on both lonly ronly jt L R).
  Proof.
    unfold nl_exec, join_g. rewrite app_assoc. apply Permutation_app_tail.
    rewrite (flat_map_ext _ _ (nl_row_split on R)).
    eapply Permutation_trans; [apply perm_flat_map_app|].
    rewrite left_part_flat. apply Permutation_refl.
  Qed.

  (* ---------------------------------------------------------------- one hash partition *)
  Variable hl : A -> Z.
  Variable hr : B -> Z.
  Variable km : A -> B -> bool.

  Lemma probe_row_split (build : list A) (r : B) :
    probe_row both ronly jt hl hr km build r =
    map (fun l => both l r) (filter (fun l => hit hl hr km l r) build)
    ++ (if right_outer jt && negb (existsb (fun l => hit hl hr km l r) build) then [ronly r] else []).
  Proof.
    unfold probe_row. rewrite existsb_filter_nil.
    destruct (filter (fun l => hit hl hr km l r) build) as [|x ms]; cbn [is_nil negb andb map app].
    - rewrite andb_true_r. destruct (right_outer jt); reflexivity.
    - rewrite andb_false_r, app_nil_r. reflexivity.
  Qed.

  Lemma right_part_flat (on : A -> B -> bool) (L : list A) (R : list B) :
    flat_map (fun r => if right_outer jt && negb (existsb (fun l => on l r) L) then [ronly r] else []) R
    = (if right_outer jt then right_part on ronly L R else []).
  Proof.
    unfold right_part. destruct (right_outer jt); cbn [andb].
    - apply flat_map_opt.
    - apply flat_map_nil.
  Qed.

  (* a partition's output is the join of the partition under `hit` *)
  Lemma part_exec_spec_l (build : list A) (probe : list B) :
    Permutation (part_exec both lonly ronly jt hl hr km build probe)
                (join_g (hit hl hr km) both lonly ronly jt build probe).
  Proof.
    unfold part_exec, join_g.
    rewrite (flat_map_ext _ _ (probe_row_split build)).
    eapply Permutation_trans; [apply Permutation_app_tail; apply perm_flat_map_app|].
    rewrite right_part_flat. rewrite <- app_assoc.
    apply Permutation_app; [apply swap_loops|].
    unfold left_part. apply Permutation_app_comm.
  Qed.

  (* ---------------------------------------------------------------- grace: all partitions *)
  Variable n : Z.
  Hypothesis Hn : 0 < n.
  (* the hash function respects the key comparison: rows that match have the same hash *)
  Hypothesis Hresp : forall l r, km l r = true -> hl l = hr r.

  Lemma hit_km l r : hit hl hr km l r = km l r.
  Proof.
    unfold hit. destruct (km l r) eqn:E; [|apply andb_false_r].
    rewrite (Hresp l r E), Z.eqb_refl. reflexivity.
  Qed.

  Let Lp (L : list A) (p : Z) := filter (fun l => in_part n p (hl l)) L.
  Let Rp (R : list B) (p : Z) := filter (fun r => in_part n p (hr r)) R.

  Lemma in_Lp L p l : In l (Lp L p) -> hl l mod n = p.
  Proof. unfold Lp, in_part. intros H. apply filter_In in H. destruct H as [_ H]. apply Z.eqb_eq. exact H. Qed.
  Lemma in_Rp R p r : In r (Rp R p) -> hr r mod n = p.
  Proof. unfold Rp, in_part. intros H. apply filter_In in H. destruct H as [_ H]. apply Z.eqb_eq. exact H. Qed.

  (* inside its partition a build row sees exactly its partners *)
  Lemma partners_in_part L R p l : In l (Lp L p) -> filter (km l) (Rp R p) = filter (km l) R.
  Proof.
    intros Hl. unfold Rp. rewrite filter_filter. apply filter_ext_in. intros r _.
    destruct (km l r) eqn:E; [|apply andb_false_r]. rewrite andb_true_r.
    unfold in_part. rewrite <- (Hresp l r E). rewrite (in_Lp L p l Hl). apply Z.eqb_refl.
  Qed.
  Lemma partners_in_part_r L R p r : In r (Rp R p) -> filter (fun l => km l r) (Lp L p) = filter (fun l => km l r) L.
  Proof.
    intros Hr. unfold Lp. rewrite filter_filter. apply filter_ext_in. intros l _.
    destruct (km l r) eqn:E; [|apply andb_false_r]. rewrite andb_true_r.
    unfold in_part. rewrite (Hresp l r E). rewrite (in_Rp R p r Hr). apply Z.eqb_refl.
  Qed.
  Lemma exists_in_part L R p l : In l (Lp L p) -> existsb (km l) (Rp R p) = existsb (km l) R.
  Proof. intros Hl. rewrite !existsb_filter_nil, (partners_in_part L R p l Hl). reflexivity. Qed.
  Lemma exists_in_part_r L R p r : In r (Rp R p) -> existsb (fun l => km l r) (Lp L p) = existsb (fun l => km l r) L.
  Proof. intros Hr. rewrite !existsb_filter_nil, (partners_in_part_r L R p r Hr). reflexivity. Qed.

  Lemma parts_eq : parts n = partsZ n.
  Proof. reflexivity. Qed.

  Lemma perm_Lp L : Permutation (flat_map (Lp L) (parts n)) L.
  Proof. rewrite parts_eq. unfold Lp, in_part. apply (perm_partition n Hn hl L). Qed.
  Lemma perm_Rp R : Permutation (flat_map (Rp R) (parts n)) R.
  Proof. rewrite parts_eq. unfold Rp, in_part. apply (perm_partition n Hn hr R). Qed.

  (* the three parts of the join, summed over the partitions *)
  Lemma inner_over_parts L R :
    Permutation (flat_map (fun p => inner_part km both (Lp L p) (Rp R p)) (parts n)) (inner_part km both L R).
  Proof.
    unfold inner_part.
    rewrite (flat_map_ext_in _ (fun p => flat_map (fun l => map (both l) (filter (km l) R)) (Lp L p))).
    2:{ intros p _. apply flat_map_ext_in. intros l Hl. rewrite (partners_in_part L R p l Hl). reflexivity. }
    rewrite <- flat_map_flat_map. apply perm_flat_map. apply perm_Lp.
  Qed.
  Lemma left_over_parts L R :
    Permutation (flat_map (fun p => left_part km lonly (Lp L p) (Rp R p)) (parts n)) (left_part km lonly L R).
  Proof.
    unfold left_part.
    rewrite (flat_map_ext_in _ (fun p => map lonly (filter (fun l => negb (existsb (km l) R)) (Lp L p)))).
    2:{ intros p _. f_equal. apply filter_ext_in. intros l Hl. rewrite (exists_in_part L R p l Hl). reflexivity. }
    rewrite <- map_flat_map, <- filter_flat_map. apply Permutation_map. apply perm_filter. apply perm_Lp.
  Qed.
  Lemma right_over_parts L R :
    Permutation (flat_map (fun p => right_part km ronly (Lp L p) (Rp R p)) (parts n)) (right_part km ronly L R).
  Proof.
    unfold right_part.
    rewrite (flat_map_ext_in _ (fun p => map ronly (filter (fun r => negb (existsb (fun l => km l r) L)) (Rp R p)))).
    2:{ intros p _. f_equal. apply filter_ext_in. intros r Hr. rewrite (exists_in_part_r L R p r Hr). reflexivity. }
    rewrite <- map_flat_map, <- filter_flat_map. apply Permutation_map. apply perm_filter. apply perm_Rp.
  Qed.

  Lemma join_g_ext (on on' : A -> B -> bool) L R :
    (forall l r, on l r = on' l r) -> join_g on both lonly ronly jt L R = join_g on' both lonly ronly jt L R.
  Proof.
    intros E. unfold join_g, inner_part, left_part, right_part.
    f_equal; [|f_equal].
    - apply flat_map_ext. intros l. f_equal. apply filter_ext. intros r. apply E.
    - destruct (left_outer jt); [|reflexivity]. f_equal. apply filter_ext. intros l. f_equal. apply existsb_ext_in. intros r _. apply E.
    - destruct (right_outer jt); [|reflexivity]. f_equal. apply filter_ext. intros r. f_equal. apply existsb_ext_in. intros l _. apply E.
  Qed.

  Lemma join_over_parts L R :
    Permutation (flat_map (fun p => join_g km both lonly ronly jt (Lp L p) (Rp R p)) (parts n))
                (join_g km both lonly ronly jt L R).
  Proof.
    unfold join_g.
    eapply Permutation_trans; [apply perm_flat_map_app|].
    apply Permutation_app; [apply inner_over_parts|].
    eapply Permutation_trans; [apply perm_flat_map_app|].
    apply Permutation_app.
    - destruct (left_outer jt); [apply left_over_parts|rewrite flat_map_nil; constructor].
    - destruct (right_outer jt); [apply right_over_parts|rewrite flat_map_nil; constructor].
  Qed.

  (* grace_run with stores that hand back what was written *)
  Lemma grace_run_flat (ps : list Z) L R :
    grace_run both lonly ronly jt hl hr km n Some Some ps L R
    = Some (flat_map (fun p => part_exec both lonly ronly jt hl hr km (Lp L p) (Rp R p)) ps).
  Proof.
    induction ps as [|p ps IH]; cbn [grace_run flat_map]; [reflexivity|].
    rewrite IH. reflexivity.
  Qed.

  Theorem grace_exec_spec_l L R :
    exists out, grace_exec both lonly ronly jt hl hr km n Some Some L R = Some out /\
                Permutation out (join_g km both lonly ronly jt L R).
  Proof.
    unfold grace_exec. rewrite grace_run_flat. eexists. split; [reflexivity|].
    eapply Permutation_trans; [|apply join_over_parts].
    apply perm_flat_map_ext. intros p _.
    eapply Permutation_trans; [apply part_exec_spec_l|].
    rewrite (join_g_ext (hit hl hr km) km); [apply Permutation_refl|]. apply hit_km.
  Qed.
End Exec.
