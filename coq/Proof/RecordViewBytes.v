(* C23 proofs, part 6: RecordView on arbitrary record bytes, on the C31 model (Model/Record.v, whose `extract`
   = RecordView::new + OwnedValue::extract_row_from_record is run against the real code on arbitrary bytes by
   both C31 and C23).  The model takes its Panic branch on small malformed records: witnesses only - a
   sufficient condition on record bytes is C31's subject (its round-trip theorems cover built records). *)
From Coq Require Import ZArith List Bool.
From TV Require Import Lib.MachInt.
From TV Require Model.Record.
Import ListNotations.
Open Scope Z_scope.

Lemma record_view_refuted_l :
  Record.view_new [2; 0] = Record.Ok tt /\
  Record.extract [Record.TText] [2; 0] = Record.Panic /\
  Record.extract [Record.TInt4; Record.TText] [5; 0; 0; 9; 0; 1; 2; 3; 4] = Record.Panic /\
  Record.extract [Record.TInt4; Record.TText] [5; 0; 0; 0; 0; 1; 2; 3; 4] = Record.Ok [Record.VInt 67305985; Record.VText []] /\
  Record.extract [Record.TInt4] [4; 0] = Record.Ok [Record.VNull].
Proof. vm_compute. repeat split. Qed.
