(* C33 proofs, part 3: the bit-pattern tests of Model/RowSerde.v (f64_is_nan, f64_is_zero,
   f64_lt_zero, = +-infinity) are the IEEE 754 binary64 predicates, as formalised by Flocq
   (IEEE754.Bits.b64_of_bits, Binary.is_nan, Binary.Bcompare), for every 64-bit pattern.
   These three lemmas go through Flocq's binary64 type, whose construction uses Coq's real
   numbers: they depend on the standard Reals axioms; nothing else in C33 does. *)
From Coq Require Import ZArith List Bool Lia ZifyBool.
From Flocq Require Import IEEE754.Binary IEEE754.Bits.
From TV Require Import Lib.MachInt Model.RowSerde.
Open Scope Z_scope.
Ltac Zify.zify_post_hook ::= Z.to_euclidean_division_equations.

(* comparison of an IEEE value with +0.0, on the unpacked representation *)
Definition cmp_zero_FF (x : full_float) : option comparison :=
  match x with
  | F754_nan _ _ => None
  | F754_zero _ => Some Eq
  | F754_infinity s => if s then Some Lt else Some Gt
  | F754_finite s _ _ => if s then Some Lt else Some Gt
  end.
Lemma Bcompare_zero_FF x H :
  Bcompare 53 1024 (FF2B 53 1024 x H) (B754_zero 53 1024 false) = cmp_zero_FF x.
Proof. destruct x as [s|s|s pl|s m e]; try reflexivity; destruct s; reflexivity. Qed.

Definition is_inf_FF (sg : bool) (x : full_float) : bool :=
  match x with F754_infinity s => Bool.eqb s sg | _ => false end.
Lemma Bcompare_inf_FF sg x H :
  match Bcompare 53 1024 (FF2B 53 1024 x H) (B754_infinity 53 1024 sg) with Some Eq => true | _ => false end
  = is_inf_FF sg x.
Proof. destruct x as [s|s|s pl|s m e]; destruct sg; try destruct s; reflexivity. Qed.

Lemma aux_class p : 0 <= p < 2 ^ 64 ->
  let x := binary_float_of_bits_aux 52 11 p in
  is_nan_FF x = f64_is_nan p /\
  cmp_zero_FF x = (if f64_is_nan p then None else if f64_is_zero p then Some Eq
                   else if f64_lt_zero p then Some Lt else Some Gt) /\
  is_inf_FF false x = (p =? F64_INF) /\ is_inf_FF true x = (p =? F64_NEG_INF).
Proof.
  intros Hp. unfold binary_float_of_bits_aux, split_bits. cbv zeta.
  unfold f64_is_nan, f64_is_zero, f64_lt_zero, f64_is_nan, F64_INF, F64_NEG_INF, F64_NEG_ZERO.
  change (2 ^ 52 * 2 ^ 11) with 9223372036854775808.
  change (2 ^ 11 - 1) with 2047.
  change (2 ^ 52) with 4503599627370496. change (2 ^ 11) with 2048.
  change (2 ^ 63) with 9223372036854775808. change (2 ^ 64) with 18446744073709551616 in Hp.
  set (m := p mod 4503599627370496). set (e := (p / 4503599627370496) mod 2048).
  assert (Hm : m = p mod 4503599627370496) by reflexivity.
  assert (He : e = (p / 4503599627370496) mod 2048) by reflexivity.
  clearbody m e.
  destruct (Zeq_bool e 0) eqn:E0.
  - apply Zeq_bool_eq in E0.
    destruct m as [|pm|pm] eqn:Em.
    + cbn [is_nan_FF cmp_zero_FF is_inf_FF]. repeat split.
      * lia.
      * replace (9218868437227405312 <? p mod 9223372036854775808) with false by lia.
        replace ((p =? 0) || (p =? 9223372036854775808)) with true by lia. reflexivity.
      * lia.
      * lia.
    + cbn [is_nan_FF cmp_zero_FF is_inf_FF]. repeat split.
      * lia.
      * replace (9218868437227405312 <? p mod 9223372036854775808) with false by lia.
        replace ((p =? 0) || (p =? 9223372036854775808)) with false by lia.
        cbn [negb andb]. destruct (9223372036854775808 <=? p) eqn:S.
        -- replace (9223372036854775808 <? p) with true by lia. reflexivity.
        -- replace (9223372036854775808 <? p) with false by lia. reflexivity.
      * lia.
      * lia.
    + exfalso. lia.
  - apply Zeq_bool_neq in E0.
    destruct (Zeq_bool e 2047) eqn:E1.
    + apply Zeq_bool_eq in E1.
      destruct m as [|pm|pm] eqn:Em.
      * cbn [is_nan_FF cmp_zero_FF is_inf_FF]. repeat split.
        -- lia.
        -- replace (9218868437227405312 <? p mod 9223372036854775808) with false by lia.
           replace ((p =? 0) || (p =? 9223372036854775808)) with false by lia.
           cbn [negb andb]. destruct (9223372036854775808 <=? p) eqn:S.
           ++ replace (9223372036854775808 <? p) with true by lia. reflexivity.
           ++ replace (9223372036854775808 <? p) with false by lia. reflexivity.
        -- destruct (9223372036854775808 <=? p) eqn:S; cbn [Bool.eqb]; lia.
        -- destruct (9223372036854775808 <=? p) eqn:S; cbn [Bool.eqb]; lia.
      * cbn [is_nan_FF cmp_zero_FF is_inf_FF]. repeat split.
        -- lia.
        -- replace (9218868437227405312 <? p mod 9223372036854775808) with true by lia. reflexivity.
        -- lia.
        -- lia.
      * exfalso. lia.
    + apply Zeq_bool_neq in E1.
      destruct (m + 4503599627370496) as [|pm|pm] eqn:Em; try (exfalso; lia).
      cbn [is_nan_FF cmp_zero_FF is_inf_FF]. repeat split.
      * lia.
      * replace (9218868437227405312 <? p mod 9223372036854775808) with false by lia.
        replace ((p =? 0) || (p =? 9223372036854775808)) with false by lia.
        cbn [negb andb]. destruct (9223372036854775808 <=? p) eqn:S.
        -- replace (9223372036854775808 <? p) with true by lia. reflexivity.
        -- replace (9223372036854775808 <? p) with false by lia. reflexivity.
      * lia.
      * lia.
Qed.

Lemma b64_unfold p : exists H, b64_of_bits p = FF2B 53 1024 (binary_float_of_bits_aux 52 11 p) H.
Proof. unfold b64_of_bits, binary_float_of_bits. eexists. reflexivity. Qed.

Lemma f64_is_nan_ieee_l : forall p, 0 <= p < 2 ^ 64 -> is_nan 53 1024 (b64_of_bits p) = f64_is_nan p.
Proof.
  intros p Hp. destruct (b64_unfold p) as [H ->]. rewrite is_nan_FF2B. apply (aux_class p Hp).
Qed.

Lemma f64_cmp_zero_ieee_l : forall p, 0 <= p < 2 ^ 64 ->
  Bcompare 53 1024 (b64_of_bits p) (B754_zero 53 1024 false) =
    if f64_is_nan p then None else if f64_is_zero p then Some Eq else if f64_lt_zero p then Some Lt else Some Gt.
Proof.
  intros p Hp. destruct (b64_unfold p) as [H ->]. rewrite Bcompare_zero_FF. apply (aux_class p Hp).
Qed.

Lemma f64_eq_inf_ieee_l : forall p, 0 <= p < 2 ^ 64 ->
  match Bcompare 53 1024 (b64_of_bits p) (B754_infinity 53 1024 false) with Some Eq => true | _ => false end = (p =? F64_INF) /\
  match Bcompare 53 1024 (b64_of_bits p) (B754_infinity 53 1024 true) with Some Eq => true | _ => false end = (p =? F64_NEG_INF).
Proof.
  intros p Hp. destruct (b64_unfold p) as [H ->]. rewrite !Bcompare_inf_FF. split; apply (aux_class p Hp).
Qed.
