(* C07 -- the faithful model REFUTES the property outside the covered transaction bodies: one
   concrete witness per recorded finding class (each is replayed on the real implementation by the
   harness, see known_findings.d/C07.json), and the non-vacuity example of the positive theorems. *)
From Coq Require Import ZArith List Bool Lia Sorted.
From TV Require Import Model.SqlSpec Model.UndoLog Model.UndoLogSpec.
Import ListNotations.
Open Scope Z_scope.

Definition i (z : Z) : value := VInt z.
Definition tx (s : list Z) : value := VText s.

(* class 1: DELETE inside the transaction -- row_count is not restored *)
Lemma rollback_delete_count_refuted_l :
  exists sch p body, count_star (rolled_back sch (reach sch p) body) <> count_star (reach sch p).
Proof.
  exists (mkSchema KNone KInt false false), [OIns [R (i 1) (i 1); R (i 2) (i 2)]], [ODel (Some (C0, i 1))].
  vm_compute. discriminate.
Qed.

(* class 8: DELETE, integer primary key -- the index entry comes back holding the key VALUE where
   the row id belongs: the lookup by primary key misses the restored row *)
Lemma rollback_delete_intpk_refuted_l :
  exists sch p body v, lookup0 sch (rolled_back sch (reach sch p) body) v <> lookup0 sch (reach sch p) v.
Proof.
  exists (mkSchema KPk KInt false false), [OIns [R (i 5) (i 1); R (i 6) (i 2)]], [ODel (Some (C0, i 5))], (i 5).
  vm_compute. discriminate.
Qed.

(* class 9: DELETE, primary key that is not an integer (or UNIQUE column) -- the index entry is not
   restored at all: a duplicate key is accepted afterwards *)
Lemma rollback_delete_textpk_refuted_l :
  exists sch p body r, ins_ok sch (rolled_back sch (reach sch p) body) r = true /\ ins_ok sch (reach sch p) r = false.
Proof.
  exists (mkSchema KPk KText false false), [OIns [R (tx [97]) (i 1); R (tx [98]) (i 2)]], [ODel (Some (C0, tx [97]))], (R (tx [97]) (i 9)).
  vm_compute. split; reflexivity.
Qed.

(* class 2: UPDATE of the key column, integer primary key -- the entry of the NEW key stays in the
   index: inserting that key is refused although no row has it *)
Lemma rollback_keyupdate_intpk_refuted_l :
  exists sch p body r, ins_ok sch (rolled_back sch (reach sch p) body) r = false /\ ins_ok sch (reach sch p) r = true.
Proof.
  exists (mkSchema KPk KInt false false), [OIns [R (i 5) (i 1); R (i 6) (i 2)]], [OUpd C0 (i 7) (Some (C0, i 5))], (R (i 7) (i 9)).
  vm_compute. split; reflexivity.
Qed.

(* class 10: UPDATE of a UNIQUE column -- the entry of the old key is lost *)
Lemma rollback_keyupdate_uniq_refuted_l :
  exists sch p body r, ins_ok sch (rolled_back sch (reach sch p) body) r = true /\ ins_ok sch (reach sch p) r = false.
Proof.
  exists (mkSchema KUniq KInt false false), [OIns [R (i 5) (i 1); R (i 6) (i 2)]], [OUpd C0 (i 7) (Some (C0, i 5))], (R (i 5) (i 9)).
  vm_compute. split; reflexivity.
Qed.

(* class 3: UPDATE of the column of a secondary index -- UPDATE replaces the index entry
   `old value ++ row id` by `new value ++ row id`, undo restores the row but not the entry: the
   lookup by the restored value misses the row (any kind of key) *)
Lemma rollback_secidx_refuted_l :
  exists sch p body v, lookup1 sch (rolled_back sch (reach sch p) body) v <> lookup1 sch (reach sch p) v.
Proof.
  exists (mkSchema KPk KText true false), [OIns [R (tx [97]) (i 1); R (tx [98]) (i 2)]], [OUpd C1 (i 3) (Some (C0, tx [97]))], (i 1).
  vm_compute. discriminate.
Qed.

(* ... with an integer primary key undo additionally files the old value under a key WITHOUT the
   row-id suffix, which index scans read back as row id = the column value *)
Lemma rollback_secidx_intpk_refuted_l :
  exists sch p body v, lookup1 sch (rolled_back sch (reach sch p) body) v <> lookup1 sch (reach sch p) v.
Proof.
  exists (mkSchema KPk KInt true false), [OIns [R (i 5) (i 3); R (i 6) (i 2)]], [OUpd C1 (i 2) (Some (C0, i 5))], (i 3).
  vm_compute. discriminate.
Qed.

(* class 5: a multi-row INSERT that fails at its second row -- the first row was written without
   being counted, its undo decrements row_count *)
Lemma rollback_partial_insert_refuted_l :
  exists sch p body, count_star (rolled_back sch (reach sch p) body) <> count_star (reach sch p).
Proof.
  exists (mkSchema KPk KInt false false), [OIns [R (i 5) (i 1)]], [OIns [R (i 6) (i 2); R (i 5) (i 3)]].
  vm_compute. discriminate.
Qed.

(* class 7: the row ids consumed by the rolled-back INSERT shift later row ids; an index entry
   written by an EARLIER undo holds a key value in place of a row id, and the uniqueness check of a
   later key UPDATE compares that stored value with a row id: the same statement is refused without
   the rolled-back transaction and accepted with it *)
Lemma rollback_rowid_refuted_l :
  exists sch p body tail o,
    fst (exec sch o (run sch tail (rolled_back sch (reach sch p) body, None)))
    <> fst (exec sch o (run sch tail (reach sch p, None))).
Proof.
  exists (mkSchema KPk KInt false false),
         [OIns [R (i 3) (i 1)]; OBegin; ODel (Some (C0, i 3)); ORollback],
         [OIns [R (i 7) (i 7)]], [OIns [R (i 9) (i 9)]], (OUpd C0 (i 3) (Some (C0, i 9))).
  vm_compute. discriminate.
Qed.

(* ------------------------------------------------------------------ non-vacuity of the positive theorems *)
Lemma inv_empty : forall sch, inv sch t_empty.
Proof.
  intro sch. unfold inv, ids_sorted, ids_below, kidx_complete, t_empty. cbn [ents rcount map].
  split; [constructor|]. split; [intros e []|]. split; [lia|]. intros _ e [].
Qed.

Definition ex_sch : schema := mkSchema KPk KInt false false.
Definition ex_body : list op :=
  [OIns [R (i 3) (i 3)]; OSave 1; OUpd C1 (i 9) (Some (C0, i 1)); OIns [R (i 4) (i 4); R (i 5) (i 5)];
   OSave 2; OUpd C1 (i 8) None; ORollTo 1; OIns [R (i 1) (i 7)]; ORelease 1; OIns [R (i 6) (i 6)]].
Lemma c07_example_l :
  clean_run ex_sch [] ex_body (t_empty, Some (mkTxn [] [])) = true /\
  scan (fst (run ex_sch (OBegin :: ex_body) (t_empty, None))) = [R (i 3) (i 3); R (i 1) (i 7); R (i 6) (i 6)] /\
  scan (fst (run ex_sch (OBegin :: ex_body ++ [ORollback]) (t_empty, None))) = [].
Proof. vm_compute. repeat split; reflexivity. Qed.
