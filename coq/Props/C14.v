(* C14 - WHERE filtering follows SQL three-valued logic.  Property theorems only.
   Reference semantics: Model/SqlSpec.v (eval / sem3 / filter_spec, Kleene logic).
   Implementation model: Model/PredImpl.v (eval_expr = the bool evaluator of FilterExec,
   eval_value = evaluate_to_value of the select list, try_fold / fold_iter = ConstantFoldingRule,
   reparse_bare = the parser's NOT precedence).  Finding classes: Model/PredClass.v. *)
From Coq Require Import ZArith List Bool Permutation.
From TV Require Import Model.SqlSpec Model.PredImpl Model.PredClass
  Proof.SqlSpecLaws Proof.PredLike Proof.PredWhere Proof.PredFold Proof.PredSelect Proof.PredRefute
  Proof.PredFragment.
Import ListNotations.
Open Scope Z_scope.

(* ---- the reference semantics is a Kleene algebra (used by C19 as well) *)
Theorem sem3_laws :
  (forall a r, sem3 (ENot (ENot a)) r = sem3 a r) /\
  (forall a b r, sem3 (ENot (EAnd a b)) r = sem3 (EOr (ENot a) (ENot b)) r) /\
  (forall a b r, sem3 (ENot (EOr a b)) r = sem3 (EAnd (ENot a) (ENot b)) r) /\
  (forall a b r, sem3 (EAnd a b) r = sem3 (EAnd b a) r) /\
  (forall a b r, sem3 (EOr a b) r = sem3 (EOr b a) r) /\
  (forall a b c r, sem3 (EAnd a (EAnd b c)) r = sem3 (EAnd (EAnd a b) c) r) /\
  (forall a b c r, sem3 (EOr a (EOr b c)) r = sem3 (EOr (EOr a b) c) r).
Proof.
  exact (conj sem3_double_negation (conj sem3_de_morgan_and (conj sem3_de_morgan_or
        (conj sem3_and_comm (conj sem3_or_comm (conj sem3_and_assoc sem3_or_assoc)))))).
Qed.

(* ---- ternary-logic partitioning: p, NOT p and p IS NULL split every table (as a bag) *)
Theorem tlp_partition :
  forall p t, defined_on p t = true ->
    Permutation (filter_spec p t ++ filter_spec (ENot p) t ++ filter_spec (EIsNull false p) t) t.
Proof. exact SqlSpecLaws.tlp_partition. Qed.

(* ---- the LIKE matcher (greedy loop with one backtrack point) equals the declarative
        semantics of % and _ unless both the text and the pattern contain a '%' byte *)
Theorem like_match_spec :
  forall s q, has_pct s && has_pct q = false -> like_impl s q = Some (like_spec q s).
Proof. exact like_impl_correct. Qed.

(* ---- FilterExec keeps a row iff the predicate is TRUE: for every expression and row outside
        the recorded finding classes, wherever the reference semantics is defined *)
Theorem filter_correct :
  forall e r t, cls_p e r = 0 -> sem3 e r = Some t -> eval_expr e r = Ok (tv_is_true t).
Proof. exact where_row_correct. Qed.

(* ---- a purely syntactic fragment (Proof/PredFragment.frag: AND / OR over comparisons with <, >, <>
        or a non-NULL literal side, IS [NOT] NULL, IN over text literals, BETWEEN, LIKE without
        '%') on which the filter is right for every row of BIGINT / DOUBLE / TEXT cells, NULLs
        included *)
Theorem filter_correct_fragment :
  forall e r t, frag e = true -> plain_row r = true -> sem3 e r = Some t ->
    eval_expr e r = Ok (tv_is_true t).
Proof. exact PredFragment.filter_correct_fragment. Qed.

(* ---- the whole statement SELECT * FROM t WHERE e (parser precedence, constant folding,
        row-by-row filtering) returns exactly the rows on which e is TRUE *)
Theorem where_correct :
  forall sty e t, cls_where sty e t = 0 -> defined_on e t = true ->
    model_where (parsed sty e) t = MOut (QRows (spec_rows e t)).
Proof. exact PredSelect.where_correct. Qed.

(* ---- select list: evaluate_to_value yields the reference TRUE / FALSE (outside the classes no
        sub-predicate is UNKNOWN on the row) *)
Theorem select_value_correct :
  forall e r t, cls_s e r = 0 -> sem3 e r = Some t ->
    t <> UU /\ eval_value e r = Ok (Some (ib (tv_is_true t))).
Proof. exact select_row_correct. Qed.

Theorem select_correct :
  forall sty e t, cls_select sty e t = 0 -> defined_on e t = true ->
    model_select (parsed sty e) t = MOut (QVals (spec_vals e t)).
Proof. exact PredSelect.select_correct. Qed.

(* ---- none of the class hypotheses can be dropped: each recorded class contains a query on which
        the faithful model of the code contradicts the reference (the witnesses of
        known_findings.d/C14.json, re-run on the real Database by every check) *)
Theorem known_classes_refuted :
  (exists e t, where_wrong 0 1 e t) /\ (exists e t, where_wrong 0 2 e t) /\
  (exists e t, where_wrong 0 3 e t) /\ (exists e t, where_wrong 0 4 e t) /\
  (exists e t, where_wrong 0 5 e t) /\ (exists e t, select_wrong 0 6 e t) /\
  (exists e t, where_wrong 0 7 e t) /\ (exists e t, where_wrong 0 8 e t) /\
  (exists e t, where_wrong 0 9 e t) /\ (exists e t, where_wrong 0 10 e t) /\
  (exists e t, where_wrong 0 11 e t) /\ (exists e t, where_wrong 1 12 e t).
Proof. exact PredRefute.known_classes_refuted. Qed.

(* ---- non-vacuity: queries over a table with NULLs that are outside every class, defined, and
        keep some rows and drop others (so the hypotheses of where_correct / select_correct are
        satisfiable by interesting inputs) *)
Example c14_witness :
  cls_where 0 good1 T3 = 0 /\ defined_on good1 T3 = true /\ spec_rows good1 T3 = [1; 0; 1] /\
  cls_where 0 good2 T3 = 0 /\ defined_on good2 T3 = true /\ spec_rows good2 T3 = [1; 1; 0] /\
  cls_select 0 (EIsNull true (ECol 1)) T3 = 0 /\ spec_vals (EIsNull true (ECol 1)) T3 = [1; 1; 0].
Proof. exact good_examples. Qed.
Example c14_fragment_witness :
  frag good1 = true /\ forallb plain_row T3 = true /\
  map (sem3 good1) T3 = [Some TT; Some FF; Some TT] /\
  map (sem3 (ECmp CLt (ECol 1) (ELit (VInt 2)))) T3 = [Some TT; Some FF; Some UU].
Proof. vm_compute. repeat split. Qed.

Check sem3_laws :
  (forall a r, sem3 (ENot (ENot a)) r = sem3 a r) /\
  (forall a b r, sem3 (ENot (EAnd a b)) r = sem3 (EOr (ENot a) (ENot b)) r) /\
  (forall a b r, sem3 (ENot (EOr a b)) r = sem3 (EAnd (ENot a) (ENot b)) r) /\
  (forall a b r, sem3 (EAnd a b) r = sem3 (EAnd b a) r) /\
  (forall a b r, sem3 (EOr a b) r = sem3 (EOr b a) r) /\
  (forall a b c r, sem3 (EAnd a (EAnd b c)) r = sem3 (EAnd (EAnd a b) c) r) /\
  (forall a b c r, sem3 (EOr a (EOr b c)) r = sem3 (EOr (EOr a b) c) r).
Check tlp_partition : forall p t, defined_on p t = true ->
    Permutation (filter_spec p t ++ filter_spec (ENot p) t ++ filter_spec (EIsNull false p) t) t.
Check like_match_spec : forall s q, has_pct s && has_pct q = false -> like_impl s q = Some (like_spec q s).
Check filter_correct : forall e r t, cls_p e r = 0 -> sem3 e r = Some t -> eval_expr e r = Ok (tv_is_true t).
Check filter_correct_fragment : forall e r t, frag e = true -> plain_row r = true -> sem3 e r = Some t ->
    eval_expr e r = Ok (tv_is_true t).
Check where_correct : forall sty e t, cls_where sty e t = 0 -> defined_on e t = true ->
    model_where (parsed sty e) t = MOut (QRows (spec_rows e t)).
Check select_value_correct : forall e r t, cls_s e r = 0 -> sem3 e r = Some t ->
    t <> UU /\ eval_value e r = Ok (Some (ib (tv_is_true t))).
Check select_correct : forall sty e t, cls_select sty e t = 0 -> defined_on e t = true ->
    model_select (parsed sty e) t = MOut (QVals (spec_vals e t)).
Check known_classes_refuted :
  (exists e t, where_wrong 0 1 e t) /\ (exists e t, where_wrong 0 2 e t) /\
  (exists e t, where_wrong 0 3 e t) /\ (exists e t, where_wrong 0 4 e t) /\
  (exists e t, where_wrong 0 5 e t) /\ (exists e t, select_wrong 0 6 e t) /\
  (exists e t, where_wrong 0 7 e t) /\ (exists e t, where_wrong 0 8 e t) /\
  (exists e t, where_wrong 0 9 e t) /\ (exists e t, where_wrong 0 10 e t) /\
  (exists e t, where_wrong 0 11 e t) /\ (exists e t, where_wrong 1 12 e t).

Print Assumptions sem3_laws.
Print Assumptions tlp_partition.
Print Assumptions like_match_spec.
Print Assumptions filter_correct.
Print Assumptions filter_correct_fragment.
Print Assumptions where_correct.
Print Assumptions select_value_correct.
Print Assumptions select_correct.
Print Assumptions known_classes_refuted.
