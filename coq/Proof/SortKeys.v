(* C15 proofs: outside the recorded finding classes the implementation model reads every sort key
   and every output row from where the reference meaning of the query says. *)
From Coq Require Import ZArith List Bool Arith Lia.
From TV Require Import Model.KnnOrder.
From TV Require Import Model.SqlSpec Model.SortSpec Model.SortQuery Model.SortImpl.
Import ListNotations.
Open Scope nat_scope.

(* ------------------------------------------------------------------ all_some *)
Lemma all_some_Forall2 : forall {X Y} (f : X -> option Y) l ys,
  all_some (map f l) = Some ys -> Forall2 (fun x y => f x = Some y) l ys.
Proof.
  intros X Y f l. induction l as [|x l IH]; intros ys H; cbn [map all_some] in H.
  - inversion H. constructor.
  - destruct (f x) as [y|] eqn:E; [|discriminate].
    destruct (all_some (map f l)) as [ys'|]; [|discriminate]. inversion H; subst. constructor; auto.
Qed.

Lemma Forall2_agree : forall {X Y} (f g : X -> option Y) l ys zs,
  (forall x a b, In x l -> f x = Some a -> g x = Some b -> a = b) ->
  Forall2 (fun x y => f x = Some y) l ys -> Forall2 (fun x z => g x = Some z) l zs -> ys = zs.
Proof.
  intros X Y f g l. induction l as [|x l IH]; intros ys zs H Hf Hg; inversion Hf; inversion Hg; subst; [reflexivity|].
  f_equal.
  - eapply H; eauto. left. reflexivity.
  - apply IH; auto. intros. eapply H; eauto. right. assumption.
Qed.

Lemma all_some_agree : forall {X Y} (f g : X -> option Y) l ys zs,
  (forall x a b, In x l -> f x = Some a -> g x = Some b -> a = b) ->
  all_some (map f l) = Some ys -> all_some (map g l) = Some zs -> ys = zs.
Proof.
  intros X Y f g l ys zs H Hf Hg. eapply Forall2_agree; eauto using all_some_Forall2.
Qed.

(* ------------------------------------------------------------------ one key *)
Lemma mem_spec : forall c l, mem c l = true <-> In c l.
Proof.
  intros c l. unfold mem. rewrite existsb_exists. split.
  - intros [x [Hx E]]. apply Nat.eqb_eq in E. subst. exact Hx.
  - intros H. exists c. split; [exact H|apply Nat.eqb_refl].
Qed.

(* without ABS the reference value is the evaluator of the shared SQL semantics *)
Lemma spec_kexpr_is_eval : forall e r, kexpr_has_fn e = false -> spec_kexpr e r = eval (to_expr e) r.
Proof.
  induction e as [c|z|op a IHa b IHb|a IHa|a IHa]; intros r Hn; cbn [kexpr_has_fn spec_kexpr to_expr eval] in *;
    try reflexivity.
  - apply orb_false_elim in Hn. destruct Hn as [Ha Hb]. rewrite (IHa r Ha), (IHb r Hb). reflexivity.
  - rewrite (IHa r Hn). destruct (eval (to_expr a) r); reflexivity.
  - discriminate.
Qed.

Lemma eval_kexpr_spec : forall vis r e v v',
  kexpr_has_fn e = false -> forallb (fun c => mem c vis) (kexpr_cols e) = true ->
  eval_kexpr vis r e = Some v -> spec_kexpr e r = Some v' -> v = v'.
Proof.
  intros vis r. induction e as [c|z|op a IHa b IHb|a IHa|a IHa]; intros v v' Hn Hv Hi Hs;
    cbn [kexpr_has_fn kexpr_cols eval_kexpr spec_kexpr] in *.
  - cbn [forallb] in Hv. rewrite andb_true_r in Hv. rewrite Hv in Hi. inversion Hi; subst.
    apply nth_error_nth. exact Hs.
  - destruct (i64_ok z); [|discriminate]. congruence.
  - apply orb_false_elim in Hn. destruct Hn as [Hna Hnb].
    rewrite forallb_app in Hv. apply andb_prop in Hv. destruct Hv as [Hva Hvb].
    destruct (eval_kexpr vis r a) as [va|] eqn:Ea; [|discriminate].
    destruct (eval_kexpr vis r b) as [vb|] eqn:Eb; [|destruct va; discriminate].
    destruct (spec_kexpr a r) as [va'|] eqn:Sa; [|discriminate].
    destruct (spec_kexpr b r) as [vb'|] eqn:Sb; [|discriminate].
    assert (va = va') by (eapply IHa; eauto). assert (vb = vb') by (eapply IHb; eauto). subst va' vb'.
    destruct va, vb; cbn [arith_values] in Hs; try discriminate; try congruence.
  - destruct (eval_kexpr vis r a) as [va|] eqn:Ea; [|discriminate].
    destruct (spec_kexpr a r) as [va'|] eqn:Sa; [|discriminate].
    assert (va = va') by (eapply IHa; eauto). subst va'.
    destruct va; cbn [arith_values arith_z] in Hs; try discriminate; try congruence.
    replace (0 - z)%Z with (- z)%Z in Hs by lia.
    destruct (i64_ok (- z)); congruence.
  - discriminate.
Qed.

Lemma src_value_agrees : forall ncols s k src d r v v',
  (src = src_above (items_of s) k \/ src = src_below ncols k) ->
  key_class ncols s k src = 0%Z -> key_den ncols s k = Some d ->
  eval_src r src = Some v -> den_value d r = Some v' -> v = v'.
Proof.
  intros ncols s k src d r v v' Hsrc Hc Hd Hv Hs. unfold key_class in Hc. rewrite Hd in Hc.
  destruct k as [c q|i|e].
  - (* column *)
    cbn [key_den] in Hd. destruct (c <? ncols) eqn:Ec; [|discriminate]. inversion Hd; subst d.
    destruct src as [c'| |e vis|]; try discriminate.
    + destruct (Nat.eqb c c') eqn:E; [|discriminate]. apply Nat.eqb_eq in E. subst c'.
      cbn [eval_src den_value] in *. inversion Hv; subst. apply nth_error_nth. exact Hs.
    + destruct e; discriminate.
  - (* alias *)
    destruct d as [c|e0]; [|cbn [key_den] in Hd; destruct s; [discriminate|]; destruct (nth_error items i) as [[c' [|]]|]; discriminate].
    destruct src as [c'| |e vis|]; try discriminate.
    + destruct (Nat.eqb c c') eqn:E; [|discriminate]. apply Nat.eqb_eq in E. subst c'.
      cbn [eval_src den_value] in *. inversion Hv; subst. apply nth_error_nth. exact Hs.
    + destruct e; discriminate.
  - (* expression *)
    assert (Hgen : forall vis, src = SrcExpr e vis -> d = DExpr e -> v = v').
    { intros vis -> ->.
      destruct (negb (forallb (fun c => mem c vis) (kexpr_cols e))) eqn:Ev; [discriminate|].
      apply negb_false_iff in Ev.
      destruct (kexpr_has_fn e) eqn:En; [discriminate|].
      cbn [eval_src den_value] in *. eapply eval_kexpr_spec; eauto. }
    destruct Hsrc as [-> | ->].
    + destruct e as [c|z|op a b|a|a]; cbn [src_above] in *.
      * destruct d; discriminate.
      * destruct d; [discriminate|]. cbn [key_den] in Hd.
        destruct ((1 <=? z)%Z && (z <=? Z.of_nat (length (out_cols ncols s)))%Z); [|discriminate].
        destruct (nth_error (out_cols ncols s) (Z.to_nat (z - 1))); discriminate.
      * cbn [key_den] in Hd. inversion Hd; subst d. eapply Hgen; reflexivity.
      * cbn [key_den] in Hd. inversion Hd; subst d. eapply Hgen; reflexivity.
      * cbn [key_den] in Hd. inversion Hd; subst d. eapply Hgen; reflexivity.
    + destruct e as [c|z|op a b|a|a]; cbn [src_below] in *.
      * destruct d; discriminate.
      * destruct d; [discriminate|]. cbn [key_den] in Hd.
        destruct ((1 <=? z)%Z && (z <=? Z.of_nat (length (out_cols ncols s)))%Z); [|discriminate].
        destruct (nth_error (out_cols ncols s) (Z.to_nat (z - 1))); discriminate.
      * cbn [key_den] in Hd. inversion Hd; subst d. eapply Hgen; reflexivity.
      * cbn [key_den] in Hd. inversion Hd; subst d. eapply Hgen; reflexivity.
      * cbn [key_den] in Hd. inversion Hd; subst d. eapply Hgen; reflexivity.
Qed.

(* ------------------------------------------------------------------ all keys of a query *)
Lemma first_nonzero_0 : forall l, first_nonzero l = 0%Z -> Forall (fun x => x = 0%Z) l.
Proof.
  induction l as [|x l IH]; intros H; cbn [first_nonzero] in H; constructor.
  - destruct (x =? 0)%Z eqn:E; [apply Z.eqb_eq; exact E|congruence].
  - destruct (x =? 0)%Z eqn:E; [apply IH; exact H|]. apply Z.eqb_neq in E. congruence.
Qed.

Definition src_fn (ncols : nat) (q : query) : key -> ksrc :=
  match sort_mode q with
  | Above => src_above (items_of (q_sel q))
  | Below => src_below ncols
  end.
Lemma impl_srcs_map : forall ncols q, impl_srcs ncols q = map (fun kb => src_fn ncols q (fst kb)) (q_keys q).
Proof. intros ncols q. unfold impl_srcs, src_fn. destruct (sort_mode q); reflexivity. Qed.
Lemma src_fn_cases : forall ncols q k,
  src_fn ncols q k = src_above (items_of (q_sel q)) k \/ src_fn ncols q k = src_below ncols k.
Proof. intros ncols q k. unfold src_fn. destruct (sort_mode q); auto. Qed.

Definition keys_class0 (ncols : nat) (q : query) : Prop :=
  Forall (fun kb => key_class ncols (q_sel q) (fst kb) (src_fn ncols q (fst kb)) = 0%Z) (q_keys q).

Lemma keys_class0_of : forall ncols q,
  first_nonzero (map (fun ks => key_class ncols (q_sel q) (fst (fst ks)) (snd ks))
                     (combine (q_keys q) (impl_srcs ncols q))) = 0%Z ->
  keys_class0 ncols q.
Proof.
  intros ncols q H. apply first_nonzero_0 in H. rewrite impl_srcs_map in H. unfold keys_class0.
  induction (q_keys q) as [|kb ks IH]; [constructor|].
  cbn [map combine] in H. inversion H; subst. constructor; [assumption|apply IH; assumption].
Qed.

Lemma key_values_agree : forall ncols q r dens ks ks',
  keys_class0 ncols q -> spec_dens ncols q = Some dens ->
  all_some (map (eval_src r) (impl_srcs ncols q)) = Some ks ->
  all_some (map (fun d => den_value d r) dens) = Some ks' -> ks = ks'.
Proof.
  intros ncols q r dens ks ks' Hc Hd Hi Hs. unfold spec_dens in Hd. rewrite impl_srcs_map in Hi.
  apply all_some_Forall2 in Hd. rewrite map_map in Hi. apply all_some_Forall2 in Hi. apply all_some_Forall2 in Hs.
  unfold keys_class0 in Hc. revert dens ks ks' Hd Hi Hs.
  induction Hc as [|kb keys Hk _ IH]; intros dens ks ks' Hd Hi Hs.
  - inversion Hd; subst. inversion Hi; subst. inversion Hs; subst. reflexivity.
  - inversion Hd as [|? d ? dens' Hd1 Hd2]; subst. inversion Hi as [|? v ? ks1 Hv1 Hv2]; subst.
    inversion Hs as [|? v' ? ks1' Hs1 Hs2]; subst. f_equal.
    + eapply (src_value_agrees ncols (q_sel q) (fst kb) (src_fn ncols q (fst kb)) d r v v');
        [apply src_fn_cases|exact Hk|exact Hd1|exact Hv1|exact Hs1].
    + eapply IH; eauto.
Qed.

(* ------------------------------------------------------------------ the output row *)
Lemma spec_pay_proj : forall cols r p, all_some (map (nth_error r) cols) = Some p -> p = proj cols r.
Proof.
  induction cols as [|c cols IH]; intros r p H; cbn [map all_some proj] in *.
  - inversion H. reflexivity.
  - destruct (nth_error r c) as [v|] eqn:E; [|discriminate].
    destruct (all_some (map (nth_error r) cols)) as [p'|] eqn:E2; [|discriminate]. inversion H; subst.
    f_equal; [symmetry; apply nth_error_nth; exact E|apply IH; exact E2].
Qed.

Lemma impl_pay_agrees : forall ncols q r p,
  class_of ncols q = 0%Z -> spec_pay ncols q r = Some p -> impl_pay ncols q r = p.
Proof.
  intros ncols q r p Hk Hp. unfold spec_pay in Hp. apply spec_pay_proj in Hp. subst p.
  unfold impl_pay. unfold class_of in Hk. destruct (pay_mode_of q); [reflexivity|discriminate].
Qed.

(* ------------------------------------------------------------------ the elements *)
Lemma class0_facts : forall ncols q, class_of ncols q = 0%Z -> keys_class0 ncols q.
Proof.
  intros ncols q Hk. unfold class_of in Hk. destruct (pay_mode_of q); [|discriminate].
  apply keys_class0_of. exact Hk.
Qed.

Lemma keys_class0_nil : forall ncols q, q_keys q = [] -> keys_class0 ncols q.
Proof. intros ncols q H. unfold keys_class0. rewrite H. constructor. Qed.

Lemma elements_agree : forall ncols q t B E,
  class_of ncols q = 0%Z -> spec_elts ncols q t = Some B ->
  all_some (map (impl_elt (impl_srcs ncols q) ncols q) (filter (passes_where (q_where q)) t)) = Some E ->
  E = B.
Proof.
  intros ncols q t B E Hk Hs Hi. unfold spec_elts in Hs.
  destruct (spec_dens ncols q) as [dens|] eqn:Ed; [|discriminate].
  pose proof (class0_facts ncols q Hk) as Hkeys.
  eapply all_some_agree; [|exact Hi|exact Hs].
  intros r a b _ Ha Hb. unfold impl_elt in Ha. unfold spec_elt in Hb.
  destruct (all_some (map (eval_src r) (impl_srcs ncols q))) as [ks|] eqn:E1; [|discriminate].
  destruct (all_some (map (fun d => den_value d r) dens)) as [ks'|] eqn:E2; [|discriminate].
  destruct (spec_pay ncols q r) as [p|] eqn:E3; [|discriminate].
  inversion Ha; inversion Hb; subst. f_equal.
  - eapply key_values_agree; eauto.
  - apply impl_pay_agrees; assumption.
Qed.

(* the statement the executor runs has the same reference elements *)
Lemma spec_elts_exec : forall ncols q t, spec_elts ncols (exec_q q) t = spec_elts ncols q t.
Proof.
  intros ncols q t. unfold exec_q. destruct (q_distinct q && has_window q); reflexivity.
Qed.
