(* C23 model, part 3: src/records/array.rs ArrayView on ARBITRARY bytes (the view of an ARRAY column
   value as stored in a row record).  Layout: total_size u32 | elem_type u8 | ndims u8 | len u16 |
   null bitmap ceil(len/8) | fixed-width elements, or u32 offset table + variable-width data.
   Hand-transcribed (byte-array patterns `u32::from_le_bytes([self.data[0], ..])` and &str are outside
   the rs2v subset), as of /repo commit 5281222: ArrayView::new checks `data.len() >= 8` and then
   validate(): a known element type, and the null bitmap + element area (fixed-width types) or the offset
   table with in-order offsets inside total_size <= data.len() (variable-width types).  The getters
   themselves still index `self.data[..]` unchecked and elem_type() still `expect`s - modelled as they are
   (Panic); they rely on new().  What new() does NOT establish: that the caller picks the getter of the
   stored element type - `array_elem` below is the dispatch of the one caller (sql/decoder.rs format_array).
   Before 5281222 new() only checked the length (findings F-C23-6, F-C23-7, fixed).
   std::str::from_utf8 is Model/Utf8.v valid_utf8 (shared).  Definitions only, no proofs. *)
From Coq Require Import ZArith List Bool.
From TV Require Import Lib.MachInt Model.Utf8 Model.StoredBytes.
Import ListNotations.
Open Scope Z_scope.

Definition ARRAY_HEADER_SIZE : Z := 8.          (* const HEADER_SIZE *)

(* u16 / u32 ::from_le_bytes([self.data[p], self.data[p+1], ..]) : n unchecked single-byte reads *)
Fixpoint le_at (d : list Z) (p : Z) (n : nat) : res Z :=
  match n with
  | O => Ok 0
  | S k => b <- idx d p ;; r <- le_at d (p + 1) k ;; Ok (b + 256 * r)
  end.

Definition total_size (d : list Z) : res Z := le_at d 0 4.
Definition alen (d : list Z) : res Z := le_at d 6 2.
Definition ndims (d : list Z) : res Z := idx d 5.

(* DataType::try_from(u8) succeeds on these discriminants (src/types/data_type.rs) *)
Definition dtype_code_ok (b : Z) : bool :=
  ((0 <=? b) && (b <=? 13)) || ((20 <=? b) && (b <=? 25)) || (b =? 30) || (b =? 31)
  || ((40 <=? b) && (b <=? 43)) || (b =? 50) || ((60 <=? b) && (b <=? 62)) || (b =? 70) || (b =? 71).
(* elem_type(): DataType::try_from(self.data[4]).expect("corrupted array: invalid type byte") *)
Definition elem_type (d : list Z) : res Z :=
  b <- idx d 4 ;; if dtype_code_ok b then Ok b else Panic.

(* len.div_ceil(8) *)
Definition bitmap_size (n : Z) : Z := (n + 7) / 8.

(* is_null(idx) -> bool *)
Definition is_null (d : list Z) (i : Z) : res bool :=
  n <- alen d ;;
  if i >=? n then Ok true
  else b <- idx d (ARRAY_HEADER_SIZE + i / 8) ;; Ok (negb (Z.land b (2 ^ (i mod 8)) =? 0)).

(* get_int2 / get_int4 / get_int8 / get_float4 / get_float8 (w = 2,4,8; the unsigned little-endian value:
   the caller reads it as iN or as the bits of fN) and get_bool (w = 1) *)
Definition get_fixed (d : list Z) (w : nat) (i : Z) : res Z :=
  n <- alen d ;;
  if i <? n then le_at d (ARRAY_HEADER_SIZE + bitmap_size n + i * Z.of_nat w) w else Err.
Definition get_bool (d : list Z) (i : Z) : res bool :=
  v <- get_fixed d 1 i ;; Ok (negb (v =? 0)).

(* read_offset(idx) *)
Definition read_offset (d : list Z) (n i : Z) : res Z := le_at d (ARRAY_HEADER_SIZE + bitmap_size n + i * 4) 4.

(* DataType::fixed_size of a valid discriminant (src/types/data_type.rs) *)
Definition elem_fixed_size (b : Z) : option Z :=
  if b =? 0 then Some 1 else if b =? 1 then Some 2 else if b =? 2 then Some 4 else if b =? 3 then Some 8
  else if b =? 4 then Some 4 else if b =? 5 then Some 8 else if b =? 6 then Some 4 else if b =? 7 then Some 8
  else if b =? 8 then Some 8 else if b =? 9 then Some 12 else if b =? 10 then Some 16 else if b =? 11 then Some 6
  else if b =? 12 then Some 4 else if b =? 13 then Some 16 else if b =? 31 then Some 16 else if b =? 40 then Some 9
  else if b =? 41 then Some 17 else if b =? 42 then Some 9 else if b =? 43 then Some 17 else if b =? 50 then Some 4
  else if b =? 60 then Some 16 else if b =? 61 then Some 32 else if b =? 62 then Some 24 else None.

(* the loop of validate(): `for idx in 0..len { start = read_offset(idx); ensure!(prev <= start <= total - data_start) }` *)
Fixpoint offsets_ok (d : list Z) (n room : Z) (k : nat) (i prev : Z) : res unit :=
  match k with
  | O => Ok tt
  | S k' =>
      st <- read_offset d n i ;;
      if (prev <=? st) && (st <=? room) then offsets_ok d n room k' (i + 1) st else Err
  end.

(* validate() *)
Definition array_validate (d : list Z) : res unit :=
  b <- idx d 4 ;;
  if dtype_code_ok b then
    n <- alen d ;;
    let table_start := ARRAY_HEADER_SIZE + bitmap_size n in
    match elem_fixed_size b with
    | Some sz => if table_start + n * sz <=? blen d then Ok tt else Err
    | None =>
        let ds := table_start + n * 4 in
        total <- total_size d ;;
        if (ds <=? total) && (total <=? blen d) then offsets_ok d n (total - ds) (Z.to_nat n) 0 0 else Err
    end
  else Err.

(* ArrayView::new *)
Definition array_new (d : list Z) : res unit :=
  if blen d <? ARRAY_HEADER_SIZE then Err else array_validate d.

(* get_var_bounds *)
Definition get_var_bounds (d : list Z) (i : Z) : res (Z * Z) :=
  n <- alen d ;;
  if i <? n then
    let ds := ARRAY_HEADER_SIZE + bitmap_size n + n * 4 in
    st <- read_offset d n i ;;
    en <- (if i + 1 <? n then read_offset d n (i + 1)
           else ts <- total_size d ;; if ts <? ds then Panic else Ok (ts - ds)) ;;   (* usize subtraction *)
    Ok (ds + st, ds + en)
  else Err.

(* get_blob *)
Definition get_blob (d : list Z) (i : Z) : res (list Z) :=
  nl <- is_null d i ;;
  if (nl : bool) then Err
  else be <- get_var_bounds d i ;; sub d (fst be) (snd be).

(* get_text: the bytes, when they are valid UTF-8 *)
Definition get_text (d : list Z) (i : Z) : res (list Z) :=
  b <- get_blob d i ;; if valid_utf8 b then Ok b else Err.

(* ------------------------------------------------------------------ what each getter needs *)
(* the null bitmap lies inside the data *)
Definition wf_bitmap (d : list Z) : bool :=
  (ARRAY_HEADER_SIZE <=? blen d) &&
  match alen d with Ok n => ARRAY_HEADER_SIZE + bitmap_size n <=? blen d | _ => false end.
(* fixed-width getters of width w: the element area lies inside the data *)
Definition wf_fixed (d : list Z) (w : Z) : bool :=
  (ARRAY_HEADER_SIZE <=? blen d) &&
  match alen d with
  | Ok n => ARRAY_HEADER_SIZE + bitmap_size n + n * w <=? blen d
  | _ => false
  end.
(* get_blob / get_text of element i: bitmap and offset table lie inside the data, total_size covers them, and the
   element announced by the offset table is a slice of the data *)
Definition wf_var (d : list Z) (i : Z) : bool :=
  (ARRAY_HEADER_SIZE <=? blen d) &&
  match alen d, total_size d with
  | Ok n, Ok ts =>
      let ds := ARRAY_HEADER_SIZE + bitmap_size n + n * 4 in
      (ds <=? blen d) && (ds <=? ts) &&
      match read_offset d n i, (if i + 1 <? n then read_offset d n (i + 1) else Ok (ts - ds)) with
      | Ok st, Ok en => (st <=? en) && (ds + en <=? blen d)
      | _, _ => false
      end
  | _, _ => false
  end.

(* ------------------------------------------------------------------ the caller's dispatch *)
(* sql/decoder.rs format_array, one element: is_null first, then the getter selected by elem_type();
   result: 0 = NULL, [1; v] a fixed-width value, the bytes of a text / blob, or nothing for a type it prints as "?" *)
Inductive elem := ENull | ENum (v : Z) | EBytes (b : list Z) | EOther.
Definition array_elem (d : list Z) (i : Z) : res elem :=
  t <- elem_type d ;;
  nl <- is_null d i ;;
  if (nl : bool) then Ok ENull
  else if t =? 1 then v <- get_fixed d 2 i ;; Ok (ENum v)
  else if (t =? 2) || (t =? 4) then v <- get_fixed d 4 i ;; Ok (ENum v)
  else if (t =? 3) || (t =? 5) then v <- get_fixed d 8 i ;; Ok (ENum v)
  else if t =? 0 then v <- get_bool d i ;; Ok (ENum (if (v : bool) then 1 else 0))
  else if (t =? 20) || (t =? 24) || (t =? 25) then b <- get_text d i ;; Ok (EBytes b)
  else if t =? 21 then b <- get_blob d i ;; Ok (EBytes b)
  else Ok EOther.
