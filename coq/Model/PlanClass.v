(* (1) Implementation model of single-table SELECT (src/database/database.rs, PlanSource::TableScan
       arm of query_with_columns): the reference semantics (the projection fast-path defect it
       used to carry is repaired in /repo).
   (2) The recorded finding classes of property C19 as decidable predicates on a query, defined
       through the transcribed analyses of the optimizer (Model/ConstFold.v, Model/Pushdown.v).
   Definitions only.  Classes (known_findings.d/C19.json):
     1 (fixed) projection fast path   2 SELECT * over a join   3 expression item over a join
     4 push past invisible refs  5 join condition lost after a push to the right input
     6 WHERE under an outer join 7 RIGHT / FULL unmatched rows projected by name
     8 ON residual dropped by the hash join                    9 join nested in a join
     10 hash join keys -0.0 / 0.0 *)
From Coq Require Import ZArith List Bool.
From TV Require Import Model.SqlSpec Model.QuerySpec Model.ConstFold Model.Pushdown.
Import ListNotations.
Open Scope Z_scope.

(* ------------------------------------------------------------------ syntactic helpers *)
Definition col_of (e : expr) : option nat := match e with ECol i => Some i | _ => None end.
Fixpoint cols_of (l : list expr) : option (list nat) :=
  match l with
  | [] => Some []
  | e :: l' => match col_of e, cols_of l' with Some c, Some cs => Some (c :: cs) | _, _ => None end
  end.
Fixpoint nat_list_eqb (a b : list nat) : bool :=
  match a, b with
  | [], [] => true
  | x :: a', y :: b' => Nat.eqb x y && nat_list_eqb a' b'
  | _, _ => false
  end.
Fixpoint flatten_and (e : expr) : list expr :=
  match e with EAnd a b => flatten_and a ++ flatten_and b | _ => [e] end.
Definition col_col_eq (e : expr) : option (nat * nat) :=
  match e with ECmp CEq (ECol i) (ECol j) => Some (i, j) | _ => None end.
Fixpoint and_all (x : expr) (l : list expr) : expr :=
  match l with [] => x | y :: l' => and_all (EAnd x y) l' end.
Definition and_list (l : list expr) : option expr := match l with [] => None | x :: l' => Some (and_all x l') end.

(* ------------------------------------------------------------------ (1) single-table implementation model *)
(* Single-table SELECT (scan + FilterExec + ProjectExec) follows the reference semantics.
   Until /repo commit 84a97fb this model carried the projection fast path of query_with_columns:
   with no FilterExec in the plan (no WHERE, or a WHERE that folds to TRUE) and only plain columns
   in the select list, the scan was narrowed to the select-list columns while ProjectExec still
   indexed the row by table position (SELECT c1 FROM t returned NULLs; finding F-C19-1, class 1).
   The commit makes the narrowed scan deliver the select list directly; the model is the
   reference semantics again and class 1 is empty. *)
Definition impl_single (d : db) (q : query) : list orow := q_out d q.

(* ------------------------------------------------------------------ (2) classes of join queries *)
(* positions of the concatenated row of a two-table join that carry the same column NAME as
   position c (names are positions inside the table: id, c1, c2 ..) *)
Definition name_of (wl : nat) (c : nat) : nat := if Nat.ltb c wl then c else (c - wl)%nat.
Definition same_name_cols (wl wr n : nat) : list nat :=
  (if Nat.ltb n wl then [n] else []) ++ (if Nat.ltb n wr then [(wl + n)%nat] else []).
Fixpoint names_consistent (wl wr : nat) (seen rest : list nat) : bool :=
  match rest with
  | [] => true
  | c :: rest' =>
      let n := name_of wl c in
      let occ := length (filter (fun d => Nat.eqb (name_of wl d) n) seen) in
      match nth_error (same_name_cols wl wr n) occ with
      | Some c' => Nat.eqb c' c
      | None => false
      end && names_consistent wl wr (seen ++ [c]) rest'
  end.

Definition two_sided (wl : nat) (ij : nat * nat) : bool := negb (Bool.eqb (Nat.ltb (fst ij) wl) (Nat.ltb (snd ij) wl)).
Definition is_two_sided_eq (wl : nat) (e : expr) : bool :=
  match col_col_eq e with Some ij => two_sided wl ij | None => false end.

(* JoinConditionExtractionRule: a cross join under a filter becomes an inner join on the
   two-sided column equalities among the filter's conjuncts; (condition, remaining filter) *)
Definition extract (k : jkind) (on : expr) (wl : nat) (filt : option expr) : option expr * option expr :=
  match k with
  | JCross =>
      match filt with
      | None => (None, None)
      | Some p =>
          let conj := flatten_and p in
          let eqs := filter (is_two_sided_eq wl) conj in
          let rest := filter (fun c => negb (is_two_sided_eq wl c)) conj in
          match eqs with [] => (None, Some p) | _ => (and_list eqs, and_list rest) end
      end
  | _ => (Some on, filt)
  end.

Definition on_residual (wl : nat) (cond : expr) : bool :=
  let conj := flatten_and cond in
  let keys := flat_map (fun c => match col_col_eq c with Some ij => [ij] | None => [] end) conj in
  match keys with
  | [] => false
  | _ => Nat.ltb (length keys) (length conj) || existsb (fun ij => negb (two_sided wl ij)) keys
  end.

(* hash joins hash the bit pattern of a key: -0.0 and 0.0 (or the integer 0) compare equal but
   land in different buckets.  Class 10: a two-sided key pair whose two columns hold both kinds
   of zero. *)
Definition zero_kind (v : value) : Z :=
  match v with
  | VFloat b => if b =? 2 ^ 63 then 2 else if b =? 0 then 1 else 0
  | VInt z => if z =? 0 then 1 else 0
  | _ => 0
  end.
Definition col_has (t : table) (c : nat) (k : Z) : bool :=
  existsb (fun r => match nth_error r c with Some v => zero_kind v =? k | None => false end) t.
Definition neg_zero_key (wl : nat) (L R : table) (cond : expr) : bool :=
  existsb (fun ij =>
             let a := if Nat.ltb (fst ij) wl then fst ij else snd ij in
             let b := ((if Nat.ltb (fst ij) wl then snd ij else fst ij) - wl)%nat in
             two_sided wl ij &&
             ((col_has L a 2 && col_has R b 1) || (col_has L a 1 && col_has R b 2)))
          (flat_map (fun c => match col_col_eq c with Some ij => [ij] | None => [] end) (flatten_and cond)).

Definition join2_class (d : db) (q : query) (k : jkind) (l r : from) (on : expr) : Z :=
  let wl := from_width d l in
  let wr := from_width d r in
  let '(cond, filt) := extract k on wl (effective_where (q_where q)) in
  let pushed := match filt with Some f => push_decision wl f | None => PStay end in
  let blind := match filt, pushed with
               | Some f, PLeft => snd (all_sides wl f)
               | Some f, PRight => fst (all_sides wl f)
               | _, _ => false
               end in
  let right_cond := match pushed, cond, k with
                    | PRight, Some _, (JCross | JInner) => true
                    | _, _, _ => false
                    end in
  let outer_where := match k, filt, pushed with
                     | JLeft, Some _, PLeft => false
                     | JRight, Some _, PRight => false
                     | (JLeft | JRight | JFull), Some _, _ => true
                     | _, _, _ => false
                     end in
  let right_names := match k with
                     | JRight | JFull =>
                         if q_star q then false
                         else match cols_of (q_items q) with Some cs => negb (names_consistent wl wr [] cs) | None => false end
                     | _ => false
                     end in
  let residual := match cond with Some c => on_residual wl c | None => false end in
  let negzero := match cond with Some c => neg_zero_key wl (eval_from d l) (eval_from d r) c | None => false end in
  if blind then 4 else if right_cond then 5 else if outer_where then 6 else if right_names then 7
  else if residual then 8 else if negzero then 10 else 0.

Definition q_class (d : db) (q : query) : Z :=
  match q_from q with
  | FTab _ => 0
  | FJoin k l r on =>
      if q_star q then 2
      else match cols_of (q_items q) with
           | None => 3
           | Some _ =>
               match l, r with
               | FTab _, FTab _ => join2_class d q k l r on
               | _, _ => 9
               end
           end
  end.
