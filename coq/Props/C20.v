(* C20 - Scalar functions and arithmetic match their definitions.
   Property theorems only (proofs in Proof/Arith.v ...).  Models follow the REPAIRED tree (fix commits 6ca9f39 c7e0f53
   9fda373 e5e0a82 44ef577 d9dc553); the findings they repaired are kept below as witnesses that now evaluate correctly.
   Model/Arith.v transcribes the integer side of CompiledPredicate::eval_value / eval_binary_op /
   eval_unary_op (src/sql/predicate.rs), the integer paths of src/sql/functions/numeric.rs and the
   control-flow functions of src/sql/functions/system.rs; [exact] / [fn_exact] are the documented
   definitions on unbounded integers (Spec).
   Model/Utf8.v is UTF-8 (what Rust's str <-> char conversions do); Model/StrFun.v transcribes
   src/sql/functions/string.rs on byte strings, [str_exact] is the character-level Spec.
   Model/DateFun.v transcribes the eval_* wrappers of src/sql/functions/datetime.rs around the helpers
   REGENERATED from that file (Gen/CalFunc.v); the Spec is the calendar of Model/Calendar.v (C41). *)
From Coq Require Import ZArith List Bool.
From TV Require Import Lib.MachInt Model.Arith Model.Utf8 Model.StrFun Model.Calendar Model.DateFun Model.Cast.
From TV Require Gen.CalFunc.
From TV Require Import Proof.Arith Proof.Utf8 Proof.StrFind Proof.StrFun Proof.DateFun Proof.Cast.
Import ListNotations.
Open Scope Z_scope.

(* ---------------------------------------------------------------- integer arithmetic *)
(* EVERY expression tree over + - * / % ^ << >> & | unary - + ~, integer literals and NULL: when every
   step's exact result is an i64, SELECT shows exactly that integer (no class hypothesis any more) *)
Theorem arith_in_range_correct : forall e z, wf e = true -> exact e = XInt z -> eval e = OVal (VInt z).
Proof. exact arith_in_range_correct_l. Qed.

(* ... NULL operands, x / 0, x % 0 (and shift counts outside 0..63) show NULL *)
Theorem arith_null : forall e, wf e = true ->
  (exact e = XNullP \/ exact e = XDivZ \/ exact e = XAny) -> to_sql (eval e) = OVal VNull.
Proof. exact arith_null_l. Qed.

(* ... and no expression panics *)
Theorem arith_never_panics : forall e, wf e = true ->
  eval e <> OPanic /\ eval e <> OFuel /\ eval e <> OUnmod /\ eval e <> OErr.
Proof. exact arith_never_panics_l. Qed.

(* outside the one remaining class (exact e = XOver) what SELECT shows satisfies the property *)
Theorem arith_class0_ok : forall e, wf e = true -> arith_class e = 0 ->
  obs_ok (exact e) (to_sql (eval e)) = true.
Proof. exact arith_class0_ok_l. Qed.

Theorem div_zero_null : forall a, in_i64 a = true ->
  eval_bin Div (VInt a) (VInt 0) = ONone /\ eval_bin Rem (VInt a) (VInt 0) = ONone.
Proof. exact div_zero_null_l. Qed.

(* F-C20-1 as it stands on the repaired code - the property does NOT hold in general: where some step's
   exact result is not an i64 the property demands an ERROR; the evaluator (eval_value returns Option, no
   error channel) shows NULL.  Exactly that, for every such expression: *)
Theorem arith_overflow_shows_null : forall e, wf e = true -> arith_class e = 1 ->
  exact e = XOver /\ to_sql (eval e) = OVal VNull /\ obs_ok (exact e) (to_sql (eval e)) = false.
Proof. exact arith_overflow_shows_null_l. Qed.

(* witnesses: i64::MAX + 1, i64::MIN / -1, -(i64::MIN), 2 ^ 64 give None (NULL; they panicked before d9dc553);
   historical F-C20-1 panic i64::MIN % -1 is now 0; historical F-C20-2 (exponent cut to 32 bits):
   0 ^ 4294967296 = 0, (-1) ^ 4294967297 = -1, 2 ^ 4294967297 is not representable *)
Theorem arith_witnesses :
  wf (EBin Add (ELit i64_max) (ELit 1)) = true /\ arith_class (EBin Add (ELit i64_max) (ELit 1)) = 1 /\
  eval (EBin Add (ELit i64_max) (ELit 1)) = ONone /\
  eval lit_min = OVal (VInt i64_min) /\
  eval (EBin Div lit_min (EUn Neg (ELit 1))) = ONone /\ exact (EBin Div lit_min (EUn Neg (ELit 1))) = XOver /\
  eval (EUn Neg lit_min) = ONone /\ eval (EBin Pow (ELit 2) (ELit 64)) = ONone /\
  eval (EBin Rem lit_min (EUn Neg (ELit 1))) = OVal (VInt 0) /\
  eval (EBin Pow (ELit 0) (ELit 4294967296)) = OVal (VInt 0) /\ exact (EBin Pow (ELit 0) (ELit 4294967296)) = XInt 0 /\
  eval (EBin Pow (EUn Neg (ELit 1)) (ELit 4294967297)) = OVal (VInt (-1)) /\
  eval (EBin Pow (ELit 2) (ELit 4294967297)) = ONone /\ exact (EBin Pow (ELit 2) (ELit 4294967297)) = XOver.
Proof. exact arith_witnesses_l. Qed.

(* ---------------------------------------------------------------- numeric functions on integers *)
Theorem unary_fn_correct : forall n, in_i64 n = true ->
  (n <> i64_min -> eval_nfn FAbs [VInt n] = OVal (VInt (Z.abs n))) /\
  eval_nfn FSign [VInt n] = OVal (VInt (Z.sgn n)) /\
  eval_nfn FCeil [VInt n] = OVal (VInt n) /\ eval_nfn FFloor [VInt n] = OVal (VInt n) /\
  eval_nfn FRound [VInt n] = OVal (VInt n) /\ eval_nfn FTrunc [VInt n] = OVal (VInt n) /\
  (forall d, 0 <= d -> in_i64 d = true ->
     eval_nfn FRound [VInt n; VInt d] = OVal (VInt n) /\ eval_nfn FTrunc [VInt n; VInt d] = OVal (VInt n)).
Proof. exact unary_fn_correct_l. Qed.

(* MOD and DIV: exact on every pair of i64 (MOD no longer goes through f64) *)
Theorem mod_div_correct : forall a b, in_i64 a = true -> in_i64 b = true ->
  (b = 0 -> eval_nfn FMod [VInt a; VInt b] = OVal VNull /\ eval_nfn FDivI [VInt a; VInt b] = OVal VNull) /\
  (b <> 0 -> eval_nfn FMod [VInt a; VInt b] = OVal (VInt (Z.rem a b))) /\
  (b <> 0 -> ~ (a = i64_min /\ b = -1) -> eval_nfn FDivI [VInt a; VInt b] = OVal (VInt (Z.quot a b))).
Proof. exact mod_div_correct_l. Qed.

Theorem greatest_least_correct : forall n t, in_i64 n = true ->
  Forall (fun v => exists k, v = VInt k /\ in_i64 k = true) t ->
  eval_nfn FGreatest (VInt n :: t) = OVal (VInt (fold_left Z.max (ints_of t) n)) /\
  eval_nfn FLeast (VInt n :: t) = OVal (VInt (fold_left Z.min (ints_of t) n)).
Proof. exact greatest_least_correct_l. Qed.

Theorem fn_null :
  eval_nfn FAbs [VNull] = OVal VNull /\ eval_nfn FSign [VNull] = OVal VNull /\ eval_nfn FCeil [VNull] = OVal VNull /\
  eval_nfn FFloor [VNull] = OVal VNull /\
  (forall v, to_sql (eval_nfn FMod [VNull; v]) = OVal VNull \/ eval_nfn FMod [VNull; v] = OUnmod) /\
  to_sql (eval_nfn FRound [VNull]) = OVal VNull /\ to_sql (eval_nfn FTrunc [VNull]) = OVal VNull.
Proof. exact fn_null_l. Qed.

(* ABS(i64::MIN) and DIV(i64::MIN, -1): None (NULL) where an error is required (class 1; they panicked);
   historical F-C20-3: ROUND / MOD on integers beyond 2^53 are exact now *)
Theorem fn_witnesses :
  eval_nfn FAbs [VInt i64_min] = ONone /\ fn_exact FAbs [VInt i64_min] = XOver /\ nfn_class FAbs [VInt i64_min] = 1 /\
  eval_nfn FDivI [VInt i64_min; VInt (-1)] = ONone /\ fn_exact FDivI [VInt i64_min; VInt (-1)] = XOver /\
  eval_nfn FRound [VInt 9007199254740993] = OVal (VInt 9007199254740993) /\
  eval_nfn FMod [VInt 9007199254740993; VInt 2] = OVal (VInt 1) /\ fn_exact FMod [VInt 9007199254740993; VInt 2] = XInt 1 /\
  nfn_class FRound [VInt 9007199254740993] = 0.
Proof. exact fn_witnesses_l. Qed.

(* ---------------------------------------------------------------- UTF-8 *)
(* encode / decode are inverse bijections between lists of Unicode scalar values and the byte strings
   the decoder accepts (= the byte strings a Rust `str` can hold) *)
Theorem utf8_roundtrip : forall cps, cps_ok cps = true -> decode_utf8 (encode_utf8 cps) = Some cps.
Proof. exact decode_encode_l. Qed.

Theorem utf8_decode_valid : forall b cps, decode_utf8 b = Some cps -> encode_utf8 cps = b /\ cps_ok cps = true.
Proof. exact decode_valid_l. Qed.

Theorem utf8_encode_bytes : forall cps, cps_ok cps = true -> bytes_ok (encode_utf8 cps) = true.
Proof. exact encode_bytes_l. Qed.

(* self-synchronisation: searching the bytes of an encoded needle in the bytes of an encoded haystack finds
   the first CHARACTER-level occurrence, at the byte offset of the characters before it *)
Theorem utf8_find_self_sync : forall n h i, cps_ok n = true -> cps_ok h = true ->
  find_from (encode_utf8 n) (encode_utf8 h) i =
  option_map (fun pre => i + blen (encode_utf8 pre)) (find_pre n h).
Proof. exact find_bytes_chars. Qed.

(* bytewise comparison of encodings orders them like the code point lists (Rust's Ord for str) *)
Theorem utf8_byte_order : forall a b, cps_ok a = true -> cps_ok b = true ->
  cmp_lex (encode_utf8 a) (encode_utf8 b) = cmp_lex a b.
Proof. exact cmp_lex_encode. Qed.

(* ---------------------------------------------------------------- string functions, every valid UTF-8 input *)
Theorem char_length_counts_chars : forall cs, cps_ok cs = true ->
  eval_sfn SCharLength [VText (encode_utf8 cs)] = OVal (VInt (zlen cs)).
Proof. exact char_length_l. Qed.

(* LENGTH is documented as the byte length: it equals the character count exactly on ASCII *)
Theorem length_counts_bytes : forall cs, cps_ok cs = true ->
  eval_sfn SLength [VText (encode_utf8 cs)] = OVal (VInt (blen (encode_utf8 cs))) /\
  zlen cs <= blen (encode_utf8 cs) /\
  (blen (encode_utf8 cs) = zlen cs <-> is_ascii cs = true).
Proof. exact length_bytes_l. Qed.

Theorem slicing_on_chars : forall cs n, cps_ok cs = true ->
  eval_sfn SLeft [VText (encode_utf8 cs); VInt n] = OVal (VText (encode_utf8 (if n <? 0 then [] else take_z n cs))) /\
  eval_sfn SRight [VText (encode_utf8 cs); VInt n] =
    OVal (VText (encode_utf8 (if n <? 0 then [] else skip_z (zlen cs - Z.min n (zlen cs)) cs))) /\
  eval_sfn SReverse [VText (encode_utf8 cs)] = OVal (VText (encode_utf8 (rev cs))).
Proof. exact slicing_l. Qed.

Theorem substr_on_chars : forall cs pos len, cps_ok cs = true ->
  eval_sfn SSubstr [VText (encode_utf8 cs); VInt pos; VInt len] =
    OVal (VText (encode_utf8 (
      if pos =? 0 then [] else
      let start := if 0 <? pos then pos - 1 else Z.max 0 (zlen cs + pos) in
      if len <? 0 then [] else take_z len (skip_z start cs)))) /\
  eval_sfn SSubstr [VText (encode_utf8 cs); VInt pos] =
    OVal (VText (encode_utf8 (
      if pos =? 0 then [] else skip_z (if 0 <? pos then pos - 1 else Z.max 0 (zlen cs + pos)) cs))).
Proof. exact substr_l. Qed.

Theorem substr_spec_ok : forall cs pos len, cps_ok cs = true ->
  str_obs_ok (str_exact SSubstr [VText (encode_utf8 cs); VInt pos; VInt len])
             (eval_sfn SSubstr [VText (encode_utf8 cs); VInt pos; VInt len]) = true /\
  str_obs_ok (str_exact SSubstr [VText (encode_utf8 cs); VInt pos])
             (eval_sfn SSubstr [VText (encode_utf8 cs); VInt pos]) = true.
Proof. exact substr_spec_ok_l. Qed.

(* INSTR converts the byte offset of str::find by slicing and counting: the slice always ends on a character
   boundary (no panic) and the answer is the CHARACTER position, for every valid UTF-8 input (F-C20-4 repaired) *)
Theorem instr_on_chars : forall h n, cps_ok h = true -> cps_ok n = true ->
  eval_sfn SInstr [VText (encode_utf8 h); VText (encode_utf8 n)] =
    OVal (VInt (match find_pre n h with Some pre => zlen pre + 1 | None => 0 end)).
Proof. exact instr_l. Qed.

Theorem instr_spec_ok : forall h n, cps_ok h = true -> cps_ok n = true ->
  str_obs_ok (str_exact SInstr [VText (encode_utf8 h); VText (encode_utf8 n)])
             (eval_sfn SInstr [VText (encode_utf8 h); VText (encode_utf8 n)]) = true.
Proof. exact instr_spec_ok_l. Qed.

(* LOCATE converts the byte offset back by slicing and counting: the slice always ends on a character
   boundary (no panic) and the answer is the character position *)
Theorem locate_on_chars : forall n h start, cps_ok n = true -> cps_ok h = true ->
  eval_sfn SLocate [VText (encode_utf8 n); VText (encode_utf8 h); VInt start] =
    OVal (VInt (if start <? 1 then 0 else if zlen h <=? start - 1 then 0
                else match find_pre n (skip_z (start - 1) h) with Some pre => zlen pre + start | None => 0 end)) /\
  eval_sfn SLocate [VText (encode_utf8 n); VText (encode_utf8 h)] =
    OVal (VInt (if zlen h <=? 0 then 0 else match find_pre n h with Some pre => zlen pre + 1 | None => 0 end)).
Proof. exact locate_l. Qed.

Theorem locate_spec_ok : forall n h start, cps_ok n = true -> cps_ok h = true ->
  str_obs_ok (str_exact SLocate [VText (encode_utf8 n); VText (encode_utf8 h); VInt start])
             (eval_sfn SLocate [VText (encode_utf8 n); VText (encode_utf8 h); VInt start]) = true /\
  str_obs_ok (str_exact SLocate [VText (encode_utf8 n); VText (encode_utf8 h)])
             (eval_sfn SLocate [VText (encode_utf8 n); VText (encode_utf8 h)]) = true.
Proof. exact locate_spec_ok_l. Qed.

(* LPAD / RPAD cut or fill to exactly n characters *)
Theorem pad_on_chars : forall cs pcs n, cps_ok cs = true -> cps_ok pcs = true -> 0 <= n <= max_model ->
  (n <= zlen cs ->
     eval_sfn SLpad [VText (encode_utf8 cs); VInt n; VText (encode_utf8 pcs)] = OVal (VText (encode_utf8 (take_z n cs))) /\
     eval_sfn SRpad [VText (encode_utf8 cs); VInt n; VText (encode_utf8 pcs)] = OVal (VText (encode_utf8 (take_z n cs)))) /\
  (zlen cs < n -> pcs <> [] ->
     eval_sfn SLpad [VText (encode_utf8 cs); VInt n; VText (encode_utf8 pcs)] =
       OVal (VText (encode_utf8 (cycle pcs (n - zlen cs) ++ cs))) /\
     eval_sfn SRpad [VText (encode_utf8 cs); VInt n; VText (encode_utf8 pcs)] =
       OVal (VText (encode_utf8 (cs ++ cycle pcs (n - zlen cs)))) /\
     zlen (cycle pcs (n - zlen cs) ++ cs) = n /\ zlen (cs ++ cycle pcs (n - zlen cs)) = n).
Proof. exact pad_l. Qed.

Theorem pad_negative_null : forall s p n, n < 0 ->
  eval_sfn SLpad [VText s; VInt n; VText p] = OVal VNull /\ eval_sfn SRpad [VText s; VInt n; VText p] = OVal VNull.
Proof. exact pad_negative_l. Qed.

Theorem trim_on_chars : forall cs, cps_ok cs = true ->
  eval_sfn STrim [VText (encode_utf8 cs)] = OVal (VText (encode_utf8 (trim_by is_ws cs))) /\
  eval_sfn SLtrim [VText (encode_utf8 cs)] = OVal (VText (encode_utf8 (trim_start_by is_ws cs))) /\
  eval_sfn SRtrim [VText (encode_utf8 cs)] = OVal (VText (encode_utf8 (trim_end_by is_ws cs))).
Proof. exact trim_l. Qed.

Theorem case_ascii : forall cs, is_ascii cs = true ->
  eval_sfn SUpper [VText (encode_utf8 cs)] = OVal (VText (map ascii_up cs)) /\
  eval_sfn SLower [VText (encode_utf8 cs)] = OVal (VText (map ascii_low cs)).
Proof. exact case_ascii_l. Qed.

Theorem concat_correct : forall a b, eval_sfn SConcat [VText (encode_utf8 a); VText (encode_utf8 b)] = OVal (VText (encode_utf8 (a ++ b))) /\
  eval_sfn SConcat [VText (encode_utf8 a); VNull] = OVal VNull /\ eval_sfn SConcat [VNull; VText (encode_utf8 b)] = OVal VNull.
Proof. exact concat_l. Qed.

Theorem strcmp_code_point_order : forall a b, cps_ok a = true -> cps_ok b = true ->
  eval_sfn SStrcmp [VText (encode_utf8 a); VText (encode_utf8 b)] = OVal (VInt (cmp_lex a b)).
Proof. exact strcmp_l. Qed.

Theorem str_null_in_null_out : forall s n p,
  to_sql (eval_sfn SLength [VNull]) = OVal VNull /\ to_sql (eval_sfn SCharLength [VNull]) = OVal VNull /\
  to_sql (eval_sfn SReverse [VNull]) = OVal VNull /\ to_sql (eval_sfn SUpper [VNull]) = OVal VNull /\
  to_sql (eval_sfn SLeft [VNull; VInt n]) = OVal VNull /\ to_sql (eval_sfn SLeft [VText s; VNull]) = OVal VNull /\
  to_sql (eval_sfn SRight [VNull; VInt n]) = OVal VNull /\ to_sql (eval_sfn SRight [VText s; VNull]) = OVal VNull /\
  to_sql (eval_sfn SSubstr [VNull; VInt n]) = OVal VNull /\ to_sql (eval_sfn SSubstr [VText s; VNull]) = OVal VNull /\
  to_sql (eval_sfn SInstr [VNull; VText p]) = OVal VNull /\ to_sql (eval_sfn SInstr [VText s; VNull]) = OVal VNull /\
  to_sql (eval_sfn SLocate [VNull; VText p]) = OVal VNull /\ to_sql (eval_sfn SLocate [VText s; VNull]) = OVal VNull /\
  to_sql (eval_sfn SLpad [VNull; VInt n; VText p]) = OVal VNull /\ to_sql (eval_sfn SLpad [VText s; VNull; VText p]) = OVal VNull /\
  to_sql (eval_sfn SLpad [VText s; VInt n; VNull]) = OVal VNull /\ to_sql (eval_sfn SRpad [VText s; VInt n; VNull]) = OVal VNull /\
  to_sql (eval_sfn SRepeat [VNull; VInt n]) = OVal VNull /\ to_sql (eval_sfn SRepeat [VText s; VNull]) = OVal VNull /\
  to_sql (eval_sfn STrim [VNull]) = OVal VNull /\ to_sql (eval_sfn SStrcmp [VText s; VNull]) = OVal VNull /\
  to_sql (eval_sfn SSubstr [VText s; VInt n; VNull]) = OVal VNull /\ to_sql (eval_sfn SLocate [VText p; VText s; VNull]) = OVal VNull.
Proof. exact str_null_l. Qed.

(* historical findings F-C20-4 .. F-C20-7, repaired: INSTR('ea' with e-acute, 'a') = 2 (was 3); SUBSTR('abc', i64::MIN) = 'abc'
   (panicked); LPAD / RPAD('a', -1, 'x') = NULL (panic / endless loop); SUBSTR('abc', 2, NULL) = NULL (was 'bc') *)
Theorem str_witnesses :
  eval_sfn SInstr [VText [195; 169; 97]; VText [97]] = OVal (VInt 2) /\
  str_exact SInstr [VText [195; 169; 97]; VText [97]] = SInt 2 /\
  eval_sfn SSubstr [VText [97; 98; 99]; VInt i64_min] = OVal (VText [97; 98; 99]) /\
  eval_sfn SLpad [VText [97]; VInt (-1); VText [120]] = OVal VNull /\ eval_sfn SRpad [VText [97]; VInt (-1); VText [120]] = OVal VNull /\
  eval_sfn SSubstr [VText [97; 98; 99]; VInt 2; VNull] = ONone /\
  str_exact SSubstr [VText [97; 98; 99]; VInt 2; VNull] = SNull.
Proof. exact str_witnesses_l. Qed.

(* ---------------------------------------------------------------- date functions, every date of the years 1..9999 *)
Theorem date_fields : forall y m d, real_date y m d = true ->
  eval_dfn DYear [DDate y m d] = OVal (VInt y) /\ eval_dfn DMonth [DDate y m d] = OVal (VInt m) /\
  eval_dfn DDay [DDate y m d] = OVal (VInt d).
Proof. exact date_fields_l. Qed.

(* DAYOFWEEK (1 = Sunday), DAYOFYEAR, TO_DAYS, LAST_DAY follow the proleptic Gregorian calendar *)
Theorem date_calendar : forall y m d, real_date y m d = true ->
  eval_dfn DDayOfWeek [DDate y m d] = OVal (VInt (weekday y m d + 1)) /\
  eval_dfn DDayOfYear [DDate y m d] = OVal (VInt (ordinal_day y m d)) /\
  eval_dfn DToDays [DDate y m d] = OVal (VInt (rata_die y m d + 1)) /\
  eval_dfn DLastDay [DDate y m d] = OVal (VText (fmt_date y m (dim y m))).
Proof. exact date_calendar_l. Qed.

Theorem datediff_correct : forall y1 m1 d1 y2 m2 d2, real_date y1 m1 d1 = true -> real_date y2 m2 d2 = true ->
  eval_dfn DDateDiff [DDate y1 m1 d1; DDate y2 m2 d2] = OVal (VInt (rata_die y1 m1 d1 - rata_die y2 m2 d2)).
Proof. exact datediff_l. Qed.

(* adding (subtracting) the number of days that separates two dates of the calendar to the first yields the second *)
Theorem date_add_correct : forall y m d y' m' d', real_date y m d = true -> real_date y' m' d' = true ->
  eval_dfn DDateAdd [DDate y m d; DNum (rata_die y' m' d' - rata_die y m d)] = OVal (VText (fmt_date y' m' d')) /\
  eval_dfn DDateSub [DDate y m d; DNum (rata_die y m d - rata_die y' m' d')] = OVal (VText (fmt_date y' m' d')).
Proof. exact date_add_l. Qed.

Theorem from_days_inverts_to_days : forall y m d, real_date y m d = true ->
  eval_dfn DFromDays [DNum (rata_die y m d + 1)] = OVal (VText (fmt_date y m d)).
Proof. exact from_days_to_days_l. Qed.

Theorem date_null_in_null_out : forall f rest, to_sql (eval_dfn f (DNullA :: rest)) = OVal VNull.
Proof. exact date_null_l. Qed.

(* results outside 0001-01-01 .. 9999-12-31 are NULL whatever the day count: no panic (F-C20-8 repaired) *)
Theorem date_out_of_range_null : forall y m d k n, fields_ok y m d = true ->
  (in_i64 (CalFunc.date_to_days y m d + k) && day_number_ok (CalFunc.date_to_days y m d + k) = false ->
     eval_dfn DDateAdd [DDate y m d; DNum k] = OVal VNull) /\
  (in_i64 (CalFunc.date_to_days y m d - k) && day_number_ok (CalFunc.date_to_days y m d - k) = false ->
     eval_dfn DDateSub [DDate y m d; DNum k] = OVal VNull) /\
  (day_number_ok n = false -> eval_dfn DFromDays [DNum n] = OVal VNull).
Proof. exact date_out_of_range_null_l. Qed.

Theorem date_witnesses :
  eval_dfn DDateAdd [DDate 2024 1 1; DNum i64_max] = OVal VNull /\
  eval_dfn DFromDays [DNum i64_max] = OVal VNull /\ eval_dfn DFromDays [DNum 92233720368547758] = OVal VNull /\
  eval_dfn DDateSub [DDate 2024 1 1; DNum 92233720368547758] = OVal VNull /\
  eval_dfn DFromDays [DNum 0] = OVal VNull /\ eval_dfn DFromDays [DNum 3652060] = OVal VNull /\
  eval_dfn DFromDays [DNum 3652059] = OVal (VText (fmt_date 9999 12 31)) /\ eval_dfn DFromDays [DNum 1] = OVal (VText (fmt_date 1 1 1)).
Proof. exact date_witnesses_l. Qed.

(* ---------------------------------------------------------------- CAST *)
(* the decimal text of every i64 parses back to it: CAST(CAST(n AS TEXT) AS INTEGER) = n *)
Theorem cast_roundtrip : forall n, in_i64 n = true -> parse_i64 (to_string_i64 n) = Some n.
Proof. exact cast_roundtrip_l. Qed.

Theorem cast_correct : forall n, in_i64 n = true ->
  eval_cast KInt (VInt n) = OVal (VInt n) /\ eval_cast KText (VInt n) = OVal (VText (to_string_i64 n)) /\
  eval_cast KInt (VText (to_string_i64 n)) = OVal (VInt n) /\ eval_cast KIntOfText (VInt n) = OVal (VInt n) /\
  eval_cast KBool (VInt n) = OVal (VInt (if n =? 0 then 0 else 1)) /\
  eval_cast KInt VNull = OVal VNull /\ eval_cast KText VNull = OVal VNull /\ eval_cast KBool VNull = OVal VNull.
Proof. exact cast_l. Qed.

(* non-vacuity: hypotheses are met by non-trivial inputs, every kind of outcome occurs *)
Example c20_arith_witness :
  let e := EBin Add (EBin Mul (ELit 3037000499) (ELit 3037000499)) (EUn Neg (EBin Pow (ELit 2) (ELit 62))) in
  wf e = true /\ arith_class e = 0 /\ exact e = XInt 4611686012498861097 /\ eval e = OVal (VInt 4611686012498861097) /\
  wf lit_min = true /\ exact lit_min = XInt i64_min /\
  arith_class (EBin Div (ELit 7) (EBin Sub (ELit 1) (ELit 1))) = 0 /\ exact (EBin Div (ELit 7) (EBin Sub (ELit 1) (ELit 1))) = XDivZ /\
  exact (EBin Add ENull (ELit 1)) = XNullP /\ arith_class (EBin Add ENull (ELit 1)) = 0 /\
  exact (EBin Pow (EUn Neg (ELit 2)) (ELit 63)) = XInt i64_min /\ eval (EBin Pow (EUn Neg (ELit 2)) (ELit 63)) = OVal (VInt i64_min) /\
  arith_class (EBin Add (ELit i64_max) (ELit 1)) = 1.
Proof. vm_compute. repeat split. Qed.

(* 'h e-acute l l o' + combining acute + U+1D11E: 7 characters, 12 bytes; LEFT 2 = 'h e-acute'; INSTR / LOCATE of 'l' = 3 *)
Example c20_str_witness :
  let cs := [104; 233; 108; 108; 111; 769; 119070] in
  cps_ok cs = true /\ encode_utf8 cs = [104; 195; 169; 108; 108; 111; 204; 129; 240; 157; 132; 158] /\
  eval_sfn SCharLength [VText (encode_utf8 cs)] = OVal (VInt 7) /\ eval_sfn SLength [VText (encode_utf8 cs)] = OVal (VInt 12) /\
  eval_sfn SLeft [VText (encode_utf8 cs); VInt 2] = OVal (VText [104; 195; 169]) /\
  eval_sfn SInstr [VText (encode_utf8 cs); VText [108]] = OVal (VInt 3) /\
  eval_sfn SLocate [VText [108]; VText (encode_utf8 cs)] = OVal (VInt 3) /\
  decode_utf8 [192; 128] = None /\ decode_utf8 [237; 160; 128] = None /\ decode_utf8 [244; 144; 128; 128] = None /\ decode_utf8 [226; 130] = None.
Proof. vm_compute. repeat split. Qed.

Example c20_cast_witness :
  to_string_i64 (-9223372036854775808) = [45; 57; 50; 50; 51; 51; 55; 50; 48; 51; 54; 56; 53; 52; 55; 55; 53; 56; 48; 56] /\
  parse_i64 [43; 49; 50] = Some 12 /\ parse_i64 [32; 49; 50] = None /\ parse_i64 [45] = None /\
  parse_i64 [57; 50; 50; 51; 51; 55; 50; 48; 51; 54; 56; 53; 52; 55; 55; 53; 56; 48; 56] = None /\
  cmp_lex [233] [122] = 1 /\ cmp_lex (encode_utf8 [233]) (encode_utf8 [122]) = 1 /\ cmp_lex [97] [97; 0] = -1.
Proof. vm_compute. repeat split. Qed.

Example c20_date_witness :
  real_date 2024 2 29 = true /\ real_date 2023 2 29 = false /\ real_date 9999 12 31 = true /\
  eval_dfn DDateAdd [DDate 2024 2 28; DNum 2] = OVal (VText (fmt_date 2024 3 1)) /\
  rata_die 2024 3 1 - rata_die 2024 2 28 = 2 /\
  eval_dfn DDayOfWeek [DDate 2024 2 29] = OVal (VInt 5) /\ eval_dfn DLastDay [DDate 1900 2 1] = OVal (VText (fmt_date 1900 2 28)).
Proof. vm_compute. repeat split. Qed.

Check arith_in_range_correct : forall e z, wf e = true -> exact e = XInt z -> eval e = OVal (VInt z).
Check arith_null : forall e, wf e = true -> (exact e = XNullP \/ exact e = XDivZ \/ exact e = XAny) -> to_sql (eval e) = OVal VNull.
Check arith_never_panics : forall e, wf e = true -> eval e <> OPanic /\ eval e <> OFuel /\ eval e <> OUnmod /\ eval e <> OErr.
Check arith_class0_ok : forall e, wf e = true -> arith_class e = 0 -> obs_ok (exact e) (to_sql (eval e)) = true.
Check div_zero_null : forall a, in_i64 a = true -> eval_bin Div (VInt a) (VInt 0) = ONone /\ eval_bin Rem (VInt a) (VInt 0) = ONone.
Check arith_overflow_shows_null : forall e, wf e = true -> arith_class e = 1 -> exact e = XOver /\ to_sql (eval e) = OVal VNull /\ obs_ok (exact e) (to_sql (eval e)) = false.
Check arith_witnesses : wf (EBin Add (ELit i64_max) (ELit 1)) = true /\ arith_class (EBin Add (ELit i64_max) (ELit 1)) = 1 /\ eval (EBin Add (ELit i64_max) (ELit 1)) = ONone /\ eval lit_min = OVal (VInt i64_min) /\ eval (EBin Div lit_min (EUn Neg (ELit 1))) = ONone /\ exact (EBin Div lit_min (EUn Neg (ELit 1))) = XOver /\ eval (EUn Neg lit_min) = ONone /\ eval (EBin Pow (ELit 2) (ELit 64)) = ONone /\ eval (EBin Rem lit_min (EUn Neg (ELit 1))) = OVal (VInt 0) /\ eval (EBin Pow (ELit 0) (ELit 4294967296)) = OVal (VInt 0) /\ exact (EBin Pow (ELit 0) (ELit 4294967296)) = XInt 0 /\ eval (EBin Pow (EUn Neg (ELit 1)) (ELit 4294967297)) = OVal (VInt (-1)) /\ eval (EBin Pow (ELit 2) (ELit 4294967297)) = ONone /\ exact (EBin Pow (ELit 2) (ELit 4294967297)) = XOver.
Check unary_fn_correct : forall n, in_i64 n = true -> (n <> i64_min -> eval_nfn FAbs [VInt n] = OVal (VInt (Z.abs n))) /\ eval_nfn FSign [VInt n] = OVal (VInt (Z.sgn n)) /\ eval_nfn FCeil [VInt n] = OVal (VInt n) /\ eval_nfn FFloor [VInt n] = OVal (VInt n) /\ eval_nfn FRound [VInt n] = OVal (VInt n) /\ eval_nfn FTrunc [VInt n] = OVal (VInt n) /\ (forall d, 0 <= d -> in_i64 d = true -> eval_nfn FRound [VInt n; VInt d] = OVal (VInt n) /\ eval_nfn FTrunc [VInt n; VInt d] = OVal (VInt n)).
Check mod_div_correct : forall a b, in_i64 a = true -> in_i64 b = true -> (b = 0 -> eval_nfn FMod [VInt a; VInt b] = OVal VNull /\ eval_nfn FDivI [VInt a; VInt b] = OVal VNull) /\ (b <> 0 -> eval_nfn FMod [VInt a; VInt b] = OVal (VInt (Z.rem a b))) /\ (b <> 0 -> ~ (a = i64_min /\ b = -1) -> eval_nfn FDivI [VInt a; VInt b] = OVal (VInt (Z.quot a b))).
Check greatest_least_correct : forall n t, in_i64 n = true -> Forall (fun v => exists k, v = VInt k /\ in_i64 k = true) t -> eval_nfn FGreatest (VInt n :: t) = OVal (VInt (fold_left Z.max (ints_of t) n)) /\ eval_nfn FLeast (VInt n :: t) = OVal (VInt (fold_left Z.min (ints_of t) n)).
Check fn_null : eval_nfn FAbs [VNull] = OVal VNull /\ eval_nfn FSign [VNull] = OVal VNull /\ eval_nfn FCeil [VNull] = OVal VNull /\ eval_nfn FFloor [VNull] = OVal VNull /\ (forall v, to_sql (eval_nfn FMod [VNull; v]) = OVal VNull \/ eval_nfn FMod [VNull; v] = OUnmod) /\ to_sql (eval_nfn FRound [VNull]) = OVal VNull /\ to_sql (eval_nfn FTrunc [VNull]) = OVal VNull.
Check fn_witnesses : eval_nfn FAbs [VInt i64_min] = ONone /\ fn_exact FAbs [VInt i64_min] = XOver /\ nfn_class FAbs [VInt i64_min] = 1 /\ eval_nfn FDivI [VInt i64_min; VInt (-1)] = ONone /\ fn_exact FDivI [VInt i64_min; VInt (-1)] = XOver /\ eval_nfn FRound [VInt 9007199254740993] = OVal (VInt 9007199254740993) /\ eval_nfn FMod [VInt 9007199254740993; VInt 2] = OVal (VInt 1) /\ fn_exact FMod [VInt 9007199254740993; VInt 2] = XInt 1 /\ nfn_class FRound [VInt 9007199254740993] = 0.
Check utf8_roundtrip : forall cps, cps_ok cps = true -> decode_utf8 (encode_utf8 cps) = Some cps.
Check utf8_decode_valid : forall b cps, decode_utf8 b = Some cps -> encode_utf8 cps = b /\ cps_ok cps = true.
Check utf8_encode_bytes : forall cps, cps_ok cps = true -> bytes_ok (encode_utf8 cps) = true.
Check utf8_find_self_sync : forall n h i, cps_ok n = true -> cps_ok h = true -> find_from (encode_utf8 n) (encode_utf8 h) i = option_map (fun pre => i + blen (encode_utf8 pre)) (find_pre n h).
Check utf8_byte_order : forall a b, cps_ok a = true -> cps_ok b = true -> cmp_lex (encode_utf8 a) (encode_utf8 b) = cmp_lex a b.
Check char_length_counts_chars : forall cs, cps_ok cs = true -> eval_sfn SCharLength [VText (encode_utf8 cs)] = OVal (VInt (zlen cs)).
Check length_counts_bytes : forall cs, cps_ok cs = true -> eval_sfn SLength [VText (encode_utf8 cs)] = OVal (VInt (blen (encode_utf8 cs))) /\ zlen cs <= blen (encode_utf8 cs) /\ (blen (encode_utf8 cs) = zlen cs <-> is_ascii cs = true).
Check slicing_on_chars : forall cs n, cps_ok cs = true -> eval_sfn SLeft [VText (encode_utf8 cs); VInt n] = OVal (VText (encode_utf8 (if n <? 0 then [] else take_z n cs))) /\ eval_sfn SRight [VText (encode_utf8 cs); VInt n] = OVal (VText (encode_utf8 (if n <? 0 then [] else skip_z (zlen cs - Z.min n (zlen cs)) cs))) /\ eval_sfn SReverse [VText (encode_utf8 cs)] = OVal (VText (encode_utf8 (rev cs))).
Check substr_on_chars : forall cs pos len, cps_ok cs = true -> eval_sfn SSubstr [VText (encode_utf8 cs); VInt pos; VInt len] = OVal (VText (encode_utf8 ( if pos =? 0 then [] else let start := if 0 <? pos then pos - 1 else Z.max 0 (zlen cs + pos) in if len <? 0 then [] else take_z len (skip_z start cs)))) /\ eval_sfn SSubstr [VText (encode_utf8 cs); VInt pos] = OVal (VText (encode_utf8 ( if pos =? 0 then [] else skip_z (if 0 <? pos then pos - 1 else Z.max 0 (zlen cs + pos)) cs))).
Check substr_spec_ok : forall cs pos len, cps_ok cs = true -> str_obs_ok (str_exact SSubstr [VText (encode_utf8 cs); VInt pos; VInt len]) (eval_sfn SSubstr [VText (encode_utf8 cs); VInt pos; VInt len]) = true /\ str_obs_ok (str_exact SSubstr [VText (encode_utf8 cs); VInt pos]) (eval_sfn SSubstr [VText (encode_utf8 cs); VInt pos]) = true.
Check instr_on_chars : forall h n, cps_ok h = true -> cps_ok n = true -> eval_sfn SInstr [VText (encode_utf8 h); VText (encode_utf8 n)] = OVal (VInt (match find_pre n h with Some pre => zlen pre + 1 | None => 0 end)).
Check instr_spec_ok : forall h n, cps_ok h = true -> cps_ok n = true -> str_obs_ok (str_exact SInstr [VText (encode_utf8 h); VText (encode_utf8 n)]) (eval_sfn SInstr [VText (encode_utf8 h); VText (encode_utf8 n)]) = true.
Check locate_on_chars : forall n h start, cps_ok n = true -> cps_ok h = true -> eval_sfn SLocate [VText (encode_utf8 n); VText (encode_utf8 h); VInt start] = OVal (VInt (if start <? 1 then 0 else if zlen h <=? start - 1 then 0 else match find_pre n (skip_z (start - 1) h) with Some pre => zlen pre + start | None => 0 end)) /\ eval_sfn SLocate [VText (encode_utf8 n); VText (encode_utf8 h)] = OVal (VInt (if zlen h <=? 0 then 0 else match find_pre n h with Some pre => zlen pre + 1 | None => 0 end)).
Check locate_spec_ok : forall n h start, cps_ok n = true -> cps_ok h = true -> str_obs_ok (str_exact SLocate [VText (encode_utf8 n); VText (encode_utf8 h); VInt start]) (eval_sfn SLocate [VText (encode_utf8 n); VText (encode_utf8 h); VInt start]) = true /\ str_obs_ok (str_exact SLocate [VText (encode_utf8 n); VText (encode_utf8 h)]) (eval_sfn SLocate [VText (encode_utf8 n); VText (encode_utf8 h)]) = true.
Check pad_on_chars : forall cs pcs n, cps_ok cs = true -> cps_ok pcs = true -> 0 <= n <= max_model -> (n <= zlen cs -> eval_sfn SLpad [VText (encode_utf8 cs); VInt n; VText (encode_utf8 pcs)] = OVal (VText (encode_utf8 (take_z n cs))) /\ eval_sfn SRpad [VText (encode_utf8 cs); VInt n; VText (encode_utf8 pcs)] = OVal (VText (encode_utf8 (take_z n cs)))) /\ (zlen cs < n -> pcs <> [] -> eval_sfn SLpad [VText (encode_utf8 cs); VInt n; VText (encode_utf8 pcs)] = OVal (VText (encode_utf8 (cycle pcs (n - zlen cs) ++ cs))) /\ eval_sfn SRpad [VText (encode_utf8 cs); VInt n; VText (encode_utf8 pcs)] = OVal (VText (encode_utf8 (cs ++ cycle pcs (n - zlen cs)))) /\ zlen (cycle pcs (n - zlen cs) ++ cs) = n /\ zlen (cs ++ cycle pcs (n - zlen cs)) = n).
Check pad_negative_null : forall s p n, n < 0 -> eval_sfn SLpad [VText s; VInt n; VText p] = OVal VNull /\ eval_sfn SRpad [VText s; VInt n; VText p] = OVal VNull.
Check trim_on_chars : forall cs, cps_ok cs = true -> eval_sfn STrim [VText (encode_utf8 cs)] = OVal (VText (encode_utf8 (trim_by is_ws cs))) /\ eval_sfn SLtrim [VText (encode_utf8 cs)] = OVal (VText (encode_utf8 (trim_start_by is_ws cs))) /\ eval_sfn SRtrim [VText (encode_utf8 cs)] = OVal (VText (encode_utf8 (trim_end_by is_ws cs))).
Check case_ascii : forall cs, is_ascii cs = true -> eval_sfn SUpper [VText (encode_utf8 cs)] = OVal (VText (map ascii_up cs)) /\ eval_sfn SLower [VText (encode_utf8 cs)] = OVal (VText (map ascii_low cs)).
Check concat_correct : forall a b, eval_sfn SConcat [VText (encode_utf8 a); VText (encode_utf8 b)] = OVal (VText (encode_utf8 (a ++ b))) /\ eval_sfn SConcat [VText (encode_utf8 a); VNull] = OVal VNull /\ eval_sfn SConcat [VNull; VText (encode_utf8 b)] = OVal VNull.
Check strcmp_code_point_order : forall a b, cps_ok a = true -> cps_ok b = true -> eval_sfn SStrcmp [VText (encode_utf8 a); VText (encode_utf8 b)] = OVal (VInt (cmp_lex a b)).
Check str_null_in_null_out : forall s n p, to_sql (eval_sfn SLength [VNull]) = OVal VNull /\ to_sql (eval_sfn SCharLength [VNull]) = OVal VNull /\ to_sql (eval_sfn SReverse [VNull]) = OVal VNull /\ to_sql (eval_sfn SUpper [VNull]) = OVal VNull /\ to_sql (eval_sfn SLeft [VNull; VInt n]) = OVal VNull /\ to_sql (eval_sfn SLeft [VText s; VNull]) = OVal VNull /\ to_sql (eval_sfn SRight [VNull; VInt n]) = OVal VNull /\ to_sql (eval_sfn SRight [VText s; VNull]) = OVal VNull /\ to_sql (eval_sfn SSubstr [VNull; VInt n]) = OVal VNull /\ to_sql (eval_sfn SSubstr [VText s; VNull]) = OVal VNull /\ to_sql (eval_sfn SInstr [VNull; VText p]) = OVal VNull /\ to_sql (eval_sfn SInstr [VText s; VNull]) = OVal VNull /\ to_sql (eval_sfn SLocate [VNull; VText p]) = OVal VNull /\ to_sql (eval_sfn SLocate [VText s; VNull]) = OVal VNull /\ to_sql (eval_sfn SLpad [VNull; VInt n; VText p]) = OVal VNull /\ to_sql (eval_sfn SLpad [VText s; VNull; VText p]) = OVal VNull /\ to_sql (eval_sfn SLpad [VText s; VInt n; VNull]) = OVal VNull /\ to_sql (eval_sfn SRpad [VText s; VInt n; VNull]) = OVal VNull /\ to_sql (eval_sfn SRepeat [VNull; VInt n]) = OVal VNull /\ to_sql (eval_sfn SRepeat [VText s; VNull]) = OVal VNull /\ to_sql (eval_sfn STrim [VNull]) = OVal VNull /\ to_sql (eval_sfn SStrcmp [VText s; VNull]) = OVal VNull /\ to_sql (eval_sfn SSubstr [VText s; VInt n; VNull]) = OVal VNull /\ to_sql (eval_sfn SLocate [VText p; VText s; VNull]) = OVal VNull.
Check str_witnesses : eval_sfn SInstr [VText [195; 169; 97]; VText [97]] = OVal (VInt 2) /\ str_exact SInstr [VText [195; 169; 97]; VText [97]] = SInt 2 /\ eval_sfn SSubstr [VText [97; 98; 99]; VInt i64_min] = OVal (VText [97; 98; 99]) /\ eval_sfn SLpad [VText [97]; VInt (-1); VText [120]] = OVal VNull /\ eval_sfn SRpad [VText [97]; VInt (-1); VText [120]] = OVal VNull /\ eval_sfn SSubstr [VText [97; 98; 99]; VInt 2; VNull] = ONone /\ str_exact SSubstr [VText [97; 98; 99]; VInt 2; VNull] = SNull.
Check date_fields : forall y m d, real_date y m d = true -> eval_dfn DYear [DDate y m d] = OVal (VInt y) /\ eval_dfn DMonth [DDate y m d] = OVal (VInt m) /\ eval_dfn DDay [DDate y m d] = OVal (VInt d).
Check date_calendar : forall y m d, real_date y m d = true -> eval_dfn DDayOfWeek [DDate y m d] = OVal (VInt (weekday y m d + 1)) /\ eval_dfn DDayOfYear [DDate y m d] = OVal (VInt (ordinal_day y m d)) /\ eval_dfn DToDays [DDate y m d] = OVal (VInt (rata_die y m d + 1)) /\ eval_dfn DLastDay [DDate y m d] = OVal (VText (fmt_date y m (dim y m))).
Check datediff_correct : forall y1 m1 d1 y2 m2 d2, real_date y1 m1 d1 = true -> real_date y2 m2 d2 = true -> eval_dfn DDateDiff [DDate y1 m1 d1; DDate y2 m2 d2] = OVal (VInt (rata_die y1 m1 d1 - rata_die y2 m2 d2)).
Check date_add_correct : forall y m d y' m' d', real_date y m d = true -> real_date y' m' d' = true -> eval_dfn DDateAdd [DDate y m d; DNum (rata_die y' m' d' - rata_die y m d)] = OVal (VText (fmt_date y' m' d')) /\ eval_dfn DDateSub [DDate y m d; DNum (rata_die y m d - rata_die y' m' d')] = OVal (VText (fmt_date y' m' d')).
Check from_days_inverts_to_days : forall y m d, real_date y m d = true -> eval_dfn DFromDays [DNum (rata_die y m d + 1)] = OVal (VText (fmt_date y m d)).
Check date_null_in_null_out : forall f rest, to_sql (eval_dfn f (DNullA :: rest)) = OVal VNull.
Check date_out_of_range_null : forall y m d k n, fields_ok y m d = true -> (in_i64 (CalFunc.date_to_days y m d + k) && day_number_ok (CalFunc.date_to_days y m d + k) = false -> eval_dfn DDateAdd [DDate y m d; DNum k] = OVal VNull) /\ (in_i64 (CalFunc.date_to_days y m d - k) && day_number_ok (CalFunc.date_to_days y m d - k) = false -> eval_dfn DDateSub [DDate y m d; DNum k] = OVal VNull) /\ (day_number_ok n = false -> eval_dfn DFromDays [DNum n] = OVal VNull).
Check date_witnesses : eval_dfn DDateAdd [DDate 2024 1 1; DNum i64_max] = OVal VNull /\ eval_dfn DFromDays [DNum i64_max] = OVal VNull /\ eval_dfn DFromDays [DNum 92233720368547758] = OVal VNull /\ eval_dfn DDateSub [DDate 2024 1 1; DNum 92233720368547758] = OVal VNull /\ eval_dfn DFromDays [DNum 0] = OVal VNull /\ eval_dfn DFromDays [DNum 3652060] = OVal VNull /\ eval_dfn DFromDays [DNum 3652059] = OVal (VText (fmt_date 9999 12 31)) /\ eval_dfn DFromDays [DNum 1] = OVal (VText (fmt_date 1 1 1)).
Check cast_roundtrip : forall n, in_i64 n = true -> parse_i64 (to_string_i64 n) = Some n.
Check cast_correct : forall n, in_i64 n = true -> eval_cast KInt (VInt n) = OVal (VInt n) /\ eval_cast KText (VInt n) = OVal (VText (to_string_i64 n)) /\ eval_cast KInt (VText (to_string_i64 n)) = OVal (VInt n) /\ eval_cast KIntOfText (VInt n) = OVal (VInt n) /\ eval_cast KBool (VInt n) = OVal (VInt (if n =? 0 then 0 else 1)) /\ eval_cast KInt VNull = OVal VNull /\ eval_cast KText VNull = OVal VNull /\ eval_cast KBool VNull = OVal VNull.

Print Assumptions arith_in_range_correct.
Print Assumptions arith_null.
Print Assumptions arith_never_panics.
Print Assumptions arith_class0_ok.
Print Assumptions div_zero_null.
Print Assumptions arith_overflow_shows_null.
Print Assumptions arith_witnesses.
Print Assumptions unary_fn_correct.
Print Assumptions mod_div_correct.
Print Assumptions greatest_least_correct.
Print Assumptions fn_null.
Print Assumptions fn_witnesses.
Print Assumptions utf8_roundtrip.
Print Assumptions utf8_decode_valid.
Print Assumptions utf8_encode_bytes.
Print Assumptions utf8_find_self_sync.
Print Assumptions utf8_byte_order.
Print Assumptions char_length_counts_chars.
Print Assumptions length_counts_bytes.
Print Assumptions slicing_on_chars.
Print Assumptions substr_on_chars.
Print Assumptions substr_spec_ok.
Print Assumptions instr_on_chars.
Print Assumptions instr_spec_ok.
Print Assumptions locate_on_chars.
Print Assumptions locate_spec_ok.
Print Assumptions pad_on_chars.
Print Assumptions pad_negative_null.
Print Assumptions trim_on_chars.
Print Assumptions case_ascii.
Print Assumptions concat_correct.
Print Assumptions strcmp_code_point_order.
Print Assumptions str_null_in_null_out.
Print Assumptions str_witnesses.
Print Assumptions date_fields.
Print Assumptions date_calendar.
Print Assumptions datediff_correct.
Print Assumptions date_add_correct.
Print Assumptions from_days_inverts_to_days.
Print Assumptions date_null_in_null_out.
Print Assumptions date_out_of_range_null.
Print Assumptions date_witnesses.
Print Assumptions cast_roundtrip.
Print Assumptions cast_correct.
