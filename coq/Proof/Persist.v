(* C04 proofs, part 1: basic facts about the persistence model (Model/Persist.v):
   reflexivity of the observation equalities, what a statement reads (extensionality of
   `lstep`), when DELETE / UPDATE / a failed one-row INSERT leave the leaf unchanged, and
   monotonicity of the finding-class scanners. *)
From Coq Require Import ZArith List Bool Lia.
From TV Require Import Model.Persist.
Import ListNotations.
Open Scope Z_scope.

(* ------------------------------------------------------------------ upd *)
Lemma upd_same : forall A (f : Z -> A) t v, upd f t v t = v.
Proof. intros. unfold upd. now rewrite Z.eqb_refl. Qed.
Lemma upd_other : forall A (f : Z -> A) t v t', t' <> t -> upd f t v t' = f t'.
Proof. intros A f t v t' H. unfold upd. destruct (t' =? t) eqn:E; [apply Z.eqb_eq in E; contradiction | reflexivity]. Qed.
Lemma upd_ext : forall A (f g : Z -> A) t v, (forall x, f x = g x) -> forall x, upd f t v x = upd g t v x.
Proof. intros A f g t v H x. unfold upd. destruct (x =? t); [reflexivity | apply H]. Qed.

Lemma ltbl_eta : forall tb, mkT (t_kind tb) (t_rows tb) (t_count tb) (t_auto tb) (t_pk tb) = tb.
Proof. now destruct tb. Qed.

(* ------------------------------------------------------------------ reflexivity of the observation equalities *)
Lemma list_eqb_refl : forall A (eq : A -> A -> bool), (forall x, eq x x = true) -> forall l, list_eqb eq l l = true.
Proof. intros A eq H l. induction l as [|a l IH]; cbn; [reflexivity | now rewrite H, IH]. Qed.
Lemma cell_eqb_refl : forall x, cell_eqb x x = true.
Proof. intros [x|]; cbn; [apply Z.eqb_refl | reflexivity]. Qed.
Lemma crow_eqb_refl : forall x, crow_eqb x x = true.
Proof. apply list_eqb_refl, cell_eqb_refl. Qed.
Lemma rows_eqb_refl : forall x, rows_eqb x x = true.
Proof. apply list_eqb_refl, crow_eqb_refl. Qed.
Lemma tobs_eqb_refl : forall x, tobs_eqb x x = true.
Proof.
  intros [|r c l]; cbn; [reflexivity|].
  rewrite rows_eqb_refl, cell_eqb_refl. cbn. apply list_eqb_refl, rows_eqb_refl.
Qed.

Definition not_weird (x : obs) : bool := match x with OWeird => false | _ => true end.
Lemma obs_eqb_refl : forall x, not_weird x = true -> obs_eqb x x = true.
Proof.
  intros [n| | |r|ts] H; cbn in *; try reflexivity; try discriminate.
  - apply Z.eqb_refl.
  - apply rows_eqb_refl.
  - apply list_eqb_refl, tobs_eqb_refl.
Qed.

(* ------------------------------------------------------------------ statements of the modelled language *)
Definition is_ins (o : op) : bool := match o with Ins _ _ => true | _ => false end.

Lemma lstep_not_weird : forall o tab n w,
  op_in_lang o = true -> is_int o = false -> not_weird (l_obs (lstep tab n w o)) = true.
Proof.
  intros o tab n w HL HI. destruct o; cbn in *; try discriminate; try reflexivity.
  - destruct (tab t); reflexivity.
  - destruct (tab t); reflexivity.
  - destruct (tab t); cbn; [|reflexivity]. destruct (snd (do_insert l n vals)); reflexivity.
  - destruct (tab t); reflexivity.
  - destruct (tab t); reflexivity.
Qed.

(* what a statement reads: the tables pointwise, the WAL switch, and (INSERT only) next_row_id *)
Lemma lstep_sim : forall o tab1 tab2 n1 n2 w,
  (forall t, tab1 t = tab2 t) -> (is_ins o = true -> n1 = n2) ->
  (forall t, l_tab (lstep tab1 n1 w o) t = l_tab (lstep tab2 n2 w o) t)
  /\ l_wal (lstep tab1 n1 w o) = l_wal (lstep tab2 n2 w o)
  /\ l_obs (lstep tab1 n1 w o) = l_obs (lstep tab2 n2 w o)
  /\ l_eff (lstep tab1 n1 w o) = l_eff (lstep tab2 n2 w o)
  /\ (n1 = n2 -> l_next (lstep tab1 n1 w o) = l_next (lstep tab2 n2 w o))
  /\ (is_ins o = false -> l_next (lstep tab1 n1 w o) = n1 /\ l_next (lstep tab2 n2 w o) = n2).
Proof.
  intros o tab1 tab2 n1 n2 w HT HN.
  destruct o; cbn [lstep is_ins] in *.
  all: try (assert (n1 = n2) by (apply HN; reflexivity); subst n2).
  all: try (rewrite (HT t); destruct (tab2 t) as [tb|]; cbn [l_tab l_wal l_obs l_eff l_next]).
  all: cbn [l_tab l_wal l_obs l_eff l_next].
  all: repeat split; intros; try discriminate; try reflexivity; try assumption; try apply HT;
       try (apply upd_ext; assumption); try congruence.
  (* Query *)
  f_equal. apply map_ext. intros t. now rewrite HT.
Qed.

(* ------------------------------------------------------------------ when the leaf does not change *)
Lemma n_hit_nonneg : forall v rs, 0 <= n_hit v rs.
Proof. intros. unfold n_hit. lia. Qed.

Lemma no_hit_all : forall v rs, n_hit v rs <= 0 -> forall r, In r rs -> hit v r = false.
Proof.
  intros v rs H r Hin. destruct (hit v r) eqn:E; [|reflexivity].
  assert (In r (filter (hit v) rs)) as Hf by (apply filter_In; split; assumption).
  unfold n_hit in H. destruct (filter (hit v) rs); [contradiction | cbn in H; lia].
Qed.

Lemma del_rows_none : forall v rs, n_hit v rs <= 0 -> del_rows v rs = rs.
Proof.
  intros v rs H. unfold del_rows. rewrite <- (map_id rs) at 2. apply map_ext_in.
  intros r Hin. now rewrite (no_hit_all v rs H r Hin).
Qed.
Lemma upd_rows_none : forall v w rs, n_hit v rs <= 0 -> upd_rows v w rs = rs.
Proof.
  intros v w rs H. unfold upd_rows. rewrite <- (map_id rs) at 2. apply map_ext_in.
  intros r Hin. now rewrite (no_hit_all v rs H r Hin).
Qed.

(* a row that fails adds nothing to the leaf *)
Lemma ins_row_fail_rows : forall k c v c', ins_row k c v = (c', false) -> i_rows c' = i_rows c.
Proof.
  intros k c [a0 b] c' H. unfold ins_row in H.
  repeat match type of H with
         | context [if ?e then _ else _] => destruct e
         | context [match ?e with Some _ => _ | None => _ end] => destruct e
         end; cbn in H; inversion H; subst; reflexivity.
Qed.

Lemma do_insert_one_fail_rows : forall tb n v,
  snd (do_insert tb n [v]) = false -> t_rows (fst (fst (do_insert tb n [v]))) = t_rows tb.
Proof.
  intros tb n v H. unfold do_insert in *. cbn [ins_loop] in *.
  destruct (ins_row (t_kind tb) _ v) as [c ok] eqn:E.
  destruct ok; cbn in *; [discriminate|].
  now rewrite (ins_row_fail_rows _ _ _ _ E).
Qed.

Lemma do_insert_nil_ok : forall tb n, snd (do_insert tb n []) = true.
Proof. intros. reflexivity. Qed.

(* ------------------------------------------------------------------ the class flags are sticky *)
Lemma k1_step_c1_mono : forall a o, k_c1 a = true -> k_c1 (k1_step a o) = true.
Proof. intros a o H. destruct o; cbn; try assumption; now rewrite H. Qed.

Lemma k2_touch_c2 : forall k t c f, k_c2 (k2_touch k t c f) = k_c2 k.
Proof. reflexivity. Qed.
Lemma k2_clear_c2 : forall k r, k_c2 (k2_clear k r) = k_c2 k || (r && stale_any k).
Proof. reflexivity. Qed.
Lemma k2_session_c2 : forall k, k_c2 (k2_session k) = k_c2 k.
Proof. reflexivity. Qed.

Lemma k2_step_c2_mono : forall b o x, k_c2 b = true -> k_c2 (k2_step b o x) = true.
Proof.
  intros b o x H. destruct o; cbn [k2_step]; try assumption;
    repeat match goal with
           | |- context [if ?e then _ else _] => destruct e
           | |- context [match ?v with [] => _ | _ :: _ => _ end] => destruct v
           end;
    cbn; rewrite ?H; auto.
Qed.

Lemma kscan_mono : forall h oa a b c,
  (k_c1 a = true -> k_c1 (fst (fst (kscan a b c h oa))) = true)
  /\ (k_c2 b = true -> k_c2 (snd (fst (kscan a b c h oa))) = true).
Proof.
  induction h as [|o h IH]; intros oa a b c; cbn [kscan]; [split; auto|].
  destruct oa as [|x oa]; [split; auto|].
  destruct (IH oa (k1_step a o) (k2_step b o x) (k3_step c o)) as [I1 I2].
  split; intros H; [apply I1, k1_step_c1_mono, H | apply I2, k2_step_c2_mono, H].
Qed.

Lemma kclass_zero : forall a b c, kclass (a, b, c) = 0 -> k_c1 a = false /\ k_c2 b = false.
Proof.
  intros a b c H. unfold kclass in H.
  destruct (k_c2 b); [discriminate|]. destruct (k_recreated c && k_reopened c); [discriminate|].
  destruct (k_c1 a); [discriminate|]. auto.
Qed.

Lemma final_zero_now : forall h oa a b c,
  kclass (kscan a b c h oa) = 0 -> k_c1 a = false /\ k_c2 b = false.
Proof.
  intros h oa a b c H.
  destruct (kscan a b c h oa) as [[a' b'] c'] eqn:E.
  destruct (kclass_zero _ _ _ H) as [H1 H2].
  destruct (kscan_mono h oa a b c) as [M1 M2]. rewrite E in M1, M2. cbn in M1, M2.
  split.
  - destruct (k_c1 a); [rewrite M1 in H1 by reflexivity; discriminate | reflexivity].
  - destruct (k_c2 b); [rewrite M2 in H2 by reflexivity; discriminate | reflexivity].
Qed.
