(* C03 proofs: writer side (what the segment files contain after any op sequence outside the
   recorded finding classes), the fault model on those files, and the end-to-end statements. *)
From Coq Require Import ZArith List Bool Lia ZifyBool Arith.
From TV Require Import Lib.MachInt Model.WalCrc Model.Wal Model.WalSpec Proof.WalCrc Proof.WalRead.
Import ListNotations.
Open Scope Z_scope.

Ltac Zify.zify_post_hook ::= Z.to_euclidean_division_equations.

Arguments Z.mul : simpl never.
Arguments Z.add : simpl never.
Arguments Z.sub : simpl never.
Arguments Z.leb : simpl never.
Arguments Z.ltb : simpl never.
Arguments Z.eqb : simpl never.
Arguments Z.max : simpl never.
Arguments Z.min : simpl never.
Arguments Z.div : simpl never.
Arguments Z.modulo : simpl never.
Arguments Z.of_nat : simpl never.
Arguments Z.to_nat : simpl never.

(* recovery of arbitrary segment files: exactly the frames the sequential reader accepts, segment
   after segment, are applied, in order; no panic *)
Lemma recover_exact_l : forall files,
  Forall (fun f => frame_ok f = true) (seg_frames files) ->
  rec_ok (seg_frames files) (recover files) = true.
Proof. intros files H. unfold recover. apply replay_exact; exact H. Qed.

Lemma recover_no_panic_l : forall files,
  Forall (fun f => frame_ok f = true) (seg_frames files) -> recover files <> RecPanic.
Proof.
  intros files H E. pose proof (recover_exact_l files H) as R. rewrite E in R. discriminate.
Qed.

(* ================================================================ A. the writer *)
(* s: model state, l: the abstract log.  The OS cursor always sits at the end of the file. *)
Definition winv (s : st) (l : list (list frame) * list frame) : Prop :=
  s_closed s = map (map SFrame) (fst l) /\
  s_file s ++ map SFrame (s_pend s) = map SFrame (snd l) /\
  s_cur s = length (s_file s).

Lemma write_at_append : forall fl xs, write_at fl (length fl) xs = fl ++ xs.
Proof.
  intros fl xs. destruct xs as [|x xs]; [cbn [write_at]; rewrite app_nil_r; reflexivity|].
  unfold write_at, pad. rewrite Nat.sub_diag. cbn [repeat]. rewrite app_nil_r, firstn_all.
  rewrite skipn_all2 by lia. rewrite app_nil_r. reflexivity.
Qed.

Lemma flush_pend : forall s, s_pend (flush s) = [].
Proof. reflexivity. Qed.

Lemma flush_winv : forall s l, winv s l -> winv (flush s) l.
Proof.
  intros [lo closed file cur off pend idx sync] l. unfold winv, flush.
  cbn [s_lo s_closed s_file s_cur s_off s_pend s_idx s_sync].
  intros [Hcl [Hfile Hcur]]. subst cur. rewrite write_at_append.
  cbn [map]. rewrite app_nil_r, app_length, map_length. repeat split; assumption || reflexivity.
Qed.

Lemma fold_push_fields : forall fs s,
  s_lo (fold_left push_frame fs s) = s_lo s /\
  s_closed (fold_left push_frame fs s) = s_closed s /\
  s_file (fold_left push_frame fs s) = s_file s /\
  s_cur (fold_left push_frame fs s) = s_cur s /\
  s_pend (fold_left push_frame fs s) = s_pend s ++ fs /\
  s_sync (fold_left push_frame fs s) = s_sync s.
Proof.
  induction fs as [|f fs IH]; intro s; cbn [fold_left].
  - rewrite app_nil_r. repeat split; reflexivity.
  - destruct (IH (push_frame s f)) as [H1 [H2 [H3 [H4 [H5 H6]]]]].
    rewrite H1, H2, H3, H4, H5, H6. unfold push_frame.
    cbn [s_lo s_closed s_file s_cur s_off s_pend s_idx s_sync].
    rewrite <- app_assoc. cbn [app]. repeat split; reflexivity.
Qed.

Lemma push_winv : forall fs s l, winv s l -> winv (fold_left push_frame fs s) (fst l, snd l ++ fs).
Proof.
  intros fs s l [Hcl [Hfile Hcur]].
  destruct (fold_push_fields fs s) as [H1 [H2 [H3 [H4 [H5 H6]]]]].
  unfold winv. rewrite H2, H3, H4, H5. cbn [fst snd]. rewrite !map_app, app_assoc, Hfile.
  repeat split; assumption || reflexivity.
Qed.

Lemma step_winv : forall s l o, winv s l -> winv (step s o) (lstep l o).
Proof.
  intros s l o Hinv. destruct o as [f|fs nosync|b| | | |]; cbn [step lstep].
  - pose proof (push_winv [f] s l Hinv) as H1. cbn [fold_left] in H1.
    destruct (s_sync (push_frame s f)); [apply flush_winv|]; exact H1.
  - pose proof (push_winv fs s l Hinv) as H1.
    destruct (negb nosync && s_sync (fold_left push_frame fs s) && negb (is_nil fs)); [apply flush_winv|]; exact H1.
  - destruct Hinv as [Hcl [Hfile Hcur]]. unfold winv.
    cbn [s_lo s_closed s_file s_cur s_off s_pend s_idx s_sync]. repeat split; assumption.
  - apply flush_winv; exact Hinv.
  - destruct (flush_winv s l Hinv) as [Hcl [Hfile Hcur]]. rewrite flush_pend in Hfile.
    cbn [map] in Hfile. rewrite app_nil_r in Hfile. unfold winv.
    cbn [s_lo s_closed s_file s_cur s_off s_pend s_idx s_sync fst snd map app length].
    rewrite map_app. cbn [map]. rewrite Hcl, Hfile. repeat split; reflexivity.
  - unfold winv. cbn [s_lo s_closed s_file s_cur s_off s_pend s_idx s_sync fst snd map app length].
    repeat split; reflexivity.
  - destruct (flush_winv s l Hinv) as [Hcl [Hfile Hcur]]. rewrite flush_pend in Hfile.
    cbn [map] in Hfile. rewrite app_nil_r in Hfile. unfold winv, open_st.
    cbn [s_lo s_closed s_file s_cur s_off s_pend s_idx s_sync map].
    rewrite removelast_last, last_last. rewrite Hfile, valid_frames_ideal, <- (map_length SFrame (snd l)), firstn_all.
    rewrite app_nil_r. repeat split; try assumption; reflexivity.
Qed.

Lemma run_winv : forall ops s l, winv s l -> winv (fold_left step ops s) (fold_left lstep ops l).
Proof.
  induction ops as [|o ops IH]; intros s l Hinv; cbn [fold_left]; [exact Hinv|].
  apply IH. apply step_winv. exact Hinv.
Qed.

Lemma winv_init : winv init_st ([], []).
Proof. unfold winv, init_st. cbn. repeat split; reflexivity. Qed.

(* after EVERY op sequence the segment files are exactly the frames of the abstract log, in
   order, nothing else: nothing overwritten, nothing hidden, no bytes that were never written *)
Lemma writer_files_l : forall ops, final_files (run ops) = map (map SFrame) (log_of ops).
Proof.
  intros ops.
  pose proof (run_winv ops init_st ([], []) winv_init) as Hinv.
  apply flush_winv in Hinv. destruct Hinv as [Hcl [Hfile _]].
  unfold final_files, run, log_of, lrun. rewrite flush_pend in Hfile. cbn [map] in Hfile.
  rewrite app_nil_r in Hfile. rewrite Hcl, Hfile, map_app. reflexivity.
Qed.

(* ================================================================ B. faults on ideal files *)
Lemma vf_set_bad : forall seg k, (k < length seg)%nat ->
  valid_frames (set_nth k SBad (map SFrame seg)) = firstn k seg.
Proof.
  induction seg as [|f seg IH]; intros k Hk; cbn [length] in Hk; [lia|].
  destruct k as [|k]; cbn [map set_nth valid_frames slot_frame firstn]; [reflexivity|].
  rewrite IH by lia. reflexivity.
Qed.

Lemma set_nth_length : forall {A} (l : list A) k v, length (set_nth k v l) = length l.
Proof. intros A. induction l as [|x l IH]; intros k v; [destruct k; reflexivity|]. destruct k; cbn [set_nth length]; [reflexivity|rewrite IH; reflexivity]. Qed.

Lemma zero_slots_length : forall off e i0 vf vl fl i, length (zero_slots i off e i0 vf vl fl) = length fl.
Proof. intros off e i0 vf vl. induction fl as [|x l IH]; intro i; cbn [zero_slots length]; [reflexivity|rewrite IH; reflexivity]. Qed.

Lemma zero_intact_le : forall off e i0 vf vl n i, (zero_intact n i off e i0 vf vl <= n)%nat.
Proof.
  intros off e i0 vf vl. induction n as [|n IH]; intro i; cbn [zero_intact]; [lia|].
  destruct (zcls i off e i0 vf vl =? 0); [specialize (IH (i + 1)); lia|lia].
Qed.

Lemma vf_zero_slots : forall off e i0 vf vl seg i,
  ((zero_intact (length seg) i off e i0 vf vl < length seg)%nat ->
     zcls (i + Z.of_nat (zero_intact (length seg) i off e i0 vf vl)) off e i0 vf vl <> 1) ->
  valid_frames (zero_slots i off e i0 vf vl (map SFrame seg))
  = firstn (zero_intact (length seg) i off e i0 vf vl) seg.
Proof.
  intros off e i0 vf vl. induction seg as [|f seg IH]; intros i H; [reflexivity|].
  cbn [length zero_intact map zero_slots] in *.
  destruct (Z.eqb_spec (zcls i off e i0 vf vl) 0) as [E0|E0].
  - cbn [valid_frames slot_frame firstn]. rewrite IH; [reflexivity|].
    intro Hlt. replace (i + 1 + Z.of_nat (zero_intact (length seg) (i + 1) off e i0 vf vl))
      with (i + Z.of_nat (S (zero_intact (length seg) (i + 1) off e i0 vf vl))) by lia.
    apply H. lia.
  - assert (E1 : zcls i off e i0 vf vl <> 1).
    { replace i with (i + Z.of_nat 0) by lia. apply H. lia. }
    destruct (Z.eqb_spec (zcls i off e i0 vf vl) 1) as [E|_]; [contradiction|].
    reflexivity.
Qed.

Lemma file_bytes_ideal : forall seg, file_bytes (map SFrame seg) = FRAME * Z.of_nat (length seg).
Proof. intro seg. unfold file_bytes. rewrite map_length. reflexivity. Qed.

(* does a file end cleanly (its valid frames cover it)? *)
Definition clean (fl : list slot) : bool := (length (valid_frames fl) =? length fl)%nat.

(* one ideal segment file after the fault: the reader accepts exactly the intact leading frames,
   provided the first destroyed slot was not turned into zeros; the file still ends cleanly only
   if nothing was destroyed or it was cut at a frame boundary *)
Lemma dmg_file_ideal : forall d seg,
  ((intact (length seg) d < length seg)%nat -> first_hit_zeroed (length seg) d = false) ->
  valid_frames (dmg_file d (map SFrame seg)) = firstn (intact (length seg) d) seg /\
  clean (dmg_file d (map SFrame seg)) = (length seg <=? intact (length seg) d)%nat || clean_cut (length seg) d.
Proof.
  intros d seg H6. unfold clean.
  destruct d as [|s off|s off m|s off n vf vl]; cbn [dmg_file intact clean_cut].
  - rewrite valid_frames_ideal, firstn_all, map_length, Nat.eqb_refl, Nat.leb_refl. split; reflexivity.
  - rewrite file_bytes_ideal.
    destruct ((0 <=? off) && (off <=? FRAME * Z.of_nat (length seg))) eqn:C; cbn [andb].
    + rewrite firstn_map, valid_frames_app_ideal. split.
      * destruct (off mod FRAME =? 0); cbn [valid_frames slot_frame]; rewrite app_nil_r; reflexivity.
      * assert (Hq : (Z.to_nat (off / FRAME) <= length seg)%nat) by (unfold FRAME in *; lia).
        destruct (Z.eqb_spec (off mod FRAME) 0) as [E|E]; cbn [valid_frames slot_frame].
        -- rewrite !app_nil_r, map_length, Nat.eqb_refl, orb_true_r. reflexivity.
        -- rewrite app_nil_r, app_length, map_length, firstn_length. cbn [length]. rewrite orb_false_r.
           destruct (Nat.leb_spec (length seg) (Z.to_nat (off / FRAME))) as [Hle|Hgt].
           ++ exfalso. unfold FRAME in *. lia.
           ++ apply Nat.eqb_neq. lia.
    + rewrite valid_frames_ideal, firstn_all, map_length, Nat.eqb_refl, Nat.leb_refl. split; reflexivity.
  - rewrite file_bytes_ideal. rewrite orb_false_r.
    destruct ((0 <=? off) && (off <? FRAME * Z.of_nat (length seg)) && negb (m mod 256 =? 0)) eqn:C.
    + assert (Hk : (Z.to_nat (off / FRAME) < length seg)%nat) by (unfold FRAME in *; lia).
      rewrite vf_set_bad by exact Hk. split; [reflexivity|].
      rewrite set_nth_length, map_length, firstn_length.
      destruct (Nat.leb_spec (length seg) (Z.to_nat (off / FRAME))); [lia|]. apply Nat.eqb_neq. lia.
    + rewrite valid_frames_ideal, firstn_all, map_length, Nat.eqb_refl, Nat.leb_refl. split; reflexivity.
  - rewrite file_bytes_ideal. rewrite orb_false_r.
    destruct ((0 <=? off) && (off <? FRAME * Z.of_nat (length seg)) && (0 <? n)) eqn:C.
    + set (zi := zero_intact (length seg) 0 off (Z.min (off + n) (FRAME * Z.of_nat (length seg))) (off / FRAME) vf vl) in *.
      assert (Hvf : valid_frames (zero_slots 0 off (Z.min (off + n) (FRAME * Z.of_nat (length seg))) (off / FRAME) vf vl (map SFrame seg)) = firstn zi seg).
      { apply vf_zero_slots. fold zi. intro Hlt.
        replace (0 + Z.of_nat zi) with (Z.of_nat zi) by lia.
        cbn [intact] in H6. rewrite C in H6. fold zi in H6. specialize (H6 Hlt).
        unfold first_hit_zeroed in H6. rewrite C in H6. cbn [andb] in H6. cbn [intact] in H6. rewrite C in H6. fold zi in H6.
        intro E. rewrite E in H6. discriminate. }
      rewrite Hvf. split; [reflexivity|].
      rewrite zero_slots_length, map_length, firstn_length.
      pose proof (zero_intact_le off (Z.min (off + n) (FRAME * Z.of_nat (length seg))) (off / FRAME) vf vl (length seg) 0) as Hle. fold zi in Hle.
      destruct (Nat.leb_spec (length seg) zi); [apply Nat.eqb_eq; lia|apply Nat.eqb_neq; lia].
    + rewrite valid_frames_ideal, firstn_all, map_length, Nat.eqb_refl, Nat.leb_refl. split; reflexivity.
Qed.

Lemma upd_nth_ge : forall {A} (f : A -> A) l k, (length l <= k)%nat -> upd_nth k f l = l.
Proof.
  intros A f. induction l as [|x l IH]; intros k Hk; [destruct k; reflexivity|].
  destruct k as [|k]; cbn [length] in Hk; [lia|]. cbn [upd_nth]. rewrite IH by lia. reflexivity.
Qed.

Lemma vprefix_nohit : forall d log i,
  (forall j, (i <= j)%nat -> is_dmg_seg d j = false) -> vprefix i d log = concat log.
Proof.
  intros d. induction log as [|seg log IH]; intros i H; cbn [vprefix concat]; [reflexivity|].
  rewrite (H i) by lia. cbn [andb]. rewrite IH; [reflexivity|]. intros j Hj. apply H. lia.
Qed.

Lemma vprefix_cons : forall d i seg t,
  vprefix i d (seg :: t) =
  if is_dmg_seg d i && (intact (length seg) d <? length seg)%nat
  then firstn (intact (length seg) d) seg else seg ++ vprefix (S i) d t.
Proof. reflexivity. Qed.

Lemma all_empty_concat : forall (l : list (list frame)),
  existsb (fun g => negb (is_nil g)) l = false -> concat l = [] /\ last l [] = [].
Proof.
  induction l as [|g l IH]; intro H; [split; reflexivity|].
  cbn [existsb] in H. apply orb_false_elim in H. destruct H as [Hg Hl].
  destruct g; [|discriminate]. destruct (IH Hl) as [Hc Hla].
  cbn [concat app]. split; [exact Hc|]. destruct l; [reflexivity|exact Hla].
Qed.

(* the segment at position k (if any) may be damaged; what freedom from classes 6 / 7 gives *)
Definition seg_ok (d : dmg) (k : nat) (log : list (list frame)) : Prop :=
  forall seg, nth_error log k = Some seg -> (intact (length seg) d < length seg)%nat ->
    first_hit_zeroed (length seg) d = false /\ clean_cut (length seg) d && nonempty_after k log = false.

Lemma seg_ok_tail : forall d k seg log, seg_ok d (S k) (seg :: log) -> seg_ok d k log.
Proof. intros d k seg log H g Hn Hlt. apply (H g); assumption. Qed.

(* what recover reads from the damaged files = the longest valid prefix *)
Lemma frames_after_fault : forall d log k i,
  (forall j, j <> (i + k)%nat -> is_dmg_seg d j = false) ->
  ((k < length log)%nat -> is_dmg_seg d (i + k) = true) ->
  seg_ok d k log ->
  seg_frames (upd_nth k (dmg_file d) (map (map SFrame) log)) = vprefix i d log.
Proof.
  intros d. induction log as [|seg log IH]; intros k i Hother Hhit Hok; [destruct k; reflexivity|].
  destruct k as [|k].
  - cbn [map upd_nth seg_frames]. rewrite vprefix_cons. rewrite Nat.add_0_r in *.
    rewrite Hhit by (cbn [length]; lia). cbn [andb].
    rewrite seg_frames_ideal.
    destruct (Nat.ltb_spec (intact (length seg) d) (length seg)) as [Hlt|Hge].
    + destruct (Hok seg eq_refl Hlt) as [H6 H7].
      destruct (dmg_file_ideal d seg (fun _ => H6)) as [Hvf Hcl]. unfold clean in Hcl.
      rewrite Hcl, Hvf.
      destruct (Nat.leb_spec (length seg) (intact (length seg) d)) as [Hx|_]; [lia|]. cbn [orb].
      destruct (clean_cut (length seg) d); [|reflexivity].
      cbn [andb] in H7. unfold nonempty_after in H7. cbn [skipn] in H7.
      destruct (all_empty_concat log H7) as [Hc _]. rewrite Hc, app_nil_r. reflexivity.
    + destruct (dmg_file_ideal d seg) as [Hvf Hcl]; [lia|]. unfold clean in Hcl.
      rewrite Hcl, Hvf.
      destruct (Nat.leb_spec (length seg) (intact (length seg) d)) as [_|Hx]; [|lia]. cbn [orb].
      rewrite firstn_all2 by lia.
      rewrite vprefix_nohit; [reflexivity|]. intros j Hj. apply Hother. lia.
  - cbn [map upd_nth seg_frames]. rewrite vprefix_cons. rewrite (Hother i) by lia. cbn [andb].
    rewrite valid_frames_ideal, map_length, Nat.eqb_refl. f_equal.
    apply IH.
    + intros j Hj. apply Hother. lia.
    + intro Hk. replace (S i + k)%nat with (i + S k)%nat by lia. apply Hhit. cbn [length]. lia.
    + eapply seg_ok_tail; exact Hok.
Qed.

Lemma upd_nth_nonnil : forall {A} (f : A -> A) l k, l <> [] -> upd_nth k f l <> [].
Proof. intros A f l k H. destruct l; [contradiction|]. destruct k; discriminate. Qed.

(* ================================================================ C. putting it together *)
(* position of the damaged segment file, or one past the end when there is none *)
Definition dmg_pos (d : dmg) (n : nat) : nat :=
  match dmg_seg d with
  | Some s => if 0 <=? s then Z.to_nat s else n
  | None => n
  end.

Lemma dmg_files_pos : forall d files, dmg_files d files = upd_nth (dmg_pos d (length files)) (dmg_file d) files.
Proof.
  intros d files. unfold dmg_files, dmg_pos. destruct (dmg_seg d) as [s|].
  - destruct (0 <=? s); [reflexivity|]. rewrite upd_nth_ge by lia. reflexivity.
  - rewrite upd_nth_ge by lia. reflexivity.
Qed.

Lemma is_dmg_seg_pos : forall d n j, j <> dmg_pos d n -> is_dmg_seg d j = false.
Proof.
  intros d n j Hj. unfold dmg_pos in Hj. unfold is_dmg_seg. destruct (dmg_seg d) as [s|]; [|reflexivity].
  destruct (0 <=? s); [|reflexivity]. cbn [andb].
  destruct (Nat.eqb_spec (Z.to_nat s) j) as [E|E]; [congruence|reflexivity].
Qed.

Lemma dmg_pos_hit : forall d n, (dmg_pos d n < n)%nat -> is_dmg_seg d (dmg_pos d n) = true.
Proof.
  intros d n H. unfold dmg_pos in *. unfold is_dmg_seg. destruct (dmg_seg d) as [s|]; [|lia].
  destruct (Z.leb_spec 0 s) as [H0|H0]; [|lia]. cbn [andb]. apply Nat.eqb_refl.
Qed.

Lemma dmg_class_seg_ok : forall d log, dmg_class log d = 0 -> seg_ok d (dmg_pos d (length log)) log.
Proof.
  intros d log Hc seg Hn Hlt. unfold dmg_class in Hc. unfold dmg_pos in *.
  assert (Hx : nth_error log (length log) = None) by (apply nth_error_None; lia).
  destruct (dmg_seg d) as [s|]; [|congruence].
  destruct (0 <=? s); [|congruence].
  rewrite Hn in Hc.
  destruct (Nat.ltb_spec (intact (length seg) d) (length seg)) as [_|Hge]; [|lia].
  destruct (first_hit_zeroed (length seg) d); [discriminate|].
  destruct (clean_cut (length seg) d && nonempty_after (Z.to_nat s) log); [discriminate|].
  split; reflexivity.
Qed.
