(* C32 proofs, part 4: arrays and objects as written by the builder, seen through the view:
   array_get, read_key_at / read_value_at, the binary search of `get`, and the read-back. *)
From Coq Require Import ZArith List Bool Lia ZifyBool Sorting.Permutation Sorting.Sorted.
From TV Require Import Lib.MachInt Lib.MachIntFacts Gen.JsonbBits Model.Jsonb
  Proof.JsonbBits Proof.JsonbLayout Proof.JsonbDecode Proof.BytesOrder.
Import ListNotations.
Open Scope Z_scope.

Ltac Zify.zify_post_hook ::= Z.to_euclidean_division_equations.

Definition vitem (e : json) : item := item_of_value e (encode_value e).
Definition obj_items (l : list (list Z * json)) : list item :=
  flat_map (fun kv => [key_item (fst kv); vitem (snd kv)]) l.

Lemma enc_arr els : encode_value (JArr els) = container JSONB_TYPE_ARRAY (zlen (map vitem els)) (map vitem els).
Proof. cbn [encode_value]. rewrite zlen_map. reflexivity. Qed.

Lemma obj_items_length l : zlen (obj_items l) = zlen l * 2.
Proof.
  induction l as [|kv t IH]; [reflexivity|].
  unfold obj_items in *. cbn [flat_map app]. rewrite !zlen_cons, IH. lia.
Qed.

Lemma enc_obj kvs :
  encode_value (JObj kvs) =
  container JSONB_TYPE_OBJECT (zlen (obj_items (stable_sort fst kvs))) (obj_items (stable_sort fst kvs)).
Proof.
  cbn [encode_value].
  set (F := fun kv : list Z * json => (fst kv, vitem (snd kv))).
  replace (map (fun kv : list Z * json => let (k, e) := kv in (k, item_of_value e (encode_value e))) kvs)
    with (map F kvs) by (apply map_ext; intros [k e]; reflexivity).
  rewrite (sort_map (@fst (list Z) json) (@fst (list Z) item) F) by (intros [k e]; reflexivity).
  rewrite obj_items_length. unfold zlen at 2. rewrite sort_length. fold (zlen kvs).
  f_equal. induction (stable_sort fst kvs) as [|kv t IH]; [reflexivity|].
  cbn [map flat_map]. rewrite IH. destruct kv as [k e]. reflexivity.
Qed.

Lemma vitem_payload_bound e : blen (encode_value e) <= 4 + blen (it_payload (vitem e)).
Proof.
  unfold vitem. destruct e; cbn [item_of_value it_payload encode_value];
    rewrite ?blen_app, ?u32le_length, ?u16le_length, ?blen_le_bytes, ?blen_nil; lia.
Qed.

Lemma payload_le items i it : nth_error items i = Some it -> blen (it_payload it) <= blen (payloads items).
Proof.
  intros H. rewrite (payloads_split items i it H). rewrite !blen_app.
  pose proof (blen_nonneg (payloads (firstn i items))). pose proof (blen_nonneg (payloads (skipn (S i) items))). lia.
Qed.

Lemma forallb_nth {A} (p : A -> bool) l i x : forallb p l = true -> nth_error l i = Some x -> p x = true.
Proof. intros H Hn. rewrite forallb_forall in H. apply H. eapply nth_error_In. exact Hn. Qed.

(* ------------------------------------------------------------------ arrays *)
Lemma arr_view els b :
  b = encode_value (JArr els) -> blen b <= 2 ^ 24 -> forallb (wf_json true) els = true ->
  root_type b = Ok JSONB_TYPE_ARRAY /\ entry_count b = Ok (zlen els) /\
  forall i e, nth_error els i = Some e ->
    bind (read_entry b (Z.of_nat i)) (decode_entry b) = Ok (jv_of e) /\ blen (encode_value e) <= blen b.
Proof.
  intros Hb Hlen Hwf. rewrite enc_arr in Hb.
  destruct (container_view JSONB_TYPE_ARRAY (map vitem els) b Hb) as (Hrt & Hec & Hds & Hrd).
  - unfold JSONB_TYPE_ARRAY. lia.
  - exact Hlen.
  - rewrite Forall_forall. intros it Hin. apply in_map_iff in Hin. destruct Hin as [e [<- _]]. apply item_of_value_ok.
  - rewrite zlen_map in Hec. repeat split; try assumption.
    + pose proof (map_nth_error vitem i els H) as Hn.
      destruct (Hrd i (vitem e) Hn) as [Hoff Hre]. rewrite Hre. cbn [bind].
      unfold off_at in *. unfold vitem at 1.
      apply (decode_item b (payloads (map vitem els)) (payloads (firstn i (map vitem els)))
               (payloads (skipn (S i) (map vitem els))) e Hds).
      * apply (payloads_split _ _ _ Hn).
      * exact Hoff.
      * eapply forallb_nth; eassumption.
      * pose proof (vitem_payload_bound e). pose proof (payload_le _ _ _ Hn).
        pose proof (container_length JSONB_TYPE_ARRAY (zlen (map vitem els)) (map vitem els)) as HL. rewrite <- Hb in HL.
        pose proof (zlen_nonneg (map vitem els)). change (2 ^ 24) with 16777216 in *. change (2 ^ 32) with 4294967296. lia.
    + pose proof (map_nth_error vitem i els H) as Hn.
      pose proof (vitem_payload_bound e). pose proof (payload_le _ _ _ Hn).
      pose proof (container_length JSONB_TYPE_ARRAY (zlen (map vitem els)) (map vitem els)) as HL. rewrite <- Hb in HL.
      assert (1 <= zlen (map vitem els)).
      { unfold zlen. rewrite map_length. assert (i < length els)%nat by (apply nth_error_Some; congruence). lia. }
      lia.
Qed.

(* ------------------------------------------------------------------ objects *)
Lemma obj_items_nth l : forall i k e,
  nth_error l i = Some (k, e) ->
  nth_error (obj_items l) (2 * i) = Some (key_item k) /\
  nth_error (obj_items l) (2 * i + 1) = Some (vitem e).
Proof.
  induction l as [|kv t IH]; intros [|i] k e H; cbn [nth_error] in H; try discriminate.
  - inversion H; subst. split; reflexivity.
  - destruct (IH i k e H) as [H1 H2]. unfold obj_items in *. cbn [flat_map app].
    replace (2 * S i)%nat with (S (S (2 * i))) by lia. cbn [nth_error Nat.add]. split; assumption.
Qed.

Lemma read_key b D X R k idx :
  data_section b = Ok D -> D = X ++ it_payload (key_item k) ++ R -> blen X < 2 ^ 24 ->
  utf8_valid k = true -> blen k < 2 ^ 16 ->
  read_entry b (idx * 2) = Ok (entry_word (key_item k) (blen X)) ->
  read_key_at b idx = Ok k.
Proof.
  intros Hds HD HX Hu Hk Hre. pose proof (blen_nonneg X). pose proof (blen_nonneg k).
  unfold read_key_at. rewrite Hre. cbn [bind].
  rewrite (entry_word_var _ 192 (blen X)) by (reflexivity || lia).
  destruct (word_fields 192 (blen X) ltac:(lia) ltac:(lia)) as (_ & Ho & _ & Hkey).
  rewrite Hkey, Ho. change (128 <=? 192) with true. cbn [negb]. cbv iota.
  rewrite Hds. cbn [bind]. cbn [key_item it_payload] in HD.
  rewrite (sub_mid' D X (u16le (blen k)) (k ++ R) (blen X) 2) by
    (try (rewrite HD, <- app_assoc; reflexivity); try reflexivity; rewrite u16le_length; reflexivity).
  cbn [bind]. rewrite from_le_u16le by lia.
  rewrite (sub_mid' D (X ++ u16le (blen k)) k R (blen X + 2) (blen k)) by
    (try (rewrite HD, <- !app_assoc; reflexivity); try reflexivity; rewrite blen_app, u16le_length; reflexivity).
  cbn [bind]. unfold str_of. rewrite Hu. reflexivity.
Qed.

Definition member_ok (kv : list Z * json) : bool :=
  match kv with (k, e) => utf8_valid k && (blen k <? 2 ^ 16) && wf_json true e end.

Lemma obj_view kvs b :
  b = encode_value (JObj kvs) -> blen b <= 2 ^ 24 -> forallb member_ok kvs = true ->
  let l := stable_sort fst kvs in
  root_type b = Ok JSONB_TYPE_OBJECT /\ entry_count b = Ok (zlen l * 2) /\
  forall i k e, nth_error l i = Some (k, e) ->
    read_key_at b (Z.of_nat i) = Ok k /\ read_value_at b (Z.of_nat i) = Ok (jv_of e) /\
    blen (encode_value e) <= blen b.
Proof.
  intros Hb Hlen Hwf l. rewrite enc_obj in Hb. fold l in Hb.
  destruct (container_view JSONB_TYPE_OBJECT (obj_items l) b Hb) as (Hrt & Hec & Hds & Hrd).
  - unfold JSONB_TYPE_OBJECT. lia.
  - exact Hlen.
  - rewrite Forall_forall. intros it Hin. unfold obj_items in Hin. apply in_flat_map in Hin.
    destruct Hin as [kv [_ [<- | [<- | []]]]]; [apply key_item_ok | apply item_of_value_ok].
  - rewrite obj_items_length in Hec. repeat split; try assumption.
    all: destruct (obj_items_nth l i k e H) as [Hk Hv].
    all: assert (Hm : member_ok (k, e) = true)
      by (rewrite forallb_forall in Hwf; apply Hwf; apply (sort_in fst); eapply nth_error_In; exact H).
    all: cbn [member_ok] in Hm; apply andb_true_iff in Hm; destruct Hm as [Hm Hwe];
      apply andb_true_iff in Hm; destruct Hm as [Hu Hkl].
    all: pose proof (container_length JSONB_TYPE_OBJECT (zlen (obj_items l)) (obj_items l)) as HL; rewrite <- Hb in HL.
    all: pose proof (zlen_nonneg (obj_items l)) as Hz.
    + destruct (Hrd _ _ Hk) as [Hoff Hre].
      apply (read_key b (payloads (obj_items l)) (payloads (firstn (2 * i) (obj_items l)))
               (payloads (skipn (S (2 * i)) (obj_items l))) k (Z.of_nat i) Hds).
      * apply (payloads_split _ _ _ Hk).
      * exact Hoff.
      * exact Hu.
      * lia.
      * replace (Z.of_nat i * 2) with (Z.of_nat (2 * i)) by lia. exact Hre.
    + destruct (Hrd _ _ Hv) as [Hoff Hre].
      unfold read_value_at. replace (Z.of_nat i * 2 + 1) with (Z.of_nat (2 * i + 1)) by lia.
      rewrite Hre. cbn [bind]. unfold vitem at 1. unfold off_at in *.
      apply (decode_item b (payloads (obj_items l)) (payloads (firstn (2 * i + 1) (obj_items l)))
               (payloads (skipn (S (2 * i + 1)) (obj_items l))) e Hds).
      * apply (payloads_split _ _ _ Hv).
      * exact Hoff.
      * exact Hwe.
      * pose proof (vitem_payload_bound e). pose proof (payload_le _ _ _ Hv).
        change (2 ^ 24) with 16777216 in *. change (2 ^ 32) with 4294967296. lia.
    + pose proof (vitem_payload_bound e). pose proof (payload_le _ _ _ Hv).
      assert (1 <= zlen (obj_items l)).
      { rewrite obj_items_length. unfold zlen. assert (i < length l)%nat by (apply nth_error_Some; congruence). lia. }
      lia.
Qed.

(* ------------------------------------------------------------------ the binary search of `get` *)
Lemma sorted_nth {A} (R : A -> A -> Prop) l :
  StronglySorted R l -> forall i j x y, nth_error l i = Some x -> nth_error l j = Some y -> (i < j)%nat -> R x y.
Proof.
  induction 1 as [|a t Hs IH Hall]; intros i j x y Hi Hj Hlt.
  - destruct i; discriminate.
  - destruct j as [|j]; [lia|]. destruct i as [|i]; cbn [nth_error] in *.
    + inversion Hi; subst. rewrite Forall_forall in Hall. apply Hall. eapply nth_error_In. exact Hj.
    + eapply IH; try eassumption. lia.
Qed.

Lemma nth_error_ex {A} (l : list A) i : (i < length l)%nat -> exists x, nth_error l i = Some x.
Proof. intros H. destruct (nth_error l i) eqn:E; [eauto|]. apply nth_error_None in E. lia. Qed.

Section Search.
  Variable b : list Z.
  Variable l : list (list Z * json).
  Hypothesis Hrd : forall i k e, nth_error l i = Some (k, e) ->
    read_key_at b (Z.of_nat i) = Ok k /\ read_value_at b (Z.of_nat i) = Ok (jv_of e).
  Hypothesis Hsorted : StronglySorted (kle fst) l.
  Variable key : list Z.

  Lemma bsearch_ok : forall f low high,
    0 <= low -> high < zlen l -> low <= high + 1 -> high - low + 1 < 2 ^ Z.of_nat f ->
    (forall i k e, nth_error l i = Some (k, e) -> Z.of_nat i < low -> bytes_cmp k key = Lt) ->
    (forall i k e, nth_error l i = Some (k, e) -> high < Z.of_nat i -> bytes_cmp k key = Gt) ->
    (exists e, In (key, e) l /\ bsearch (S f) b key low high = Ok (Some (jv_of e))) \/
    ((forall e, ~ In (key, e) l) /\ bsearch (S f) b key low high = Ok None).
  Proof.
    induction f as [|f IH]; intros low high Hlow Hhigh Hlh Hsz Hlt Hgt.
    - (* empty interval *)
      change (2 ^ Z.of_nat 0) with 1 in Hsz. right. split.
      + intros e Hin. apply In_nth_error in Hin. destruct Hin as [i Hi].
        destruct (Z.ltb_spec (Z.of_nat i) low) as [H|H].
        * pose proof (Hlt i key e Hi H) as Hc. rewrite cmp_refl in Hc. discriminate.
        * assert (high < Z.of_nat i) by lia. pose proof (Hgt i key e Hi H0) as Hc. rewrite cmp_refl in Hc. discriminate.
      + cbn [bsearch]. replace (low <=? high) with false by lia. reflexivity.
    - cbn [bsearch]. destruct (Z.leb_spec low high) as [Hle|Hgt'].
      + set (mid := (low + high) / 2).
        assert (Hmid : low <= mid <= high) by (subst mid; lia).
        assert (Hm : (Z.to_nat mid < length l)%nat) by (unfold zlen in Hhigh; lia).
        destruct (nth_error_ex l _ Hm) as [[k e] Hke].
        destruct (Hrd _ _ _ Hke) as [Hk Hv]. rewrite Z2Nat.id in Hk, Hv by lia.
        fold mid. rewrite Hk. cbn [bind].
        assert (Hpow : 2 ^ Z.of_nat (S f) = 2 * 2 ^ Z.of_nat f).
        { rewrite Nat2Z.inj_succ, Z.pow_succ_r by lia. reflexivity. }
        destruct (bytes_cmp k key) eqn:Ec.
        * (* found *)
          apply cmp_eq in Ec. subst k. left. exists e. split; [eapply nth_error_In; exact Hke|].
          rewrite Hv. reflexivity.
        * (* key is to the right *)
          apply IH; try lia.
          -- intros i k' e' Hi Hi'. destruct (Z.ltb_spec (Z.of_nat i) mid) as [H|H].
             ++ eapply le_lt_trans; [|exact Ec].
                apply (sorted_nth (kle fst) l Hsorted i (Z.to_nat mid) (k', e') (k, e) Hi Hke). lia.
             ++ assert (i = Z.to_nat mid) by lia. subst i. rewrite Hke in Hi. inversion Hi; subst. exact Ec.
          -- exact Hgt.
        * (* key is to the left *)
          apply IH; try lia.
          -- exact Hlt.
          -- intros i k' e' Hi Hi'. destruct (Z.ltb_spec mid (Z.of_nat i)) as [H|H].
             ++ eapply gt_le_trans; [exact Ec|].
                apply (sorted_nth (kle fst) l Hsorted (Z.to_nat mid) i (k, e) (k', e') Hke Hi). lia.
             ++ destruct (Z.ltb_spec high (Z.of_nat i)) as [H'|H'].
                ** apply (Hgt i k' e' Hi H').
                ** assert (i = Z.to_nat mid) by lia. subst i. rewrite Hke in Hi. inversion Hi; subst. exact Ec.
      + right. split; [|reflexivity].
        intros e Hin. apply In_nth_error in Hin. destruct Hin as [i Hi].
        destruct (Z.ltb_spec (Z.of_nat i) low) as [H|H].
        * pose proof (Hlt i key e Hi H) as Hc. rewrite cmp_refl in Hc. discriminate.
        * assert (high < Z.of_nat i) by lia. pose proof (Hgt i key e Hi H0) as Hc. rewrite cmp_refl in Hc. discriminate.
  Qed.
End Search.

(* ------------------------------------------------------------------ lookups *)
Lemma fits_obj kvs : fits (JObj kvs) = true ->
  forallb member_ok kvs = true /\ blen (encode_value (JObj kvs)) <= 2 ^ 24.
Proof.
  unfold fits. intros H. apply andb_true_iff in H. destruct H as [H1 H2]. cbn [is_str orb] in H2. split; [exact H1|lia].
Qed.
Lemma fits_arr els : fits (JArr els) = true ->
  forallb (wf_json true) els = true /\ blen (encode_value (JArr els)) <= 2 ^ 24.
Proof.
  unfold fits. intros H. apply andb_true_iff in H. destruct H as [H1 H2]. cbn [is_str orb] in H2. split; [exact H1|lia].
Qed.

Lemma get_obj kvs key :
  forallb member_ok kvs = true -> blen (encode_value (JObj kvs)) <= 2 ^ 24 ->
  (exists e, In (key, e) kvs /\ get (encode_value (JObj kvs)) key = Ok (Some (jv_of e))) \/
  ((forall e, ~ In (key, e) kvs) /\ get (encode_value (JObj kvs)) key = Ok None).
Proof.
  intros Hwf Hlen. set (b := encode_value (JObj kvs)) in *.
  destruct (obj_view kvs b eq_refl Hlen Hwf) as (Hrt & Hec & Hrd).
  set (l := stable_sort fst kvs) in *.
  unfold get. rewrite Hrt. cbn [bind]. change (negb (JSONB_TYPE_OBJECT =? JSONB_TYPE_OBJECT)) with false. cbv iota.
  rewrite Hec. cbn [bind]. pose proof (zlen_nonneg l) as Hz.
  replace (zlen l * 2 / 2) with (zlen l) by lia.
  destruct (Z.eqb_spec (zlen l) 0) as [H0|H0].
  - right. split; [|reflexivity]. intros e Hin. apply (sort_in fst) in Hin. fold l in Hin.
    apply In_nth_error in Hin. destruct Hin as [i Hi].
    assert (i < length l)%nat by (apply nth_error_Some; congruence). unfold zlen in H0. lia.
  - assert (Hlenb : zlen l * 4 <= 2 ^ 24).
    { unfold b in Hlen. rewrite enc_obj, container_length, obj_items_length in Hlen. fold l in Hlen.
      pose proof (blen_nonneg (payloads (obj_items l))). lia. }
    destruct (bsearch_ok b l (fun i k e H => let '(conj a (conj c _)) := Hrd i k e H in conj a c)
                (sort_sorted fst kvs) key 63 0 (zlen l - 1)) as [[e [Hin Hr]] | [Hn Hr]]; try lia.
    + intros i k e Hi Hh. assert (i < length l)%nat by (apply nth_error_Some; congruence). unfold zlen in Hh. lia.
    + left. exists e. split; [apply (sort_in fst); exact Hin | exact Hr].
    + right. split; [|exact Hr]. intros e Hin. apply (Hn e). apply (sort_in fst). exact Hin.
Qed.

Lemma array_get_arr els i :
  forallb (wf_json true) els = true -> blen (encode_value (JArr els)) <= 2 ^ 24 -> 0 <= i ->
  array_get (encode_value (JArr els)) i = Ok (option_map jv_of (nth_error els (Z.to_nat i))).
Proof.
  intros Hwf Hlen Hi. set (b := encode_value (JArr els)) in *.
  destruct (arr_view els b eq_refl Hlen Hwf) as (Hrt & Hec & Hrd).
  unfold array_get. rewrite Hrt. cbn [bind]. change (negb (JSONB_TYPE_ARRAY =? JSONB_TYPE_ARRAY)) with false. cbv iota.
  rewrite Hec. cbn [bind].
  destruct (Z.leb_spec (zlen els) i) as [H|H].
  - replace (nth_error els (Z.to_nat i)) with (@None json); [reflexivity|].
    symmetry. apply nth_error_None. unfold zlen in H. lia.
  - assert (Hn : (Z.to_nat i < length els)%nat) by (unfold zlen in H; lia).
    destruct (nth_error_ex els _ Hn) as [e He]. rewrite He. cbn [option_map].
    destruct (Hrd _ _ He) as [Hd _]. rewrite Z2Nat.id in Hd by lia.
    destruct (read_entry b i) as [w| | |]; cbn [bind] in *; try discriminate.
    rewrite Hd. reflexivity.
Qed.

(* ------------------------------------------------------------------ induction on documents *)
Section JsonInd.
  Variable P : json -> Prop.
  Hypothesis HNull : P JNull.
  Hypothesis HBool : forall b, P (JBool b).
  Hypothesis HNum : forall x, P (JNum x).
  Hypothesis HStr : forall s, P (JStr s).
  Hypothesis HArr : forall l, Forall P l -> P (JArr l).
  Hypothesis HObj : forall l, Forall (fun kv => P (snd kv)) l -> P (JObj l).
  Fixpoint json_ind2 (v : json) : P v :=
    match v with
    | JNull => HNull
    | JBool b => HBool b
    | JNum x => HNum x
    | JStr s => HStr s
    | JArr l => HArr l ((fix go (l : list json) : Forall P l :=
                           match l with [] => Forall_nil _ | x :: t => Forall_cons x (json_ind2 x) (go t) end) l)
    | JObj l => HObj l ((fix go (l : list (list Z * json)) : Forall (fun kv => P (snd kv)) l :=
                           match l with
                           | [] => Forall_nil _
                           | kv :: t => Forall_cons kv (json_ind2 (snd kv)) (go t)
                           end) l)
    end.
End JsonInd.

Lemma depth_arr els e : In e els -> (depth e < depth (JArr els))%nat.
Proof.
  intros H. cbn [depth]. apply Nat.lt_succ_r.
  induction els as [|x t IH]; [inversion H|]. cbn [fold_right]. destruct H as [-> | H]; [lia|].
  specialize (IH H). lia.
Qed.
Lemma depth_obj kvs k e : In (k, e) kvs -> (depth e < depth (JObj kvs))%nat.
Proof.
  intros H. cbn [depth]. apply Nat.lt_succ_r.
  induction kvs as [|[k' x] t IH]; [inversion H|]. cbn [fold_right]. destruct H as [H | H].
  - inversion H; subst. lia.
  - specialize (IH H). lia.
Qed.

Lemma collect_map {A X} (l : list X) (g : X -> A) (f : Z -> res A) : forall i0,
  (forall i x, nth_error l i = Some x -> f (i0 + Z.of_nat i) = Ok (g x)) ->
  collect (length l) i0 f = Ok (map g l).
Proof.
  induction l as [|x t IH]; intros i0 H; cbn [length collect map]; [reflexivity|].
  pose proof (H 0%nat x eq_refl) as H0. rewrite Z.add_0_r in H0. rewrite H0. cbn [bind].
  rewrite (IH (i0 + 1)); [reflexivity|].
  intros i y Hi. replace (i0 + 1 + Z.of_nat i) with (i0 + Z.of_nat (S i)) by lia. apply H. exact Hi.
Qed.

Lemma canon_obj kvs :
  canon (JObj kvs) = JObj (map (fun kv => (fst kv, canon (snd kv))) (stable_sort fst kvs)).
Proof.
  cbn [canon]. f_equal.
  replace (map (fun kv : list Z * json => let (k, e) := kv in (k, canon e)) kvs)
    with (map (fun kv : list Z * json => (fst kv, canon (snd kv))) kvs) by (apply map_ext; intros [k e]; reflexivity).
  apply (sort_map (@fst (list Z) json) (@fst (list Z) json)). intros [k e]. reflexivity.
Qed.

(* reading back a stored value gives its canonical form *)
Lemma tree_jv : forall v fuel,
  wf_json true v = true -> blen (encode_value v) <= 2 ^ 24 -> (depth v < fuel)%nat ->
  tree_of_value fuel (jv_of v) = Ok (canon v).
Proof.
  induction v as [| bb | x | s | els IH | kvs IH] using json_ind2; intros fuel Hwf Hlen Hd;
    (destruct fuel as [|f]; [lia|]); cbn [jv_of tree_of_value]; try reflexivity.
  - (* array *)
    cbn [wf_json] in Hwf. set (b := encode_value (JArr els)) in *.
    destruct (arr_view els b eq_refl Hlen Hwf) as (Hrt & Hec & Hrd).
    rewrite Hrt. cbn [bind]. change (negb (JSONB_TYPE_ARRAY =? JSONB_TYPE_ARRAY)) with false. cbv iota.
    rewrite Hec. cbn [bind]. unfold zlen. rewrite Nat2Z.id.
    rewrite (collect_map els canon); [reflexivity|].
    intros i e Hi. rewrite Z.add_0_l. destruct (Hrd i e Hi) as [Hde Hle].
    destruct (read_entry b (Z.of_nat i)) as [w| | |]; cbn [bind] in *; try discriminate.
    rewrite Hde. cbn [bind].
    rewrite Forall_forall in IH. apply IH.
    + eapply nth_error_In. exact Hi.
    + eapply forallb_nth; eassumption.
    + lia.
    + pose proof (depth_arr els e (nth_error_In _ _ Hi)). lia.
  - (* object *)
    rewrite canon_obj.
    change (wf_json true (JObj kvs)) with (forallb member_ok kvs) in Hwf.
    set (b := encode_value (JObj kvs)) in *.
    destruct (obj_view kvs b eq_refl Hlen Hwf) as (Hrt & Hec & Hrd).
    set (l := stable_sort fst kvs) in *.
    rewrite Hrt. cbn [bind]. change (negb (JSONB_TYPE_OBJECT =? JSONB_TYPE_OBJECT)) with false. cbv iota.
    rewrite Hec. cbn [bind]. pose proof (zlen_nonneg l).
    replace (zlen l * 2 / 2) with (zlen l) by lia. unfold zlen. rewrite Nat2Z.id.
    rewrite (collect_map l (fun kv => (fst kv, canon (snd kv)))); [reflexivity|].
    intros i [k e] Hi. rewrite Z.add_0_l. destruct (Hrd i k e Hi) as (Hk & Hv & Hle).
    rewrite Hk, Hv. cbn [bind rmap fst snd].
    assert (Hin : In (k, e) kvs) by (apply (sort_in fst); eapply nth_error_In; exact Hi).
    rewrite Forall_forall in IH. pose proof (IH (k, e) Hin f) as IHe. cbn [snd] in IHe.
    rewrite IHe.
    + reflexivity.
    + rewrite forallb_forall in Hwf. specialize (Hwf _ Hin). cbn [member_ok] in Hwf.
      apply andb_true_iff in Hwf. apply Hwf.
    + lia.
    + pose proof (depth_obj kvs k e Hin). lia.
Qed.
