(* C37 - Group commit completes every commit exactly once.
   Property theorems only.  The system is Model/GroupCommit.v: GroupCommitQueue
   (src/database/group_commit.rs) together with the caller protocol of execute_small_commit
   (src/database/transaction.rs), as an interleaving system (Lib/Interleave.v).  [step true] is
   the code as it is (since /repo 77fabcc only the elected leader calls take_pending);
   [step false] is the caller protocol before that commit, kept for the refutation.  Every theorem
   quantifies over all programs (any number of threads, any number of commits per thread, empty
   payloads, failing WAL writes) and over all schedules [sched : list nat], i.e. over every
   interleaving of the atomic steps. *)
From Coq Require Import ZArith List Bool.
From TV Require Import Lib.Interleave Model.GroupCommit Corr.C37.
From TV Require Import Proof.GroupCommitSafe Proof.GroupCommitLive Proof.GroupCommitRepair Proof.GroupCommitCorr.
Import ListNotations.
Open Scope Z_scope.

(* (1) no payload is appended to the log twice - whatever the interleaving *)
Theorem written_at_most_once :
  forall fx progs sched, NoDup (log (sh (run (step fx) sched (init progs)))).
Proof. exact written_at_most_once_l. Qed.

(* (2)+(3) every commit that was told Ok had its payload in the log when it returned (a_loglen =
   length of the log at the return) and is not a member of a failed batch; every member of a batch
   whose write failed is told so (never Ok) *)
Theorem written_before_ack :
  forall progs sched,
    let s := sh (run (step true) sched (init progs)) in
    forall a, In a (acks s) -> ack_good s a /\ (In (a_id a) (att_fail s) -> a_res a <> ROk).
Proof. exact repair_written_before_ack_l. Qed.

(* the reason: an elected leader never finds its own commit taken by another committer *)
Theorem leader_keeps_its_commit :
  forall progs sched, stolen (sh (run (step true) sched (init progs))) = false.
Proof. exact repair_no_steal_l. Qed.

(* (1)-(3) on the comparer's own notion of a case (programs + schedule, as the harness runs them
   under the deterministic scheduler): no hypothesis, no finding class is left *)
Theorem case_property :
  forall c,
    let s := sh (fst (final_and_obs c)) in
    NoDup (log s) /\ forall a, In a (acks s) -> ack_good s a /\ (In (a_id a) (att_fail s) -> a_res a <> ROk).
Proof. exact case_property_l. Qed.

(* history (finding F-C37-1, fixed by /repo 77fabcc): in the protocol BEFORE that commit, where
   every committer called take_pending, a commit is acknowledged while its payload is unwritten;
   in any variant the acknowledgements are fine as long as no leader loses its commit *)
Theorem ack_before_write_refuted_before_77fabcc :
  exists progs sched,
    let s := sh (run (step false) sched (init progs)) in
    exists a, In a (acks s) /\ a_res a = ROk /\ a_id a <> 0 /\ ~ In (a_id a) (log s).
Proof. exact ack_before_write_refuted_l. Qed.
Theorem written_before_ack_any_variant :
  forall fx progs sched,
    let s := sh (run (step fx) sched (init progs)) in
    stolen s = false -> forall a, In a (acks s) -> ack_good s a.
Proof. exact written_before_ack_l. Qed.

(* (4) no lost wake-up: whenever a committer is blocked in flush_complete.wait there is another
   thread that is not blocked, that holds a drained batch or is about to take a non-empty queue,
   and that calls notify_all (emptying the wait set) within finitely many of its own steps *)
Theorem no_lost_wakeup :
  forall fx progs sched t,
    let s := run (step fx) sched (init progs) in
    blocked t s = true ->
    exists u th, u <> t /\ lget (thrs s) u = Some th /\ flusher fx (sh s) th /\
                 step fx u s <> None /\
                 exists m, waiters (sh (run (step fx) (repeat u m) s)) = [].
Proof. exact no_lost_wakeup_l. Qed.

(* (5) no stuck flag, nothing lost: when every committer has returned, flush_in_progress is
   false, the wait set and the queue are empty, and every commit that was ever submitted is in the
   log (exactly once by (1)) unless it was a member of a batch whose write failed *)
Theorem quiescent_clean :
  forall fx progs sched,
    let s := run (step fx) sched (init progs) in
    all_finished s = true ->
    fip (sh s) = false /\ waiters (sh s) = [] /\ pending (sh s) = [] /\
    forall c lb, In (c, lb) (subs (sh s)) ->
      (In c (log (sh s)) /\ ~ In c (att_fail (sh s))) \/ In c (att_fail (sh s)).
Proof. exact quiescent_l. Qed.

(* non-vacuity: a run in which commits are acknowledged (two threads, a follower completed by
   the leader); the old witness schedule is harmless now; a reachable state with a blocked waiter;
   a quiescent state; a failing batch whose two members are both told *)
Example c37_witness :
  (let s := sh (run (step true) (repeat 0%nat 4 ++ repeat 1%nat 4 ++ repeat 0%nat 10 ++ repeat 1%nat 5) (init [[c_plain]; [c_plain]])) in
   log s = [1; 2] /\ map a_res (acks s) = [ROk; ROk] /\ map a_id (acks s) = [1; 2])
  /\ (let s := sh (run (step true) (witness_sched ++ repeat 1%nat 20 ++ repeat 0%nat 20) (init witness_progs)) in
      log s = [1; 2; 3] /\ map a_id (acks s) = [1; 2; 3] /\ map a_loglen (acks s) = [2; 2; 3])
  /\ stolen (sh (run (step false) witness_sched (init witness_progs))) = true
  /\ blocked 1%nat (run (step true) (repeat 0%nat 4 ++ repeat 1%nat 4) (init [[c_plain]; [c_plain]])) = true
  /\ all_finished (run (step true) (repeat 0%nat 4 ++ repeat 1%nat 4 ++ repeat 0%nat 10 ++ repeat 1%nat 5) (init [[c_plain]; [c_plain]])) = true
  /\ (let s := sh (run (step true) (repeat 0%nat 4 ++ repeat 1%nat 4 ++ repeat 0%nat 40 ++ repeat 1%nat 5) (init [[Commit false (Some 1%nat)]; [c_plain]])) in
      log s = [1] /\ att_fail s = [1; 2] /\ map a_res (acks s) = [RErrFlush; RErrReported]).
Proof. vm_compute. repeat split. Qed.

Check written_at_most_once : forall fx progs sched, NoDup (log (sh (run (step fx) sched (init progs)))).
Check written_before_ack : forall progs sched, let s := sh (run (step true) sched (init progs)) in forall a, In a (acks s) -> ack_good s a /\ (In (a_id a) (att_fail s) -> a_res a <> ROk).
Check leader_keeps_its_commit : forall progs sched, stolen (sh (run (step true) sched (init progs))) = false.
Check case_property : forall c, let s := sh (fst (final_and_obs c)) in NoDup (log s) /\ forall a, In a (acks s) -> ack_good s a /\ (In (a_id a) (att_fail s) -> a_res a <> ROk).
Check ack_before_write_refuted_before_77fabcc : exists progs sched, let s := sh (run (step false) sched (init progs)) in exists a, In a (acks s) /\ a_res a = ROk /\ a_id a <> 0 /\ ~ In (a_id a) (log s).
Check written_before_ack_any_variant : forall fx progs sched, let s := sh (run (step fx) sched (init progs)) in stolen s = false -> forall a, In a (acks s) -> ack_good s a.
Check no_lost_wakeup : forall fx progs sched t, let s := run (step fx) sched (init progs) in blocked t s = true -> exists u th, u <> t /\ lget (thrs s) u = Some th /\ flusher fx (sh s) th /\ step fx u s <> None /\ exists m, waiters (sh (run (step fx) (repeat u m) s)) = [].
Check quiescent_clean : forall fx progs sched, let s := run (step fx) sched (init progs) in all_finished s = true -> fip (sh s) = false /\ waiters (sh s) = [] /\ pending (sh s) = [] /\ forall c lb, In (c, lb) (subs (sh s)) -> (In c (log (sh s)) /\ ~ In c (att_fail (sh s))) \/ In c (att_fail (sh s)).

Print Assumptions written_at_most_once.
Print Assumptions written_before_ack.
Print Assumptions leader_keeps_its_commit.
Print Assumptions case_property.
Print Assumptions ack_before_write_refuted_before_77fabcc.
Print Assumptions written_before_ack_any_variant.
Print Assumptions no_lost_wakeup.
Print Assumptions quiescent_clean.
