(* C09 proofs, part 4: INSERT.  Under the invariant, one row is accepted by the implementation
   model iff the table extended by it is a valid database, the accepted row keeps the invariant,
   and a whole INSERT statement outside class 10 (fails after its first row) behaves exactly like
   the reference's "apply, keep iff valid". *)
From Coq Require Import ZArith List Bool Lia ZifyBool Arith.
From TV Require Import Model.SqlSpec Model.CheckStr Model.ConstrSpec Model.ConstrImpl Model.ConstrClass
                       Proof.CheckStrMain Proof.ConstrBase.
Import ListNotations.
Open Scope Z_scope.

(* ---------------------------------------------------------------- index helpers *)
Lemma idx_find_app v ix1 ix2 :
  idx_find v (ix1 ++ ix2) = match idx_find v ix1 with Some k => Some k | None => idx_find v ix2 end.
Proof.
  unfold idx_find. induction ix1 as [|p ix1 IH]; [reflexivity|]. cbn [app find].
  destruct (value_eqb (fst p) v); [reflexivity|exact IH].
Qed.
Lemma idx_mem_ins v w k ix :
  idx_mem v (idx_ins w k ix) = idx_mem v ix || value_eqb w v.
Proof.
  unfold idx_ins. destruct (idx_mem w ix) eqn:M.
  - destruct (value_eqb w v) eqn:E; [|rewrite orb_false_r; reflexivity].
    apply value_eqb_eq in E. subst w. rewrite M. reflexivity.
  - unfold idx_mem. rewrite idx_find_app. destruct (idx_find v ix); [reflexivity|].
    unfold idx_find. cbn [find fst snd]. destruct (value_eqb w v); reflexivity.
Qed.

Lemma idx_add_length : forall ixs ds vs k, length (idx_add_from ixs ds vs k) = length ixs.
Proof.
  induction ixs as [|ix ixs IH]; intros ds vs k; [reflexivity|].
  destruct ds as [|d ds]; [reflexivity|]. destruct vs as [|v vs]; [reflexivity|].
  cbn [idx_add_from length]. rewrite IH. reflexivity.
Qed.
Lemma idx_add_nth : forall ixs ds vs k i d v,
  nth_error ds i = Some d -> nth_error vs i = Some v -> (i < length ixs)%nat ->
  nth i (idx_add_from ixs ds vs k) [] =
  if is_key d && negb (is_null v) then idx_ins v k (nth i ixs []) else nth i ixs [].
Proof.
  induction ixs as [|ix ixs IH]; intros ds vs k i d v Hd Hv Hi; [cbn [length] in Hi; lia|].
  destruct ds as [|d0 ds]; [destruct i; discriminate|]. destruct vs as [|v0 vs]; [destruct i; discriminate|].
  cbn [idx_add_from]. destruct i as [|i].
  - cbn [nth_error] in Hd, Hv. injection Hd as ->. injection Hv as ->. reflexivity.
  - cbn [nth_error] in Hd, Hv. cbn [nth]. apply IH; [exact Hd|exact Hv|cbn [length] in Hi; lia].
Qed.
Lemma idx_add_in : forall ixs ds vs k ix v0 k0,
  In ix (idx_add_from ixs ds vs k) -> In (v0, k0) ix ->
  (exists ix', In ix' ixs /\ In (v0, k0) ix') \/ is_null v0 = false.
Proof.
  induction ixs as [|ix0 ixs IH]; intros ds vs k ix v0 k0 Hin Hp; [destruct Hin|].
  destruct ds as [|d ds]; [left; exists ix; split; assumption|].
  destruct vs as [|v vs]; [left; exists ix; split; assumption|].
  cbn [idx_add_from] in Hin. destruct Hin as [<-|Hin].
  - destruct (is_key d && negb (is_null v)) eqn:K.
    + unfold idx_ins in Hp. destruct (idx_mem v ix0).
      * left. exists ix0. split; [left; reflexivity|exact Hp].
      * apply in_app_or in Hp. destruct Hp as [Hp|[Hp|[]]].
        -- left. exists ix0. split; [left; reflexivity|exact Hp].
        -- injection Hp as <- <-. right. apply andb_true_iff in K. destruct K as [_ K].
           apply negb_true_iff in K. exact K.
    + left. exists ix0. split; [left; reflexivity|exact Hp].
  - destruct (IH ds vs k ix v0 k0 Hin Hp) as [[ix' [H1 H2]]|H]; [left; exists ix'; split; [right; exact H1|exact H2]|right; exact H].
Qed.

(* ---------------------------------------------------------------- the table state after one accepted row *)
Definition ts_ins (ds : list cdecl) (ts : tstate) (r : row) (k : Z) : tstate :=
  mkT (ents ts ++ [mkEnt k false r]) (idx_add_from (idxs ts) ds r k).

Lemma visible_ins ds ts r k : visible (ts_ins ds ts r k) = visible ts ++ [r].
Proof. unfold visible, ts_ins. cbn [ents]. rewrite filter_app, map_app. reflexivity. Qed.

Lemma live_has_ins ds ts r k i v :
  live_has (ts_ins ds ts r k) i v = live_has ts i v || value_eqb (col_val i r) v.
Proof.
  unfold live_has, ts_ins. cbn [ents]. rewrite existsb_app. cbn [existsb live e_del e_row negb andb].
  rewrite orb_false_r. reflexivity.
Qed.

Lemma fresh_from_nth : forall ds i vs t j d v,
  fresh_from ds i vs t = true -> nth_error ds j = Some d -> nth_error vs j = Some v ->
  is_key d = true -> is_null v = false -> vmem v (colvals (i + j) t) = false.
Proof.
  induction ds as [|d0 ds IH]; intros i vs t j d v H Hd Hv K N; [destruct j; discriminate|].
  destruct vs as [|v0 vs]; [destruct j; discriminate|]. cbn [fresh_from] in H.
  apply andb_true_iff in H. destruct H as [H0 H1]. destruct j as [|j].
  - cbn [nth_error] in Hd, Hv. injection Hd as ->. injection Hv as ->. rewrite K, N in H0.
    cbn [negb orb] in H0. apply negb_true_iff in H0. rewrite Nat.add_0_r. exact H0.
  - cbn [nth_error] in Hd, Hv. replace (i + S j)%nat with (S i + j)%nat by lia.
    apply (IH (S i) vs t j d v H1 Hd Hv K N).
Qed.

Lemma row_fits_len n r : row_fits n r = true -> length r = n.
Proof. unfold row_fits. intros H. apply andb_true_iff in H. destruct H as [H _]. apply Nat.eqb_eq. exact H. Qed.

Lemma NoDup_snoc {A} (l : list A) x : NoDup l -> ~ In x l -> NoDup (l ++ [x]).
Proof.
  induction l as [|y l IH]; intros Hn Hx.
  - constructor; [intros []|constructor].
  - inversion Hn as [|? ? Hy Hl]; subst. cbn [app]. constructor.
    + intros Hin. apply in_app_or in Hin. destruct Hin as [Hin|[->|[]]]; [exact (Hy Hin)|apply Hx; left; reflexivity].
    + apply IH; [exact Hl|intros Hin; apply Hx; right; exact Hin].
Qed.

Lemma tinv_ins ds ts next r :
  tinv ds ts next -> 0 < next -> row_fits (length ds) r = true ->
  tinv ds (ts_ins ds ts r next) (next + 1).
Proof.
  intros [Hex Hnn [Hnd Hid] [Hrf Hli]] Hpos Hfit.
  pose proof (row_fits_len _ _ Hfit) as Hlr.
  constructor.
  - (* exact *)
    intros i d Hd K v Nv.
    assert (Hi : (i < length ds)%nat) by (apply nth_error_Some; rewrite Hd; discriminate).
    destruct (nth_error r i) as [vi|] eqn:Hvi; [|apply nth_error_None in Hvi; lia].
    unfold get_idx. change (idxs (ts_ins ds ts r next)) with (idx_add_from (idxs ts) ds r next).
    rewrite (idx_add_nth _ _ _ _ i d vi Hd Hvi) by lia.
    rewrite live_has_ins. rewrite K. cbn [andb].
    assert (Hcv : col_val i r = vi) by (unfold col_val; apply nth_error_nth; exact Hvi).
    rewrite Hcv. fold (get_idx ts i). destruct (is_null vi) eqn:Ni; cbn [negb].
    + rewrite (Hex i d Hd K v Nv).
      assert (E : value_eqb vi v = false).
      { destruct (value_eqb vi v) eqn:E; [|reflexivity]. apply value_eqb_eq in E. subst. congruence. }
      rewrite E, orb_false_r. reflexivity.
    + rewrite idx_mem_ins. rewrite (Hex i d Hd K v Nv). reflexivity.
  - (* no NULL keys *)
    intros ix v k Hin Hp. unfold ts_ins in Hin. cbn [idxs] in Hin.
    destruct (idx_add_in _ _ _ _ _ _ _ Hin Hp) as [[ix' [H1 H2]]|H]; [exact (Hnn ix' v k H1 H2)|exact H].
  - (* ids *)
    unfold ids_ok, ts_ins. cbn [ents]. split.
    + rewrite map_app. cbn [map e_id]. apply NoDup_snoc.
      * exact Hnd.
      * intros Hin. apply in_map_iff in Hin. destruct Hin as [e [He Hine]]. specialize (Hid e Hine). lia.
    + intros e He. apply in_app_or in He. destruct He as [He|[<-|[]]]; [specialize (Hid e He); lia|cbn [e_id]; lia].
  - unfold rows_ok, ts_ins. cbn [ents idxs]. split.
    + intros e He. apply in_app_or in He. destruct He as [He|[<-|[]]]; [exact (Hrf e He)|exact Hfit].
    + rewrite idx_add_length. exact Hli.
Qed.

Lemma tinv_next_mono ds ts n m : tinv ds ts n -> n <= m -> tinv ds ts m.
Proof.
  intros [Hex Hnn [Hnd Hid] Hr] Hle. constructor; try assumption.
  split; [exact Hnd|]. intros e He. specialize (Hid e He). lia.
Qed.

(* ---------------------------------------------------------------- validity of the extended table *)
Lemma fk_row_mono cs : forall vs (P : table) (x : row), fk_row_from cs vs P = true -> fk_row_from cs vs (P ++ [x]) = true.
Proof.
  induction cs as [|d cs IH]; intros vs P x H; [reflexivity|]. destruct vs as [|v vs]; [reflexivity|].
  cbn [fk_row_from] in *. apply andb_true_iff in H. destruct H as [H1 H2]. rewrite (IH vs P x H2), andb_true_r.
  destruct (c_fk d) as [f|]; [|reflexivity]. rewrite colvals_app, vmem_app.
  destruct (is_null v); [reflexivity|]. cbn [orb] in *. rewrite H1. reflexivity.
Qed.
Lemma fk_ok_mono cs (P C : table) (x : row) : fk_ok cs P C = true -> fk_ok cs (P ++ [x]) C = true.
Proof.
  unfold fk_ok. rewrite !forallb_forall. intros H r Hr. apply fk_row_mono. exact (H r Hr).
Qed.

Lemma valid_ins_p sch (P C : table) (r : row) :
  valid_db sch (P, C) = true -> length r = length (s_p sch) ->
  valid_db sch (P ++ [r], C) = row_ok (s_p sch) r && fresh_from (s_p sch) 0 r P.
Proof.
  unfold valid_db. cbn [fst snd]. intros H Hl.
  rewrite !andb_true_iff in H. destruct H as [[[[H1 H2] H3] H4] H5].
  pose proof (fk_ok_mono _ _ _ r H5) as H6.
  apply Bool.eq_iff_eq_true. rewrite forallb_app, (uniq_ok_snoc _ _ _ Hl). cbn [forallb].
  rewrite !andb_true_iff. tauto.
Qed.
Lemma valid_ins_c sch (P C : table) (r : row) :
  valid_db sch (P, C) = true -> length r = length (s_c sch) ->
  valid_db sch (P, C ++ [r]) = row_ok (s_c sch) r && fresh_from (s_c sch) 0 r C && fk_row_from (s_c sch) r P.
Proof.
  unfold valid_db. cbn [fst snd]. intros H Hl.
  rewrite !andb_true_iff in H. destruct H as [[[[H1 H2] H3] H4] H5].
  apply Bool.eq_iff_eq_true. unfold fk_ok in *. rewrite !forallb_app, (uniq_ok_snoc _ _ _ Hl). cbn [forallb].
  rewrite !andb_true_iff. tauto.
Qed.

Lemma nodupv_app_l a b : nodupv (a ++ b) = true -> nodupv a = true.
Proof.
  induction a as [|x a IH]; [reflexivity|]. cbn [app nodupv]. intros H.
  apply andb_true_iff in H. destruct H as [H1 H2]. rewrite (IH H2), andb_true_r.
  destruct (is_null x); [reflexivity|]. cbn [orb] in *. rewrite vmem_app in H1.
  destruct (vmem x a); [discriminate|reflexivity].
Qed.
Lemma uniq_from_app_l ds : forall i a b, uniq_from ds i (a ++ b) = true -> uniq_from ds i a = true.
Proof.
  induction ds as [|d ds IH]; intros i a b H; [reflexivity|]. cbn [uniq_from] in *.
  apply andb_true_iff in H. destruct H as [H1 H2]. rewrite (IH _ _ _ H2), andb_true_r.
  destruct (is_key d); [|reflexivity]. cbn [negb orb] in *. rewrite colvals_app in H1. exact (nodupv_app_l _ _ H1).
Qed.

(* a valid table extended by r :: rs stays valid when only r is added *)
Lemma valid_prefix sch d t (r : row) (rs : list row) :
  valid_db sch d = true -> length r = length (cols_of sch t) ->
  valid_db sch (set_tab d t (tab_of d t ++ r :: rs)) = true ->
  valid_db sch (set_tab d t (tab_of d t ++ [r])) = true.
Proof.
  destruct d as [P C]. intros Hv Hl H. destruct t; cbn [set_tab tab_of fst snd cols_of] in *.
  - eapply eq_trans; [exact (valid_ins_p sch P C r Hv Hl)|].
    unfold valid_db in H. cbn [fst snd] in H.
    apply andb_true_iff in H. destruct H as [H _]. apply andb_true_iff in H. destruct H as [H _].
    apply andb_true_iff in H. destruct H as [H _]. apply andb_true_iff in H. destruct H as [H1 H2].
    rewrite forallb_app in H1. apply andb_true_iff in H1. destruct H1 as [_ H1]. cbn [forallb] in H1.
    apply andb_true_iff in H1. destruct H1 as [H1 _]. rewrite H1. cbn [andb].
    change (P ++ r :: rs) with (P ++ [r] ++ rs) in H2. rewrite app_assoc in H2.
    unfold uniq_ok in H2. apply uniq_from_app_l in H2. fold (uniq_ok (s_p sch) (P ++ [r])) in H2.
    rewrite (uniq_ok_snoc _ _ _ Hl) in H2. apply andb_true_iff in H2. tauto.
  - eapply eq_trans; [exact (valid_ins_c sch P C r Hv Hl)|].
    unfold valid_db in H. cbn [fst snd] in H.
    apply andb_true_iff in H. destruct H as [H H5]. apply andb_true_iff in H. destruct H as [H H4].
    apply andb_true_iff in H. destruct H as [_ H3].
    rewrite forallb_app in H3. apply andb_true_iff in H3. destruct H3 as [_ H3]. cbn [forallb] in H3.
    apply andb_true_iff in H3. destruct H3 as [H3 _]. rewrite H3. cbn [andb].
    change (C ++ r :: rs) with (C ++ [r] ++ rs) in H4. rewrite app_assoc in H4.
    unfold uniq_ok in H4. apply uniq_from_app_l in H4. fold (uniq_ok (s_c sch) (C ++ [r])) in H4.
    rewrite (uniq_ok_snoc _ _ _ Hl) in H4. apply andb_true_iff in H4. destruct H4 as [_ H4]. rewrite H4. cbn [andb].
    unfold fk_ok in H5. rewrite forallb_app in H5. apply andb_true_iff in H5. destruct H5 as [_ H5].
    cbn [forallb] in H5. apply andb_true_iff in H5. tauto.
Qed.

(* ---------------------------------------------------------------- FOREIGN KEY probe *)
Lemma fk_from_agree sch p :
  idx_exact (s_p sch) p ->
  forall ds vs,
    (forall d f, In d ds -> c_fk d = Some f -> exists pd, nth_error (s_p sch) (fk_col f) = Some pd /\ is_key pd = true) ->
    fk_from (s_p sch) p ds vs = fk_row_from ds vs (visible p).
Proof.
  intros Hex. induction ds as [|d ds IH]; intros vs Hd; [reflexivity|]. destruct vs as [|v vs]; [reflexivity|].
  cbn [fk_from fk_row_from]. rewrite IH by (intros d' f Hin; apply Hd; right; exact Hin). f_equal.
  destruct (c_fk d) as [f|] eqn:Ef; [|reflexivity]. destruct (is_null v) eqn:N; [reflexivity|]. cbn [orb].
  destruct (Hd d f (or_introl eq_refl) Ef) as [pd [Hpd K]]. unfold fk_probe. rewrite Hpd, K.
  rewrite (Hex _ pd Hpd K v N). apply live_has_vmem.
Qed.

(* ---------------------------------------------------------------- one row *)
Lemma ins_row_ok_eq sch t st (r : row) :
  ins_row_ok sch t st r =
  match validate_new (cols_of sch t) r with
  | Some true => Some ((match t with TC => fk_from (s_p sch) (d_p st) (cols_of sch t) r | TP => true end) &&
                       uq_from (ts_of st t) (cols_of sch t) 0 r)
  | o => o
  end.
Proof.
  unfold ins_row_ok, validate_new. destruct (negb (nn_from (cols_of sch t) r)); [reflexivity|].
  destruct (chk_row (cols_of sch t) r) as [[|]|]; reflexivity.
Qed.

Lemma cols_len sch t : wf_schema sch -> (length (cols_of sch t) <= 10)%nat.
Proof. intros W. destruct t; [exact (wf_np _ W)|exact (wf_nc _ W)]. Qed.
Lemma cols_frag sch t : wf_schema sch -> checks_frag_from (cols_of sch t) 0.
Proof. intros W. destruct t; [exact (wf_chk_p _ W)|exact (wf_chk_c _ W)]. Qed.
Lemma inv_t sch st t : Inv sch st -> tinv (cols_of sch t) (ts_of st t) (d_next st).
Proof. intros I. destruct t; [exact (inv_p _ _ I)|exact (inv_c _ _ I)]. Qed.
Lemma abs_tab st t : tab_of (abs_db st) t = visible (ts_of st t).
Proof. destruct t; reflexivity. Qed.

Lemma ins_one sch t st (r : row) :
  wf_schema sch -> Inv sch st -> row_fits (length (cols_of sch t)) r = true ->
  ins_row_ok sch t st r = Some (valid_db sch (set_tab (abs_db st) t (tab_of (abs_db st) t ++ [r]))).
Proof.
  intros W I Hfit. rewrite ins_row_ok_eq.
  rewrite (validate_new_agree _ r (cols_len sch t W) (cols_frag sch t W) Hfit).
  pose proof (row_fits_len _ _ Hfit) as Hl.
  pose proof (inv_valid _ _ I) as Hv.
  rewrite (uq_from_agree (cols_of sch t) (ts_of st t) (ti_exact _ _ _ (inv_t sch st t I)) (cols_of sch t) r 0%nat)
    by (intros j d Hj; exact Hj).
  destruct t; cbn [cols_of ts_of set_tab tab_of abs_db fst snd] in *.
  - etransitivity; [|apply f_equal; symmetry; exact (valid_ins_p sch _ _ r Hv Hl)].
    destruct (row_ok (s_p sch) r); reflexivity.
  - etransitivity; [|apply f_equal; symmetry; exact (valid_ins_c sch _ _ r Hv Hl)].
    rewrite (fk_from_agree sch (d_p st) (ti_exact _ _ _ (inv_p _ _ I)) (s_c sch) r (wf_fk_decl _ W)).
    destruct (row_ok (s_c sch) r); cbn [andb]; [|reflexivity].
    destruct (fk_row_from (s_c sch) r (visible (d_p st))); destruct (fresh_from (s_c sch) 0 r (visible (d_c st))); reflexivity.
Qed.

Lemma ins_write_inv sch t st (r : row) :
  wf_schema sch -> Inv sch st -> row_fits (length (cols_of sch t)) r = true ->
  valid_db sch (set_tab (abs_db st) t (tab_of (abs_db st) t ++ [r])) = true ->
  Inv sch (ins_write sch t st r) /\
  abs_db (ins_write sch t st r) = set_tab (abs_db st) t (tab_of (abs_db st) t ++ [r]).
Proof.
  intros W I Hfit Hv. pose proof (inv_next _ _ I) as Hpos.
  assert (Habs : abs_db (ins_write sch t st r) = set_tab (abs_db st) t (tab_of (abs_db st) t ++ [r])).
  { destruct t; unfold ins_write, abs_db; cbn [ts_of set_ts d_p d_c set_tab tab_of fst snd cols_of].
    - fold (ts_ins (s_p sch) (d_p st) r (d_next st)). rewrite visible_ins. reflexivity.
    - fold (ts_ins (s_c sch) (d_c st) r (d_next st)). rewrite visible_ins. reflexivity. }
  split; [|exact Habs]. constructor.
  - rewrite Habs. exact Hv.
  - destruct t; unfold ins_write; cbn [ts_of set_ts d_p d_c d_next cols_of] in *.
    + fold (ts_ins (s_p sch) (d_p st) r (d_next st)). apply tinv_ins; [exact (inv_p _ _ I)|exact Hpos|exact Hfit].
    + apply (tinv_next_mono _ _ _ _ (inv_p _ _ I)). lia.
  - destruct t; unfold ins_write; cbn [ts_of set_ts d_p d_c d_next cols_of] in *.
    + apply (tinv_next_mono _ _ _ _ (inv_c _ _ I)). lia.
    + fold (ts_ins (s_c sch) (d_c st) r (d_next st)). apply tinv_ins; [exact (inv_c _ _ I)|exact Hpos|exact Hfit].
  - unfold ins_write. destruct t; cbn [set_ts d_next]; lia.
Qed.

(* ---------------------------------------------------------------- the per-row loop *)
Lemma set_tab_same d t : set_tab d t (tab_of d t) = d.
Proof. destruct d, t; reflexivity. Qed.
Lemma set_tab_twice d t x y : set_tab (set_tab d t x) t y = set_tab d t y.
Proof. destruct d, t; reflexivity. Qed.
Lemma tab_of_set d t x : tab_of (set_tab d t x) t = x.
Proof. destruct d, t; reflexivity. Qed.

Lemma ins_loop_ok sch t :
  wf_schema sch ->
  forall rows st, Inv sch st -> forallb (row_fits (length (cols_of sch t))) rows = true ->
    match ins_loop sch t st rows with
    | (Some true, st') => Inv sch st' /\ abs_db st' = set_tab (abs_db st) t (tab_of (abs_db st) t ++ rows)
    | (Some false, _) => True
    | (None, _) => False
    end.
Proof.
  intros W. induction rows as [|r rs IH]; intros st I Hfit.
  - cbn [ins_loop]. split; [exact I|]. rewrite app_nil_r, set_tab_same. reflexivity.
  - cbn [forallb] in Hfit. apply andb_true_iff in Hfit. destruct Hfit as [Hr Hrs].
    cbn [ins_loop]. rewrite (ins_one sch t st r W I Hr).
    destruct (valid_db sch (set_tab (abs_db st) t (tab_of (abs_db st) t ++ [r]))) eqn:Hv; [|exact Logic.I].
    destruct (ins_write_inv sch t st r W I Hr Hv) as [I' Habs].
    specialize (IH (ins_write sch t st r) I' Hrs).
    destruct (ins_loop sch t (ins_write sch t st r) rs) as [[[|]|] st'']; try exact IH.
    destruct IH as [I'' Habs'']. split; [exact I''|].
    rewrite Habs'', Habs, tab_of_set, set_tab_twice, <- app_assoc. reflexivity.
Qed.

(* ---------------------------------------------------------------- the INSERT statement *)
Theorem insert_exact_l sch st t (rows : list row) :
  wf_schema sch -> Inv sch st ->
  forallb (row_fits (length (cols_of sch t))) rows = true ->
  ins_partial sch t st rows = false ->
  exists ok st', impl_step sch st (SIns t rows) = (Some ok, st') /\
                 exec_write sch (abs_db st) (SIns t rows) = (ok, abs_db st') /\ Inv sch st'.
Proof.
  intros W I Hfit Hpart. cbn [impl_step]. rewrite Hfit. unfold exec_write. cbn [apply_stmt].
  pose proof (ins_loop_ok sch t W rows st I Hfit) as HL.
  destruct rows as [|r rs].
  - cbn [ins_loop] in *. exists true, st. split; [reflexivity|]. split; [|exact I].
    rewrite app_nil_r, set_tab_same. rewrite (inv_valid _ _ I). reflexivity.
  - pose proof Hfit as Hfit'. cbn [forallb] in Hfit'. apply andb_true_iff in Hfit'. destruct Hfit' as [Hr Hrs].
    pose proof (ins_one sch t st r W I Hr) as H1.
    destruct (valid_db sch (set_tab (abs_db st) t (tab_of (abs_db st) t ++ [r]))) eqn:Hv1.
    + (* the first row is accepted *)
      destruct (ins_loop sch t st (r :: rs)) as [[[|]|] st'] eqn:EL.
      * destruct HL as [I' Habs]. exists true, st'. split; [reflexivity|].
        rewrite <- Habs, (inv_valid _ _ I'). split; [reflexivity|exact I'].
      * exfalso. destruct rs as [|r2 rs].
        -- cbn [ins_loop] in EL. rewrite H1 in EL. cbn [ins_loop] in EL. discriminate.
        -- unfold ins_partial in Hpart. rewrite H1, EL in Hpart. cbn [fst] in Hpart. discriminate.
      * destruct HL.
    + (* the first row is refused: so is the statement, by the reference too *)
      cbn [ins_loop]. rewrite H1. exists false, st. split; [reflexivity|].
      destruct (valid_db sch (set_tab (abs_db st) t (tab_of (abs_db st) t ++ r :: rs))) eqn:Hv.
      * pose proof (valid_prefix sch (abs_db st) t r rs (inv_valid _ _ I) (row_fits_len _ _ Hr) Hv) as Hc.
        congruence.
      * split; [reflexivity|exact I].
Qed.
