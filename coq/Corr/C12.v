(* C12 correspondence.  The harness runs a history (INSERT statements with NULL / absent /
   explicit ids, some made to fail, DELETEs, BEGIN / COMMIT / ROLLBACK, close + Database::open)
   on the real Database through SQL and prints, per INSERT, what it showed:
     IOk ids     the statement returned Ok; ids = RETURNING id, one per row
     IErr left   the statement returned Err; left = ids of the rows of THIS statement found in the
                 table right afterwards (in row order; a prefix of the statement's rows)
   model_agrees: the counter model (Model/AutoInc.v), told only at which row each failing
   statement stopped, reproduces every id.  spec_ok: the property's own checker on the observed
   ids alone.  Definitions only. *)
From Coq Require Import ZArith List Bool.
From TV Require Import Lib.MachInt.
From TV Require Export Model.AutoInc.     (* case files name its constructors *)
Import ListNotations.
Open Scope Z_scope.

Inductive obs := IOk (ids : list Z) | IErr (lft : list Z).
Inductive cop :=
| CIns (rows : list row) (o : obs)
| CDel | CBegin | CCommit | CRollback | CReopen.
(* pk: id is also PRIMARY KEY; wal: PRAGMA wal=ON in every session.  Weird: the run showed something
   this case language cannot express (panic, non-integer id, rows left behind that are not a prefix) *)
Inductive case := Case (pk wal : bool) (ops : list cop) | Weird.

(* the model's view of an operation: for a failed statement the only thing taken from the
   observation is the number of rows it had written when it stopped *)
Definition to_op (c : cop) : op :=
  match c with
  | CIns rows (IOk _) => Insert rows None
  | CIns rows (IErr lft) => Insert rows (Some (length lft))
  | CDel => Delete | CBegin => TxBegin | CCommit => TxCommit | CRollback => TxRollback | CReopen => Reopen
  end.

Fixpoint agrees_from (ai : Z) (ops : list cop) : bool :=
  match ops with
  | [] => true
  | c :: t =>
      match c with
      | CIns rows o =>
          match to_op c with
          | Insert rows' ext =>
              let '(ai', w, ok) := insert_stmt ai rows' ext in
              match o with
              | IOk ids => ok && zlist_eqb (map fst w) ids
              | IErr lft => negb ok && zlist_eqb (map fst w) lft
              end && agrees_from ai' t
          | _ => false
          end
      | _ => agrees_from ai t
      end
  end.

Definition model_agrees (c : case) : bool :=
  match c with
  | Case _ _ ops => agrees_from 0 ops
  | Weird => false
  end.

(* the observed trace: each id the implementation showed, paired with whether the statement gave
   NULL / no id for that row (so the value was generated) *)
Fixpoint zip_rows (rows : list row) (ids : list Z) : list (Z * bool) :=
  match rows, ids with
  | r :: rt, i :: it => (i, match r with RNull => true | RInt _ => false end) :: zip_rows rt it
  | _, _ => []
  end.
Fixpoint observed (ops : list cop) : list (Z * bool) :=
  match ops with
  | [] => []
  | CIns rows (IOk ids) :: t => zip_rows rows ids ++ observed t
  | CIns rows (IErr lft) :: t => zip_rows rows lft ++ observed t
  | _ :: t => observed t
  end.

(* the property itself on what was observed (checker proved equivalent to fresh_increasing) *)
Definition spec_ok (c : case) : bool :=
  match c with
  | Case _ _ ops => fresh_increasing_chk (observed ops)
  | Weird => true
  end.

Definition known_class (c : case) : Z :=
  match c with
  | Case _ _ ops => AutoInc.known_class (map to_op ops)
  | Weird => 0
  end.

Fixpoint failures_from (i : Z) (cs : list case) : list (Z * bool * bool * Z) :=
  match cs with
  | [] => []
  | c :: t =>
      let m := model_agrees c in
      let s := spec_ok c in
      if m && s then failures_from (i + 1) t else (i, m, s, known_class c) :: failures_from (i + 1) t
  end.
Definition failures := failures_from 0.
