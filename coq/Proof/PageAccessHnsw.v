(* C23 proofs, part 4: HNSW node-page readers on arbitrary page bytes.
   get_slot panics exactly when the slot entry announced by the stored slot_count lies beyond the page
   (hnsw_slot_oob); read_node_data additionally when an active entry's offset + size exceeds the page
   (hnsw_node_oob).  Everywhere else: a value or an error, and the returned slice lies inside the page. *)
From Coq Require Import ZArith List Bool Lia ZifyBool.
From TV Require Import Lib.MachInt Lib.MachIntFacts Gen.PageConsts Gen.HnswLayout
  Model.StoredBytes Model.PageAccess Proof.StoredBytes Proof.PageAccessLeaf.
Import ListNotations.
Open Scope Z_scope.
Ltac Zify.zify_post_hook ::= Z.to_euclidean_division_equations.
Arguments Z.div : simpl never.
Arguments Z.modulo : simpl never.
Arguments Z.mul : simpl never.
Arguments Z.add : simpl never.
Arguments Z.sub : simpl never.
Arguments Z.pow : simpl never.
Arguments Z.of_nat : simpl never.
Arguments Z.to_nat : simpl never.

Lemma hnsw_off i : hnsw_slot_offset i = 64 + 4 * i.
Proof. cbv [hnsw_slot_offset HNSW_PAGE_HEADER_SIZE HNSW_SLOT_SIZE]. lia. Qed.
Lemma hnsw_off_safe i : 0 <= i < 65536 -> hnsw_slot_offset_safe i = true.
Proof.
  intros H. cbv [hnsw_slot_offset_safe HNSW_PAGE_HEADER_SIZE HNSW_SLOT_SIZE in_u].
  change (2 ^ 64) with 18446744073709551616. lia.
Qed.

Lemma hnsw_hdr_ok d : blen d = PAGE_SIZE -> hnsw_hdr d = Ok (bslice d 16 68).
Proof.
  intros Hl. unfold hnsw_hdr, PH_SIZE, HNSW_HDR_SIZE. change (16 + 52) with 68.
  apply sub_ok. apply bslice_ok_true. rewrite Hl. unfold PAGE_SIZE. lia.
Qed.
Lemma hnsw_slot_count_ok d : blen d = PAGE_SIZE -> bytes_ok d = true ->
  exists sc, hnsw_slot_count d = Ok sc /\ 0 <= sc < 65536.
Proof.
  intros Hl Hb. unfold hnsw_slot_count. rewrite (hnsw_hdr_ok d Hl). cbn [bind].
  eexists. split; [reflexivity|].
  set (h := bslice d 16 68).
  assert (Hh : bytes_ok h = true) by (apply bytes_ok_bslice; exact Hb).
  assert (Hhl : blen h = 52).
  { unfold h. rewrite blen_bslice by (apply bslice_ok_true; rewrite Hl; unfold PAGE_SIZE; lia). lia. }
  pose proof (le_bound h 0 2 Hh) as H. change (256 ^ 2) with 65536 in H. apply H; lia.
Qed.

Lemma hnsw_total_l : forall d, hnsw_from_bytes d = Ok tt ->
  value_or_error (hnsw_slot_count d) /\ value_or_error (hnsw_free_space d).
Proof.
  intros d Hp. apply node_from_page_len in Hp. unfold hnsw_slot_count, hnsw_free_space.
  rewrite (hnsw_hdr_ok d Hp). cbn [bind]. split; exact I.
Qed.

Lemma hnsw_get_slot_cases d i : blen d = PAGE_SIZE -> bytes_ok d = true -> 0 <= i < 65536 ->
  (hnsw_slot_oob d i = true /\ hnsw_get_slot d i = Panic) \/
  (hnsw_slot_oob d i = false /\ hnsw_get_slot d i = Ok None) \/
  (hnsw_slot_oob d i = false /\
   exists off st sz, hnsw_get_slot d i = Ok (Some (off, st, sz)) /\ 0 <= off < 8192 /\ 0 <= sz < 65536).
Proof.
  intros Hl Hb Hi. unfold hnsw_slot_oob, hnsw_get_slot.
  destruct (hnsw_slot_count_ok d Hl Hb) as (sc & -> & Hsc). cbn [bind].
  destruct (Z.geb_spec i sc) as [Ge|L].
  { right. left. split; [|reflexivity]. destruct (Z.ltb_spec i sc); [lia | reflexivity]. }
  destruct (Z.ltb_spec i sc) as [_|C]; [|lia]. cbn [andb].
  rewrite hnsw_off_safe by lia. rewrite hnsw_off. unfold HNSW_SLOT_SIZE, PAGE_SIZE in *.
  destruct (Z.ltb_spec 16384 (64 + 4 * i + 4)) as [O|I].
  - left. split; [reflexivity|]. rewrite sub_bad by (apply bslice_ok_false; lia). reflexivity.
  - right. right. split; [reflexivity|].
    rewrite sub_ok by (apply bslice_ok_true; lia). cbn [bind].
    set (b := bslice d (64 + 4 * i) (64 + 4 * i + 4)).
    assert (Hs : bytes_ok b = true) by (apply bytes_ok_bslice; exact Hb).
    assert (Hsl : blen b = 4) by (unfold b; rewrite blen_bslice by (apply bslice_ok_true; lia); lia).
    unfold slot_decode. eexists _, _, _. split; [reflexivity|].
    pose proof (le_bound b 2 2 Hs) as H2. change (256 ^ 2) with 65536 in H2.
    split; [lia | apply H2; lia].
Qed.

Lemma hnsw_get_slot_panic_iff_l : forall d i, hnsw_from_bytes d = Ok tt -> bytes_ok d = true -> 0 <= i < 65536 ->
  (hnsw_get_slot d i = Panic <-> hnsw_slot_oob d i = true).
Proof.
  intros d i Hp Hb Hi. apply node_from_page_len in Hp.
  destruct (hnsw_get_slot_cases d i Hp Hb Hi) as [(O & R)|[(O & R)|(O & off & st & sz & R & _)]];
    rewrite O, R; split; congruence.
Qed.

Lemma hnsw_read_node_data_cases d i : blen d = PAGE_SIZE -> bytes_ok d = true -> 0 <= i < 65536 ->
  (hnsw_slot_oob d i = true /\ hnsw_read_node_data d i = Panic) \/
  (hnsw_slot_oob d i = false /\ hnsw_node_oob d i = true /\ hnsw_read_node_data d i = Panic) \/
  (hnsw_slot_oob d i = false /\ hnsw_node_oob d i = false /\
   (hnsw_read_node_data d i = Err \/
    exists off sz, 0 <= off /\ 0 <= sz /\ off + sz <= PAGE_SIZE /\ hnsw_read_node_data d i = Ok (bslice d off (off + sz)))).
Proof.
  intros Hl Hb Hi. unfold hnsw_read_node_data, hnsw_node_oob.
  destruct (hnsw_get_slot_cases d i Hl Hb Hi) as [(O & R)|[(O & R)|(O & off & st & sz & R & Ho & Hs)]];
    rewrite R; cbn [bind].
  - left. auto.
  - right. right. auto.
  - right. destruct (st =? 1); cbn [andb]; [|right; auto].
    destruct (Z.ltb_spec PAGE_SIZE (off + sz)) as [G|L].
    + left. split; [exact O|]. split; [reflexivity|].
      rewrite sub_bad by (apply bslice_ok_false; lia). reflexivity.
    + right. split; [exact O|]. split; [reflexivity|]. right. exists off, sz.
      rewrite sub_ok by (apply bslice_ok_true; lia). repeat split; lia.
Qed.

Lemma hnsw_read_node_data_panic_iff_l : forall d i, hnsw_from_bytes d = Ok tt -> bytes_ok d = true -> 0 <= i < 65536 ->
  (hnsw_read_node_data d i = Panic <-> hnsw_slot_oob d i = true \/ hnsw_node_oob d i = true).
Proof.
  intros d i Hp Hb Hi. apply node_from_page_len in Hp.
  destruct (hnsw_read_node_data_cases d i Hp Hb Hi)
    as [(O & R)|[(O & V & R)|(O & V & [R|(off & sz & _ & _ & _ & R)])]]; rewrite R; try rewrite O; try rewrite V;
    split; try congruence; auto; intros [C|C]; congruence.
Qed.

Lemma hnsw_readers_total_l : forall d i, hnsw_from_bytes d = Ok tt -> bytes_ok d = true -> 0 <= i < 65536 ->
  hnsw_slot_oob d i = false ->
  value_or_error (hnsw_get_slot d i) /\ (hnsw_node_oob d i = false -> value_or_error (hnsw_read_node_data d i)).
Proof.
  intros d i Hp Hb Hi O. apply node_from_page_len in Hp. split.
  - destruct (hnsw_get_slot_cases d i Hp Hb Hi) as [(O' & _)|[(_ & R)|(_ & off & st & sz & R & _)]];
      [congruence | |]; rewrite R; exact I.
  - intros V. destruct (hnsw_read_node_data_cases d i Hp Hb Hi)
      as [(O' & _)|[(_ & V' & _)|(_ & _ & [R|(off & sz & _ & _ & _ & R)])]]; try congruence; rewrite R; exact I.
Qed.

(* ------------------------------------------------------------------ the refutations *)
(* type byte 0x10, slot_count 4081: slot 4080 would start at byte 16384;
   one active slot entry with offset 8191 and size 8194: ends at byte 16385 *)
Definition hnsw_witness_slot : list Z := image 16384 0 [(0, [16]); (16, [241; 15])].
Definition hnsw_witness_node : list Z := image 16384 0 [(0, [16]); (16, [1; 0]); (64, [255; 63; 2; 32])].

Lemma hnsw_readers_refuted_l :
  hnsw_from_bytes hnsw_witness_slot = Ok tt /\ bytes_ok hnsw_witness_slot = true /\
  hnsw_get_slot hnsw_witness_slot 4080 = Panic /\ hnsw_read_node_data hnsw_witness_slot 4080 = Panic /\
  hnsw_from_bytes hnsw_witness_node = Ok tt /\ bytes_ok hnsw_witness_node = true /\
  hnsw_get_slot hnsw_witness_node 0 = Ok (Some (8191, 1, 8194)) /\ hnsw_read_node_data hnsw_witness_node 0 = Panic.
Proof. vm_compute. repeat split. Qed.
