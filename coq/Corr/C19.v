(* C19 correspondence: judge what harness/src/bin/c19.rs observed.
   Meta: a query, its rewrites and its ternary-logic partition, each executed on the real
         Database.  spec_ok = the property itself: equivalent formulations returned the same bag
         (up to the column permutation of the rewrite), and WHERE p / NOT p / p IS NULL together
         returned what the query without WHERE returned -- wherever the reference semantics is
         defined.  model_agrees = the harness applied exactly the rewrites of Model/QuerySpec.v
         (every rewritten query is recomputed here), and, for single-table queries, the result
         is the one the implementation model Model/PlanClass.v predicts; for join queries outside
         the recorded finding classes, the result is the reference result.
   Fold: the REAL ConstantFoldingRule applied to a plan; model_agrees = Model/ConstFold.v
         predicts what it did; spec_ok = what it did preserves the result on the case's table.
   Push: the REAL PredicatePushdownRule applied to Filter(Join); model_agrees = Model/Pushdown.v
         predicts where the filter went; spec_ok = the plan after the push returns the same bag.
   Evaluated by vm_compute; definitions only. *)
From Coq Require Import ZArith List Bool.
From TV Require Export Model.SqlSpec Model.QuerySpec Model.ConstFold Model.Pushdown Model.PlanClass.
Import ListNotations.
Open Scope Z_scope.

(* ------------------------------------------------------------------ decidable equalities *)
Definition cmpop_eqb (a b : cmpop) : bool :=
  match a, b with CEq, CEq | CNe, CNe | CLt, CLt | CLe, CLe | CGt, CGt | CGe, CGe => true | _, _ => false end.
Definition arith_eqb (a b : arith) : bool :=
  match a, b with AAdd, AAdd | ASub, ASub | AMul, AMul => true | _, _ => false end.
Fixpoint expr_eqb (a b : expr) : bool :=
  match a, b with
  | ECol i, ECol j => Nat.eqb i j
  | ELit v, ELit w => value_eqb v w
  | EArith o x y, EArith o' x' y' => arith_eqb o o' && expr_eqb x x' && expr_eqb y y'
  | ECmp o x y, ECmp o' x' y' => cmpop_eqb o o' && expr_eqb x x' && expr_eqb y y'
  | EAnd x y, EAnd x' y' => expr_eqb x x' && expr_eqb y y'
  | EOr x y, EOr x' y' => expr_eqb x x' && expr_eqb y y'
  | ENot x, ENot x' => expr_eqb x x'
  | EIn n x l, EIn n' x' l' =>
      Bool.eqb n n' && expr_eqb x x' &&
      (fix go (l l' : list expr) : bool :=
         match l, l' with
         | [], [] => true
         | y :: t, y' :: t' => expr_eqb y y' && go t t'
         | _, _ => false
         end) l l'
  | EBetween n x y z, EBetween n' x' y' z' => Bool.eqb n n' && expr_eqb x x' && expr_eqb y y' && expr_eqb z z'
  | ELike n x y, ELike n' x' y' => Bool.eqb n n' && expr_eqb x x' && expr_eqb y y'
  | EIsNull n x, EIsNull n' x' => Bool.eqb n n' && expr_eqb x x'
  | _, _ => false
  end.
Definition jkind_eqb (a b : jkind) : bool :=
  match a, b with JCross, JCross | JInner, JInner | JLeft, JLeft | JRight, JRight | JFull, JFull => true | _, _ => false end.
Fixpoint from_eqb (a b : from) : bool :=
  match a, b with
  | FTab i, FTab j => Nat.eqb i j
  | FJoin k l r on, FJoin k' l' r' on' =>
      (* the ON expression of a cross join is not printed and not compared *)
      jkind_eqb k k' && from_eqb l l' && from_eqb r r' && (match k with JCross => true | _ => expr_eqb on on' end)
  | _, _ => false
  end.
Fixpoint list_eqb {A} (eqb : A -> A -> bool) (a b : list A) : bool :=
  match a, b with
  | [], [] => true
  | x :: a', y :: b' => eqb x y && list_eqb eqb a' b'
  | _, _ => false
  end.
Definition opt_eqb {A} (eqb : A -> A -> bool) (a b : option A) : bool :=
  match a, b with Some x, Some y => eqb x y | None, None => true | _, _ => false end.
Definition query_eqb (a b : query) : bool :=
  from_eqb (q_from a) (q_from b) && opt_eqb expr_eqb (q_where a) (q_where b) &&
  Bool.eqb (q_star a) (q_star b) && list_eqb expr_eqb (q_items a) (q_items b).

(* ------------------------------------------------------------------ observed results *)
(* rows are printed once per case in a dictionary; a result lists dictionary indices *)
Inductive res := RRows (ix : list nat) | RErr | RPanic.

Fixpoint map_opt {A B} (f : A -> option B) (l : list A) : option (list B) :=
  match l with
  | [] => Some []
  | x :: l' => match f x, map_opt f l' with Some y, Some t => Some (y :: t) | _, _ => None end
  end.
Definition decode (dict : list row) (ix : list nat) : option table := map_opt (nth_error dict) ix.

Definition ov_eqb (a b : option value) : bool := opt_eqb value_eqb a b.
Definition orow_eqb (a b : orow) : bool := list_eqb ov_eqb a b.
Definition count_orow (r : orow) (t : list orow) : nat := length (filter (orow_eqb r) t).
Definition obag_eqb (a b : list orow) : bool :=
  Nat.eqb (length a) (length b) && forallb (fun r => Nat.eqb (count_orow r a) (count_orow r b)) a.
Definition lift (t : table) : list orow := map (map Some) t.
Definition bag_eqb (a b : table) : bool := obag_eqb (lift a) (lift b).

(* base rows seen in the column order of the rewritten query: new[j] = old[perm[j]] *)
Definition sel (perm : list nat) (r : row) : option row :=
  match perm with [] => Some r | _ => map_opt (nth_error r) perm end.

Definition res_agree (dict : list row) (perm : list nat) (base other : res) : bool :=
  match base, other with
  | RRows a, RRows b =>
      match decode dict a, decode dict b with
      | Some ta, Some tb => match map_opt (sel perm) ta with Some ta' => bag_eqb ta' tb | None => false end
      | _, _ => false
      end
  | RErr, RErr | RPanic, RPanic => true
  | _, _ => false
  end.
Definition tlp_agree (dict : list row) (rp rn ru ra : res) : bool :=
  match rp, rn, ru, ra with
  | RRows p, RRows n, RRows u, RRows a =>
      match decode dict p, decode dict n, decode dict u, decode dict a with
      | Some tp, Some tn, Some tu, Some ta => bag_eqb (tp ++ tn ++ tu) ta
      | _, _, _, _ => false
      end
  | _, _, _, _ => false
  end.

(* ------------------------------------------------------------------ cases *)
Inductive form := Form (rw : rewrite) (q' : query) (perm : list nat) (r : res).
Inductive case :=
| Meta (d : db) (q : query) (dict : list row) (base : res) (forms : list form) (tlp : option (res * res * res))
| Fold (t : table) (e : expr) (out : fold_out)
| Push (d : db) (f : from) (wh : expr) (out : push_out).

Definition form_query (f : form) : query := match f with Form _ q' _ _ => q' end.
Definition tlp_queries (q : query) (tlp : option (res * res * res)) : list query :=
  match tlp with Some _ => [tlp_not q; tlp_null q; tlp_all q] | None => [] end.

(* the harness applied the rewrite of Model/QuerySpec.v *)
Definition form_is_rewrite (d : db) (q : query) (f : form) : bool :=
  match f with
  | Form rw q' perm _ =>
      match apply_rw d rw q with
      | Some (q2, p2) => query_eqb q2 q' && nat_list_eqb p2 perm
      | None => false
      end
  end.
(* the implementation model of a query: single-table queries follow Model/PlanClass.v (reference
   semantics + the projection fast path); join queries OUTSIDE the recorded finding classes
   follow the reference semantics (inside the classes the join executor is not modelled) *)
Definition is_single (q : query) : bool := match q_from q with FTab _ => true | _ => false end.
Definition impl_out (d : db) (q : query) : list orow := if is_single q then impl_single d q else q_out d q.
Definition obs_is_impl (d : db) (dict : list row) (q : query) (r : res) : bool :=
  if q_defined d q && (is_single q || (q_class d q =? 0)) then
    match r with
    | RRows ix => match decode dict ix with Some t => obag_eqb (lift t) (impl_out d q) | None => false end
    | _ => false
    end
  else true.

Definition fold_out_eqb (a b : fold_out) : bool :=
  match a, b with
  | FNoChange, FNoChange | FRemoved, FRemoved | FFalse, FFalse => true
  | FSimp x, FSimp y => expr_eqb x y
  | _, _ => false
  end.
Definition push_out_eqb (a b : push_out) : bool :=
  match a, b with PStay, PStay | PLeft, PLeft | PRight, PRight => true | _, _ => false end.

Definition model_agrees (c : case) : bool :=
  match c with
  | Meta d q dict base forms tlp =>
      db_wfb d &&
      forallb (form_is_rewrite d q) forms &&
      obs_is_impl d dict q base &&
      forallb (fun f => match f with Form _ q' _ r => obs_is_impl d dict q' r end) forms &&
      match tlp with
      | Some (rn, ru, ra) => obs_is_impl d dict (tlp_not q) rn && obs_is_impl d dict (tlp_null q) ru && obs_is_impl d dict (tlp_all q) ra
      | None => true
      end
  | Fold _ e out => fold_out_eqb (fold_step e) out
  | Push d f wh out =>
      match f with
      | FJoin k l _ _ => push_out_eqb (push_decision k (from_width d l) wh) out
      | FTab _ => false
      end
  end.

(* does the implementation's behaviour satisfy the property itself on this case? *)
Definition spec_ok (c : case) : bool :=
  match c with
  | Meta d q dict base forms tlp =>
      forallb (fun f => match f with
                        | Form _ q' perm r => if q_defined d q && q_defined d q' then res_agree dict perm base r else true
                        end) forms &&
      match tlp with
      | Some (rn, ru, ra) =>
          if q_defined d q && q_defined d (tlp_not q) && q_defined d (tlp_null q) && q_defined d (tlp_all q)
          then tlp_agree dict base rn ru ra else true
      | None => true
      end
  | Fold t e out =>
      forallb (fun r => match sem3 e r with
                        | None => true
                        | Some v =>
                            match out with
                            | FNoChange | FOther => true
                            | FRemoved => tv_eqb v TT
                            | FFalse => negb (tv_is_true v)
                            | FSimp q => Bool.eqb (passes q r) (tv_is_true v)
                            end
                        end) t
  | Push d f wh out =>
      match f with
      | FJoin k l r on =>
          let wl := from_width d l in
          let wr := from_width d r in
          let L := eval_from d l in
          let R := eval_from d r in
          let defined := from_defined d f && defined_on wh (eval_from d f) in
          match out with
          | PStay | POther => true
          | PLeft =>
              only_left wl wh &&
              (if defined && defined_on wh L then bag_eqb (plan_before k on wl wr L R wh) (plan_left k on wl wr L R wh) else true)
          | PRight =>
              only_right wl wh &&
              (if defined && defined_on (remap (shift_down wl) wh) R
               then bag_eqb (plan_before k on wl wr L R wh) (plan_right k on wl wr L R wh) else true)
          end
      | FTab _ => true
      end
  end.

(* the recorded finding class of the case; 0 = none *)
Fixpoint first_class (d : db) (qs : list query) : Z :=
  match qs with
  | [] => 0
  | q :: qs' => let k := q_class d q in if k =? 0 then first_class d qs' else k
  end.
Definition known_class (c : case) : Z :=
  match c with
  | Meta d q _ _ forms tlp => first_class d (q :: map form_query forms ++ tlp_queries q tlp)
  | Fold _ _ _ => 0
  | Push _ _ _ _ => 0
  end.

Fixpoint failures_from (i : Z) (cs : list case) : list (Z * bool * bool * Z) :=
  match cs with
  | [] => []
  | c :: t =>
      let m := model_agrees c in
      let s := spec_ok c in
      if m && s then failures_from (i + 1) t else (i, m, s, known_class c) :: failures_from (i + 1) t
  end.
Definition failures := failures_from 0.
