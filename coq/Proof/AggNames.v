(* C16: how the select list and HAVING find their values in the aggregated row (Model/AggImpl.v:
   find_name / lookup_agg, first_match / sel_position, find_key_col).  For plain-column keys and
   arguments every lookup ends at a slot that holds the same executor function over the same
   column, resp. the same key column. *)
From Coq Require Import ZArith List Bool Lia.
From TV Require Import Model.SqlSpecAgg Model.AggImpl Model.AggClass.
Import ListNotations.
Open Scope Z_scope.

(* the argument is a plain column (or the aggregate is COUNT( * )): class 5 excluded *)
Definition plain_agg (a : agg) : bool :=
  match a_fn a with FCountStar => true | _ => is_plain (a_arg a) end.

Lemma is_plain_col e : is_plain e = true -> exists c, e = ECol c.
Proof. destruct e; try discriminate; eauto. Qed.

(* ------------------------------------------------------------------ names *)
Lemma name_same_mfn : forall a b, plain_agg a = true -> plain_agg b = true ->
  name_eqb (agg_name a) (agg_name b) = true -> mfn_of a = mfn_of b.
Proof.
  intros [fa ea] [fb eb] Pa Pb N. unfold plain_agg, agg_name, name_eqb, mfn_of, marg_of in *. cbn [a_fn a_arg fst snd] in *.
  destruct fa; destruct fb; cbn [same_fn andb] in N; try discriminate; try reflexivity;
    try (destruct (is_plain_col _ Pa) as [c ->]); try (destruct (is_plain_col _ Pb) as [d ->]);
    cbn [plain_col] in *; try discriminate;
    try (apply Nat.eqb_eq in N; subst; reflexivity).
Qed.

Lemma name_refl : forall a, plain_agg a = true -> name_eqb (agg_name a) (agg_name a) = true.
Proof.
  intros [f e] Pa. unfold plain_agg, agg_name, name_eqb in *. cbn [a_fn a_arg fst snd] in *.
  destruct f; cbn [same_fn andb]; try reflexivity; destruct (is_plain_col _ Pa) as [c ->]; cbn [plain_col]; apply Nat.eqb_refl.
Qed.

Lemma find_name_spec : forall nm l i found,
  (exists j a', nth_error l j = Some a' /\ name_eqb nm (agg_name a') = true /\ find_name nm l i found = Some (i + j)%nat) \/
  ((forall a', In a' l -> name_eqb nm (agg_name a') = false) /\ find_name nm l i found = found).
Proof.
  intros nm l. induction l as [|a t IH]; intros i found; cbn [find_name].
  - right. split; [intros a' []|reflexivity].
  - destruct (IH (S i) (if name_eqb nm (agg_name a) then Some i else found)) as [[j [a' [N [E F]]]]|[No F]].
    + left. exists (S j), a'. cbn [nth_error]. repeat split; auto. rewrite F. f_equal. lia.
    + destruct (name_eqb nm (agg_name a)) eqn:Q.
      * left. exists O, a. cbn [nth_error]. repeat split; auto. rewrite F. f_equal. lia.
      * right. split; [|exact F]. intros a' [<-|I]; auto.
Qed.

(* ------------------------------------------------------------------ the projection onto the select list *)
Definition fm_cond (g a : agg) : bool :=
  same_fn (a_fn g) (a_fn a) &&
  match a_fn g, a_fn a with
  | FCountStar, FCountStar => true
  | FCountStar, _ | _, FCountStar => false
  | _, _ => match plain_col (a_arg g), plain_col (a_arg a) with
            | Some c, Some d => Nat.eqb c d
            | _, _ => expr_eqb (a_arg g) (a_arg a)
            end
  end.

Lemma first_match_spec : forall a l p,
  (exists j g, nth_error l j = Some g /\ fm_cond g a = true /\ first_match a l p = Some (p + j)%nat) \/
  ((forall g, In g l -> fm_cond g a = false) /\ first_match a l p = None).
Proof.
  intros a l. induction l as [|g t IH]; intros p; cbn [first_match].
  - right. split; [intros g []|reflexivity].
  - fold (fm_cond g a). destruct (fm_cond g a) eqn:Q.
    + left. exists O, g. cbn [nth_error]. repeat split; auto; try (f_equal; lia).
    + destruct (IH (S p)) as [[j [g' [N [E F]]]]|[No F]].
      * left. exists (S j), g'. cbn [nth_error]. repeat split; auto. rewrite F. f_equal; lia.
      * right. split; [|exact F]. intros g' [<-|I]; auto.
Qed.

Lemma fm_same_mfn : forall g a, plain_agg g = true -> plain_agg a = true -> fm_cond g a = true -> mfn_of g = mfn_of a.
Proof.
  intros [fg eg] [fa ea] Pg Pa N. unfold plain_agg, fm_cond, mfn_of, marg_of in *. cbn [a_fn a_arg] in *.
  destruct fg; destruct fa; cbn [same_fn andb] in N; try discriminate; try reflexivity;
    try (destruct (is_plain_col _ Pg) as [c ->]); try (destruct (is_plain_col _ Pa) as [d ->]);
    cbn [plain_col] in *; try discriminate;
    try (apply Nat.eqb_eq in N; subst; reflexivity).
Qed.
Lemma fm_refl : forall a, plain_agg a = true -> fm_cond a a = true.
Proof.
  intros [f e] Pa. unfold plain_agg, fm_cond in *. cbn [a_fn a_arg] in *.
  destruct f; cbn [same_fn andb]; try reflexivity; destruct (is_plain_col _ Pa) as [c ->]; cbn [plain_col]; apply Nat.eqb_refl.
Qed.

(* ------------------------------------------------------------------ keys *)
Lemma sel_position_key : forall q engine j i c,
  Nat.ltb i (length (q_keys q)) = true -> nth_error (q_keys q) i = Some (ECol c) ->
  sel_position q engine j i = first_key_col c j (q_keys q) O.
Proof. intros q engine j i c L N. unfold sel_position. rewrite L, N. reflexivity. Qed.

Lemma first_key_col_spec : forall c j keys p,
  (exists i, nth_error keys i = Some (ECol c) /\ first_key_col c j keys p = Some (p + i)%nat) \/
  ((forall k, In k keys -> k <> ECol c) /\ first_key_col c j keys p = Some j).
Proof.
  intros c j keys. induction keys as [|k t IH]; intros p; cbn [first_key_col].
  - right. split; [intros k []|reflexivity].
  - destruct k; cbn [plain_col];
      try (destruct (IH (S p)) as [[i [N F]]|[No F]];
           [left; exists (S i); cbn [nth_error]; split; [exact N|rewrite F; f_equal; lia]
           |right; split; [intros k' [<-|I]; [discriminate|auto]|exact F]]).
    destruct (Nat.eqb c i) eqn:Q.
    + apply Nat.eqb_eq in Q; subst. left. exists O. cbn [nth_error]. split; [reflexivity|f_equal; lia].
    + destruct (IH (S p)) as [[i' [N F]]|[No F]].
      * left. exists (S i'). cbn [nth_error]. split; [exact N|rewrite F; f_equal; lia].
      * right. split; [|exact F]. intros k' [<-|I]; [|auto]. intros E; injection E as ->. rewrite Nat.eqb_refl in Q. discriminate.
Qed.

Lemma find_key_col_spec : forall c keys i found,
  (exists p, nth_error keys p = Some (ECol c) /\ find_key_col c keys i found = Some (i + p)%nat) \/
  ((forall k, In k keys -> k <> ECol c) /\ find_key_col c keys i found = found).
Proof.
  intros c keys. induction keys as [|k t IH]; intros i found; cbn [find_key_col].
  - right. split; [intros k []|reflexivity].
  - destruct k; cbn [plain_col];
      try (destruct (IH (S i) found) as [[p [N F]]|[No F]];
           [left; exists (S p); cbn [nth_error]; split; [exact N|rewrite F; f_equal; lia]
           |right; split; [intros k' [<-|I]; [discriminate|auto]|exact F]]).
    destruct (Nat.eqb c i0) eqn:Q.
    + apply Nat.eqb_eq in Q; subst.
      destruct (IH (S i) (Some i)) as [[p [N F]]|[No F]].
      * left. exists (S p). cbn [nth_error]. split; [exact N|rewrite F; f_equal; lia].
      * left. exists O. cbn [nth_error]. split; [reflexivity|rewrite F; f_equal; lia].
    + destruct (IH (S i) found) as [[p [N F]]|[No F]].
      * left. exists (S p). cbn [nth_error]. split; [exact N|rewrite F; f_equal; lia].
      * right. split; [|exact F]. intros k' [<-|I]; [|auto]. intros E; injection E as ->. rewrite Nat.eqb_refl in Q. discriminate.
Qed.

(* the selected aggregates contain every aggregate whose position is selected *)
Lemma sel_aggs_in : forall q i a, In i (q_sel q) -> Nat.ltb i (length (q_keys q)) = false ->
  nth_error (q_aggs q) (i - length (q_keys q)) = Some a -> In a (sel_aggs q).
Proof.
  intros q i a I L N. unfold sel_aggs. apply in_flat_map. exists i. split; [exact I|]. rewrite L, N. now left.
Qed.
Lemma sel_aggs_from : forall q a, In a (sel_aggs q) -> In a (q_aggs q).
Proof.
  intros q a H. unfold sel_aggs in H. apply in_flat_map in H as [i [_ H]].
  destruct (Nat.ltb i (length (q_keys q))); [destruct H|].
  destruct (nth_error (q_aggs q) (i - length (q_keys q))) eqn:N; [|destruct H].
  destruct H as [<-|[]]. eapply nth_error_In; eauto.
Qed.
Lemma having_aggs_from : forall q a, In a (having_aggs q) -> In a (q_aggs q).
Proof.
  intros q a H. unfold having_aggs in H. destruct (q_having q) as [h|]; [|destruct H].
  apply in_flat_map in H as [i [_ H]].
  destruct (Nat.ltb i (length (q_keys q))); [destruct H|].
  destruct (nth_error (q_aggs q) (i - length (q_keys q))) eqn:N; [|destruct H].
  destruct H as [<-|[]]. eapply nth_error_In; eauto.
Qed.
Lemma having_aggs_in : forall q h i a, q_having q = Some h -> In i (cols_of h) -> Nat.ltb i (length (q_keys q)) = false ->
  nth_error (q_aggs q) (i - length (q_keys q)) = Some a -> In a (having_aggs q).
Proof.
  intros q h i a Hh I L N. unfold having_aggs. rewrite Hh. apply in_flat_map. exists i. split; [exact I|]. rewrite L, N. now left.
Qed.

(* add_new keeps what it has and adds, of each new aggregate, itself or leaves an equal one *)
Lemma add_new_acc : forall extra acc a, In a acc -> In a (add_new acc extra).
Proof.
  induction extra as [|x t IH]; intros acc a I; cbn [add_new]; [exact I|].
  apply IH. destruct (existsb (agg_eqb x) acc); [exact I|apply in_or_app; now left].
Qed.
Lemma add_new_extra : forall extra acc a, In a extra -> exists a', In a' (add_new acc extra) /\ (a' = a \/ agg_eqb a a' = true).
Proof.
  induction extra as [|x t IH]; intros acc a I; [destruct I|]. cbn [add_new]. destruct I as [<-|I]; [|now apply IH].
  destruct (existsb (agg_eqb x) acc) eqn:E.
  - apply existsb_exists in E as [a' [Ia' Ea']]. exists a'. split; [now apply add_new_acc|now right].
  - exists x. split; [apply add_new_acc; apply in_or_app; right; now left|now left].
Qed.
Lemma add_new_from : forall extra acc a, In a (add_new acc extra) -> In a acc \/ In a extra.
Proof.
  induction extra as [|x t IH]; intros acc a I; cbn [add_new] in I; [now left|].
  apply IH in I as [I|I]; [|right; now right].
  destruct (existsb (agg_eqb x) acc); [now left|]. apply in_app_or in I as [I|[<-|[]]]; [now left|right; now left].
Qed.
Lemma engine_from : forall q a, In a (engine_aggs q) -> In a (q_aggs q).
Proof.
  intros q a I. unfold engine_aggs in I. apply add_new_from in I as [I|I]; [now apply sel_aggs_from|now apply having_aggs_from].
Qed.

(* equal aggregate calls have the same name *)
Lemma expr_eqb_col : forall c e, expr_eqb (ECol c) e = true -> e = ECol c.
Proof. intros c e H. destruct e; cbn [expr_eqb] in H; try discriminate. apply Nat.eqb_eq in H. now subst. Qed.
Lemma agg_eqb_name : forall a b, plain_agg a = true -> agg_eqb a b = true -> name_eqb (agg_name a) (agg_name b) = true.
Proof.
  intros [fa ea] [fb eb] Pa E. unfold plain_agg, agg_eqb, agg_name, name_eqb in *. cbn [a_fn a_arg fst snd] in *.
  destruct fa; destruct fb; try discriminate; cbn [same_fn andb]; try reflexivity;
    destruct (is_plain_col _ Pa) as [c ->]; apply expr_eqb_col in E; subst; cbn [plain_col]; apply Nat.eqb_refl.
Qed.
