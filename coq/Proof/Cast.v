(* C20 proofs, part 4: decimal text of an integer parses back to it (CAST round trip). *)
From Coq Require Import ZArith List Bool Lia ZifyBool.
From TV Require Import Lib.MachInt Model.Arith Model.StrFun Model.DateFun Model.Cast Proof.Arith.
Import ListNotations.
Open Scope Z_scope.

Ltac Zify.zify_post_hook ::= Z.to_euclidean_division_equations.

Arguments Z.div : simpl never.
Arguments Z.modulo : simpl never.
Arguments Z.mul : simpl never.
Arguments Z.add : simpl never.
Arguments Z.sub : simpl never.
Arguments Z.pow : simpl never.
Arguments Z.leb : simpl never.
Arguments Z.ltb : simpl never.
Arguments Z.eqb : simpl never.

(* parsing the digits written in front of acc continues with the number they denote *)
Lemma parse_digits_fuel : forall f n acc a, 0 <= n < 10 ^ Z.of_nat f ->
  exists k, 0 <= k /\ parse_digits (digits_fuel f n acc) a = parse_digits acc (a * 10 ^ k + n).
Proof.
  induction f as [|f IH]; intros n acc a Hn.
  - change (10 ^ Z.of_nat 0) with 1 in Hn. exists 0. split; [lia|]. cbn [digits_fuel]. f_equal. change (10 ^ 0) with 1. lia.
  - rewrite Nat2Z.inj_succ, Z.pow_succ_r in Hn by lia. cbn [digits_fuel].
    destruct (Z.ltb_spec n 10) as [L|L].
    + exists 1. split; [lia|]. cbn [parse_digits]. unfold is_digit.
      replace ((48 <=? 48 + n mod 10) && (48 + n mod 10 <=? 57)) with true by lia.
      f_equal. change (10 ^ 1) with 10. lia.
    + destruct (IH (n / 10) ((48 + n mod 10) :: acc) a ltac:(lia)) as [k [Hk E]].
      exists (k + 1). split; [lia|]. rewrite E. cbn [parse_digits]. unfold is_digit.
      replace ((48 <=? 48 + n mod 10) && (48 + n mod 10 <=? 57)) with true by lia.
      f_equal. rewrite Z.pow_add_r by lia. change (10 ^ 1) with 10. lia.
Qed.

Lemma parse_digits_digits n : 0 <= n < 10 ^ 20 -> parse_digits (digits n) 0 = Some n.
Proof.
  intros Hn. unfold digits. destruct (parse_digits_fuel 20 n [] 0 Hn) as [k [_ E]]. rewrite E. cbn [parse_digits]. f_equal; lia.
Qed.

Lemma digits_head : forall f n acc, 0 <= n -> exists c t, digits_fuel (S f) n acc = c :: t /\ 48 <= c <= 57.
Proof.
  induction f as [|f IH]; intros n acc Hn.
  - cbn [digits_fuel]. exists (48 + n mod 10), acc. split; [destruct (n <? 10); reflexivity|lia].
  - cbn [digits_fuel]. destruct (Z.ltb_spec n 10).
    + exists (48 + n mod 10), acc. split; [reflexivity|lia].
    + apply (IH (n / 10)). lia.
Qed.

(* CAST(CAST(n AS TEXT) AS INTEGER) = n for every i64 *)
Theorem cast_roundtrip_l : forall n, in_i64 n = true -> parse_i64 (to_string_i64 n) = Some n.
Proof.
  intros n Hn. pose proof Hn as Hr. apply in_i64_true in Hr. unfold i64_min, i64_max in Hr.
  assert (P20 : 10 ^ 20 = 100000000000000000000) by reflexivity.
  unfold to_string_i64. destruct (Z.ltb_spec n 0) as [N|N].
  - unfold parse_i64. change ((45 =? 45) || (45 =? 43)) with true. cbv iota.
    destruct (digits_head 19 (- n) [] ltac:(lia)) as [c [t [E _]]]. unfold digits in *. rewrite E. rewrite <- E.
    fold (digits (- n)). rewrite parse_digits_digits by lia. change (45 =? 45) with true. cbv iota zeta.
    rewrite Z.opp_involutive, Hn. reflexivity.
  - destruct (digits_head 19 n [] N) as [c [t [E Hc]]]. unfold parse_i64. unfold digits in *. rewrite E.
    replace ((c =? 45) || (c =? 43)) with false by lia. rewrite <- E. fold (digits n).
    rewrite parse_digits_digits by lia. rewrite Hn. reflexivity.
Qed.

Theorem cast_l : forall n, in_i64 n = true ->
  eval_cast KInt (VInt n) = OVal (VInt n) /\ eval_cast KText (VInt n) = OVal (VText (to_string_i64 n)) /\
  eval_cast KInt (VText (to_string_i64 n)) = OVal (VInt n) /\ eval_cast KIntOfText (VInt n) = OVal (VInt n) /\
  eval_cast KBool (VInt n) = OVal (VInt (if n =? 0 then 0 else 1)) /\
  eval_cast KInt VNull = OVal VNull /\ eval_cast KText VNull = OVal VNull /\ eval_cast KBool VNull = OVal VNull.
Proof.
  intros n Hn. cbn [eval_cast]. rewrite cast_roundtrip_l by exact Hn. repeat split; reflexivity.
Qed.

Example cast_examples :
  to_string_i64 (-9223372036854775808) = [45; 57; 50; 50; 51; 51; 55; 50; 48; 51; 54; 56; 53; 52; 55; 55; 53; 56; 48; 56] /\
  to_string_i64 0 = [48] /\ parse_i64 [43; 49; 50] = Some 12 /\ parse_i64 [32; 49; 50] = None /\ parse_i64 [45] = None /\
  parse_i64 [57; 50; 50; 51; 51; 55; 50; 48; 51; 54; 56; 53; 52; 55; 55; 53; 56; 48; 56] = None /\ parse_i64 [] = None /\ parse_i64 [48; 48; 55] = Some 7.
Proof. vm_compute. repeat split. Qed.
