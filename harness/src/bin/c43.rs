//! C43 probe (development): twin databases, bulk APIs vs row-at-a-time INSERT.
use std::path::PathBuf;
use tvh::*;
use turdb::{Database, OwnedValue};

fn show(v: &OwnedValue) -> String {
    match v { OwnedValue::Null => "NULL".into(), OwnedValue::Int(i) => format!("{}", i), OwnedValue::Text(s) => format!("'{}'", s), o => format!("{:?}", o) }
}
fn dump(db: &Database, sql: &str) -> String {
    let s = sql.to_string();
    match catch(std::panic::AssertUnwindSafe(|| db.query(&s))) {
        Caught::Done(Ok(rows)) => rows.iter().map(|r| format!("({})", r.values.iter().map(show).collect::<Vec<_>>().join(","))).collect::<Vec<_>>().join(" "),
        Caught::Done(Err(e)) => format!("ERR {:#}", e),
        Caught::Panicked(m) => format!("PANIC {}", m),
    }
}
fn lit(v: &OwnedValue) -> String { show(v) }

fn main() {
    let _a = Args::parse();
    let _ = std::panic::take_hook();
    let dir = PathBuf::from(format!("/dev/shm/c43-probe-{}", std::process::id()));
    let _ = std::fs::remove_dir_all(&dir);
    std::fs::create_dir_all(&dir).unwrap();
    let ddls: Vec<(&str, &str, Vec<&str>)> = vec![
        ("plain", "CREATE TABLE t (a INT, b TEXT)", vec![]),
        ("pk", "CREATE TABLE t (a INT PRIMARY KEY, b TEXT)", vec![]),
        ("unique", "CREATE TABLE t (a INT, b TEXT UNIQUE)", vec![]),
        ("notnull", "CREATE TABLE t (a INT NOT NULL, b TEXT)", vec![]),
        ("index", "CREATE TABLE t (a INT, b TEXT)", vec!["CREATE INDEX ia ON t (a)"]),
        ("autoinc", "CREATE TABLE t (a INT PRIMARY KEY AUTO_INCREMENT, b TEXT)", vec![]),
        ("default", "CREATE TABLE t (a INT, b TEXT DEFAULT 'd')", vec![]),
        ("check", "CREATE TABLE t (a INT CHECK (a > 0), b TEXT)", vec![]),
    ];
    let rows: Vec<Vec<OwnedValue>> = vec![
        vec![OwnedValue::Int(3), OwnedValue::Text("x".into())],
        vec![OwnedValue::Int(1), OwnedValue::Text("y".into())],
        vec![OwnedValue::Int(3), OwnedValue::Text("x".into())],
        vec![OwnedValue::Null, OwnedValue::Null],
        vec![OwnedValue::Int(-2), OwnedValue::Text("z".into())],
    ];
    let probes = ["SELECT * FROM t", "SELECT COUNT(*) FROM t", "SELECT * FROM t WHERE a = 3", "SELECT * FROM t WHERE a = 1", "SELECT * FROM t WHERE b = 'x'", "SELECT * FROM t ORDER BY a"];
    let mut n = 0;
    for (name, ddl, extra) in &ddls {
        for api in ["sql", "batch", "bulk", "cached"] {
            n += 1;
            let path = dir.join(format!("db{}", n));
            let db = Database::create(&path).unwrap();
            db.execute(ddl).unwrap();
            for e in extra { db.execute(e).unwrap(); }
            db.execute("INSERT INTO t VALUES (7, 'seed')").ok();
            let res: String = match api {
                "sql" => rows.iter().map(|r| {
                    let s = format!("INSERT INTO t VALUES ({})", r.iter().map(lit).collect::<Vec<_>>().join(", "));
                    match catch(std::panic::AssertUnwindSafe(|| db.execute(&s))) { Caught::Done(Ok(_)) => "ok".to_string(), Caught::Done(Err(e)) => format!("ERR[{:#}]", e), Caught::Panicked(m) => format!("PANIC[{}]", m) }
                }).collect::<Vec<_>>().join(" "),
                "batch" => match catch(std::panic::AssertUnwindSafe(|| db.insert_batch("t", &rows))) { Caught::Done(Ok(k)) => format!("ok {}", k), Caught::Done(Err(e)) => format!("ERR[{:#}]", e), Caught::Panicked(m) => format!("PANIC[{}]", m) },
                "bulk" => match catch(std::panic::AssertUnwindSafe(|| db.bulk_insert("t", rows.clone()))) { Caught::Done(Ok(k)) => format!("ok {}", k), Caught::Done(Err(e)) => format!("ERR[{:#}]", e), Caught::Panicked(m) => format!("PANIC[{}]", m) },
                _ => {
                    let p = db.prepare("INSERT INTO t VALUES (?, ?)");
                    match p {
                        Ok(p) => rows.iter().map(|r| match catch(std::panic::AssertUnwindSafe(|| db.execute_with_cached_plan(&p, r))) { Caught::Done(Ok(_)) => "ok".to_string(), Caught::Done(Err(e)) => format!("ERR[{:#}]", e), Caught::Panicked(m) => format!("PANIC[{}]", m) }).collect::<Vec<_>>().join(" "),
                        Err(e) => format!("prepare ERR {:#}", e),
                    }
                }
            };
            println!("== {} / {}: {}", name, api, res);
            for q in probes { println!("   {:32} {}", q, dump(&db, q)); }
            println!("   {:32} {}", "then INSERT (9,'after')", match db.execute("INSERT INTO t (b) VALUES ('after')") { Ok(_) => "ok".to_string(), Err(e) => format!("ERR[{:#}]", e) });
            println!("   {:32} {}", "SELECT * FROM t", dump(&db, "SELECT * FROM t"));
            drop(db);
            match Database::open(&path) { Ok(db2) => println!("   {:32} {}", "reopen SELECT *", dump(&db2, "SELECT * FROM t")), Err(e) => println!("   reopen ERR {:#}", e) }
        }
    }
    let _ = std::fs::remove_dir_all(&dir);
}
