(* C14: the LIKE matcher of the implementation (greedy two-pointer loop with one backtrack
   point, Model/PredImpl.like_loop) equals the declarative reference (SqlSpec.like_spec) for
   every text and pattern. *)
From Coq Require Import ZArith List Bool Lia PeanoNat.
From TV Require Import Model.SqlSpec Model.PredImpl Model.PredClass.
Import ListNotations.
Open Scope Z_scope.

(* ------------------------------------------------------------------ the reference matcher *)
Definition starm (sp : list Z) : list Z -> bool :=
  fix star (t : list Z) : bool := like_spec sp t || match t with [] => false | _ :: t' => star t' end.

Lemma like_pct : forall p t, like_spec (37 :: p) t = starm p t.
Proof. reflexivity. Qed.
Lemma starm_unfold : forall sp t,
  starm sp t = like_spec sp t || match t with [] => false | _ :: t' => starm sp t' end.
Proof. intros sp [|x t]; reflexivity. Qed.
Lemma like_nonpct : forall c p t, c <> 37 ->
  like_spec (c :: p) t =
  match t with [] => false | x :: t' => ((c =? 95) || (c =? x)) && like_spec p t' end.
Proof.
  intros c p t H. cbn [like_spec]. destruct (c =? 37) eqn:E; [apply Z.eqb_eq in E; contradiction|].
  destruct t; reflexivity.
Qed.
Lemma like_nil_p : forall t, like_spec [] t = is_nil t.
Proof. intros [|x t]; reflexivity. Qed.
Lemma like_nil_t : forall p, like_spec p [] = is_nil (strip_pct p).
Proof.
  induction p as [|c p IH]; [reflexivity|]. cbn [strip_pct].
  destruct (c =? 37) eqn:E.
  - apply Z.eqb_eq in E. subst c. rewrite like_pct, starm_unfold, IH. apply orb_false_r.
  - apply Z.eqb_neq in E. now rewrite like_nonpct.
Qed.

Definition suffix (u t : list Z) : Prop := exists v, t = v ++ u.
Lemma suffix_refl : forall t, suffix t t.
Proof. intros t. now exists []. Qed.
Lemma suffix_cons : forall u x t, suffix u t -> suffix u (x :: t).
Proof. intros u x t [v ->]. now exists (x :: v). Qed.
Lemma suffix_cons_inv : forall u x t, suffix u (x :: t) -> u = x :: t \/ suffix u t.
Proof.
  intros u x t [v H]. destruct v as [|y v]; cbn in H.
  - now left.
  - right. injection H as _ ->. now exists v.
Qed.
Lemma suffix_nil_inv : forall u, suffix u [] -> u = [].
Proof. intros u [v H]. symmetry in H. now apply app_eq_nil in H as [_ ->]. Qed.
Lemma suffix_trans : forall a b c, suffix a b -> suffix b c -> suffix a c.
Proof. intros a b c [v ->] [w ->]. exists (w ++ v). now rewrite app_assoc. Qed.
Lemma suffix_length : forall u t, suffix u t -> (length u <= length t)%nat.
Proof. intros u t [v ->]. rewrite app_length. lia. Qed.

Lemma starm_ex : forall sp t, starm sp t = true <-> exists u, suffix u t /\ like_spec sp u = true.
Proof.
  intros sp. induction t as [|x t IH]; rewrite starm_unfold.
  - rewrite orb_false_r. split.
    + intros H. exists []. split; [apply suffix_refl|exact H].
    + intros (u & Hs & H). now rewrite (suffix_nil_inv u Hs) in H.
  - split.
    + intros H. apply orb_prop in H as [H|H].
      * exists (x :: t). split; [apply suffix_refl|exact H].
      * apply IH in H as (u & Hs & H). exists u. split; [now apply suffix_cons|exact H].
    + intros (u & Hs & H). apply suffix_cons_inv in Hs as [->|Hs].
      * now rewrite H.
      * apply orb_true_intro. right. apply IH. now exists u.
Qed.

(* ------------------------------------------------------------------ the loop *)
Definition alt (star : option (list Z * list Z)) : bool :=
  match star with Some (sp, _ :: st') => starm sp st' | _ => false end.
Definition starA (t : list Z) (star : option (list Z * list Z)) : nat :=
  match star with None => S (length t) | Some (_, st) => length st end.

(* N bounds every pattern suffix in play; the star component says: whatever the pattern
   after the last '%' can match further right is also reachable from the current position *)
Definition inv (N : nat) (t p : list Z) (star : option (list Z * list Z)) : Prop :=
  (length p <= N)%nat /\
  match star with
  | None => True
  | Some (sp, st) =>
      (length sp <= N)%nat /\ suffix t st /\
      match st with
      | _ :: st' => forall u, suffix u st' -> like_spec sp u = true ->
                      exists u', suffix u' t /\ like_spec p u' = true
      | [] => True
      end
  end.

Lemma alt_absorb_nil : forall N p star, inv N [] p star -> like_spec p [] || alt star = like_spec p [].
Proof.
  intros N p star (_ & H). destruct star as [[sp [|y st']]|]; cbn [alt]; try apply orb_false_r.
  destruct H as (_ & _ & J). destruct (starm sp st') eqn:E; [|apply orb_false_r].
  apply starm_ex in E as (u & Hs & Hu). destruct (J u Hs Hu) as (u' & Hs' & Hu').
  rewrite (suffix_nil_inv u' Hs') in Hu'. now rewrite Hu'.
Qed.

Lemma alt_absorb_pct : forall N t p' star, inv N t (37 :: p') star ->
  starm p' t || alt star = starm p' t.
Proof.
  intros N t p' star (_ & H). destruct star as [[sp [|y st']]|]; cbn [alt]; try apply orb_false_r.
  destruct H as (_ & _ & J). destruct (starm sp st') eqn:E; [|apply orb_false_r].
  apply starm_ex in E as (u & Hs & Hu). destruct (J u Hs Hu) as (u' & Hs' & Hu').
  rewrite like_pct in Hu'. apply starm_ex in Hu' as (u'' & Hs'' & Hu'').
  assert (G : starm p' t = true) by (apply starm_ex; exists u''; split; [eapply suffix_trans; eassumption|exact Hu'']).
  now rewrite G.
Qed.

Lemma mul_step : forall a M k, (k < M)%nat -> (a * M + k < S a * M)%nat.
Proof. intros. rewrite Nat.mul_succ_l. lia. Qed.

Lemma like_loop_correct : forall N fuel t p star,
  inv N t p star -> (starA t star * S N + length p < fuel)%nat ->
  like_loop fuel t p star = Some (like_spec p t || alt star).
Proof.
  intros N. induction fuel as [|fuel IH]; intros t p star Hinv Hfuel; [lia|].
  cbn [like_loop]. cbv zeta. destruct t as [|x t'].
  - (* text exhausted *)
    rewrite (alt_absorb_nil N p star Hinv). now rewrite like_nil_t.
  - pose proof Hinv as (Hlp & Hstar).
    (* the backtrack branch, shared by "pattern exhausted" and "mismatch" *)
    assert (Hback : forall (Hmis : like_spec p (x :: t') = false),
      match star with
      | Some (sp, _ :: st') => like_loop fuel st' sp (Some (sp, st'))
      | Some (sp, []) => Some (is_nil (strip_pct sp))
      | None => Some false
      end = Some (like_spec p (x :: t') || alt star)).
    { intros Hmis. rewrite Hmis. cbn [orb]. destruct star as [[sp [|y st']]|].
      - exfalso. destruct Hstar as (_ & Hs & _). apply suffix_length in Hs. cbn in Hs. lia.
      - destruct Hstar as (Hlsp & Hs & J).
        rewrite IH.
        + cbn [alt]. f_equal. rewrite (starm_unfold sp st'). destruct st'; reflexivity.
        + split; [exact Hlsp|]. split; [exact Hlsp|]. split; [apply suffix_refl|].
          destruct st' as [|z st'']; [exact I|]. intros u Hu Hm. exists u. split; [now apply suffix_cons|exact Hm].
        + cbn [starA length] in *. pose proof (mul_step (length st') (S N) (length sp)). lia.
      - reflexivity. }
    destruct p as [|c p'].
    + apply Hback. reflexivity.
    + destruct (c =? 37) eqn:Epct.
      * (* '%': remember the position *)
        apply Z.eqb_eq in Epct. subst c.
        rewrite IH.
        -- f_equal. rewrite like_pct, (alt_absorb_pct N (x :: t') p' star Hinv), (starm_unfold p' (x :: t')).
           reflexivity.
        -- split; [cbn in Hlp; lia|]. split; [cbn in Hlp; lia|]. split; [apply suffix_refl|].
           intros u Hu Hm. exists u. split; [now apply suffix_cons|exact Hm].
        -- cbn [starA length] in *. destruct star as [[sp st]|]; cbn [starA length] in *.
           ++ destruct Hstar as (_ & Hs & _). apply suffix_length in Hs. cbn [length] in Hs.
              assert (S (length t') * S N <= length st * S N)%nat by (apply Nat.mul_le_mono_r; lia). lia.
           ++ pose proof (mul_step (S (length t')) (S N) (length p')). lia.
      * apply Z.eqb_neq in Epct. destruct ((c =? 95) || (c =? x)) eqn:Ematch.
        -- (* one character consumed *)
           rewrite IH.
           ++ f_equal. rewrite (like_nonpct c p' (x :: t') Epct), Ematch. reflexivity.
           ++ split; [cbn in Hlp; lia|].
              destruct star as [[sp st]|]; [|exact I].
              destruct Hstar as (Hlsp & Hs & J). split; [exact Hlsp|].
              split; [eapply suffix_trans; [|exact Hs]; exists [x]; reflexivity|].
              destruct st as [|y st']; [exact I|]. intros u Hu Hm.
              destruct (J u Hu Hm) as (u' & Hs' & Hm'). rewrite (like_nonpct c p' u' Epct) in Hm'.
              destruct u' as [|x' u'']; [discriminate|]. apply andb_prop in Hm' as [_ Hm'].
              exists u''. split; [|exact Hm'].
              apply suffix_cons_inv in Hs' as [Heq|Hs'].
              ** injection Heq as _ ->. apply suffix_refl.
              ** eapply suffix_trans; [|exact Hs']. exists [x']. reflexivity.
           ++ cbn [length] in *. destruct star as [[sp st]|]; cbn [starA length] in *.
              ** lia.
              ** pose proof (mul_step (S (length t')) (S N) (length p')). lia.
        -- (* mismatch *)
           apply Hback. rewrite (like_nonpct c p' (x :: t') Epct), Ematch. reflexivity.
Qed.

(* the greedy loop is exact *)
Theorem like_impl_correct : forall t p, like_impl t p = Some (like_spec p t).
Proof.
  intros t p. unfold like_impl. rewrite (like_loop_correct (length p)).
  - cbn [alt]. now rewrite orb_false_r.
  - split; [lia|exact I].
  - unfold like_fuel. cbn [starA]. nia.
Qed.
