(* C20 proofs, part 2b: the string functions (Model/StrFun.v) on valid UTF-8 count and slice CHARACTERS. *)
From Coq Require Import ZArith List Bool Lia ZifyBool.
From TV Require Import Lib.MachInt Lib.MachIntFacts Model.Arith Model.Utf8 Model.StrFun Proof.Utf8 Proof.StrFind.
Import ListNotations.
Open Scope Z_scope.

Arguments Z.mul : simpl never.
Arguments Z.add : simpl never.
Arguments Z.sub : simpl never.
Arguments Z.leb : simpl never.
Arguments Z.ltb : simpl never.
Arguments Z.eqb : simpl never.
Arguments Z.min : simpl never.
Arguments Z.max : simpl never.
Arguments Z.pow : simpl never.

Lemma with_chars_encode cs k : cps_ok cs = true -> with_chars (encode_utf8 cs) k = k cs.
Proof. intros H. unfold with_chars. rewrite decode_encode_l by exact H. reflexivity. Qed.

Lemma zlist_eqb_refl l : zlist_eqb l l = true.
Proof. apply zlist_eqb_eq. reflexivity. Qed.

Lemma take_z_0 {A} (l : list A) : take_z 0 l = [].
Proof. unfold take_z, zlen. replace (Z.min 0 (Z.of_nat (length l))) with 0 by lia. reflexivity. Qed.

(* ---- CHAR_LENGTH counts characters, LENGTH counts bytes (as documented) *)
Theorem char_length_l : forall cs, cps_ok cs = true ->
  eval_sfn SCharLength [VText (encode_utf8 cs)] = OVal (VInt (zlen cs)).
Proof. intros cs H. cbn [eval_sfn arg_text nth_error]. rewrite with_chars_encode by exact H. reflexivity. Qed.

Theorem length_bytes_l : forall cs, cps_ok cs = true ->
  eval_sfn SLength [VText (encode_utf8 cs)] = OVal (VInt (blen (encode_utf8 cs))) /\
  zlen cs <= blen (encode_utf8 cs) /\
  (blen (encode_utf8 cs) = zlen cs <-> is_ascii cs = true).
Proof.
  intros cs H. split; [reflexivity|]. split; [apply blen_encode_ge|]. split.
  - intros E. apply blen_encode_eq_ascii; assumption.
  - intros A. rewrite blen_encode_ascii by exact A. reflexivity.
Qed.

(* ---- LEFT RIGHT SUBSTR REVERSE slice the list of characters *)
Theorem slicing_l : forall cs n, cps_ok cs = true ->
  eval_sfn SLeft [VText (encode_utf8 cs); VInt n] = OVal (VText (encode_utf8 (if n <? 0 then [] else take_z n cs))) /\
  eval_sfn SRight [VText (encode_utf8 cs); VInt n] =
    OVal (VText (encode_utf8 (if n <? 0 then [] else skip_z (zlen cs - Z.min n (zlen cs)) cs))) /\
  eval_sfn SReverse [VText (encode_utf8 cs)] = OVal (VText (encode_utf8 (rev cs))).
Proof.
  intros cs n H. cbn [eval_sfn arg_text arg_int nth_error].
  rewrite !with_chars_encode by exact H. destruct (n <? 0); repeat split; reflexivity.
Qed.

Theorem substr_l : forall cs pos len, cps_ok cs = true ->
  eval_sfn SSubstr [VText (encode_utf8 cs); VInt pos; VInt len] =
    OVal (VText (encode_utf8 (
      if pos =? 0 then [] else
      let start := if 0 <? pos then pos - 1 else Z.max 0 (zlen cs + pos) in
      if len <? 0 then [] else take_z len (skip_z start cs)))) /\
  eval_sfn SSubstr [VText (encode_utf8 cs); VInt pos] =
    OVal (VText (encode_utf8 (
      if pos =? 0 then [] else skip_z (if 0 <? pos then pos - 1 else Z.max 0 (zlen cs + pos)) cs))).
Proof.
  intros cs pos len H.
  cbn [eval_sfn arg_text arg_int opt_arg_int nth_error]. rewrite !with_chars_encode by exact H. cbv zeta.
  destruct (Z.ltb_spec 0 pos) as [P|P].
  { replace (pos =? 0) with false by lia. unfold text, empty_text.
    destruct (Z.leb_spec 0 len); destruct (Z.ltb_spec len 0); try lia; split; reflexivity. }
  destruct (Z.ltb_spec pos 0) as [N|N].
  { replace (pos =? 0) with false by lia.
    replace (zlen cs - - pos) with (zlen cs + pos) by lia. unfold text, empty_text.
    destruct (Z.leb_spec 0 len); destruct (Z.ltb_spec len 0); try lia; split; reflexivity. }
  replace (pos =? 0) with true by lia. split; reflexivity.
Qed.

(* the result agrees with the character-level definition wherever that is unambiguous *)
Theorem substr_spec_ok_l : forall cs pos len, cps_ok cs = true ->
  str_obs_ok (str_exact SSubstr [VText (encode_utf8 cs); VInt pos; VInt len])
             (eval_sfn SSubstr [VText (encode_utf8 cs); VInt pos; VInt len]) = true /\
  str_obs_ok (str_exact SSubstr [VText (encode_utf8 cs); VInt pos])
             (eval_sfn SSubstr [VText (encode_utf8 cs); VInt pos]) = true.
Proof.
  intros cs pos len H. destruct (substr_l cs pos len H) as [E3 E2]. rewrite E3, E2.
  unfold str_exact. cbn [existsb is_null orb cps_of]. rewrite decode_encode_l by exact H.
  pose proof (Nat2Z.is_nonneg (length cs)) as Hl. fold (zlen cs) in Hl.
  destruct (Z.eqb_spec pos 0) as [Z0|Z0].
  { split; cbn [str_obs_ok]; apply zlist_eqb_refl. }
  destruct (Z.ltb_spec pos (- zlen cs)) as [B|B]; [split; reflexivity|].
  cbv zeta. destruct (Z.ltb_spec 0 pos) as [P|P].
  - split; cbn [str_obs_ok].
    + destruct (Z.ltb_spec len 1); destruct (Z.ltb_spec len 0); try apply zlist_eqb_refl; try lia.
      assert (len = 0) by lia. subst len. rewrite take_z_0. reflexivity.
    + apply zlist_eqb_refl.
  - replace (Z.max 0 (zlen cs + pos)) with (zlen cs + pos) by lia. split; cbn [str_obs_ok].
    + destruct (Z.ltb_spec len 1); destruct (Z.ltb_spec len 0); try apply zlist_eqb_refl; try lia.
      assert (len = 0) by lia. subst len. rewrite take_z_0. reflexivity.
    + apply zlist_eqb_refl.
Qed.

Lemma find_pre_ok n h pre : cps_ok h = true -> find_pre n h = Some pre -> cps_ok pre = true.
Proof.
  intros Hh F. destruct (find_pre_split n h pre F) as [rest [E _]]. subst h.
  rewrite cps_ok_app in Hh. apply andb_true_iff in Hh. tauto.
Qed.

(* ---- INSTR: the byte offset found by str::find is converted by counting the characters of the slice
   before it; the slice always ends on a character boundary (no panic) and the answer is the CHARACTER position *)
Theorem instr_l : forall h n, cps_ok h = true -> cps_ok n = true ->
  eval_sfn SInstr [VText (encode_utf8 h); VText (encode_utf8 n)] =
    OVal (VInt (match find_pre n h with Some pre => zlen pre + 1 | None => 0 end)).
Proof.
  intros h n Hh Hn. cbn [eval_sfn arg_text nth_error]. rewrite find_bytes_chars by assumption.
  destruct (find_pre n h) as [pre|] eqn:F; cbn [option_map]; [|reflexivity].
  destruct (find_pre_split _ _ _ F) as [rest [E _]].
  assert (Hp : cps_ok pre = true) by (apply (find_pre_ok n h pre Hh F)).
  rewrite E at 1. replace (0 + blen (encode_utf8 pre)) with (blen (encode_utf8 pre)) by lia.
  rewrite firstn_encode_prefix, decode_encode_l by exact Hp. reflexivity.
Qed.

Theorem instr_spec_ok_l : forall h n, cps_ok h = true -> cps_ok n = true ->
  str_obs_ok (str_exact SInstr [VText (encode_utf8 h); VText (encode_utf8 n)])
             (eval_sfn SInstr [VText (encode_utf8 h); VText (encode_utf8 n)]) = true.
Proof.
  intros h n Hh Hn. rewrite instr_l by assumption.
  unfold str_exact. cbn [existsb is_null orb cps_of]. rewrite !decode_encode_l by assumption.
  cbn [str_obs_ok]. apply Z.eqb_refl.
Qed.

(* ---- LOCATE: the byte search runs on a re-encoded suffix and its offset is converted back by
   counting characters of a slice; the slice always ends on a character boundary (no panic) and the
   result is the character position *)
Theorem locate_l : forall n h start, cps_ok n = true -> cps_ok h = true ->
  eval_sfn SLocate [VText (encode_utf8 n); VText (encode_utf8 h); VInt start] =
    OVal (VInt (if start <? 1 then 0 else if zlen h <=? start - 1 then 0
                else match find_pre n (skip_z (start - 1) h) with Some pre => zlen pre + start | None => 0 end)) /\
  eval_sfn SLocate [VText (encode_utf8 n); VText (encode_utf8 h)] =
    OVal (VInt (if zlen h <=? 0 then 0 else match find_pre n h with Some pre => zlen pre + 1 | None => 0 end)).
Proof.
  assert (G : forall n h start, cps_ok n = true -> cps_ok h = true ->
    (if start <? 1 then OVal (VInt 0)
     else with_chars (encode_utf8 h) (fun cs =>
       if zlen cs <=? start - 1 then OVal (VInt 0)
       else match find_from (encode_utf8 n) (encode_utf8 (skip_z (start - 1) cs)) 0 with
            | None => OVal (VInt 0)
            | Some p => match decode_utf8 (firstn (Z.to_nat p) (encode_utf8 (skip_z (start - 1) cs))) with
                        | Some pre => OVal (VInt (zlen pre + (start - 1) + 1))
                        | None => OPanic
                        end
            end)) =
    OVal (VInt (if start <? 1 then 0 else if zlen h <=? start - 1 then 0
                else match find_pre n (skip_z (start - 1) h) with Some pre => zlen pre + start | None => 0 end))).
  { intros n h start Hn Hh. destruct (start <? 1); [reflexivity|].
    rewrite with_chars_encode by exact Hh.
    destruct (zlen h <=? start - 1); [reflexivity|].
    assert (Hs : cps_ok (skip_z (start - 1) h) = true) by (apply cps_ok_skipn; exact Hh).
    rewrite find_bytes_chars by assumption.
    destruct (find_pre n (skip_z (start - 1) h)) as [pre|] eqn:F; cbn [option_map]; [|reflexivity].
    destruct (find_pre_split _ _ _ F) as [rest [E _]].
    assert (Hp : cps_ok pre = true) by (apply (find_pre_ok n _ pre Hs F)).
    rewrite E. replace (0 + blen (encode_utf8 pre)) with (blen (encode_utf8 pre)) by lia.
    rewrite firstn_encode_prefix, decode_encode_l by exact Hp. f_equal. f_equal. lia. }
  intros n h start Hn Hh. split.
  - cbn [eval_sfn arg_text opt_arg_int nth_error]. cbv zeta. apply G; assumption.
  - cbn [eval_sfn arg_text opt_arg_int nth_error]. cbv zeta.
    rewrite (G n h 1 Hn Hh). change (1 <? 1) with false. change (1 - 1) with 0. cbv iota.
    unfold skip_z. pose proof (Nat2Z.is_nonneg (length h)) as Hl. fold (zlen h) in Hl.
    replace (Z.min 0 (zlen h)) with 0 by lia. cbn [Z.to_nat skipn]. reflexivity.
Qed.

Theorem locate_spec_ok_l : forall n h start, cps_ok n = true -> cps_ok h = true ->
  str_obs_ok (str_exact SLocate [VText (encode_utf8 n); VText (encode_utf8 h); VInt start])
             (eval_sfn SLocate [VText (encode_utf8 n); VText (encode_utf8 h); VInt start]) = true /\
  str_obs_ok (str_exact SLocate [VText (encode_utf8 n); VText (encode_utf8 h)])
             (eval_sfn SLocate [VText (encode_utf8 n); VText (encode_utf8 h)]) = true.
Proof.
  intros n h start Hn Hh. destruct (locate_l n h start Hn Hh) as [E3 E2]. rewrite E3, E2.
  unfold str_exact. cbn [existsb is_null orb cps_of]. rewrite !decode_encode_l by assumption.
  destruct n as [|c n']; [split; reflexivity|]. split.
  - destruct (Z.ltb_spec start 1); [reflexivity|]. cbn [str_obs_ok].
    destruct (Z.leb_spec (zlen h) (start - 1)) as [L|L]; [|apply Z.eqb_refl].
    (* start beyond the end: the suffix is empty, nothing is found *)
    unfold skip_z. replace (Z.min (start - 1) (zlen h)) with (zlen h) by lia.
    unfold zlen. rewrite Nat2Z.id, skipn_all. reflexivity.
  - cbn [str_obs_ok]. destruct (Z.leb_spec (zlen h) 0) as [L|L]; [|apply Z.eqb_refl].
    assert (h = []) by (destruct h; [reflexivity|unfold zlen in L; cbn [length] in L; lia]). subst h. reflexivity.
Qed.

(* ---- padding: the result has exactly the requested number of characters *)
Lemma cycle_length pad k : 0 <= k -> zlen (cycle pad k) = k.
Proof. intros H. unfold cycle, zlen. rewrite map_length, seq_length. lia. Qed.

Lemma take_z_length {A} n (l : list A) : 0 <= n -> zlen (take_z n l) = Z.min n (zlen l).
Proof. intros H. unfold take_z, zlen. rewrite firstn_length. lia. Qed.

Theorem pad_l : forall cs pcs n, cps_ok cs = true -> cps_ok pcs = true -> 0 <= n <= max_model ->
  (n <= zlen cs ->
     eval_sfn SLpad [VText (encode_utf8 cs); VInt n; VText (encode_utf8 pcs)] = OVal (VText (encode_utf8 (take_z n cs))) /\
     eval_sfn SRpad [VText (encode_utf8 cs); VInt n; VText (encode_utf8 pcs)] = OVal (VText (encode_utf8 (take_z n cs)))) /\
  (zlen cs < n -> pcs <> [] ->
     eval_sfn SLpad [VText (encode_utf8 cs); VInt n; VText (encode_utf8 pcs)] =
       OVal (VText (encode_utf8 (cycle pcs (n - zlen cs) ++ cs))) /\
     eval_sfn SRpad [VText (encode_utf8 cs); VInt n; VText (encode_utf8 pcs)] =
       OVal (VText (encode_utf8 (cs ++ cycle pcs (n - zlen cs)))) /\
     zlen (cycle pcs (n - zlen cs) ++ cs) = n /\ zlen (cs ++ cycle pcs (n - zlen cs)) = n).
Proof.
  intros cs pcs n Hc Hp Hn. unfold max_model in *.
  cbn [eval_sfn]. unfold pad_common. cbn [arg_text arg_int nth_error].
  replace (n <? 0) with false by lia.
  rewrite !(with_chars_encode cs) by exact Hc. cbv zeta. split.
  - intros L. replace (n <=? zlen cs) with true by lia. split; reflexivity.
  - intros L Hne. replace (n <=? zlen cs) with false by lia.
    assert (Hb : blen (encode_utf8 pcs) =? 0 = false).
    { destruct pcs as [|c t]; [contradiction|]. apply cps_ok_cons in Hp. destruct Hp as [Hc0 _].
      rewrite encode_utf8_cons. destruct (encode_cp_shape c Hc0) as [b0 [conts [E _]]]. rewrite E.
      cbn [app]. rewrite blen_cons. pose proof (blen_nonneg (conts ++ encode_utf8 t)). lia. }
    rewrite Hb. rewrite !(with_chars_encode pcs) by exact Hp.
    unfold max_model. replace (n <=? 65536) with true by lia.
    repeat split.
    + unfold zlen at 1. rewrite app_length. fold (zlen (cycle pcs (n - zlen cs))). fold (zlen cs).
      rewrite Nat2Z.inj_add. fold (zlen (cycle pcs (n - zlen cs))). fold (zlen cs). rewrite cycle_length by lia. lia.
    + unfold zlen at 1. rewrite app_length, Nat2Z.inj_add. fold (zlen (cycle pcs (n - zlen cs))). fold (zlen cs).
      rewrite cycle_length by lia. lia.
Qed.

(* a negative length gives NULL (no cast to usize any more) *)
Theorem pad_negative_l : forall s p n, n < 0 ->
  eval_sfn SLpad [VText s; VInt n; VText p] = OVal VNull /\ eval_sfn SRpad [VText s; VInt n; VText p] = OVal VNull.
Proof.
  intros s p n Hn. cbn [eval_sfn]. unfold pad_common. cbn [arg_text arg_int nth_error].
  replace (n <? 0) with true by lia. split; reflexivity.
Qed.

(* ---- TRIM family, UPPER / LOWER on ASCII, CONCAT, REPEAT *)
Theorem trim_l : forall cs, cps_ok cs = true ->
  eval_sfn STrim [VText (encode_utf8 cs)] = OVal (VText (encode_utf8 (trim_by is_ws cs))) /\
  eval_sfn SLtrim [VText (encode_utf8 cs)] = OVal (VText (encode_utf8 (trim_start_by is_ws cs))) /\
  eval_sfn SRtrim [VText (encode_utf8 cs)] = OVal (VText (encode_utf8 (trim_end_by is_ws cs))).
Proof.
  intros cs H. cbn [eval_sfn arg_text nth_error]. rewrite !with_chars_encode by exact H. repeat split; reflexivity.
Qed.

Lemma ascii_bytes cs : is_ascii cs = true -> forallb (fun b => b <? 128) cs = true.
Proof.
  induction cs as [|c t IH]; intros H; [reflexivity|]. cbn [is_ascii forallb] in *.
  apply andb_true_iff in H. destruct H as [Hc Ht]. rewrite (IH Ht). replace (c <? 128) with true by lia. reflexivity.
Qed.

Theorem case_ascii_l : forall cs, is_ascii cs = true ->
  eval_sfn SUpper [VText (encode_utf8 cs)] = OVal (VText (map ascii_up cs)) /\
  eval_sfn SLower [VText (encode_utf8 cs)] = OVal (VText (map ascii_low cs)).
Proof.
  intros cs H. rewrite blen_encode_ascii by exact H. cbn [eval_sfn arg_text nth_error].
  rewrite ascii_bytes by exact H. split; reflexivity.
Qed.

Theorem concat_l : forall a b, eval_sfn SConcat [VText (encode_utf8 a); VText (encode_utf8 b)] = OVal (VText (encode_utf8 (a ++ b))) /\
  eval_sfn SConcat [VText (encode_utf8 a); VNull] = OVal VNull /\ eval_sfn SConcat [VNull; VText (encode_utf8 b)] = OVal VNull.
Proof. intros a b. cbn [eval_sfn concat_args app]. rewrite encode_utf8_app. repeat split; reflexivity. Qed.

(* ---- STRCMP compares the byte strings, which orders them like their character lists *)
Theorem strcmp_l : forall a b, cps_ok a = true -> cps_ok b = true ->
  eval_sfn SStrcmp [VText (encode_utf8 a); VText (encode_utf8 b)] = OVal (VInt (cmp_lex a b)).
Proof. intros a b Ha Hb. cbn [eval_sfn arg_text nth_error]. rewrite cmp_lex_encode by assumption. reflexivity. Qed.

(* ---- NULL in, NULL out: a NULL in any required position makes the function return None, shown as NULL *)
Theorem str_null_l : forall s n p,
  to_sql (eval_sfn SLength [VNull]) = OVal VNull /\ to_sql (eval_sfn SCharLength [VNull]) = OVal VNull /\
  to_sql (eval_sfn SReverse [VNull]) = OVal VNull /\ to_sql (eval_sfn SUpper [VNull]) = OVal VNull /\
  to_sql (eval_sfn SLeft [VNull; VInt n]) = OVal VNull /\ to_sql (eval_sfn SLeft [VText s; VNull]) = OVal VNull /\
  to_sql (eval_sfn SRight [VNull; VInt n]) = OVal VNull /\ to_sql (eval_sfn SRight [VText s; VNull]) = OVal VNull /\
  to_sql (eval_sfn SSubstr [VNull; VInt n]) = OVal VNull /\ to_sql (eval_sfn SSubstr [VText s; VNull]) = OVal VNull /\
  to_sql (eval_sfn SInstr [VNull; VText p]) = OVal VNull /\ to_sql (eval_sfn SInstr [VText s; VNull]) = OVal VNull /\
  to_sql (eval_sfn SLocate [VNull; VText p]) = OVal VNull /\ to_sql (eval_sfn SLocate [VText s; VNull]) = OVal VNull /\
  to_sql (eval_sfn SLpad [VNull; VInt n; VText p]) = OVal VNull /\ to_sql (eval_sfn SLpad [VText s; VNull; VText p]) = OVal VNull /\
  to_sql (eval_sfn SLpad [VText s; VInt n; VNull]) = OVal VNull /\ to_sql (eval_sfn SRpad [VText s; VInt n; VNull]) = OVal VNull /\
  to_sql (eval_sfn SRepeat [VNull; VInt n]) = OVal VNull /\ to_sql (eval_sfn SRepeat [VText s; VNull]) = OVal VNull /\
  to_sql (eval_sfn STrim [VNull]) = OVal VNull /\ to_sql (eval_sfn SStrcmp [VText s; VNull]) = OVal VNull /\
  (* a NULL optional argument too (it used to be ignored) *)
  to_sql (eval_sfn SSubstr [VText s; VInt n; VNull]) = OVal VNull /\ to_sql (eval_sfn SLocate [VText p; VText s; VNull]) = OVal VNull.
Proof. intros. repeat split; reflexivity. Qed.

(* ---- the witnesses of the repaired findings F-C20-4 .. F-C20-7 on the new model *)
Theorem str_witnesses_l :
  (* INSTR('ea' with e-acute, 'a') = 2, the character position (was 3, the byte offset) *)
  eval_sfn SInstr [VText [195; 169; 97]; VText [97]] = OVal (VInt 2) /\
  str_exact SInstr [VText [195; 169; 97]; VText [97]] = SInt 2 /\
  (* SUBSTR('abc', i64::MIN) = 'abc' (panicked) *)
  eval_sfn SSubstr [VText [97; 98; 99]; VInt i64_min] = OVal (VText [97; 98; 99]) /\
  (* LPAD / RPAD('a', -1, 'x') = NULL (LPAD panicked, RPAD looped) *)
  eval_sfn SLpad [VText [97]; VInt (-1); VText [120]] = OVal VNull /\ eval_sfn SRpad [VText [97]; VInt (-1); VText [120]] = OVal VNull /\
  (* SUBSTR('abc', 2, NULL) = NULL (was 'bc') *)
  eval_sfn SSubstr [VText [97; 98; 99]; VInt 2; VNull] = ONone /\
  str_exact SSubstr [VText [97; 98; 99]; VInt 2; VNull] = SNull.
Proof. vm_compute. repeat split. Qed.
