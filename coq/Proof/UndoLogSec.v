(* C07 -- lookups through the secondary (non-unique) index after a rollback, on tables WITHOUT an
   integer primary key: the index only ever grows by entries `value ++ row id` of rows inserted
   later; after the rollback those rows are gone, their entries dangle and every index scan skips
   them, so the lookup returns what it returned before.  (With an integer primary key the undo
   code writes keys without the row-id suffix: finding class 3.) *)
From Coq Require Import ZArith List Bool Lia Sorted.
From TV Require Import Model.SqlSpec Model.UndoLog Model.UndoLogSpec
  Proof.UndoLogBase Proof.UndoLogStep Proof.UndoLogSp Proof.UndoLogTxn.
Import ListNotations.
Open Scope Z_scope.

(* entries filed for rows with row ids from `lo` on *)
Definition fresh_ext (lo : Z) (ext : list sent) : Prop := forall e, In e ext -> exists id, s_suf e = Some id /\ lo <= id.

Lemma sdel_bare_nobare : forall k ix, (forall e, In e ix -> s_suf e <> None) -> sdel_bare k ix = ix.
Proof.
  intros k ix. unfold sdel_bare. induction ix as [|e ix IH]; intro H; cbn [filter]; [reflexivity|].
  assert (He : skey_is k None e = false).
  { unfold skey_is. destruct (s_suf e) eqn:E; [cbn [suf_eqb]; apply andb_false_r|].
    exfalso. apply (H e); [left; reflexivity| exact E]. }
  rewrite He. cbn [negb]. rewrite IH; [reflexivity|]. intros x Hx. apply H. right. exact Hx.
Qed.

(* ------------------------------------------------------------------ undo never touches the index *)
Lemma undo_entry_sidx : forall sch w st, int_pk sch = false -> no_bare st -> sidx (undo_entry sch w st) = sidx st.
Proof.
  intros sch w st Hpk Hnb. destruct w as [id|id old]; cbn [undo_entry].
  - destruct (find_ent id (ents st)) as [e|]; [|reflexivity]. cbn [sidx].
    destruct (s_sec sch && negb (is_null (c1 (e_row e)))); [|reflexivity]. apply sdel_bare_nobare. exact Hnb.
  - cbn [sidx]. rewrite Hpk, andb_false_r. reflexivity.
Qed.

Lemma undo_list_sidx : forall sch ws st, int_pk sch = false -> no_bare st -> sidx (undo_list sch ws st) = sidx st.
Proof.
  intros sch ws. induction ws as [|w ws IH] using rev_ind; intros st Hpk Hnb; [reflexivity|].
  rewrite undo_list_snoc. rewrite IH; [apply undo_entry_sidx; assumption | exact Hpk|].
  intros e He. rewrite undo_entry_sidx in He by assumption. apply Hnb. exact He.
Qed.

(* ------------------------------------------------------------------ INSERT appends suffixed entries of fresh row ids *)
Lemma ins_loop_sidx : forall sch rows st acc b st' ids,
  ins_loop sch st rows acc = (b, st', ids) ->
  exists ext, sidx st' = sidx st ++ ext /\ fresh_ext (nextid st) ext /\ nextid st <= nextid st'.
Proof.
  intros sch rows. induction rows as [|r rs IH]; intros st acc b st' ids H; cbn [ins_loop] in H.
  - injection H as _ <- _. exists []. rewrite app_nil_r. split; [reflexivity|]. split; [intros e []| lia].
  - destruct (nn_ok sch r && uniq_ok sch st r).
    + destruct (IH _ _ _ _ _ H) as (ext & E1 & E2 & E3). unfold ins_write in E1, E2, E3. cbn [sidx nextid] in E1, E2, E3.
      destruct (s_sec sch).
      * exists (mkS (c1 r) (Some (nextid st)) (nextid st) :: ext). split; [rewrite E1, <- app_assoc; reflexivity|].
        split; [|lia]. intros e [<-|He]; [exists (nextid st); cbn [s_suf]; split; [reflexivity|lia]|].
        destruct (E2 e He) as (id & Hs & Hl). exists id. split; [exact Hs|lia].
      * exists ext. split; [exact E1|]. split; [|lia]. intros e He.
        destruct (E2 e He) as (id & Hs & Hl). exists id. split; [exact Hs|lia].
    + injection H as _ <- _. exists []. rewrite app_nil_r. split; [reflexivity|]. split; [intros e []| lia].
Qed.

Lemma do_insert_sidx : forall sch st rows r st2 es,
  do_insert sch st rows = (r, st2, es) ->
  exists ext, sidx st2 = sidx st ++ ext /\ fresh_ext (nextid st) ext /\ nextid st <= nextid st2.
Proof.
  intros sch st rows r st2 es H. unfold do_insert in H.
  destruct (ins_loop sch st rows []) as [[b st'] ids] eqn:E.
  destruct (ins_loop_sidx _ _ _ _ _ _ _ E) as (ext & E1 & E2 & E3).
  destruct b; injection H as _ <- _; exists ext; unfold add_count; cbn [sidx nextid]; repeat split; assumption.
Qed.

(* ------------------------------------------------------------------ UPDATE leaves the index alone *)
(* an UPDATE of c0 never touches the index on c1 *)
Lemma upd_multi_sidx : forall sch st v w r st2 es,
  upd_multi sch st C0 v w = (r, st2, es) -> sidx st2 = sidx st /\ nextid st2 = nextid st.
Proof.
  intros sch st v w r st2 es H. unfold upd_multi in H. cbv zeta in H. cbn [is_c0] in H.
  destruct (negb match select sch w st with [] => true | _ :: _ => false end && true && is_pk sch && is_null v);
    [injection H as _ <- _; split; reflexivity|].
  destruct (true && keyed sch && negb (is_null v) && upd_dup v (kidx st) (select sch w st));
    injection H as _ <- _; split; reflexivity.
Qed.

Lemma do_update_sidx : forall sch st v w r st2 es,
  do_update sch st C0 v w = (r, st2, es) -> sidx st2 = sidx st /\ nextid st2 = nextid st.
Proof.
  intros sch st v w r st2 es H. unfold do_update in H.
  destruct (pk_info sch w st) as [[id wv]|]; [|exact (upd_multi_sidx _ _ _ _ _ _ _ H)].
  destruct (negb (idx_mod sch C0) && negb (has_toast sch)); [|exact (upd_multi_sidx _ _ _ _ _ _ _ H)].
  destruct (find_ent id (ents st)) as [x|]; [destruct (live x && value_eqb (c0 (e_row x)) wv)|];
    injection H as _ <- _; split; reflexivity.
Qed.

(* ------------------------------------------------------------------ along a covered body *)
Definition sec_inv (st0 : tstate) (s : tstate * option txn) : Prop :=
  (exists ext, sidx (fst s) = sidx st0 ++ ext /\ fresh_ext (nextid st0) ext) /\ nextid st0 <= nextid (fst s).

Lemma sec_inv_nobare : forall st0 s, no_bare st0 -> sec_inv st0 s -> no_bare (fst s).
Proof.
  intros st0 s Hnb [(ext & E & Hf) _] e He. rewrite E in He. apply in_app_or in He. destruct He as [He|He].
  - apply Hnb. exact He.
  - destruct (Hf e He) as (id & Hs & _). rewrite Hs. discriminate.
Qed.

Lemma sec_inv_same : forall st0 s st' tx', sec_inv st0 s -> sidx st' = sidx (fst s) -> nextid st' = nextid (fst s) ->
  sec_inv st0 (st', tx').
Proof. intros st0 s st' tx' [(ext & E & Hf) Hn] Hs Hx. split; [exists ext; cbn [fst]; rewrite Hs; split; assumption | cbn [fst]; lia]. Qed.

Lemma sec_inv_step : forall sch outer st0 o s,
  int_pk sch = false -> no_bare st0 -> sec_inv st0 s -> clean_op sch outer o s = true -> sec_clean o = true ->
  sec_inv st0 (snd (exec sch o s)).
Proof.
  intros sch outer st0 o [st tx] Hpk Hnb0 Hinv Hcl Hsc.
  pose proof (sec_inv_nobare st0 (st, tx) Hnb0 Hinv) as Hnb. cbn [fst] in Hnb.
  destruct o as [rows|sc v w|w| | | |n|n|n| | ]; cbn [clean_op fst] in Hcl; try discriminate; cbn [exec].
  - destruct (do_insert sch st rows) as [[r st'] es] eqn:E. cbn [snd].
    destruct (do_insert_sidx _ _ _ _ _ _ E) as (ext' & E1 & E2 & E3).
    destruct Hinv as [(ext & F1 & F2) Hn]. cbn [fst] in *. unfold sec_inv. cbn [fst]. split; [|lia].
    exists (ext ++ ext'). split; [rewrite E1, F1, app_assoc; reflexivity|].
    intros e He. apply in_app_or in He. destruct He as [He|He]; [apply F2; exact He|].
    destruct (E2 e He) as (id & Hs & Hl). exists id. split; [exact Hs|lia].
  - destruct sc; [|discriminate Hsc].
    destruct (do_update sch st C0 v w) as [[r st'] es] eqn:E. cbn [snd].
    destruct (do_update_sidx _ _ _ _ _ _ _ E) as [E1 E2].
    apply (sec_inv_same st0 (st, tx)); assumption.
  - destruct tx; cbn [snd]; exact Hinv.
  - destruct tx as [t|]; cbn [snd]; [|exact Hinv]. apply (sec_inv_same st0 (st, Some t)); [exact Hinv| |]; reflexivity.
  - destruct tx as [t|]; [|cbn [snd]; exact Hinv].
    destruct (sp_find n (sps t)) as [i|]; [|cbn [snd]; exact Hinv].
    destruct (nth_error (sps t) i) as [[m idx]|]; [|cbn [snd]; exact Hinv]. cbn [snd].
    apply (sec_inv_same st0 (st, Some t)); [exact Hinv| |].
    + cbn [fst]. apply undo_list_sidx; assumption.
    + cbn [fst]. apply undo_list_nextid.
  - destruct tx as [t|]; [|cbn [snd]; exact Hinv].
    destruct (sp_find n (sps t)) as [i|]; cbn [snd]; [|exact Hinv].
    apply (sec_inv_same st0 (st, Some t)); [exact Hinv| |]; reflexivity.
  - cbn [snd]. exact Hinv.
Qed.

Lemma sec_inv_run : forall sch outer st0 ops s,
  int_pk sch = false -> no_bare st0 -> sec_inv st0 s -> clean_run sch outer ops s = true ->
  forallb sec_clean ops = true ->
  sec_inv st0 (run sch ops s).
Proof.
  intros sch outer st0 ops. induction ops as [|o ops IH]; intros s Hpk Hnb Hinv Hcl Hsc; cbn [run]; [exact Hinv|].
  cbn [clean_run] in Hcl. apply andb_true_iff in Hcl. destruct Hcl as [H1 H2].
  cbn [forallb] in Hsc. apply andb_true_iff in Hsc. destruct Hsc as [S1 S2].
  apply IH; try assumption. eapply sec_inv_step; eassumption.
Qed.

Lemma sec_inv_start : forall st tx, sec_inv st (st, tx).
Proof. intros st tx. split; [exists []; cbn [fst]; rewrite app_nil_r; split; [reflexivity| intros e []] | cbn [fst]; lia]. Qed.

(* ------------------------------------------------------------------ dangling entries are invisible *)
Lemma flat_map_dangling : forall es lo v ext,
  (forall e, In e es -> e_id e < lo) -> fresh_ext lo ext ->
  flat_map (fun e : sent =>
              if value_eqb (s_key e) v
              then match sent_rid e with
                   | Some id => match find_ent id es with Some x => [e_row x] | None => [] end
                   | None => []
                   end
              else []) ext = [].
Proof.
  intros es lo v ext Hb. induction ext as [|e ext IH]; intro Hf; [reflexivity|]. cbn [flat_map].
  rewrite IH by (intros x Hx; apply Hf; right; exact Hx). rewrite app_nil_r.
  destruct (value_eqb (s_key e) v); [|reflexivity].
  destruct (Hf e (or_introl eq_refl)) as (id & Hsuf & Hid). unfold sent_rid. rewrite Hsuf.
  destruct (find_ent id es) as [x|] eqn:E; [|reflexivity].
  apply find_ent_In in E. destruct E as [Hin He]. specialize (Hb x Hin). lia.
Qed.

Lemma lookup1_ext : forall sch a b ext v,
  ents a = ents b -> ids_below b -> sidx a = sidx b ++ ext -> fresh_ext (nextid b) ext ->
  lookup1 sch a v = lookup1 sch b v.
Proof.
  intros sch [ea ra ka sa na] [eb rb kb sb nb] ext v He Hb Hs Hf. cbn [ents sidx nextid] in *. subst ea sa.
  unfold lookup1, scan, get_row. cbn [ents sidx].
  destruct (s_sec sch && indexable v); [|reflexivity].
  rewrite flat_map_app. rewrite (flat_map_dangling eb nb v ext); [apply app_nil_r| |exact Hf].
  intros e He. apply (Hb e). exact He.
Qed.

(* ------------------------------------------------------------------ the theorems *)
Lemma rollback_restores_secondary_l : forall sch st body fin,
  int_pk sch = false -> inv sch st -> no_bare st ->
  clean_run sch [] body (st, Some (mkTxn [] [])) = true -> forallb sec_clean body = true ->
  fin = ORollback \/ fin = ODrop ->
  forall v, lookup1 sch (fst (run sch (OBegin :: body ++ [fin]) (st, None))) v = lookup1 sch st v.
Proof.
  intros sch st body fin Hpk Hi Hnb Hcl Hsc Hfin v.
  destruct (rollback_restores_l sch st body fin Hi Hcl Hfin) as [Hcore _].
  unfold core3 in Hcore. injection Hcore as He _ _.
  assert (Hsec : sec_inv st (run sch (OBegin :: body ++ [fin]) (st, None))).
  { cbn [run exec snd]. rewrite run_app.
    pose proof (sec_inv_run sch [] st body _ Hpk Hnb (sec_inv_start st (Some (mkTxn [] []))) Hcl Hsc) as Hq.
    destruct (run sch body (st, Some (mkTxn [] []))) as [st' tx'] eqn:Er.
    pose proof (sec_inv_nobare st _ Hnb Hq) as Hnb'. cbn [fst] in Hnb'.
    destruct Hfin as [-> | ->]; cbn [run exec]; destruct tx' as [t'|]; cbn [snd]; try exact Hq;
      (apply (sec_inv_same st (st', Some t')); [exact Hq | cbn [fst]; apply undo_list_sidx; assumption | cbn [fst]; apply undo_list_nextid]). }
  destruct Hsec as [(ext & E & Hf) _]. destruct Hi as (_ & Hb & _).
  eapply lookup1_ext; eassumption.
Qed.

Lemma savepoint_restores_secondary_l : forall sch st t n body,
  int_pk sch = false -> inv sch st -> no_bare st -> zin n (names_of (sps t)) = false ->
  clean_run sch (names_of (sps t) ++ [n]) body
            (st, Some (mkTxn (wlog t) (sps t ++ [(n, length (wlog t))]))) = true ->
  forallb sec_clean body = true ->
  forall v, lookup1 sch (fst (run sch (OSave n :: body ++ [ORollTo n]) (st, Some t))) v = lookup1 sch st v.
Proof.
  intros sch st t n body Hpk Hi Hnb Hfresh Hcl Hsc v.
  destruct (savepoint_restores_l sch st t n body Hi Hfresh Hcl) as [Hcore _].
  unfold core3 in Hcore. injection Hcore as He _ _.
  assert (Hsec : sec_inv st (run sch (OSave n :: body ++ [ORollTo n]) (st, Some t))).
  { cbn [run exec snd]. rewrite run_app.
    pose proof (sec_inv_run sch _ st body _ Hpk Hnb (sec_inv_start st (Some (mkTxn (wlog t) (sps t ++ [(n, length (wlog t))])))) Hcl Hsc) as Hq.
    destruct (run sch body (st, Some (mkTxn (wlog t) (sps t ++ [(n, length (wlog t))])))) as [st' tx'] eqn:Er.
    pose proof (sec_inv_nobare st _ Hnb Hq) as Hnb'. cbn [fst] in Hnb'.
    cbn [run exec]. destruct tx' as [t'|]; [|cbn [snd]; exact Hq].
    destruct (sp_find n (sps t')) as [i|]; [|cbn [snd]; exact Hq].
    destruct (nth_error (sps t') i) as [[m idx]|]; [|cbn [snd]; exact Hq]. cbn [snd].
    apply (sec_inv_same st (st', Some t')); [exact Hq | cbn [fst]; apply undo_list_sidx; assumption | cbn [fst]; apply undo_list_nextid]. }
  destruct Hsec as [(ext & E & Hf) _]. destruct Hi as (_ & Hb & _).
  eapply lookup1_ext; eassumption.
Qed.
