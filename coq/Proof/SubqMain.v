(* C18: FROM (subquery) with simple levels, and the main theorem: for every well-formed statement
   (Model/SubqWf.v) outside the recorded finding classes (Model/SubqClass.v) that the
   implementation model covers, the model returns the bag of rows the reference semantics
   defines (and the reference never demands an error there). *)
From Coq Require Import ZArith List Bool Arith Lia.
From TV Require Import Model.SqlSpec Proof.SqlSpecLaws Model.SubqSpec Model.SubqImpl Model.SubqWf Model.SubqClass.
From TV Require Import Proof.SubqLaws Proof.SetOpsBag Proof.SubqEval Proof.SubqSelect Proof.SubqFilter Proof.SubqJoin Proof.SetOpsChain Proof.SubqStmt.
Import ListNotations.
Open Scope Z_scope.

(* ------------------------------------------------------------------ helpers *)
Lemma filter_opt_In : forall {A} (P : A -> option bool) T rows x,
  filter_opt P T = Some rows -> In x rows -> In x T.
Proof.
  intros A P T. induction T as [|y T IH]; intros rows x Hf Hin; cbn [filter_opt] in Hf.
  - inversion Hf; subst. destruct Hin.
  - destruct (P y) as [b|]; [|discriminate]. destruct (filter_opt P T) as [t0|]; [|discriminate].
    inversion Hf; subst. destruct b; [destruct Hin as [E|Hin]; [left; exact E|right; eapply IH; eauto]|right; eapply IH; eauto].
Qed.

Lemma map_opt_In : forall {A B} (f : A -> option B) l t y,
  map_opt f l = Some t -> In y t -> exists x, In x l /\ f x = Some y.
Proof.
  intros A B f. induction l as [|x l IH]; intros t y H Hin; cbn [map_opt] in H.
  - inversion H; subst. destruct Hin.
  - destruct (f x) as [b|] eqn:Ef; [|discriminate]. destruct (map_opt f l) as [t0|]; [|discriminate]. inversion H; subst.
    destruct Hin as [E|Hin]; [subst; exists x; split; [left; reflexivity|exact Ef]|].
    destruct (IH t0 y eq_refl Hin) as [x0 [Hx0 Hf0]]. exists x0. split; [right; exact Hx0|exact Hf0].
Qed.

Lemma plain_items_row : forall r items o,
  row_plain r = true -> map_opt (plain_item r) items = Some o -> row_plain o = true.
Proof.
  intros r items o Hp H. unfold row_plain. rewrite forallb_forall. intros v Hv.
  destruct (map_opt_In _ _ _ _ H Hv) as [it [_ Hit]].
  destruct it; try discriminate. destruct lvl; [|discriminate]. cbn [plain_item] in Hit. eapply row_plain_nth; eauto.
Qed.

Lemma map_opt_ext_filter_item : forall items (rows : list row),
  forallb plain_col_item items = true ->
  map_opt (fun r => map_opt (filter_item r) items) rows = map_opt (fun r => map_opt (plain_item r) items) rows.
Proof.
  intros items rows H. induction rows as [|r rows IH]; [reflexivity|].
  cbn [map_opt]. rewrite (filter_item_plain r items H), IH. reflexivity.
Qed.

Lemma ieval_scal_irrel : forall look s1 s2 e, has_sub e = false -> ieval look s1 e = ieval look s2 e.
Proof.
  intros look s1 s2. induction e; cbn [has_sub]; intro H; try discriminate; cbn [ieval]; try reflexivity;
    try (apply orb_false_iff in H; destruct H as [H1 H2]; rewrite IHe1, IHe2 by assumption; reflexivity);
    try (rewrite IHe by assumption; reflexivity).
Qed.

(* a level whose predicate has no subquery, over rows that are plain *)
Lemma simple_level_correct : forall db items p T,
  forallb plain_col_item items = true -> pform p = true -> has_sub p = false ->
  (forall r, In r T -> row_plain r = true) ->
  match sel_rows db [] items (Some p) T with
  | ROk t => exists rows, filter_opt (fun r => ipass (look_own r) (fun _ => None) p) T = Some rows /\
                          map_opt (fun r => map_opt (plain_item r) items) rows = Some t /\
                          (forall r, In r t -> row_plain r = true)
  | RUndef => True
  | RErr => False
  end.
Proof.
  intros db items p T Hitems Hpf Hs Hplain.
  destruct (sel_rows db [] items (Some p) T) as [t| |] eqn:Hsel; [|exact I|].
  - destruct (sel_rows_filter db [] items (Some p)
               (fun r => ipass (look_own r) (fun _ => None) p) (fun r => map_opt (plain_item r) items) T t) as [rows [Hf Hm]].
    + intros r b Hin Hb. apply (ipass_agree db [r]); auto.
      * apply has_sub_no_inex; exact Hs.
      * apply cols_ok_all. intros. apply look_own_agrees. apply Hplain. exact Hin.
      * apply scal_agrees_nil. apply has_sub_scalars. exact Hs.
    + intros r o Hin Ho. eapply sel_items_plain; eauto.
    + exact Hsel.
    + exists rows. split; [exact Hf|]. split; [exact Hm|].
      intros o Ho. destruct (map_opt_In _ _ _ _ Hm Ho) as [r [Hr Hro]].
      eapply plain_items_row; [|exact Hro]. apply Hplain. eapply filter_opt_In; eauto.
  - eapply (sel_rows_no_err db [] items (Some p) T); [apply plain_items_no_sub; exact Hitems|exact Hs|exact Hsel].
Qed.

(* ------------------------------------------------------------------ FROM (subquery) *)
Lemma derived_correct : forall widths db, db_wf widths db = true ->
  forall q, derived_wf widths q = true -> derived_simple q = true ->
  match qeval db [] q with
  | ROk t => impl_derived db q = Some t /\ (forall r, In r t -> row_plain r = true)
  | RUndef => True
  | RErr => False
  end.
Proof.
  intros widths db Hwf. fix IH 1. intros q Hw Hs.
  destruct q as [items s w|]; [|discriminate]. destruct w as [p|]; [|discriminate].
  cbn [derived_wf derived_simple] in Hw, Hs.
  apply andb_true_iff in Hw. destruct Hw as [Hw Hsrc]. apply andb_true_iff in Hw. destruct Hw as [Hitems Hpf].
  apply andb_true_iff in Hs. destruct Hs as [Hs Hsrc']. apply andb_true_iff in Hs. destruct Hs as [Hnp _].
  apply negb_true_iff in Hnp.
  rewrite qeval_sel. cbn [impl_derived]. rewrite Hnp.
  destruct s as [k|q'].
  - (* base table *)
    rewrite seval_base. destruct (nth_error widths k) as [lw|] eqn:Hlw; [|discriminate].
    destruct (nth_error db k) as [T|] eqn:HT; cbn [of_opt rbind]; [|exact I].
    pose proof (simple_level_correct db items p T Hitems Hpf Hnp
                  (fun r Hin => proj1 (db_wf_row widths db k T lw r Hwf HT Hlw Hin))) as H.
    destruct (sel_rows db [] items (Some p) T) as [t| |]; [|exact I|exact H].
    destruct H as [rows [Hf [Hm Hpl]]]. rewrite Hf. split; [exact Hm|exact Hpl].
  - (* nested derived table *)
    rewrite seval_sub. specialize (IH q' Hsrc Hsrc').
    destruct (qeval db [] q') as [T| |]; cbn [rbind]; [|exact I|exact IH].
    destruct IH as [Hd HplT]. rewrite Hd.
    pose proof (simple_level_correct db items p T Hitems Hpf Hnp HplT) as H.
    destruct (sel_rows db [] items (Some p) T) as [t| |]; [|exact I|exact H].
    destruct H as [rows [Hf [Hm Hpl]]]. rewrite Hf. split; [exact Hm|exact Hpl].
Qed.

(* ------------------------------------------------------------------ a single SELECT *)
Lemma chain_qry_single : forall q, chain_qry (q, []) = q.
Proof. reflexivity. Qed.

Lemma select_correct : forall widths db q,
  db_wf widths db = true -> select_wf widths q = true -> select_class widths db q = 0 ->
  impl_select widths db q <> MUnm ->
  agree (impl_select widths db q) (qeval db [] q).
Proof.
  intros widths db q Hwf Hsw Hcl Hunm.
  destruct q as [items s w|]; [|discriminate]. destruct s as [k|q'].
  - (* FROM a base table *)
    cbn [select_wf] in Hsw. destruct w as [p|]; [|discriminate].
    destruct (nth_error widths k) as [lw|] eqn:Hlw; [|discriminate].
    apply andb_true_iff in Hsw. destruct Hsw as [Hsw Hsubs]. apply andb_true_iff in Hsw. destruct Hsw as [Hsw Hbare].
    apply andb_true_iff in Hsw. destruct Hsw as [Hitems Hpf].
    cbn [select_class] in Hcl. rewrite (plain_items_no_sub items Hitems), Hlw in Hcl.
    rewrite qeval_sel, seval_base. cbn [impl_select] in *. rewrite Hlw in *.
    destruct (nth_error db k) as [L|] eqn:HL; cbn [of_opt rbind]; [|exact I].
    unfold where_class in Hcl.
    destruct (decor p) as [d|] eqn:Hd.
    + (* decorrelated: the whole WHERE is one EXISTS / IN *)
      destruct (is_sub_atom p) eqn:Hatom; cbn [negb] in Hcl; [|discriminate].
      destruct p as [| | | | | | | |neg a sq|neg sq|]; try discriminate.
      * (* IN *)
        cbn [subs_wf] in Hsubs. apply andb_true_iff in Hsubs. destruct Hsubs as [_ Hsq].
        destruct sq as [its s2 w2|]; [|discriminate]. destruct its as [|it [|it2 its]]; try discriminate.
        destruct s2 as [k2|]; [|discriminate]. cbn [sub_wf] in Hsq.
        destruct (nth_error widths k2) as [rw|] eqn:Hrw; [|discriminate].
        apply andb_true_iff in Hsq. destruct Hsq as [Hit Hw2].
        destruct it as [li j qq| | | | | | | | | |]; try discriminate. destruct li; [|discriminate]. apply Nat.ltb_lt in Hit.
        cbn [decor] in Hd. inversion Hd; subst d. cbn [dec_tab] in Hcl. rewrite Hrw in Hcl.
        destruct neg; [discriminate|].
        destruct (nth_error db k2) as [R|] eqn:HR;
          [|exfalso; apply Hunm; unfold join_path; cbn [dec_tab]; rewrite HR; reflexivity].
        cbn [pform] in Hpf.
        assert (Hjc : join_cond (DIn false a (XCol 0 j qq) k2 w2) =
                      Some (match w2 with Some p2 => XAnd (XCmp CEq (lift1 a) (XCol 0 j true)) p2 | None => XCmp CEq (lift1 a) (XCol 0 j true) end))
          by (cbn [join_cond]; destruct qq; destruct w2; reflexivity).
        rewrite Hjc in Hcl.
        apply (join_in_correct widths db Hwf k lw k2 rw L R Hlw Hrw HL HR items a j qq w2 Hitems Hit Hpf).
        set (c := match w2 with Some p2 => XAnd (XCmp CEq (lift1 a) (XCol 0 j true)) p2 | None => XCmp CEq (lift1 a) (XCol 0 j true) end) in *.
        destruct (hash_path c) eqn:Ek.
        2: { destruct (has_sub c) eqn:Ehs; [discriminate|]. destruct (bare_ok [rw; lw] c) eqn:Ebo; cbn [negb] in Hcl; [|discriminate].
           left. repeat split; auto. subst c. destruct w2 as [p2|]; cbn [pform]; rewrite vform_lift1, Hpf; cbn [vform andb]; [|reflexivity].
           apply andb_true_iff in Hw2. destruct Hw2 as [Hp2 _]. exact Hp2. }
        destruct (pure_keys lw rw c) eqn:Epk; [|discriminate]. right. exact Epk.
      * (* EXISTS *)
        cbn [subs_wf] in Hsubs.
        destruct sq as [its s2 w2|]; [|discriminate]. destruct its as [|it [|it2 its]]; try discriminate.
        destruct s2 as [k2|]; [|discriminate]. cbn [sub_wf] in Hsubs.
        destruct (nth_error widths k2) as [rw|] eqn:Hrw; [|discriminate].
        apply andb_true_iff in Hsubs. destruct Hsubs as [Hit Hw2].
        destruct it as [li j qq| | | | | | | | | |]; try discriminate. destruct li; [|discriminate]. apply Nat.ltb_lt in Hit.
        cbn [decor] in Hd. inversion Hd; subst d. cbn [dec_tab join_cond] in Hcl. rewrite Hrw in Hcl.
        destruct (nth_error db k2) as [R|] eqn:HR;
          [|exfalso; apply Hunm; unfold join_path; cbn [dec_tab]; rewrite HR; reflexivity].
        apply (join_exists_correct widths db Hwf k lw k2 rw L R Hlw Hrw HL HR items neg j qq w2 Hitems Hit).
        destruct w2 as [c|]; [|exact I].
        destruct (hash_path c) eqn:Ek.
        2: { destruct (has_sub c) eqn:Ehs; [discriminate|]. destruct (bare_ok [rw; lw] c) eqn:Ebo; cbn [negb] in Hcl; [|discriminate].
           left. repeat split; auto. apply andb_true_iff in Hw2. destruct Hw2 as [Hp2 _]. exact Hp2. }
        destruct (pure_keys lw rw c) eqn:Epk; [|discriminate]. right. exact Epk.
    + (* not decorrelated: the filter path *)
      destruct (has_inex p) eqn:Hinex; [discriminate|].
      eapply filter_path_correct; eauto.
  - (* FROM (subquery) *)
    cbn [select_wf] in Hsw. destruct w as [p|]; [|discriminate].
    apply andb_true_iff in Hsw. destruct Hsw as [Hsw Hdw]. apply andb_true_iff in Hsw. destruct Hsw as [Hitems Hpf].
    cbn [select_class] in Hcl. rewrite (plain_items_no_sub items Hitems) in Hcl.
    destruct (derived_simple q') eqn:Hds; cbn [andb] in Hcl; [|discriminate].
    destruct (has_sub p) eqn:Hsp; cbn [negb] in Hcl; [discriminate|].
    rewrite qeval_sel, seval_sub. cbn [impl_select]. rewrite Hsp.
    pose proof (derived_correct widths db Hwf q' Hdw Hds) as Hd.
    destruct (qeval db [] q') as [T| |]; cbn [rbind agree]; [|exact I|contradiction].
    destruct Hd as [Hid HplT]. rewrite Hid.
    pose proof (simple_level_correct db items p T Hitems Hpf Hsp HplT) as H.
    destruct (sel_rows db [] items (Some p) T) as [t| |]; cbn [agree]; [|exact I|contradiction].
    destruct H as [rows [Hf [Hm _]]].
    unfold filter_path. rewrite (has_sub_scalars p Hsp). cbn [map existsb forallb negb].
    assert (Hf' : filter_opt (fun r => ipass (look_own r) (scal_table db) p) T = Some rows).
    { rewrite <- Hf. clear -Hsp. induction T as [|r T IH]; [reflexivity|]. cbn [filter_opt]. rewrite IH.
      assert (E : ipass (look_own r) (scal_table db) p = ipass (look_own r) (fun _ => None) p)
        by (unfold ipass; rewrite (ieval_scal_irrel (look_own r) (scal_table db) (fun _ => None) p Hsp); reflexivity).
      rewrite E. reflexivity. }
    rewrite Hf'. rewrite <- (map_opt_ext_filter_item items rows Hitems) in Hm.
    unfold row in *. rewrite Hm. exists t. split; [reflexivity|apply bag_eq_refl].
Qed.

(* ------------------------------------------------------------------ the main theorem *)
Theorem class0_correct : forall widths db (c : chain),
  db_wf widths db = true -> stmt_wf widths c = true -> stmt_class widths db c = 0 ->
  impl_stmt widths db c <> MUnm ->
  agree (impl_stmt widths db c) (qeval db [] (chain_qry c)).
Proof.
  intros widths db [q0 l] Hwf Hst Hcl Hunm. destruct l as [|o l].
  - rewrite chain_qry_single. unfold impl_stmt, stmt_class, stmt_wf in *. cbn [fst snd] in *.
    apply select_correct; assumption.
  - apply chain_correct; auto. discriminate.
Qed.
