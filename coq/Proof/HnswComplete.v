(* Proof/HnswComplete.v -- completeness of beam_search on a small graph (PARTIAL: conditional on an
   explicit connectivity hypothesis): if everything reachable from the entry at the searched level fits
   into the search width ef, then nothing is ever evicted from the results heap, the loop never breaks
   early, and every reachable node ends up in the results.  For `search`: in a history without deleted
   nodes whose level-0 graph is connected and has at most min(ef, k) nodes, every live row is returned. *)
From Coq Require Import ZArith List Bool Lia Permutation.
From TV Require Import Model.Hnsw Proof.HnswHeap Proof.HnswSearch Proof.HnswFuel Proof.HnswGraph Proof.HnswInv
  Proof.HnswInv0 Proof.HnswSound.
Import ListNotations.
Open Scope Z_scope.

Section Complete.
  Variable gn : Z -> list Z.
  Variable cdf : Z -> dist.
  Variable ef : Z.
  Variable e0 : Z.

  Inductive reach : Z -> Prop :=
  | reach_entry : reach e0
  | reach_step : forall a b, reach a -> In b (gn a) -> reach b.

  Variable U : list Z.
  Hypothesis reach_U : forall x, reach x -> In x U.
  Hypothesis U_small : Z.of_nat (length U) <= ef.

  Record kinv (c : bctx) : Prop := {
    k_binv : binv c;
    k_nodup : NoDup (b_vis c);
    k_reach : forall v, In v (b_vis c) -> reach v;
    k_e0 : In e0 (b_vis c);
    k_res : forall v, In v (b_vis c) -> exists x, In x (b_res c) /\ cid x = v;
    k_cands : forall x, In x (b_cands c) -> In x (b_res c)
  }.

  (* every visited node is the one being expanded, or still queued, or has all its neighbours visited *)
  Definition pc (ex : option Z) (c : bctx) : Prop :=
    forall v, In v (b_vis c) ->
      Some v = ex \/ (exists x, In x (b_cands c) /\ cid x = v) \/ (forall m, In m (gn v) -> In m (b_vis c)).

  Lemma room : forall c n, kinv c -> ~ In n (b_vis c) -> reach n -> Z.of_nat (length (b_res c)) < ef.
  Proof.
    intros c n K Hn Hr.
    assert (L1 : (length (b_res c) <= length (b_vis c))%nat).
    { rewrite <- (map_length cid (b_res c)). apply NoDup_incl_length; [apply (bi_nodup _ (k_binv _ K))|].
      intros v Hv. apply in_map_iff in Hv. destruct Hv as (x & <- & Hx). apply (bi_vis _ (k_binv _ K)); auto. }
    assert (L2 : (S (length (b_vis c)) <= length U)%nat).
    { change (S (length (b_vis c))) with (length (n :: b_vis c)). apply NoDup_incl_length.
      - constructor; auto. apply (k_nodup _ K).
      - intros v [<-|Hv]; apply reach_U; auto. apply (k_reach _ K); auto. }
    lia.
  Qed.

  Lemma add_result_noevict : forall c rs, Z.of_nat (length rs) < ef -> add_result ef c rs = push le_max c rs.
  Proof.
    intros c rs H. unfold add_result. rewrite push_length.
    destruct (Z.ltb_spec ef (Z.of_nat (S (length rs)))); [lia | reflexivity].
  Qed.

  Lemma beam_nbrs_complete : forall nbrs c ex, kinv c -> pc ex c -> (forall m, In m nbrs -> reach m) ->
    let c' := beam_nbrs nbrs cdf ef c in
    kinv c' /\ pc ex c' /\ (forall m, In m nbrs -> In m (b_vis c')) /\ incl (b_vis c) (b_vis c').
  Proof.
    induction nbrs as [|n t IH]; intros c ex K Hpc Hr; cbn [beam_nbrs].
    - split; auto. split; auto. split; [intros m []|apply incl_refl].
    - assert (Ht : forall m, In m t -> reach m) by (intros; apply Hr; right; auto).
      destruct (mem n (b_vis c)) eqn:Hm.
      + destruct (IH c ex K Hpc Ht) as (I1 & I2 & I3 & I4). split; auto. split; auto. split; auto.
        intros m [<-|Hin]; auto. apply I4. apply (mem_In n (b_vis c)); auto.
      + assert (Hnv : ~ In n (b_vis c)) by (rewrite <- (mem_In n (b_vis c)); congruence).
        pose proof (room c n K Hnv (Hr n (or_introl eq_refl))) as Hroom.
        assert (Hcond : dlt (cdf n) (worst (b_res c)) || (Z.of_nat (length (b_res c)) <? ef) = true).
        { apply orb_true_iff. right. apply Z.ltb_lt. exact Hroom. }
        rewrite Hcond. rewrite (add_result_noevict _ _ Hroom).
        set (c1 := B (push le_min (C n (cdf n)) (b_cands c)) (push le_max (C n (cdf n)) (b_res c)) (n :: b_vis c)).
        assert (K1 : kinv c1).
        { pose proof (beam_nbrs_inv cdf ef [n] c (k_binv _ K)) as B1. cbn [beam_nbrs] in B1.
          rewrite Hm, Hcond, (add_result_noevict _ _ Hroom) in B1. fold c1 in B1.
          destruct K as [K1 K2 K3 K4 K5 K6]. constructor; unfold c1; cbn [b_cands b_res b_vis]; auto.
          - constructor; auto.
          - intros v [<-|Hv]; auto. apply Hr. left; auto.
          - right; auto.
          - intros v [<-|Hv].
            + exists (C n (cdf n)). split; [|reflexivity].
              eapply Permutation_in; [apply push_perm | left; reflexivity].
            + destruct (K5 v Hv) as (x & Hx & Hc). exists x. split; auto.
              eapply Permutation_in; [apply push_perm | right; auto].
          - intros x Hx.
            assert (In x (C n (cdf n) :: b_cands c)) by (eapply Permutation_in; [symmetry; apply push_perm | exact Hx]).
            eapply Permutation_in; [apply push_perm|]. destruct H as [<-|H]; [left; auto | right; auto]. }
        assert (P1 : pc ex c1).
        { intros v Hv. unfold c1 in *. cbn [b_cands b_res b_vis] in *. destruct Hv as [<-|Hv].
          - right. left. exists (C n (cdf n)). split; [|reflexivity].
            eapply Permutation_in; [apply push_perm | left; reflexivity].
          - destruct (Hpc v Hv) as [H|[(x & Hx & Hc)|H]]; auto.
            + right. left. exists x. split; auto. eapply Permutation_in; [apply push_perm | right; auto].
            + right. right. intros m Hm'. right. auto. }
        destruct (IH c1 ex K1 P1 Ht) as (I1 & I2 & I3 & I4). split; auto. split; auto. split.
        * intros m [<-|Hin]; auto. apply I4. left; auto.
        * intros v Hv. apply I4. right; auto.
  Qed.

  Lemma closed_reach : forall c, In e0 (b_vis c) ->
    (forall v, In v (b_vis c) -> forall m, In m (gn v) -> In m (b_vis c)) ->
    forall x, reach x -> In x (b_vis c).
  Proof. intros c H0 Hc x Hr. induction Hr as [|a b Ha IH Hb]; auto. eapply Hc; eauto. Qed.

  Lemma beam_loop_complete : forall fuel c c', kinv c -> pc None c ->
    beam_loop fuel gn cdf ef c = Some c' -> forall x, reach x -> exists y, In y (b_res c') /\ cid y = x.
  Proof.
    induction fuel as [|f IH]; intros c c' K Hpc Hl; cbn [beam_loop] in Hl; [discriminate|].
    destruct (pop le_min (b_cands c)) as [[cur rest]|] eqn:Ep.
    - destruct (pop_spec le_min le_min_total le_min_trans _ _ _ Ep) as (P & _ & _).
      assert (Hcur : In cur (b_cands c)) by (eapply Permutation_in; [symmetry; exact P | left; auto]).
      (* the loop does not break: cur is one of the results *)
      assert (Hnb : dlt (worst (b_res c)) (cd cur) = false).
      { pose proof (k_cands _ K cur Hcur) as Hin.
        pose proof (bi_heap _ (k_binv _ K)) as Hh.
        destruct (b_res c) as [|h tl]; [destruct Hin|]. cbn [worst].
        rewrite dlt_dle. apply negb_false_iff.
        exact (peek_max le_max le_max_total le_max_trans (h :: tl) h Hh eq_refl cur Hin). }
      rewrite Hnb in Hl.
      set (c1 := B rest (b_res c) (b_vis c)) in *.
      assert (K1 : kinv c1).
      { destruct K as [K1 K2 K3 K4 K5 K6]. constructor; unfold c1; cbn [b_cands b_res b_vis]; auto.
        - destruct K1 as [H1 H2 H3 H5]. constructor; cbn [b_res b_cands b_vis]; auto.
          intros x Hx. apply H5. eapply Permutation_in; [symmetry; exact P | right; exact Hx].
        - intros x Hx. apply K6. eapply Permutation_in; [symmetry; exact P | right; exact Hx]. }
      assert (P1 : pc (Some (cid cur)) c1).
      { intros v Hv. unfold c1 in *. cbn [b_cands b_vis] in *.
        destruct (Hpc v Hv) as [H|[(x & Hx & Hc)|H]]; [discriminate | | auto].
        assert (Hx' : In x (cur :: rest)) by (eapply Permutation_in; [exact P | exact Hx]).
        destruct Hx' as [<-|Hx']; [left; congruence | right; left; exists x; auto]. }
      assert (Hcr : reach (cid cur)).
      { apply (k_reach _ K). apply (bi_cvis _ (k_binv _ K)). exact Hcur. }
      destruct (beam_nbrs_complete (gn (cid cur)) c1 (Some (cid cur)) K1 P1
                  (fun m Hm => reach_step _ _ Hcr Hm)) as (I1 & I2 & I3 & I4).
      eapply IH; [exact I1 | | exact Hl].
      intros v Hv. destruct (I2 v Hv) as [H|[H|H]]; auto.
      inversion H; subst v. right. right. exact I3.
    - inversion Hl; subst c'. apply pop_none in Ep.
      intros x Hr.
      assert (Hin : In x (b_vis c)).
      { apply closed_reach; auto; [apply (k_e0 _ K)|].
        intros v Hv. destruct (Hpc v Hv) as [H|[(y & Hy & _)|H]]; [discriminate | rewrite Ep in Hy; destruct Hy | exact H]. }
      destruct (k_res _ K x Hin) as (y & Hy & Hc). eauto.
  Qed.

  Lemma beam_complete : forall fuel e rs, cid e = e0 -> beam fuel gn cdf ef e = Some rs ->
    forall x, reach x -> exists y, In y rs /\ cid y = x.
  Proof.
    intros fuel e rs He Hb. unfold beam in Hb.
    destruct (beam_loop fuel gn cdf ef (beam_init ef e)) as [c'|] eqn:El; [|discriminate].
    cbn in Hb. inversion Hb; subst rs.
    assert (Hef : 0 < ef).
    { pose proof (reach_U e0 reach_entry) as H. destruct U; [destruct H | cbn [length] in U_small; lia]. }
    assert (Hinit : beam_init ef e = B (push le_min e []) (push le_max e []) [e0]).
    { unfold beam_init. rewrite add_result_noevict by (cbn; lia). rewrite He. reflexivity. }
    eapply beam_loop_complete; [| |exact El].
    - pose proof (beam_init_inv ef e) as Bi. rewrite Hinit in *.
      constructor; cbn [b_cands b_res b_vis]; auto.
      + constructor; [intros []|constructor].
      + intros v [<-|[]]. constructor.
      + left; auto.
      + intros v [<-|[]]. exists e. split; auto. eapply Permutation_in; [apply push_perm | left; auto].
    - rewrite Hinit. intros v [<-|[]]. right. left. exists e. split; auto.
      cbn [b_cands]. eapply Permutation_in; [apply push_perm | left; auto].
  Qed.
End Complete.

(* ------------------------------------------------------------------ search on a small connected index *)
(* explicit connectivity hypothesis: every node can be reached from every node along level-0 links *)
Definition Connected0 (s : st) : Prop :=
  forall a b, valid s a -> valid s b -> reach (gn_at s 0) a b.

Lemma finalize_all : forall k rs, Z.of_nat (length rs) <= k -> Permutation rs (finalize k rs).
Proof.
  intros k rs Hk. unfold finalize.
  pose proof (drain_perm le_max le_max_total le_max_trans (length rs) rs (le_n _)) as P.
  rewrite firstn_all2.
  - etransitivity; [exact P | apply Permutation_rev].
  - rewrite rev_length. apply Permutation_length in P. lia.
Qed.

Lemma small_index_complete_partial_l : forall p ops q k ef l,
  wf_ops p w0 ops = true -> class_of (ix (run0 p ops)) = 0 ->
  Connected0 (ix (run0 p ops)) ->
  Z.of_nat (length (nodes (ix (run0 p ops)))) <= ef ->
  Z.of_nat (length (nodes (ix (run0 p ops)))) <= k ->
  search p (getv_of (tbl (run0 p ops))) (ix (run0 p ops)) q k ef = SOk l ->
  forall r v, a_get r (tbl (run0 p ops)) = Some v -> In r (map fst l).
Proof.
  intros p ops q k ef l Hwf Hc Hconn Hef Hk Hs r v Hr.
  assert (Hcl : any_inactive (ix (run0 p ops)) = false).
  { unfold class_of in Hc. destruct (entry_dead _); [discriminate|]. destruct (any_inactive _); [discriminate | auto]. }
  pose proof (inv0_reached p ops Hwf Hcl) as I.
  set (w := run0 p ops) in *. set (s := ix w) in *.
  (* the node that carries row r *)
  assert (Hrow : In r (map n_row (nodes s))) by (apply (i_tbl _ I); congruence).
  apply in_map_iff in Hrow. destruct Hrow as (nd & Hnr & Hin). apply In_nth_error in Hin. destruct Hin as [i Hi].
  assert (Hvi : valid s (Z.of_nat i)).
  { split; [lia|]. apply Nat2Z.inj_lt. apply nth_error_Some. congruence. }
  unfold search in Hs.
  destruct (negb (Z.of_nat (length q) =? dims p)); [discriminate|].
  pose proof (i_entry _ I) as He. fold s in He.
  destruct (entry s) as [ep|] eqn:Ee.
  2:{ rewrite He in Hi. destruct i; discriminate. }
  destruct (Z.ltb_spec ep 0); [destruct He; lia|].
  destruct (descend (Z.to_nat (maxlvl s)) (maxlvl s) s (cd_search s (getv_of (tbl w)) q) ep _) as [cur d] eqn:Ed.
  assert (Hcur : valid s cur).
  { eapply (descend_ids _ _ _ _ _ _ _ _ (valid s)); [exact He | | exact Ed]. apply gn_at_P. apply (i_links _ I). }
  destruct (beam (beam_fuel s) (gn_at s 0) (cd_search s (getv_of (tbl w)) q) ef (C cur d)) as [rs|] eqn:Eb; [|discriminate].
  inversion Hs; subst l. clear Hs.
  set (U := map Z.of_nat (seq 0 (length (nodes s)))).
  assert (HU : forall x, reach (gn_at s 0) cur x -> In x U).
  { intros x Hx. assert (Hvx : valid s x).
    { induction Hx as [|a b Ha IH Hb]; auto. eapply gn_at_P; [apply (i_links _ I) | exact Hb]. }
    unfold U. apply in_map_iff. exists (Z.to_nat x). destruct Hvx as [Hx0 Hx1]. split; [lia|].
    apply in_seq. lia. }
  assert (HUl : Z.of_nat (length U) <= ef) by (unfold U; rewrite map_length, seq_length; exact Hef).
  destruct (beam_complete (gn_at s 0) (cd_search s (getv_of (tbl w)) q) ef cur U HU HUl
              (beam_fuel s) (C cur d) rs eq_refl Eb (Z.of_nat i) (Hconn cur (Z.of_nat i) Hcur Hvi)) as (y & Hy & Hcy).
  (* nothing is cut off by k *)
  destruct (beam_heap _ _ _ _ _ _ Eb) as (Bh & Bn & _).
  assert (Hlen : Z.of_nat (length rs) <= k).
  { assert ((length rs <= length U)%nat).
    { rewrite <- (map_length cid rs). apply NoDup_incl_length; auto.
      intros x Hx. apply in_map_iff in Hx. destruct Hx as (z & <- & Hz). apply HU.
      (* every result id is reachable: it is the entry or a neighbour of a visited node; here it suffices
         that it is a valid id, since the graph is connected *)
      apply Hconn; auto.
      eapply (beam_ids (gn_at s 0) (cd_search s (getv_of (tbl w)) q) ef (valid s)); [| |exact Eb|exact Hz].
      - intros a b. apply gn_at_P. apply (i_links _ I).
      - exact Hcur. }
    assert (HlU : length U = length (nodes s)) by (unfold U; rewrite map_length, seq_length; reflexivity).
    lia. }
  assert (Hyo : In y (finalize k rs)) by (eapply Permutation_in; [apply finalize_all; exact Hlen | exact Hy]).
  assert (Hrd : read_node s (Z.of_nat i) = Some nd).
  { apply read_node_intro; [lia | rewrite Nat2Z.id; exact Hi | apply (i_active _ I); eapply nth_error_In; eauto]. }
  apply in_map_iff. exists (r, cd y). split; [reflexivity|].
  apply result_of_in. exists y, nd. rewrite Hcy. auto.
Qed.

(* the connectivity hypothesis is satisfiable by a reachable state (two nodes linked both ways) *)
Lemma connected_witness_l :
  let p := Pm 2 2 4 in let ops := [Ins 1 [0;0] 0 false; Ins 2 [3;4] 0 false] in
  wf_ops p w0 ops = true /\ class_of (ix (run0 p ops)) = 0 /\ Connected0 (ix (run0 p ops)) /\
  search p (getv_of (tbl (run0 p ops))) (ix (run0 p ops)) [3;3] 2 2 = SOk [(2, Fin 1); (1, Fin 18)].
Proof.
  cbn zeta. split; [vm_compute; reflexivity|]. split; [vm_compute; reflexivity|]. split; [|vm_compute; reflexivity].
  intros a b [Ha0 Ha1] [Hb0 Hb1].
  assert (Hl : Z.of_nat (length (nodes (ix (run0 (Pm 2 2 4) [Ins 1 [0;0] 0 false; Ins 2 [3;4] 0 false])))) = 2)
    by (vm_compute; reflexivity).
  rewrite Hl in Ha1, Hb1.
  assert (G01 : In 1 (gn_at (ix (run0 (Pm 2 2 4) [Ins 1 [0;0] 0 false; Ins 2 [3;4] 0 false])) 0 0))
    by (vm_compute; left; reflexivity).
  assert (G10 : In 0 (gn_at (ix (run0 (Pm 2 2 4) [Ins 1 [0;0] 0 false; Ins 2 [3;4] 0 false])) 0 1))
    by (vm_compute; left; reflexivity).
  assert (Ha : a = 0 \/ a = 1) by lia. assert (Hb : b = 0 \/ b = 1) by lia.
  destruct Ha as [-> | ->], Hb as [-> | ->].
  - apply reach_entry.
  - eapply reach_step; [apply reach_entry | exact G01].
  - eapply reach_step; [apply reach_entry | exact G10].
  - apply reach_entry.
Qed.
