//! C36 page locks: the REAL `turdb::database::page_locks::PageLockManager` driven by the
//! deterministic scheduler (harness/src/sched.rs) on generated thread programs and schedules.
//!
//! A thread program is a list of calls: `W<k>`/`R<k>` = page_write/page_read of page k
//! (k = table_id * 100 + page_no), `d<i>` = drop the i-th page guard the thread holds,
//! `X<t>`/`S<t>` = table_intent_exclusive/shared, `u<i>` = drop the i-th table guard.  At the
//! end of its program a thread drops whatever it still holds (page guards first).
//! Inside its critical section (guard obtained) every thread bumps a per-page occupancy
//! counter and parks at harness site 210; it decrements the counter before dropping the guard.
//! Hook sites of /repo: 201 after get_or_create, 202 after read()/write() returned, 203 after
//! force_unlock, 204 in try_cleanup after release() saw 1.
//!
//! Observed per coarse step: outcome (site / finished=1 / blocked=2 / skipped=3), the blocked
//! threads that got unblocked, the occupancy counters.  "Blocked" is decided from the OS: the
//! thread has not reached a site and sleeps in futex(2) on a word that belongs neither to the
//! scheduler nor to the harness (/proc/self/task/<tid>/syscall) on several consecutive polls;
//! a time limit is only the fallback.
//!
//! replay line:  progs=W7.d0.W7.d0|W7.d0.W7.d0 sched=0,0,0,0,0,1,1,1  [cls=...ignored]
use std::collections::BTreeMap;
use std::sync::atomic::{AtomicI64, Ordering};
use std::sync::{Arc, Mutex};
use std::time::{Duration, Instant};
use turdb::database::page_locks::{PageLockManager, PageReadGuard, PageWriteGuard, TableIntentExclusiveGuard, TableIntentSharedGuard};
use tvh::sched::{Scheduler, StepOutcome, TState};
use tvh::*;

#[derive(Clone, Copy, Debug, PartialEq, Eq)]
enum Op { Acq(bool, i64), Rel(usize), TAcq(bool, i64), TRel(usize) }

fn op_str(o: &Op) -> String {
    match o {
        Op::Acq(true, k) => format!("W{}", k), Op::Acq(false, k) => format!("R{}", k), Op::Rel(i) => format!("d{}", i),
        Op::TAcq(true, t) => format!("X{}", t), Op::TAcq(false, t) => format!("S{}", t), Op::TRel(i) => format!("u{}", i),
    }
}
fn op_term(o: &Op) -> String {
    match o {
        Op::Acq(w, k) => format!("A {} {}", cbool(*w), k), Op::Rel(i) => format!("D {}", i),
        Op::TAcq(x, t) => format!("TA {} {}", cbool(*x), t), Op::TRel(i) => format!("TD {}", i),
    }
}
fn parse_op(s: &str) -> Option<Op> {
    let (h, r) = s.split_at(1.min(s.len()));
    let n: i64 = r.parse().ok()?;
    if n < 0 || n > 1_000_000 { return None; }
    Some(match h { "W" => Op::Acq(true, n), "R" => Op::Acq(false, n), "d" => Op::Rel(n as usize), "X" => Op::TAcq(true, n), "S" => Op::TAcq(false, n), "u" => Op::TRel(n as usize), _ => return None })
}
fn replay_line(progs: &[Vec<Op>], sched: &[usize]) -> String {
    let p: Vec<String> = progs.iter().map(|p| p.iter().map(op_str).collect::<Vec<_>>().join(".")).collect();
    let s: Vec<String> = sched.iter().map(|t| t.to_string()).collect();
    format!("progs={} sched={}", p.join("|"), s.join(","))
}
fn parse_line(l: &str) -> Option<(Vec<Vec<Op>>, Vec<usize>)> {
    let mut progs = None;
    let mut sched = vec![];
    for tok in l.split_whitespace() {
        if let Some(r) = tok.strip_prefix("progs=") {
            let mut ps = vec![];
            for p in r.split('|') {
                let mut ops = vec![];
                for o in p.split('.') { if o.is_empty() { continue; } ops.push(parse_op(o)?); }
                ps.push(ops);
            }
            progs = Some(ps);
        } else if let Some(r) = tok.strip_prefix("sched=") {
            for t in r.split(',') { if t.is_empty() { continue; } sched.push(t.parse().ok()?); }
        }
    }
    let progs = progs?;
    if progs.is_empty() || progs.len() > 6 { return None; }
    Some((progs, sched))
}

enum PG<'a> { R(PageReadGuard<'a>), W(PageWriteGuard<'a>) }
enum TG<'a> { S(TableIntentSharedGuard<'a>), X(TableIntentExclusiveGuard<'a>) }

struct Shared {
    mgr: PageLockManager,
    occ: Mutex<BTreeMap<i64, (i64, i64)>>,
    tids: Vec<AtomicI64>,
    cur: Vec<(AtomicI64, AtomicI64)>, // page and mode of the acquisition in progress
}

fn os_tid() -> i64 {
    std::fs::read_link("/proc/thread-self").ok()
        .and_then(|p| p.file_name().and_then(|f| f.to_str().map(|s| s.to_string())))
        .and_then(|s| s.parse().ok()).unwrap_or(-1)
}
/// If OS thread `tid` of this process sleeps in futex(2): the address it waits on
/// (/proc/self/task/<tid>/syscall = "202 <uaddr> ..."); None if it runs or sleeps elsewhere.
fn futex_wait_addr(tid: i64) -> Option<usize> {
    if tid < 0 { return None; }
    let s = std::fs::read_to_string(format!("/proc/self/task/{}/syscall", tid)).ok()?;
    let mut it = s.split_whitespace();
    if it.next()? != "202" { return None; }
    usize::from_str_radix(it.next()?.trim_start_matches("0x"), 16).ok()
}

fn rel<'a>(shr: &Shared, pg: &mut Vec<(i64, bool, PG<'a>)>, i: usize) {
    if i < pg.len() {
        let (k, w, g) = pg.remove(i);
        {
            let mut o = shr.occ.lock().unwrap();
            let e = o.entry(k).or_insert((0, 0));
            if w { e.0 -= 1 } else { e.1 -= 1 }
        }
        drop(g);
    }
}

fn thread_body(id: usize, prog: Vec<Op>, sh: Arc<Shared>) {
    sh.tids[id].store(os_tid(), Ordering::SeqCst);
    let shr: &Shared = &sh;
    let mut pg: Vec<(i64, bool, PG<'_>)> = vec![];
    let mut tg: Vec<TG<'_>> = vec![];
    for op in prog {
        match op {
            Op::Acq(w, k) => {
                shr.cur[id].0.store(k, Ordering::SeqCst);
                shr.cur[id].1.store(w as i64, Ordering::SeqCst);
                let (t, p) = ((k / 100) as u32, (k % 100) as u32);
                let g = if w { PG::W(shr.mgr.page_write(t, p)) } else { PG::R(shr.mgr.page_read(t, p)) };
                {
                    let mut o = shr.occ.lock().unwrap();
                    let e = o.entry(k).or_insert((0, 0));
                    if w { e.0 += 1 } else { e.1 += 1 }
                }
                pg.push((k, w, g));
                turdb::verif_hooks::sched_point(210);
            }
            Op::Rel(i) => rel(shr, &mut pg, i),
            Op::TAcq(x, t) => {
                let g = if x { TG::X(shr.mgr.table_intent_exclusive(t as u32)) } else { TG::S(shr.mgr.table_intent_shared(t as u32)) };
                tg.push(g);
            }
            Op::TRel(i) => { if i < tg.len() { drop(tg.remove(i)); } }
        }
    }
    while !pg.is_empty() { rel(shr, &mut pg, 0); }
    while !tg.is_empty() { drop(tg.remove(0)); }
}

#[derive(Clone, Debug)]
struct StepObs { t: usize, out: i64, woke: Vec<(usize, i64)>, occ: Vec<(i64, i64, i64)> }
#[derive(Debug)]
enum Fin { Complete { acq: u64, cont: u64, tacq: u64, blocked: Vec<(usize, i64, bool)>, npage: usize, ntable: usize }, Trunc }
struct Observed { steps: Vec<StepObs>, fin: Fin, sched_run: Vec<usize> }

struct Runner { s: Arc<Scheduler>, sh: Arc<Shared>, blocked: Vec<bool>, n: usize, own: Vec<(usize, usize)> }

const POLL: Duration = Duration::from_micros(100);
const NEED_SLEEPING: u32 = 5;

impl Runner {
    /// has thread `id` (currently Running for the scheduler) arrived, or is it asleep in the implementation?
    fn wait_arrival(&self, id: usize, min_asleep: Duration) -> Option<StepOutcome> {
        let t0 = Instant::now();
        let mut asleep_since: Option<Instant> = None;
        let mut asleep = 0u32;
        let mut last: Option<usize> = None;
        loop {
            match self.s.state(id) {
                TState::AtSite(x) => return Some(StepOutcome::Reached(x)),
                TState::Finished => return Some(StepOutcome::Finished),
                _ => {}
            }
            // asleep in the implementation = waiting on a futex that is neither the scheduler's
            // mutex/condvar nor the harness' own occupancy mutex (parking_lot parks on a per-thread word)
            let a = futex_wait_addr(self.sh.tids[id].load(Ordering::SeqCst));
            let foreign = match a { Some(x) => !self.own.iter().any(|(lo, hi)| x >= *lo && x < *hi), None => false };
            if foreign && (asleep == 0 || a == last) { asleep += 1 } else if foreign { asleep = 1; asleep_since = None } else { asleep = 0; asleep_since = None }
            if asleep >= 1 && asleep_since.is_none() { asleep_since = Some(Instant::now()); }
            last = a;
            // a wake-up issued by another thread may still be in flight (the sleeper shows up as
            // sleeping until its CPU has processed the wake-up): after an unlock insist on a longer
            // uninterrupted sleep before calling the thread blocked
            let long_enough = asleep_since.map(|t| t.elapsed() >= min_asleep).unwrap_or(false);
            if (asleep >= NEED_SLEEPING && long_enough) || t0.elapsed() > Duration::from_millis(5000) {
                return match self.s.state(id) {
                    TState::AtSite(x) => Some(StepOutcome::Reached(x)),
                    TState::Finished => Some(StepOutcome::Finished),
                    _ => None,
                };
            }
            std::thread::sleep(POLL);
        }
    }
    fn occ(&self) -> Vec<(i64, i64, i64)> {
        self.sh.occ.lock().unwrap().iter().filter(|(_, v)| v.0 != 0 || v.1 != 0).map(|(k, v)| (*k, v.0, v.1)).collect()
    }
    fn step(&mut self, t: usize) -> StepObs {
        let out = if t >= self.n { StepOutcome::Skipped } else {
            match self.s.step(t) {
                StepOutcome::Blocked => match self.wait_arrival(t, Duration::from_micros(400)) { Some(o) => o, None => { self.blocked[t] = true; StepOutcome::Blocked } },
                o => o,
            }
        };
        let code = match out { StepOutcome::Reached(x) => x as i64, StepOutcome::Finished => 1, StepOutcome::Blocked => 2, StepOutcome::Skipped => 3 };
        // threads left running (blocked) may have been released by this step
        let mut woke = vec![];
        for u in 0..self.n {
            if self.blocked[u] && !(u == t && code == 2) {
                // only a force_unlock (always followed by site 203 in the same coarse step) releases waiters
                let min_asleep = if code == 203 { Duration::from_millis(25) } else { Duration::from_micros(400) };
                match self.wait_arrival(u, min_asleep) {
                    Some(StepOutcome::Reached(x)) => { self.blocked[u] = false; woke.push((u, x as i64)); }
                    Some(StepOutcome::Finished) => { self.blocked[u] = false; woke.push((u, 1)); }
                    _ => {}
                }
            }
        }
        StepObs { t, out: code, woke, occ: self.occ() }
    }
    fn all_finished(&self) -> bool { self.s.all_finished() }
    fn n_blocked(&self) -> usize { self.blocked.iter().filter(|b| **b).count() }
}

fn run_case(progs: &[Vec<Op>], sched: &[usize]) -> Observed {
    let n = progs.len();
    let sh = Arc::new(Shared {
        mgr: PageLockManager::new(), occ: Mutex::new(BTreeMap::new()),
        tids: (0..n).map(|_| AtomicI64::new(-1)).collect(),
        cur: (0..n).map(|_| (AtomicI64::new(0), AtomicI64::new(0))).collect(),
    });
    let mut s = Scheduler::new(n);
    if let Some(m) = Arc::get_mut(&mut s) { m.block_timeout = Duration::from_millis(1); }
    s.install();
    let mut hs = vec![];
    for (id, prog) in progs.iter().enumerate() {
        let (p, sh2) = (prog.clone(), Arc::clone(&sh));
        hs.push(s.spawn(id, move || thread_body(id, p, sh2)));
    }
    s.wait_all_started();
    let own = vec![
        (Arc::as_ptr(&s) as usize, Arc::as_ptr(&s) as usize + std::mem::size_of::<Scheduler>()),
        (Arc::as_ptr(&sh) as usize, Arc::as_ptr(&sh) as usize + std::mem::size_of::<Shared>()),
    ];
    let mut r = Runner { s: Arc::clone(&s), sh: Arc::clone(&sh), blocked: vec![false; n], n, own };
    let mut steps = vec![];
    let mut sched_run = vec![];
    let mut trunc = false;
    for &t in sched {
        let o = r.step(t);
        sched_run.push(t);
        steps.push(o);
        if r.n_blocked() >= 2 { trunc = true; break; }
    }
    // round-robin drain, observed like any other step
    if !trunc {
        'drain: for _ in 0..400 {
            if r.all_finished() { break; }
            let mut progress = false;
            for t in 0..n {
                if matches!(s.state(t), TState::Finished) { continue; }
                if r.blocked[t] { continue; }
                let o = r.step(t);
                if o.out != 2 && o.out != 3 { progress = true; }
                if !o.woke.is_empty() { progress = true; }
                sched_run.push(t);
                steps.push(o);
                if r.n_blocked() >= 2 { trunc = true; break 'drain; }
            }
            if !progress { break; }
        }
    }
    let fin = if trunc { Fin::Trunc } else {
        let blocked = (0..n).filter(|u| r.blocked[*u]).map(|u| (u, sh.cur[u].0.load(Ordering::SeqCst), sh.cur[u].1.load(Ordering::SeqCst) != 0)).collect();
        Fin::Complete {
            acq: sh.mgr.stats.page_locks_acquired.load(Ordering::SeqCst),
            cont: sh.mgr.stats.page_locks_contended.load(Ordering::SeqCst),
            tacq: sh.mgr.stats.table_locks_acquired.load(Ordering::SeqCst),
            blocked,
            // all threads are parked, blocked in a page lock or finished: nobody holds a shard mutex
            npage: sh.mgr.debug_entry_counts().0,
            ntable: sh.mgr.debug_entry_counts().1,
        }
    };
    // unobserved tail: let everybody finish if they can; threads that are blocked for ever are left behind
    for _ in 0..400 {
        if r.all_finished() { break; }
        let mut progress = false;
        for t in 0..n {
            if matches!(s.state(t), TState::Finished) { continue; }
            let o = r.step(t);
            if (o.out != 2 && o.out != 3) || !o.woke.is_empty() { progress = true; }
        }
        if !progress { break; }
    }
    if r.all_finished() { for h in hs { let _ = h.join(); } }
    Scheduler::uninstall();
    Observed { steps, fin, sched_run }
}

/// A waiter can only be released by a force_unlock, and every force_unlock is followed by hook
/// site 203 within the same coarse step.  An observation in which a thread "woke up" during a
/// step that did not end at 203 therefore contains a late verdict of the OS-level blocked
/// detection (overloaded machine): such a run is discarded and the case is run again.
fn timing_suspect(o: &Observed) -> bool { o.steps.iter().any(|s| !s.woke.is_empty() && s.out != 203) }
fn run_case_stable(progs: &[Vec<Op>], sched: &[usize]) -> (Observed, u32) {
    let mut reruns = 0;
    loop {
        let o = run_case(progs, sched);
        if !timing_suspect(&o) || reruns >= 4 { return (o, reruns); }
        reruns += 1;
    }
}

fn case_term(progs: &[Vec<Op>], o: &Observed) -> String {
    let ps: Vec<String> = progs.iter().map(|p| clist(&p.iter().map(op_term).collect::<Vec<_>>())).collect();
    let st: Vec<String> = o.steps.iter().map(|s| {
        let wk: Vec<String> = s.woke.iter().map(|(u, x)| format!("Wk {} {}", u, x)).collect();
        let oc: Vec<String> = s.occ.iter().map(|(k, w, r)| format!("Oc {} {} {}", k, w, r)).collect();
        format!("SO {} {} {} {}", s.t, s.out, clist(&wk), clist(&oc))
    }).collect();
    let f = match &o.fin {
        Fin::Trunc => "FTrunc".to_string(),
        Fin::Complete { acq, cont, tacq, blocked, npage, ntable } => {
            let b: Vec<String> = blocked.iter().map(|(u, k, w)| format!("Bl {} {} {}", u, k, cbool(*w))).collect();
            format!("(FComplete {} {} {} {} {} {})", acq, cont, tacq, clist(&b), npage, ntable)
        }
    };
    format!("Case {} {} {}", clist(&ps), clist(&st), f)
}

// ---------------------------------------------------------------- the property's oracle on observations
fn occ_violation(o: &Observed) -> bool {
    o.steps.iter().any(|s| s.occ.iter().any(|(_, w, r)| *w > 1 || (*w >= 1 && *r > 0)))
}
fn unjustified_block(o: &Observed) -> bool {
    if let Fin::Complete { blocked, npage, ntable, .. } = &o.fin {
        // all guards dropped => both lock tables empty
        if blocked.is_empty() && (*npage != 0 || *ntable != 0) { return true; }
        let occ = o.steps.last().map(|s| s.occ.clone()).unwrap_or_default();
        for (t, k, w) in blocked {
            let (ow, or) = occ.iter().find(|x| x.0 == *k).map(|x| (x.1, x.2)).unwrap_or((0, 0));
            let ok = if *w { ow + or > 0 } else { ow > 0 || blocked.iter().any(|(t2, k2, w2)| *w2 && k2 == k && t2 != t) };
            if !ok { return true; }
        }
    }
    false
}
/// Site-level signature of a stale cleanup (used to label failures found by `search`):
/// a thread T parked at 204 for page k resumes (runs its cleanup) after another thread has left
/// 204 for k while T was parked (that cleanup removed the shared entry) and after that an
/// acquisition of k went through get_or_create (site 201: a fresh entry is in the map).
fn stale204(progs: &[Vec<Op>], o: &Observed) -> bool {
    let n = progs.len();
    let mut ip = vec![0usize; n];
    let mut held: Vec<Vec<i64>> = vec![vec![]; n];
    let mut cur_acq = vec![-1i64; n];
    let mut rel_page = vec![-1i64; n];
    let mut site = vec![0i64; n];
    // for a thread parked at 204: (page, somebody else's cleanup ran since, a 201 for the page after that)
    let mut parked: Vec<Option<(i64, bool, bool)>> = vec![None; n];
    let mut hit = false;
    let siteless = |op: &Op, nheld: usize| match op { Op::Rel(i) => *i >= nheld, Op::TAcq(..) | Op::TRel(..) => true, Op::Acq(..) => false };
    for s in &o.steps {
        let t = s.t;
        if t < n && s.out != 3 {
            // thread t left its site
            if site[t] == 204 {
                if let Some((k, _, armed)) = parked[t] {
                    if armed { hit = true; }
                    for u in 0..n { if u != t { if let Some((k2, _, a2)) = parked[u] { if k2 == k { parked[u] = Some((k2, true, a2)); } } } }
                }
                parked[t] = None;
            }
            site[t] = 0;
        }
        let mut arrivals: Vec<(usize, i64)> = vec![];
        if t < n && s.out != 3 && s.out != 2 && s.out != 1 { arrivals.push((t, s.out)); }
        for (u, x) in &s.woke { if *u < n { arrivals.push((*u, *x)); } }
        for (t, x) in arrivals {
            site[t] = x;
            match x {
                201 => {
                    while ip[t] < progs[t].len() && siteless(&progs[t][ip[t]], held[t].len()) { ip[t] += 1; }
                    if let Some(Op::Acq(_, k)) = progs[t].get(ip[t]) { cur_acq[t] = *k; ip[t] += 1; }
                    for u in 0..n { if u != t { if let Some((k2, true, _)) = parked[u] { if k2 == cur_acq[t] { parked[u] = Some((k2, true, true)); } } } }
                }
                210 => { held[t].push(cur_acq[t]); }
                203 => {
                    while ip[t] < progs[t].len() && siteless(&progs[t][ip[t]], held[t].len()) { ip[t] += 1; }
                    match progs[t].get(ip[t]) {
                        Some(Op::Rel(i)) if *i < held[t].len() => { rel_page[t] = held[t].remove(*i); ip[t] += 1; }
                        _ => { if !held[t].is_empty() { rel_page[t] = held[t].remove(0); } }
                    }
                }
                204 => { parked[t] = Some((rel_page[t], false, false)); }
                _ => {}
            }
        }
    }
    hit
}

// ---------------------------------------------------------------- generators
fn block_schedule(blocks: &[(usize, usize)]) -> Vec<usize> {
    let mut v = vec![];
    for (t, c) in blocks { for _ in 0..*c { v.push(*t); } }
    v
}
fn w(k: i64) -> Op { Op::Acq(true, k) }
fn rd(k: i64) -> Op { Op::Acq(false, k) }

/// programs that respect the lock hierarchy (pages taken in ascending order while held): no deadlock
fn random_prog(rng: &mut Rng, pages: &[i64], len: usize, tables: bool) -> Vec<Op> {
    let mut p = vec![];
    let mut held: Vec<i64> = vec![];
    let mut theld = 0usize;
    while p.len() < len {
        let c = rng.below(10);
        if tables && c == 0 { p.push(Op::TAcq(rng.chance(1, 2), 1 + rng.below(2) as i64)); theld += 1; continue; }
        if tables && c == 1 && theld > 0 { p.push(Op::TRel(rng.below(theld as u64) as usize)); theld -= 1; continue; }
        let maxh = held.iter().copied().max().unwrap_or(-1);
        let cand: Vec<i64> = pages.iter().copied().filter(|k| *k > maxh).collect();
        if !held.is_empty() && (cand.is_empty() || rng.chance(3, 5)) {
            let i = rng.below(held.len() as u64) as usize;
            held.remove(i);
            p.push(Op::Rel(i));
        } else if !cand.is_empty() {
            let k = *rng.pick(&cand);
            held.push(k);
            p.push(Op::Acq(rng.chance(3, 5), k));
        }
    }
    p
}
fn random_schedule(rng: &mut Rng, n: usize, len: usize, stick: u64) -> Vec<usize> {
    let mut v = vec![];
    let mut cur = rng.below(n as u64) as usize;
    for _ in 0..len {
        if !rng.chance(stick, stick + 1) { cur = rng.below(n as u64) as usize; }
        v.push(cur);
    }
    v
}

fn gen_cases(a: &Args, rng: &mut Rng) -> Vec<(Vec<Vec<Op>>, Vec<usize>, &'static str)> {
    let mut cs: Vec<(Vec<Vec<Op>>, Vec<usize>, &'static str)> = vec![];
    let thorough = a.thorough();
    // 1. the cleanup window: two threads lock/unlock the same page twice; every schedule
    //    T0^a T1^b T0^c (then round robin), and the mirror image
    let fam: Vec<(Vec<Op>, Vec<Op>)> = {
        let ww = vec![w(7), Op::Rel(0), w(7), Op::Rel(0)];
        let rr = vec![rd(7), Op::Rel(0), rd(7), Op::Rel(0)];
        let wr = vec![w(7), Op::Rel(0), rd(7), Op::Rel(0)];
        let rw = vec![rd(7), Op::Rel(0), w(7), Op::Rel(0)];
        if thorough { vec![(ww.clone(), ww.clone()), (ww.clone(), rr.clone()), (wr.clone(), rw.clone()), (rw.clone(), wr.clone()), (rr.clone(), rr.clone()), (wr.clone(), ww.clone())] }
        else { vec![(ww.clone(), ww.clone()), (rw.clone(), wr.clone())] }
    };
    for (fi, (p0, p1)) in fam.iter().enumerate() {
        let (amax, bmax) = if thorough { (12, 12) } else if fi == 0 { (10, 10) } else { (6, 9) };
        let cvals: Vec<usize> = if thorough { vec![0, 1, 2, 3, 5] } else { vec![0, 3] };
        for aa in 0..=amax { for bb in 0..=bmax { for cc in &cvals {
            if bb == 0 && *cc != 0 { continue; }
            cs.push((vec![p0.clone(), p1.clone()], block_schedule(&[(0, aa), (1, bb), (0, *cc)]), "window_2thr_2preempt"));
        } } }
    }
    // 2. three threads around the window: T0 parks at 204, T1 recycles the entry, T2 arrives
    let n3 = if thorough { 600 } else { 60 };
    for _ in 0..n3 {
        let p = |rng: &mut Rng| { let mut v = vec![]; for _ in 0..(1 + rng.below(2)) { v.push(Op::Acq(rng.chance(2, 3), 7)); v.push(Op::Rel(0)); } v };
        let progs = vec![p(rng), p(rng), p(rng)];
        let a0 = 3 + rng.below(4) as usize;
        let b0 = rng.below(10) as usize;
        let c0 = rng.below(8) as usize;
        let d0 = rng.below(5) as usize;
        let order = [[0usize, 1, 2, 0], [0, 1, 0, 2], [1, 0, 2, 1], [2, 1, 0, 2]];
        let o = rng.pick(&order);
        cs.push((progs, block_schedule(&[(o[0], a0), (o[1], b0), (o[2], c0), (o[3], d0)]), "window_3thr"));
    }
    // 3. random disciplined programs (ascending page order), 2 and 3 threads, sticky random schedules
    let nr = if thorough { 4000 } else { 360 };
    for i in 0..nr {
        let n = if i % 3 == 2 { 3 } else { 2 };
        let pages: &[i64] = if rng.chance(1, 2) { &[7] } else if rng.chance(1, 2) { &[7, 8] } else { &[7, 8, 107] };
        let progs: Vec<Vec<Op>> = (0..n).map(|_| { let l = 2 + rng.below(6) as usize; random_prog(rng, pages, l, true) }).collect();
        let len = 6 + rng.below(30) as usize;
        let stick = 1 + rng.below(6);
        cs.push((progs, random_schedule(rng, n, len, stick), if n == 2 { "random_2thr" } else { "random_3thr" }));
    }
    // 4. undisciplined programs: out-of-range drops, re-entrant reads, lock-order inversions (may deadlock)
    let nu = if thorough { 120 } else { 24 };
    for _ in 0..nu {
        let n = 2;
        let progs: Vec<Vec<Op>> = (0..n).map(|_| {
            let l = 2 + rng.below(4) as usize;
            (0..l).map(|_| match rng.below(8) {
                0 | 1 | 2 => Op::Acq(rng.chance(1, 2), *rng.pick(&[7i64, 8])),
                3 | 4 => Op::Rel(rng.below(3) as usize),
                5 => Op::TAcq(rng.chance(1, 2), 1),
                6 => Op::TRel(rng.below(2) as usize),
                _ => Op::Acq(false, 7),
            }).collect()
        }).collect();
        cs.push((progs, random_schedule(rng, n, 12, 2), "undisciplined"));
    }
    cs
}

fn preempted_inside_call(o: &Observed) -> bool {
    // some thread was parked at 201..204 while a different thread made a step
    let mut at: BTreeMap<usize, i64> = BTreeMap::new();
    for s in &o.steps {
        if s.out != 3 && s.out != 2 && at.iter().any(|(u, x)| *u != s.t && (201..=204).contains(x)) { return true; }
        if s.out != 3 { at.insert(s.t, s.out); }
        for (u, x) in &s.woke { at.insert(*u, *x); }
    }
    false
}

fn main() {
    let a = Args::parse();
    match a.mode.as_str() {
        "gen" => gen(&a),
        "search" => search(&a),
        "worker" => worker(&a),
        _ => { eprintln!("c36: unknown mode"); std::process::exit(2); }
    }
}

/// flags of one observed case, as one tab-separated result line (worker -> parent)
fn result_line(kind: &str, progs: &[Vec<Op>], sched: &[usize], o: &Observed, reruns: u32) -> String {
    let mut parked = vec![false; progs.len()];
    let mut hit204 = false;
    // a thread parked at 204 while another thread moved: the window of the property's why_tests_cant
    for s in &o.steps {
        if s.out != 3 && s.out != 2 && parked.iter().enumerate().any(|(u, p)| *p && u != s.t) { hit204 = true; }
        if s.out != 3 && s.t < parked.len() { parked[s.t] = s.out == 204; }
    }
    let dead = if let Fin::Complete { blocked, .. } = &o.fin { !blocked.is_empty() } else { false };
    let flags = [
        o.steps.iter().any(|s| s.out == 2), o.steps.iter().any(|s| !s.woke.is_empty()), occ_violation(o),
        matches!(o.fin, Fin::Trunc), hit204, dead, stale204(progs, o), preempted_inside_call(o), unjustified_block(o), reruns > 0,
    ];
    let f: String = flags.iter().map(|b| if *b { '1' } else { '0' }).collect();
    format!("{}\t{}\t{}\t{}", kind, replay_line(progs, sched), f, case_term(progs, o))
}

/// `worker --lines FILE --out FILE`: FILE holds `kind<TAB>replay line` per case
fn worker(a: &Args) {
    let inp = std::fs::read_to_string(a.lines.as_ref().expect("--lines")).unwrap_or_default();
    let mut out = String::new();
    for l in inp.lines() {
        let mut it = l.splitn(2, '\t');
        let kind = it.next().unwrap_or("");
        let line = it.next().unwrap_or("");
        if let Some((progs, sched)) = parse_line(line) {
            let (o, reruns) = run_case_stable(&progs, &sched);
            out.push_str(&result_line(kind, &progs, &sched, &o, reruns));
            out.push('\n');
        }
    }
    std::fs::write(&a.out, out).expect("worker output");
}

/// run the cases in `jobs` child processes (one scheduler per process); results in input order
fn run_parallel(dir: &std::path::Path, cases: &[(Vec<Vec<Op>>, Vec<usize>, &'static str)], jobs: usize) -> Vec<Vec<String>> {
    std::fs::create_dir_all(dir).expect("work dir");
    let jobs = jobs.max(1).min(cases.len().max(1));
    let exe = std::env::current_exe().expect("current_exe");
    let mut children = vec![];
    for j in 0..jobs {
        let mut txt = String::new();
        for (i, (p, sch, kind)) in cases.iter().enumerate() { if i % jobs == j { txt.push_str(&format!("{}\t{}\n", kind, replay_line(p, sch))); } }
        let inp = dir.join(format!("work_{}.txt", j));
        let outp = dir.join(format!("res_{}.tsv", j));
        std::fs::write(&inp, txt).expect("work file");
        let ch = std::process::Command::new(&exe).arg("worker").arg("--lines").arg(&inp).arg("--out").arg(&outp).spawn().expect("spawn worker");
        children.push((ch, outp));
    }
    let mut per_job: Vec<std::collections::VecDeque<Vec<String>>> = vec![];
    for (mut ch, outp) in children {
        let st = ch.wait().expect("wait worker");
        if !st.success() { eprintln!("c36: worker failed: {:?}", st); std::process::exit(3); }
        let txt = std::fs::read_to_string(&outp).unwrap_or_default();
        per_job.push(txt.lines().map(|l| l.splitn(4, '\t').map(|x| x.to_string()).collect::<Vec<_>>()).collect());
    }
    let mut res = vec![];
    for i in 0..cases.len() { if let Some(r) = per_job[i % jobs].pop_front() { res.push(r); } }
    res
}

fn jobs() -> usize { std::env::var("C36_JOBS").ok().and_then(|s| s.parse().ok()).unwrap_or(6) }

fn gen(a: &Args) {
    let mut rng = Rng::new(a.seed);
    let mut wr = CaseWriter::new(&a.out, "C36", "Corr.C36", 100);
    let cases: Vec<(Vec<Vec<Op>>, Vec<usize>, &'static str)> = match a.replay_lines() {
        Some(ls) => ls.iter().filter_map(|l| parse_line(l)).map(|(p, s)| (p, s, "replay")).collect(),
        None => gen_cases(a, &mut rng),
    };
    let t0 = Instant::now();
    let res = run_parallel(&a.out.join("work"), &cases, jobs());
    let names = ["obs_cases_with_a_blocked_step", "obs_cases_with_a_wakeup", "obs_cases_two_holders_seen", "obs_cases_truncated_two_blocked",
        "obs_cases_preempted_at_204", "obs_cases_ending_deadlocked", "obs_cases_stale_cleanup_signature"];
    let mut counts = [0u64; 7];
    for r in &res {
        if r.len() < 4 { continue; }
        let f: Vec<bool> = r[2].chars().map(|c| c == '1').collect();
        for i in 0..7 { if f.get(i).copied().unwrap_or(false) { counts[i] += 1; } }
        // the replay line names the requested schedule; the drain that the harness appends is deterministic
        wr.push(r[3].clone(), r[1].clone(), f.get(7).copied().unwrap_or(false), &r[0]);
    }
    for i in 0..7 { wr.count(names[i], counts[i]); }
    let reruns = res.iter().filter(|r| r.len() >= 4 && r[2].chars().nth(9) == Some('1')).count();
    wr.count("obs_cases_rerun_for_late_wakeup_verdict", reruns as u64);
    let _ = std::fs::remove_dir_all(a.out.join("work"));
    wr.finish(&[("harness_run_ms".to_string(), format!("{}", t0.elapsed().as_millis())), ("worker_processes".to_string(), format!("{}", jobs()))]);
}

/// Oracle only: occupancy exclusion at every step, and no unjustified blocking at the end.
fn search(a: &Args) {
    let mut rng = Rng::new(a.seed ^ 0xC36);
    let budget = a.budget.min(40_000) as usize;
    let mut cases: Vec<(Vec<Vec<Op>>, Vec<usize>, &'static str)> = vec![];
    let ww = vec![w(7), Op::Rel(0), w(7), Op::Rel(0)];
    'outer: for aa in 0..=12 { for bb in 0..=12 { for cc in 0..=6 {
        cases.push((vec![ww.clone(), ww.clone()], block_schedule(&[(0, aa), (1, bb), (0, cc)]), "s"));
        if cases.len() >= budget { break 'outer; }
    } } }
    while cases.len() < budget {
        let n = 2 + rng.below(2) as usize;
        let pages: &[i64] = if rng.chance(2, 3) { &[7] } else { &[7, 8] };
        let progs: Vec<Vec<Op>> = (0..n).map(|_| { let l = 2 + rng.below(6) as usize; random_prog(&mut rng, pages, l, false) }).collect();
        let len = 8 + rng.below(30) as usize;
        let stick = 1 + rng.below(6);
        let sched = random_schedule(&mut rng, n, len, stick);
        cases.push((progs, sched, "s"));
    }
    let dir = a.out.with_extension("work");
    let res = run_parallel(&dir, &cases, jobs());
    let _ = std::fs::remove_dir_all(&dir);
    let mut out = format!("tried={}\n", res.len());
    let mut nf = 0;
    for r in &res {
        if r.len() < 4 { continue; }
        let f: Vec<bool> = r[2].chars().map(|c| c == '1').collect();
        // occupancy exclusion violated at some step, or a thread left blocked without a conflicting holder
        if f.get(2).copied().unwrap_or(false) || f.get(8).copied().unwrap_or(false) {
            if nf < 40 {
                let cls = if f.get(6).copied().unwrap_or(false) { " cls=stale204" } else { "" };
                out.push_str(&format!("FAIL {}{}\n", r[1], cls));
            }
            nf += 1;
        }
    }
    std::fs::write(&a.out, out).expect("write search output");
}
