#!/usr/bin/env python3
"""Regenerate MANIFEST.json from tools/props.d/*.json, tools/not_applicable.json and properties.jsonl."""
import json, os, subprocess, sys
here = os.path.dirname(os.path.abspath(__file__))
root = os.path.dirname(here)
sys.path.insert(0, here)
from props import PROPS
props = [json.loads(l) for l in open(os.path.join(root, 'properties.jsonl'))]
na_path = os.path.join(here, 'not_applicable.json')
na = json.load(open(na_path)) if os.path.exists(na_path) else {}
hooks_path = os.path.join(here, 'hooks.json')
hooks = json.load(open(hooks_path)) if os.path.exists(hooks_path) else {'source_commits': []}
m = {
 "version": 1,
 "setup_cmd": "./tools/setup.sh",
 "hooks": {
  "guard": "kahflane_turdb_verif",
  "enable": "RUSTFLAGS=\"--cfg kahflane_turdb_verif\" (set in harness/.cargo/config.toml; the harness crate links /repo as a path dependency)",
  "baseline_off_cmd": "cd /repo && (cargo nextest run --workspace --no-fail-fast --tool-config-file pb:/w/lib/nextest.toml --profile pb --test-threads 8 --offline || cargo test --workspace --no-fail-fast --offline)",
  "source_commits": hooks.get('source_commits', []),
  "add_only": True
 },
 "engines": [
  {"name": "rocq-proof+correspondence", "path": "check", "serves_properties": sorted(PROPS),
   "kind_free_text": "Coq 8.16.1 theorems over models regenerated from /repo (tools/rs2v.py) or hand-written, tied to the code on every run by a correspondence check evaluated inside Coq (vm_compute) on the implementation's observed behaviour"}
 ],
 "checks": [],
 "notes": "See DESIGN.md. Every check: regenerate coq/Gen from /repo, re-check the proofs, audit axioms, rebuild the harness against /repo's working tree with hooks on, run the correspondence, decide.",
 "not_applicable": []
}
for p in props:
    pid = p['id']
    if pid in PROPS:
        c = PROPS[pid]['claim']
        m["checks"].append({
          "property_id": pid,
          "quick_cmd": "./check %s --tier quick" % pid,
          "thorough_cmd": "./check %s --tier thorough" % pid,
          "evidence_file": "/verif/evidence/%s.json" % pid,
          "replay_cmd_template": "./check %s --replay {path}" % pid,
          "engine": "rocq-proof+correspondence",
          "level_claimed": {"category": c.get("category", "proof"), "text": c["text"], "design_ref": c.get("design_ref", "DESIGN.md section 8 " + pid)},
          "level_note": c["level_note"],
          "technique": c["technique"]})
    else:
        m["not_applicable"].append({"property_id": pid, "reason": na.get(pid, "not built yet: no check exists for this property in the committed framework, so nothing is claimed (the planned Rocq model, theorems and correspondence are described in DESIGN.md section 8)")})
json.dump(m, open(os.path.join(root, 'MANIFEST.json'), 'w'), indent=1)
print('MANIFEST.json: %d checks, %d not_applicable' % (len(m['checks']), len(m['not_applicable'])))
