(* C34 proofs, part 3: from the per-call invariant to statements about whole histories
   (traces of the model judged by the property's oracle of Model/Freelist.v). *)
From Coq Require Import ZArith List Bool Lia ZifyBool FMapPositive Permutation.
From TV Require Import Lib.MachInt Gen.FreelistConsts Gen.Freelist Model.Freelist Proof.Freelist Proof.FreelistInv.
Import ListNotations.
Open Scope Z_scope.

(* model state and oracle state describe the same moment *)
Definition Inv (np : Z) (st : state) (o : ost) (ts : list trunk) (L : list Z) : Prop :=
  Core np st (bag o) (nfree o) (z4 o) (z5 o) ts L /\ phd o = head st /\ pfc o = fc st.

Lemma core_fc_le_nf : forall np st b nf a4 a5 ts L, Core np st b nf a4 a5 ts L -> fc st <= nf.
Proof.
  intros np st b nf a4 a5 ts L [_ (_ & _ & _ & Hnf) Hfc _ _]. subst nf. unfold all. rewrite zlen_app. lia.
Qed.
Lemma core_fc_nonneg : forall np st b nf a4 a5 ts L, Core np st b nf a4 a5 ts L -> 0 <= fc st.
Proof.
  intros np st b nf a4 a5 ts L [_ _ Hfc _ _]. pose proof (zlen_nonneg _ (flat ts)). lia.
Qed.

Definition ost_run (o : ost) (tr : list ev) : ost := fold_left ost_step tr o.

(* one call of a disciplined client that does not make allocate() read a dirty page 0 *)
Lemma step_inv : forall np st o ts L op st' r,
  np < 2 ^ 32 -> Inv np st o ts L -> step np (fuel_for np) st op = (st', r) ->
  let e := E op r (head st') (fc st') in
  disc_ev np o e = true -> bad_deref o e = false ->
  anomaly o e = false /\ pfc (ost_step o e) <= nfree (ost_step o e) /\
  exists ts' L', Inv np st' (ost_step o e) ts' L' /\
    match op, r with
    | Alloc, OSome _ => etot ts' = etot ts - 1
    | Alloc, ONone => etot ts = 0
    | _, _ => True
    end.
Proof.
  intros np st o ts L op st' r Hnp (HC & Hhd & Hfc) Hstep e Hdisc Hbad. subst e.
  destruct op as [p| |p i v]; cbn [step] in Hstep.
  - (* release *)
    cbn [disc_ev] in Hdisc.
    destruct (release_core np st (bag o) (nfree o) (z4 o) (z5 o) ts L p Hnp HC) as (st2 & Hr & ts' & L' & HC'); [lia| |].
    { destruct (bmem p (bag o)); [cbn in Hdisc; lia|reflexivity]. }
    rewrite Hr in Hstep. inversion Hstep; subst st2 r. clear Hstep.
    cbn [anomaly ost_step pfc nfree]. split; [reflexivity|]. split.
    + eapply core_fc_le_nf; eauto.
    + exists ts', L'. split; [|exact I]. split; [exact HC'|]. cbn. split; reflexivity.
  - (* allocate *)
    destruct (alloc_core np ts L st (bag o) (nfree o) (z4 o) (z5 o) (fuel_for np) HC) as (st2 & r2 & Ha & Hpost).
    { eapply core_fuel; eauto. }
    { cbn [bad_deref] in Hbad. rewrite Hhd, Hfc in Hbad. pose proof (core_fc_nonneg _ _ _ _ _ _ _ _ HC).
      destruct (Z.eqb_spec (head st) 0); [|right; left; assumption].
      destruct (Z.ltb_spec 0 (fc st)); [|right; right; lia].
      left. cbn [andb] in Hbad. apply negb_false_iff in Hbad. lia. }
    rewrite Ha in Hstep. inversion Hstep; subst st2 r2. clear Hstep.
    destruct Hpost as [(-> & He0 & Hf0 & L' & HC')|(x & -> & Hxb & ts' & L' & HC' & He')].
    + cbn [anomaly ost_step pfc nfree]. split; [reflexivity|]. split.
      * eapply core_fc_le_nf; eauto.
      * exists [], L'. split; [|exact He0]. split; [exact HC'|]. cbn. split; reflexivity.
    + cbn [anomaly ost_step pfc nfree]. rewrite Hxb. split; [reflexivity|]. split.
      * eapply core_fc_le_nf; eauto.
      * exists ts', L'. split; [|exact He']. split; [exact HC'|]. cbn. split; reflexivity.
  - (* client write *)
    cbn [disc_ev] in Hdisc.
    destruct (poke_core np st (bag o) (nfree o) (z4 o) (z5 o) ts L p i v HC) as (st2 & Hr & HC' & Hh' & Hf'); [lia|lia| |].
    { destruct (bmem p (bag o)); [cbn in Hdisc; lia|reflexivity]. }
    rewrite Hr in Hstep. inversion Hstep; subst st2 r. clear Hstep.
    cbn [anomaly ost_step pfc nfree]. split; [reflexivity|]. split.
    + rewrite Hf'. eapply core_fc_le_nf; eauto.
    + exists ts, L. split; [|exact I]. split; [exact HC'|]. cbn. split; reflexivity.
Qed.

(* ------------------------------------------------------------------ whole histories *)
Lemma run_safe_until_deref : forall np, np < 2 ^ 32 -> forall ops st o ts L,
  Inv np st o ts L ->
  disciplined_from np o (run_from np (fuel_for np) st ops) = true ->
  safe_until_deref_from o (run_from np (fuel_for np) st ops) = true.
Proof.
  intros np Hnp ops. induction ops as [|op t IH]; intros st o ts L HI Hd; [reflexivity|].
  cbn [run_from] in *. destruct (step np (fuel_for np) st op) as [st' r] eqn:Es.
  cbn [disciplined_from safe_until_deref_from] in *. apply andb_prop in Hd. destruct Hd as [Hd1 Hd2].
  destruct (bad_deref o (E op r (head st') (fc st'))) eqn:Eb; [reflexivity|]. cbn [orb].
  destruct (step_inv np st o ts L op st' r Hnp HI Es Hd1 Eb) as (Han & _ & ts' & L' & HI' & _).
  rewrite Han. cbn [negb andb]. eapply IH; eauto.
Qed.

Lemma run_safe : forall np, np < 2 ^ 32 -> forall ops st o ts L,
  Inv np st o ts L ->
  disciplined_from np o (run_from np (fuel_for np) st ops) = true ->
  no_bad_deref_from o (run_from np (fuel_for np) st ops) = true ->
  safe_from o (run_from np (fuel_for np) st ops) = true /\
  reported_le_spec_from o (run_from np (fuel_for np) st ops) = true /\
  exists ts' L', Inv np (final_from np (fuel_for np) st ops) (ost_run o (run_from np (fuel_for np) st ops)) ts' L'.
Proof.
  intros np Hnp ops. induction ops as [|op t IH]; intros st o ts L HI Hd Hb.
  - cbn. repeat split. exists ts, L. exact HI.
  - cbn [run_from final_from] in *. destruct (step np (fuel_for np) st op) as [st' r] eqn:Es.
    cbn [disciplined_from no_bad_deref_from safe_from reported_le_spec_from ost_run fold_left fst] in *.
    apply andb_prop in Hd. destruct Hd as [Hd1 Hd2]. apply andb_prop in Hb. destruct Hb as [Hb1 Hb2].
    apply negb_true_iff in Hb1.
    destruct (step_inv np st o ts L op st' r Hnp HI Es Hd1 Hb1) as (Han & Hle & ts' & L' & HI' & _).
    destruct (IH st' _ ts' L' HI' Hd2 Hb2) as (IH1 & IH2 & IH3).
    rewrite Han, IH1, IH2. cbn [negb andb]. split; [reflexivity|]. split; [|exact IH3].
    apply andb_true_intro. split; [lia|reflexivity].
Qed.

(* what a run of successful allocations up to the first None returns = the entries of the chain *)
Lemma drain_exact : forall np, np < 2 ^ 32 -> forall more st o ts L k,
  Inv np st o ts L ->
  no_bad_deref_from o (run_from np (fuel_for np) st more) = true ->
  drain_count (run_from np (fuel_for np) st more) = Some k -> k = etot ts.
Proof.
  intros np Hnp more. induction more as [|op t IH]; intros st o ts L k HI Hb Hk; [discriminate|].
  cbn [run_from] in *. destruct (step np (fuel_for np) st op) as [st' r] eqn:Es.
  cbn [no_bad_deref_from drain_count] in *. apply andb_prop in Hb. destruct Hb as [Hb1 Hb2].
  apply negb_true_iff in Hb1.
  destruct op as [p| |p i v]; try (destruct r; discriminate).
  destruct (step_inv np st o ts L Alloc st' r Hnp HI Es eq_refl Hb1) as (_ & _ & ts' & L' & HI' & He).
  destruct r; try discriminate.
  - destruct (drain_count (run_from np (fuel_for np) st' t)) as [k'|] eqn:Ek; [|discriminate].
    inversion Hk; subst k. rewrite (IH st' _ ts' L' k' HI' Hb2 Ek). lia.
  - inversion Hk; subst k. lia.
Qed.

(* ------------------------------------------------------------------ traces of appended histories *)
Lemma run_from_app : forall np fuel a b st,
  run_from np fuel st (a ++ b) = run_from np fuel st a ++ run_from np fuel (final_from np fuel st a) b.
Proof.
  intros np fuel a. induction a as [|op t IH]; intros b st; [reflexivity|].
  cbn [app run_from final_from]. destruct (step np fuel st op) as [st' r]. cbn [fst app]. rewrite IH. reflexivity.
Qed.
Lemma disciplined_from_app : forall np t1 t2 o,
  disciplined_from np o (t1 ++ t2) = disciplined_from np o t1 && disciplined_from np (ost_run o t1) t2.
Proof.
  intros np t1. induction t1 as [|e t IH]; intros t2 o; [reflexivity|].
  cbn [app disciplined_from ost_run fold_left]. rewrite IH. unfold ost_run. rewrite andb_assoc. reflexivity.
Qed.
Lemma no_bad_deref_from_app : forall t1 t2 o,
  no_bad_deref_from o (t1 ++ t2) = no_bad_deref_from o t1 && no_bad_deref_from (ost_run o t1) t2.
Proof.
  intros t1. induction t1 as [|e t IH]; intros t2 o; [reflexivity|].
  cbn [app no_bad_deref_from ost_run fold_left]. rewrite IH. unfold ost_run. rewrite andb_assoc. reflexivity.
Qed.

Lemma inv_new : forall np, Inv np st_new ost_new [] [].
Proof. intro np. split; [apply core_new|]. split; reflexivity. Qed.

(* ================================================================== the theorems pinned in Props/C34.v *)
Theorem alloc_safety_l : forall np ops, np < 2 ^ 32 ->
  disciplined np (run np ops) = true -> no_bad_deref (run np ops) = true ->
  safe (run np ops) = true.
Proof.
  intros np ops Hnp Hd Hb. unfold safe, run in *.
  destruct (run_safe np Hnp ops st_new ost_new [] [] (inv_new np) Hd Hb) as (H & _). exact H.
Qed.

Theorem safe_until_deref_l : forall np ops, np < 2 ^ 32 ->
  disciplined np (run np ops) = true -> safe_until_deref (run np ops) = true.
Proof.
  intros np ops Hnp Hd. unfold safe_until_deref, run in *.
  eapply run_safe_until_deref; eauto. apply inv_new.
Qed.

Theorem reported_le_spec_l : forall np ops, np < 2 ^ 32 ->
  disciplined np (run np ops) = true -> no_bad_deref (run np ops) = true ->
  reported_le_spec (run np ops) = true.
Proof.
  intros np ops Hnp Hd Hb. unfold reported_le_spec, run in *.
  destruct (run_safe np Hnp ops st_new ost_new [] [] (inv_new np) Hd Hb) as (_ & H & _). exact H.
Qed.

Theorem overcount_l : forall np ops more k, np < 2 ^ 32 ->
  disciplined np (run np (ops ++ more)) = true -> no_bad_deref (run np (ops ++ more)) = true ->
  drain_count (run_from np (fuel_for np) (final np ops) more) = Some k ->
  head (final np ops) <> 0 ->
  k < fc (final np ops).
Proof.
  intros np ops more k Hnp Hd Hb Hk Hh. unfold disciplined, no_bad_deref, run, final in *.
  rewrite run_from_app in Hd, Hb. rewrite disciplined_from_app in Hd. rewrite no_bad_deref_from_app in Hb.
  apply andb_prop in Hd. destruct Hd as [Hd1 Hd2]. apply andb_prop in Hb. destruct Hb as [Hb1 Hb2].
  destruct (run_safe np Hnp ops st_new ost_new [] [] (inv_new np) Hd1 Hb1) as (_ & _ & ts & L & HI).
  pose proof (drain_exact np Hnp more _ _ ts L k HI Hb2 Hk) as ->.
  destruct HI as ([Hc _ Hfc _ _] & _ & _).
  destruct ts as [|[t s] rest]; [cbn [chain] in Hc; contradiction|].
  rewrite zlen_flat in Hfc. rewrite zlen_cons in Hfc. pose proof (zlen_nonneg _ rest). lia.
Qed.

(* whatever the oracle cannot accept on a model trace falls into one of the two recorded classes *)
Theorem known_classes_cover_l : forall np ops, np < 2 ^ 32 ->
  known_class_tr np (run np ops) = 0 -> property_ok np (run np ops) = true.
Proof.
  intros np ops Hnp H. unfold known_class_tr in H.
  destruct (property_ok np (run np ops)) eqn:Ep; [reflexivity|exfalso].
  unfold property_ok in Ep. apply orb_false_elim in Ep. destruct Ep as [Ed Es].
  apply negb_false_iff in Ed.
  destruct (safe (run np ops)) eqn:Esafe; cbn [negb] in H.
  - rewrite count_not_under_l in H. discriminate.
  - rewrite (safe_until_deref_l np ops Hnp Ed) in H. discriminate.
Qed.

(* ------------------------------------------------------------------ the code does NOT satisfy the property *)
(* release(3); allocate(): free_count() = 1 after the release, yet nothing can be allocated *)
Theorem free_count_exact_refuted_l :
  exists np ops, disciplined np (run np ops) = true /\ no_bad_deref (run np ops) = true /\
                 safe (run np ops) = true /\ count_exact (run np ops) = false.
Proof. exists 8, [Rel 3; Alloc]. vm_compute. repeat split. Qed.

(* page 0 holds client data where a trunk header would be; after release(3); release(4); allocate()
   the state is head_page = 0, free_count = 1 and the next allocate() hands out page 7, never released *)
Theorem page0_deref_refuted_l :
  exists np ops, disciplined np (run np ops) = true /\ safe (run np ops) = false /\
                 run np ops = [E (Poke 0 5 1) OOk 0 0; E (Poke 0 6 7) OOk 0 0; E (Rel 3) OOk 3 1;
                               E (Rel 4) OOk 3 2; E Alloc (OSome 4) 0 1; E Alloc (OSome 7) 0 0].
Proof. exists 8, [Poke 0 5 1; Poke 0 6 7; Rel 3; Rel 4; Alloc; Alloc]. vm_compute. repeat split. Qed.
