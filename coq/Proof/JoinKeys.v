(* C17 proofs, part 3: keys_match_static (src/sql/util.rs:120 over Value::compare) against SQL
   equality.  Wherever the reference semantics gives `l.k1 = r.k1 AND ...` a truth value, the executor's
   key test is TRUE exactly when the condition is TRUE (NULL keys never match, Int / Float keys are
   compared by value).  The executors' weak point is therefore not the comparison but the hash
   (Value::hash_to), see grace_mixed_keys_refuted. *)
From Coq Require Import ZArith List Bool Lia.
From TV Require Import Model.SqlSpec Model.PredImpl Model.JoinSpec Model.JoinExec Proof.SqlSpecLaws.
Import ListNotations.
Open Scope Z_scope.

Definition no_bool (v : value) : bool := match v with VBool _ => false | _ => true end.

Lemma round53_small x : int_float_safe x = true -> round53 x = x.
Proof.
  unfold int_float_safe, round53. intros H. apply andb_true_iff in H. destruct H as [H1 H2].
  apply Z.leb_le in H1. apply Z.leb_le in H2.
  destruct (Z.leb_spec (Z.abs x) (2 ^ 53)) as [_|H]; [reflexivity|]. lia.
Qed.

Definition tt_of (o : option tv) : bool := match o with Some TT => true | _ => false end.

Lemma cmp_opp_eq c : cmp_holds CEq (CompOpp c) = cmp_holds CEq c.
Proof. destruct c; reflexivity. Qed.

Lemma key_eq_sql x y : no_bool x = true -> no_bool y = true -> cmp3 CEq x y <> None ->
  key_eq_static (Some x) (Some y) = tt_of (cmp3 CEq x y).
Proof.
  intros Bx By D. unfold key_eq_static, cmp3 in *.
  destruct x as [|a|a|a|a], y as [|b|b|b|b]; try discriminate; cbn [is_vnull orb value_compare cmp_values tt_of] in *;
    try reflexivity; try (exfalso; apply D; reflexivity).
  - destruct (a ?= b); reflexivity.
  - unfold if_partial_cmp, ifcmp in *.
    destruct (int_float_safe a) eqn:S; cbn [andb] in *; [|exfalso; apply D; reflexivity].
    rewrite (round53_small a S). destruct (f_ok b && negb (f_is_nan b)); cbn [option_map] in *; [|exfalso; apply D; reflexivity].
    destruct (ifcmp_exact a b); reflexivity.
  - unfold if_partial_cmp, ifcmp in *.
    destruct (int_float_safe b) eqn:S; cbn [andb] in *; [|exfalso; apply D; reflexivity].
    rewrite (round53_small b S). destruct (f_ok a && negb (f_is_nan a)); cbn [option_map] in *; [|exfalso; apply D; reflexivity].
    destruct (ifcmp_exact b a); reflexivity.
  - unfold f_partial_cmp. destruct (fcmp a b) as [c|]; cbn [option_map] in *; [|exfalso; apply D; reflexivity].
    destruct c; reflexivity.
  - destruct (bytes_cmp a b); reflexivity.
Qed.

(* one key pair as an expression over the concatenated row *)
Lemma sem3_key lw (l r : row) i j : length l = lw -> (i < lw)%nat ->
  sem3 (ECmp CEq (ECol i) (ECol (lw + j))) (l ++ r) =
  match nth_error l i, nth_error r j with
  | Some x, Some y => cmp3 CEq x y
  | _, _ => None
  end.
Proof.
  intros Hl Hi. unfold sem3. cbn [eval].
  rewrite nth_error_app1 by lia. rewrite nth_error_app2 by lia.
  replace (lw + j - length l)%nat with j by lia.
  destruct (nth_error l i) as [x|]; [|reflexivity]. destruct (nth_error r j) as [y|]; [|reflexivity].
  apply bind_ret_tv.
Qed.

Lemma key_eq_expr lw (l r : row) i j : length l = lw -> (i < lw)%nat ->
  forallb no_bool l = true -> forallb no_bool r = true ->
  sem3 (ECmp CEq (ECol i) (ECol (lw + j))) (l ++ r) <> None ->
  key_eq_static (nth_error l i) (nth_error r j) = passes (ECmp CEq (ECol i) (ECol (lw + j))) (l ++ r).
Proof.
  intros Hl Hi Bl Br D. unfold passes. rewrite (sem3_key lw l r i j Hl Hi) in *.
  destruct (nth_error l i) as [x|] eqn:Ex; [|exfalso; apply D; reflexivity].
  destruct (nth_error r j) as [y|] eqn:Ey; [|exfalso; apply D; reflexivity].
  assert (no_bool x = true) as Bx by (eapply forallb_forall; [exact Bl|eapply nth_error_In; exact Ex]).
  assert (no_bool y = true) as By by (eapply forallb_forall; [exact Br|eapply nth_error_In; exact Ey]).
  rewrite (key_eq_sql x y Bx By D). unfold tt_of. destruct (cmp3 CEq x y) as [[]|]; reflexivity.
Qed.

Theorem keys_match_is_sql_eq_l : forall lw lk rk (l r : row),
  length l = lw -> length lk = length rk -> Forall (fun i => (i < lw)%nat) lk ->
  forallb no_bool l = true -> forallb no_bool r = true ->
  on3 (keys_expr lw lk rk) l r <> None ->
  keys_match_static l r lk rk = on_tt (keys_expr lw lk rk) l r.
Proof.
  intros lw lk rk l r Hl Hlen Hlt Bl Br. unfold keys_match_static, on3, on_tt.
  rewrite Hlen, Nat.eqb_refl. cbn [andb].
  revert rk Hlen Hlt. induction lk as [|i lk IH]; intros [|j rk] Hlen Hlt D; try discriminate; [reflexivity|].
  inversion Hlt as [|? ? Hi Hlt']; subst. cbn [keys_all].
  cbn [keys_expr] in *.
  destruct lk as [|i' lk'], rk as [|j' rk']; try discriminate.
  - cbn [keys_all]. rewrite andb_true_r. apply key_eq_expr; auto.
  - set (e1 := ECmp CEq (ECol i) (ECol (length l + j))) in *.
    set (e2 := keys_expr (length l) (i' :: lk') (j' :: rk')) in *.
    assert (sem3 e1 (l ++ r) <> None /\ sem3 e2 (l ++ r) <> None) as [D1 D2].
    { rewrite sem3_and in D. destruct (sem3 e1 (l ++ r)), (sem3 e2 (l ++ r)); cbn in D; split; congruence. }
    rewrite (passes_and e1 e2 _ D1 D2). f_equal.
    + apply key_eq_expr; auto.
    + apply IH; auto.
Qed.
