(* C28 - The B-tree behaves as an ordered map.  Property theorems only.
   Model: Model/BTree.v - abstract-node model of src/btree/{tree,leaf,interior}.rs AS REPAIRED by commits
   8f0490a a847df1 0e115d7 9c96190 09348e1 a0471f9 691ce2c (byte-size decisions, split points, hint fast paths, cursor
   algorithms of the code as it is).  Spec: Model/BTreeSpec.v (`spec_check`: what an ordered map may return,
   also evaluated by Corr/C28.v on the real results).  Invariant: Model/BTreeInv.v.
   What the ordered map says about refusals: an insert of an absent key may return Err and leave the map
   unchanged ONLY when an entry of more than half a page is involved (`refusal_ok`); otherwise it must succeed.
   `run s ops` gives, per operation, the result and an outcome code; from a well-formed tree every code is 0
   (all error branches of the model are proved unreachable): the theorems carry no exception class. *)
From Coq Require Import ZArith List Bool.
From TV Require Import Lib.MachInt Gen.Varint Model.BTree Model.BTreeSpec Model.BTreeInv Model.BTreeWitness
  Proof.BTreeMain Proof.BTreeRefute.
Import ListNotations.
Open Scope Z_scope.

(* every history (any operations, keys, value lengths, hints) from any well-formed tree: every result - return
   values, lookups, forward / backward / seek cursor enumerations - is one an ordered map returns.  No
   exception class, no hypothesis about outcome codes. *)
Theorem btree_refines_omap :
  forall (V : Type) (vlen : V -> Z) (veqb : V -> V -> bool),
    (forall v, 0 <= vlen v) -> (forall v, veqb v v = true) ->
    forall (ops : list (op V)) (s : state V),
      Inv V vlen s ->
      spec_run V vlen veqb (abs_of V s) (combine ops (map fst (fst (run V vlen s ops)))) = true.
Proof. exact run_refines_l. Qed.

(* a history judged to its end and in scope throughout: the tree is again well formed (uniform depth, sorted
   leaves inside their separator bounds, page space accounting), holds exactly the map's entries, and every
   operation took a regular branch (no hypothesis about outcome codes is needed) *)
Theorem btree_state_after :
  forall (V : Type) (vlen : V -> Z) (veqb : V -> V -> bool),
    (forall v, 0 <= vlen v) -> (forall v, veqb v v = true) ->
    forall (ops : list (op V)) (s : state V) (mf : omap V),
      Inv V vlen s ->
      spec_final V vlen veqb (abs_of V s) (combine ops (map fst (fst (run V vlen s ops)))) = Some mf ->
      Inv V vlen (snd (run V vlen s ops)) /\ abs_of V (snd (run V vlen s ops)) = mf
      /\ all_clear V (fst (run V vlen s ops)) = true.
Proof. exact run_final_l. Qed.

(* BTree::create: a well-formed empty map *)
Theorem btree_created_empty :
  forall (V : Type) (vlen : V -> Z) (rootpg np : Z),
    Inv V vlen (init_state V rootpg np) /\ abs_of V (init_state V rootpg np) = [].
Proof. exact init_inv. Qed.

(* HISTORICAL: the witnesses of the eight findings fixed in /repo (F-C28-1..8; cursors at empty leaves, hint
   fast path, growing update, oversized entry, re-inserted separator key, interior split by count, interior page
   without separators) are regular and handled like an ordered map by the model of the repaired code; their
   replay lines are re-run on the real code on every check *)
Theorem former_classes_repaired :
  accepted w_fwd /\ accepted w_seek /\ accepted w_bwd /\ accepted w_hint /\ accepted w_upd /\ accepted w_leaffull
  /\ accepted w_sepdup /\ accepted w_intfull /\ accepted w_zsep.
Proof. exact former_classes_repaired_l. Qed.

(* non-vacuity: a history with leaf splits, a root split, deletes that empty a whole leaf, updates of all three
   kinds, an append through the hint, and all three cursors is accepted to its end *)
Definition nv_ops : list (op wval) :=
  map (fun i => wins i 4000 (i + 1)) [2;3;4;5;6;7;8;9;10;11]
  ++ [OAppend (wk 12) (300, 40); ODelete (wk 6); ODelete (wk 7); ODelete (wk 8); ODelete (wk 9);
      OUpdate (wk 3) (4000, 41); OUpdate (wk 4) (100, 42); OUpdate (wk 12) (900, 43);
      OIine (wk 4) (5, 44); OIine (wk 7) (5, 45); OGet (wk 7); OGet (wk 1);
      OFwd 1000; OBwd 1000; OSeek (wk 6) 5; OReopen (Some 4); wins 13 20 46; OFwd 1000].
Example c28_nonvacuous :
  all_clear wval (wrun nv_ops) = true
  /\ (exists mf, spec_final wval wvlen wveqb [] (combine nv_ops (map fst (wrun nv_ops))) = Some mf /\ length mf = 9%nat)
  /\ depth wval (root (snd (run wval wvlen (init_state wval 1 2) nv_ops))) = 1%nat.
Proof. vm_compute. split; [reflexivity|]. split; [eexists; split; reflexivity | reflexivity]. Qed.

Check btree_refines_omap :
  forall (V : Type) (vlen : V -> Z) (veqb : V -> V -> bool),
    (forall v, 0 <= vlen v) -> (forall v, veqb v v = true) ->
    forall (ops : list (op V)) (s : state V),
      Inv V vlen s ->
      spec_run V vlen veqb (abs_of V s) (combine ops (map fst (fst (run V vlen s ops)))) = true.
Check btree_state_after :
  forall (V : Type) (vlen : V -> Z) (veqb : V -> V -> bool),
    (forall v, 0 <= vlen v) -> (forall v, veqb v v = true) ->
    forall (ops : list (op V)) (s : state V) (mf : omap V),
      Inv V vlen s ->
      spec_final V vlen veqb (abs_of V s) (combine ops (map fst (fst (run V vlen s ops)))) = Some mf ->
      Inv V vlen (snd (run V vlen s ops)) /\ abs_of V (snd (run V vlen s ops)) = mf
      /\ all_clear V (fst (run V vlen s ops)) = true.
Check btree_created_empty :
  forall (V : Type) (vlen : V -> Z) (rootpg np : Z),
    Inv V vlen (init_state V rootpg np) /\ abs_of V (init_state V rootpg np) = [].
Check former_classes_repaired :
  accepted w_fwd /\ accepted w_seek /\ accepted w_bwd /\ accepted w_hint /\ accepted w_upd /\ accepted w_leaffull
  /\ accepted w_sepdup /\ accepted w_intfull /\ accepted w_zsep.

Print Assumptions btree_refines_omap.
Print Assumptions btree_state_after.
Print Assumptions btree_created_empty.
Print Assumptions former_classes_repaired.
