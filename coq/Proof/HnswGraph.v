(* Proof/HnswGraph.v -- frame lemmas for the graph updates of insert (apply_levels / apply_nbrs):
   they never change a node's row id or its Active flag, never touch an unreadable node, keep the
   number of nodes, and only add the ids they were asked to add.  Also: which ids greedy descent and
   beam search can return. *)
From Coq Require Import ZArith List Bool Lia Permutation.
From TV Require Import Model.Hnsw Proof.HnswHeap Proof.HnswSearch.
Import ListNotations.
Open Scope Z_scope.

(* ------------------------------------------------------------------ lists *)
Lemma In_upd : forall (A : Type) (h : list A) i x y, In y (upd h i x) -> y = x \/ In y h.
Proof.
  intros A h. induction h as [|z t IH]; intros [|i] x y H; cbn [upd] in H; auto.
  - destruct H as [<-|H]; [left; auto | right; right; auto].
  - destruct H as [<-|H]; [right; left; auto|]. destruct (IH _ _ _ H); auto. right; right; auto.
Qed.

Lemma upd_nth_Z : forall (A : Type) (h : list A) i j x, (i < length h)%nat ->
  nth_error (upd h i x) j = if Nat.eqb j i then Some x else nth_error h j.
Proof. intros. apply upd_nth; auto. Qed.

(* ------------------------------------------------------------------ node edits *)
Lemma add_nbr_row : forall nd lvl x, n_row (add_nbr nd lvl x) = n_row nd.
Proof.
  intros nd lvl x. unfold add_nbr. destruct (lvl <? 0); auto.
  destruct (nth_error (n_nbrs nd) (Z.to_nat lvl)); auto.
  destruct (Z.of_nat (length l) <? _); auto.
Qed.
Lemma add_nbr_active : forall nd lvl x, n_active (add_nbr nd lvl x) = n_active nd.
Proof.
  intros nd lvl x. unfold add_nbr. destruct (lvl <? 0); auto.
  destruct (nth_error (n_nbrs nd) (Z.to_nat lvl)); auto.
  destruct (Z.of_nat (length l) <? _); auto.
Qed.
Lemma add_nbr_links : forall nd lvl x l y, In l (n_nbrs (add_nbr nd lvl x)) -> In y l ->
  y = x \/ exists l0, In l0 (n_nbrs nd) /\ In y l0.
Proof.
  intros nd lvl x l y Hl Hy. unfold add_nbr in Hl. destruct (lvl <? 0); [right; eauto|].
  destruct (nth_error (n_nbrs nd) (Z.to_nat lvl)) as [l1|] eqn:E; [|right; eauto].
  destruct (Z.of_nat (length l1) <? _); [|right; eauto].
  cbn [n_nbrs] in Hl. apply In_upd in Hl. destruct Hl as [->|Hl]; [|right; eauto].
  apply in_app_iff in Hy. destruct Hy as [Hy|[<-|[]]]; [right|left; auto].
  exists l1. split; auto. eapply nth_error_In; eauto.
Qed.

(* ------------------------------------------------------------------ what a graph update may change *)
Record ext (s s' : st) : Prop := {
  ext_len : length (nodes s') = length (nodes s);
  ext_entry : entry s' = entry s;
  ext_maxlvl : maxlvl s' = maxlvl s;
  ext_rowmap : rowmap s' = rowmap s;
  ext_vq : vq s' = vq s;
  ext_nodes : forall i nd, nth_error (nodes s) i = Some nd ->
     exists nd', nth_error (nodes s') i = Some nd' /\ n_row nd' = n_row nd /\ n_active nd' = n_active nd /\
                 (n_active nd = false -> nd' = nd)
}.

Lemma ext_refl : forall s, ext s s.
Proof. intros s. constructor; auto. intros i nd H. exists nd. auto. Qed.

Lemma ext_trans : forall a b c, ext a b -> ext b c -> ext a c.
Proof.
  intros a b c [A1 A2 A3 A4 A5 A6] [B1 B2 B3 B4 B5 B6]. constructor; try congruence.
  intros i nd H. destruct (A6 i nd H) as (n1 & H1 & R1 & C1 & D1).
  destruct (B6 i n1 H1) as (n2 & H2 & R2 & C2 & D2).
  exists n2. repeat split; try congruence.
  intros Hf. rewrite D2 by congruence. auto.
Qed.

Lemma read_node_Some : forall s id nd, read_node s id = Some nd ->
  0 <= id /\ nth_error (nodes s) (Z.to_nat id) = Some nd /\ n_active nd = true.
Proof.
  intros s id nd H. unfold read_node in H.
  destruct (Z.ltb_spec id 0); [discriminate|].
  destruct (nth_error (nodes s) (Z.to_nat id)) as [n|] eqn:E; [|discriminate].
  destruct (n_active n) eqn:Ea; [|discriminate]. inversion H; subst. auto.
Qed.

Lemma read_node_intro : forall s id nd, 0 <= id -> nth_error (nodes s) (Z.to_nat id) = Some nd ->
  n_active nd = true -> read_node s id = Some nd.
Proof.
  intros s id nd H0 Hn Ha. unfold read_node.
  destruct (Z.ltb_spec id 0); [lia|]. rewrite Hn, Ha. auto.
Qed.

Lemma ext_read : forall s s' id nd, ext s s' -> read_node s id = Some nd ->
  exists nd', read_node s' id = Some nd' /\ n_row nd' = n_row nd.
Proof.
  intros s s' id nd E H. apply read_node_Some in H. destruct H as (H0 & Hn & Ha).
  destruct (ext_nodes _ _ E _ _ Hn) as (nd' & H1 & R & A & _).
  exists nd'. split; auto. apply read_node_intro; auto. congruence.
Qed.

Lemma ext_read_none : forall s s' id, ext s s' -> read_node s id = None -> read_node s' id = None.
Proof.
  intros s s' id E H. unfold read_node in *.
  destruct (id <? 0); auto.
  destruct (nth_error (nodes s) (Z.to_nat id)) as [n|] eqn:En.
  - destruct (ext_nodes _ _ E _ _ En) as (nd' & H1 & R & A & _). rewrite H1, A.
    destruct (n_active n); [discriminate | auto].
  - apply nth_error_None in En. rewrite <- (ext_len _ _ E) in En. apply nth_error_None in En.
    rewrite En. auto.
Qed.

Lemma set_node_ext : forall s id nd nd', read_node s id = Some nd ->
  n_row nd' = n_row nd -> n_active nd' = n_active nd -> ext s (set_node s id nd').
Proof.
  intros s id nd nd' H R A. apply read_node_Some in H. destruct H as (H0 & Hn & Ha).
  assert (Hlt : (Z.to_nat id < length (nodes s))%nat) by (apply nth_error_Some; congruence).
  unfold set_node. constructor; cbn [nodes entry maxlvl rowmap vq]; auto.
  - apply upd_length.
  - intros i n Hi. rewrite upd_nth_Z by auto.
    destruct (Nat.eqb_spec i (Z.to_nat id)) as [->|Hne].
    + exists nd'. assert (n = nd) by congruence. subst n. repeat split; auto. congruence.
    + exists n. auto.
Qed.

(* ------------------------------------------------------------------ neighbour ids stored in the graph *)
Definition links_in (s : st) (P : Z -> Prop) : Prop :=
  forall nd l x, In nd (nodes s) -> In l (n_nbrs nd) -> In x l -> P x.

Definition node_links (nd : node) (P : Z -> Prop) : Prop :=
  forall l x, In l (n_nbrs nd) -> In x l -> P x.

Lemma add_nbr_node_links : forall nd lvl x P, node_links nd P -> P x -> node_links (add_nbr nd lvl x) P.
Proof.
  intros nd lvl x P H Hx l y Hl Hy. destruct (add_nbr_links _ _ _ _ _ Hl Hy) as [->|(l0 & H1 & H2)]; auto.
  eapply H; eauto.
Qed.

Lemma set_node_links : forall s id nd P, links_in s P -> node_links nd P -> links_in (set_node s id nd) P.
Proof.
  intros s id nd P H Hn n l x Hin Hl Hx. unfold set_node in Hin. cbn [nodes] in Hin.
  apply In_upd in Hin. destruct Hin as [->|Hin]; [eapply Hn; eauto | eapply H; eauto].
Qed.

Lemma read_node_links : forall s id nd P, links_in s P -> read_node s id = Some nd -> node_links nd P.
Proof.
  intros s id nd P H Hr l x Hl Hx. apply read_node_Some in Hr. destruct Hr as (_ & Hn & _).
  eapply H; eauto. eapply nth_error_In; eauto.
Qed.

(* ------------------------------------------------------------------ apply_nbrs / apply_levels *)
Lemma apply_nbrs_spec : forall nbrs s id lvl cur P,
  links_in s P -> node_links cur P -> P id -> (forall x, In x nbrs -> P x) ->
  match apply_nbrs s id lvl cur nbrs with
  | inl (s', cur') => ext s s' /\ links_in s' P /\ node_links cur' P /\
                      n_row cur' = n_row cur /\ n_active cur' = n_active cur
  | inr s' => ext s s' /\ links_in s' P
  end.
Proof.
  induction nbrs as [|nb t IH]; intros s id lvl cur P HL HC Hid Hn; cbn [apply_nbrs].
  - repeat split; auto. apply ext_refl.
  - destruct (read_node s nb) as [nbn|] eqn:Er.
    + assert (E1 : ext s (set_node s nb (add_nbr nbn lvl id))).
      { eapply set_node_ext; eauto; [apply add_nbr_row | apply add_nbr_active]. }
      assert (L1 : links_in (set_node s nb (add_nbr nbn lvl id)) P).
      { apply set_node_links; auto. apply add_nbr_node_links; auto. eapply read_node_links; eauto. }
      assert (C1 : node_links (add_nbr cur lvl nb) P).
      { apply add_nbr_node_links; auto. apply Hn. left; auto. }
      specialize (IH (set_node s nb (add_nbr nbn lvl id)) id lvl (add_nbr cur lvl nb) P L1 C1 Hid
                     (fun x Hx => Hn x (or_intror Hx))).
      destruct (apply_nbrs _ id lvl (add_nbr cur lvl nb) t) as [[s' cur']|s'].
      * destruct IH as (I1 & I2 & I3 & I4 & I5).
        split; [eapply ext_trans; eauto|]. split; auto. split; auto.
        rewrite I4, I5, add_nbr_row, add_nbr_active. auto.
      * destruct IH as (I1 & I2). split; [eapply ext_trans; eauto | auto].
    + split; [apply ext_refl | auto].
Qed.

Lemma apply_nbrs_ok : forall nbrs s id lvl cur,
  (forall x, In x nbrs -> read_node s x <> None) ->
  exists s' cur', apply_nbrs s id lvl cur nbrs = inl (s', cur').
Proof.
  induction nbrs as [|nb t IH]; intros s id lvl cur Hn; cbn [apply_nbrs]; eauto.
  destruct (read_node s nb) as [nbn|] eqn:Er; [|exfalso; eapply Hn; [left; reflexivity | exact Er]].
  apply IH. intros x Hx.
  assert (E1 : ext s (set_node s nb (add_nbr nbn lvl id))).
  { eapply set_node_ext; eauto; [apply add_nbr_row | apply add_nbr_active]. }
  destruct (read_node s x) as [nx|] eqn:Ex; [|exfalso; eapply Hn; [right; exact Hx | exact Ex]].
  destruct (ext_read _ _ _ _ E1 Ex) as (nd' & H1 & _). congruence.
Qed.

Definition todo_ids (l : list (Z * list Z)) (P : Z -> Prop) : Prop :=
  forall lv sel x, In (lv, sel) l -> In x sel -> P x.

Lemma apply_levels_spec : forall l s id P,
  links_in s P -> P id -> todo_ids l P ->
  match apply_levels s id l with
  | IOk s' | IErr s' => ext s s' /\ links_in s' P
  | IFuel => False
  end.
Proof.
  induction l as [|[lv sel] t IH]; intros s id P HL Hid Ht; cbn [apply_levels].
  - split; [apply ext_refl | auto].
  - destruct (read_node s id) as [cur|] eqn:Er; [|split; [apply ext_refl | auto]].
    pose proof (apply_nbrs_spec sel s id lv cur P HL (read_node_links _ _ _ _ HL Er) Hid
                  (fun x Hx => Ht lv sel x (or_introl eq_refl) Hx)) as A.
    destruct (apply_nbrs s id lv cur sel) as [[s' cur']|s'].
    + destruct A as (A1 & A2 & A3 & A4 & A5).
      destruct (ext_read _ _ _ _ A1 Er) as (c2 & Hc2 & Rc2).
      assert (E2 : ext s' (set_node s' id cur')).
      { eapply set_node_ext; eauto; try congruence.
        apply read_node_Some in Hc2. apply read_node_Some in Er. destruct Hc2 as (_ & _ & X), Er as (_ & _ & Y). congruence. }
      assert (L2 : links_in (set_node s' id cur') P) by (apply set_node_links; auto).
      specialize (IH (set_node s' id cur') id P L2 Hid (fun lv' sel' x H1 H2 => Ht lv' sel' x (or_intror H1) H2)).
      destruct (apply_levels (set_node s' id cur') id t) as [s2|s2|]; auto.
      * destruct IH as [I1 I2]. split; auto. eapply ext_trans; [exact A1|]. eapply ext_trans; eauto.
      * destruct IH as [I1 I2]. split; auto. eapply ext_trans; [exact A1|]. eapply ext_trans; eauto.
    + exact A.
Qed.

Lemma apply_levels_ok : forall l s id,
  read_node s id <> None ->
  (forall lv sel x, In (lv, sel) l -> In x sel -> read_node s x <> None) ->
  exists s', apply_levels s id l = IOk s'.
Proof.
  induction l as [|[lv sel] t IH]; intros s id Hid Ht; cbn [apply_levels]; eauto.
  destruct (read_node s id) as [cur|] eqn:Er; [|congruence].
  destruct (apply_nbrs_ok sel s id lv cur (fun x Hx => Ht lv sel x (or_introl eq_refl) Hx)) as (s' & cur' & Ea).
  rewrite Ea.
  pose proof (apply_nbrs_spec sel s id lv cur (fun _ => True)) as A. rewrite Ea in A.
  destruct A as (A1 & _ & _ & A4 & A5); try (intros; exact I); try (repeat intro; exact I).
  destruct (ext_read _ _ _ _ A1 Er) as (c2 & Hc2 & Rc2).
  assert (E2 : ext s' (set_node s' id cur')).
  { eapply set_node_ext; eauto; try congruence.
    apply read_node_Some in Hc2. apply read_node_Some in Er. destruct Hc2 as (_ & _ & X), Er as (_ & _ & Y). congruence. }
  assert (E3 : ext s (set_node s' id cur')) by (eapply ext_trans; eauto).
  apply IH.
  - destruct (ext_read _ _ _ _ E3 Er) as (c3 & Hc3 & _). congruence.
  - intros lv' sel' x H1 H2.
    destruct (read_node s x) as [nx|] eqn:Ex; [|exfalso; eapply (Ht lv' sel' x); [right; exact H1 | exact H2 | exact Ex]].
    destruct (ext_read _ _ _ _ E3 Ex) as (c3 & Hc3 & _). congruence.
Qed.

(* ------------------------------------------------------------------ ids returned by the searches *)
Lemma greedy_step_ids : forall cdf nbrs best bd n d,
  greedy_step nbrs cdf best bd = (n, d) -> n = best \/ In n nbrs.
Proof.
  intros cdf nbrs. induction nbrs as [|x t IH]; intros best bd n d H; cbn [greedy_step] in H.
  - inversion H; auto.
  - destruct (dlt (cdf x) bd); apply IH in H; destruct H as [->|H]; auto; right; [left | right | right]; auto.
Qed.

Lemma greedy_ids : forall iters gn cdf cur d n d' (P : Z -> Prop),
  P cur -> (forall a b, In b (gn a) -> P b) -> greedy iters gn cdf cur d = (n, d') -> P n.
Proof.
  induction iters as [|f IH]; intros gn cdf cur d n d' P Hc Hg H; cbn [greedy] in H.
  - inversion H; subst; auto.
  - destruct (greedy_step (gn cur) cdf cur d) as [n1 d1] eqn:Es.
    destruct (n1 =? cur).
    + inversion H; subst; auto.
    + eapply IH; [| exact Hg | exact H].
      apply greedy_step_ids in Es. destruct Es as [->|Hi]; auto. eapply Hg; eauto.
Qed.

Lemma descend_ids : forall n lvl s cdf ep ed e d (P : Z -> Prop),
  P ep -> (forall l a b, In b (gn_at s l a) -> P b) -> descend n lvl s cdf ep ed = (e, d) -> P e.
Proof.
  induction n as [|n IH]; intros lvl s cdf ep ed e d P Hp Hg H; cbn [descend] in H.
  - inversion H; subst; auto.
  - destruct (greedy GREEDY_MAX_ITER (gn_at s lvl) cdf ep ed) as [e1 d1] eqn:Eg.
    eapply IH; [| exact Hg | exact H].
    eapply greedy_ids; [exact Hp | | exact Eg]. intros a b. apply Hg.
Qed.

Section BeamIds.
  Variable gn : Z -> list Z.
  Variable cdf : Z -> dist.
  Variable ef : Z.
  Variable P : Z -> Prop.
  Hypothesis gn_P : forall a b, In b (gn a) -> P b.

  Definition visP (c : bctx) : Prop := forall v, In v (b_vis c) -> P v.

  Lemma beam_nbrs_visP : forall nbrs c, (forall x, In x nbrs -> P x) -> visP c -> visP (beam_nbrs nbrs cdf ef c).
  Proof.
    induction nbrs as [|n t IH]; intros c Hn Hc; cbn [beam_nbrs]; auto.
    assert (Ht : forall x, In x t -> P x) by (intros; apply Hn; right; auto).
    destruct (mem n (b_vis c)); [apply IH; auto|].
    destruct (dlt (cdf n) (worst (b_res c)) || (Z.of_nat (length (b_res c)) <? ef)); apply IH; auto;
      intros v [<-|Hv]; auto; apply Hn; left; auto.
  Qed.

  Lemma beam_loop_visP : forall fuel c c', visP c -> beam_loop fuel gn cdf ef c = Some c' -> visP c'.
  Proof.
    induction fuel as [|f IH]; intros c c' Hc H; cbn [beam_loop] in H; [discriminate|].
    destruct (pop le_min (b_cands c)) as [[cur rest]|]; [|inversion H; subst; auto].
    destruct (dlt (worst (b_res c)) (cd cur)); [inversion H; subst; exact Hc|].
    eapply IH; [|exact H]. apply beam_nbrs_visP; auto. intros x Hx. eapply gn_P; eauto.
  Qed.

  Lemma beam_ids : forall fuel e rs, P (cid e) ->
    beam fuel gn cdf ef e = Some rs -> forall x, In x rs -> P (cid x).
  Proof.
    intros fuel e rs Hp Hb x Hx. unfold beam in Hb.
    destruct (beam_loop fuel gn cdf ef (beam_init ef e)) as [c'|] eqn:El; [|discriminate].
    cbn in Hb. inversion Hb; subst rs.
    pose proof (beam_loop_inv gn cdf ef _ _ _ (beam_init_inv ef e) El) as Hinv.
    assert (Hv : visP c').
    { eapply beam_loop_visP; [|exact El]. unfold beam_init. intros v [<-|[]]. exact Hp. }
    apply Hv. eapply bi_vis; eauto.
  Qed.
End BeamIds.
