(* C22 proofs, part 5: the slicing literal parsers of src/parsing/literal.rs (Model/Literal.v).
   literal_no_panic_l : on EVERY valid UTF-8 text no modelled parser panics (model of the parsers as
   repaired by /repo adf5bcc);  literal_former_witnesses_l : the witnesses of the fixed findings
   F-C22-1..4 now evaluate to Err / a value. *)
From Coq Require Import ZArith List Bool Arith Lia ZifyBool.
From TV Require Import Model.LexerKeywords Model.Lexer Model.Literal Proof.LexerBase.
Import ListNotations.
Open Scope Z_scope.

Ltac Zify.zify_post_hook ::= Z.to_euclidean_division_equations.

(* ---------------------------------------------------------------- list facts (absent from Coq 8.16) *)
Lemma nth_skipn : forall (l : list Z) k i, nth_error (skipn k l) i = nth_error l (k + i).
Proof.
  intros l k. revert l. induction k as [|k IH]; intros l i; [reflexivity|].
  destruct l as [|x r]; [destruct i; reflexivity|]. cbn [skipn Nat.add nth_error]. apply IH.
Qed.

Lemma nth_firstn_lt : forall (l : list Z) n i, (i < n)%nat -> nth_error (firstn n l) i = nth_error l i.
Proof.
  intros l n. revert l. induction n as [|n IH]; intros l i Hi; [lia|].
  destruct l as [|x r]; [reflexivity|]. destruct i as [|j]; [reflexivity|].
  cbn [firstn nth_error]. apply IH. lia.
Qed.

(* ---------------------------------------------------------------- ASCII-only strings *)
Lemma no_non_ascii_nth : forall l, has_non_ascii l = false ->
  forall i b, nth_error l i = Some b -> is_ascii b = true.
Proof.
  induction l as [|x r IH]; intros H i b Hi.
  - destruct i; discriminate.
  - unfold has_non_ascii in *. cbn [existsb] in H. apply orb_false_elim in H as [Hx Hr].
    destruct i as [|j]; cbn [nth_error] in Hi.
    + inversion Hi; subst. destruct (is_ascii b); [reflexivity | discriminate].
    + eapply IH; eauto.
Qed.

Definition all_ascii (l : list Z) : Prop := forall i b, nth_error l i = Some b -> is_ascii b = true.

Lemma ascii_boundary : forall l, all_ascii l -> forall i, (i <= length l)%nat -> is_char_boundary l i = true.
Proof.
  intros l Ha i Hi. unfold is_char_boundary. destruct (i =? 0)%nat; [reflexivity|].
  destruct (nth_error l i) as [b|] eqn:E.
  - specialize (Ha i b E). unfold is_ascii in Ha. lia.
  - apply nth_error_None in E. apply Nat.eqb_eq. unfold len. lia.
Qed.

Lemma str_slice_ok : forall l a b, (a <= b)%nat -> is_char_boundary l a = true -> is_char_boundary l b = true ->
  exists r, str_slice l a b = LOk r.
Proof.
  intros l a b Hab Ha Hb. unfold str_slice. rewrite (proj2 (Nat.leb_le a b) Hab), Ha, Hb. simpl. eauto.
Qed.

Lemma all_ascii_app : forall l m, all_ascii l -> all_ascii m -> all_ascii (l ++ m).
Proof.
  intros l m Hl Hm i b Hi. destruct (Nat.lt_ge_cases i (length l)) as [H|H].
  - rewrite nth_error_app1 in Hi by exact H. eauto.
  - rewrite nth_error_app2 in Hi by exact H. eauto.
Qed.

Lemma all_ascii_repeat : forall n, all_ascii (repeat 48 n).
Proof.
  intros n i b Hi. apply nth_error_In in Hi. apply repeat_spec in Hi. subst. reflexivity.
Qed.

Lemma all_ascii_skipn : forall l k, all_ascii (skipn k l) ->
  forall i b, nth_error l (k + i) = Some b -> is_ascii b = true.
Proof.
  intros l k H i b Hi. apply (H i b). rewrite nth_skipn. exact Hi.
Qed.

(* ---------------------------------------------------------------- chunked parsers *)
Lemma chunk_loop_no_panic : forall l step radix, (0 < step)%nat -> all_ascii l ->
  forall n i, (n = 0 \/ i + (n - 1) * step < length l)%nat -> chunk_loop l step radix n i <> LPanic.
Proof.
  intros l step radix Hs Ha. induction n as [|m IH]; intros i Hn; cbn [chunk_loop]; [discriminate|].
  destruct Hn as [Hn|Hn]; [discriminate|].
  replace (S m - 1)%nat with m in Hn by lia.
  assert (Hi : (i < length l)%nat) by lia.
  destruct (str_slice_ok l i (Nat.min (i + step) (length l))) as [c Hc].
  - lia.
  - apply ascii_boundary; [exact Ha | lia].
  - apply ascii_boundary; [exact Ha | lia].
  - rewrite Hc. cbn [lbind].
    destruct (parse_uint radix 255 c); [|discriminate].
    specialize (IH (i + step)%nat).
    destruct (chunk_loop l step radix m (i + step)) eqn:E; cbn [lbind]; try discriminate.
    exfalso. apply IH; [|reflexivity].
    destruct m as [|k]; [left; reflexivity|right].
    replace (S k - 1)%nat with k by lia. cbn [Nat.mul] in Hn. lia.
Qed.

Lemma hex_blob_no_panic : forall l, parse_hex_blob l <> LPanic.
Proof.
  intros l. unfold parse_hex_blob.
  destruct (negb (length l mod 2 =? 0)%nat) eqn:E; [discriminate|].
  destruct (has_non_ascii l) eqn:H; [discriminate|].
  apply chunk_loop_no_panic; [lia | exact (no_non_ascii_nth l H) |].
  unfold chunks_count.
  destruct (length l) as [|n] eqn:El; [left; reflexivity|right].
  pose proof (Nat.div_mod (S n + 2 - 1) 2 ltac:(lia)) as Hd.
  pose proof (Nat.mod_upper_bound (S n + 2 - 1) 2 ltac:(lia)) as Hm.
  set (q := ((S n + 2 - 1) / 2)%nat) in *. set (r := ((S n + 2 - 1) mod 2)%nat) in *. clearbody q r.
  lia.
Qed.

Lemma binary_blob_no_panic : forall l, parse_binary_blob l <> LPanic.
Proof.
  intros l. unfold parse_binary_blob. destruct l as [|x r] eqn:El; [discriminate|]. rewrite <- El in *.
  destruct (has_non_ascii l) eqn:H; [discriminate|].
  apply chunk_loop_no_panic; [lia | exact (no_non_ascii_nth l H) |].
  unfold chunks_count. right.
  assert (0 < length l)%nat by (rewrite El; simpl; lia).
  pose proof (Nat.div_mod (length l + 8 - 1) 8 ltac:(lia)) as Hd.
  pose proof (Nat.mod_upper_bound (length l + 8 - 1) 8 ltac:(lia)) as Hm.
  set (q := ((length l + 8 - 1) / 8)%nat) in *. set (rr := ((length l + 8 - 1) mod 8)%nat) in *. clearbody q rr.
  lia.
Qed.

(* ---------------------------------------------------------------- trim yields an infix *)
Lemma trim_start_suffix : forall n l, exists pre, l = pre ++ trim_start_n n l.
Proof.
  induction n as [|m IH]; intros l; cbn [trim_start_n]; [exists []; reflexivity|].
  destruct (ws_head l) as [|k]; [exists []; reflexivity|].
  destruct (IH (skipn (S k) l)) as [pre Hpre].
  exists (firstn (S k) l ++ pre). rewrite <- app_assoc, <- Hpre. symmetry. apply firstn_skipn.
Qed.

Lemma trim_end_suffix : forall n r, exists pre, r = pre ++ trim_end_n n r.
Proof.
  induction n as [|m IH]; intros r; cbn [trim_end_n]; [exists []; reflexivity|].
  destruct (ws_last r) as [|k]; [exists []; reflexivity|].
  destruct (IH (skipn (S k) r)) as [pre Hpre].
  exists (firstn (S k) r ++ pre). rewrite <- app_assoc, <- Hpre. symmetry. apply firstn_skipn.
Qed.

Lemma trim_infix : forall l, exists pre post, l = pre ++ trim l ++ post.
Proof.
  intros l. unfold trim.
  destruct (trim_start_suffix (length l) l) as [pre Hpre].
  set (a := trim_start_n (length l) l) in *.
  destruct (trim_end_suffix (length a) (rev a)) as [q Hq].
  set (e := trim_end_n (length a) (rev a)) in *. clearbody e.
  exists pre, (rev q).
  rewrite Hpre at 1. f_equal.
  rewrite <- (rev_involutive a). rewrite Hq. apply rev_app_distr.
Qed.

(* in valid UTF-8, inside any infix m: the byte after an ASCII first byte is not a continuation byte *)
Lemma infix_boundary_1 : forall l pre m post q, l = pre ++ m ++ post -> utf8_valid l = true ->
  nth_error m 0 = Some q -> is_ascii q = true -> (2 <= length m)%nat -> is_char_boundary m 1 = true.
Proof.
  intros l pre m post q Hl Hv Hq Ha Hlen.
  unfold is_char_boundary. cbn [Nat.eqb].
  destruct (nth_error m 1) as [c|] eqn:E; [|apply nth_error_None in E; lia].
  pose proof (utf8_ascii_next_aux (length l) l (le_n _) Hv (length pre) q) as H.
  assert (H0 : nth_error l (length pre) = Some q).
  { rewrite Hl. rewrite nth_error_app2 by lia. rewrite Nat.sub_diag.
    rewrite nth_error_app1 by lia. exact Hq. }
  assert (H1 : nth_error l (S (length pre)) = Some c).
  { rewrite Hl. rewrite nth_error_app2 by lia. replace (S (length pre) - length pre)%nat with 1%nat by lia.
    rewrite nth_error_app1 by lia. exact E. }
  rewrite H1 in H. specialize (H H0). unfold is_ascii in Ha. lia.
Qed.

Lemma infix_boundary_after : forall l pre m post i q, l = pre ++ m ++ post -> utf8_valid l = true ->
  nth_error m i = Some q -> is_ascii q = true -> is_char_boundary m (S i) = true.
Proof.
  intros l pre m post i q Hl Hv Hq Ha.
  unfold is_char_boundary. change (S i =? 0)%nat with false. cbv iota.
  assert (Hi : (i < length m)%nat) by (apply nth_error_Some; congruence).
  destruct (nth_error m (S i)) as [c|] eqn:E.
  - pose proof (utf8_ascii_next_aux (length l) l (le_n _) Hv (length pre + i) q) as H.
    assert (Hsi : (S i < length m)%nat) by (apply nth_error_Some; congruence).
    assert (H0 : nth_error l (length pre + i) = Some q).
    { rewrite Hl. rewrite nth_error_app2 by lia. replace (length pre + i - length pre)%nat with i by lia.
      rewrite nth_error_app1 by lia. exact Hq. }
    assert (H1 : nth_error l (S (length pre + i)) = Some c).
    { rewrite Hl. rewrite nth_error_app2 by lia. replace (S (length pre + i) - length pre)%nat with (S i) by lia.
      rewrite nth_error_app1 by lia. exact E. }
    rewrite H1 in H. specialize (H H0). unfold is_ascii in Ha. lia.
  - apply nth_error_None in E. apply Nat.eqb_eq. unfold len. lia.
Qed.

Lemma first_is_nth : forall l b, first_is l b = true -> nth_error l 0 = Some b.
Proof. intros [|c r] b H; simpl in H; [discriminate|]. apply Z.eqb_eq in H. subst. reflexivity. Qed.

Lemma last_is_nth : forall l b, last_is l b = true -> nth_error l (length l - 1) = Some b /\ (1 <= length l)%nat.
Proof.
  intros l b H. unfold last_is in H. apply first_is_nth in H.
  induction l as [|x r _] using rev_ind; [discriminate|].
  rewrite rev_app_distr in H. simpl in H. inversion H; subst.
  rewrite app_length. simpl. split; [|lia].
  rewrite nth_error_app2 by lia. replace (length r + 1 - 1 - length r)%nat with 0%nat by lia. reflexivity.
Qed.

(* &s[1..len-1] after `starts_with(q1) && ends_with(q2)` with ASCII q1, q2 *)
Lemma strip_ends_ok : forall l s q1 q2, (exists pre post, l = pre ++ s ++ post) -> utf8_valid l = true ->
  first_is s q1 = true -> last_is s q2 = true -> is_ascii q1 = true -> is_ascii q2 = true ->
  (2 <= length s)%nat -> exists r, str_slice s 1 (length s - 1) = LOk r.
Proof.
  intros l s q1 q2 (pre & post & Hl) Hv H1 H2 Ha1 Ha2 Hlen.
  apply first_is_nth in H1. apply last_is_nth in H2. destruct H2 as [H2 _].
  apply str_slice_ok.
  - lia.
  - eapply infix_boundary_1; eauto.
  - eapply boundary_at_byte; [exact H2|]. unfold is_ascii in Ha2. lia.
Qed.

Lemma quoted_len2 : forall s, quoted s = true ->
  (2 <= length s)%nat /\ exists q, (q = 39 \/ q = 34) /\ first_is s q = true /\ last_is s q = true.
Proof.
  intros s Hq. unfold quoted in Hq. apply andb_prop in Hq as [Hlen Hq].
  apply Nat.leb_le in Hlen. split; [exact Hlen|].
  apply orb_prop in Hq as [Hq|Hq]; apply andb_prop in Hq as [Ha Hb].
  - exists 39. auto.
  - exists 34. auto.
Qed.

Lemma literal_parse_no_panic : forall l, utf8_valid l = true -> literal_parse l <> LPanic.
Proof.
  intros l Hv. unfold literal_parse.
  destruct (eq_ignore_case (trim l) [110; 117; 108; 108]); [discriminate|].
  destruct (eq_ignore_case (trim l) [116; 114; 117; 101]); [discriminate|].
  destruct (eq_ignore_case (trim l) [102; 97; 108; 115; 101]); [discriminate|].
  destruct (quoted (trim l)) eqn:Eq; [|discriminate].
  destruct (quoted_len2 _ Eq) as (Hlen & q & Hqq & Hf & Hla).
  destruct (strip_ends_ok l (trim l) q q (trim_infix l) Hv Hf Hla) as [r Hr]; try (destruct Hqq; subst; reflexivity); [exact Hlen|].
  rewrite Hr. discriminate.
Qed.

Lemma literal_parse_typed_text_no_panic : forall l, utf8_valid l = true -> literal_parse_typed_text l <> LPanic.
Proof.
  intros l Hv. unfold literal_parse_typed_text.
  destruct (quoted (trim l)) eqn:Eq; [|discriminate].
  destruct (quoted_len2 _ Eq) as (Hlen & q & Hqq & Hf & Hla).
  destruct (strip_ends_ok l (trim l) q q (trim_infix l) Hv Hf Hla) as [r Hr]; try (destruct Hqq; subst; reflexivity); [exact Hlen|].
  rewrite Hr. discriminate.
Qed.

Lemma parse_vector_no_panic : forall l, utf8_valid l = true -> parse_vector l <> LPanic.
Proof.
  intros l Hv. unfold parse_vector.
  destruct (first_is (trim l) 91 && last_is (trim l) 93) eqn:E.
  - apply andb_prop in E as [Hf Hla].
    assert (Hlen : (2 <= length (trim l))%nat).
    { destruct (trim l) as [|a [|b r]]; simpl; try lia.
      - discriminate.
      - unfold first_is, last_is in *. simpl in *. lia. }
    destruct (strip_ends_ok l (trim l) 91 93 (trim_infix l) Hv Hf Hla eq_refl eq_refl Hlen) as [r Hr].
    rewrite Hr. cbn [lbind]. destruct (trim r); discriminate.
  - cbn [lbind]. destruct (trim (trim l)); discriminate.
Qed.

(* ---------------------------------------------------------------- parse_time *)
Lemma find_byte_spec : forall b l i, find_byte b l = Some i -> nth_error l i = Some b /\ (i < length l)%nat.
Proof.
  intros b. induction l as [|c r IH]; intros i H; simpl in H; [discriminate|].
  destruct (c =? b) eqn:E.
  - inversion H; subst. apply Z.eqb_eq in E. subst. simpl. split; [reflexivity | lia].
  - destruct (find_byte b r) as [j|]; [|discriminate]. inversion H; subst.
    destruct (IH j eq_refl) as [H1 H2]. simpl. split; [exact H1 | lia].
Qed.

Lemma parse_time_no_panic : forall l, utf8_valid l = true -> parse_time l <> LPanic.
Proof.
  intros l Hv. unfold parse_time. set (s := trim l) in *.
  destruct (find_byte 46 s) as [idx|] eqn:Ef.
  - destruct (find_byte_spec _ _ _ Ef) as [Hdot Hlt].
    destruct (trim_infix l) as (pre & post & Hl). fold s in Hl.
    destruct (str_slice_ok s 0 idx) as [t Ht].
    + lia.
    + reflexivity.
    + eapply boundary_at_byte; [exact Hdot | lia].
    + destruct (str_slice_ok s (S idx) (length s)) as [f Hf].
      * lia.
      * eapply infix_boundary_after; eauto.
      * apply boundary_len.
      * rewrite Ht, Hf. cbn [lbind].
        destruct (split_on 58 [] t) as [|h [|m [|sec [|x r]]]]; try discriminate.
        destruct (u32_parse h); [|discriminate].
        destruct (u32_parse m); [|discriminate].
        destruct (u32_parse sec); [|discriminate].
        destruct (23 <? z); [discriminate|]. destruct (59 <? z0); [discriminate|]. destruct (59 <? z1); [discriminate|].
        destruct (has_non_ascii f) eqn:Hna; [discriminate|].
        pose proof (no_non_ascii_nth _ Hna) as Hfa.
        set (padded := f ++ repeat 48 (6 - char_count f)).
        destruct (str_slice_ok padded 0 (Nat.min 6 (length padded))) as [tr Htr].
        -- lia.
        -- reflexivity.
        -- apply ascii_boundary; [|lia]. apply all_ascii_app; [exact Hfa | apply all_ascii_repeat].
        -- rewrite Htr. cbn [lbind]. destruct (i64_parse tr); discriminate.
  - cbn [lbind].
    destruct (split_on 58 [] s) as [|h [|m [|sec [|x r]]]]; try discriminate.
    destruct (u32_parse h); [|discriminate].
    destruct (u32_parse m); [|discriminate].
    destruct (u32_parse sec); [|discriminate].
    destruct (23 <? z); [discriminate|]. destruct (59 <? z0); [discriminate|]. destruct (59 <? z1); discriminate.
Qed.

Lemma parse_uuid_no_panic : forall l, parse_uuid l <> LPanic.
Proof.
  intros l. unfold parse_uuid.
  destruct (negb _); [discriminate|].
  destruct (uuid_pairs _); discriminate.
Qed.

(* ---------------------------------------------------------------- all of them *)
Lemma of_bytes_panic : forall r, of_bytes r = LitPanic -> r = LPanic.
Proof. intros [b| |]; simpl; intros H; [discriminate | discriminate | reflexivity]. Qed.
Lemma of_class_panic : forall r, of_class r = LitPanic -> r = LPanic.
Proof. intros [b| |]; simpl; intros H; [discriminate | discriminate | reflexivity]. Qed.

Lemma literal_no_panic_l : forall f l, utf8_valid l = true -> run_lit f l <> Some LitPanic.
Proof.
  intros f l Hv Hr. unfold run_lit in Hr.
  destruct (f =? f_hex).
  { inversion Hr as [Hp]. apply of_bytes_panic in Hp. exact (hex_blob_no_panic l Hp). }
  destruct (f =? f_bin).
  { inversion Hr as [Hp]. apply of_bytes_panic in Hp. exact (binary_blob_no_panic l Hp). }
  destruct (f =? f_time).
  { inversion Hr as [Hp]. destruct (parse_time l) eqn:Et; try discriminate.
    exact (parse_time_no_panic l Hv Et). }
  destruct (f =? f_lp).
  { inversion Hr as [Hp]. apply of_class_panic in Hp. exact (literal_parse_no_panic l Hv Hp). }
  destruct (f =? f_lpt).
  { inversion Hr as [Hp]. apply of_class_panic in Hp. exact (literal_parse_typed_text_no_panic l Hv Hp). }
  destruct (f =? f_uuid).
  { inversion Hr as [Hp]. apply of_bytes_panic in Hp. exact (parse_uuid_no_panic l Hp). }
  destruct (f =? f_vector).
  { inversion Hr as [Hp]. apply of_class_panic in Hp. exact (parse_vector_no_panic l Hv Hp). }
  discriminate.
Qed.

(* historical: the witnesses of the fixed findings F-C22-1..4 (a-e-acute-a, seven zeros and e-acute,
   12:00:00.12345 followed by e-acute, a lone single quote, a lone double quote) panicked before
   /repo adf5bcc; in the repaired parsers they are errors / plain text *)
Lemma literal_former_witnesses_l :
  run_lit f_hex [97; 195; 169; 97] = Some LitErr /\
  run_lit f_bin [48; 48; 48; 48; 48; 48; 48; 195; 169] = Some LitErr /\
  run_lit f_time [49; 50; 58; 48; 48; 58; 48; 48; 46; 49; 50; 51; 52; 53; 195; 169] = Some LitErr /\
  run_lit f_lp [39] = Some (LitClass COther) /\
  run_lit f_lpt [34] = Some (LitClass (CText [34])).
Proof. vm_compute. repeat split; reflexivity. Qed.
