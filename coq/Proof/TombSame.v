(* C05 -- outside the recorded finding class the code as it is (`step false`) and the repaired
   mechanism (`step true`) do the same thing, statement by statement; and outside the FORMER
   classes the code before the repairs (`step_old`) did what the code does now. *)
From Coq Require Import ZArith List Bool Lia.
From TV Require Import Model.SqlSpec Model.DmlSpec Model.Tombstone Proof.SqlSpecLaws Proof.TombBase Proof.StmtAtomic.
Import ListNotations.
Open Scope Z_scope.

(* ------------------------------------------------------------------ selection *)
Lemma filter_no_del : forall (f : entry -> bool) es,
  existsb e_del (filter f es) = false -> filter (fun e => live e && f e) es = filter f es.
Proof.
  intros f es. induction es as [|e es IH]; cbn [filter]; intro H; [reflexivity|].
  destruct (f e) eqn:F.
  - cbn [existsb] in H. apply orb_false_iff in H. destruct H as [D H]. unfold live at 1. rewrite D. cbn [negb andb].
    rewrite IH by exact H. reflexivity.
  - rewrite andb_false_r. apply IH. exact H.
Qed.

Lemma select_same : forall sch w st,
  existsb e_del (select false sch w st) = false -> select true sch w st = select false sch w st.
Proof.
  intros sch w st H. unfold select in *. unfold pk_target in *.
  destruct (s_key sch); try (cbn [cand] in *; unfold scan; cbn [cand]; apply filter_no_del; exact H).
  destruct (pk_literal w) as [v|]; [|unfold scan; cbn [cand]; apply filter_no_del; exact H].
  destruct (idx_find v (kidx st)) as [id|]; [|unfold scan; cbn [cand]; apply filter_no_del; exact H].
  destruct (find_ent id (ents st)) as [e|]; [|unfold scan; cbn [cand]; apply filter_no_del; exact H].
  cbn [cand] in *. rewrite andb_true_r in H. destruct (value_eqb (e_key e) v) eqn:E; cbn [andb].
  - cbn [existsb] in H. rewrite orb_false_r in H. unfold live. rewrite H. reflexivity.
  - unfold scan. cbn [cand]. apply filter_no_del. exact H.
Qed.

(* ------------------------------------------------------------------ SET evaluation *)
Definition irel (a b : ires) : Prop := a = b \/ (a = IErr /\ b = IVal VNull).
Definition rrel (x y : rres) : Prop := x = y \/ (x = RowErr /\ exists r, y = ROk r).

Lemma rcons_rel : forall a b x y, irel a b -> rrel x y -> rrel (rcons a x) (rcons b y).
Proof.
  intros a b x y [->|[-> ->]] [->|[-> [r ->]]].
  - left. reflexivity.
  - destruct b; cbn [rcons]; [right; split; [reflexivity|eexists; reflexivity]|left; reflexivity|left; reflexivity].
  - destruct y; cbn [rcons]; [right; split; [reflexivity|eexists; reflexivity]|left; reflexivity|left; reflexivity].
  - cbn [rcons]. right. split; [reflexivity|eexists; reflexivity].
Qed.

Lemma assoc_set_in : forall sets i e, assoc_set i sets = Some e -> In (i, e) sets.
Proof.
  induction sets as [|[j e0] sets IH]; intros i e H; cbn [assoc_set] in H; [discriminate|].
  destruct (Nat.eqb i j) eqn:E.
  - apply Nat.eqb_eq in E. inversion H; subst. left. reflexivity.
  - right. apply IH. exact H.
Qed.

Lemma lit_cols_nth : forall sets cur i n,
  nth_error (lit_cols sets i cur) n =
  match nth_error cur n with
  | Some v => Some (match assoc_set (i + n) sets with Some (ELit x) => x | _ => v end)
  | None => None
  end.
Proof.
  intros sets. induction cur as [|v cur IH]; intros i n; cbn [lit_cols].
  - destruct n; reflexivity.
  - destruct n as [|n]; cbn [nth_error].
    + rewrite Nat.add_0_r. reflexivity.
    + rewrite IH. replace (S i + n)%nat with (i + S n)%nat by lia. reflexivity.
Qed.

(* a column that no literal assignment writes reads the same in the partly updated row *)
Lemma lit_cols_same : forall sets old j,
  (forall x, assoc_set j sets <> Some (ELit x)) ->
  nth_error (lit_cols sets 0 old) j = nth_error old j.
Proof.
  intros sets old j H. rewrite lit_cols_nth. cbn [Nat.add]. destruct (nth_error old j) as [v|]; [|reflexivity].
  destruct (assoc_set j sets) as [e|]; [|reflexivity]. destruct e; try reflexivity. exfalso. eapply H. reflexivity.
Qed.

Lemma no_mix_reads : forall sets i e j, sets_mix sets = false -> In (i, e) sets -> reads_col e j = true ->
  forall x, assoc_set j sets <> Some (ELit x).
Proof.
  intros sets i e j Hm Hin Hr x Ha. apply assoc_set_in in Ha.
  assert (X : sets_mix sets = true); [|congruence].
  unfold sets_mix. apply existsb_exists. exists (j, ELit x). split; [exact Ha|]. cbn [snd fst set_has_col negb andb].
  apply existsb_exists. exists (i, e). split; [exact Hin|]. cbn [snd]. rewrite Hr, andb_true_r.
  destruct e; try reflexivity. cbn in Hr. discriminate.
Qed.

Lemma ieval_feval : forall sch sets old i e, sets_mix sets = false -> In (i, e) sets -> set_ok sch (i, e) = true ->
  irel (ieval e (lit_cols sets 0 old)) (feval e old).
Proof.
  intros sch sets old i e Hm Hin Hok. unfold set_ok in Hok. cbn [fst snd] in Hok.
  destruct (ty_at sch i) as [ty|]; [|discriminate].
  destruct e; try (destruct ty; discriminate).
  - (* column *)
    cbn [ieval]. unfold feval. cbn [eval].
    rewrite (lit_cols_same sets old i0) by (eapply no_mix_reads; [exact Hm|exact Hin|cbn; apply Nat.eqb_refl]).
    left. destruct (nth_error old i0); reflexivity.
  - (* literal *) left. reflexivity.
  - (* column op integer *)
    destruct ty; try discriminate. destruct e1; try discriminate. destruct e2; try discriminate.
    destruct v; try discriminate.
    cbn [ieval]. unfold feval. cbn [eval].
    rewrite (lit_cols_same sets old i0) by (eapply no_mix_reads; [exact Hm|exact Hin|cbn; apply Nat.eqb_refl]).
    destruct (nth_error old i0) as [x|]; [|left; reflexivity].
    destruct x; cbn [arith_values]; try (left; reflexivity).
    + right. split; reflexivity.
    + destruct (i64_ok (arith_z op z0 z)); left; reflexivity.
Qed.

Lemma new_cols_rel : forall sch sets old, sets_mix sets = false -> forallb (set_ok sch) sets = true ->
  forall cur i, rrel (new_cols ieval sets (lit_cols sets 0 old) i cur) (new_cols feval sets old i cur).
Proof.
  intros sch sets old Hm Hok. induction cur as [|v cur IH]; intro i; cbn [new_cols]; [left; reflexivity|].
  apply rcons_rel; [|apply IH].
  destruct (assoc_set i sets) as [e|] eqn:A; [|left; reflexivity].
  apply assoc_set_in in A. eapply ieval_feval; [exact Hm|exact A|].
  rewrite forallb_forall in Hok. apply Hok. exact A.
Qed.
Lemma new_row_rel : forall sch sets old, sets_mix sets = false -> forallb (set_ok sch) sets = true ->
  rrel (new_row false sets old) (new_row true sets old).
Proof. intros. unfold new_row. eapply new_cols_rel; eassumption. Qed.

Definition urel (x y : ures) : Prop := (x = UUn <-> y = UUn) /\ (x <> UEvalErr -> x = y).

Lemma new_rows_rel : forall sch sets, sets_mix sets = false -> forallb (set_ok sch) sets = true ->
  forall sel, urel (new_rows false sch sets sel) (new_rows true sch sets sel).
Proof.
  intros sch sets Hm Hok. induction sel as [|e sel IH]; cbn [new_rows].
  - split; [tauto|reflexivity].
  - destruct IH as [IU IE].
    destruct (new_row_rel sch sets (e_row e) Hm Hok) as [R|[R [r2 R2]]].
    + rewrite <- R. destruct (new_row false sets (e_row e)) as [r2| |].
      * destruct (nn_ok sch r2).
        -- split.
           ++ destruct (new_rows false sch sets sel), (new_rows true sch sets sel); split; intro H; try discriminate; try reflexivity;
                try (apply IU in H; discriminate); try (apply IU; exact H);
                try (exfalso; assert (X : UUn = UUn) by reflexivity; apply IU in X; discriminate).
           ++ intro H. assert (G : new_rows false sch sets sel <> UEvalErr).
              { intro X. rewrite X in H. apply H. reflexivity. }
              rewrite <- (IE G). reflexivity.
        -- split.
           ++ destruct (new_rows false sch sets sel), (new_rows true sch sets sel); split; intro H; try discriminate; try reflexivity;
                try (exfalso; assert (X : UUn = UUn) by reflexivity; apply IU in X; discriminate).
           ++ intros _. destruct (new_rows false sch sets sel) eqn:X1, (new_rows true sch sets sel) eqn:X2; try reflexivity;
                try (exfalso; assert (X : UUn = UUn) by reflexivity; apply IU in X; discriminate).
      * split.
        -- destruct (new_rows false sch sets sel), (new_rows true sch sets sel); split; intro H; try discriminate; try reflexivity;
             try (exfalso; assert (X : UUn = UUn) by reflexivity; apply IU in X; discriminate).
        -- intro H. destruct (new_rows false sch sets sel) eqn:X1; try (exfalso; apply H; reflexivity).
           assert (X : UUn = UUn) by reflexivity. apply IU in X. rewrite X. reflexivity.
      * split; [tauto|reflexivity].
    + rewrite R, R2. split.
      * destruct (nn_ok sch r2);
          destruct (new_rows false sch sets sel), (new_rows true sch sets sel); split; intro H; try discriminate; try reflexivity;
            try (exfalso; assert (X : UUn = UUn) by reflexivity; apply IU in X; discriminate).
      * intro H. destruct (new_rows false sch sets sel) eqn:X1; try (exfalso; apply H; reflexivity).
        assert (X : UUn = UUn) by reflexivity. apply IU in X. rewrite X.
        destruct (nn_ok sch r2); reflexivity.
Qed.

(* ------------------------------------------------------------------ the statement *)
(* the code as it is and the code with the last proposed repair differ only on an INSERT that
   fails after its first row *)
Theorem step_same : forall sch st s, stmt_class sch st s = 0 -> step false sch st s = step true sch st s.
Proof.
  intros sch st s Hc. unfold stmt_class in Hc. destruct s as [rows ret|w ret|sets w ret| |]; cbn [step] in *;
    try reflexivity.
  unfold do_insert in *. destruct (forallb (row_known (s_tys sch)) rows); [|reflexivity].
  destruct (ins_loop sch st rows 0) as [[b s1] n] eqn:E. destruct b; [reflexivity|]. cbn [fst] in Hc.
  destruct (0 <? n) eqn:En; [discriminate|]. apply Z.ltb_ge in En.
  pose proof (ins_loop_count_ge _ _ _ _ _ _ _ E).
  rewrite (ins_loop_fail_first _ _ _ _ _ _ E) by lia. reflexivity.
Qed.

(* what the repairs 6de60fd / 42a3914 / dd7107b / 00edbdb changed: outside the former classes
   (no tombstone collected, no RETURNING on the one-pass path, no literal assignment read by
   another SET expression, no NULL arithmetic) the code before them did what the code does now *)
Definition old_class (sch : schema) (st : tstate) (s : stmt) : Z :=
  match s with
  | SDelete w _ => if existsb e_del (select false sch w st) then 1 else 0
  | SUpdate sets w ret =>
      if existsb e_del (select false sch w st) then 2
      else if ret && onepass sch sets w st then 5
      else if sets_mix sets then 6
      else match new_rows false sch sets (select false sch w st) with
           | UEvalErr => 7
           | _ => 0
           end
  | STruncate => if existsb e_del (ents st) then 3 else 0
  | _ => 0
  end.
Theorem step_old_same : forall sch st s, old_class sch st s = 0 -> step_old sch st s = step false sch st s.
Proof.
  intros sch st s Hc. unfold old_class in Hc. destruct s as [rows ret|w ret|sets w ret| |]; cbn [step step_old] in *;
    try reflexivity.
  - (* DELETE *)
    unfold do_delete in *. destruct (where_modelled w st); [|reflexivity].
    destruct (existsb e_del (select false sch w st)) eqn:D; [discriminate|].
    rewrite (select_same _ _ _ D). reflexivity.
  - (* UPDATE *)
    unfold do_update in *. destruct (where_modelled w st && sets_modelled sch sets) eqn:M; [|reflexivity].
    destruct (existsb e_del (select false sch w st)) eqn:D; [discriminate|].
    rewrite (select_same _ _ _ D).
    destruct (ret && onepass sch sets w st) eqn:OP; [discriminate|].
    destruct (sets_mix sets) eqn:MX; [discriminate|].
    apply andb_true_iff in M. destruct M as [_ M]. unfold sets_modelled in M.
    apply andb_true_iff in M. destruct M as [M _]. apply andb_true_iff in M. destruct M as [M _].
    apply andb_true_iff in M. destruct M as [M _].
    destruct (new_rows_rel sch sets MX M (select false sch w st)) as [RU RE].
    destruct (new_rows false sch sets (select false sch w st)) as [news| | |] eqn:NR.
    + rewrite <- RE by discriminate. cbn [negb andb].
      destruct (onepass sch sets w st); [|reflexivity].
      rewrite andb_true_r in OP. subst ret. reflexivity.
    + discriminate.
    + rewrite <- RE by discriminate. reflexivity.
    + assert (X : UUn = UUn) by reflexivity. apply RU in X. rewrite X. reflexivity.
  - (* TRUNCATE *)
    unfold do_truncate in *. destruct (existsb e_del (ents st)) eqn:D; [discriminate|].
    f_equal. f_equal. f_equal.
    assert (G : forall es, existsb e_del es = false -> filter (cand false) es = filter (cand true) es).
    { induction es as [|e es IH]; cbn [filter existsb cand]; intro H; [reflexivity|].
      apply orb_false_iff in H. destruct H as [De H]. unfold live. rewrite De. cbn [negb]. rewrite IH by exact H. reflexivity. }
    apply G. exact D.
Qed.

(* class 0 also means the statement is inside the modelled fragment *)
Lemma class0_modelled : forall sch st s, stmt_class sch st s = 0 -> fst (step false sch st s) <> RUnmod.
Proof.
  intros sch st s Hc H. unfold stmt_class in Hc. rewrite H in Hc. discriminate.
Qed.
