(* C31 model: row records (src/records/{schema,builder,view}.rs) and the OwnedValue glue
   (src/types/owned_value.rs: set_in_builder / build_record_into_buffer /
   from_record_column / extract_row_from_record), hand-modelled: the code works on Vec,
   &str and enums, outside the tools/rs2v.py subset.  Definitions only, no proofs.

   Faithful to the code AS IT IS (tree with the fixes b2f9dd3 and 43a41a5), including what it
   still gets wrong:
     * a Blob whose bytes look like a TOAST pointer comes back as ToastPointer;
     * the u16 end-offset accumulation overflows (dev profile: panic) above 65535 bytes.
   (Before b2f9dd3 record_column_count returned 0 for a record without payload bytes, and
   before 43a41a5 Float values were written with set_float8 into 4-byte Float4 columns.)
   Conventions: bytes are Z in [0,256); floats are their IEEE bit patterns (f64: u64,
   f32: u32); text is its UTF-8 bytes; nat only for list positions and fuel. *)
From Coq Require Import ZArith List Bool.
From TV Require Import Lib.MachInt.
Import ListNotations.
Open Scope Z_scope.

(* ------------------------------------------------------------------ outcomes *)
Inductive res (A : Type) := Ok (a : A) | Err | Panic.
Arguments Ok {A} a.
Arguments Err {A}.
Arguments Panic {A}.
Definition bind {A B} (r : res A) (f : A -> res B) : res B :=
  match r with Ok a => f a | Err => Err | Panic => Panic end.
Notation "x <- r ;; k" := (bind r (fun x => k)) (at level 61, r at next level, right associativity).

(* ------------------------------------------------------------------ types/data_type.rs *)
Inductive dtype :=
| TBool | TInt2 | TInt4 | TInt8 | TFloat4 | TFloat8 | TDate | TTime | TTimestamp | TTimestampTz
| TUuid | TMacAddr | TInet4 | TInet6 | TText | TBlob | TVector | TJsonb | TVarchar | TChar
| TDecimal | TInterval | TInt4Range | TInt8Range | TDateRange | TTimestampRange | TEnum
| TPoint | TBox | TCircle | TComposite | TArray.

(* DataType::fixed_size *)
Definition fixed_size (t : dtype) : option Z :=
  match t with
  | TBool => Some 1 | TInt2 => Some 2 | TInt4 => Some 4 | TInt8 => Some 8
  | TFloat4 => Some 4 | TFloat8 => Some 8 | TDate => Some 4 | TTime => Some 8
  | TTimestamp => Some 8 | TTimestampTz => Some 12 | TUuid => Some 16 | TMacAddr => Some 6
  | TInet4 => Some 4 | TInet6 => Some 16 | TInterval => Some 16 | TInt4Range => Some 9
  | TInt8Range => Some 17 | TDateRange => Some 9 | TTimestampRange => Some 17
  | TEnum => Some 4 | TPoint => Some 16 | TBox => Some 32 | TCircle => Some 24
  | TText | TBlob | TVector | TJsonb | TVarchar | TChar | TDecimal | TComposite | TArray => None
  end.
Definition fsz (t : dtype) : Z := match fixed_size t with Some s => s | None => 0 end.
Definition is_var (t : dtype) : bool := match fixed_size t with Some _ => false | None => true end.

(* ------------------------------------------------------------------ types/owned_value.rs: OwnedValue *)
Inductive value :=
| VNull
| VBool (b : bool)
| VInt (i : Z)                       (* i64 *)
| VFloat (bits : Z)                  (* f64 bit pattern *)
| VText (utf8 : list Z)
| VBlob (b : list Z)
| VVector (f32s : list Z)            (* f32 bit patterns *)
| VDate (d : Z)
| VTime (t : Z)
| VTimestamp (t : Z)
| VTimestampTz (t tz : Z)
| VUuid (b : list Z)
| VMacAddr (b : list Z)
| VInet4 (b : list Z)
| VInet6 (b : list Z)
| VInterval (micros days months : Z)
| VPoint (x y : Z)                   (* f64 bit patterns *)
| VBox (lx ly hx hy : Z)
| VCircle (cx cy r : Z)
| VJsonb (b : list Z)
| VDecimal (digits scale : Z)        (* i128, i16 *)
| VEnum (type_id ordinal : Z)        (* u16, u16 *)
| VToast (b : list Z).

(* ------------------------------------------------------------------ records/schema.rs *)
Definition schema := list dtype.     (* column names do not influence the format *)

(* Schema::new: one pass computing fixed_offsets, var_column_indices, total_fixed_size *)
Fixpoint fixed_offsets_from (off : Z) (cols : schema) : list Z :=
  match cols with [] => [] | t :: r => off :: fixed_offsets_from (off + fsz t) r end.
Fixpoint total_fixed (cols : schema) : Z :=
  match cols with [] => 0 | t :: r => fsz t + total_fixed r end.
Fixpoint var_indices_from (idx : Z) (cols : schema) : list Z :=
  match cols with
  | [] => []
  | t :: r => if is_var t then idx :: var_indices_from (idx + 1) r else var_indices_from (idx + 1) r
  end.
Definition fixed_offsets (s : schema) := fixed_offsets_from 0 s.
Definition var_indices (s : schema) := var_indices_from 0 s.
Definition ncols (s : schema) : Z := Z.of_nat (length s).
Definition nvar (s : schema) : Z := blen (var_indices s).
(* Schema::null_bitmap_size = column_count.div_ceil(8) *)
Definition bitmap_size (n : Z) : Z := (n + 7) / 8.

(* Schema::var_column_index: position of col in var_column_indices *)
Fixpoint position_from (k x : Z) (l : list Z) : option Z :=
  match l with [] => None | y :: r => if y =? x then Some k else position_from (k + 1) x r end.
Definition var_column_index (s : schema) (col : Z) : option Z := position_from 0 col (var_indices s).
(* Schema::fixed_offset: self.fixed_offsets[col_idx]  (indices are usize: never negative) *)
Definition fixed_offset (s : schema) (col : Z) : res Z :=
  match nth_error (fixed_offsets s) (Z.to_nat col) with Some o => Ok o | None => Panic end.
Definition column (s : schema) (col : Z) : option dtype := nth_error s (Z.to_nat col).

(* ------------------------------------------------------------------ records/builder.rs *)
(* column_values is write-only state: only the bounds check of `column_values[col_idx] = ..`
   is observable and is kept as [col <? ncols]. *)
Record bstate := mkB { nb : list Z; fd : list Z; vd : list (list Z) }.
Inductive bres := BOk (s : bstate) | BErr (s : bstate) | BPanic.

(* self.null_bitmap[col/8] |= 1 << (col%8) *)
Definition set_bit (bm : list Z) (i : Z) : res (list Z) :=
  let j := i / 8 in
  if bidx_ok bm j then Ok (bupd bm j (Z.lor (bidx bm j) (2 ^ (i mod 8)))) else Panic.
(* self.null_bitmap[col/8] &= !(1 << (col%8))      (u8: !x = 255 - x) *)
Definition clear_bit (bm : list Z) (i : Z) : res (list Z) :=
  let j := i / 8 in
  if bidx_ok bm j then Ok (bupd bm j (Z.land (bidx bm j) (255 - 2 ^ (i mod 8)))) else Panic.
(* for i in 0..column_count { null_bitmap[i/8] |= 1 << (i%8) } *)
Fixpoint set_bits_from (fuel : nat) (i : Z) (bm : list Z) : res (list Z) :=
  match fuel with
  | O => Ok bm
  | S f => bm' <- set_bit bm i ;; set_bits_from f (i + 1) bm'
  end.
Definition mark_all_null (s : schema) (bm : list Z) : res (list Z) := set_bits_from (length s) 0 bm.

(* RecordBuilder::new *)
Definition fresh (s : schema) : res bstate :=
  bm <- mark_all_null s (repeat 0 (Z.to_nat (bitmap_size (ncols s)))) ;;
  Ok (mkB bm (repeat 0 (Z.to_nat (total_fixed s))) (repeat [] (Z.to_nat (nvar s)))).

(* RecordBuilder::reset *)
Definition reset (s : schema) (st : bstate) : res bstate :=
  bm <- mark_all_null s (nb st) ;;
  Ok (mkB bm (repeat 0 (length (fd st))) (map (fun _ => []) (vd st))).

Fixpoint lupd {A} (l : list A) (i : nat) (v : A) : list A :=
  match l, i with
  | [], _ => []
  | _ :: t, O => v :: t
  | h :: t, S i' => h :: lupd t i' v
  end.

(* set_null *)
Definition set_null (s : schema) (st : bstate) (col : Z) : bres :=
  match set_bit (nb st) col with
  | Ok bm => if col <? ncols s then BOk (mkB bm (fd st) (vd st)) else BPanic
  | _ => BPanic
  end.

(* set_fixed_bytes and the multi-part fixed setters (timestamptz, interval, enum, point, box,
   circle): clear_null; offset = schema.fixed_offset(col); fixed_data[offset..offset+len]
   .copy_from_slice(bytes).  The multi-part setters copy consecutive sub-slices, which panics
   exactly when the single copy of the concatenation does. *)
(* dst[off..off+len(bytes)].copy_from_slice(bytes), for a range already checked *)
Definition splice (dst : list Z) (off : Z) (bytes : list Z) : list Z :=
  firstn (Z.to_nat off) dst ++ bytes ++ skipn (Z.to_nat off + length bytes) dst.

Definition set_fixed_bytes (s : schema) (st : bstate) (col : Z) (bytes : list Z) : bres :=
  match clear_bit (nb st) col with
  | Ok bm =>
      match fixed_offset s col with
      | Ok off =>
          if bslice_ok (fd st) off (off + blen bytes)
          then BOk (mkB bm (splice (fd st) off bytes) (vd st))
          else BPanic
      | _ => BPanic
      end
  | _ => BPanic
  end.

(* set_blob / set_text / set_vector / set_jsonb_bytes / set_decimal: clear_null;
   var_idx = schema.var_column_index(col).ok_or(..)?; var_data[var_idx] = bytes *)
Definition set_var_bytes (s : schema) (st : bstate) (col : Z) (bytes : list Z) : bres :=
  match clear_bit (nb st) col with
  | Ok bm =>
      match var_column_index s col with
      | Some k =>
          if k <? Z.of_nat (length (vd st))
          then BOk (mkB bm (fd st) (lupd (vd st) (Z.to_nat k) bytes))
          else BPanic
      | None => BErr (mkB bm (fd st) (vd st))
      end
  | _ => BPanic
  end.

Definition bool_byte (b : bool) : Z := if b then 1 else 0.
(* x.to_le_bytes() of an n-byte integer (two's complement for signed) *)
Definition le (n : nat) (x : Z) : list Z := le_bytes n (wrap_u (8 * Z.of_nat n) x).

(* set_vector payload: (len as u32) LE then each f32 LE *)
Definition vector_bytes (fs : list Z) : list Z := le 4 (blen fs) ++ flat_map (le 4) fs.
(* set_decimal payload: sign byte, scale i16 LE, digits i128 LE; is_negative = digits < 0 *)
Definition decimal_bytes (digits scale : Z) : list Z :=
  (if digits <? 0 then 128 else 0) :: le 2 scale ++ le 16 digits.

(* `value as f32` for an f64 bit pattern (x86-64 cvtsd2ss, default rounding: to nearest, ties
   to even; overflow to infinity; gradual underflow; NaNs quieted, top payload bits kept) *)
Definition round_shift (sig sh : Z) : Z :=
  let q := sig / 2 ^ sh in
  let r := sig mod 2 ^ sh in
  let half := 2 ^ (sh - 1) in
  if (r >? half) || ((r =? half) && Z.odd q) then q + 1 else q.
Definition f64_to_f32 (x : Z) : Z :=
  let sg := (x / 2 ^ 63) * 2 ^ 31 in
  let e := (x / 2 ^ 52) mod 2048 in
  let m := x mod 2 ^ 52 in
  if e =? 2047 then
    if m =? 0 then sg + 255 * 2 ^ 23 else sg + 255 * 2 ^ 23 + 2 ^ 22 + (m / 2 ^ 29) mod 2 ^ 22
  else if e =? 0 then sg
  else
    let ex := e - 1023 in
    let sh := if ex >=? -126 then 29 else 29 + (-126 - ex) in
    let base := if ex >=? -126 then (ex + 126) * 2 ^ 23 else 0 in
    let mag := base + round_shift (2 ^ 52 + m) sh in
    sg + (if mag >=? 255 * 2 ^ 23 then 255 * 2 ^ 23 else mag).

(* OwnedValue::set_in_builder (set_int_auto and set_float_auto inlined) *)
Definition set_in_builder (s : schema) (st : bstate) (col : Z) (v : value) : bres :=
  match v with
  | VNull => set_null s st col
  | VBool b => set_fixed_bytes s st col [bool_byte b]
  | VInt i =>
      match column s col with
      | Some TInt2 => set_fixed_bytes s st col (le 2 i)
      | Some TInt4 => set_fixed_bytes s st col (le 4 i)
      | Some TBool => set_fixed_bytes s st col [bool_byte (negb (i =? 0))]
      | _ => set_fixed_bytes s st col (le 8 i)
      end
  | VFloat bits =>
      match column s col with
      | Some TFloat4 => set_fixed_bytes s st col (le 4 (f64_to_f32 bits))   (* set_float4(value as f32) *)
      | _ => set_fixed_bytes s st col (le 8 bits)
      end
  | VText b => set_var_bytes s st col b
  | VBlob b => set_var_bytes s st col b
  | VVector fs => set_var_bytes s st col (vector_bytes fs)
  | VDate d => set_fixed_bytes s st col (le 4 d)
  | VTime t => set_fixed_bytes s st col (le 8 t)
  | VTimestamp t => set_fixed_bytes s st col (le 8 t)
  | VTimestampTz t tz => set_fixed_bytes s st col (le 8 t ++ le 4 tz)
  | VUuid b => set_fixed_bytes s st col b
  | VMacAddr b => set_fixed_bytes s st col b
  | VInet4 b => set_fixed_bytes s st col b
  | VInet6 b => set_fixed_bytes s st col b
  | VInterval mi d mo => set_fixed_bytes s st col (le 8 mi ++ le 4 d ++ le 4 mo)
  | VPoint x y => set_fixed_bytes s st col (le 8 x ++ le 8 y)
  | VBox a b c d => set_fixed_bytes s st col (le 8 a ++ le 8 b ++ le 8 c ++ le 8 d)
  | VCircle x y r => set_fixed_bytes s st col (le 8 x ++ le 8 y ++ le 8 r)
  | VJsonb b => set_var_bytes s st col b
  | VDecimal d sc => set_var_bytes s st col (decimal_bytes d sc)
  | VEnum t o => set_fixed_bytes s st col (le 2 t ++ le 2 o)
  | VToast b => set_var_bytes s st col b
  end.

(* for (idx, val) in values.iter().enumerate() { val.set_in_builder(builder, idx)?; } *)
Fixpoint set_row (s : schema) (st : bstate) (idx : Z) (row : list value) : bres :=
  match row with
  | [] => BOk st
  | v :: r =>
      match set_in_builder s st idx v with
      | BOk st' => set_row s st' (idx + 1) r
      | e => e
      end
  end.

(* build / build_into: var_offset: u16; var_offset += var.len() as u16 (checked add) *)
Fixpoint offset_table (vs : list (list Z)) (acc : Z) : res (list Z) :=
  match vs with
  | [] => Ok []
  | v :: r =>
      let acc' := acc + wrap_u 16 (blen v) in
      if acc' <? 65536 then rest <- offset_table r acc' ;; Ok (le_bytes 2 acc' ++ rest) else Panic
  end.
Definition header_len_of (s : schema) (st : bstate) : Z := 2 + blen (nb st) + nvar s * 2.
Definition build (s : schema) (st : bstate) : res (list Z) :=
  ot <- offset_table (vd st) 0 ;;
  Ok (le_bytes 2 (wrap_u 16 (header_len_of s st)) ++ nb st ++ ot ++ fd st ++ concat (vd st)).

(* OwnedValue::build_record_into_buffer(values, builder, buffer): the builder state left
   behind (None after a panic) and the result *)
Definition build_record_into_buffer (s : schema) (st : bstate) (row : list value)
  : option bstate * res (list Z) :=
  match reset s st with
  | Ok st1 =>
      match set_row s st1 0 row with
      | BOk st2 => (Some st2, build s st2)
      | BErr st2 => (Some st2, Err)
      | BPanic => (None, Panic)
      end
  | _ => (None, Panic)
  end.

(* a new builder used once *)
Definition build_fresh (s : schema) (row : list value) : res (list Z) :=
  match fresh s with
  | Ok st0 => snd (build_record_into_buffer s st0 row)
  | _ => Panic
  end.

(* builder states a caller can hold: new, or left behind by an earlier call that returned *)
Inductive reachable (s : schema) : bstate -> Prop :=
| R_fresh : forall st, fresh s = Ok st -> reachable s st
| R_step : forall st row st' r,
    reachable s st -> build_record_into_buffer s st row = (Some st', r) -> reachable s st'.

(* ------------------------------------------------------------------ records/view.rs *)
(* RecordView::new *)
Definition view_new (data : list Z) : res unit := if blen data <? 2 then Err else Ok tt.
(* u16::from_le_bytes([data[0], data[1]]) *)
Definition header_len (data : list Z) : res Z :=
  if bidx_ok data 1 then Ok (bidx data 0 + 256 * bidx data 1) else Panic.
Definition rd (data : list Z) (lo hi : Z) : res (list Z) :=
  if bslice_ok data lo hi then Ok (bslice data lo hi) else Panic.

(* record_column_count *)
Fixpoint rcc_loop (cols : schema) (consumed avail count : Z) : Z :=
  match cols with
  | [] => count
  | t :: r =>
      match fixed_size t with
      | Some sz => if consumed + sz >? avail then count else rcc_loop r (consumed + sz) avail (count + 1)
      | None => rcc_loop r consumed avail (count + 1)
      end
  end.
Definition record_column_count (s : schema) (data : list Z) : res Z :=
  hl <- header_len data ;;
  if blen data <? hl then Ok 0 else Ok (rcc_loop s 0 (blen data - hl) 0).

(* is_null: (null_bitmap()[col/8] & (1 << (col%8))) != 0 *)
Definition is_null (s : schema) (data : list Z) (col : Z) : res bool :=
  bm <- rd data 2 (2 + bitmap_size (ncols s)) ;;
  if bidx_ok bm (col / 8) then Ok (negb (Z.land (bidx bm (col / 8)) (2 ^ (col mod 8)) =? 0)) else Panic.
Definition is_null_or_missing (s : schema) (data : list Z) (col : Z) : res bool :=
  n <- record_column_count s data ;;
  if col >=? n then Ok true else is_null s data col.

(* get_fixed_col_offset + self.data[offset..offset+n] *)
Definition get_fixed (s : schema) (data : list Z) (col n : Z) : res (list Z) :=
  hl <- header_len data ;;
  off <- fixed_offset s col ;;
  rd data (hl + off) (hl + off + n).

Definition u16_at (t : list Z) (i : Z) : res Z :=
  if bidx_ok t i && bidx_ok t (i + 1) then Ok (bidx t i + 256 * bidx t (i + 1)) else Panic.
(* get_var_bounds *)
Definition get_var_bounds (s : schema) (data : list Z) (col : Z) : res (Z * Z) :=
  match var_column_index s col with
  | None => Err
  | Some k =>
      let ts := 2 + bitmap_size (ncols s) in
      tab <- rd data ts (ts + nvar s * 2) ;;
      hl <- header_len data ;;
      let vstart := hl + total_fixed s in
      e <- u16_at tab (k * 2) ;;
      st <- (if k =? 0 then Ok 0 else u16_at tab ((k - 1) * 2)) ;;
      Ok (vstart + st, vstart + e)
  end.
(* get_blob: &self.data[start..end] *)
Definition get_blob (s : schema) (data : list Z) (col : Z) : res (list Z) :=
  be <- get_var_bounds s data col ;;
  rd data (fst be) (snd be).

Definition sle (bits : Z) (b : list Z) : Z := wrap_s bits (from_le b).

(* `f as f64` for an f32 bit pattern (x86-64 cvtss2sd: NaNs are quieted, payload kept) *)
Definition f32_to_f64 (x : Z) : Z :=
  let sg := (x / 2 ^ 31) * 2 ^ 63 in
  let e := (x / 2 ^ 23) mod 256 in
  let m := x mod 2 ^ 23 in
  if e =? 0 then
    if m =? 0 then sg
    else let k := Z.log2 m in sg + (k - 149 + 1023) * 2 ^ 52 + (m - 2 ^ k) * 2 ^ (52 - k)
  else if e =? 255 then
    if m =? 0 then sg + 2047 * 2 ^ 52 else sg + 2047 * 2 ^ 52 + 2 ^ 51 + (m mod 2 ^ 22) * 2 ^ 29
  else sg + (e - 127 + 1023) * 2 ^ 52 + m * 2 ^ 29.

(* storage/toast.rs is_toast_pointer: len == 17 && data[0] == 0xFE *)
Definition is_toast (b : list Z) : bool := (blen b =? 17) && (bidx b 0 =? 254).

Fixpoint chunks4 (n : nat) (b : list Z) : list Z :=
  match n with O => [] | S n' => from_le (firstn 4 b) :: chunks4 n' (skipn 4 b) end.

(* decoders of the fixed-width getters, applied to the n bytes read at the column offset *)
Definition fixed_getter (t : dtype) : option (Z * (list Z -> value)) :=
  match t with
  | TInt8 => Some (8, fun b => VInt (sle 64 b))
  | TInt4 => Some (4, fun b => VInt (sle 32 b))
  | TInt2 => Some (2, fun b => VInt (sle 16 b))
  | TFloat8 => Some (8, fun b => VFloat (from_le b))
  | TFloat4 => Some (4, fun b => VFloat (f32_to_f64 (from_le b)))
  | TBool => Some (1, fun b => VBool (negb (bidx b 0 =? 0)))
  | TDate => Some (4, fun b => VDate (sle 32 b))
  | TTime => Some (8, fun b => VTime (sle 64 b))
  | TTimestamp => Some (8, fun b => VTimestamp (sle 64 b))
  | TTimestampTz => Some (12, fun b => VTimestampTz (sle 64 (bslice b 0 8)) (sle 32 (bslice b 8 12)))
  | TUuid => Some (16, fun b => VUuid b)
  | TMacAddr => Some (6, fun b => VMacAddr b)
  | TInet4 => Some (4, fun b => VInet4 b)
  | TInet6 => Some (16, fun b => VInet6 b)
  | TInterval => Some (16, fun b => VInterval (sle 64 (bslice b 0 8)) (sle 32 (bslice b 8 12)) (sle 32 (bslice b 12 16)))
  | TPoint => Some (16, fun b => VPoint (from_le (bslice b 0 8)) (from_le (bslice b 8 16)))
  | TBox => Some (32, fun b => VBox (from_le (bslice b 0 8)) (from_le (bslice b 8 16))
                                   (from_le (bslice b 16 24)) (from_le (bslice b 24 32)))
  | TCircle => Some (24, fun b => VCircle (from_le (bslice b 0 8)) (from_le (bslice b 8 16)) (from_le (bslice b 16 24)))
  | TEnum => Some (4, fun b => VEnum (from_le (bslice b 0 2)) (from_le (bslice b 2 4)))
  | _ => None
  end.

(* the variable-width arms of from_record_column, applied to the bytes of get_blob.
   String::from_utf8_lossy is the identity on valid UTF-8, which is all a record built from
   a Rust String can hold; it is modelled as the identity (named in the trusted base). *)
Definition var_decode (t : dtype) (b : list Z) : res value :=
  match t with
  | TText | TVarchar | TChar => Ok (if is_toast b then VToast b else VText b)
  | TBlob => Ok (if is_toast b then VToast b else VBlob b)
  | TVector =>
      if blen b <? 4 then Err
      else let n := from_le (bslice b 0 4) in
           if blen b =? 4 + n * 4 then Ok (VVector (chunks4 (Z.to_nat n) (skipn 4 b))) else Err
  | TJsonb => if blen b <? 4 then Err else Ok (VJsonb b)
  | TDecimal =>
      Ok (VDecimal (if blen b <? 19 then 0 else sle 128 (bslice b 3 19))
                   (if blen b <? 3 then 0 else sle 16 (bslice b 1 3)))
  | _ => Ok (VBlob b)      (* ranges (get_blob_opt on a fixed column: Err before this), Composite, Array *)
  end.

(* OwnedValue::from_record_column *)
Definition from_record_column (s : schema) (data : list Z) (col : Z) (t : dtype) : res value :=
  m <- is_null_or_missing s data col ;;
  if (m : bool) then Ok VNull
  else match fixed_getter t with
       | Some (n, dec) => b <- get_fixed s data col n ;; Ok (dec b)
       | None => b <- get_blob s data col ;; var_decode t b
       end.

Fixpoint extract_from (s : schema) (data : list Z) (idx : Z) (cols : schema) : res (list value) :=
  match cols with
  | [] => Ok []
  | t :: r =>
      v <- from_record_column s data idx t ;;
      vs <- extract_from s data (idx + 1) r ;;
      Ok (v :: vs)
  end.
(* RecordView::new(data, schema)? then OwnedValue::extract_row_from_record(view, columns) *)
Definition extract (s : schema) (data : list Z) : res (list value) :=
  _ <- view_new data ;; extract_from s data 0 s.

(* ------------------------------------------------------------------ the property's vocabulary *)
(* UTF-8 well-formedness (Unicode table 3-7), what a Rust String guarantees *)
Definition cont (x : Z) : bool := (128 <=? x) && (x <=? 191).
Fixpoint utf8_ok_fuel (fuel : nat) (b : list Z) : bool :=
  match fuel with
  | O => false
  | S f =>
      match b with
      | [] => true
      | x :: r =>
          if (0 <=? x) && (x <=? 127) then utf8_ok_fuel f r
          else if (194 <=? x) && (x <=? 223) then
            match r with c1 :: r' => cont c1 && utf8_ok_fuel f r' | _ => false end
          else if (224 <=? x) && (x <=? 239) then
            match r with
            | c1 :: c2 :: r' =>
                (if x =? 224 then (160 <=? c1) && (c1 <=? 191)
                 else if x =? 237 then (128 <=? c1) && (c1 <=? 159) else cont c1)
                && cont c2 && utf8_ok_fuel f r'
            | _ => false
            end
          else if (240 <=? x) && (x <=? 244) then
            match r with
            | c1 :: c2 :: c3 :: r' =>
                (if x =? 240 then (144 <=? c1) && (c1 <=? 191)
                 else if x =? 244 then (128 <=? c1) && (c1 <=? 143) else cont c1)
                && cont c2 && cont c3 && utf8_ok_fuel f r'
            | _ => false
            end
          else false
      end
  end.
Definition utf8_ok (b : list Z) : bool := utf8_ok_fuel (S (length b)) b.

Definition f64_ok (x : Z) : bool := in_u 64 x.
(* Float values that fit a Float4 column: the f64 bit patterns that are the exact widening of
   a zero, an infinity or a NORMAL f32 (exponent 897..1150, low 29 mantissa bits zero).  These
   are stored as `value as f32` and read back as `f32 as f64` unchanged.  Every other f64 is
   rounded by the store (nearest-even, overflow to inf, underflow) and does not come back.
   Left out of the demanded domain although they do come back on this hardware: f64 values that
   are exact SUBNORMAL f32 values, and NaNs (payload handling is the CPU's). *)
Definition f32_representable (x : Z) : bool :=
  in_u 64 x &&
  let e := (x / 2 ^ 52) mod 2048 in
  let m := x mod 2 ^ 52 in
  ((e =? 0) && (m =? 0)) || ((e =? 2047) && (m =? 0)) ||
  ((897 <=? e) && (e <=? 1150) && (m mod 2 ^ 29 =? 0)).

(* "a value that fits a column of type t": the OwnedValue variant from_record_column
   produces for t, within the width of t; NULL fits every column *)
Definition fits (t : dtype) (v : value) : bool :=
  match v, t with
  | VNull, _ => true
  | VBool _, TBool => true
  | VInt i, TInt2 => in_s 16 i
  | VInt i, TInt4 => in_s 32 i
  | VInt i, TInt8 => in_s 64 i
  | VFloat x, TFloat8 => f64_ok x
  | VFloat x, TFloat4 => f32_representable x
  | VText b, (TText | TVarchar | TChar) => bytes_ok b && utf8_ok b
  | VToast b, (TText | TVarchar | TChar | TBlob) => bytes_ok b && is_toast b
  | VBlob b, (TBlob | TComposite | TArray) => bytes_ok b
  | VVector fs, TVector => forallb (in_u 32) fs
  | VDate d, TDate => in_s 32 d
  | VTime t', TTime => in_s 64 t'
  | VTimestamp t', TTimestamp => in_s 64 t'
  | VTimestampTz t' tz, TTimestampTz => in_s 64 t' && in_s 32 tz
  | VUuid b, TUuid => bytes_ok b && (blen b =? 16)
  | VMacAddr b, TMacAddr => bytes_ok b && (blen b =? 6)
  | VInet4 b, TInet4 => bytes_ok b && (blen b =? 4)
  | VInet6 b, TInet6 => bytes_ok b && (blen b =? 16)
  | VInterval mi d mo, TInterval => in_s 64 mi && in_s 32 d && in_s 32 mo
  | VPoint x y, TPoint => f64_ok x && f64_ok y
  | VBox a b c d, TBox => f64_ok a && f64_ok b && f64_ok c && f64_ok d
  | VCircle x y r, TCircle => f64_ok x && f64_ok y && f64_ok r
  | VJsonb b, TJsonb => bytes_ok b && (4 <=? blen b)
  | VDecimal d sc, TDecimal => in_s 128 d && in_s 16 sc
  | VEnum a o, TEnum => in_u 16 a && in_u 16 o
  | _, _ => false
  end.

(* bytes a value occupies in the variable area *)
Definition var_len (v : value) : Z :=
  match v with
  | VText b | VBlob b | VJsonb b | VToast b => blen b
  | VVector fs => 4 + 4 * blen fs
  | VDecimal _ _ => 19
  | _ => 0
  end.
Fixpoint fits_cols (s : schema) (row : list value) : bool :=
  match s, row with
  | [], [] => true
  | t :: s', v :: r => fits t v && fits_cols s' r
  | _, _ => false
  end.
Fixpoint total_var (s : schema) (row : list value) : Z :=
  match s, row with
  | t :: s', v :: r => (if is_var t then var_len v else 0) + total_var s' r
  | _, _ => 0
  end.
(* the format's own limits: u16 header length, u16 end offsets *)
Definition schema_ok (s : schema) : bool := 2 + bitmap_size (ncols s) + nvar s * 2 <? 65536.
Definition fits_row (s : schema) (row : list value) : bool :=
  fits_cols s row && (total_var s row <? 65536).

Definition is_vnull (v : value) : bool := match v with VNull => true | _ => false end.

(* Recorded defect of the tree (known_findings.d/C31.json), as a class of (schema, row):
     3  a 17-byte Blob starting 0xFE in a Blob column: read back as ToastPointer.
   Classes 1 (record without payload bytes read as all NULL) and 2 (Float4 written as 8
   bytes) were repaired by b2f9dd3 and 43a41a5 and no longer exist. *)
Fixpoint has_toast_blob (s : schema) (row : list value) : bool :=
  match s, row with
  | t :: s', v :: r =>
      (match t, v with TBlob, VBlob b => is_toast b | _, _ => false end) || has_toast_blob s' r
  | _, _ => false
  end.
Definition known_class (s : schema) (row : list value) : Z :=
  if has_toast_blob s row then 3 else 0.
