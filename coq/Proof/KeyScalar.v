(* C26 proofs, part 2: the class (type-prefix) order and the non-nesting, non-JSON scalar
   encoders: order with arbitrary continuations, and decode after encode. *)
From Coq Require Import ZArith List Bool Lia ZifyBool.
From TV Require Import Lib.MachInt Lib.MachIntFacts Gen.KeyPrefix Model.KeySpec Model.Key Model.KeyKnown
  Proof.KeyBytes.
Import ListNotations.
Open Scope Z_scope.

Ltac Zify.zify_post_hook ::= Z.to_euclidean_division_equations.

(* ------------------------------------------------------------------ class -> prefix byte *)
Definition P (c : Z) : Z :=
  match c with
  | 0 => KP_NULL | 1 => KP_FALSE | 2 => KP_TRUE
  | 3 => KP_NEG_INFINITY | 4 => KP_NEG_INT | 5 => KP_NEG_FLOAT | 6 => KP_ZERO | 7 => KP_POS_FLOAT
  | 8 => KP_POS_INT | 9 => KP_POS_INFINITY | 10 => KP_NAN
  | 11 => KP_TEXT | 12 => KP_BLOB | 13 => KP_DATE | 14 => KP_TIME | 15 => KP_TIMESTAMP
  | 16 => KP_TIMESTAMPTZ | 17 => KP_INTERVAL | 18 => KP_UUID | 19 => KP_INET | 20 => KP_MACADDR
  | 21 => KP_JSON_NULL | 22 => KP_JSON_FALSE | 23 => KP_JSON_TRUE | 24 => KP_JSON_NUMBER
  | 25 => KP_JSON_STRING | 26 => KP_JSON_ARRAY | 27 => KP_JSON_OBJECT
  | 28 => KP_ARRAY | 29 => KP_TUPLE | 30 => KP_RANGE | 31 => KP_ENUM | 32 => KP_COMPOSITE
  | 33 => KP_DOMAIN | 34 => KP_VECTOR
  | _ => 0
  end.

Definition classes : list Z := map Z.of_nat (seq 0 35).

Lemma classes_in c : 0 <= c <= 34 -> In c classes.
Proof.
  intros H. unfold classes. replace c with (Z.of_nat (Z.to_nat c)) by lia.
  apply in_map. apply in_seq. lia.
Qed.

Definition cmp_eqb (a b : comparison) : bool :=
  match a, b with Eq, Eq | Lt, Lt | Gt, Gt => true | _, _ => false end.
Lemma cmp_eqb_eq a b : cmp_eqb a b = true -> a = b.
Proof. destruct a, b; cbn; congruence. Qed.

(* the prefix bytes are ordered like the documented classes, and are all positive *)
Lemma P_mono c1 c2 : 0 <= c1 <= 34 -> 0 <= c2 <= 34 -> (P c1 ?= P c2) = (c1 ?= c2).
Proof.
  intros H1 H2.
  assert (Hall : forallb (fun a => forallb (fun b => cmp_eqb (P a ?= P b) (a ?= b)) classes) classes = true)
    by (vm_compute; reflexivity).
  rewrite forallb_forall in Hall. specialize (Hall c1 (classes_in c1 H1)).
  rewrite forallb_forall in Hall. specialize (Hall c2 (classes_in c2 H2)).
  apply cmp_eqb_eq. exact Hall.
Qed.

Lemma P_pos c : 0 <= c <= 34 -> 0 < P c < 256.
Proof.
  intros H.
  assert (Hall : forallb (fun a => (0 <? P a) && (P a <? 256)) classes = true) by (vm_compute; reflexivity).
  rewrite forallb_forall in Hall. specialize (Hall c (classes_in c H)). lia.
Qed.

(* ------------------------------------------------------------------ float pattern facts *)
Lemma split64 b : in_u 64 b = true ->
  0 <= mag64 b < SIGN64 /\ b = (if neg64 b then SIGN64 else 0) + mag64 b.
Proof.
  intros H. apply in_u_true in H. unfold mag64, neg64, SIGN64.
  change (2 ^ 64) with 18446744073709551616 in H.
  destruct (Z.leb_spec 9223372036854775808 b); lia.
Qed.

Lemma split32 b : in_u 32 b = true ->
  0 <= mag32 b < SIGN32 /\ b = (if neg32 b then SIGN32 else 0) + mag32 b.
Proof.
  intros H. apply in_u_true in H. unfold mag32, neg32, SIGN32.
  change (2 ^ 32) with 4294967296 in H.
  destruct (Z.leb_spec 2147483648 b); lia.
Qed.

Lemma jkind_range j : 0 <= jkind j <= 6.
Proof. destruct j as [| [] | | | |]; cbn; lia. Qed.

Lemma fclass_range b : 3 <= fclass b <= 10.
Proof. unfold fclass. repeat match goal with |- context [if ?c then _ else _] => destruct c end; lia. Qed.

Lemma sclass_range s : 0 <= sclass s <= 34.
Proof.
  destruct s; cbn [sclass]; try lia.
  - destruct b; lia.
  - destruct (n <? 0); [lia|]. destruct (n =? 0); lia.
  - pose proof (fclass_range bits). lia.
  - pose proof (jkind_range j). lia.
Qed.

Lemma jenc_head j : exists t, jenc j = P (21 + jkind j) :: t.
Proof. destruct j as [| [] | | | |]; cbn [jenc jkind]; eexists; reflexivity. Qed.

(* every encoding starts with the prefix byte of its class *)
Lemma senc_head s : swf s = true -> exists t, senc s = P (sclass s) :: t.
Proof.
  intros W. destruct s; cbn [senc sclass]; try (eexists; reflexivity); try discriminate.
  - destruct b; eexists; reflexivity.
  - unfold enc_int. destruct (n <? 0); [eexists; reflexivity|]. destruct (n =? 0); eexists; reflexivity.
  - cbn [swf] in W. destruct (split64 bits W) as [Hm Hb].
    unfold enc_float, fclass, lt0_64.
    destruct (is_nan64 bits) eqn:En; [eexists; reflexivity|].
    unfold is_nan64 in En. unfold INF64, SIGN64 in *.
    destruct (neg64 bits) eqn:Es;
      repeat match goal with |- context [if ?c then _ else _] => destruct c eqn:? end;
      try (eexists; reflexivity); exfalso; cbn [andb negb] in *; lia.
  - apply jenc_head.
Qed.

(* different classes: the first byte decides, whatever follows *)
Lemma class_decides c1 c2 t1 t2 : 0 <= c1 <= 34 -> 0 <= c2 <= 34 -> c1 <> c2 ->
  lex_cmp (P c1 :: t1) (P c2 :: t2) = (c1 ?= c2).
Proof.
  intros H1 H2 N. cbn [lex_cmp]. rewrite P_mono by assumption.
  destruct (Z.compare_spec c1 c2); try reflexivity. contradiction.
Qed.

(* ------------------------------------------------------------------ fixed-width fields *)
Lemma field_ord n x y r1 r2 : 0 <= x < 256 ^ Z.of_nat n -> 0 <= y < 256 ^ Z.of_nat n ->
  lex_cmp (be_bytes n x ++ r1) (be_bytes n y ++ r2) = cthen (x ?= y) (lex_cmp r1 r2).
Proof.
  intros Hx Hy. rewrite lex_cmp_app by (rewrite !be_bytes_length; reflexivity).
  rewrite be_bytes_cmp by assumption. reflexivity.
Qed.

Lemma pfx_same p u1 u2 : lex_cmp (p :: u1) (p :: u2) = lex_cmp u1 u2.
Proof. cbn [lex_cmp]. rewrite Z.compare_refl. reflexivity. Qed.

Ltac cmp_shift :=
  match goal with
  | |- (?a ?= ?b) = (?c ?= ?d) =>
      destruct (Z.compare_spec c d);
      [apply Z.compare_eq_iff | apply Z.compare_lt_iff | apply Z.compare_gt_iff]; lia
  end.

Ltac pows :=
  change (64 - 1) with 63 in *; change (32 - 1) with 31 in *; change (16 - 1) with 15 in *;
  change (2 ^ 64) with 18446744073709551616 in *; change (2 ^ 63) with 9223372036854775808 in *;
  change (2 ^ 32) with 4294967296 in *; change (2 ^ 31) with 2147483648 in *;
  change (2 ^ 16) with 65536 in *; change (2 ^ 15) with 32768 in *; change (2 ^ 8) with 256 in *;
  change (256 ^ Z.of_nat 8) with 18446744073709551616 in *;
  change (256 ^ Z.of_nat 4) with 4294967296 in *;
  change (256 ^ Z.of_nat 2) with 65536 in *.

(* a signed N-bit field, biased, big-endian *)
Lemma sfield_ord (n : nat) bits x y r1 r2 :
  0 < bits -> 2 ^ bits = 256 ^ Z.of_nat n ->
  in_s bits x = true -> in_s bits y = true ->
  lex_cmp (be_bytes n (bias bits x) ++ r1) (be_bytes n (bias bits y) ++ r2) = cthen (x ?= y) (lex_cmp r1 r2).
Proof.
  intros Hb Hp Hx Hy. apply in_s_true in Hx, Hy.
  assert (H2 : 2 ^ bits = 2 * 2 ^ (bits - 1)).
  { replace bits with (1 + (bits - 1)) at 1 by lia. rewrite Z.pow_add_r by lia. reflexivity. }
  rewrite !bias_signed by assumption.
  rewrite field_ord by lia. f_equal. cmp_shift.
Qed.

Lemma sfield64 x y r1 r2 : in_s 64 x = true -> in_s 64 y = true ->
  lex_cmp (be_bytes 8 (bias 64 x) ++ r1) (be_bytes 8 (bias 64 y) ++ r2) = cthen (x ?= y) (lex_cmp r1 r2).
Proof. apply sfield_ord; [lia | reflexivity]. Qed.
Lemma sfield32 x y r1 r2 : in_s 32 x = true -> in_s 32 y = true ->
  lex_cmp (be_bytes 4 (bias 32 x) ++ r1) (be_bytes 4 (bias 32 y) ++ r2) = cthen (x ?= y) (lex_cmp r1 r2).
Proof. apply sfield_ord; [lia | reflexivity]. Qed.
Lemma sfield16 x y r1 r2 : in_s 16 x = true -> in_s 16 y = true ->
  lex_cmp (be_bytes 2 (bias 16 x) ++ r1) (be_bytes 2 (bias 16 y) ++ r2) = cthen (x ?= y) (lex_cmp r1 r2).
Proof. apply sfield_ord; [lia | reflexivity]. Qed.
Lemma ufield32 x y r1 r2 : in_u 32 x = true -> in_u 32 y = true ->
  lex_cmp (be_bytes 4 x ++ r1) (be_bytes 4 y ++ r2) = cthen (x ?= y) (lex_cmp r1 r2).
Proof. intros Hx Hy. apply in_u_true in Hx, Hy. pows. apply field_ord; pows; lia. Qed.

(* ------------------------------------------------------------------ vector components / JSON numbers *)
Lemma venc_tot b : in_u 32 b = true -> venc b = tot32 b + SIGN32.
Proof.
  intros W. destruct (split32 b W) as [Hm Hb].
  unfold venc, tot32, bnot, flip in *. unfold SIGN32 in *. pows.
  destruct (neg32 b) eqn:Es.
  - lia.
  - destruct (b <? 2147483648) eqn:C; lia.
Qed.

Lemma jnenc_tot b : in_u 64 b = true -> jnenc b = tot64 b + SIGN64.
Proof.
  intros W. destruct (split64 b W) as [Hm Hb].
  unfold jnenc, tot64, bnot, flip in *. unfold SIGN64 in *. pows.
  destruct (neg64 b) eqn:Es.
  - lia.
  - destruct (b <? 9223372036854775808) eqn:C; lia.
Qed.

Lemma tot32_range b : in_u 32 b = true -> 0 <= tot32 b + SIGN32 < 256 ^ Z.of_nat 4.
Proof.
  intros W. destruct (split32 b W) as [Hm Hb]. unfold tot32, SIGN32 in *. pows.
  destruct (neg32 b); lia.
Qed.
Lemma tot64_range b : in_u 64 b = true -> 0 <= tot64 b + SIGN64 < 256 ^ Z.of_nat 8.
Proof.
  intros W. destruct (split64 b W) as [Hm Hb]. unfold tot64, SIGN64 in *. pows.
  destruct (neg64 b); lia.
Qed.

Lemma vcomp_ord p q r1 r2 : in_u 32 p = true -> in_u 32 q = true ->
  lex_cmp (be_bytes 4 (venc p) ++ r1) (be_bytes 4 (venc q) ++ r2) = cthen (tot32 p ?= tot32 q) (lex_cmp r1 r2).
Proof.
  intros Wp Wq. rewrite !venc_tot by assumption.
  rewrite field_ord by (apply tot32_range; assumption). f_equal. cmp_shift.
Qed.

Lemma jnum_ord p q r1 r2 : in_u 64 p = true -> in_u 64 q = true ->
  lex_cmp (be_bytes 8 (jnenc p) ++ r1) (be_bytes 8 (jnenc q) ++ r2) = cthen (tot64 p ?= tot64 q) (lex_cmp r1 r2).
Proof.
  intros Wp Wq. rewrite !jnenc_tot by assumption.
  rewrite field_ord by (apply tot64_range; assumption). f_equal. cmp_shift.
Qed.

Lemma vcomps_ord x : forall y r1 r2, length x = length y ->
  forallb (in_u 32) x = true -> forallb (in_u 32) y = true ->
  lex_cmp (flat_map (fun b => be_bytes 4 (venc b)) x ++ r1) (flat_map (fun b => be_bytes 4 (venc b)) y ++ r2)
  = cthen (lex_by (fun p q => tot32 p ?= tot32 q) x y) (lex_cmp r1 r2).
Proof.
  induction x as [|p x IH]; intros [|q y] r1 r2 HL Wx Wy; cbn [length] in HL; try discriminate.
  - reflexivity.
  - cbn [forallb] in *. apply andb_true_iff in Wx, Wy.
    destruct Wx as [Wp Wx], Wy as [Wq Wy].
    cbn [flat_map lex_by]. rewrite <- !app_assoc. rewrite vcomp_ord by assumption.
    rewrite IH by (try assumption; lia). rewrite cthen_assoc. reflexivity.
Qed.
