//! C02 - crash recovery yields a prefix-consistent database.  Same crash harness as C01
//! (crash_common/mod.rs), judged by coq/Corr/C02.v; search mode uses the C02 row-level oracle.
#[path = "crash_common/mod.rs"]
mod crash_common;
fn main() { crash_common::main_for("C02"); }
