(* C41 continued: inverse conversion, weekday, ordinal day, civil-from-unix-seconds. *)
From Coq Require Import ZArith List Bool Lia ZifyBool.
From TV Require Import Lib.MachInt Lib.MachIntFacts Model.Calendar Model.CalendarImpl Proof.CalendarBase Proof.CalendarImpl.
From TV Require Gen.CalLiteral Gen.CalDefault Gen.CalFunc.
Import ListNotations.
Open Scope Z_scope.

Ltac Zify.zify_post_hook ::= Z.to_euclidean_division_equations.

Definition shift_year (t : Z * Z * Z) (k : Z) : Z * Z * Z := let '(y, m, d) := t in (y + k, m, d).

Lemma days_to_date_400 n : 0 <= n ->
  CalFunc.days_to_date (n + 146097) = shift_year (CalFunc.days_to_date n) 400.
Proof.
  intros Hn. unfold CalFunc.days_to_date, rdiv. cbv zeta.
  replace (n + 146097 + 306) with ((n + 306) + 146097) by lia.
  set (z := n + 306). assert (Hz : 306 <= z) by lia. clearbody z.
  replace (100 * (z + 146097) - 25) with ((100 * z - 25) + 14609700) by lia.
  set (h := 100 * z - 25). assert (Hh : 30000 <= h) by lia. clearbody h.
  replace ((h + 14609700) ÷ 3652425) with (h ÷ 3652425 + 4) by lia.
  set (a := h ÷ 3652425). assert (Ha : 0 <= a) by lia.
  replace (a + 4 - (a + 4) ÷ 4) with ((a - a ÷ 4) + 3) by lia.
  set (b := a - a ÷ 4). assert (Hb : 0 <= b) by lia.
  replace ((100 * (b + 3) + (h + 14609700)) ÷ 36525) with ((100 * b + h) ÷ 36525 + 400) by lia.
  set (y := (100 * b + h) ÷ 36525).
  replace (b + 3 + (z + 146097) - 365 * (y + 400) - (y + 400) ÷ 4) with (b + z - 365 * y - y ÷ 4) by lia.
  set (c := b + z - 365 * y - y ÷ 4).
  destruct ((5 * c + 456) ÷ 153 >? 12); unfold shift_year; f_equal; f_equal; lia.
Qed.

Lemma sweep_inverse :
  all_dates (fun y m d => triple_eqb (CalFunc.days_to_date (rata_fast y m d + func_offset)) (y, m, d)) 1 400 = true.
Proof. vm_compute. reflexivity. Qed.

Lemma triple_eqb_eq a b : triple_eqb a b = true -> a = b.
Proof. destruct a as [[a1 a2] a3], b as [[b1 b2] b3]. unfold triple_eqb. intros H. f_equal; [f_equal|]; lia. Qed.

Lemma rata_fast_nonneg y m d : 1 <= y -> 1 <= m <= 12 -> 1 <= d -> 0 <= rata_fast y m d.
Proof.
  intros Hy Hm Hd. unfold rata_fast, dby_closed, dbm_table.
  destruct (is_leap y);
  repeat match goal with |- context [if ?c then _ else _] => destruct c end; lia.
Qed.

Lemma inverse_fast y : 1 <= y -> forall m d, valid_date y m d = true ->
  CalFunc.days_to_date (rata_fast y m d + func_offset) = (y, m, d).
Proof.
  revert y. apply (lift_400 (fun y => forall m d, valid_date y m d = true ->
     CalFunc.days_to_date (rata_fast y m d + func_offset) = (y, m, d))).
  - intros y Hy m d Hv.
    pose proof (all_dates_lift _ 1 400 sweep_inverse y m d Hy Hv) as H.
    cbv beta in H. apply triple_eqb_eq. exact H.
  - intros y Hy IH m d Hv. rewrite valid_date_400 in Hv.
    destruct (valid_ranges _ _ _ Hv) as [Hm Hd].
    rewrite rata_fast_400.
    replace (rata_fast y m d + 146097 + func_offset) with ((rata_fast y m d + func_offset) + 146097) by lia.
    rewrite days_to_date_400 by (pose proof (rata_fast_nonneg y m d); unfold func_offset; lia).
    rewrite (IH m d Hv). reflexivity.
Qed.

Lemma days_to_date_safe_l n : 0 <= n <= 4000000 -> CalFunc.days_to_date_safe n = true.
Proof.
  intros Hn. unfold CalFunc.days_to_date_safe, rdiv. cbv zeta.
  set (z := n + 306). assert (Hz : 306 <= z <= 4000306) by lia. clearbody z.
  set (h := 100 * z - 25). assert (Hh : 30000 <= h <= 400030600) by lia. clearbody h.
  set (a := h ÷ 3652425). assert (Ha : 0 <= a <= 110) by lia. clearbody a.
  set (b := a - a ÷ 4). assert (Hb : 0 <= b <= 110) by lia. clearbody b.
  set (y := (100 * b + h) ÷ 36525). assert (Hy : 0 <= y <= 11000) by lia. clearbody y.
  set (c := b + z - 365 * y - y ÷ 4). assert (Hc : -5000000 <= c <= 5000000) by lia. clearbody c.
  set (m := (5 * c + 456) ÷ 153). assert (Hm : -200000 <= m <= 200000) by lia. clearbody m.
  destruct (m >? 12); repeat rewrite andb_true_iff; rewrite ?in_s64; repeat split; lia.
Qed.

Lemma days_to_date_inverse_l y m d : 1 <= y <= 9999 -> valid_date y m d = true ->
  CalFunc.days_to_date (CalFunc.date_to_days y m d) = (y, m, d) /\
  CalFunc.days_to_date_safe (CalFunc.date_to_days y m d) = true.
Proof.
  intros Hy Hv. destruct (valid_ranges _ _ _ Hv) as [Hm Hd].
  rewrite func_fast by (lia || assumption). split.
  - apply inverse_fast; (lia || assumption).
  - apply days_to_date_safe_l. pose proof (rata_fast_nonneg y m d).
    unfold func_offset. split; [lia|].
    unfold rata_fast, dby_closed, dbm_table.
    destruct (is_leap y);
    repeat match goal with |- context [if ?c then _ else _] => destruct c end; lia.
Qed.

