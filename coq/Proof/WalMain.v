(* C03 proofs: the end-to-end statements (model observations satisfy the property outside the
   recorded finding classes) and the refutation witnesses of each class. *)
From Coq Require Import ZArith List Bool Lia ZifyBool Arith.
From TV Require Import Lib.MachInt Model.WalCrc Model.Wal Model.WalSpec Proof.WalCrc Proof.WalRead Proof.Wal.
Import ListNotations.
Open Scope Z_scope.

Arguments Z.mul : simpl never.
Arguments Z.add : simpl never.
Arguments Z.sub : simpl never.
Arguments Z.leb : simpl never.
Arguments Z.ltb : simpl never.
Arguments Z.eqb : simpl never.
Arguments Z.of_nat : simpl never.
Arguments Z.to_nat : simpl never.

Local Notation OKF := (fun f : frame => frame_ok f = true).

Lemma forallb_Forall_ok : forall fs, forallb frame_ok fs = true -> Forall OKF fs.
Proof. intros fs H. rewrite forallb_forall in H. apply Forall_forall. exact H. Qed.

Lemma lstep_ok : forall l o, op_ok o = true ->
  Forall OKF (concat (fst l)) /\ Forall OKF (snd l) ->
  Forall OKF (concat (fst (lstep l o))) /\ Forall OKF (snd (lstep l o)).
Proof.
  intros [cl cu] o Ho [H1 H2]. cbn [fst snd] in *.
  destruct o as [f|fs ns|b| | | |]; cbn [lstep fst snd op_ok] in *; try (split; assumption).
  - split; [exact H1|]. apply Forall_app; split; [exact H2|]. constructor; [exact Ho|constructor].
  - split; [exact H1|]. apply Forall_app; split; [exact H2|apply forallb_Forall_ok; exact Ho].
  - split; [|constructor]. rewrite concat_app. cbn [concat]. rewrite app_nil_r.
    apply Forall_app; split; assumption.
  - split; constructor.
Qed.

Lemma lrun_ok : forall ops l, ops_ok ops = true ->
  Forall OKF (concat (fst l)) /\ Forall OKF (snd l) ->
  Forall OKF (concat (fst (fold_left lstep ops l))) /\ Forall OKF (snd (fold_left lstep ops l)).
Proof.
  induction ops as [|o ops IH]; intros l Hok Hl; cbn [fold_left]; [exact Hl|].
  unfold ops_ok in Hok. cbn [forallb] in Hok. apply andb_prop in Hok. destruct Hok as [Ho Hr].
  apply IH; [exact Hr|apply lstep_ok; assumption].
Qed.

Lemma log_frames_ok : forall ops, ops_ok ops = true -> Forall OKF (concat (log_of ops)).
Proof.
  intros ops Hok. unfold log_of, lrun.
  destruct (lrun_ok ops ([], []) Hok) as [H1 H2]; [split; constructor|].
  rewrite concat_app. cbn [concat]. rewrite app_nil_r. apply Forall_app; split; assumption.
Qed.

Lemma Forall_firstn : forall {A} (P : A -> Prop) n l, Forall P l -> Forall P (firstn n l).
Proof.
  intros A P n l H. rewrite <- (firstn_skipn n l) in H. apply Forall_app in H. tauto.
Qed.

Lemma vprefix_Forall : forall (P : frame -> Prop) d log i, Forall P (concat log) -> Forall P (vprefix i d log).
Proof.
  intros P d. induction log as [|seg log IH]; intros i H; [constructor|].
  cbn [concat] in H. apply Forall_app in H. destruct H as [Hs Hl].
  rewrite vprefix_cons. destruct (is_dmg_seg d i && (intact (length seg) d <? length seg)%nat).
  - apply Forall_firstn; exact Hs.
  - apply Forall_app; split; [exact Hs|apply IH; exact Hl].
Qed.

Lemma log_of_nonnil : forall ops, log_of ops <> [].
Proof. intros ops H. unfold log_of in H. apply app_eq_nil in H. destruct H as [_ H]. discriminate. Qed.

(* ---------------------------------------------------------------- the files recovery sees *)
Section Case.
  Variable ops : list op.
  Variable d : dmg.
  Hypothesis Hwriter : known_ops ops = 0.
  Hypothesis Hdmg : dmg_class (log_of ops) d = 0.

  Let log := log_of ops.
  Let files' := dmg_files d (final_files (run ops)).

  Lemma files_after : files' = upd_nth (dmg_pos d (length log)) (dmg_file d) (map (map SFrame) log).
  Proof.
    unfold files'. rewrite (writer_files_l ops Hwriter). rewrite dmg_files_pos. rewrite map_length. reflexivity.
  Qed.

  Lemma seg_frames_prefix : seg_frames files' = valid_prefix log d.
  Proof.
    rewrite files_after. unfold seg_frames, valid_prefix.
    apply (frames_after_fault d log (dmg_pos d (length log)) 0).
    - intros j Hj. apply (is_dmg_seg_pos d (length log)). exact Hj.
    - intro Hlt. apply dmg_pos_hit. exact Hlt.
    - apply dmg_class_seg_ok. exact Hdmg.
  Qed.

  Lemma last_frames_prefix :
    valid_frames (last files' []) = skipn (frames_before_last log) (valid_prefix log d).
  Proof.
    rewrite files_after. unfold frames_before_last, valid_prefix.
    apply (last_after_fault d log (dmg_pos d (length log)) 0).
    - apply log_of_nonnil.
    - intros j Hj. apply (is_dmg_seg_pos d (length log)). exact Hj.
    - intro Hlt. apply dmg_pos_hit. exact Hlt.
    - apply dmg_class_seg_ok. exact Hdmg.
  Qed.
End Case.

(* recovery applies exactly the longest valid prefix (all files, and per file id) *)
Lemma recover_prefix_l : forall ops d,
  ops_ok ops = true -> known_ops ops = 0 -> dmg_class (log_of ops) d = 0 ->
  let vp := valid_prefix (log_of ops) d in
  let files := dmg_files d (final_files (run ops)) in
  rec_ok vp (recover files) = true /\
  forall fid, rec_ok (by_fid fid vp) (recover_for_file files fid) = true.
Proof.
  intros ops d Hok Hw Hd vp files.
  assert (Hvp : Forall OKF vp).
  { unfold vp, valid_prefix. apply vprefix_Forall. apply log_frames_ok. exact Hok. }
  pose proof (seg_frames_prefix ops d Hw Hd) as Hsf. fold files in Hsf. fold vp in Hsf.
  split.
  - unfold recover. rewrite Hsf. apply replay_exact. exact Hvp.
  - intro fid. unfold recover_for_file. rewrite Hsf. unfold by_fid. apply replay_exact.
    apply filter_frames_ok. exact Hvp.
Qed.

(* after damage + Wal::open, read_page returns the last image in the valid prefix *)
Lemma reads_prefix_l : forall ops d,
  known_ops ops = 0 -> dmg_class (log_of ops) d = 0 ->
  read_class (log_of ops) (valid_prefix (log_of ops) d) = 0 ->
  map (read_page (reopened (run ops) d)) read_keys
  = expect_reads (valid_prefix (log_of ops) d) read_keys.
Proof.
  intros ops d Hw Hd Hr. unfold reopened. rewrite reads_after_open.
  rewrite (last_frames_prefix ops d Hw Hd).
  unfold read_class in Hr.
  destruct (Nat.ltb_spec 1 (length (log_of ops))) as [Hlen|Hlen].
  - cbn [andb] in Hr.
    destruct (rds_eqb (expect_reads (skipn (frames_before_last (log_of ops)) (valid_prefix (log_of ops) d)) read_keys)
                      (expect_reads (valid_prefix (log_of ops) d) read_keys)) eqn:E.
    + apply rds_eqb_eq. exact E.
    + cbn [negb] in Hr. discriminate.
  - pose proof (log_of_nonnil ops) as Hne.
    destruct (log_of ops) as [|g [|g2 r]] eqn:El; [contradiction| |cbn [length] in Hlen; lia].
    unfold frames_before_last. cbn [removelast concat length skipn]. reflexivity.
Qed.

(* every observation of the model satisfies the property outside the finding classes *)
Lemma c03_main_l : forall ops d,
  ops_ok ops = true -> known_case ops d = 0 -> spec_check ops d (model_obs ops d) = true.
Proof.
  intros ops d Hok Hk. unfold known_case in Hk.
  destruct (Z.eqb_spec (known_ops ops) 0) as [Hw|Hw]; [|cbn [negb] in Hk; contradiction].
  cbn [negb] in Hk.
  destruct (Z.eqb_spec (dmg_class (log_of ops) d) 0) as [Hd|Hd]; [|cbn [negb] in Hk; contradiction].
  cbn [negb] in Hk.
  destruct (recover_prefix_l ops d Hok Hw Hd) as [Hrec Hfid].
  pose proof (reads_prefix_l ops d Hw Hd Hk) as Hreads.
  unfold spec_check, model_obs. cbn [o_ok o_reads o_rec o_rec0 o_rec1 andb].
  rewrite Hreads, rds_eqb_refl. cbn [andb].
  rewrite Hrec, (Hfid 0), (Hfid 1). reflexivity.
Qed.

(* ---------------------------------------------------------------- the classes are real: one witness each *)
Definition refutes (k : Z) (ops : list op) (d : dmg) : Prop :=
  ops_ok ops = true /\ known_case ops d = k /\ spec_check ops d (model_obs ops d) = false.

Definition w (p fill : Z) : op := OWrite (Fr 0 p 3 fill).

Lemma class1_refuted_l : refutes 1 [w 0 1; w 1 2; OReopen; w 2 3] DNone.
Proof. vm_compute. repeat split. Qed.
Lemma class2_refuted_l : refutes 2 [w 1 1; w 2 2; OTruncate; w 1 3] DNone.
Proof. vm_compute. repeat split. Qed.
Lemma class3_refuted_l : refutes 3 [OSetSync false; w 1 1; OTruncate] DNone.
Proof. vm_compute. repeat split. Qed.
Lemma class4_refuted_l : refutes 4 [w 0 1; ORotate; w 1 2] (DFlip 0 40 1).
Proof. vm_compute. repeat split. Qed.
Lemma class5_refuted_l : refutes 5 [w 0 1; ORotate; w 1 2] DNone.
Proof. vm_compute. repeat split. Qed.
Lemma class6_refuted_l : refutes 6 [w 0 1; w 1 2; w 2 5] (DZero 0 16416 16416 1 1).
Proof. vm_compute. repeat split. Qed.
