(* C01 / C02 - basic facts about page maps, frame lists and redo (Model/Crash.v). *)
From Coq Require Import ZArith List Bool Lia.
From TV Require Import Model.Crash.
Import ListNotations.
Open Scope Z_scope.

(* ------------------------------------------------------------------ keys and lists *)
Lemma key_eqb_eq : forall a b : key, key_eqb a b = true <-> a = b.
Proof.
  intros [a1 a2] [b1 b2]. unfold key_eqb. cbn [fst snd]. rewrite andb_true_iff, !Z.eqb_eq.
  split; [intros [-> ->]; reflexivity | intros H; inversion H; auto].
Qed.
Lemma key_eqb_refl : forall a, key_eqb a a = true.
Proof. intros. apply key_eqb_eq. reflexivity. Qed.
Lemma key_eqb_sym : forall a b, key_eqb a b = key_eqb b a.
Proof.
  intros. destruct (key_eqb a b) eqn:E.
  - apply key_eqb_eq in E. subst. symmetry. apply key_eqb_refl.
  - destruct (key_eqb b a) eqn:F; [apply key_eqb_eq in F; subst; rewrite key_eqb_refl in E; discriminate | reflexivity].
Qed.
Lemma key_eqb_neq : forall a b : key, key_eqb a b = false <-> a <> b.
Proof.
  intros. split; intros H.
  - intros ->. rewrite key_eqb_refl in H. discriminate.
  - destruct (key_eqb a b) eqn:E; [apply key_eqb_eq in E; contradiction | reflexivity].
Qed.

Lemma kmem_In : forall k l, kmem k l = true <-> In k l.
Proof.
  intros. unfold kmem. rewrite existsb_exists. split.
  - intros [x [Hx E]]. apply key_eqb_eq in E. subst. exact Hx.
  - intros H. exists k. split; [exact H | apply key_eqb_refl].
Qed.
Lemma kmem_false : forall k l, kmem k l = false <-> ~ In k l.
Proof.
  intros. rewrite <- kmem_In. destruct (kmem k l); split; intros; try discriminate; try reflexivity; intuition congruence.
Qed.
Lemma mem_In : forall f l, mem f l = true <-> In f l.
Proof.
  intros. unfold mem. rewrite existsb_exists. split.
  - intros [x [Hx E]]. apply Z.eqb_eq in E. subst. exact Hx.
  - intros H. exists f. split; [exact H | apply Z.eqb_refl].
Qed.
Lemma mem_false : forall f l, mem f l = false <-> ~ In f l.
Proof.
  intros. rewrite <- mem_In. destruct (mem f l); split; intros; try discriminate; try reflexivity; intuition congruence.
Qed.

Lemma In_add_key : forall k k' l, In k (add_key k' l) <-> k = k' \/ In k l.
Proof.
  intros. unfold add_key. destruct (kmem k' l) eqn:E.
  - apply kmem_In in E. split; [auto | intros [-> | H]; auto].
  - rewrite in_app_iff. cbn. intuition.
Qed.
Lemma In_add_z : forall f f' l, In f (add_z f' l) <-> f = f' \/ In f l.
Proof.
  intros. unfold add_z. destruct (mem f' l) eqn:E.
  - apply mem_In in E. split; [auto | intros [-> | H]; auto].
  - rewrite in_app_iff. cbn. intuition.
Qed.
Lemma mem_add_z : forall f f' l, mem f (add_z f' l) = (f =? f') || mem f l.
Proof.
  intros. destruct (mem f (add_z f' l)) eqn:E.
  - apply mem_In, In_add_z in E. destruct E as [-> | H]; [rewrite Z.eqb_refl; reflexivity |].
    apply mem_In in H. rewrite H. symmetry. apply orb_true_r.
  - symmetry. apply orb_false_iff. split.
    + apply Z.eqb_neq. intros ->. apply mem_false in E. apply E, In_add_z. auto.
    + apply mem_false. apply mem_false in E. intros H. apply E, In_add_z. auto.
Qed.
Lemma In_del_key : forall k k' l, In k (del_key k' l) <-> In k l /\ k <> k'.
Proof.
  intros. unfold del_key. rewrite filter_In, negb_true_iff, key_eqb_neq. reflexivity.
Qed.
Lemma In_marks_into : forall ms d k, In k (marks_into d ms) <-> In k d \/ In k ms.
Proof.
  induction ms as [| m r IH]; intros; cbn [marks_into].
  - cbn. intuition.
  - rewrite IH, In_add_key. cbn. intuition.
Qed.

(* ------------------------------------------------------------------ the last frame of a page *)
Fixpoint lastk (fr : list frame) (k : key) : option (option Z) :=
  match fr with
  | [] => None
  | f :: r =>
      match lastk r k with
      | Some o => Some o
      | None => if key_eqb (fst f) k then Some (snd f) else None
      end
  end.

Lemma lastk_app : forall a b k,
  lastk (a ++ b) k = match lastk b k with Some o => Some o | None => lastk a k end.
Proof.
  induction a as [| f r IH]; intros; cbn [app lastk].
  - destruct (lastk b k); reflexivity.
  - rewrite IH. destruct (lastk b k); reflexivity.
Qed.
Lemma lastk_none_kmem : forall fr k, lastk fr k = None <-> kmem k (map fst fr) = false.
Proof.
  induction fr as [| f r IH]; intros; cbn [lastk map].
  - split; reflexivity.
  - unfold kmem. cbn [existsb]. fold (kmem k (map fst r)).
    destruct (lastk r k) eqn:E.
    + split; [discriminate |]. intros H. apply orb_false_iff in H. destruct H as [_ H].
      apply IH in H. congruence.
    + apply IH in E. rewrite E, orb_false_r. rewrite (key_eqb_sym k (fst f)).
      destruct (key_eqb (fst f) k); split; intros; try discriminate; reflexivity.
Qed.
Lemma lastk_none_iff : forall fr k, lastk fr k = None <-> ~ In k (map fst fr).
Proof. intros. rewrite lastk_none_kmem. apply kmem_false. Qed.
Lemma lastk_some_in : forall fr k o, lastk fr k = Some o -> In k (map fst fr).
Proof.
  intros. apply kmem_In. destruct (kmem k (map fst fr)) eqn:E; [reflexivity |].
  apply lastk_none_kmem in E. congruence.
Qed.
Lemma lastk_snoc : forall fr k' o' k,
  lastk (fr ++ [(k', o')]) k = if key_eqb k' k then Some o' else lastk fr k.
Proof.
  intros. rewrite lastk_app. cbn [lastk fst snd]. destruct (key_eqb k' k); reflexivity.
Qed.
Lemma lastk_only_table : forall t fr k,
  lastk (only_table t fr) k = if fst k =? t then lastk fr k else None.
Proof.
  unfold only_table. induction fr as [| f r IH]; intros; cbn [filter lastk]; cbv beta.
  - destruct (fst k =? t); reflexivity.
  - match goal with |- context [if ?c then _ :: _ else _] => destruct c eqn:E end; cbn [lastk]; rewrite IH.
    + destruct (fst k =? t) eqn:F; [reflexivity |].
      destruct (key_eqb (fst f) k) eqn:G; [| reflexivity].
      apply key_eqb_eq in G. subst k. apply Z.eqb_eq in E. apply Z.eqb_neq in F. exfalso. apply F. exact E.
    + destruct (fst k =? t) eqn:F; [| reflexivity].
      destruct (lastk r k); [reflexivity |].
      destruct (key_eqb (fst f) k) eqn:G; [| reflexivity].
      apply key_eqb_eq in G. subst k. apply Z.eqb_eq in F. apply Z.eqb_neq in E. exfalso. apply E. exact F.
Qed.

(* ------------------------------------------------------------------ redo = last frame wins, per page *)
Lemma pupd_same : forall m k o, pupd m k o k = o.
Proof. intros. unfold pupd. rewrite key_eqb_refl. reflexivity. Qed.
Lemma pupd_other : forall m k o k', k' <> k -> pupd m k o k' = m k'.
Proof. intros. unfold pupd. apply key_eqb_neq in H. rewrite H. reflexivity. Qed.

Lemma redo_spec : forall files fr m k,
  redo files fr m k =
  if mem (fst k) files then match lastk fr k with Some o => o | None => m k end else m k.
Proof.
  unfold redo. induction fr as [| f r IH]; intros; cbn [fold_left lastk].
  - destruct (mem (fst k) files); reflexivity.
  - rewrite IH. unfold redo1.
    destruct (mem (fst k) files) eqn:Mk.
    + destruct (lastk r k); [reflexivity |].
      destruct (key_eqb (fst f) k) eqn:E.
      * apply key_eqb_eq in E. subst k. rewrite Mk. apply pupd_same.
      * destruct (mem (fst (fst f)) files); [| reflexivity].
        apply pupd_other. apply key_eqb_neq in E. congruence.
    + destruct (mem (fst (fst f)) files) eqn:Mf; [| reflexivity].
      apply pupd_other. intros ->. congruence.
Qed.
