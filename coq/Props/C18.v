(* C18 -- Subqueries and set operations follow SQL semantics.
   Only statements: Theorem x : stmt. Proof. exact lemma. Qed. + Check pin + Print Assumptions. *)
From Coq Require Import ZArith List Bool Arith.
From TV Require Import Model.SqlSpec Model.SubqSpec Model.SubqImpl Model.SubqClass.
From TV Require Import Proof.SetOpsBag Proof.SubqLaws.
Import ListNotations.

(* ------------------------------------------------------------------ set operations (set_ops.rs) *)
(* the reference table of an operation has, for every row, exactly the multiplicity SQL defines *)
Theorem spec_op_has_defined_multiplicities : forall k all l r x,
  mult x (spec_op k all l r) = spec_mult k all (mult x l) (mult x r).
Proof. exact spec_op_mult. Qed.
Check spec_op_has_defined_multiplicities : forall k all l r x,
  mult x (spec_op k all l r) = spec_mult k all (mult x l) (mult x r).
Print Assumptions spec_op_has_defined_multiplicities.

(* UNION, UNION ALL, INTERSECT, EXCEPT of set_ops.rs return the SQL-defined bag, for all operands *)
Theorem set_ops_distinct_and_union_all_correct : forall k all l r,
  (all = false \/ k = KUnion) -> bag_eq (impl_op k all l r) (spec_op k all l r).
Proof. exact impl_op_correct. Qed.
Check set_ops_distinct_and_union_all_correct : forall k all l r,
  (all = false \/ k = KUnion) -> bag_eq (impl_op k all l r) (spec_op k all l r).
Print Assumptions set_ops_distinct_and_union_all_correct.

(* INTERSECT ALL / EXCEPT ALL are right when the left operand has no duplicate row ... *)
Theorem set_ops_all_correct_without_left_duplicates : forall k l r,
  dup_free l -> bag_eq (impl_op k true l r) (spec_op k true l r).
Proof. exact impl_op_all_correct_dup_free. Qed.
Check set_ops_all_correct_without_left_duplicates : forall k l r,
  dup_free l -> bag_eq (impl_op k true l r) (spec_op k true l r).
Print Assumptions set_ops_all_correct_without_left_duplicates.

(* ... and wrong otherwise: [1; 1] EXCEPT ALL [1], [1; 1] INTERSECT ALL [1] *)
Theorem except_all_by_membership_refuted :
  exists l r, ~ bag_eq (impl_op KExcept true l r) (spec_op KExcept true l r).
Proof. exact except_all_refuted. Qed.
Check except_all_by_membership_refuted :
  exists l r, ~ bag_eq (impl_op KExcept true l r) (spec_op KExcept true l r).
Print Assumptions except_all_by_membership_refuted.

Theorem intersect_all_by_membership_refuted :
  exists l r, ~ bag_eq (impl_op KIntersect true l r) (spec_op KIntersect true l r).
Proof. exact intersect_all_refuted. Qed.
Check intersect_all_by_membership_refuted :
  exists l r, ~ bag_eq (impl_op KIntersect true l r) (spec_op KIntersect true l r).
Print Assumptions intersect_all_by_membership_refuted.

(* the executable comparison used by the correspondence run decides bag equality *)
Theorem bag_check_decides_bag_equality : forall a b, bag_eqb a b = true <-> bag_eq a b.
Proof. exact bag_eqb_spec. Qed.
Check bag_check_decides_bag_equality : forall a b, bag_eqb a b = true <-> bag_eq a b.
Print Assumptions bag_check_decides_bag_equality.

(* ------------------------------------------------------------------ laws of the reference semantics *)
Theorem exists_true_iff_subquery_has_a_row : forall db env neg q t,
  qeval db env q = ROk t ->
  xeval db env (XExists neg q) = ROk (VBool (xorb neg (negb (is_nil t)))).
Proof. exact exists_iff_nonempty. Qed.
Check exists_true_iff_subquery_has_a_row : forall db env neg q t,
  qeval db env q = ROk t ->
  xeval db env (XExists neg q) = ROk (VBool (xorb neg (negb (is_nil t)))).
Print Assumptions exists_true_iff_subquery_has_a_row.

Theorem scalar_subquery_without_row_is_null : forall db env q,
  qeval db env q = ROk [] -> xeval db env (XScalar q) = ROk VNull.
Proof. exact scalar_no_row_is_null. Qed.
Check scalar_subquery_without_row_is_null : forall db env q,
  qeval db env q = ROk [] -> xeval db env (XScalar q) = ROk VNull.
Print Assumptions scalar_subquery_without_row_is_null.

Theorem scalar_subquery_with_many_rows_is_error : forall db env q r1 r2 t,
  qeval db env q = ROk (r1 :: r2 :: t) -> xeval db env (XScalar q) = RErr.
Proof. exact scalar_many_rows_is_error. Qed.
Check scalar_subquery_with_many_rows_is_error : forall db env q r1 r2 t,
  qeval db env q = ROk (r1 :: r2 :: t) -> xeval db env (XScalar q) = RErr.
Print Assumptions scalar_subquery_with_many_rows_is_error.

(* IN is TRUE exactly on membership (a semi join is a sound reading of IN, NULLs or not) *)
Theorem in_true_iff_some_element_equal : forall x ys,
  forallb (eq_def x) ys = true ->
  (in_vals x ys = Some TT <-> existsb (eq_tt x) ys = true).
Proof. exact in_true_iff_member. Qed.
Check in_true_iff_some_element_equal : forall x ys,
  forallb (eq_def x) ys = true ->
  (in_vals x ys = Some TT <-> existsb (eq_tt x) ys = true).
Print Assumptions in_true_iff_some_element_equal.

(* NOT IN with a NULL among the elements is never TRUE *)
Theorem not_in_with_null_never_true : forall x ys,
  In VNull ys -> opt_tv_neg true (in_vals x ys) <> Some TT.
Proof. exact not_in_null_unknown. Qed.
Check not_in_with_null_never_true : forall x ys,
  In VNull ys -> opt_tv_neg true (in_vals x ys) <> Some TT.
Print Assumptions not_in_with_null_never_true.

(* the anti-join reading of NOT IN is exact without NULLs and wrong with them *)
Theorem not_in_as_anti_join_when_null_free : forall x ys, all_int ys ->
  opt_tv_neg true (in_vals (VInt x) ys) = Some (tv_of_bool (anti_join_keeps (VInt x) ys)).
Proof. exact not_in_as_antijoin. Qed.
Check not_in_as_anti_join_when_null_free : forall x ys, all_int ys ->
  opt_tv_neg true (in_vals (VInt x) ys) = Some (tv_of_bool (anti_join_keeps (VInt x) ys)).
Print Assumptions not_in_as_anti_join_when_null_free.

Theorem anti_join_unsound_with_null :
  (anti_join_keeps (VInt 3) [VInt 1; VNull] = true /\ opt_tv_neg true (in_vals (VInt 3) [VInt 1; VNull]) = Some UU) /\
  (anti_join_keeps VNull [VInt 1] = true /\ opt_tv_neg true (in_vals VNull [VInt 1]) = Some UU).
Proof. exact antijoin_unsound_with_null. Qed.
Check anti_join_unsound_with_null :
  (anti_join_keeps (VInt 3) [VInt 1; VNull] = true /\ opt_tv_neg true (in_vals (VInt 3) [VInt 1; VNull]) = Some UU) /\
  (anti_join_keeps VNull [VInt 1] = true /\ opt_tv_neg true (in_vals VNull [VInt 1]) = Some UU).
Print Assumptions anti_join_unsound_with_null.

(* ------------------------------------------------------------------ non-vacuity *)
Example dup_free_inhabited : dup_free [[VInt 1]; [VNull]].
Proof. intro x. cbn [mult]. destruct (srow_eqb x [VInt 1]) eqn:E1; destruct (srow_eqb x [VNull]) eqn:E2; cbn; try auto with arith.
  apply srow_eqb_eq in E1. apply srow_eqb_eq in E2. congruence. Qed.
Example eq_def_inhabited : forallb (eq_def (VInt 1)) [VInt 1; VNull; VInt 2] = true.
Proof. reflexivity. Qed.
Example all_int_inhabited : all_int [VInt 1; VInt 2].
Proof. intros y [H|[H|[]]]; subst; eexists; reflexivity. Qed.
