(* C31: the recorded defect (class 3), exhibited on the model by evaluation; its witness is
   also a replay line of known_findings.d/C31.json and is run on the real code by ./check.
   The former classes 1 and 2 (repaired in /repo by b2f9dd3 and 43a41a5) are kept as
   historical witnesses: on the repaired model they round-trip. *)
From Coq Require Import ZArith List Bool.
From TV Require Import Lib.MachInt Model.Record.
Import ListNotations.
Open Scope Z_scope.

Definition roundtrip_ok (s : schema) (row : list value) : Prop :=
  exists bytes, build_fresh s row = Ok bytes /\ extract s bytes = Ok row.

(* class 3: a 17-byte blob starting 0xFE comes back as a ToastPointer *)
Definition toast_like : list Z := 254 :: repeat 1 16.
Lemma refuted_toast_blob_l :
  schema_ok [TBlob] = true /\ fits_row [TBlob] [VBlob toast_like] = true /\
  known_class [TBlob] [VBlob toast_like] = 3 /\
  build_fresh [TBlob] [VBlob toast_like] = Ok ([5; 0; 0; 17; 0] ++ toast_like) /\
  extract [TBlob] ([5; 0; 0; 17; 0] ++ toast_like) = Ok [VToast toast_like].
Proof. vm_compute. repeat split. Qed.

Lemma roundtrip_refuted_l :
  exists s row, schema_ok s = true /\ fits_row s row = true /\ known_class s row = 3 /\ ~ roundtrip_ok s row.
Proof.
  exists [TBlob], [VBlob toast_like].
  split; [vm_compute; reflexivity|]. split; [vm_compute; reflexivity|]. split; [vm_compute; reflexivity|].
  intros [b [Hb Hx]]. vm_compute in Hb. inversion Hb; subst b. vm_compute in Hx. discriminate Hx.
Qed.

(* historical (F-C31-1, fixed by b2f9dd3): a lone empty string used to come back as NULL *)
Lemma fixed_empty_var_only_l :
  fits_row [TText] [VText []] = true /\ known_class [TText] [VText []] = 0 /\
  build_fresh [TText] [VText []] = Ok [5; 0; 0; 0; 0] /\
  extract [TText] [5; 0; 0; 0; 0] = Ok [VText []].
Proof. vm_compute. repeat split. Qed.

(* historical (F-C31-2, fixed by 43a41a5): 1.5 in a Float4 column used to read back as 0.0, and
   to panic when alone in the row; now it is stored as the f32 0x3FC00000 *)
Lemma fixed_float4_l :
  fits_row [TFloat4; TInt8] [VFloat 4609434218613702656; VInt 3] = true /\
  known_class [TFloat4; TInt8] [VFloat 4609434218613702656; VInt 3] = 0 /\
  build_fresh [TFloat4; TInt8] [VFloat 4609434218613702656; VInt 3]
    = Ok [3; 0; 0; 0; 0; 192; 63; 3; 0; 0; 0; 0; 0; 0; 0] /\
  extract [TFloat4; TInt8] [3; 0; 0; 0; 0; 192; 63; 3; 0; 0; 0; 0; 0; 0; 0]
    = Ok [VFloat 4609434218613702656; VInt 3] /\
  build_fresh [TFloat4] [VFloat 4609434218613702656] = Ok [3; 0; 0; 0; 0; 192; 63] /\
  (* a value that is not an f32 does not fit: 0.1 is rounded by the store *)
  fits_row [TFloat4] [VFloat 4591870180066957722] = false /\
  extract [TFloat4] [3; 0; 0; 205; 204; 204; 61] = Ok [VFloat 4591870180174331904].
Proof. vm_compute. repeat split. Qed.
