//! C29: decode one page through the PUBLIC accessors of the B-tree page types and print it as a Coq term
//! (Corr/C29.v `cpage`).  Nothing here interprets raw cell bytes itself except the 16-byte header fields
//! read via PageHeader.
use std::collections::HashMap;
use turdb::btree::{extract_prefix, InteriorNode, LeafNode};
use turdb::storage::{PageHeader, PageType};

pub fn decode_page(bytes: &[u8], key_idx: &HashMap<Vec<u8>, i64>) -> String {
    let header = match PageHeader::from_bytes(bytes) { Ok(h) => h, Err(_) => return "OT".into() };
    let fs = header.free_start();
    let fe = header.free_end();
    match header.page_type() {
        PageType::BTreeLeaf => {
            let leaf = match LeafNode::from_page(bytes) { Ok(l) => l, Err(_) => return "OT".into() };
            let mut s = String::from("LF [");
            for i in 0..leaf.cell_count() as usize {
                if i > 0 { s.push(';'); }
                let slot = match leaf.slot_at(i) { Ok(x) => *x, Err(_) => { s.push_str("C4 (-1) 0 0 1"); continue; } };
                let key = leaf.key_at(i).unwrap_or(&[]);
                let vl = leaf.value_len_at(i).map(|v| v as i64).unwrap_or(-1);
                let k = key_idx.get(key).copied().unwrap_or(-1);
                let kz = if k < 0 { "(-1)".to_string() } else { k.to_string() };
                let vz = if vl < 0 { "(-1)".to_string() } else { vl.to_string() };
                let pd = slot.prefix_as_u32() as i64 - u32::from_be_bytes(extract_prefix(key)) as i64
                    + if slot.key_len() as usize != key.len() { 1 << 40 } else { 0 };
                if pd == 0 { s.push_str(&format!("C3 {} {} {}", kz, slot.offset(), vz)); }
                else { s.push_str(&format!("C4 {} {} {} ({})", kz, slot.offset(), vz, pd)); }
            }
            s.push_str(&format!("] {} {} {}", fs, fe, leaf.next_leaf()));
            s
        }
        PageType::BTreeInterior => {
            let node = match InteriorNode::from_page(bytes) { Ok(l) => l, Err(_) => return "OT".into() };
            let mut s = String::from("IN [");
            for i in 0..node.cell_count() as usize {
                if i > 0 { s.push(';'); }
                let slot = match node.slot_at(i) { Ok(x) => *x, Err(_) => { s.push_str("S4 (-1) 0 0 1"); continue; } };
                let key = node.key_at(i).unwrap_or(&[]);
                let k = key_idx.get(key).copied().unwrap_or(-1);
                let kz = if k < 0 { "(-1)".to_string() } else { k.to_string() };
                let pd = slot.prefix_as_u32() as i64 - u32::from_be_bytes(extract_prefix(key)) as i64
                    + if slot.key_len() as usize != key.len() { 1 << 40 } else { 0 };
                if pd == 0 { s.push_str(&format!("S3 {} {} {}", kz, slot.child_page(), slot.offset())); }
                else { s.push_str(&format!("S4 {} {} {} ({})", kz, slot.child_page(), slot.offset(), pd)); }
            }
            s.push_str(&format!("] {} {} {}", node.right_child(), fs, fe));
            s
        }
        _ => "OT".into(),
    }
}
