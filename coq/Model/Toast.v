(* C11 model, part 1: TOAST (src/storage/toast.rs, src/database/toast.rs).
   Regenerated from the source on every run (Gen/Toast.v): the four constants, is_toast_pointer,
   needs_toast, parse_chunk_key, ToastPointer::row_id / column_index.
   Hand-modelled here (outside the translator subset: array-valued returns, div_ceil, structs):
   ToastPointer::new / encode / decode, chunk_count, make_chunk_key, `data.chunks(TOAST_CHUNK_SIZE)`,
   the chunk loops of toast_value / detoast_value / delete_toast_chunks over the toast B-tree.
   The toast B-tree is a finite map from (chunk_id, chunk_seq) to chunk bytes whose insert fails on
   an existing key (BTree::insert: "key already exists"); that the 12-byte keys are in bijection
   with the pairs and sorted like them is proved in Proof/ToastCodec.v.
   Definitions only. *)
From Coq Require Import ZArith List Bool.
From TV Require Import Lib.MachInt Gen.Toast.
Import ListNotations.
Open Scope Z_scope.

(* ---- ToastPointer *)
(* new(row_id, column_index, total_size): chunk_id = ((column_index as u64) << 48) | row_id  (u64 << wraps off the top) *)
Definition chunk_id_of (row_id col : Z) : Z := Z.lor (wrap_u 64 (col * 2 ^ 48)) row_id.

(* encode: marker, total_size LE, chunk_id LE *)
Definition ptr_encode (total cid : Z) : list Z := TOAST_MARKER :: le_bytes 8 total ++ le_bytes 8 cid.

(* decode: Err when shorter than 17 bytes or wrong marker; longer input is accepted *)
Definition ptr_decode (b : list Z) : option (Z * Z) :=
  if blen b >=? TOAST_POINTER_SIZE then
    if bidx b 0 =? TOAST_MARKER then Some (from_le (bslice b 1 9), from_le (bslice b 9 17)) else None
  else None.

(* total_size.div_ceil(TOAST_CHUNK_SIZE) on usize *)
Definition chunk_count (total : Z) : Z := (total + (TOAST_CHUNK_SIZE - 1)) / TOAST_CHUNK_SIZE.

(* make_chunk_key: chunk_id BE (8) ++ chunk_seq BE (4) *)
Definition make_chunk_key (cid seq : Z) : list Z := be_bytes 8 cid ++ be_bytes 4 seq.

(* lexicographic order on byte strings (the B-tree's key order, memcmp) *)
Fixpoint lex_lt (a b : list Z) : bool :=
  match a, b with
  | [], [] => false
  | [], _ :: _ => true
  | _ :: _, [] => false
  | x :: a', y :: b' => (x <? y) || ((x =? y) && lex_lt a' b')
  end.

(* ---- data.chunks(n): pieces of n bytes, the last one shorter; none for empty data *)
Fixpoint chunks_fuel (fuel : nat) (n : nat) (d : list Z) : list (list Z) :=
  match fuel with
  | O => []
  | S f => match d with
           | [] => []
           | _ :: _ => firstn n d :: chunks_fuel f n (skipn n d)
           end
  end.
Definition chunks (n : nat) (d : list Z) : list (list Z) := chunks_fuel (length d) n d.
Definition CHUNK : nat := Z.to_nat TOAST_CHUNK_SIZE.

(* ---- the toast table as a map (chunk_id, chunk_seq) -> chunk *)
Definition tmap := (Z * Z) -> option (list Z).
Definition tempty : tmap := fun _ => None.
Definition key_eqb (a b : Z * Z) : bool := (fst a =? fst b) && (snd a =? snd b).
Definition tupd (m : tmap) (k : Z * Z) (c : list Z) : tmap := fun k' => if key_eqb k k' then Some c else m k'.

(* toast_value's loop: for (seq, chunk) in data.chunks(4000).enumerate() { btree.insert(key(chunk_id, seq as u32), chunk)? }
   returns the map reached and whether every insert succeeded (the first duplicate key stops the loop;
   the chunks inserted before it stay) *)
Fixpoint write_chunks (m : tmap) (cid seq : Z) (cs : list (list Z)) : tmap * bool :=
  match cs with
  | [] => (m, true)
  | c :: t =>
      let k := (cid, wrap_u 32 seq) in
      match m k with
      | Some _ => (m, false)
      | None => write_chunks (tupd m k c) cid (seq + 1) t
      end
  end.
Definition toast_write (m : tmap) (cid : Z) (d : list Z) : tmap * bool := write_chunks m cid 0 (chunks CHUNK d).

(* detoast_value's loop: for seq in 0..num_chunks { search key(chunk_id, seq as u32) or Err; extend } *)
Fixpoint read_chunks (m : tmap) (cid seq : Z) (n : nat) : option (list Z) :=
  match n with
  | O => Some []
  | S n' => match m (cid, wrap_u 32 seq) with
            | None => None
            | Some c => match read_chunks m cid (seq + 1) n' with
                        | None => None
                        | Some r => Some (c ++ r)
                        end
            end
  end.

Inductive dres := DOk (d : list Z) | DErr | DPanic | DAbort | DUnknown.

(* Vec::with_capacity(total_size): more than isize::MAX bytes panics ("capacity overflow"); a request the
   allocator cannot satisfy aborts the process.  The allocator's limit is the machine's: requests below
   2^31 bytes are taken to succeed, requests of 2^47 bytes (the user address space) or more to fail; the
   band between is not modelled (DUnknown: agrees with no observation; no generated case lies there). *)
Definition ALLOC_OK : Z := 2 ^ 31.
Definition ALLOC_FAIL : Z := 2 ^ 47.

Definition detoast (m : tmap) (ptr : list Z) : dres :=
  match ptr_decode ptr with
  | None => DErr
  | Some (total, cid) =>
      if 2 ^ 63 <=? total then DPanic
      else if ALLOC_FAIL <=? total then DAbort
      else if ALLOC_OK <=? total then DUnknown
      else match read_chunks m cid 0 (Z.to_nat (chunk_count total)) with
           | None => DErr
           | Some r => DOk (firstn (Z.to_nat total) r)
           end
  end.

(* delete_toast_chunks(row_id, column_index, total_size): deletes keys (chunk_id, 0..chunk_count-1), errors ignored.
   (seq as u32 wraps: with 2^32 or more chunks every seq is hit) *)
Definition del_chunks (m : tmap) (cid n : Z) : tmap :=
  fun k => if (fst k =? cid) && ((snd k <? n) || (2 ^ 32 <=? n)) then None else m k.

(* what delete_toast_chunks is called with for a stored pointer: ToastPointer::decode, then
   row_id() / column_index() (regenerated) put back together by ToastPointer::new *)
Definition del_pointer (m : tmap) (ptr : list Z) : tmap :=
  match ptr_decode ptr with
  | None => m
  | Some (total, cid) =>
      del_chunks m (chunk_id_of (ptr_row_id total cid) (ptr_column_index total cid)) (chunk_count total)
  end.
