//! C07 -- ROLLBACK, ROLLBACK TO SAVEPOINT and dropping a handle restore the earlier state.
//!   c07 gen    --seed S --tier T --out DIR [--lines FILE]
//!   c07 search --seed S --budget N --out FILE     (oracle only: run A vs run B on the implementation)
//!   c07 sql FILE | c07 show --lines FILE          (debugging aids)
//! One `seg` case = one history run twice on two fresh databases of the real implementation:
//!   run A: P ++ T        run B: P ++ M ++ T
//! where M is `BEGIN; body; ROLLBACK`, `BEGIN; body; <drop handle>` or `SAVEPOINT n; body;
//! ROLLBACK TO n`.  After every statement: result, SELECT * and COUNT(*); in T also the equality
//! lookups on id and on c1 over the values used by the case.  The judge is coq/Corr/C07.v.
//! One `big` case = n0 wide rows, then BEGIN; k inserts; ROLLBACK (root split inside the
//! transaction when n0 + k exceeds one leaf).
#[path = "sqlgen/mod.rs"]
mod sqlgen;
#[path = "txn_common/mod.rs"]
mod txn_common;
use sqlgen::*;
use std::collections::BTreeMap;
use tvh::*;
use txn_common::*;

#[derive(Clone, Debug, PartialEq)]
struct SegCase { sch: Schema, p: Vec<Op>, m: Vec<Op>, t: Vec<Op> }

fn seg_line(c: &SegCase) -> String {
    format!("seg {} P={} M={} T={}", c.sch.to_line(), ops_tok(&c.p), ops_tok(&c.m), ops_tok(&c.t))
}
fn fields(l: &str) -> BTreeMap<String, String> {
    let mut f = BTreeMap::new();
    for w in l.split_whitespace() { if let Some((k, v)) = w.split_once('=') { f.insert(k.to_string(), v.to_string()); } }
    f
}
fn parse_seg(l: &str) -> Option<SegCase> {
    let l = l.split(" #").next().unwrap_or(l).trim();
    let rest = l.strip_prefix("seg ")?;
    // the three op lists may contain '=' themselves: cut them off first
    let (head, t) = rest.split_once(" T=")?;
    let (head, m) = head.split_once(" M=")?;
    let (head, p) = head.split_once(" P=")?;
    let sch = Schema::from_fields(&fields(head))?;
    Some(SegCase { sch, p: ops_from(p)?, m: ops_from(m)?, t: ops_from(t)? })
}

fn val_key(v: &Val) -> (u8, i64, Vec<u8>) {
    match v { Val::Null => (0, 0, vec![]), Val::Int(i) => (1, *i, vec![]), Val::Text(t) => (2, 0, t.clone()), _ => (3, 0, vec![]) }
}
fn domains(c: &SegCase) -> (Vec<Val>, Vec<Val>) {
    let mut d0: Vec<Val> = vec![];
    let mut d1: Vec<Val> = vec![];
    let mut add = |col: u8, v: &Val, d0: &mut Vec<Val>, d1: &mut Vec<Val>| {
        if v.is_null() { return; }
        let d = if col == 0 { d0 } else { d1 };
        if !d.contains(v) { d.push(v.clone()); }
    };
    for o in c.p.iter().chain(c.m.iter()).chain(c.t.iter()) {
        match o {
            Op::Ins(rows) => for r in rows { add(0, &r.0, &mut d0, &mut d1); add(1, &r.1, &mut d0, &mut d1); },
            Op::Upd(sc, v, w) => { add(*sc, v, &mut d0, &mut d1); if let Some((wc, wv)) = w { add(*wc, wv, &mut d0, &mut d1); } }
            Op::Del(Some((wc, wv))) => add(*wc, wv, &mut d0, &mut d1),
            _ => {}
        }
    }
    d0.sort_by_key(val_key);
    d1.sort_by_key(val_key);
    d0.truncate(9);
    d1.truncate(7);
    (d0, d1)
}

fn run_ops(sut: &mut Sut, sch: &Schema, ops: &[Op], full_from: usize, d0: &[Val], d1: &[Val]) -> Result<Vec<SObs>, String> {
    let mut live = sut.fresh(&sch.create_sql(), 1)?;
    let mut out = vec![];
    for (i, o) in ops.iter().enumerate() {
        let full = if i >= full_from { Some((d0, d1)) } else { None };
        out.push(live.step(0, sch, o, full));
    }
    live.close();
    Ok(out)
}
fn run_seg(sut: &mut Sut, c: &SegCase) -> Result<(Vec<Val>, Vec<Val>, Vec<SObs>, Vec<SObs>), String> {
    let (d0, d1) = domains(c);
    let a_ops: Vec<Op> = c.p.iter().chain(c.t.iter()).cloned().collect();
    let b_ops: Vec<Op> = c.p.iter().chain(c.m.iter()).chain(c.t.iter()).cloned().collect();
    let ra = run_ops(sut, &c.sch, &a_ops, c.p.len(), &d0, &d1)?;
    let rb = run_ops(sut, &c.sch, &b_ops, c.p.len() + c.m.len(), &d0, &d1)?;
    Ok((d0, d1, ra, rb))
}
fn seg_term(c: &SegCase, d0: &[Val], d1: &[Val], ra: &[SObs], rb: &[SObs]) -> String {
    let vl = |d: &[Val]| format!("[{}]", d.iter().map(|v| v.to_coq()).collect::<Vec<_>>().join("; "));
    let ol = |r: &[SObs]| format!("[{}]", r.iter().map(|o| o.to_coq()).collect::<Vec<_>>().join(";\n      "));
    format!("Seg {} {} {}\n    {}\n    {}\n    {}\n    {}\n    {}", c.sch.to_coq(), vl(d0), vl(d1), ops_coq(&c.p), ops_coq(&c.m), ops_coq(&c.t), ol(ra), ol(rb))
}

// ------------------------------------------------------------------ Rust ports of seg_wf / known_class / spec (Corr/C07.v)
fn track(ops: &[Op]) -> Option<Vec<i64>> {
    let mut st: Option<Vec<i64>> = None;
    for o in ops {
        st = match (o, st) {
            (Op::Begin, None) => Some(vec![]),
            (Op::Commit | Op::Rollback | Op::Drop, Some(_)) => None,
            (Op::Save(n), Some(mut l)) => { l.push(*n); Some(l) }
            (Op::RollTo(n), Some(mut l)) => { if let Some(i) = l.iter().position(|x| x == n) { l.truncate(i + 1); } Some(l) }
            (Op::Release(n), Some(mut l)) => { if let Some(i) = l.iter().position(|x| x == n) { l.remove(i); } Some(l) }
            (_, s) => s,
        };
    }
    st
}
fn body_ok(outer: &[i64], body: &[Op]) -> bool {
    let mut inner: Vec<i64> = vec![];
    for o in body {
        match o {
            Op::Commit | Op::Rollback | Op::Drop => return false,
            Op::Save(n) => { if outer.contains(n) { return false; } inner.push(*n); }
            Op::RollTo(n) => match inner.iter().position(|x| x == n) { Some(i) => inner.truncate(i + 1), None => return false },
            Op::Release(n) => match inner.iter().position(|x| x == n) { Some(i) => { inner.remove(i); } None => return false },
            _ => {}
        }
    }
    true
}
fn seg_wf(p: &[Op], m: &[Op]) -> bool {
    if m.len() < 2 { return false; }
    let body = &m[1..m.len() - 1];
    match (&m[0], track(p)) {
        (Op::Begin, None) => matches!(m[m.len() - 1], Op::Rollback | Op::Drop) && body_ok(&[], body),
        (Op::Save(n), Some(outer)) => {
            if outer.contains(n) { return false; }
            let mut o2 = outer.clone();
            o2.push(*n);
            m[m.len() - 1] == Op::RollTo(*n) && body_ok(&o2, body)
        }
        _ => false,
    }
}
fn known_class(c: &SegCase, rb: &[SObs]) -> i64 {
    let sch = &c.sch;
    let is_kupd = |o: &Op| matches!(o, Op::Upd(0, _, _));
    let is_upd = |o: &Op| matches!(o, Op::Upd(..));
    let is_del = |o: &Op| matches!(o, Op::Del(_));
    let is_ins = |o: &Op| matches!(o, Op::Ins(_));
    let is_undo = |o: &Op| matches!(o, Op::Rollback | Op::RollTo(_) | Op::Drop);
    let partial = c.m.iter().zip(rb.iter().skip(c.p.len())).any(|(o, ob)| matches!(o, Op::Ins(r) if r.len() >= 2) && matches!(ob.res, Res::Err(_)));
    if c.m.iter().any(is_del) { return if !sch.keyed() { 1 } else if sch.int_pk() { 8 } else { 9 }; }
    if sch.keyed() && c.m.iter().any(is_kupd) { return if sch.int_pk() { 2 } else { 10 }; }
    if sch.sec && (c.m.iter().any(|o| matches!(o, Op::Upd(1, _, _))) || (sch.int_pk() && c.m.iter().any(|o| o.is_write()))) { return 3; }
    if partial { return 5; }
    if sch.int_pk() && c.m.iter().any(is_ins) && c.p.iter().chain(c.t.iter()).any(|o| is_kupd(o) || is_undo(o)) { return 7; }
    0
}
fn bag(rows: &[TRow]) -> Vec<String> { let mut v: Vec<String> = rows.iter().map(|r| format!("{},{}", r.0.to_tok(), r.1.to_tok())).collect(); v.sort(); v }
fn sobs_same(a: &SObs, b: &SObs) -> bool {
    a.res.same(&b.res) && bag(&a.rows) == bag(&b.rows) && a.cnt == b.cnt && match (&a.lk, &b.lk) {
        (None, None) => true,
        (Some((x0, x1)), Some((y0, y1))) => x0.len() == y0.len() && x1.len() == y1.len()
            && x0.iter().zip(y0.iter()).all(|(p, q)| bag(p) == bag(q)) && x1.iter().zip(y1.iter()).all(|(p, q)| bag(p) == bag(q)),
        _ => false,
    }
}
/// the property on one case: the tail observations of run A and run B coincide
fn spec_holds(c: &SegCase, ra: &[SObs], rb: &[SObs]) -> bool {
    if !seg_wf(&c.p, &c.m) { return true; }
    let n = c.t.len();
    if ra.len() < n || rb.len() < n { return false; }
    ra[ra.len() - n..].iter().zip(rb[rb.len() - n..].iter()).all(|(a, b)| sobs_same(a, b))
}

// ------------------------------------------------------------------ generators
struct Dom { c0: Vec<Val>, c1: Vec<Val>, null0: bool }

fn gen_schema(rng: &mut Rng, clean: bool) -> Schema {
    let kind = match rng.below(8) { 0 | 1 => KKind::None, 2 | 3 => KKind::Uniq, _ => KKind::Pk };
    let text_key = rng.chance(35, 100);
    let mut sec = rng.chance(35, 100);
    if clean && kind == KKind::Pk && !text_key { sec = false; }
    Schema { kind, text_key, sec, pad: rng.chance(1, 4), wal: rng.chance(1, 8) }
}
fn gen_dom(rng: &mut Rng, sch: &Schema) -> Dom {
    let mut c0: Vec<Val> = if sch.text_key {
        ["a", "b", "c", "d", "e", "f"].iter().map(|s| Val::text(s)).collect()
    } else {
        (1..=7).map(Val::Int).collect()
    };
    if rng.chance(1, 4) {
        if sch.text_key { c0.push(Val::text(*rng.pick(&["", "ab", "zz", "A"]))); } else { c0.push(Val::Int(*rng.pick(&[0i64, -3, 1000, 9_000_000_000]))); }
    }
    let mut c1: Vec<Val> = (1..=5).map(Val::Int).collect();
    if rng.chance(1, 5) { c1.push(Val::Int(*rng.pick(&[0i64, -2, 77]))); }
    Dom { c0, c1, null0: sch.kind != KKind::Pk && rng.chance(1, 3) }
}
fn gen_row(rng: &mut Rng, d: &Dom) -> TRow {
    let a = if d.null0 && rng.chance(1, 8) { Val::Null } else { rng.pick(&d.c0).clone() };
    let b = if rng.chance(1, 10) { Val::Null } else { rng.pick(&d.c1).clone() };
    (a, b)
}
fn gen_where(rng: &mut Rng, d: &Dom) -> WClause {
    match rng.below(10) { 0..=4 => Some((0, rng.pick(&d.c0).clone())), 5..=7 => Some((1, rng.pick(&d.c1).clone())), _ => None }
}
#[derive(Clone, Copy)]
struct Allow { del: bool, kupd: bool, upd1: bool, multi: bool }
fn gen_dml(rng: &mut Rng, d: &Dom, al: Allow) -> Op {
    loop {
        match rng.below(10) {
            0..=4 => {
                let n = if al.multi && rng.chance(1, 4) { 2 + rng.below(2) as usize } else { 1 };
                return Op::Ins((0..n).map(|_| gen_row(rng, d)).collect());
            }
            5 | 6 => if al.upd1 { let v = if rng.chance(1, 10) { Val::Null } else { rng.pick(&d.c1).clone() }; return Op::Upd(1, v, gen_where(rng, d)); },
            7 => if al.kupd { return Op::Upd(0, rng.pick(&d.c0).clone(), gen_where(rng, d)); },
            _ => if al.del { return Op::Del(gen_where(rng, d)); },
        }
    }
}
fn seed_rows(rng: &mut Rng, d: &Dom) -> Op {
    let n = 2 + rng.below(3) as usize;
    let mut keys = d.c0.clone();
    let mut rows = vec![];
    for _ in 0..n {
        if keys.is_empty() { break; }
        let i = rng.below(keys.len() as u64) as usize;
        let k = keys.remove(i);
        rows.push((k, rng.pick(&d.c1).clone()));
    }
    Op::Ins(rows)
}

fn gen_case(rng: &mut Rng) -> (SegCase, &'static str) {
    let clean = rng.chance(72, 100);
    let sch = gen_schema(rng, clean);
    let d = gen_dom(rng, &sch);
    let int_pk = sch.int_pk();
    let segtype = match rng.below(20) { 0..=9 => 0, 10..=12 => 1, _ => 2 }; // 0 begin..rollback, 1 begin..drop, 2 savepoint
    // what the body of M may contain
    let m_al = if clean { Allow { del: false, kupd: false, upd1: !sch.sec, multi: rng.chance(1, 2) } } else { Allow { del: true, kupd: true, upd1: true, multi: true } };
    // the prefix
    let p_al = if clean { Allow { del: true, kupd: false, upd1: true, multi: true } } else { Allow { del: true, kupd: true, upd1: true, multi: true } };
    let t_al = if clean { Allow { del: true, kupd: false, upd1: true, multi: false } } else { Allow { del: true, kupd: true, upd1: true, multi: true } };
    let mut p: Vec<Op> = vec![];
    if rng.chance(85, 100) { p.push(seed_rows(rng, &d)); }
    for _ in 0..rng.below(5) {
        if !clean && rng.chance(1, 6) {
            p.push(Op::Begin);
            for _ in 0..1 + rng.below(3) { p.push(gen_dml(rng, &d, p_al)); }
            p.push(if rng.chance(1, 2) { Op::Commit } else { Op::Rollback });
        } else {
            p.push(gen_dml(rng, &d, p_al));
        }
    }
    let mut outer: Vec<i64> = vec![];
    if segtype == 2 {
        p.push(Op::Begin);
        for _ in 0..rng.below(3) { p.push(gen_dml(rng, &d, p_al)); }
        if rng.chance(1, 3) { outer.push(90); p.push(Op::Save(90)); if rng.chance(1, 2) { p.push(gen_dml(rng, &d, p_al)); } }
    }
    // the segment
    let mark = 1i64;
    let mut m: Vec<Op> = vec![if segtype == 2 { Op::Save(mark) } else { Op::Begin }];
    let mut inner: Vec<i64> = vec![];
    let mut next_name = 2i64;
    let steps = 1 + rng.below(6);
    for _ in 0..steps {
        match rng.below(100) {
            0..=67 => m.push(gen_dml(rng, &d, m_al)),
            68..=79 => { let n = if !clean && rng.chance(1, 6) && !inner.is_empty() { *rng.pick(&inner) } else { next_name += 1; next_name - 1 }; inner.push(n); m.push(Op::Save(n)); }
            80..=88 => if !inner.is_empty() { let n = *rng.pick(&inner); let i = inner.iter().position(|x| *x == n).unwrap(); inner.truncate(i + 1); m.push(Op::RollTo(n)); } else { m.push(gen_dml(rng, &d, m_al)); },
            89..=94 => if !inner.is_empty() { let n = *rng.pick(&inner); let i = inner.iter().position(|x| *x == n).unwrap(); inner.remove(i); m.push(Op::Release(n)); } else { m.push(gen_dml(rng, &d, m_al)); },
            _ => if clean { m.push(Op::Begin) } else {
                m.push(match rng.below(4) { 0 => Op::RollTo(77), 1 => Op::Release(78), 2 => Op::Begin, _ => if !outer.is_empty() { Op::Release(outer[0]) } else { Op::Save(mark) } });
            },
        }
    }
    m.push(match segtype { 0 => Op::Rollback, 1 => Op::Drop, _ => Op::RollTo(mark) });
    // the tail
    let mut t: Vec<Op> = vec![Op::Obs];
    for _ in 0..2 + rng.below(4) {
        if rng.chance(1, 2) { t.push(Op::Ins(vec![gen_row(rng, &d)])); } else { t.push(gen_dml(rng, &d, t_al)); }
    }
    if segtype == 2 {
        let m_has_ins = m.iter().any(|o| matches!(o, Op::Ins(_)));
        let end = if clean && int_pk && m_has_ins { Op::Commit } else if rng.chance(1, 2) { Op::Commit } else { Op::Rollback };
        if rng.chance(3, 4) { t.push(end); t.push(Op::Ins(vec![gen_row(rng, &d)])); }
    }
    let st = match segtype { 0 => "begin_rollback", 1 => "begin_drop", _ => "savepoint" };
    (SegCase { sch, p, m, t }, st)
}

// ------------------------------------------------------------------ big cases (root split inside the transaction)
#[derive(Clone, Debug)]
struct BigCase { n0: i64, k: i64, wal: bool }
struct BigObs { rootr: i64, len_a: i64, cnt_a: i64, len_b: i64, cnt_b: i64 }
fn big_line(c: &BigCase) -> String { format!("big n0={} k={} wal={}", c.n0, c.k, c.wal as u8) }
fn parse_big(l: &str) -> Option<BigCase> {
    let l = l.split(" #").next().unwrap_or(l).trim();
    let f = fields(l.strip_prefix("big ")?);
    Some(BigCase { n0: f.get("n0")?.parse().ok()?, k: f.get("k")?.parse().ok()?, wal: f.get("wal")? == "1" })
}
fn root_page_of(path: &std::path::Path) -> i64 {
    use std::io::Read;
    let f = path.join(turdb::storage::DEFAULT_SCHEMA).join("t.tbd");
    let mut buf = vec![0u8; 128];
    match std::fs::File::open(&f).and_then(|mut h| h.read_exact(&mut buf)) {
        Ok(()) => turdb::storage::TableFileHeader::from_bytes(&buf).map(|h| h.root_page() as i64).unwrap_or(-1),
        Err(_) => -1,
    }
}
fn run_big(sut: &mut Sut, c: &BigCase) -> Result<BigObs, String> {
    let pad = "w".repeat(900);
    let ddl = vec![format!("PRAGMA wal={}", if c.wal { "ON" } else { "OFF" }), "CREATE TABLE t (id BIGINT PRIMARY KEY, c1 BIGINT, c2 TEXT)".to_string()];
    let mut obs = |with_txn: bool, sut: &mut Sut| -> Result<(i64, i64, i64), String> {
        let mut live = sut.fresh(&ddl, 1)?;
        for i in 1..=c.n0 { if let Res::Err(e) = live.exec(0, &format!("INSERT INTO t VALUES ({}, {}, '{}')", i, i, pad)) { return Err(e); } }
        let mut root = 1;
        if with_txn {
            live.exec(0, "BEGIN");
            for i in c.n0 + 1..=c.n0 + c.k { if let Res::Err(e) = live.exec(0, &format!("INSERT INTO t VALUES ({}, {}, '{}')", i, i, pad)) { return Err(e); } }
            root = root_page_of(&live.path);
            live.exec(0, "ROLLBACK");
        }
        let sch = Schema { kind: KKind::Pk, text_key: false, sec: false, pad: false, wal: c.wal };
        let len = match catch(std::panic::AssertUnwindSafe(|| live.hs[0].as_ref().unwrap().query("SELECT id FROM t ORDER BY id"))) { Caught::Done(Ok(r)) => r.len() as i64, _ => -1 };
        let _ = sch;
        let cnt = live.count(0).unwrap_or(-1);
        live.close();
        Ok((root, len, cnt))
    };
    let (_, len_a, cnt_a) = obs(false, sut)?;
    let (rootr, len_b, cnt_b) = obs(true, sut)?;
    Ok(BigObs { rootr, len_a, cnt_a, len_b, cnt_b })
}

// ------------------------------------------------------------------ modes
fn main() {
    let a = Args::parse();
    match a.mode.as_str() {
        "gen" => gen(&a),
        "search" => search(&a),
        "sql" => sql_mode(&a, "C07"),
        "show" => show(&a),
        _ => { eprintln!("c07: unknown mode"); std::process::exit(2); }
    }
}

fn show(a: &Args) {
    let mut sut = Sut::new("C07");
    for l in a.replay_lines().unwrap_or_default() {
        if let Some(c) = parse_seg(&l) {
            println!("-- {}", l);
            for q in c.sch.create_sql() { println!("{}", q); }
            for (name, ops) in [("P", &c.p), ("M", &c.m), ("T", &c.t)] { for o in ops.iter() { println!("{}: {}", name, o.to_sql(&c.sch).unwrap_or_else(|| format!("<{}>", o.to_tok()))); } }
            if let Ok((d0, d1, ra, rb)) = run_seg(&mut sut, &c) {
                println!("wf={} class={} spec={}", seg_wf(&c.p, &c.m), known_class(&c, &rb), spec_holds(&c, &ra, &rb));
                let n = c.t.len();
                println!("d0={:?} d1={:?}", d0.iter().map(|v| v.to_sql()).collect::<Vec<_>>(), d1.iter().map(|v| v.to_sql()).collect::<Vec<_>>());
                for (x, y) in ra[ra.len() - n..].iter().zip(rb[rb.len() - n..].iter()) { if !sobs_same(x, y) || a.rest.iter().any(|r| r == "-v") { println!("A {}\nB {}", x.to_coq(), y.to_coq()); } }
                if a.rest.iter().any(|r| r == "--term") { println!("{}", seg_term(&c, &d0, &d1, &ra, &rb)); }
            }
        }
    }
    sut.cleanup();
}

fn gen(a: &Args) {
    let mut rng = Rng::new(a.seed);
    let mut w = CaseWriter::new(&a.out, "C07", "Corr.C07", 40);
    let mut sut = Sut::new("C07");
    let mut segs: Vec<(SegCase, String)> = vec![];
    let mut bigs: Vec<BigCase> = vec![];
    if let Some(lines) = a.replay_lines() {
        for l in lines {
            if let Some(c) = parse_seg(&l) { segs.push((c, "replay".into())); }
            else if let Some(b) = parse_big(&l) { bigs.push(b); }
        }
    } else {
        let n = if a.thorough() { 4000 } else { 170 };
        for _ in 0..n { let (c, st) = gen_case(&mut rng); segs.push((c, st.to_string())); }
        let nb = if a.thorough() { 40 } else { 6 };
        for i in 0..nb {
            let n0 = if i % 3 == 0 { 0 } else { rng.range(1, 14) };
            let k = if i % 2 == 0 { rng.range(1, 5) } else { rng.range(6, 30) };
            bigs.push(BigCase { n0, k, wal: rng.chance(1, 6) });
        }
    }
    let mut in_class = 0u64;
    let mut spec_fail = 0u64;
    for (c, st) in segs {
        match run_seg(&mut sut, &c) {
            Ok((d0, d1, ra, rb)) => {
                let cls = known_class(&c, &rb);
                let wf = seg_wf(&c.p, &c.m);
                if cls != 0 { in_class += 1; }
                if !spec_holds(&c, &ra, &rb) { spec_fail += 1; }
                let effective = c.m.iter().zip(rb.iter().skip(c.p.len())).any(|(o, ob)| o.is_write() && matches!(ob.res, Res::Aff(n) if n > 0));
                let kind = format!("{}:{}:{}", c.sch.bucket(), st, if !wf { "not_a_segment".to_string() } else if cls == 0 { "clean".to_string() } else { format!("class{}", cls) });
                w.push(seg_term(&c, &d0, &d1, &ra, &rb), seg_line(&c), wf && effective, &kind);
            }
            Err(e) => { eprintln!("c07: case skipped ({}): {}", e, seg_line(&c)); w.count("skipped", 1); }
        }
    }
    for b in bigs {
        match run_big(&mut sut, &b) {
            Ok(o) => {
                let term = format!("Big {} {} {} {} {} {} {}", b.n0, b.k, z(o.rootr as i128), z(o.len_a as i128), z(o.cnt_a as i128), z(o.len_b as i128), z(o.cnt_b as i128));
                let kind = if o.rootr == 1 { "big:one_leaf" } else { "big:root_moved" };
                w.push(term, big_line(&b), true, kind);
            }
            Err(e) => { eprintln!("c07: big case skipped ({})", e); w.count("skipped", 1); }
        }
    }
    sut.cleanup();
    w.finish(&[("cases_in_known_classes".to_string(), in_class.to_string()), ("spec_failures_seen_by_harness".to_string(), spec_fail.to_string())]);
}

/// Oracle only: run A vs run B on the implementation, no model.
fn search(a: &Args) {
    let mut rng = Rng::new(a.seed ^ 0xC07_5EA7);
    let mut sut = Sut::new("C07");
    let mut fails: Vec<String> = vec![];
    let mut tried = 0u64;
    let t0 = std::time::Instant::now();
    while tried < a.budget && t0.elapsed().as_secs() < 600 && fails.len() < 40 {
        let (c, _) = gen_case(&mut rng);
        tried += 1;
        if let Ok((_, _, ra, rb)) = run_seg(&mut sut, &c) {
            if !spec_holds(&c, &ra, &rb) { fails.push(format!("{} #class={}", seg_line(&c), known_class(&c, &rb))); }
        }
    }
    for (n0, k) in [(0i64, 3i64), (5, 4), (8, 12), (0, 25), (14, 6)] {
        let b = BigCase { n0, k, wal: false };
        tried += 1;
        if let Ok(o) = run_big(&mut sut, &b) { if o.len_a != o.len_b || o.cnt_a != o.cnt_b { fails.push(format!("{} #class={}", big_line(&b), if o.rootr == 1 { 0 } else { 6 })); } }
    }
    sut.cleanup();
    let mut out = format!("tried={}\n", tried);
    for f in &fails { out.push_str("FAIL "); out.push_str(f); out.push('\n'); }
    std::fs::write(&a.out, out).expect("write search output");
}
