(* C33 model: the spill formats.

   A. RowSerde (src/sql/row_serde.rs): serialize_row_into / serialize_value_into,
      deserialize_row_into / deserialize_value, row_size / value_size, hand-modelled (the
      functions match on the `Value` enum and push to a Vec, outside the translator subset).
      The 25 discriminant constants are NOT copied here: they are Gen/RowSerde.v,
      regenerated from the source on every run.
   B. the subquery spill format (src/sql/subquery/spill.rs, MaterializedRow::serialize /
      deserialize): little-endian, one tag byte per value, u32 value count per row.
   C. PartitionSpiller (src/sql/partition_spiller.rs) with one partition: rows stay in memory
      until the accumulated row_size exceeds the budget, from then on every row goes through A.

   Conventions: bytes are Z in [0,256); f64 / f32 values are their bit patterns (Z in
   [0,2^64) / [0,2^32)); text is its UTF-8 bytes.  Decoders work on the unread suffix of
   the buffer and return the rest; `deser_row_at` packages that as the (data, offset)
   interface of the code.  Every slice the code takes is preceded by an `ensure!` of the
   same range, so "not enough bytes" is Err (None) everywhere and no read can panic;
   usize overflow of offsets (buffers near 2^64 bytes) is not modelled.

   Definitions only, no proofs.  The model is faithful to the code as it is: every NaN is
   written as the NAN discriminant and read back as the canonical quiet NaN; the column count
   is truncated to u16 and byte lengths to u32 exactly as `as u16` / `as u32` do.
   History: before /repo commit d11dc56 the writer sent Float(+-0.0) to the data-less ZERO
   discriminant, which reads back as Int(0) (finding F-C33-1, fixed); now +-0.0 falls through
   to the POS_FLOAT arm (`-0.0 < 0.0` is false) and keeps its 8 bit-pattern bytes. *)
From Coq Require Import ZArith List Bool.
From TV Require Import Lib.MachInt Gen.RowSerde.
Import ListNotations.
Open Scope Z_scope.

Inductive value :=
| VNull
| VInt (i : Z)                                  (* i64 *)
| VFloat (bits : Z)                             (* f64 bit pattern *)
| VText (utf8 : list Z)
| VBlob (b : list Z)
| VVector (f32s : list Z)                       (* f32 bit patterns *)
| VUuid (b : list Z)                            (* [u8;16] *)
| VMacAddr (b : list Z)                         (* [u8;6] *)
| VInet4 (b : list Z)                           (* [u8;4] *)
| VInet6 (b : list Z)                           (* [u8;16] *)
| VJsonb (b : list Z)
| VTimestampTz (micros offset_secs : Z)         (* i64, i32 *)
| VInterval (micros days months : Z)            (* i64, i32, i32 *)
| VPoint (x y : Z)                              (* f64 patterns *)
| VGeoBox (l0 l1 h0 h1 : Z)
| VCircle (cx cy r : Z)
| VEnum (type_id ordinal : Z)                   (* u16, u16 *)
| VDecimal (digits scale : Z)                   (* i128, i16 *)
| VToast (b : list Z).

(* ------------------------------------------------------------------ f64 tests on bit patterns *)
Definition F64_INF : Z := 0x7FF0000000000000.
Definition F64_NEG_INF : Z := 0xFFF0000000000000.
Definition F64_NEG_ZERO : Z := 0x8000000000000000.
Definition F64_CANON_NAN : Z := 0x7FF8000000000000.      (* f64::NAN *)
(* f.is_nan(): magnitude bits above the infinity pattern *)
Definition f64_is_nan (p : Z) : bool := F64_INF <? p mod 2 ^ 63.
(* f == 0.0: +0.0 or -0.0 (no longer used by the writer; kept for the IEEE bridge of f64_lt_zero) *)
Definition f64_is_zero (p : Z) : bool := (p =? 0) || (p =? F64_NEG_ZERO).
(* f < 0.0 for a non-NaN f: sign bit set and not -0.0 *)
Definition f64_lt_zero (p : Z) : bool := negb (f64_is_nan p) && (F64_NEG_ZERO <? p).
Definition f32_is_nan (p : Z) : bool := 0x7F800000 <? p mod 2 ^ 31.

(* ------------------------------------------------------------------ UTF-8 (std::str::from_utf8 accepts exactly this) *)
Definition cont (b : Z) : bool := (128 <=? b) && (b <=? 191).
Fixpoint utf8_valid (s : list Z) : bool :=
  match s with
  | [] => true
  | b0 :: t0 =>
    if b0 <? 128 then utf8_valid t0
    else match t0 with
    | [] => false
    | b1 :: t1 =>
      if (194 <=? b0) && (b0 <=? 223) then cont b1 && utf8_valid t1
      else match t1 with
      | [] => false
      | b2 :: t2 =>
        if b0 =? 224 then (160 <=? b1) && (b1 <=? 191) && cont b2 && utf8_valid t2
        else if ((225 <=? b0) && (b0 <=? 236)) || (b0 =? 238) || (b0 =? 239) then cont b1 && cont b2 && utf8_valid t2
        else if b0 =? 237 then (128 <=? b1) && (b1 <=? 159) && cont b2 && utf8_valid t2
        else match t2 with
        | [] => false
        | b3 :: t3 =>
          if b0 =? 240 then (144 <=? b1) && (b1 <=? 191) && cont b2 && cont b3 && utf8_valid t3
          else if (241 <=? b0) && (b0 <=? 243) then cont b1 && cont b2 && cont b3 && utf8_valid t3
          else if b0 =? 244 then (128 <=? b1) && (b1 <=? 143) && cont b2 && cont b3 && utf8_valid t3
          else false
        end
      end
    end
  end.

(* ------------------------------------------------------------------ A. RowSerde: writer *)
Definition ser_value (v : value) : list Z :=
  match v with
  | VNull => [D_NULL]
  | VInt i =>
      if i <? 0 then D_NEG_INT :: be_bytes 8 i
      else if i =? 0 then [D_ZERO]
      else D_POS_INT :: be_bytes 8 i
  | VFloat p =>
      if f64_is_nan p then [D_NAN]
      else if p =? F64_NEG_INF then [D_NEG_INFINITY]
      else if p =? F64_INF then [D_POS_INFINITY]
      else if f64_lt_zero p then D_NEG_FLOAT :: be_bytes 8 p
      else D_POS_FLOAT :: be_bytes 8 p
  | VText b => D_TEXT :: be_bytes 4 (wrap_u 32 (blen b)) ++ b
  | VBlob b => D_BLOB :: be_bytes 4 (wrap_u 32 (blen b)) ++ b
  | VVector fs => D_VECTOR :: be_bytes 4 (wrap_u 32 (blen fs)) ++ flat_map (be_bytes 4) fs
  | VUuid b => D_UUID :: b
  | VMacAddr b => D_MACADDR :: b
  | VInet4 b => D_INET4 :: b
  | VInet6 b => D_INET6 :: b
  | VJsonb b => D_JSONB :: be_bytes 4 (wrap_u 32 (blen b)) ++ b
  | VTimestampTz m o => D_TIMESTAMPTZ :: be_bytes 8 m ++ be_bytes 4 o
  | VInterval m d mo => D_INTERVAL :: be_bytes 8 m ++ be_bytes 4 d ++ be_bytes 4 mo
  | VPoint x y => D_POINT :: be_bytes 8 x ++ be_bytes 8 y
  | VGeoBox a b c d => D_GEOBOX :: be_bytes 8 a ++ be_bytes 8 b ++ be_bytes 8 c ++ be_bytes 8 d
  | VCircle a b c => D_CIRCLE :: be_bytes 8 a ++ be_bytes 8 b ++ be_bytes 8 c
  | VEnum t o => D_ENUM :: be_bytes 2 t ++ be_bytes 2 o
  | VDecimal d s => D_DECIMAL :: be_bytes 16 d ++ be_bytes 2 s
  | VToast b => D_TOAST_POINTER :: be_bytes 4 (wrap_u 32 (blen b)) ++ b
  end.

(* what serialize_row_into appends to the buffer *)
Definition ser_row (row : list value) : list Z :=
  be_bytes 2 (wrap_u 16 (Z.of_nat (length row))) ++ flat_map ser_value row.

Definition ser_rows (rows : list (list value)) : list Z := flat_map ser_row rows.

(* row_size / value_size *)
Definition value_size (v : value) : Z :=
  match v with
  | VNull => 1
  | VInt i => if i =? 0 then 1 else 1 + 8
  | VFloat p =>
      if f64_is_nan p || (p =? F64_NEG_INF) || (p =? F64_INF) then 1 else 1 + 8
  | VText b => 1 + 4 + blen b
  | VBlob b => 1 + 4 + blen b
  | VVector fs => 1 + 4 + blen fs * 4
  | VUuid _ => 1 + 16
  | VMacAddr _ => 1 + 6
  | VInet4 _ => 1 + 4
  | VInet6 _ => 1 + 16
  | VJsonb b => 1 + 4 + blen b
  | VTimestampTz _ _ => 1 + 12
  | VInterval _ _ _ => 1 + 16
  | VPoint _ _ => 1 + 16
  | VGeoBox _ _ _ _ => 1 + 32
  | VCircle _ _ _ => 1 + 24
  | VEnum _ _ => 1 + 4
  | VDecimal _ _ => 1 + 18
  | VToast b => 1 + 4 + blen b
  end.
Definition row_size (row : list value) : Z := fold_left (fun acc v => acc + value_size v) row 2.

(* ------------------------------------------------------------------ A. RowSerde: reader *)
(* the next n bytes and the rest; None = the `ensure!(data.len() >= offset + n)` fails *)
Fixpoint take_z (s : list Z) (n : Z) : option (list Z * list Z) :=
  if n <=? 0 then Some ([], s)
  else match s with
       | [] => None
       | x :: t => match take_z t (n - 1) with Some (a, r) => Some (x :: a, r) | None => None end
       end.
Definition take (n : Z) (s : list Z) : option (list Z * list Z) :=
  if n <? 0 then None else take_z s n.
(* uN::from_be_bytes / iN::from_be_bytes of the next n bytes *)
Definition rd_u (n : nat) (s : list Z) : option (Z * list Z) :=
  match take (Z.of_nat n) s with Some (b, r) => Some (from_be b, r) | None => None end.
Definition rd_s (n : nat) (s : list Z) : option (Z * list Z) :=
  match take (Z.of_nat n) s with Some (b, r) => Some (wrap_s (8 * Z.of_nat n) (from_be b), r) | None => None end.
(* [len: u32] [bytes] *)
Definition rd_lp (s : list Z) : option (list Z * list Z) :=
  match rd_u 4 s with Some (n, r) => take n r | None => None end.
Fixpoint chunks4 (b : list Z) : list Z :=
  match b with
  | a :: b :: c :: d :: t => from_be [a; b; c; d] :: chunks4 t
  | _ => []
  end.

Definition bind {A B} (o : option (A * list Z)) (f : A -> list Z -> option B) : option B :=
  match o with Some (a, r) => f a r | None => None end.
Definition ret {A} (f : A -> value) (o : option (A * list Z)) : option (value * list Z) :=
  match o with Some (a, r) => Some (f a, r) | None => None end.

Definition deser_value (s : list Z) : option (value * list Z) :=
  match s with
  | [] => None                                                    (* missing discriminant *)
  | d :: s =>
    if d =? D_NULL then Some (VNull, s)
    else if d =? D_ZERO then Some (VInt 0, s)
    else if d =? D_NEG_INT then ret VInt (rd_s 8 s)
    else if d =? D_POS_INT then ret VInt (rd_s 8 s)
    else if d =? D_NAN then Some (VFloat F64_CANON_NAN, s)
    else if d =? D_NEG_INFINITY then Some (VFloat F64_NEG_INF, s)
    else if d =? D_POS_INFINITY then Some (VFloat F64_INF, s)
    else if d =? D_NEG_FLOAT then ret VFloat (rd_u 8 s)
    else if d =? D_POS_FLOAT then ret VFloat (rd_u 8 s)
    else if d =? D_TEXT then
      bind (rd_lp s) (fun b r => if utf8_valid b then Some (VText b, r) else None)
    else if d =? D_BLOB then ret VBlob (rd_lp s)
    else if d =? D_VECTOR then
      bind (rd_u 4 s) (fun n r => ret (fun b => VVector (chunks4 b)) (take (n * 4) r))
    else if d =? D_UUID then ret VUuid (take 16 s)
    else if d =? D_MACADDR then ret VMacAddr (take 6 s)
    else if d =? D_INET4 then ret VInet4 (take 4 s)
    else if d =? D_INET6 then ret VInet6 (take 16 s)
    else if d =? D_JSONB then ret VJsonb (rd_lp s)
    else if d =? D_TIMESTAMPTZ then
      bind (rd_s 8 s) (fun m r => ret (fun o => VTimestampTz m o) (rd_s 4 r))
    else if d =? D_INTERVAL then
      bind (rd_s 8 s) (fun m r => bind (rd_s 4 r) (fun dd r => ret (fun mo => VInterval m dd mo) (rd_s 4 r)))
    else if d =? D_POINT then
      bind (rd_u 8 s) (fun x r => ret (fun y => VPoint x y) (rd_u 8 r))
    else if d =? D_GEOBOX then
      bind (rd_u 8 s) (fun a r => bind (rd_u 8 r) (fun b r => bind (rd_u 8 r) (fun c r =>
        ret (fun d' => VGeoBox a b c d') (rd_u 8 r))))
    else if d =? D_CIRCLE then
      bind (rd_u 8 s) (fun a r => bind (rd_u 8 r) (fun b r => ret (fun c => VCircle a b c) (rd_u 8 r)))
    else if d =? D_ENUM then
      bind (rd_u 2 s) (fun t r => ret (fun o => VEnum t o) (rd_u 2 r))
    else if d =? D_DECIMAL then
      bind (rd_s 16 s) (fun dg r => ret (fun sc => VDecimal dg sc) (rd_s 2 r))
    else if d =? D_TOAST_POINTER then ret VToast (rd_lp s)
    else None                                                     (* unknown discriminant *)
  end.

(* `for _ in 0..col_count { out.push(deserialize_value(data, offset)?) }` *)
Fixpoint deser_values (n : nat) (s : list Z) : option (list value * list Z) :=
  match n with
  | O => Some ([], s)
  | S k =>
    match deser_value s with
    | None => None
    | Some (v, r) =>
      match deser_values k r with
      | None => None
      | Some (vs, r') => Some (v :: vs, r')
      end
    end
  end.

Definition deser_row (s : list Z) : option (list value * list Z) :=
  match rd_u 2 s with
  | Some (n, r) => deser_values (Z.to_nat n) r
  | None => None                                                  (* missing column count *)
  end.

(* n rows one after the other, as a reader of a spill buffer does *)
Fixpoint deser_rows (n : nat) (s : list Z) : option (list (list value) * list Z) :=
  match n with
  | O => Some ([], s)
  | S k =>
    match deser_row s with
    | None => None
    | Some (row, r) =>
      match deser_rows k r with
      | None => None
      | Some (rows, r') => Some (row :: rows, r')
      end
    end
  end.

(* the code's interface: deserialize_row_into(data, &mut offset, out); result row and new offset *)
Definition deser_row_at (data : list Z) (off : Z) : option (list value * Z) :=
  if (0 <=? off) && (off <=? blen data) then
    match deser_row (skipn (Z.to_nat off) data) with
    | Some (row, rest) => Some (row, blen data - blen rest)
    | None => None
    end
  else None.

(* ------------------------------------------------------------------ what the format does to a value *)
(* the value that comes back (proved in Proof/RowSerde.v): identity except that a NaN loses its payload *)
Definition canon_value (v : value) : value :=
  match v with
  | VFloat p => if f64_is_nan p then VFloat F64_CANON_NAN else VFloat p
  | _ => v
  end.

(* values that come back bit for bit *)
Definition value_exact (v : value) : bool :=
  match v with
  | VFloat p => negb (f64_is_nan p) || (p =? F64_CANON_NAN)
  | _ => true
  end.

(* ------------------------------------------------------------------ well-formed inputs and "equal row of the same types" *)
Definition bytes_n (n : Z) (b : list Z) : bool := bytes_ok b && (blen b =? n).
(* the Rust types of the fields: integer widths, bytes, array lengths, UTF-8 *)
Definition value_typed (v : value) : bool :=
  match v with
  | VNull => true
  | VInt i => in_s 64 i
  | VFloat p => in_u 64 p
  | VText b => bytes_ok b && utf8_valid b
  | VBlob b => bytes_ok b
  | VVector fs => forallb (in_u 32) fs
  | VUuid b => bytes_n 16 b
  | VMacAddr b => bytes_n 6 b
  | VInet4 b => bytes_n 4 b
  | VInet6 b => bytes_n 16 b
  | VJsonb b => bytes_ok b
  | VTimestampTz m o => in_s 64 m && in_s 32 o
  | VInterval m d mo => in_s 64 m && in_s 32 d && in_s 32 mo
  | VPoint x y => in_u 64 x && in_u 64 y
  | VGeoBox a b c d => in_u 64 a && in_u 64 b && in_u 64 c && in_u 64 d
  | VCircle a b c => in_u 64 a && in_u 64 b && in_u 64 c
  | VEnum t o => in_u 16 t && in_u 16 o
  | VDecimal d s => in_s 128 d && in_s 16 s
  | VToast b => bytes_ok b
  end.
(* the limit of the format on one value: lengths are written as u32 *)
Definition value_fits (v : value) : bool :=
  match v with
  | VText b | VBlob b | VJsonb b | VToast b => blen b <? 2 ^ 32
  | VVector fs => blen fs <? 2 ^ 32
  | _ => true
  end.
Definition value_wf (v : value) : bool := value_typed v && value_fits v.
(* ... and the u16 column count *)
Definition row_wf (row : list value) : bool := forallb value_wf row && (Z.of_nat (length row) <? 2 ^ 16).

(* floats are "equal" when they have the same bits or are both NaN *)
Definition f64_same (a b : Z) : bool := (a =? b) || (f64_is_nan a && f64_is_nan b).
Definition f32_same (a b : Z) : bool := (a =? b) || (f32_is_nan a && f32_is_nan b).
Fixpoint list_same (f : Z -> Z -> bool) (a b : list Z) : bool :=
  match a, b with
  | [], [] => true
  | x :: a', y :: b' => f x y && list_same f a' b'
  | _, _ => false
  end.
(* same variant, equal contents *)
Definition value_same (a b : value) : bool :=
  match a, b with
  | VNull, VNull => true
  | VInt x, VInt y => x =? y
  | VFloat x, VFloat y => f64_same x y
  | VText x, VText y => zlist_eqb x y
  | VBlob x, VBlob y => zlist_eqb x y
  | VVector x, VVector y => list_same f32_same x y
  | VUuid x, VUuid y => zlist_eqb x y
  | VMacAddr x, VMacAddr y => zlist_eqb x y
  | VInet4 x, VInet4 y => zlist_eqb x y
  | VInet6 x, VInet6 y => zlist_eqb x y
  | VJsonb x, VJsonb y => zlist_eqb x y
  | VTimestampTz m o, VTimestampTz m' o' => (m =? m') && (o =? o')
  | VInterval m d mo, VInterval m' d' mo' => (m =? m') && (d =? d') && (mo =? mo')
  | VPoint x y, VPoint x' y' => f64_same x x' && f64_same y y'
  | VGeoBox a b c d, VGeoBox a' b' c' d' => f64_same a a' && f64_same b b' && f64_same c c' && f64_same d d'
  | VCircle a b c, VCircle a' b' c' => f64_same a a' && f64_same b b' && f64_same c c'
  | VEnum t o, VEnum t' o' => (t =? t') && (o =? o')
  | VDecimal d s, VDecimal d' s' => (d =? d') && (s =? s')
  | VToast x, VToast y => zlist_eqb x y
  | _, _ => false
  end.
Fixpoint row_same (a b : list value) : bool :=
  match a, b with
  | [], [] => true
  | x :: a', y :: b' => value_same x y && row_same a' b'
  | _, _ => false
  end.
Fixpoint rows_same (a b : list (list value)) : bool :=
  match a, b with
  | [], [] => true
  | x :: a', y :: b' => row_same x y && rows_same a' b'
  | _, _ => false
  end.

(* ------------------------------------------------------------------ C. PartitionSpiller, one partition *)
(* write_row over the rows in order: (spilled?, byte_size).  Rows pushed before the spill are
   written out through ser_row when the budget is first exceeded, later rows directly. *)
Definition spiller_step (budget : Z) (st : bool * Z) (row : list value) : bool * Z :=
  let '(spilled, bytes) := st in
  if spilled then (true, bytes + blen (ser_row row))
  else let b := bytes + row_size row in (budget <? b, b).
Definition spiller_spilled (budget : Z) (rows : list (list value)) : bool :=
  fst (fold_left (spiller_step budget) rows (false, 0)).
(* start_read / read_next until None: the rows handed back, None = a read error *)
Definition spiller_read (budget : Z) (rows : list (list value)) : option (list (list value)) :=
  if spiller_spilled budget rows then
    match deser_rows (length rows) (ser_rows rows) with
    | Some (out, _) => Some out
    | None => None
    end
  else Some rows.

(* ------------------------------------------------------------------ B. subquery spill format *)
Inductive ovalue :=
| OV (v : value)                 (* the 19 variants shared with Value *)
| OBool (b : bool)
| ODate (d : Z)                  (* i32 *)
| OTime (t : Z)                  (* i64 *)
| OTimestamp (t : Z).            (* i64 *)

Definition oser_value (v : ovalue) : list Z :=
  match v with
  | OV VNull => [0]
  | OBool b => [1; if b then 1 else 0]
  | OV (VInt i) => 2 :: le_bytes 8 i
  | OV (VFloat p) => 3 :: le_bytes 8 p
  | OV (VText b) => 4 :: le_bytes 4 (wrap_u 32 (blen b)) ++ b
  | OV (VBlob b) => 5 :: le_bytes 4 (wrap_u 32 (blen b)) ++ b
  | OV (VVector fs) => 6 :: le_bytes 4 (wrap_u 32 (blen fs)) ++ flat_map (le_bytes 4) fs
  | ODate d => 7 :: le_bytes 4 d
  | OTime t => 8 :: le_bytes 8 t
  | OTimestamp t => 9 :: le_bytes 8 t
  | OV (VTimestampTz m o) => 10 :: le_bytes 8 m ++ le_bytes 4 o
  | OV (VUuid b) => 11 :: b
  | OV (VMacAddr b) => 12 :: b
  | OV (VInet4 b) => 13 :: b
  | OV (VInet6 b) => 14 :: b
  | OV (VInterval m d mo) => 15 :: le_bytes 8 m ++ le_bytes 4 d ++ le_bytes 4 mo
  | OV (VPoint x y) => 16 :: le_bytes 8 x ++ le_bytes 8 y
  | OV (VGeoBox a b c d) => 17 :: le_bytes 8 a ++ le_bytes 8 b ++ le_bytes 8 c ++ le_bytes 8 d
  | OV (VCircle a b c) => 18 :: le_bytes 8 a ++ le_bytes 8 b ++ le_bytes 8 c
  | OV (VJsonb b) => 19 :: le_bytes 4 (wrap_u 32 (blen b)) ++ b
  | OV (VDecimal d s) => 20 :: le_bytes 16 d ++ le_bytes 2 s
  | OV (VEnum t o) => 21 :: le_bytes 2 t ++ le_bytes 2 o
  | OV (VToast b) => 22 :: le_bytes 4 (wrap_u 32 (blen b)) ++ b
  end.
Definition oser_row (row : list ovalue) : list Z :=
  le_bytes 4 (wrap_u 32 (Z.of_nat (length row))) ++ flat_map oser_value row.
Definition oser_rows (rows : list (list ovalue)) : list Z := flat_map oser_row rows.

Definition rl_u (n : nat) (s : list Z) : option (Z * list Z) :=
  match take (Z.of_nat n) s with Some (b, r) => Some (from_le b, r) | None => None end.
Definition rl_s (n : nat) (s : list Z) : option (Z * list Z) :=
  match take (Z.of_nat n) s with Some (b, r) => Some (wrap_s (8 * Z.of_nat n) (from_le b), r) | None => None end.
Definition rl_lp (s : list Z) : option (list Z * list Z) :=
  match rl_u 4 s with Some (n, r) => take n r | None => None end.
(* `for _ in 0..len { read_exact(4 bytes) }`: n little-endian u32 patterns *)
Fixpoint rl_f32s (n : nat) (s : list Z) : option (list Z * list Z) :=
  match n with
  | O => Some ([], s)
  | S k =>
    match rl_u 4 s with
    | None => None
    | Some (x, r) => match rl_f32s k r with None => None | Some (xs, r') => Some (x :: xs, r') end
    end
  end.
Definition oret {A} (f : A -> value) (o : option (A * list Z)) : option (ovalue * list Z) :=
  match o with Some (a, r) => Some (OV (f a), r) | None => None end.
Definition oret' {A} (f : A -> ovalue) (o : option (A * list Z)) : option (ovalue * list Z) :=
  match o with Some (a, r) => Some (f a, r) | None => None end.

Definition odeser_value (s : list Z) : option (ovalue * list Z) :=
  match s with
  | [] => None
  | t :: s =>
    match t with
    | 0 => Some (OV VNull, s)
    | 1 => match s with b :: r => Some (OBool (negb (b =? 0)), r) | [] => None end
    | 2 => oret VInt (rl_s 8 s)
    | 3 => oret VFloat (rl_u 8 s)
    | 4 => bind (rl_lp s) (fun b r => if utf8_valid b then Some (OV (VText b), r) else None)
    | 5 => oret VBlob (rl_lp s)
    | 6 => bind (rl_u 4 s) (fun n r => oret VVector (rl_f32s (Z.to_nat n) r))
    | 7 => oret' ODate (rl_s 4 s)
    | 8 => oret' OTime (rl_s 8 s)
    | 9 => oret' OTimestamp (rl_s 8 s)
    | 10 => bind (rl_s 8 s) (fun m r => oret (fun o => VTimestampTz m o) (rl_s 4 r))
    | 11 => oret VUuid (take 16 s)
    | 12 => oret VMacAddr (take 6 s)
    | 13 => oret VInet4 (take 4 s)
    | 14 => oret VInet6 (take 16 s)
    | 15 => bind (rl_s 8 s) (fun m r => bind (rl_s 4 r) (fun dd r => oret (fun mo => VInterval m dd mo) (rl_s 4 r)))
    | 16 => bind (rl_u 8 s) (fun x r => oret (fun y => VPoint x y) (rl_u 8 r))
    | 17 => bind (rl_u 8 s) (fun a r => bind (rl_u 8 r) (fun b r => bind (rl_u 8 r) (fun c r =>
              oret (fun d' => VGeoBox a b c d') (rl_u 8 r))))
    | 18 => bind (rl_u 8 s) (fun a r => bind (rl_u 8 r) (fun b r => oret (fun c => VCircle a b c) (rl_u 8 r)))
    | 19 => oret VJsonb (rl_lp s)
    | 20 => bind (rl_s 16 s) (fun dg r => oret (fun sc => VDecimal dg sc) (rl_s 2 r))
    | 21 => bind (rl_u 2 s) (fun t r => oret (fun o => VEnum t o) (rl_u 2 r))
    | 22 => oret VToast (rl_lp s)
    | _ => None
    end
  end.
Fixpoint odeser_values (n : nat) (s : list Z) : option (list ovalue * list Z) :=
  match n with
  | O => Some ([], s)
  | S k =>
    match odeser_value s with
    | None => None
    | Some (v, r) => match odeser_values k r with None => None | Some (vs, r') => Some (v :: vs, r') end
    end
  end.
Definition odeser_row (s : list Z) : option (list ovalue * list Z) :=
  match rl_u 4 s with Some (n, r) => odeser_values (Z.to_nat n) r | None => None end.
Fixpoint odeser_rows (n : nat) (s : list Z) : option (list (list ovalue) * list Z) :=
  match n with
  | O => Some ([], s)
  | S k =>
    match odeser_row s with
    | None => None
    | Some (row, r) => match odeser_rows k r with None => None | Some (rows, r') => Some (row :: rows, r') end
    end
  end.

Definition ovalue_wf (v : ovalue) : bool :=
  match v with
  | OV v => value_wf v
  | OBool _ => true
  | ODate d => in_s 32 d
  | OTime t => in_s 64 t
  | OTimestamp t => in_s 64 t
  end.
Definition orow_wf (row : list ovalue) : bool := forallb ovalue_wf row && (Z.of_nat (length row) <? 2 ^ 32).
Definition ovalue_same (a b : ovalue) : bool :=
  match a, b with
  | OV x, OV y => value_same x y
  | OBool x, OBool y => Bool.eqb x y
  | ODate x, ODate y => x =? y
  | OTime x, OTime y => x =? y
  | OTimestamp x, OTimestamp y => x =? y
  | _, _ => false
  end.
Fixpoint orow_same (a b : list ovalue) : bool :=
  match a, b with
  | [], [] => true
  | x :: a', y :: b' => ovalue_same x y && orow_same a' b'
  | _, _ => false
  end.
Fixpoint orows_same (a b : list (list ovalue)) : bool :=
  match a, b with
  | [], [] => true
  | x :: a', y :: b' => orow_same x y && orows_same a' b'
  | _, _ => false
  end.

(* MaterializedRow::estimated_size, used only to decide when the buffer spills:
   size_of::<MaterializedRow>() = 24 (a Vec) + per value *)
Definition oval_est (v : ovalue) : Z :=
  match v with
  | OV VNull => 1
  | OBool _ => 2
  | OV (VInt _) => 9
  | OV (VFloat _) => 9
  | OV (VText b) => blen b + 5
  | OV (VBlob b) => blen b + 5
  | OV (VVector f) => blen f * 4 + 5
  | ODate _ => 5
  | OTime _ => 9
  | OTimestamp _ => 9
  | OV (VTimestampTz _ _) => 13
  | OV (VUuid _) => 17
  | OV (VMacAddr _) => 7
  | OV (VInet4 _) => 5
  | OV (VInet6 _) => 17
  | OV (VInterval _ _ _) => 17
  | OV (VPoint _ _) => 17
  | OV (VGeoBox _ _ _ _) => 33
  | OV (VCircle _ _ _) => 25
  | OV (VJsonb b) => blen b + 5
  | OV (VDecimal _ _) => 19
  | OV (VEnum _ _) => 5
  | OV (VToast b) => blen b + 5
  end.
Definition orow_est (row : list ovalue) : Z := fold_left (fun acc v => acc + oval_est v) row 24.
(* push: spills the first time current_memory + row_size > limit *)
Definition subbuf_step (limit : Z) (st : bool * Z) (row : list ovalue) : bool * Z :=
  let '(spilled, mem) := st in
  if spilled then (true, mem)
  else if limit <? mem + orow_est row then (true, 0) else (false, mem + orow_est row).
Definition subbuf_spilled (limit : Z) (rows : list (list ovalue)) : bool :=
  fst (fold_left (subbuf_step limit) rows (false, 0)).
Definition subbuf_read (limit : Z) (rows : list (list ovalue)) : option (list (list ovalue)) :=
  if subbuf_spilled limit rows then
    match odeser_rows (length rows) (oser_rows rows) with
    | Some (out, _) => Some out
    | None => None
    end
  else Some rows.
