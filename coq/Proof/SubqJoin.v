(* C18: the join path -- WHERE is exactly [NOT] EXISTS (subquery) or x IN (subquery) over a base
   table, decorrelated into a semi / anti join.  Pair lemmas: for an outer row l and a row r of
   the subquery's table, the model's join_match decides what the reference semantics defines,
   on the nested-loop path (no column = column conjunct: the whole condition is evaluated over
   the combined row) and on the hash path (the condition is a conjunction of usable keys). *)
From Coq Require Import ZArith List Bool Arith Lia.
From TV Require Import Model.SqlSpec Proof.SqlSpecLaws Model.SubqSpec Model.SubqImpl Model.SubqWf Model.SubqClass.
From TV Require Import Proof.SubqLaws Proof.SetOpsBag Proof.SubqEval Proof.SubqSelect Proof.SubqFilter.
Import ListNotations.
Open Scope Z_scope.

(* ------------------------------------------------------------------ bare columns *)
Definition bare_cond (scopes : list nat) (lv i : nat) (q : bool) : Prop :=
  q = true \/ forallb (fun w => (w <=? i)%nat) (firstn lv scopes) = true.

Lemma bare_ok_cols : forall scopes e, bare_ok scopes e = true -> cols_ok (bare_cond scopes) e.
Proof.
  intros scopes. induction e; cbn [bare_ok cols_ok]; intro H; auto;
    try (apply andb_true_iff in H; destruct H as [H1 H2]; split; auto).
  unfold bare_cond. apply orb_true_iff in H. destruct H as [H|H]; [left|right]; exact H.
Qed.

(* ------------------------------------------------------------------ lifting the outer expression *)
Lemma xeval_lift1 : forall db r env e, has_sub e = false ->
  xeval db (r :: env) (lift1 e) = xeval db env e.
Proof.
  intros db r env. induction e; cbn [has_sub lift1]; intro H; try discriminate.
  - rewrite !xeval_col. reflexivity.
  - reflexivity.
  - apply orb_false_iff in H. destruct H as [H1 H2]. rewrite !xeval_arith, IHe1, IHe2 by assumption. reflexivity.
  - apply orb_false_iff in H. destruct H as [H1 H2]. rewrite !xeval_cmp, IHe1, IHe2 by assumption. reflexivity.
  - apply orb_false_iff in H. destruct H as [H1 H2]. rewrite !xeval_and, IHe1, IHe2 by assumption. reflexivity.
  - apply orb_false_iff in H. destruct H as [H1 H2]. rewrite !xeval_or, IHe1, IHe2 by assumption. reflexivity.
  - rewrite !xeval_not, IHe by assumption. reflexivity.
  - rewrite !xeval_isnull, IHe by assumption. reflexivity.
Qed.
Lemma vform_lift1 : forall e, vform (lift1 e) = vform e.
Proof. induction e; cbn [lift1 vform]; try reflexivity. rewrite IHe1, IHe2. reflexivity. Qed.
Lemma has_sub_lift1 : forall e, has_sub (lift1 e) = has_sub e.
Proof. induction e; cbn [lift1 has_sub]; try reflexivity; try (rewrite IHe1, IHe2; reflexivity); auto. Qed.

(* ------------------------------------------------------------------ values *)
Lemma icmp_total : forall op x y, plain_val x = true -> plain_val y = true -> exists o, icmp op x y = Some o.
Proof. intros op x y Hx Hy. destruct x, y; cbn [plain_val] in *; try discriminate; cbn [icmp]; eexists; reflexivity. Qed.
Lemma key_eq_total : forall x y, plain_val x = true -> plain_val y = true -> exists b, key_eq x y = Some b.
Proof. intros x y Hx Hy. destruct x, y; cbn [plain_val] in *; try discriminate; cbn [key_eq]; eexists; reflexivity. Qed.

(* equality by keys = the comparison is TRUE *)
Lemma key_eq_cmp3 : forall x y b t, key_eq x y = Some b -> cmp3 CEq x y = Some t -> b = tv_is_true t.
Proof.
  intros x y b t Hk Hc. destruct x, y; cbn [key_eq] in Hk; try discriminate; inversion Hk; subst b;
    unfold cmp3 in Hc; cbn [cmp_values] in Hc; try discriminate; inversion Hc; try reflexivity.
  - rewrite Z.eqb_compare. destruct (z ?= z0); reflexivity.
  - destruct (zlist_eqb' s s0) eqn:E.
    + apply zlist_eqb'_eq in E. subst. assert (bytes_cmp s0 s0 = Eq) by (apply bytes_cmp_eq; reflexivity). rewrite H. reflexivity.
    + destruct (bytes_cmp s s0) eqn:Eb; try reflexivity. apply bytes_cmp_eq in Eb. subst.
      assert (zlist_eqb' s0 s0 = true) by (apply zlist_eqb'_eq; reflexivity). congruence.
Qed.
Lemma key_eq_sym : forall x y, key_eq x y = key_eq y x.
Proof.
  intros x y. destruct x, y; cbn [key_eq]; try reflexivity.
  - rewrite Z.eqb_sym. reflexivity.
  - destruct (zlist_eqb' s s0) eqn:E; destruct (zlist_eqb' s0 s) eqn:E'; try reflexivity.
    + apply zlist_eqb'_eq in E. subst. assert (zlist_eqb' s0 s0 = true) by (apply zlist_eqb'_eq; reflexivity). congruence.
    + apply zlist_eqb'_eq in E'. subst. assert (zlist_eqb' s s = true) by (apply zlist_eqb'_eq; reflexivity). congruence.
Qed.
Lemma cmp3_eq_sym : forall x y, plain_val x = true -> plain_val y = true ->
  option_map tv_is_true (cmp3 CEq x y) = option_map tv_is_true (cmp3 CEq y x).
Proof.
  intros x y Hx Hy. destruct x, y; cbn [plain_val] in *; try discriminate; unfold cmp3; cbn [cmp_values option_map]; try reflexivity.
  - rewrite (Z.compare_antisym z z0). destruct (z ?= z0); reflexivity.
  - destruct (bytes_cmp s s0) eqn:E; destruct (bytes_cmp s0 s) eqn:E'; try reflexivity;
      try (apply bytes_cmp_eq in E; subst; assert (bytes_cmp s0 s0 = Eq) by (apply bytes_cmp_eq; reflexivity); congruence);
      try (apply bytes_cmp_eq in E'; subst; assert (bytes_cmp s s = Eq) by (apply bytes_cmp_eq; reflexivity); congruence).
Qed.

Section Pair.
  Variables (db : list table) (lw rw : nat) (l r : row).
  Hypothesis Hl : length l = lw.
  Hypothesis Hr : length r = rw.
  Hypothesis Hpl : row_plain l = true.
  Hypothesis Hpr : row_plain r = true.

  Lemma look_join_agrees : forall lv i q, bare_cond [rw; lw] lv i q ->
    look_agrees [r; l] (look_join lw rw l r) lv i q.
  Proof.
    intros lv i q Hb r' v Hr' Hv. destruct lv as [|[|lv]]; cbn [nth_error] in Hr'.
    - inversion Hr'; subst r'. assert (Hi : (i < rw)%nat) by (rewrite <- Hr; apply nth_error_Some; congruence).
      apply Nat.ltb_lt in Hi. split; [|exact (row_plain_nth r i v Hpr Hv)].
      unfold look_join, look_bare. destruct q; rewrite Hi; exact Hv.
    - inversion Hr'; subst r'. assert (Hi : (i < lw)%nat) by (rewrite <- Hl; apply nth_error_Some; congruence).
      apply Nat.ltb_lt in Hi. split; [|exact (row_plain_nth l i v Hpl Hv)].
      unfold look_join, look_bare. destruct q; [rewrite Hi; exact Hv|].
      destruct Hb as [Hb|Hb]; [discriminate|]. cbn [firstn forallb] in Hb. rewrite andb_true_r in Hb. apply Nat.leb_le in Hb.
      assert (Hn : (i <? rw)%nat = false) by (apply Nat.ltb_ge; exact Hb). rewrite Hn, Hi. exact Hv.
    - destruct lv; discriminate.
  Qed.

  (* ---- nested-loop path: the whole condition is a typed predicate without subqueries *)
  Lemma nl_pair : forall c b,
    pform c = true -> has_sub c = false -> bare_ok [rw; lw] c = true -> hash_path c = false ->
    pass_res (rtv (xeval db [r; l] c)) = ROk b ->
    join_match lw rw (Some c) l r = Some b.
  Proof.
    intros c b Hpf Hs Hb Hk H. unfold join_match. rewrite Hk.
    apply (ipass_agree db [r; l]); auto.
    - apply has_sub_no_inex; exact Hs.
    - eapply cols_ok_impl; [|apply bare_ok_cols; exact Hb]. intros. apply look_join_agrees. assumption.
    - apply scal_agrees_nil. apply has_sub_scalars. exact Hs.
  Qed.

  (* the model always decides a typed, subquery-free predicate over plain rows ... when the
     reference defines its value; for the IN condition we need the weaker fact that the
     comparison  x = item  is decided even where the reference does not look at it *)
  Lemma in_cmp_decided : forall a j x,
    vform a = true -> has_sub a = false -> bare_ok [rw; lw] (lift1 a) = true ->
    xeval db [l] a = ROk x -> (j < rw)%nat ->
    exists y e, nth_error r j = Some y /\ plain_val y = true /\
      ieval (look_join lw rw l r) (fun _ => None) (XCmp CEq (lift1 a) (XCol 0 j true)) = ITv e /\
      (forall t, cmp3 CEq x y = Some t -> e = match t with TT => Some true | FF => Some false | UU => None end).
  Proof.
    intros a j x Hvf Hs Hb Hx Hj.
    assert (Hy : exists y, nth_error r j = Some y).
    { destruct (nth_error r j) eqn:E; [eauto|]. apply nth_error_None in E. lia. }
    destruct Hy as [y Hy]. assert (Hpy : plain_val y = true) by (eapply row_plain_nth; eauto).
    exists y.
    assert (Hxl : xeval db [r; l] (lift1 a) = ROk x) by (rewrite xeval_lift1; assumption).
    assert (Hrel : val_rel (ieval (look_join lw rw l r) (fun _ => None) (lift1 a)) x).
    { apply (vform_agree db [r; l]); auto.
      - rewrite vform_lift1; exact Hvf.
      - eapply cols_ok_impl; [|apply bare_ok_cols; exact Hb]. intros. apply look_join_agrees. assumption.
      - apply scal_agrees_nil. apply has_sub_scalars. rewrite has_sub_lift1. exact Hs. }
    destruct (as_val_rel _ _ Hrel) as [Ha1 Ha2]. destruct Hrel as [Hpx _].
    assert (Hlook : look_join lw rw l r 0 j true = Some y).
    { unfold look_join. apply Nat.ltb_lt in Hj. rewrite Hj. exact Hy. }
    cbn [ieval]. rewrite Hlook. cbn [as_val].
    destruct (value_eqb x VNull) eqn:Ex.
    - apply value_eqb_eq' in Ex. subst x.
      destruct (Ha2 eq_refl) as [E|E]; rewrite E.
      + destruct (icmp_total CEq VNull y eq_refl Hpy) as [o Ho]. rewrite Ho. exists o. repeat split; auto.
        intros t Ht. assert (t = UU) by (unfold cmp3 in Ht; destruct y; cbn [cmp_values] in Ht; inversion Ht; reflexivity). subst t.
        destruct y; cbn [plain_val] in Hpy; try discriminate; cbn [icmp] in Ho; inversion Ho; reflexivity.
      + exists None. repeat split; auto.
        intros t Ht. assert (t = UU) by (unfold cmp3 in Ht; destruct y; cbn [cmp_values] in Ht; inversion Ht; reflexivity). subst t. reflexivity.
    - assert (Nx : x <> VNull) by (intro; subst; discriminate). rewrite (Ha1 Nx).
      destruct (icmp_total CEq x y Hpx Hpy) as [o Ho]. rewrite Ho. exists o. repeat split; auto.
      intros t Ht. destruct (value_eqb y VNull) eqn:Ey.
      + apply value_eqb_eq' in Ey. subst y.
        assert (t = UU) by (unfold cmp3 in Ht; destruct x; cbn [cmp_values] in Ht; inversion Ht; reflexivity). subst t.
        destruct x; cbn [plain_val] in Hpx; try discriminate; try congruence; cbn [icmp] in Ho; inversion Ho; reflexivity.
      + assert (Ny : y <> VNull) by (intro; subst; discriminate).
        rewrite (icmp_agree CEq x y t Hpx Hpy Nx Ny Ht) in Ho. inversion Ho. reflexivity.
  Qed.

  Lemma nl_in_pair : forall a j w2 x b,
    vform a = true -> has_sub a = false -> bare_ok [rw; lw] (lift1 a) = true ->
    xeval db [l] a = ROk x -> (j < rw)%nat ->
    match w2 with
    | Some p2 => pform p2 = true /\ has_sub p2 = false /\ bare_ok [rw; lw] p2 = true /\
                 pass_res (rtv (xeval db [r; l] p2)) = ROk b
    | None => b = true
    end ->
    let c1 := XCmp CEq (lift1 a) (XCol 0 j true) in
    let c := match w2 with Some p2 => XAnd c1 p2 | None => c1 end in
    hash_path c = false ->
    exists y e, nth_error r j = Some y /\
      join_match lw rw (Some c) l r = Some (b && e) /\
      (forall t, cmp3 CEq x y = Some t -> e = tv_is_true t).
  Proof.
    intros a j w2 x b Hvf Hs Hb Hx Hj Hw c1 c Hk. subst c c1.
    destruct (in_cmp_decided a j x Hvf Hs Hb Hx Hj) as [y [e [Hy [Hpy [He Het]]]]].
    exists y. exists (match e with Some true => true | _ => false end). split; [exact Hy|].
    split.
    - unfold join_match. rewrite Hk. unfold ipass. destruct w2 as [p2|].
      + destruct Hw as [Hpf [Hs2 [Hb2 Hkeep]]].
        unfold pass_res in Hkeep. apply rbind_ok in Hkeep. destruct Hkeep as [t2 [Ht2 Hb']]. inversion Hb'; subst b.
        apply rtv_ok in Ht2. destruct Ht2 as [v2 [Hv2 Htv2]].
        destruct (pform_agree db [r; l] (look_join lw rw l r) (fun _ => None) p2 v2) as [o2 [Eo2 Ev2]]; auto.
        * apply has_sub_no_inex; exact Hs2.
        * eapply cols_ok_impl; [|apply bare_ok_cols; exact Hb2]. intros. apply look_join_agrees. assumption.
        * apply scal_agrees_nil. apply has_sub_scalars. exact Hs2.
        * subst v2. rewrite tv_of_value_of_tv in Htv2. inversion Htv2; subst t2.
          change (ieval (look_join lw rw l r) (fun _ => None) (XAnd (XCmp CEq (lift1 a) (XCol 0 j true)) p2)) with
            (match as_tv (ieval (look_join lw rw l r) (fun _ => None) (XCmp CEq (lift1 a) (XCol 0 j true))),
                   as_tv (ieval (look_join lw rw l r) (fun _ => None) p2) with
             | Some x0, Some y0 => ITv (kand x0 y0)
             | _, _ => IUnm
             end).
          rewrite He, Eo2. cbn [as_tv].
          destruct e as [[|]|], o2 as [[|]|]; reflexivity.
      + subst b. rewrite He. cbn [as_tv]. destruct e as [[|]|]; reflexivity.
    - intros t Ht. rewrite (Het t Ht). destruct t; reflexivity.
  Qed.

  (* ---- hash path: every conjunct is a usable key *)
  Lemma key_side_val : forall lv i q, key_side_ok lw rw (lv, i, q) = true ->
    exists v, nth_error (nth lv [r; l] []) i = Some v /\ plain_val v = true /\
      key_idx lw rw (lv, i, q) = Some (match lv with O => (lw + i)%nat | _ => i end) /\
      match lv with O => (i < rw)%nat | _ => (i < lw)%nat /\ lv = 1%nat end.
  Proof.
    intros lv i q H. unfold key_side_ok in H. destruct lv as [|[|lv]]; [| |discriminate].
    - destruct (key_idx lw rw (0%nat, i, q)) as [j|] eqn:Ek; [|discriminate]. apply Nat.eqb_eq in H. subst j.
      assert (Hi : (i < rw)%nat).
      { unfold key_idx, idx_by_name in Ek. destruct q.
        - destruct (i <? rw)%nat eqn:E; [apply Nat.ltb_lt; exact E|].
          destruct (i <? lw)%nat eqn:E2; [inversion Ek; apply Nat.ltb_lt in E2; lia|discriminate].
        - destruct (i <? lw)%nat eqn:E2; [inversion Ek; apply Nat.ltb_lt in E2; lia|].
          destruct (i <? rw)%nat eqn:E; [apply Nat.ltb_lt; exact E|discriminate]. }
      cbn [nth]. destruct (nth_error r i) as [v|] eqn:E; [|apply nth_error_None in E; lia].
      exists v. repeat split; auto. exact (row_plain_nth r i v Hpr E).
    - apply andb_true_iff in H. destruct H as [Hi H]. apply Nat.ltb_lt in Hi.
      destruct (key_idx lw rw (1%nat, i, q)) as [j|] eqn:Ek; [|discriminate]. apply Nat.eqb_eq in H. subst j.
      cbn [nth]. destruct (nth_error l i) as [v|] eqn:E; [|apply nth_error_None in E; lia].
      exists v. repeat split; auto. exact (row_plain_nth l i v Hpl E).
  Qed.

  Lemma hash_match_app : forall ps1 ps2 x y,
    hash_match ps1 l r = Some x -> hash_match ps2 l r = Some y ->
    hash_match (ps1 ++ ps2) l r = Some (x && y).
  Proof.
    induction ps1 as [|[li ri] ps1 IH]; intros ps2 x y E1 E2; cbn [app hash_match] in *.
    - inversion E1; subst x. rewrite E2. reflexivity.
    - destruct (nth_error l li) as [a|]; [|inversion E1; reflexivity]. destruct (nth_error r ri) as [b|]; [|inversion E1; reflexivity].
      destruct (key_eq a b) as [ke|]; [|discriminate]. destruct (hash_match ps1 l r) as [x1|] eqn:E1'; [|discriminate].
      inversion E1; subst x. rewrite (IH ps2 x1 y eq_refl E2). rewrite andb_assoc. reflexivity.
  Qed.

  Lemma key_pairs_app : forall ks1 ks2, key_pairs lw rw (ks1 ++ ks2) = key_pairs lw rw ks1 ++ key_pairs lw rw ks2.
  Proof.
    induction ks1 as [|k ks1 IH]; intro ks2; cbn [app key_pairs]; [reflexivity|].
    destruct (key_pair lw rw k); rewrite IH; reflexivity.
  Qed.

  (* one usable key *)
  Lemma one_key : forall l1 i1 q1 l2 i2 q2,
    (match key_pair lw rw ((l1, i1, q1), (l2, i2, q2)) with Some _ => true | None => false end
     && key_side_ok lw rw (l1, i1, q1) && key_side_ok lw rw (l2, i2, q2)) = true ->
    exists v1 v2 m,
      xeval db [r; l] (XCol l1 i1 q1) = ROk v1 /\ xeval db [r; l] (XCol l2 i2 q2) = ROk v2 /\
      plain_val v1 = true /\ plain_val v2 = true /\
      hash_match (key_pairs lw rw [((l1, i1, q1), (l2, i2, q2))]) l r = Some m /\
      key_pairs lw rw [((l1, i1, q1), (l2, i2, q2))] <> [] /\
      key_eq v1 v2 = Some m.
  Proof.
    intros l1 i1 q1 l2 i2 q2 H. apply andb_true_iff in H. destruct H as [H H2]. apply andb_true_iff in H. destruct H as [Hp H1].
    destruct (key_side_val l1 i1 q1 H1) as [v1 [Hv1 [Hp1 [Hk1 Hs1]]]].
    destruct (key_side_val l2 i2 q2 H2) as [v2 [Hv2 [Hp2 [Hk2 Hs2]]]].
    exists v1, v2. destruct (key_eq_total v1 v2 Hp1 Hp2) as [m Hm]. exists m.
    assert (Hx1 : xeval db [r; l] (XCol l1 i1 q1) = ROk v1).
    { rewrite xeval_col. destruct l1 as [|[|l1]]; cbn [nth nth_error] in *; try (rewrite Hv1; reflexivity). destruct Hs1 as [_ E]; discriminate. }
    assert (Hx2 : xeval db [r; l] (XCol l2 i2 q2) = ROk v2).
    { rewrite xeval_col. destruct l2 as [|[|l2]]; cbn [nth nth_error] in *; try (rewrite Hv2; reflexivity). destruct Hs2 as [_ E]; discriminate. }
    repeat split; auto.
    - cbn [key_pairs]. unfold key_pair in *. cbn [fst snd] in *. rewrite Hk1, Hk2 in *.
      destruct l1 as [|l1]; destruct l2 as [|l2].
      + (* both inner: not a pair *) exfalso.
        assert (E1 : (lw + i1 <? lw)%nat = false) by (apply Nat.ltb_ge; lia).
        assert (E2 : (lw + i2 <? lw)%nat = false) by (apply Nat.ltb_ge; lia).
        rewrite E1, E2 in Hp. cbn in Hp. discriminate.
      + destruct Hs2 as [Hi2 El2]. inversion El2; subst l2.
        assert (E1 : (lw + i1 <? lw)%nat = false) by (apply Nat.ltb_ge; lia).
        assert (E2 : (i2 <? lw)%nat = true) by (apply Nat.ltb_lt; lia).
        rewrite E1, E2. cbn [andb negb]. cbn [hash_match nth nth_error] in *.
        replace (lw + i1 - lw)%nat with i1 by lia. rewrite Hv2, Hv1. rewrite key_eq_sym, Hm. rewrite andb_true_r. reflexivity.
      + destruct Hs1 as [Hi1 El1]. inversion El1; subst l1.
        assert (E1 : (i1 <? lw)%nat = true) by (apply Nat.ltb_lt; lia).
        assert (E2 : (lw + i2 <? lw)%nat = false) by (apply Nat.ltb_ge; lia).
        rewrite E1, E2. cbn [andb negb]. cbn [hash_match nth nth_error] in *.
        replace (lw + i2 - lw)%nat with i2 by lia. rewrite Hv1, Hv2, Hm. rewrite andb_true_r. reflexivity.
      + (* both outer *) exfalso. destruct Hs1 as [Hi1 _]. destruct Hs2 as [Hi2 _].
        assert (E1 : (i1 <? lw)%nat = true) by (apply Nat.ltb_lt; lia).
        assert (E2 : (i2 <? lw)%nat = true) by (apply Nat.ltb_lt; lia).
        rewrite E1, E2 in Hp. cbn in Hp. discriminate.
    - cbn [key_pairs]. destruct (key_pair lw rw ((l1, i1, q1), (l2, i2, q2))); [discriminate|discriminate].
  Qed.

  (* a conjunction of usable keys: decided by the hash match, and equal to the reference where
     that is defined *)
  Lemma pure_keys_decided : forall c, pure_keys lw rw c = true ->
    exists m, hash_match (key_pairs lw rw (equi_keys c)) l r = Some m /\
              key_pairs lw rw (equi_keys c) <> [] /\
              (forall b, pass_res (rtv (xeval db [r; l] c)) = ROk b -> b = m).
  Proof.
    induction c; cbn [pure_keys]; intro H; try discriminate.
    - (* comparison *)
      destruct op; try discriminate. destruct c1; try discriminate. destruct c2; try discriminate.
      destruct (one_key _ _ _ _ _ _ H) as [v1 [v2 [m [Hx1 [Hx2 [Hp1 [Hp2 [Hh [Hne Hke]]]]]]]]].
      cbn [equi_keys]. exists m. split; [exact Hh|]. split; [exact Hne|].
      intros b Hb. rewrite xeval_cmp, Hx1, Hx2 in Hb. cbn [rmap2] in Hb.
      destruct (cmp3 CEq v1 v2) as [t|] eqn:Ec; cbn in Hb; [|discriminate].
      rewrite (key_eq_cmp3 v1 v2 m t Hke Ec). destruct t; cbn in Hb; inversion Hb; reflexivity.
    - (* AND *)
      apply andb_true_iff in H. destruct H as [H1 H2].
      destruct (IHc1 H1) as [m1 [Hh1 [Hn1 Hb1]]]. destruct (IHc2 H2) as [m2 [Hh2 [Hn2 Hb2]]].
      cbn [equi_keys]. rewrite key_pairs_app. exists (m1 && m2). split.
      + apply hash_match_app; assumption.
      + split; [destruct (key_pairs lw rw (equi_keys c1)); [congruence|discriminate]|].
        intros b Hb. unfold pass_res in Hb. apply rbind_ok in Hb. destruct Hb as [t [Ht Hbt]]. inversion Hbt; subst b.
        apply rtv_ok in Ht. destruct Ht as [v [Hv Htv]]. rewrite xeval_and in Hv. apply rval_ok in Hv. destruct Hv as [t' [Ht' Hv]].
        subst v. rewrite tv_of_value_of_tv in Htv. inversion Htv; subst t'.
        apply and_res_ok in Ht'. destruct Ht' as [ta [tb [Hta [Htb Htt]]]]. subst t.
        rewrite tv_is_true_and.
        rewrite (Hb1 (tv_is_true ta)) by (unfold pass_res; rewrite Hta; reflexivity).
        rewrite (Hb2 (tv_is_true tb)) by (unfold pass_res; rewrite Htb; reflexivity). reflexivity.
  Qed.

  (* a usable key pairs the two inputs: it is not a same-side key, and its qualified sides name
     one table of each input *)
  Lemma one_key_shape : forall l1 i1 q1 l2 i2 q2,
    (match key_pair lw rw ((l1, i1, q1), (l2, i2, q2)) with Some _ => true | None => false end
     && key_side_ok lw rw (l1, i1, q1) && key_side_ok lw rw (l2, i2, q2)) = true ->
    key_same lw rw ((l1, i1, q1), (l2, i2, q2)) = None /\ key_tables_ok ((l1, i1, q1), (l2, i2, q2)) = true.
  Proof.
    intros l1 i1 q1 l2 i2 q2 H. apply andb_true_iff in H. destruct H as [H H2]. apply andb_true_iff in H. destruct H as [Hp H1].
    destruct (key_side_val l1 i1 q1 H1) as [v1 [_ [_ [Hk1 Hs1]]]].
    destruct (key_side_val l2 i2 q2 H2) as [v2 [_ [_ [Hk2 Hs2]]]].
    unfold key_pair, key_same in *. cbn [fst snd] in *. rewrite Hk1, Hk2 in *.
    destruct l1 as [|l1]; destruct l2 as [|l2].
    - exfalso.
      assert (E1 : (lw + i1 <? lw)%nat = false) by (apply Nat.ltb_ge; lia).
      assert (E2 : (lw + i2 <? lw)%nat = false) by (apply Nat.ltb_ge; lia).
      rewrite E1, E2 in Hp. cbn in Hp. discriminate.
    - destruct Hs2 as [Hi2 El2]. inversion El2; subst l2.
      assert (E1 : (lw + i1 <? lw)%nat = false) by (apply Nat.ltb_ge; lia).
      assert (E2 : (i2 <? lw)%nat = true) by (apply Nat.ltb_lt; lia).
      rewrite E1, E2. cbn [Bool.eqb]. split; [reflexivity|]. unfold key_tables_ok. destruct (q1 && q2); reflexivity.
    - destruct Hs1 as [Hi1 El1]. inversion El1; subst l1.
      assert (E1 : (i1 <? lw)%nat = true) by (apply Nat.ltb_lt; lia).
      assert (E2 : (lw + i2 <? lw)%nat = false) by (apply Nat.ltb_ge; lia).
      rewrite E1, E2. cbn [Bool.eqb]. split; [reflexivity|]. unfold key_tables_ok. destruct (q1 && q2); reflexivity.
    - exfalso. destruct Hs1 as [Hi1 _]. destruct Hs2 as [Hi2 _].
      assert (E1 : (i1 <? lw)%nat = true) by (apply Nat.ltb_lt; lia).
      assert (E2 : (i2 <? lw)%nat = true) by (apply Nat.ltb_lt; lia).
      rewrite E1, E2 in Hp. cbn in Hp. discriminate.
  Qed.

  Lemma same_keys_app : forall ks1 ks2, same_keys lw rw (ks1 ++ ks2) = same_keys lw rw ks1 ++ same_keys lw rw ks2.
  Proof.
    induction ks1 as [|k ks1 IH]; intro ks2; cbn [app same_keys]; [reflexivity|].
    destruct (key_same lw rw k); rewrite IH; reflexivity.
  Qed.

  Lemma pure_keys_shape : forall c, pure_keys lw rw c = true ->
    all_equi c = true /\ forallb key_tables_ok (equi_keys c) = true /\ same_keys lw rw (equi_keys c) = [].
  Proof.
    induction c; cbn [pure_keys]; intro H; try discriminate.
    - destruct op; try discriminate. destruct c1; try discriminate. destruct c2; try discriminate.
      destruct (one_key_shape _ _ _ _ _ _ H) as [Hs Ht]. cbn [all_equi equi_keys forallb same_keys].
      rewrite Hs, Ht. repeat split; reflexivity.
    - apply andb_true_iff in H. destruct H as [H1 H2].
      destruct (IHc1 H1) as [A1 [T1 S1]]. destruct (IHc2 H2) as [A2 [T2 S2]].
      cbn [all_equi equi_keys]. rewrite A1, A2, forallb_app, T1, T2, same_keys_app, S1, S2. repeat split; reflexivity.
  Qed.

  Lemma pure_keys_hash_path : forall c, pure_keys lw rw c = true -> hash_path c = true.
  Proof.
    intros c H. destruct (pure_keys_shape c H) as [A [T _]]. destruct (pure_keys_decided c H) as [m [_ [Hne _]]].
    unfold hash_path. rewrite A, T. destruct (equi_keys c); [cbn in Hne; congruence|reflexivity].
  Qed.

  Lemma pure_keys_join_match : forall c, pure_keys lw rw c = true ->
    join_match lw rw (Some c) l r = hash_match (key_pairs lw rw (equi_keys c)) l r.
  Proof.
    intros c H. destruct (pure_keys_shape c H) as [_ [_ S]]. destruct (pure_keys_decided c H) as [m [Hh [Hne _]]].
    unfold join_match. rewrite (pure_keys_hash_path c H), S. cbn [same_match].
    destruct (key_pairs lw rw (equi_keys c)) as [|pp ps] eqn:E; [congruence|].
    rewrite Hh. reflexivity.
  Qed.

  Lemma hash_pair : forall c b, pure_keys lw rw c = true ->
    pass_res (rtv (xeval db [r; l] c)) = ROk b -> join_match lw rw (Some c) l r = Some b.
  Proof.
    intros c b Hp Hb. destruct (pure_keys_decided c Hp) as [m [Hh [Hne Hm]]].
    rewrite (pure_keys_join_match c Hp), Hh, (Hm b Hb). reflexivity.
  Qed.

  (* x IN on the hash path: the outer expression is a column *)
  Lemma hash_in_pair : forall la ia qa j w2 x b,
    xeval db [l] (XCol la ia qa) = ROk x -> (j < rw)%nat ->
    let c1 := XCmp CEq (XCol (S la) ia qa) (XCol 0 j true) in
    let c := match w2 with Some p2 => XAnd c1 p2 | None => c1 end in
    pure_keys lw rw c = true ->
    match w2 with
    | Some p2 => pass_res (rtv (xeval db [r; l] p2)) = ROk b
    | None => b = true
    end ->
    exists y e, nth_error r j = Some y /\
      join_match lw rw (Some c) l r = Some (b && e) /\
      (forall t, cmp3 CEq x y = Some t -> e = tv_is_true t).
  Proof.
    intros la ia qa j w2 x b Hx Hj c1 c Hp Hw.
    assert (Hp1 : pure_keys lw rw c1 = true).
    { subst c. destruct w2; [cbn [pure_keys] in Hp; apply andb_true_iff in Hp; destruct Hp; assumption|exact Hp]. }
    pose proof Hp1 as Hp1'. cbn [c1 pure_keys] in Hp1'.
    destruct (one_key _ _ _ _ _ _ Hp1') as [v1 [v2 [m [Hx1 [Hx2 [Hpv1 [Hpv2 [Hh [Hne Hke]]]]]]]]].
    (* the lifted column reads the outer row *)
    assert (Ev1 : v1 = x).
    { rewrite xeval_col in Hx1, Hx. cbn [nth_error] in Hx1.
      destruct la; cbn [nth_error] in *.
      - destruct (nth_error l ia); cbn in *; congruence.
      - destruct la; cbn in Hx; discriminate. }
    subst v1.
    assert (Ev2 : nth_error r j = Some v2).
    { rewrite xeval_col in Hx2. cbn [nth_error] in Hx2. destruct (nth_error r j); cbn in Hx2; [congruence|discriminate]. }
    exists v2, m. split; [exact Ev2|]. split.
    - rewrite (pure_keys_join_match c Hp). subst c. destruct w2 as [p2|].
      + cbn [pure_keys] in Hp. apply andb_true_iff in Hp. destruct Hp as [_ Hp2].
        destruct (pure_keys_decided p2 Hp2) as [m2 [Hh2 [Hn2 Hm2]]]. rewrite (Hm2 b Hw).
        cbn [equi_keys]. rewrite key_pairs_app.
        change (equi_keys c1) with [((S la, ia, qa), (0%nat, j, true))].
        rewrite (hash_match_app _ _ m m2 Hh Hh2). rewrite andb_comm. reflexivity.
      + subst b. change (equi_keys c1) with [((S la, ia, qa), (0%nat, j, true))]. rewrite Hh. reflexivity.
    - intros t Ht. eapply key_eq_cmp3; eauto.
  Qed.
End Pair.
