(* C03: facts about the frame checksum model (Model.WalCrc). *)
From Coq Require Import ZArith List Bool Lia.
From TV Require Import Lib.MachInt Model.WalCrc.
Import ListNotations.
Open Scope Z_scope.

Lemma crc_byte_zero : crc_byte 0 0 = 0.
Proof. vm_compute. reflexivity. Qed.

(* CRC-64/ECMA-182 (init 0, xorout 0) of any run of zero bytes is 0 *)
Lemma crc64_zeros_from : forall n, fold_left crc_byte (repeat 0 n) 0 = 0.
Proof.
  induction n as [|n IH]; [reflexivity|].
  cbn [repeat fold_left]. rewrite crc_byte_zero. exact IH.
Qed.

Lemma crc64_zeros_l : forall n, crc64 (repeat 0 n) = 0.
Proof. intro n. unfold crc64. apply crc64_zeros_from. Qed.

Lemma digest_input_zero : forall n,
  frame_digest_input 0 0 0 0 0 (repeat 0 n) = repeat 0 (24 + n).
Proof. intro n. reflexivity. Qed.

(* a slot of zero bytes of any page length passes validate_checksum *)
Lemma zero_frame_validates_l : forall n, validate_checksum 0 0 0 0 0 0 (repeat 0 n) = true.
Proof.
  intro n. unfold validate_checksum, compute_checksum.
  rewrite digest_input_zero, crc64_zeros_l. reflexivity.
Qed.

Lemma zero_slot_valid_l : zero_slot_validates = true.
Proof. unfold zero_slot_validates. apply zero_frame_validates_l. Qed.

(* the checksum does detect a change of one header or page byte in small concrete instances
   (sanity only; burst detection in general is a property of the polynomial and is not proved) *)
Example crc_detects_flip :
  compute_checksum 0 1 3 7 9 (repeat 5 8) <> compute_checksum 0 1 3 7 9 (4 :: repeat 5 7)
  /\ compute_checksum 0 1 3 7 9 (repeat 5 8) <> compute_checksum 0 1 2 7 9 (repeat 5 8).
Proof. split; vm_compute; discriminate. Qed.
