(* C06 - A failing statement has no effect.  Property theorems only.
   Mechanism model: Model/Tombstone.v (`step false` = the code as it is: INSERT validates and
   writes row by row and updates the header after the loop; UPDATE and DELETE collect and
   validate every row before the first write; `step true` = with the proposed repair).
   The state of the model is the whole table file: entries (tombstones included), header
   row_count (COUNT star), the unique index of the key column, the row-id counter.
   Finding class 4 of Model/Tombstone.v (= class 1 of C06): an INSERT that fails after it has
   written at least one row. *)
From Coq Require Import ZArith List Bool.
From TV Require Import Model.SqlSpec Model.DmlSpec Model.Tombstone Proof.StmtAtomic.
Import ListNotations.
Open Scope Z_scope.

(* ---- one statement: an error means the state is exactly what it was -- for every UPDATE,
        DELETE, TRUNCATE, and for every INSERT whose failing row is the first one *)
Theorem stmt_atomic :
  forall fx sch st s st', step fx sch st s = (RErr, st') ->
    fx = true \/ stmt_class sch st s <> 4 -> st' = st.
Proof. exact StmtAtomic.stmt_atomic. Qed.
Check stmt_atomic :
  forall fx sch st s st', step fx sch st s = (RErr, st') ->
    fx = true \/ stmt_class sch st s <> 4 -> st' = st.
Print Assumptions stmt_atomic.

(* ---- multi-row UPDATE is atomic unconditionally (all rows are computed and validated
        before the first write); DELETE and TRUNCATE never fail in the model *)
Theorem update_atomic :
  forall fx sch st sets w ret st', step fx sch st (SUpdate sets w ret) = (RErr, st') -> st' = st.
Proof. exact StmtAtomic.update_atomic. Qed.
Check update_atomic :
  forall fx sch st sets w ret st', step fx sch st (SUpdate sets w ret) = (RErr, st') -> st' = st.
Print Assumptions update_atomic.

Theorem delete_atomic :
  forall fx sch st w ret st', step fx sch st (SDelete w ret) <> (RErr, st').
Proof. exact StmtAtomic.delete_never_fails. Qed.
Check delete_atomic :
  forall fx sch st w ret st', step fx sch st (SDelete w ret) <> (RErr, st').
Print Assumptions delete_atomic.

(* ---- histories, on what the correspondence observes (rows of SELECT star, COUNT star): after
        every failing statement both are what they were before it, for all histories without
        a class-4 INSERT *)
Theorem trace_atomic :
  forall sch h st, no_partial_insert sch st h ->
    atomic_trace (visible st) (count_star st) (trace false sch st h).
Proof. exact StmtAtomic.trace_atomic. Qed.
Check trace_atomic :
  forall sch h st, no_partial_insert sch st h ->
    atomic_trace (visible st) (count_star st) (trace false sch st h).
Print Assumptions trace_atomic.

(* ---- with the repair (a failing INSERT undoes / never writes its earlier rows): all histories *)
Theorem trace_atomic_repaired :
  forall sch h st, atomic_trace (visible st) (count_star st) (trace true sch st h).
Proof. exact StmtAtomic.trace_atomic_repaired. Qed.
Check trace_atomic_repaired :
  forall sch h st, atomic_trace (visible st) (count_star st) (trace true sch st h).
Print Assumptions trace_atomic_repaired.

(* ---- the exclusion is necessary: INSERT (2,20),(1,30) into a PRIMARY KEY table holding key 1
        fails, row (2,20) stays and COUNT star no longer equals the number of rows *)
Theorem stmt_atomic_refuted :
  exists sch st s st', step false sch st s = (RErr, st') /\ stmt_class sch st s = 4 /\
    visible st' <> visible st /\ count_star st' <> zlen (visible st').
Proof. exact StmtAtomic.stmt_atomic_refuted. Qed.
Check stmt_atomic_refuted :
  exists sch st s st', step false sch st s = (RErr, st') /\ stmt_class sch st s = 4 /\
    visible st' <> visible st /\ count_star st' <> zlen (visible st').
Print Assumptions stmt_atomic_refuted.

(* ---- non-vacuity: a failing statement outside class 4 exists (first row duplicate), and the
        hypothesis of trace_atomic holds for a history that contains failing statements *)
Example failing_first_row :
  step false pk2 st_one (SInsert [[VInt 1; VInt 30]; [VInt 2; VInt 20]] false) = (RErr, st_one) /\
  stmt_class pk2 st_one (SInsert [[VInt 1; VInt 30]; [VInt 2; VInt 20]] false) = 0.
Proof. split; vm_compute; reflexivity. Qed.
Example no_partial_insert_satisfiable :
  no_partial_insert pk2 t_empty
    [SInsert [[VInt 1; VInt 10]] false; SInsert [[VInt 1; VInt 30]] false;
     SUpdate [(1%nat, ELit VNull)] None false; SInsert [[VNull; VInt 1]] true].
Proof. vm_compute. repeat split; discriminate. Qed.
