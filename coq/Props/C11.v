(* C11 - Every stored value reads back unchanged.  Property theorems only.
   Gen/Toast.v (the four TOAST constants, is_toast_pointer, needs_toast, parse_chunk_key, ToastPointer::row_id /
   column_index) is regenerated from src/storage/toast.rs on every run; Model/Toast.v (pointer codec,
   chunk keys, chunking, the toast table) and Model/ToastSql.v (what INSERT / UPDATE / DELETE / reopen /
   SELECT do to a stored value on the repaired tree - 60cb117, 16c5acb, 1b44555, 170f3f6, cc39952 -, the
   property's oracle spec_hist) are hand-written. *)
From Coq Require Import ZArith List Bool.
From TV Require Import Lib.MachInt Gen.Toast Model.Toast Model.Utf8 Model.ToastSql
  Proof.ToastCodec Proof.ToastStore Proof.ToastSqlMain.
Import ListNotations.
Open Scope Z_scope.

(* ================================================================ the codec *)
(* ToastPointer::encode / decode / is_toast_pointer *)
Theorem pointer_roundtrip :
  forall total cid, 0 <= total < 2 ^ 64 -> 0 <= cid < 2 ^ 64 ->
    ptr_decode (ptr_encode total cid) = Some (total, cid) /\
    is_toast_pointer (ptr_encode total cid) = true /\ blen (ptr_encode total cid) = 17.
Proof. exact pointer_roundtrip_l. Qed.

(* make_chunk_key / parse_chunk_key (regenerated), without out-of-bounds reads *)
Theorem chunk_key_roundtrip :
  forall cid seq, 0 <= cid < 2 ^ 64 -> 0 <= seq < 2 ^ 32 ->
    parse_chunk_key (make_chunk_key cid seq) = Some (cid, seq) /\ parse_chunk_key_safe (make_chunk_key cid seq) = true.
Proof. exact chunk_key_roundtrip_l. Qed.

(* the B-tree's byte order on chunk keys is the order of the pairs (chunk_id, chunk_seq): the chunks of one
   value are distinct keys, adjacent and in sequence order *)
Theorem chunk_keys_sorted_distinct :
  forall cid seq cid' seq', 0 <= cid < 2 ^ 64 -> 0 <= seq < 2 ^ 32 -> 0 <= cid' < 2 ^ 64 -> 0 <= seq' < 2 ^ 32 ->
    (cid < cid' \/ (cid = cid' /\ seq < seq')) ->
    lex_lt (make_chunk_key cid seq) (make_chunk_key cid' seq') = true.
Proof. exact chunk_keys_sorted. Qed.

(* chunk_id = (column << 48) | row_id identifies row and column below 2^48 rows / 2^16 columns ... *)
Theorem chunk_id_injective :
  forall rid col rid' col', 0 <= rid < 2 ^ 48 -> 0 <= col < 2 ^ 16 -> 0 <= rid' < 2 ^ 48 -> 0 <= col' < 2 ^ 16 ->
    chunk_id_of rid col = chunk_id_of rid' col' -> rid = rid' /\ col = col'.
Proof. exact chunk_id_injective_l. Qed.

(* ... and not beyond *)
Theorem chunk_id_refuted_beyond_2_48 :
  chunk_id_of (2 ^ 48) 0 = chunk_id_of 0 1 /\ ptr_row_id 0 (chunk_id_of (2 ^ 48 + 5) 0) = 5.
Proof. exact chunk_id_refuted_l. Qed.

(* ================================================================ chunking and the toast table *)
(* data.chunks(4000): the pieces concatenate to the data, there are chunk_count of them, each 1..4000 bytes *)
Theorem chunks_concat :
  forall d, concat (chunks CHUNK d) = d /\ Z.of_nat (length (chunks CHUNK d)) = chunk_count (blen d) /\
            Forall (fun c => 1 <= blen c <= 4000) (chunks CHUNK d).
Proof. exact chunks_concat_shape_l. Qed.

(* toast_value then detoast_value: when the keys of the chunk id are free the write succeeds and the pointer
   it returns detoasts to exactly the data (any data below 2^31 bytes, any u64 chunk id) *)
Theorem toast_roundtrip :
  forall m cid d, 0 <= cid < 2 ^ 64 -> blen d < ALLOC_OK ->
    (forall i, 0 <= i < chunk_count (blen d) -> m (cid, i) = None) ->
    exists m', toast_write m cid d = (m', true) /\ detoast m' (ptr_encode (blen d) cid) = DOk d.
Proof. exact toast_roundtrip_l. Qed.

(* whatever a toast_value call does - succeed, or stop at a duplicate key - every value stored before is still stored *)
Theorem toast_write_frame :
  forall m cid d m' ok cid' d', toast_write m cid d = (m', ok) -> stored_at m cid' d' -> stored_at m' cid' d'.
Proof. exact toast_frame_l. Qed.

(* delete_toast_chunks through a pointer leaves the values of the other chunk ids alone *)
Theorem toast_delete_frame :
  forall m total cid cid' d, 0 <= total < 2 ^ 64 -> 0 <= cid < 2 ^ 64 -> cid' <> cid ->
    stored_at m cid' d -> stored_at (del_pointer m (ptr_encode total cid)) cid' d.
Proof. exact toast_delete_frame_l. Qed.

(* the forced hypothesis of toast_roundtrip: under a chunk id that already holds a value every write fails at its first chunk *)
Theorem toast_collision :
  forall m cid d d0, stored_at m cid d0 -> d0 <> [] -> d <> [] -> toast_write m cid d = (m, false).
Proof. exact toast_collision_l. Qed.

(* SELECT of a toasted value: the bytes are the value's and the type is the type of the column the pointer names
   (a TEXT column whose chunks are not UTF-8 is an error, never a silent BLOB) *)
Theorem readback_toasted :
  forall ty m rid b, 0 <= rid < 2 ^ 48 -> blen b < ALLOC_OK -> stored_at m (chunk_id_of rid COL_C) b ->
    read_value ty m (SBytes (ptr_encode (blen b) (chunk_id_of rid COL_C))) =
    match ty with TText => if valid_utf8 b then ROk (VText b) else RErr | _ => ROk (VBlob b) end.
Proof. exact readback_value_l. Qed.

(* SELECT of an inline value: unchanged, typed by the column - when is_toast_pointer does not take it for a pointer *)
Theorem readback_inline :
  forall ty m b, is_toast_pointer b = false ->
    read_value ty m (SBytes b) = ROk (match ty with TBlob => VBlob b | _ => VText b end).
Proof. exact readback_inline_l. Qed.

(* ================================================================ the property on histories *)
(* For every column type class, with or without an integer primary key, and EVERY history of INSERT / UPDATE /
   DELETE / close+reopen / SELECT steps (any of the three write paths, any values that fit the column - BLOBs
   that are valid UTF-8 and 17-byte 0xFE-led BLOBs included -, no key inserted twice, fewer than 2^47 steps):
   what the model shows satisfies the property's oracle - every SELECT returns, for every key, exactly the value
   (type and bytes) of the last write that reported success.  No finding class is left to exclude; no toast
   write can fail in such a history. *)
Theorem history_readback :
  forall ty pk ops, wf_hist ty ops = true -> spec_hist ops (run ty pk ops) = true.
Proof. exact history_readback_l. Qed.

(* the four classes that used to break the property (BLOB that is valid UTF-8 read back as TEXT, 16c5acb; pointer-like
   BLOB detoasted, 170f3f6; rejected UPDATE destroying the stored value, 1b44555; re-executed prepared INSERT
   storing pointer-like bytes inline, cc39952): their witnesses now read back what was written *)
Theorem former_classes_repaired :
  (run TBlob false ops_utf8_blob = [SWrote true; SRows [(1, VBlob (repeat 97 1001))]] /\
   spec_hist ops_utf8_blob (run TBlob false ops_utf8_blob) = true) /\
  (run TBlob false ops_fake_pointer = [SWrote true; SRows [(1, VBlob (254 :: repeat 0 16))]] /\
   spec_hist ops_fake_pointer (run TBlob false ops_fake_pointer) = true) /\
  (run TText false ops_lost_update =
     [SWrote true; SWrote true; SWrote true; SRows [(1, VText (repeat 99 1001)); (2, VText (repeat 98 1001))];
      SWrote true; SRows [(1, VText (repeat 99 1001)); (2, VText (repeat 100 1001))]] /\
   spec_hist ops_lost_update (run TText false ops_lost_update) = true) /\
  (run TBlob false ops_cached_pointer =
     [SWrote true; SWrote true; SWrote true;
      SRows [(1, VBlob [0]); (2, VBlob (254 :: repeat 0 16)); (3, VBlob (repeat 255 1001))]] /\
   spec_hist ops_cached_pointer (run TBlob false ops_cached_pointer) = true).
Proof. exact former_classes_repaired_l. Qed.

(* non-vacuity: a history with values on both sides of the threshold, pointer-like blobs, all three paths (the prepared
   statement re-executed), UPDATEs, a DELETE, a reopen and INSERTs after it satisfies the hypothesis of
   history_readback; the codec hypotheses are met by concrete values *)
Example c11_history_witness :
  wf_hist TBlob ops_example = true /\
  run TBlob false ops_example =
    [SWrote true; SWrote true; SWrote true; SWrote true; SWrote true; SWrote true; SReopened true; SWrote true; SWrote true;
     SRows [(1, VBlob (repeat 99 (Z.to_nat 9000))); (2, VBlob (repeat 100 1001)); (4, VBlob [7]); (5, VBlob (254 :: repeat 2 16))]].
Proof. exact history_example_l. Qed.

Example c11_codec_witness :
  ptr_encode 1001 (chunk_id_of 5 1) = [254; 233; 3; 0; 0; 0; 0; 0; 0; 5; 0; 0; 0; 0; 0; 1; 0] /\
  make_chunk_key 7 3 = [0; 0; 0; 0; 0; 0; 0; 7; 0; 0; 0; 3] /\ chunk_count 4001 = 2 /\
  map (@length Z) (chunks CHUNK (repeat 7 (Z.to_nat 8001))) = [4000%nat; 4000%nat; 1%nat] /\
  needs_toast (repeat 0 1000) = false /\ needs_toast (repeat 0 1001) = true.
Proof. vm_compute. repeat split; reflexivity. Qed.

Check pointer_roundtrip : forall total cid, 0 <= total < 2 ^ 64 -> 0 <= cid < 2 ^ 64 ->
    ptr_decode (ptr_encode total cid) = Some (total, cid) /\
    is_toast_pointer (ptr_encode total cid) = true /\ blen (ptr_encode total cid) = 17.
Check chunk_key_roundtrip : forall cid seq, 0 <= cid < 2 ^ 64 -> 0 <= seq < 2 ^ 32 ->
    parse_chunk_key (make_chunk_key cid seq) = Some (cid, seq) /\ parse_chunk_key_safe (make_chunk_key cid seq) = true.
Check chunk_keys_sorted_distinct : forall cid seq cid' seq', 0 <= cid < 2 ^ 64 -> 0 <= seq < 2 ^ 32 -> 0 <= cid' < 2 ^ 64 -> 0 <= seq' < 2 ^ 32 ->
    (cid < cid' \/ (cid = cid' /\ seq < seq')) -> lex_lt (make_chunk_key cid seq) (make_chunk_key cid' seq') = true.
Check chunk_id_injective : forall rid col rid' col', 0 <= rid < 2 ^ 48 -> 0 <= col < 2 ^ 16 -> 0 <= rid' < 2 ^ 48 -> 0 <= col' < 2 ^ 16 ->
    chunk_id_of rid col = chunk_id_of rid' col' -> rid = rid' /\ col = col'.
Check chunk_id_refuted_beyond_2_48 : chunk_id_of (2 ^ 48) 0 = chunk_id_of 0 1 /\ ptr_row_id 0 (chunk_id_of (2 ^ 48 + 5) 0) = 5.
Check chunks_concat : forall d, concat (chunks CHUNK d) = d /\ Z.of_nat (length (chunks CHUNK d)) = chunk_count (blen d) /\
    Forall (fun c => 1 <= blen c <= 4000) (chunks CHUNK d).
Check toast_roundtrip : forall m cid d, 0 <= cid < 2 ^ 64 -> blen d < ALLOC_OK ->
    (forall i, 0 <= i < chunk_count (blen d) -> m (cid, i) = None) ->
    exists m', toast_write m cid d = (m', true) /\ detoast m' (ptr_encode (blen d) cid) = DOk d.
Check toast_write_frame : forall m cid d m' ok cid' d', toast_write m cid d = (m', ok) -> stored_at m cid' d' -> stored_at m' cid' d'.
Check toast_delete_frame : forall m total cid cid' d, 0 <= total < 2 ^ 64 -> 0 <= cid < 2 ^ 64 -> cid' <> cid ->
    stored_at m cid' d -> stored_at (del_pointer m (ptr_encode total cid)) cid' d.
Check toast_collision : forall m cid d d0, stored_at m cid d0 -> d0 <> [] -> d <> [] -> toast_write m cid d = (m, false).
Check readback_toasted : forall ty m rid b, 0 <= rid < 2 ^ 48 -> blen b < ALLOC_OK -> stored_at m (chunk_id_of rid COL_C) b ->
    read_value ty m (SBytes (ptr_encode (blen b) (chunk_id_of rid COL_C))) =
    match ty with TText => if valid_utf8 b then ROk (VText b) else RErr | _ => ROk (VBlob b) end.
Check readback_inline : forall ty m b, is_toast_pointer b = false ->
    read_value ty m (SBytes b) = ROk (match ty with TBlob => VBlob b | _ => VText b end).
Check history_readback : forall ty pk ops, wf_hist ty ops = true -> spec_hist ops (run ty pk ops) = true.
Check former_classes_repaired :
  (run TBlob false ops_utf8_blob = [SWrote true; SRows [(1, VBlob (repeat 97 1001))]] /\
   spec_hist ops_utf8_blob (run TBlob false ops_utf8_blob) = true) /\
  (run TBlob false ops_fake_pointer = [SWrote true; SRows [(1, VBlob (254 :: repeat 0 16))]] /\
   spec_hist ops_fake_pointer (run TBlob false ops_fake_pointer) = true) /\
  (run TText false ops_lost_update =
     [SWrote true; SWrote true; SWrote true; SRows [(1, VText (repeat 99 1001)); (2, VText (repeat 98 1001))];
      SWrote true; SRows [(1, VText (repeat 99 1001)); (2, VText (repeat 100 1001))]] /\
   spec_hist ops_lost_update (run TText false ops_lost_update) = true) /\
  (run TBlob false ops_cached_pointer =
     [SWrote true; SWrote true; SWrote true;
      SRows [(1, VBlob [0]); (2, VBlob (254 :: repeat 0 16)); (3, VBlob (repeat 255 1001))]] /\
   spec_hist ops_cached_pointer (run TBlob false ops_cached_pointer) = true).

Print Assumptions pointer_roundtrip.
Print Assumptions chunk_key_roundtrip.
Print Assumptions chunk_keys_sorted_distinct.
Print Assumptions chunk_id_injective.
Print Assumptions chunk_id_refuted_beyond_2_48.
Print Assumptions chunks_concat.
Print Assumptions toast_roundtrip.
Print Assumptions toast_write_frame.
Print Assumptions toast_delete_frame.
Print Assumptions toast_collision.
Print Assumptions readback_toasted.
Print Assumptions readback_inline.
Print Assumptions history_readback.
Print Assumptions former_classes_repaired.
