(* C17 implementation model, part 2: the hand-written join path of Database::query
   (src/database/database.rs, PlanSource::{NestedLoopJoin, GraceHashJoin, StreamingHashJoin} arm,
   lines 2116 .. 3250) for a join of TWO base tables with a select list of plain columns, and the
   finding classes of the SQL-level cases.  Definitions only; proofs in Proof/JoinHw.v.

   What the code does (faithfully, including what is wrong):
   * plan (src/sql/planner/convert.rs:272, src/sql/optimizer/join_analysis.rs:95): if the ON condition,
     read as a conjunction, contains at least one conjunct `column = column`, a hash join is planned
     and ONLY those column pairs survive as join keys -- every other conjunct of ON is dropped
     (finding class 3).  database.rs:2706 then keeps the key pairs with one column on each side;
     if none is left the join degenerates to a cross product.  Otherwise the plan is a nested loop
     with the whole ON condition (evaluated by CompiledPredicate: Model/PredImpl.v eval_expr).
   * hash path (database.rs:2866..2981): rows with a NULL key are skipped; a build table on
     DefaultHasher over hash_owned_value_normalized (Int hashed as its f64 bit pattern, Float by its
     bit pattern: 0.0 and -0.0 hash differently, finding class 8), candidates confirmed by
     owned_values_equal_with_coercion.  The hash is modelled as injective on the normalised key
     (no SipHash collision).
   * both paths: a pair that passes the key / ON test is then tested against the WHERE predicate
     BEFORE the matched flags are set; afterwards LEFT / FULL emit the unflagged left rows and
     RIGHT / FULL the unflagged right rows, NULL-padded and NOT filtered by WHERE (finding class 4).
     As a bag the result is therefore  join (ON' AND WHERE)  with no WHERE afterwards.
   * the memory budget (PRAGMA join_memory_budget) is stored and never read by this path: the
     model does not depend on it.
   Not modelled (black box, judged against the reference only): SELECT *, joins of three or
   more tables (execute_nested_join_recursive / execute_hash_join_recursive). *)
From Coq Require Import ZArith List Bool.
From TV Require Import Model.SqlSpec Model.PredImpl Model.JoinSpec Model.JoinExec.
Import ListNotations.
Open Scope Z_scope.

(* ------------------------------------------------------------------ plan: keys of the ON condition *)
Fixpoint conjuncts (e : expr) : list expr :=
  match e with EAnd a b => conjuncts a ++ conjuncts b | _ => [e] end.
Definition key_of (c : expr) : option (nat * nat) :=
  match c with ECmp CEq (ECol i) (ECol j) => Some (i, j) | _ => None end.
Definition is_key (c : expr) : bool := match key_of c with Some _ => true | None => false end.
(* JoinAnalyzer::collect_equi_join_keys *)
Definition equi_keys (e : expr) : list (nat * nat) :=
  flat_map (fun c => match key_of c with Some k => [k] | None => [] end) (conjuncts e).
(* database.rs key_indices: (left column, right column relative to the right table) *)
Definition cross_key (lw : nat) (k : nat * nat) : list (nat * nat) :=
  let (i, j) := k in
  if (i <? lw)%nat && negb (j <? lw)%nat then [(i, (j - lw)%nat)]
  else if (j <? lw)%nat && negb (i <? lw)%nat then [(j, (i - lw)%nat)]
  else [].
Definition cross_keys (lw : nat) (ks : list (nat * nat)) : list (nat * nat) := flat_map (cross_key lw) ks.
(* a conjunct that survives planning as a key *)
Definition is_cross_key (lw : nat) (c : expr) : bool :=
  match key_of c with Some k => negb (is_nil (cross_key lw k)) | None => false end.

(* ------------------------------------------------------------------ hash path *)
(* `i as f64` as a bit pattern *)
Definition f64_bits_of_int (x : Z) : Z :=
  let v := round53 x in
  if v =? 0 then 0 else
  let a := Z.abs v in
  let e := Z.log2 a in
  let m := if e <=? 52 then a * 2 ^ (52 - e) else a / 2 ^ (e - 52) in
  (if v <? 0 then 2 ^ 63 else 0) + (e + 1023) * 2 ^ 52 + (m - 2 ^ 52).

Inductive nkey := NF (bits : Z) | NT (s : list Z) | NB (b : bool) | NNull.
Definition norm_key (v : value) : nkey :=
  match v with
  | VNull => NNull
  | VInt i => NF (f64_bits_of_int i)
  | VFloat b => NF b
  | VText s => NT s
  | VBool b => NB b
  end.
Definition nkey_eqb (a b : nkey) : bool :=
  match a, b with
  | NF x, NF y => x =? y
  | NT x, NT y => zlist_eqb' x y
  | NB x, NB y => Bool.eqb x y
  | NNull, NNull => true
  | _, _ => false
  end.
(* owned_values_equal_with_coercion *)
Definition equal_coerce (a b : value) : bool :=
  match a, b with
  | VNull, _ | _, VNull => false
  | VInt x, VInt y => x =? y
  | VFloat x, VFloat y => match f_partial_cmp x y with Some Eq => true | _ => false end
  | VInt x, VFloat y => match if_partial_cmp x y with Some Eq => true | _ => false end
  | VFloat x, VInt y => match if_partial_cmp y x with Some Eq => true | _ => false end
  | VText x, VText y => zlist_eqb' x y
  | VBool x, VBool y => Bool.eqb x y
  | _, _ => false
  end.
Definition null_key (r : row) (idx : list nat) : bool :=
  existsb (fun i => match nth_error r i with Some VNull | None => true | _ => false end) idx.
Definition hw_key_match (ks : list (nat * nat)) (l r : row) : bool :=
  negb (null_key l (map fst ks)) && negb (null_key r (map snd ks)) &&
  forallb (fun k => match nth_error l (fst k), nth_error r (snd k) with
                    | Some a, Some b => nkey_eqb (norm_key a) (norm_key b) && equal_coerce a b
                    | _, _ => false
                    end) ks.

(* ------------------------------------------------------------------ the two-table path *)
Definition ev (e : expr) (r : row) : bool := match eval_expr e r with PredImpl.Ok b => b | _ => false end.
Definition ev_status (e : expr) (rows : table) : Z :=
  fold_left (fun acc r => match eval_expr e r with PredImpl.Ok _ => acc | PredImpl.Panic => Z.max acc 2 | PredImpl.Unmod => Z.max acc 1 end) rows 0.

Definition pairs_of (L R : table) : table := flat_map (fun l => map (fun r => l ++ r) R) L.

(* the test a pair has to pass before WHERE *)
Definition hw_cond (lw : nat) (on : option expr) (l r : row) : bool :=
  match on with
  | None => true
  | Some e =>
      if is_nil (equi_keys e) then ev e (l ++ r)
      else let ks := cross_keys lw (equi_keys e) in
           if is_nil ks then true else hw_key_match ks l r
  end.
Definition hw_uses_hash (lw : nat) (on : option expr) : bool :=
  match on with Some e => negb (is_nil (cross_keys lw (equi_keys e))) | None => false end.
(* the predicates the path really evaluates (for the Panic / not-modelled status) *)
Definition hw_status (lw : nat) (on : option expr) (w : option expr) (L R : table) : Z :=
  let s1 := match on with Some e => if is_nil (equi_keys e) then ev_status e (pairs_of L R) else 0 | None => 0 end in
  let s2 := match w with Some e => ev_status e (flat_map (fun l => map (fun r => l ++ r) (filter (hw_cond lw on l) R)) L) | None => 0 end in
  Z.max s1 s2.

Definition is_some {X} (o : option X) : bool := match o with Some _ => true | None => false end.

Inductive hout := HRows (t : table) | HPanic | HUnmod | HBlack.

Definition hw2 (jt : jtype) (lw rw : nat) (on : option expr) (w : option expr) (sel : list nat) (L R : table) : hout :=
  let on' := opt_on jt on in
  match hw_status lw on' w L R with
  | 0 =>
      let pass := fun l r => hw_cond lw on' l r && match w with Some e => ev e (l ++ r) | None => true end in
      match project_all (Some sel) (join_rows jt lw rw pass L R) with
      | Some t => HRows t
      | None => HUnmod
      end
  | 1 => HUnmod
  | _ => HPanic
  end.

(* qual: the harness printed table-qualified column names (ta.a1).  The optimizer's table analyses
   (predicate pushdown through joins, join-condition extraction, join reordering by estimated
   cardinality) only see qualified names and then rewrite a join under a WHERE clause in
   data-dependent ways; that regime is not modelled (black box, class 10). *)
Definition hw_model (q : query) (qual : bool) : hout :=
  match q_tabs q, q_joins q, q_sel q with
  | [(lw, L); (rw, R)], [(jt, on)], Some sel =>
      if qual && is_some (q_where q) then HBlack else hw2 jt lw rw on (q_where q) sel L R
  | _, _, _ => HBlack
  end.

(* ------------------------------------------------------------------ finding classes of the SQL-level cases *)
(* 2: SELECT * over a join
   3: ON contains a `column = column` conjunct together with anything that is not a left-right key
      (residual conjuncts, same-side equalities): only the left-right keys are kept       [two tables]
   4: outer join with a WHERE clause: WHERE acts as part of the match condition   [two tables, or the
      last join of a longer chain]
   8: hash path and two keys that are equal in SQL but hash differently (0.0 / -0.0)     [two tables]
  10: WHERE clause and table-qualified column names: the optimizer pushes the whole predicate
      below the join / reorders the inputs and drops the ON condition (see also C19)     [two tables]
   5: three or more tables, a WHERE clause and table-qualified names (the filter pushed below a nested
      join is ignored by execute_nested_join_recursive)
   6: three or more tables and a `column = column` conjunct in some ON (nested hash joins are not executed)
   7: three or more tables and an outer join other than a LEFT join in last position:
      execute_nested_join_recursive runs every nested join as an inner join, and a final RIGHT / FULL
      join pads its unmatched rows by the width of the first nested row (0 when the nested join is empty)  *)
Definition any_outer (js : list (jtype * option expr)) : bool :=
  existsb (fun j => left_outer (fst j) || right_outer (fst j)) js.
Definition any_equi (js : list (jtype * option expr)) : bool :=
  existsb (fun j => match opt_on (fst j) (snd j) with Some e => negb (is_nil (equi_keys e)) | None => false end) js.

Definition residual_on (lw : nat) (on : option expr) : bool :=
  match on with
  | Some e => negb (is_nil (equi_keys e)) && negb (forallb (is_cross_key lw) (conjuncts e))
  | None => false
  end.
(* some pair whose ON is TRUE in SQL although the hash path does not match it *)
Definition hash_miss (lw : nat) (on : option expr) (L R : table) : bool :=
  match on with
  | Some e => hw_uses_hash lw on &&
              existsb (fun l => existsb (fun r => on_tt e l r && negb (hw_cond lw on l r)) R) L
  | None => false
  end.

Definition cls_sql (q : query) (qual : bool) : Z :=
  match q_sel q with
  | None => 2
  | Some _ =>
      match q_tabs q, q_joins q with
      | [(lw, L); (rw, R)], [(jt, on)] =>
          let on' := opt_on jt on in
          if residual_on lw on' then 3
          else if (left_outer jt || right_outer jt) && is_some (q_where q) then 4
          else if qual && is_some (q_where q) then 10
          else if hash_miss lw on' L R then 8
          else 0
      | _, js =>
          if is_some (q_where q) && qual then 5
          else if any_equi js then 6
          else if any_outer (removelast js) || right_outer (fst (last js (JInner, None))) then 7
          else if any_outer js && is_some (q_where q) then 4
          else 0
      end
  end.
