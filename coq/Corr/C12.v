(* C12 correspondence.  The harness runs a history (INSERT statements with NULL / absent /
   explicit ids, some made to fail, DELETEs, BEGIN / COMMIT / ROLLBACK, close + Database::open)
   on the real Database through SQL and prints, per INSERT, what it showed:
     IOk ids     the statement returned Ok; ids = RETURNING id, one per row
     IErr left   the statement returned Err; left = ids of the rows of THIS statement found in the
                 table right afterwards (in row order; a prefix of the statement's rows)
   and the same for Database::insert_batch calls and for the executions of a prepared INSERT
   (ids read back from the table; these paths can leave NULL in the column).
   model_agrees: the counter model (Model/AutoInc.v), told only at which row each failing
   statement stopped, reproduces every id.  spec_ok: the property's own checker on the observed
   ids alone.  Definitions only. *)
From Coq Require Import ZArith List Bool.
From TV Require Import Lib.MachInt.
From TV Require Export Model.AutoInc.     (* case files name its constructors *)
Import ListNotations.
Open Scope Z_scope.

(* IOkS: as IOk, but the ids then found in the table (stored) differ from the RETURNING ids *)
Inductive obs := IOk (ids : list Z) | IOkS (ids stored : list Z) | IErr (lft : list Z).
(* bulk paths can store NULL in the id column: ids are options there *)
Inductive bobs := BOk (ids : list (option Z)) | BErr (lft : list (option Z)).
Inductive pout := POk (id : option Z) | PErr.
Inductive cop :=
| CIns (rows : list row) (o : obs)
| CBatch (rows : list row) (o : bobs)          (* Database::insert_batch(t, rows) *)
| CPrep (rows : list row) (outs : list pout)   (* one PreparedStatement `INSERT INTO t VALUES (?, ?)`,
                                                  executed once per row; per execution: the id found
                                                  in the table for that row, or Err *)
| CDel | CBegin | CCommit | CRollback | CReopen.
(* pk: id is also PRIMARY KEY; wal: PRAGMA wal=ON in every session; w: width of the id column's
   integer type (16 SMALLINT, 32 INTEGER, 64 BIGINT).  Weird: the run showed something
   this case language cannot express (panic, non-integer id, rows left behind that are not a prefix) *)
Inductive case := Case (pk wal : bool) (w : Z) (ops : list cop) | Weird.

Definition pext (o : pout) : option nat := match o with POk _ => None | PErr => Some O end.
Fixpoint prep_ops (rows : list row) (outs : list pout) : list op :=
  match rows, outs with
  | r :: rt, o :: ot => Insert [r] (pext o) :: prep_ops rt ot
  | _, _ => []
  end.

(* the model's view of an operation: for a failed statement the only thing taken from the
   observation is the number of rows it had written when it stopped.  Every execution of a
   prepared INSERT into an AUTO_INCREMENT table is an ordinary single-row INSERT (no cached plan).
   A failing insert_batch call is outside the model. *)
Definition to_ops (c : cop) : list op :=
  match c with
  | CIns rows (IOk _) | CIns rows (IOkS _ _) => [Insert rows None]
  | CIns rows (IErr lft) => [Insert rows (Some (length lft))]
  | CBatch rows (BOk _) => [Bulk rows]
  | CBatch rows (BErr _) => []
  | CPrep rows outs => prep_ops rows outs
  | CDel => [Delete] | CBegin => [TxBegin] | CCommit => [TxCommit] | CRollback => [TxRollback]
  | CReopen => [Reopen]
  end.

Definition given (w : Z) (r : row) : option Z := match r with RNull => None | RInt v => Some (stored w v) end.
Definition oz_eqb (a b : option Z) : bool :=
  match a, b with Some x, Some y => x =? y | None, None => true | _, _ => false end.
Fixpoint ozlist_eqb (a b : list (option Z)) : bool :=
  match a, b with
  | [], [] => true
  | x :: a', y :: b' => oz_eqb x y && ozlist_eqb a' b'
  | _, _ => false
  end.
(* the executions of a prepared INSERT, one single-row statement each; the id read back from
   the table is the stored value; returns the counter afterwards *)
Fixpoint prep_agree (w ai : Z) (rows : list row) (outs : list pout) : bool * Z :=
  match rows, outs with
  | [], [] => (true, ai)
  | r :: rt, o :: ot =>
      let '(ai', wr, ok) := insert_stmt w ai [r] (pext o) in
      let here := match o with
                  | POk (Some id) => ok && zlist_eqb (map (stored w) (map fst wr)) [id]
                  | POk None => false
                  | PErr => negb ok
                  end in
      let '(rest, aif) := prep_agree w ai' rt ot in (here && rest, aif)
  | _, _ => (false, ai)
  end.

(* ids read back from the table are the stored values, RETURNING ids are the ids themselves *)
Fixpoint agrees_from (w ai : Z) (ops : list cop) : bool :=
  match ops with
  | [] => true
  | c :: t =>
      match c with
      | CIns rows o =>
          let ext := match o with IErr lft => Some (length lft) | _ => None end in
          let '(ai', wr, ok) := insert_stmt w ai rows ext in
          let ids := map fst wr in
          match o with
          | IOk l => ok && zlist_eqb ids l && zlist_eqb (map (stored w) ids) l
          | IOkS l st => ok && zlist_eqb ids l && zlist_eqb (map (stored w) ids) st
          | IErr lft => negb ok && zlist_eqb (map (stored w) ids) lft
          end && agrees_from w ai' t
      | CBatch rows o =>
          match o with
          | BOk ids => ozlist_eqb (map (given w) rows) ids && agrees_from w (fst (step w ai (Bulk rows))) t
          | BErr _ => false
          end
      | CPrep rows outs =>
          let '(ok, ai') := prep_agree w ai rows outs in ok && agrees_from w ai' t
      | _ => agrees_from w ai t
      end
  end.

Definition model_agrees (c : case) : bool :=
  match c with
  | Case _ _ w ops => agrees_from w 0 ops
  | Weird => false
  end.

(* the observed trace: each integer id the implementation showed, paired with whether the
   statement gave NULL / no id for that row (so the value was generated) *)
Definition is_null (r : row) : bool := match r with RNull => true | RInt _ => false end.
Fixpoint zip_rows (rows : list row) (ids : list Z) : list (Z * bool) :=
  match rows, ids with
  | r :: rt, i :: it => (i, is_null r) :: zip_rows rt it
  | _, _ => []
  end.
Fixpoint zip_rows_opt (rows : list row) (ids : list (option Z)) : list (Z * bool) :=
  match rows, ids with
  | r :: rt, Some i :: it => (i, is_null r) :: zip_rows_opt rt it
  | _ :: rt, None :: it => zip_rows_opt rt it
  | _, _ => []
  end.
Definition pout_id (o : pout) : option Z := match o with POk id => id | PErr => None end.
(* what the column held (ids read back from the table where the harness has them) ... *)
Fixpoint observed (ops : list cop) : list (Z * bool) :=
  match ops with
  | [] => []
  | CIns rows (IOk ids) :: t => zip_rows rows ids ++ observed t
  | CIns rows (IOkS _ st) :: t => zip_rows rows st ++ observed t
  | CIns rows (IErr lft) :: t => zip_rows rows lft ++ observed t
  | CBatch rows (BOk ids) :: t => zip_rows_opt rows ids ++ observed t
  | CBatch rows (BErr lft) :: t => zip_rows_opt rows lft ++ observed t
  | CPrep rows outs :: t => zip_rows_opt rows (map pout_id outs) ++ observed t
  | _ :: t => observed t
  end.
(* ... and what RETURNING id reported *)
Fixpoint returned (ops : list cop) : list (Z * bool) :=
  match ops with
  | [] => []
  | CIns rows (IOk ids) :: t | CIns rows (IOkS ids _) :: t => zip_rows rows ids ++ returned t
  | CIns rows (IErr lft) :: t => zip_rows rows lft ++ returned t
  | CBatch rows (BOk ids) :: t => zip_rows_opt rows ids ++ returned t
  | CBatch rows (BErr lft) :: t => zip_rows_opt rows lft ++ returned t
  | CPrep rows outs :: t => zip_rows_opt rows (map pout_id outs) ++ returned t
  | _ :: t => returned t
  end.

(* the property itself on what was observed - both on the values the column held and on the
   values RETURNING reported (checker proved equivalent to fresh_increasing) *)
Definition spec_ok (c : case) : bool :=
  match c with
  | Case _ _ _ ops => fresh_increasing_chk (observed ops) && fresh_increasing_chk (returned ops)
  | Weird => true
  end.

(* no recorded finding is open any more (F-C12-1..5 fixed by /repo a94d684, 66de927, 6d846b9, 94b952d) *)
Definition known_class (c : case) : Z :=
  match c with
  | Case _ _ _ _ => 0
  | Weird => 0
  end.

Fixpoint failures_from (i : Z) (cs : list case) : list (Z * bool * bool * Z) :=
  match cs with
  | [] => []
  | c :: t =>
      let m := model_agrees c in
      let s := spec_ok c in
      if m && s then failures_from (i + 1) t else (i, m, s, known_class c) :: failures_from (i + 1) t
  end.
Definition failures := failures_from 0.
