(* C28 - The B-tree behaves as an ordered map.  Property theorems only.
   Model: Model/BTree.v (abstract-node model of src/btree/{tree,leaf,interior}.rs with the byte-size
   decisions, split points, hint fast paths and cursor algorithms of the code as it is);
   Spec: Model/BTreeSpec.v (`spec_check`: what an ordered map may return, also used by Corr/C28.v on the
   real results); invariant: Model/BTreeInv.v.  `run s ops` gives, per operation, the result and the defect
   class it raised (0 = none; classes 1..7 are the recorded findings, see the `_refuted` theorems). *)
From Coq Require Import ZArith List Bool.
From TV Require Import Lib.MachInt Gen.Varint Model.BTree Model.BTreeSpec Model.BTreeInv Model.BTreeWitness
  Proof.BTreeMain Proof.BTreeRefute.
Import ListNotations.
Open Scope Z_scope.

(* every history (any operations, keys, value lengths, hints) from any well-formed tree: as long as the run
   stays outside the recorded defect classes, every result - return values, lookups, forward / backward /
   seek cursor enumerations - is one an ordered map returns *)
Theorem btree_refines_omap :
  forall (V : Type) (vlen : V -> Z) (veqb : V -> V -> bool),
    (forall v, 0 <= vlen v) -> (forall v, veqb v v = true) ->
    forall (ops : list (op V)) (s : state V),
      Inv V vlen s -> all_clear V (fst (run V vlen s ops)) = true ->
      spec_run V vlen veqb (abs_of V s) (combine ops (map fst (fst (run V vlen s ops)))) = true.
Proof. exact run_refines_l. Qed.

(* ... and after a history that stays in scope the tree is again well formed (uniform depth, sorted
   leaves inside their separator bounds, page space accounting) and holds exactly the map's entries *)
Theorem btree_state_after :
  forall (V : Type) (vlen : V -> Z) (veqb : V -> V -> bool),
    (forall v, 0 <= vlen v) -> (forall v, veqb v v = true) ->
    forall (ops : list (op V)) (s : state V) (mf : omap V),
      Inv V vlen s -> all_clear V (fst (run V vlen s ops)) = true ->
      spec_final V vlen veqb (abs_of V s) (combine ops (map fst (fst (run V vlen s ops)))) = Some mf ->
      Inv V vlen (snd (run V vlen s ops)) /\ abs_of V (snd (run V vlen s ops)) = mf.
Proof. exact run_final_l. Qed.

(* BTree::create: a well-formed empty map *)
Theorem btree_created_empty :
  forall (V : Type) (vlen : V -> Z) (rootpg np : Z),
    Inv V vlen (init_state V rootpg np) /\ abs_of V (init_state V rootpg np) = [].
Proof. exact init_inv. Qed.

(* the model is NOT an ordered map inside the classes: one witness history per class, each confirmed on
   the real code by the correspondence run (known_findings.d/C28.json) *)
Theorem cursor_forward_refuted : exists ops, refutes F_FWD ops.
Proof. exists w_fwd. exact fwd_refuted_l. Qed.
Theorem cursor_seek_refuted : exists ops, refutes F_FWD ops.
Proof. exists w_seek. exact seek_refuted_l. Qed.
Theorem cursor_backward_refuted : exists ops, refutes F_BWD ops.
Proof. exists w_bwd. exact bwd_refuted_l. Qed.
Theorem hint_fastpath_refuted : exists ops, refutes F_HINT ops.
Proof. exists w_hint. exact hint_refuted_l. Qed.
Theorem update_grow_refuted : exists ops, refutes F_UPD ops.
Proof. exists w_upd. exact upd_refuted_l. Qed.
Theorem split_leaf_overflow_refuted : exists ops, refutes F_LEAFFULL ops.
Proof. exists w_leaffull. exact leaffull_refuted_l. Qed.
Theorem separator_duplicate_refuted : exists ops, refutes F_SEPDUP ops.
Proof. exists w_sepdup. exact sepdup_refuted_l. Qed.

Theorem interior_split_overflow_refuted : exists ops, refutes F_INTFULL ops.
Proof. exists w_intfull. exact intfull_refuted_l. Qed.

(* non-vacuity: a history with leaf splits, a root split, deletes, updates of all three kinds, an append
   through the hint, and all three cursors stays outside every class and is accepted *)
Definition nv_ops : list (op wval) :=
  map (fun i => wins i 4000 (i + 1)) [2;3;4;5;6;7;8;9;10;11]
  ++ [OAppend (wk 12) (300, 40); ODelete (wk 7); OUpdate (wk 3) (4000, 41); OUpdate (wk 4) (100, 42);
      OUpdate (wk 12) (900, 43); OIine (wk 4) (5, 44); OIine (wk 7) (5, 45); OGet (wk 7); OGet (wk 1);
      OFwd 1000; OBwd 1000; OSeek (wk 7) 5; OReopen (Some 4); wins 13 20 46; OFwd 1000].
Example c28_nonvacuous :
  all_clear wval (wrun nv_ops) = true
  /\ spec_run wval wvlen wveqb [] (combine nv_ops (map fst (wrun nv_ops))) = true
  /\ depth wval (root (snd (run wval wvlen (init_state wval 1 2) nv_ops))) = 1%nat
  /\ length (abs_of wval (snd (run wval wvlen (init_state wval 1 2) nv_ops))) = 12%nat.
Proof. vm_compute. repeat split. Qed.

Check btree_refines_omap :
  forall (V : Type) (vlen : V -> Z) (veqb : V -> V -> bool),
    (forall v, 0 <= vlen v) -> (forall v, veqb v v = true) ->
    forall (ops : list (op V)) (s : state V),
      Inv V vlen s -> all_clear V (fst (run V vlen s ops)) = true ->
      spec_run V vlen veqb (abs_of V s) (combine ops (map fst (fst (run V vlen s ops)))) = true.
Check btree_state_after :
  forall (V : Type) (vlen : V -> Z) (veqb : V -> V -> bool),
    (forall v, 0 <= vlen v) -> (forall v, veqb v v = true) ->
    forall (ops : list (op V)) (s : state V) (mf : omap V),
      Inv V vlen s -> all_clear V (fst (run V vlen s ops)) = true ->
      spec_final V vlen veqb (abs_of V s) (combine ops (map fst (fst (run V vlen s ops)))) = Some mf ->
      Inv V vlen (snd (run V vlen s ops)) /\ abs_of V (snd (run V vlen s ops)) = mf.
Check btree_created_empty :
  forall (V : Type) (vlen : V -> Z) (rootpg np : Z),
    Inv V vlen (init_state V rootpg np) /\ abs_of V (init_state V rootpg np) = [].
Check cursor_forward_refuted : exists ops, refutes F_FWD ops.
Check cursor_seek_refuted : exists ops, refutes F_FWD ops.
Check cursor_backward_refuted : exists ops, refutes F_BWD ops.
Check hint_fastpath_refuted : exists ops, refutes F_HINT ops.
Check update_grow_refuted : exists ops, refutes F_UPD ops.
Check split_leaf_overflow_refuted : exists ops, refutes F_LEAFFULL ops.
Check separator_duplicate_refuted : exists ops, refutes F_SEPDUP ops.
Check interior_split_overflow_refuted : exists ops, refutes F_INTFULL ops.

Print Assumptions btree_refines_omap.
Print Assumptions btree_state_after.
Print Assumptions btree_created_empty.
Print Assumptions cursor_forward_refuted.
Print Assumptions cursor_seek_refuted.
Print Assumptions cursor_backward_refuted.
Print Assumptions hint_fastpath_refuted.
Print Assumptions update_grow_refuted.
Print Assumptions split_leaf_overflow_refuted.
Print Assumptions separator_duplicate_refuted.
Print Assumptions interior_split_overflow_refuted.
