(* C18: the fragment of statements the class-0 theorem speaks about (definitions only).
   wf_stmt says that the statement is written in the typed fragment the generators produce:
   * comparison / arithmetic / IS NULL operands are value forms (columns, NULL / integer / text
     literals, + - *, scalar subqueries), AND / OR / NOT operands are predicate forms;
   * the tables hold NULL / integer / text values and every row of table k has widths[k] columns;
   * a bare (unqualified) column reference is written only where SQL's scoping resolves it to the
     level the reference means (no inner level has a column of that position / name);
   * select items of queries under IN / EXISTS / scalar / FROM are plain columns of their level.
   Nothing here restricts WHICH subquery forms appear: that is the job of the finding classes
   (Model/SubqClass.v). *)
From Coq Require Import ZArith List Bool Arith.
From TV Require Import Model.SqlSpec Model.SubqSpec Model.SubqImpl.
Import ListNotations.
Open Scope Z_scope.

Definition plain_val (v : value) : bool :=
  match v with VNull | VInt _ | VText _ => true | _ => false end.
Definition row_plain (r : row) : bool := forallb plain_val r.

(* every row of table k is plain and has widths[k] columns *)
Fixpoint db_wf (widths : list nat) (db : list table) : bool :=
  match widths, db with
  | [], [] => true
  | w :: ws, t :: ts => forallb (fun r => row_plain r && (length r =? w)%nat) t && db_wf ws ts
  | _, _ => false
  end.

(* value forms / predicate forms *)
Fixpoint vform (e : sx) : bool :=
  match e with
  | XCol _ _ _ => true
  | XLit v => plain_val v
  | XArith _ a b => vform a && vform b
  | XScalar _ => true
  | _ => false
  end.
Fixpoint pform (e : sx) : bool :=
  match e with
  | XCmp _ a b => vform a && vform b
  | XAnd a b | XOr a b => pform a && pform b
  | XNot a => pform a
  | XIsNull _ a => vform a
  | XIn _ a _ => vform a
  | XExists _ _ => true
  | _ => false
  end.

(* bare column references resolve as SQL scoping says: `inner` = the column counts of the levels
   between the reference and the level it means (innermost first) *)
Fixpoint bare_ok (scopes : list nat) (e : sx) : bool :=
  match e with
  | XCol l i q => q || forallb (fun w => (w <=? i)%nat) (firstn l scopes)
  | XLit _ => true
  | XArith _ a b | XCmp _ a b | XAnd a b | XOr a b => bare_ok scopes a && bare_ok scopes b
  | XNot a | XIsNull _ a => bare_ok scopes a
  | XIn _ a _ => bare_ok scopes a
  | XExists _ _ | XScalar _ => true
  end.

Definition plain_col_item (it : sx) : bool := match it with XCol O _ _ => true | _ => false end.

Section Wf.
  Variable widths : list nat.

  (* a subquery one level down: SELECT <plain column> FROM t_k [WHERE typed predicate] *)
  Definition sub_wf (outer : list nat) (q : qry) : bool :=
    match q with
    | QSel [it] (SBase k) w =>
        match nth_error widths k with
        | Some rw =>
            match it with XCol O i _ => (i <? rw)%nat | _ => false end &&
            match w with
            | None => true
            | Some p => pform p && bare_ok (rw :: outer) p
            end
        | None => false
        end
    | _ => false
    end.

  (* the subqueries that occur at this level of the predicate are well-formed *)
  Fixpoint subs_wf (scopes : list nat) (e : sx) : bool :=
    match e with
    | XCol _ _ _ | XLit _ => true
    | XArith _ a b | XCmp _ a b | XAnd a b | XOr a b => subs_wf scopes a && subs_wf scopes b
    | XNot a | XIsNull _ a => subs_wf scopes a
    | XIn _ a q => subs_wf scopes a && sub_wf scopes q
    | XExists _ q | XScalar q => sub_wf scopes q
    end.

  Fixpoint derived_wf (q : qry) : bool :=
    match q with
    | QSel items s (Some p) =>
        forallb plain_col_item items && pform p &&
        match s with SBase k => match nth_error widths k with Some _ => true | None => false end | SSub q' => derived_wf q' end
    | _ => false
    end.

  Definition select_wf (q : qry) : bool :=
    match q with
    | QSel items (SBase k) (Some p) =>
        match nth_error widths k with
        | Some lw => forallb plain_col_item items && pform p && bare_ok [lw] p && subs_wf [lw] p
        | None => false
        end
    | QSel items (SSub q') (Some p) => forallb plain_col_item items && pform p && derived_wf q'
    | _ => false
    end.

  (* a branch of a set operation: a SELECT over a base table *)
  Definition leaf_wf (q : qry) : bool :=
    select_wf q && match q with QSel _ (SBase _) _ => true | _ => false end.

  Definition stmt_wf (c : chain) : bool :=
    match snd c with
    | [] => select_wf (fst c)
    | ops => leaf_wf (fst c) && forallb (fun o => leaf_wf (snd o)) ops
    end.
End Wf.
