(* C18: chains of set operations.  The two readings of a chain (standard: parse_std; TurDB's parser:
   parse_right) commute with renaming the leaves, so comparing them on leaf numbers decides
   whether they are the same tree; trees of UNION [ALL] / INTERSECT / EXCEPT over simple branches
   are evaluated by the implementation model as the reference semantics defines. *)
From Coq Require Import ZArith List Bool Arith Lia.
From TV Require Import Model.SqlSpec Proof.SqlSpecLaws Model.SubqSpec Model.SubqImpl Model.SubqWf Model.SubqClass.
From TV Require Import Proof.SubqLaws Proof.SetOpsBag Proof.SubqEval Proof.SubqSelect.
Import ListNotations.
Open Scope nat_scope.

(* ------------------------------------------------------------------ renaming leaves *)
Fixpoint tmap {A B} (f : A -> B) (t : stree A) : stree B :=
  match t with
  | TLeaf a => TLeaf (f a)
  | TNode k all l r => TNode k all (tmap f l) (tmap f r)
  end.
Definition opsmap {A B} (f : A -> B) (l : list (setk * bool * A)) : list (setk * bool * B) :=
  map (fun o => (fst (fst o), snd (fst o), f (snd o))) l.
Definition cmap {A B} (f : A -> B) (c : gchain A) : gchain B := (f (fst c), opsmap f (snd c)).

Lemma take_intersects_map : forall {A B} (f : A -> B) l acc,
  take_intersects (tmap f acc) (opsmap f l) =
  (tmap f (fst (take_intersects acc l)), opsmap f (snd (take_intersects acc l))).
Proof.
  intros A B f. induction l as [|[[k all] q] l IH]; intro acc; cbn [opsmap map take_intersects fst snd]; [reflexivity|].
  destruct k; cbn [fst snd]; try reflexivity.
  fold (opsmap f l). rewrite <- IH. reflexivity.
Qed.

Lemma parse_std_from_map : forall {A B} (f : A -> B) fuel l acc,
  parse_std_from fuel (tmap f acc) (opsmap f l) = tmap f (parse_std_from fuel acc l).
Proof.
  intros A B f. induction fuel as [|fuel IH]; intros l acc; cbn [parse_std_from]; [reflexivity|].
  destruct l as [|[[k all] q] l]; cbn [opsmap map fst snd]; [reflexivity|]. fold (opsmap f l).
  destruct k.
  - pose proof (take_intersects_map f l (TLeaf q)) as H. cbn [tmap] in H. rewrite H.
    destruct (take_intersects (TLeaf q) l) as [rhs rest]. cbn [fst snd]. rewrite <- IH. reflexivity.
  - rewrite <- IH. reflexivity.
  - pose proof (take_intersects_map f l (TLeaf q)) as H. cbn [tmap] in H. rewrite H.
    destruct (take_intersects (TLeaf q) l) as [rhs rest]. cbn [fst snd]. rewrite <- IH. reflexivity.
Qed.

Lemma opsmap_length : forall {A B} (f : A -> B) l, length (opsmap f l) = length l.
Proof. intros. unfold opsmap. apply map_length. Qed.

Lemma parse_std_map : forall {A B} (f : A -> B) (c : gchain A),
  parse_std (cmap f c) = tmap f (parse_std c).
Proof.
  intros A B f [q0 l]. unfold parse_std, cmap. cbn [fst snd].
  pose proof (take_intersects_map f l (TLeaf q0)) as H. cbn [tmap] in H. rewrite H.
  destruct (take_intersects (TLeaf q0) l) as [lhs rest]. cbn [fst snd].
  rewrite opsmap_length. apply parse_std_from_map.
Qed.

Lemma parse_right_from_map : forall {A B} (f : A -> B) l q0,
  parse_right_from (f q0) (opsmap f l) = tmap f (parse_right_from q0 l).
Proof.
  intros A B f. induction l as [|[[k all] q] l IH]; intro q0; cbn [opsmap map parse_right_from fst snd tmap]; [reflexivity|].
  fold (opsmap f l). rewrite IH. reflexivity.
Qed.
Lemma parse_right_map : forall {A B} (f : A -> B) (c : gchain A),
  parse_right (cmap f c) = tmap f (parse_right c).
Proof. intros A B f [q0 l]. unfold parse_right, cmap. cbn [fst snd]. apply parse_right_from_map. Qed.

(* ------------------------------------------------------------------ comparing the readings on leaf numbers *)
Lemma stree_eqb_eq : forall a b, stree_eqb a b = true -> a = b.
Proof.
  induction a as [x|k1 a1 l1 IHl r1 IHr]; destruct b as [y|k2 a2 l2 r2]; cbn [stree_eqb]; intro H; try discriminate.
  - apply Nat.eqb_eq in H. subst. reflexivity.
  - apply andb_true_iff in H. destruct H as [H Hr]. apply andb_true_iff in H. destruct H as [H Hl].
    apply andb_true_iff in H. destruct H as [Hk Ha]. apply Bool.eqb_prop in Ha.
    rewrite (IHl _ Hl), (IHr _ Hr), Ha. destruct k1, k2; try discriminate; reflexivity.
Qed.

Lemma number_ops_leaf : forall {A} (d : A) (l : list (setk * bool * A)) (pre : list A) n,
  length pre = n ->
  opsmap (fun i => nth i (pre ++ map snd l) d) (number_ops n l) = l.
Proof.
  intros A d. induction l as [|[[k all] q] l IH]; intros pre n Hn; cbn [number_ops opsmap map fst snd]; [reflexivity|].
  fold (opsmap (fun i => nth i (pre ++ q :: map snd l) d) (number_ops (S n) l)).
  rewrite app_nth2 by lia. replace (n - length pre) with 0 by lia. cbn [nth].
  f_equal. replace (pre ++ q :: map snd l) with ((pre ++ [q]) ++ map snd l) by (rewrite <- app_assoc; reflexivity).
  apply IH. rewrite app_length. cbn [length]. lia.
Qed.

Theorem same_reading_sound : forall {A} (c : gchain A), same_reading c = true -> parse_std c = parse_right c.
Proof.
  intros A [q0 l] H. unfold same_reading in H. apply stree_eqb_eq in H.
  set (f := fun i => nth i ([q0] ++ map snd l) q0).
  assert (Hc : cmap f (number_chain (q0, l)) = (q0, l)).
  { unfold cmap, number_chain. cbn [fst snd]. f_equal. apply (number_ops_leaf q0 l [q0] 1). reflexivity. }
  rewrite <- Hc. rewrite parse_std_map, parse_right_map, H. reflexivity.
Qed.

(* ------------------------------------------------------------------ properties of the leaves and operators of a tree *)
Fixpoint tree_ok {A} (P : A -> Prop) (Q : setk -> bool -> Prop) (t : stree A) : Prop :=
  match t with
  | TLeaf a => P a
  | TNode k all l r => Q k all /\ tree_ok P Q l /\ tree_ok P Q r
  end.

Lemma parse_right_ok : forall {A} (P : A -> Prop) (Q : setk -> bool -> Prop) l q0,
  P q0 -> Forall (fun o => Q (fst (fst o)) (snd (fst o)) /\ P (snd o)) l ->
  tree_ok P Q (parse_right_from q0 l).
Proof.
  intros A P Q. induction l as [|[[k all] q] l IH]; intros q0 H0 Hl; cbn [parse_right_from tree_ok]; [exact H0|].
  inversion Hl as [|o l' [HQ HP] Hl']; subst. cbn [fst snd] in HQ, HP. split; [exact HQ|]. split; [exact H0|]. apply IH; assumption.
Qed.

(* ------------------------------------------------------------------ trees over simple branches *)
(* every operator is computed as defined since 432d38e: no condition on the operators any more *)
Definition op_counted (k : setk) (all : bool) : Prop := True.

Theorem tree_correct : forall widths db t,
  db_wf widths db = true -> tree_ok (leaf_simple widths) op_counted t ->
  match qeval db [] (qry_of_tree t) with
  | ROk b => exists a, impl_tree db t = MRows a /\ bag_eq a b
  | RUndef => True
  | RErr => False
  end.
Proof.
  intros widths db t Hwf. induction t as [q|k all l IHl r IHr]; intro Hok; cbn [tree_ok] in Hok.
  - cbn [qry_of_tree impl_tree]. pose proof (leaf_correct widths db q Hwf Hok) as H.
    destruct (qeval db [] q) as [b| |]; [|exact I|exact H]. exists b. split; [exact H|apply bag_eq_refl].
  - destruct Hok as [Hq [Hl Hr]]. specialize (IHl Hl). specialize (IHr Hr).
    cbn [qry_of_tree]. rewrite qeval_set.
    destruct (qeval db [] (qry_of_tree l)) as [bl| |]; destruct (qeval db [] (qry_of_tree r)) as [br| |]; cbn [rmap2]; try exact I; try contradiction.
    destruct IHl as [al [Hal Hbl]]. destruct IHr as [ar [Har Hbr]].
    destruct (setop_defined bl br); [|exact I].
    cbn [impl_tree]. rewrite Hal, Har. eexists. split; [reflexivity|].
    eapply bag_eq_trans; [apply impl_op_congr; eassumption|]. apply impl_op_correct.
Qed.

(* ------------------------------------------------------------------ chains *)
Lemma chain_class0 : forall c, chain_class c = 0%Z ->
  leaf_has_sub (fst c) = false /\ forallb (fun o => negb (leaf_has_sub (snd o))) (snd c) = true /\
  same_reading c = true.
Proof.
  intros c H. unfold chain_class in H.
  destruct (leaf_has_sub (fst c)) eqn:E1; cbn [orb] in H; [discriminate|].
  destruct (existsb (fun o => leaf_has_sub (snd o)) (snd c)) eqn:E2; [discriminate|].
  destruct (same_reading c) eqn:E3; cbn [negb] in H; [|discriminate].
  repeat split; try reflexivity.
  rewrite forallb_forall. intros o Ho. destruct (leaf_has_sub (snd o)) eqn:E; [|reflexivity].
  assert (existsb (fun o => leaf_has_sub (snd o)) (snd c) = true) by (apply existsb_exists; eauto). congruence.
Qed.

Lemma leaf_wf_simple : forall widths q, leaf_wf widths q = true -> leaf_has_sub q = false -> leaf_simple widths q.
Proof.
  intros widths q Hw Hs. unfold leaf_wf in Hw. apply andb_true_iff in Hw. destruct Hw as [Hw Hb].
  split; [exact Hw|]. split; [exact Hs|]. destruct q as [items s w|]; [|discriminate]. destruct s; [exact I|discriminate].
Qed.

Theorem chain_correct : forall widths db (c : chain),
  db_wf widths db = true -> stmt_wf widths c = true -> snd c <> [] -> chain_class c = 0%Z ->
  agree (impl_stmt widths db c) (qeval db [] (chain_qry c)).
Proof.
  intros widths db [q0 l] Hwf Hst Hne Hcl. cbn [snd] in Hne.
  destruct (chain_class0 _ Hcl) as [Hs0 [Hsl Hsame]]. cbn [fst snd] in *.
  unfold stmt_wf in Hst. cbn [fst snd] in Hst. destruct l as [|o l]; [congruence|].
  apply andb_true_iff in Hst. destruct Hst as [Hw0 Hwl].
  unfold impl_stmt, chain_qry. cbn [fst snd]. rewrite (same_reading_sound _ Hsame).
  assert (Hok : tree_ok (leaf_simple widths) op_counted (parse_right (q0, o :: l))).
  { unfold parse_right. apply parse_right_ok.
    - apply leaf_wf_simple; assumption.
    - rewrite Forall_forall. intros x Hx. rewrite forallb_forall in Hwl, Hsl.
      specialize (Hwl x Hx). specialize (Hsl x Hx).
      apply negb_true_iff in Hsl. split; [exact I|]. apply leaf_wf_simple; assumption. }
  pose proof (tree_correct widths db _ Hwf Hok) as H.
  destruct (qeval db [] (qry_of_tree (parse_right (q0, o :: l)))) as [b| |]; cbn [agree]; [exact H|exact I|contradiction].
Qed.

(* A EXCEPT B UNION B: the standard reading keeps the rows of B, the parser's reading removes them *)
Theorem chain_reading_refuted :
  exists (c : gchain nat), same_reading c = false.
Proof. exists (0, [(KExcept, false, 1); (KUnion, false, 2)]). reflexivity. Qed.
