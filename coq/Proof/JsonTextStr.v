(* C32 proofs, text side, part 1: tokens -- whitespace, string literals (scan + unescape), numbers. *)
From Coq Require Import ZArith List Bool Lia ZifyBool.
From TV Require Import Lib.MachInt Lib.MachIntFacts Model.Jsonb Model.JsonText Model.JsonGrammar.
Import ListNotations.
Open Scope Z_scope.

Ltac Zify.zify_post_hook ::= Z.to_euclidean_division_equations.

Lemma skip_ws_app pre l : all_ws pre = true -> skip_ws (pre ++ l) = skip_ws l.
Proof.
  induction pre as [|c t IH]; intros H; [reflexivity|].
  cbn [all_ws forallb] in H. apply andb_true_iff in H. destruct H as [Hc Ht].
  cbn [app skip_ws]. change (is_ws c) with (ws_byte c). rewrite Hc. apply IH. exact Ht.
Qed.

Lemma skip_ws_stop c l : is_ws c = false -> skip_ws (c :: l) = c :: l.
Proof. intros H. cbn [skip_ws]. rewrite H. reflexivity. Qed.

Lemma hex_digit_range a x : hex_digit a = Some x -> 0 <= x < 16 /\ 48 <= a < 128 /\ a <> 34 /\ a <> 92 /\ a <> 43 /\ hex_val a = Some x.
Proof.
  intros H. assert (Hv : hex_val a = Some x) by exact H. revert H. unfold hex_digit.
  destruct ((48 <=? a) && (a <=? 57)) eqn:E1; [intros H; inversion H; subst; repeat split; try lia; exact Hv|].
  destruct ((97 <=? a) && (a <=? 102)) eqn:E2; [intros H; inversion H; subst; repeat split; try lia; exact Hv|].
  destruct ((65 <=? a) && (a <=? 70)) eqn:E3; [intros H; inversion H; subst; repeat split; try lia; exact Hv|]. discriminate.
Qed.

Definition plain (c : dchar) : bool := match c with CRaw _ => true | _ => false end.

(* the scanning loop finds the closing quote of a rendered string *)
Lemma scan_rendered s rest :
  forallb char_ok s = true ->
  scan_str (flat_map render_char s ++ 34 :: rest) = Some (flat_map render_char s, rest, negb (forallb plain s)).
Proof.
  induction s as [|c t IH]; intros H; [reflexivity|].
  cbn [forallb] in H. apply andb_true_iff in H. destruct H as [Hc Ht]. specialize (IH Ht).
  cbn [flat_map]. rewrite <- app_assoc.
  destruct c as [b | e | a b c d | a b c d a2 b2 c2 d2]; cbn [render_char app forallb plain andb negb].
  - cbn [char_ok] in Hc. cbn [scan_str].
    replace (b =? 34) with false by lia. replace (b =? 92) with false by lia. rewrite IH. reflexivity.
  - cbn [scan_str]. change (92 =? 34) with false. change (92 =? 92) with true. cbv iota. rewrite IH. reflexivity.
  - cbn [char_ok] in Hc. unfold hex_cp in Hc.
    destruct (hex_digit a) eqn:Ea; [|discriminate]. destruct (hex_digit b) eqn:Eb; [|discriminate].
    destruct (hex_digit c) eqn:Ec; [|discriminate]. destruct (hex_digit d) eqn:Ed; [|discriminate].
    apply hex_digit_range in Ea, Eb, Ec, Ed.
    cbn [scan_str]. change (92 =? 34) with false. change (92 =? 92) with true. cbv iota.
    replace (a =? 34) with false by lia. replace (a =? 92) with false by lia.
    replace (b =? 34) with false by lia. replace (b =? 92) with false by lia.
    replace (c =? 34) with false by lia. replace (c =? 92) with false by lia.
    replace (d =? 34) with false by lia. replace (d =? 92) with false by lia.
    rewrite IH. reflexivity.
  - cbn [char_ok] in Hc. unfold hex_cp in Hc.
    destruct (hex_digit a) eqn:Ea; [|discriminate]. destruct (hex_digit b) eqn:Eb; [|discriminate].
    destruct (hex_digit c) eqn:Ec; [|discriminate]. destruct (hex_digit d) eqn:Ed; [|discriminate].
    destruct (hex_digit a2) eqn:Ea2; [|discriminate]. destruct (hex_digit b2) eqn:Eb2; [|discriminate].
    destruct (hex_digit c2) eqn:Ec2; [|discriminate]. destruct (hex_digit d2) eqn:Ed2; [|discriminate].
    apply hex_digit_range in Ea, Eb, Ec, Ed, Ea2, Eb2, Ec2, Ed2.
    cbn [scan_str]. change (92 =? 34) with false. change (92 =? 92) with true. cbv iota.
    replace (a =? 34) with false by lia. replace (a =? 92) with false by lia.
    replace (b =? 34) with false by lia. replace (b =? 92) with false by lia.
    replace (c =? 34) with false by lia. replace (c =? 92) with false by lia.
    replace (d =? 34) with false by lia. replace (d =? 92) with false by lia.
    replace (b2 =? 34) with false by lia. replace (b2 =? 92) with false by lia.
    replace (c2 =? 34) with false by lia. replace (c2 =? 92) with false by lia.
    replace (d2 =? 34) with false by lia. replace (d2 =? 92) with false by lia.
    replace (a2 =? 34) with false by lia. replace (a2 =? 92) with false by lia.
    rewrite IH. reflexivity.
Qed.

Lemma esc_val_simple e x : esc_val e = Some x -> e <> 117 /\ simple_escape e = Some x.
Proof.
  unfold esc_val, simple_escape.
  destruct (Z.eqb_spec e 34); [intros H; inversion H; subst; split; [lia|reflexivity]|].
  destruct (Z.eqb_spec e 92); [intros H; inversion H; subst; split; [lia|reflexivity]|].
  destruct (Z.eqb_spec e 47); [intros H; inversion H; subst; split; [lia|reflexivity]|].
  destruct (Z.eqb_spec e 98); [intros H; inversion H; subst; split; [lia|reflexivity]|].
  destruct (Z.eqb_spec e 102); [intros H; inversion H; subst; split; [lia|reflexivity]|].
  destruct (Z.eqb_spec e 110); [intros H; inversion H; subst; split; [lia|reflexivity]|].
  destruct (Z.eqb_spec e 114); [intros H; inversion H; subst; split; [lia|reflexivity]|].
  destruct (Z.eqb_spec e 116); [intros H; inversion H; subst; split; [lia|reflexivity]|].
  discriminate.
Qed.

(* unescape_string on a rendered string gives the denoted string *)
Lemma unescape_rendered s :
  forallb char_ok s = true -> unescape (flat_map render_char s) = Ok (str_value s).
Proof.
  induction s as [|c t IH]; intros H; [reflexivity|].
  cbn [forallb] in H. apply andb_true_iff in H. destruct H as [Hc Ht]. specialize (IH Ht).
  unfold str_value in *. cbn [flat_map].
  destruct c as [b | e | a b c d | a b c d a2 b2 c2 d2]; cbn [render_char app char_value].
  - cbn [char_ok] in Hc. cbn [unescape]. replace (b =? 92) with false by lia. rewrite IH. reflexivity.
  - cbn [char_ok] in Hc. destruct (esc_val e) as [x|] eqn:Ee; [|discriminate].
    destruct (esc_val_simple e x Ee) as [Hu Hs].
    cbn [unescape]. change (92 =? 92) with true. cbv iota. replace (e =? 117) with false by lia.
    rewrite Hs, IH. reflexivity.
  - cbn [char_ok] in Hc. destruct (hex_cp a b c d) as [cp|] eqn:Eh; [|discriminate].
    unfold hex_cp in Eh.
    destruct (hex_digit a) as [x|] eqn:Ea; [|discriminate]. destruct (hex_digit b) as [y|] eqn:Eb; [|discriminate].
    destruct (hex_digit c) as [z|] eqn:Ec; [|discriminate]. destruct (hex_digit d) as [w|] eqn:Ed; [|discriminate].
    inversion Eh as [Hcp].
    apply hex_digit_range in Ea, Eb, Ec, Ed.
    destruct Ea as (Hx & Ha & _ & _ & Ha43 & Hva). destruct Eb as (Hy & Hb & _ & _ & _ & Hvb).
    destruct Ec as (Hz & Hc' & _ & _ & _ & Hvc). destruct Ed as (Hw & Hd & _ & _ & _ & Hvd).
    cbn [unescape]. change (92 =? 92) with true. change (117 =? 117) with true. cbv iota.
    unfold ascii4. replace (a <? 128) with true by lia. replace (b <? 128) with true by lia.
    replace (c <? 128) with true by lia. replace (d <? 128) with true by lia. cbn [andb].
    unfold hex4. rewrite Hvb, Hvc, Hvd, Hva. replace (a =? 43) with false by lia.
    rewrite Hcp. apply negb_true_iff in Hc.
    unfold is_high_surrogate, is_surrogate.
    replace ((55296 <=? cp) && (cp <? 56320)) with false by lia. rewrite Hc.
    now rewrite IH.
  - cbn [char_ok] in Hc.
    destruct (hex_cp a b c d) as [hi|] eqn:Eh; [|discriminate].
    destruct (hex_cp a2 b2 c2 d2) as [lo|] eqn:El; [|discriminate].
    unfold hex_cp in Eh, El.
    destruct (hex_digit a) as [x|] eqn:Ea; [|discriminate]. destruct (hex_digit b) as [y|] eqn:Eb; [|discriminate].
    destruct (hex_digit c) as [z|] eqn:Ec; [|discriminate]. destruct (hex_digit d) as [w|] eqn:Ed; [|discriminate].
    destruct (hex_digit a2) as [x2|] eqn:Ea2; [|discriminate]. destruct (hex_digit b2) as [y2|] eqn:Eb2; [|discriminate].
    destruct (hex_digit c2) as [z2|] eqn:Ec2; [|discriminate]. destruct (hex_digit d2) as [w2|] eqn:Ed2; [|discriminate].
    inversion Eh as [Hhi]. inversion El as [Hlo].
    apply hex_digit_range in Ea, Eb, Ec, Ed, Ea2, Eb2, Ec2, Ed2.
    destruct Ea as (Hx & Ha & _ & _ & Ha43 & Hva). destruct Eb as (Hy & Hb & _ & _ & _ & Hvb).
    destruct Ec as (Hz & Hc' & _ & _ & _ & Hvc). destruct Ed as (Hw & Hd & _ & _ & _ & Hvd).
    destruct Ea2 as (Hx2 & Ha2 & _ & _ & Ha243 & Hva2). destruct Eb2 as (Hy2 & Hb2 & _ & _ & _ & Hvb2).
    destruct Ec2 as (Hz2 & Hc2 & _ & _ & _ & Hvc2). destruct Ed2 as (Hw2 & Hd2 & _ & _ & _ & Hvd2).
    cbn [unescape]. change (92 =? 92) with true. change (117 =? 117) with true. cbv iota.
    unfold ascii4. replace (a <? 128) with true by lia. replace (b <? 128) with true by lia.
    replace (c <? 128) with true by lia. replace (d <? 128) with true by lia.
    replace (a2 <? 128) with true by lia. replace (b2 <? 128) with true by lia.
    replace (c2 <? 128) with true by lia. replace (d2 <? 128) with true by lia. cbn [andb].
    unfold hex4. rewrite Hvb, Hvc, Hvd, Hva, Hvb2, Hvc2, Hvd2, Hva2.
    replace (a =? 43) with false by lia. replace (a2 =? 43) with false by lia.
    rewrite Hhi, Hlo. unfold is_high_surrogate, is_low_surrogate.
    replace ((55296 <=? hi) && (hi <? 56320)) with true by lia.
    replace ((56320 <=? lo) && (lo <? 57344)) with true by lia.
    now rewrite IH.
Qed.

Lemma plain_value s : forallb plain s = true -> flat_map render_char s = str_value s.
Proof.
  induction s as [|c t IH]; intros H; [reflexivity|]. cbn [forallb] in H. apply andb_true_iff in H. destruct H as [Hc Ht].
  destruct c; try discriminate. unfold str_value in *. cbn [flat_map render_char char_value]. rewrite (IH Ht). reflexivity.
Qed.

Section Tok.
  Variable num_of : list Z -> res Z.

  Lemma next_token_ws pre l : all_ws pre = true -> next_token num_of (pre ++ l) = next_token num_of l.
  Proof. intros H. unfold next_token. rewrite skip_ws_app by exact H. reflexivity. Qed.

  Lemma next_token_str s rest :
    forallb char_ok s = true ->
    next_token num_of (render_str s ++ rest) = Ok (Some (TStr (str_value s), rest)).
  Proof.
    intros H. unfold render_str. cbn [app]. unfold next_token. rewrite skip_ws_stop by reflexivity.
    change (34 =? 123) with false. change (34 =? 125) with false. change (34 =? 91) with false.
    change (34 =? 93) with false. change (34 =? 58) with false. change (34 =? 44) with false.
    change (34 =? 34) with true. cbv iota.
    rewrite <- app_assoc. cbn [app]. rewrite scan_rendered by exact H.
    destruct (forallb plain s) eqn:Ep; cbn [negb]; cbv iota.
    - rewrite plain_value by exact Ep. reflexivity.
    - rewrite unescape_rendered by exact H. reflexivity.
  Qed.

  Definition stop (rest : list Z) : bool := match rest with [] => true | c :: _ => negb (is_numch c) end.

  Lemma span_num_run run rest : forallb num_byte run = true -> stop rest = true -> span_num (run ++ rest) = (run, rest).
  Proof.
    induction run as [|c t IH]; intros H Hs.
    - destruct rest as [|c r]; [reflexivity|]. cbn [app span_num]. cbn [stop] in Hs.
      apply negb_true_iff in Hs. rewrite Hs. reflexivity.
    - cbn [forallb] in H. apply andb_true_iff in H. destruct H as [Hc Ht].
      cbn [app span_num]. change (is_numch c) with (num_byte c). rewrite Hc. rewrite (IH Ht Hs). reflexivity.
  Qed.

  Lemma next_token_num text bits rest :
    num_ok num_of text bits = true -> stop rest = true ->
    next_token num_of (text ++ rest) = Ok (Some (TNum bits, rest)).
  Proof.
    intros H Hs. destruct text as [|c run]; [discriminate|]. cbn [num_ok] in H.
    apply andb_true_iff in H. destruct H as [H Ho]. apply andb_true_iff in H. destruct H as [Hc Hrun].
    cbn [app]. unfold next_token.
    assert (Hnw : is_ws c = false) by (unfold is_ws; lia).
    rewrite skip_ws_stop by exact Hnw.
    replace (c =? 123) with false by lia. replace (c =? 125) with false by lia. replace (c =? 91) with false by lia.
    replace (c =? 93) with false by lia. replace (c =? 58) with false by lia. replace (c =? 44) with false by lia.
    replace (c =? 34) with false by lia. replace (c =? 116) with false by lia. replace (c =? 102) with false by lia.
    replace (c =? 110) with false by lia. rewrite Hc.
    rewrite span_num_run by assumption.
    destruct (num_of (c :: run)) as [b| | |]; try discriminate. apply Z.eqb_eq in Ho. subst b. reflexivity.
  Qed.

  Lemma stop_ws t rest : all_ws t = true -> stop rest = true -> stop (t ++ rest) = true.
  Proof.
    destruct t as [|c t]; intros H Hs; [exact Hs|]. cbn [all_ws forallb] in H. apply andb_true_iff in H.
    destruct H as [Hc _]. cbn [app stop]. unfold ws_byte in Hc. unfold is_numch. lia.
  Qed.
End Tok.
