(* C38 correspondence: the harness runs 2-3 cloned handles of a real Database (WAL on) through
   explicit transactions under the deterministic scheduler and prints the programs, the schedule
   and what it saw (per step: outcome, status of every thread, number of WAL frames; at the end
   the WAL frames with the set of updates each logged page image contains, and every COMMIT's
   result with the number of frames the WAL had when it returned).  [model_agrees] replays the
   case on Model/CommitOrder.v; [spec_ok] is the property's oracle on the observations alone.
   Definitions only.

   Encodings:  write = table * 16 + update id;   frame = table * 4096 + image (bit u = update u);
     status -> 4 bits: 0 not started, 1 blocked, 2 finished, 3 skipped (outcomes only), 301->4 302->5
               304->6 305->7 306->8 401->9 402->10 403->11 404->12 400->14, else 15
     step   = thread + 4 * (outcome + 16 * (frames so far (max 15) + 16 * (st_0 + 16 * (st_1 + ...))))
     result = transaction number + 8 * (ok + 2 * frames in the WAL at the return) *)
From Coq Require Import ZArith List Bool.
From TV Require Import Lib.Interleave Model.GroupCommit Model.CommitOrder.
Import ListNotations.
Open Scope Z_scope.

Inductive case :=
| Case (progs : list (list (list Z)))   (* per thread: its transactions: their writes *)
       (steps : list Z)
       (frames_ : list Z)
       (results : list (list Z))
       (drained : bool).

Definition to_write (w : Z) : Z * Z := (w / 16, w mod 16).
Definition to_progs (p : list (list (list Z))) : list (list txn) := map (map (map to_write)) p.
Definition sched_of (steps : list Z) : list nat := map (fun z => Z.to_nat (z mod 4)) steps.

Definition final_and_obs (c : case) : St38 * list (Z * (list Z * Z)) :=
  match c with
  | Case progs steps _ _ _ => exec_obs38 true (sched_of steps) (init38 (to_progs progs))
  end.

Fixpoint zlist_eq (a b : list Z) : bool :=
  match a, b with
  | [], [] => true
  | x :: r, y :: q => (x =? y) && zlist_eq r q
  | _, _ => false
  end.
Definition status_code (s : Z) : Z :=
  if s =? 0 then 0 else if s =? 1 then 1 else if s =? 2 then 2 else if s =? 3 then 3
  else if s =? 301 then 4 else if s =? 302 then 5 else if s =? 304 then 6 else if s =? 305 then 7
  else if s =? 306 then 8 else if s =? 401 then 9 else if s =? 402 then 10 else if s =? 403 then 11
  else if s =? 404 then 12 else if s =? 400 then 14 else 15.
Definition cap15 (x : Z) : Z := if x <? 15 then x else 15.
Definition enc_step (t : nat) (m : Z * (list Z * Z)) : Z :=
  match m with
  | (oc, (sts, nf)) =>
      Z.of_nat t + 4 * (status_code oc + 16 * (cap15 nf + 16 * fold_right (fun st acc => status_code st + 16 * acc) 0 sts))
  end.
Fixpoint steps_eq (sched : list nat) (obs : list (Z * (list Z * Z))) (steps : list Z) : bool :=
  match sched, obs, steps with
  | [], [], [] => true
  | t :: sr, m :: mr, z :: zr => (enc_step t m =? z) && steps_eq sr mr zr
  | _, _, _ => false
  end.

Definition enc_frame (f : Z * Z) : Z := fst f * 4096 + snd f.
Definition model_results (s : St38) (t : nat) : list Z :=
  map (fun a => la_k a + 8 * ((if la_ok a then 1 else 0) + 2 * la_frames a))
      (filter (fun a => Nat.eqb (la_thr a) t) (lacks s)).
Fixpoint results_eq (s : St38) (t : nat) (rs : list (list Z)) : bool :=
  match rs with
  | [] => true
  | r :: q => zlist_eq (model_results s t) r && results_eq s (S t) q
  end.

Definition model_agrees (c : case) : bool :=
  match c with
  | Case progs steps frames_ results drained =>
      let (sf, obs) := final_and_obs c in
      (Nat.eqb (length results) (length progs)) &&
      (Nat.leb (length progs) 4) &&
      forallb (fun p => nonempty p) progs &&
      steps_eq (sched_of steps) obs steps &&
      zlist_eq (map enc_frame (frames sf)) frames_ &&
      results_eq sf 0 results &&
      Bool.eqb (all_finished38 sf) drained
  end.

(* ---- the property itself, on the observations only *)
Definition dec_frame (z : Z) : Z * Z := (z / 4096, z mod 4096).
(* every COMMIT returned Ok, and every write of the transaction is contained in a frame of its
   table that was in the WAL when the COMMIT returned *)
Definition result_ok (fs : list (Z * Z)) (txns : list (list Z)) (r : Z) : bool :=
  let k := r mod 8 in
  let ok := (r / 8) mod 2 in
  let nf := r / 16 in
  (ok =? 1) &&
  match nth_error txns (Z.to_nat (k - 1)) with
  | Some ws => covered fs (LAck 0 k (map to_write ws) true nf)
  | None => false
  end.
Fixpoint results_ok (fs : list (Z * Z)) (progs : list (list (list Z))) (rs : list (list Z)) : bool :=
  match progs, rs with
  | p :: pr, r :: rr => forallb (result_ok fs p) r && results_ok fs pr rr
  | _, _ => true
  end.
Definition spec_ok (c : case) : bool :=
  match c with
  | Case progs _ frames_ results drained =>
      let fs := map dec_frame frames_ in
      order_ok fs && results_ok fs progs results && drained
  end.

(* finding classes, decided on the model's run of the case:
   1 = a payload was queued after a payload with a strictly newer image of one of its pages
   2 = at COMMIT a page written by the transaction was no longer in the dirty tracker *)
Definition known_class (c : case) : Z :=
  let s := fst (final_and_obs c) in
  if inverted s then 1 else if borrowed s then 2 else 0.

Fixpoint failures_from (i : Z) (cs : list case) : list (Z * bool * bool * Z) :=
  match cs with
  | [] => []
  | c :: t =>
      let m := model_agrees c in
      let s := spec_ok c in
      if m && s then failures_from (i + 1) t else (i, m, s, known_class c) :: failures_from (i + 1) t
  end.
Definition failures := failures_from 0.
