(* C20 proofs, part 1: integer arithmetic of the SQL evaluator (Model/Arith.v), repaired tree. *)
From Coq Require Import ZArith List Bool Lia ZifyBool.
From TV Require Import Lib.MachInt Model.Arith.
Import ListNotations.
Open Scope Z_scope.

Arguments Z.div : simpl never.
Arguments Z.modulo : simpl never.
Arguments Z.mul : simpl never.
Arguments Z.add : simpl never.
Arguments Z.sub : simpl never.
Arguments Z.pow : simpl never.
Arguments Z.quot : simpl never.
Arguments Z.rem : simpl never.
Arguments Z.leb : simpl never.
Arguments Z.ltb : simpl never.
Arguments Z.eqb : simpl never.
Arguments Z.land : simpl never.
Arguments Z.lor : simpl never.
Arguments Z.lxor : simpl never.
Arguments Z.shiftr : simpl never.
Arguments wrap_s : simpl never.
Arguments in_i64 : simpl never.

Lemma in_i64_true x : in_i64 x = true <-> i64_min <= x <= i64_max.
Proof. unfold in_i64. lia. Qed.
Lemma in_i64_false x : in_i64 x = false <-> (x < i64_min \/ i64_max < x).
Proof. unfold in_i64. lia. Qed.

(* ------------------------------------------------------------------ i64::pow *)
Lemma pow_split b e : 0 <= e -> b ^ e = (b * b) ^ (e / 2) * (if Z.odd e then b else 1).
Proof.
  intros He.
  assert (Hk : 0 <= e / 2) by (apply Z.div_pos; lia).
  rewrite (Z.div_mod e 2) at 1 by lia.
  rewrite Z.pow_add_r by (try lia; apply Z.mod_pos_bound; lia).
  rewrite Z.pow_mul_r by lia.
  replace (b ^ 2) with (b * b) by (rewrite Z.pow_2_r; reflexivity).
  f_equal. rewrite Zmod_odd. destruct (Z.odd e).
  - apply Z.pow_1_r.
  - apply Z.pow_0_r.
Qed.

Lemma pow_ge_1 x k : 1 <= x -> 0 <= k -> 1 <= x ^ k.
Proof.
  intros Hx Hk. pose proof (Z.pow_le_mono_l 1 x k ltac:(lia)) as H. rewrite Z.pow_1_l in H by lia. exact H.
Qed.

Lemma square_not_2_63 x : x * x <= 9223372036854775808 -> x * x <= 9223372036854775807.
Proof.
  intros H.
  assert (Hx : -3037000499 <= x <= 3037000499) by nia.
  nia.
Qed.

(* y in range, y = x * k with k >= 1: x in range (same sign, smaller magnitude) *)
Lemma factor_in_range x k : 1 <= k -> in_i64 (x * k) = true -> in_i64 x = true.
Proof. rewrite !in_i64_true. unfold i64_min, i64_max. intros Hk H. nia. Qed.

Lemma pow_loop_ok : forall fuel base acc e,
  (base = 0 \/ acc <> 0) -> 1 <= e < 2 ^ Z.of_nat fuel -> in_i64 (acc * base ^ e) = true ->
  pow_loop fuel base acc e = OVal (VInt (acc * base ^ e)).
Proof.
  induction fuel as [|f IH]; intros base acc e Hinv He Hfit.
  - change (2 ^ Z.of_nat 0) with 1 in He. lia.
  - assert (Hpow2 : 2 ^ Z.of_nat (S f) = 2 * 2 ^ Z.of_nat f).
    { rewrite Nat2Z.inj_succ, Z.pow_succ_r by lia. reflexivity. }
    assert (Hk0 : 0 <= e / 2) by (apply Z.div_pos; lia).
    pose proof (pow_split base e ltac:(lia)) as Hsplit.
    assert (Hsq : 0 <= base * base) by nia.
    assert (HY : 0 <= (base * base) ^ (e / 2)) by (apply Z.pow_nonneg; exact Hsq).
    cbn [pow_loop].
    destruct (Z.odd e) eqn:Hodd.
    + (* odd *)
      assert (Hdm : e = 2 * (e / 2) + 1).
      { pose proof (Z.div_mod e 2 ltac:(lia)) as D. rewrite Zmod_odd, Hodd in D. exact D. }
      assert (HP : acc * base ^ e = (acc * base) * (base * base) ^ (e / 2)) by (rewrite Hsplit; ring).
      destruct (Z.eqb_spec e 1) as [E1|E1].
      * subst e. rewrite Z.pow_1_r in *. rewrite Hfit. reflexivity.
      * assert (Hk1 : 1 <= e / 2) by lia.
        destruct Hinv as [Hb0|Hacc].
        { subst base. replace (acc * 0) with 0 by ring. change (0 * 0) with 0.
          change (in_i64 0) with true. cbn [negb].
          rewrite IH.
          - f_equal. f_equal. rewrite !Z.pow_0_l by lia. ring.
          - left; reflexivity.
          - lia.
          - rewrite Z.pow_0_l by lia. reflexivity. }
        destruct (Z.eq_dec base 0) as [Hb0|Hb0].
        { subst base. replace (acc * 0) with 0 by ring. change (0 * 0) with 0.
          change (in_i64 0) with true.
          rewrite IH.
          - f_equal. f_equal. rewrite !Z.pow_0_l by lia. ring.
          - left; reflexivity.
          - lia.
          - rewrite Z.pow_0_l by lia. reflexivity. }
        assert (HYpos : 1 <= (base * base) ^ (e / 2)) by (apply pow_ge_1; nia).
        assert (Hacc' : in_i64 (acc * base) = true).
        { apply (factor_in_range _ ((base * base) ^ (e / 2))); [exact HYpos|]. rewrite <- HP. exact Hfit. }
        rewrite Hacc'.
        assert (Hb2 : in_i64 (base * base) = true).
        { (* base*base <= |P| <= 2^63, and it is a square *)
          assert (HY2 : (base * base) ^ (e / 2) = (base * base) * (base * base) ^ (e / 2 - 1)).
          { replace (e / 2) with (Z.succ (e / 2 - 1)) at 1 by lia. rewrite Z.pow_succ_r by lia. reflexivity. }
          assert (HZ : 1 <= (base * base) ^ (e / 2 - 1)) by (apply pow_ge_1; nia).
          apply in_i64_true in Hfit. rewrite HP, HY2 in Hfit.
          apply in_i64_true. unfold i64_min, i64_max in *.
          assert (acc * base <> 0) by nia.
          split; [nia|]. apply square_not_2_63.
          set (Z1 := (base * base) ^ (e / 2 - 1)) in *. set (S1 := base * base) in *. set (A1 := acc * base) in *.
          assert (S1 <= Z.abs (A1 * (S1 * Z1))) by nia. lia. }
        rewrite Hb2. rewrite IH.
        -- f_equal. f_equal. symmetry. exact HP.
        -- right. nia.
        -- lia.
        -- rewrite <- HP. exact Hfit.
    + (* even *)
      assert (Hdm : e = 2 * (e / 2)).
      { pose proof (Z.div_mod e 2 ltac:(lia)) as D. rewrite Zmod_odd, Hodd in D. lia. }
      assert (HP : acc * base ^ e = acc * (base * base) ^ (e / 2)) by (rewrite Hsplit; ring).
      assert (Hk1 : 1 <= e / 2) by lia.
      assert (Hb2 : in_i64 (base * base) = true).
      { destruct (Z.eq_dec base 0) as [Hb0|Hb0]; [subst base; reflexivity|].
        destruct Hinv as [?|Hacc]; [contradiction|].
        assert (HY2 : (base * base) ^ (e / 2) = (base * base) * (base * base) ^ (e / 2 - 1)).
        { replace (e / 2) with (Z.succ (e / 2 - 1)) at 1 by lia. rewrite Z.pow_succ_r by lia. reflexivity. }
        assert (HZ : 1 <= (base * base) ^ (e / 2 - 1)) by (apply pow_ge_1; nia).
        apply in_i64_true in Hfit. rewrite HP, HY2 in Hfit.
        apply in_i64_true. unfold i64_min, i64_max in *.
        split; [nia|]. apply square_not_2_63.
        set (Z1 := (base * base) ^ (e / 2 - 1)) in *. set (S1 := base * base) in *.
        assert (S1 <= Z.abs (acc * (S1 * Z1))) by nia. lia. }
      rewrite Hb2. rewrite IH.
      * f_equal. f_equal. symmetry. exact HP.
      * destruct Hinv as [Hb0|Hacc]; [left; subst; reflexivity|right; exact Hacc].
      * lia.
      * rewrite <- HP. exact Hfit.
Qed.

Lemma pow_i64_ok a e : 0 <= e < 2 ^ 32 -> in_i64 (a ^ e) = true -> pow_i64 a e = OVal (VInt (a ^ e)).
Proof.
  intros He Hfit. unfold pow_i64.
  destruct (Z.eqb_spec e 0) as [E|E].
  - subst e. rewrite Z.pow_0_r. reflexivity.
  - rewrite pow_loop_ok.
    + f_equal. f_equal. ring.
    + right. lia.
    + change (Z.of_nat 33) with 33. change (2 ^ 33) with 8589934592. change (2 ^ 32) with 4294967296 in He. lia.
    + rewrite Z.mul_1_l. exact Hfit.
Qed.

Lemma exact_pow_int a b z : 0 <= b -> exact_pow a b = XInt z -> z = a ^ b /\ in_i64 z = true.
Proof.
  intros Hb. unfold exact_pow.
  destruct (Z.eqb_spec b 0) as [B0|B0].
  { intros H; inversion H; subst. rewrite Z.pow_0_r. split; reflexivity. }
  destruct (Z.eqb_spec a 0) as [A0|A0].
  { intros H; inversion H; subst. rewrite Z.pow_0_l by lia. split; reflexivity. }
  destruct (Z.eqb_spec a 1) as [A1|A1].
  { intros H; inversion H; subst. rewrite Z.pow_1_l by lia. split; reflexivity. }
  destruct (Z.eqb_spec a (-1)) as [Am|Am].
  { intros H; inversion H; subst. destruct (Z.even b) eqn:Ev.
    - split; [|reflexivity]. change (-1) with (- (1)). rewrite Z.pow_opp_even by (apply Z.even_spec; exact Ev).
      rewrite Z.pow_1_l by lia. reflexivity.
    - split; [|reflexivity]. change (-1) with (- (1)).
      rewrite Z.pow_opp_odd by (apply Z.odd_spec; rewrite <- Z.negb_even, Ev; reflexivity).
      rewrite Z.pow_1_l by lia. reflexivity. }
  destruct (Z.leb_spec 64 b) as [B|B]; [discriminate|].
  unfold xchk. destruct (in_i64 (a ^ b)) eqn:F; [|discriminate].
  intros H; inversion H; subst. split; [reflexivity|exact F].
Qed.

(* soundness of the checked_pow loop: it returns None or the exact power, which then is an i64 *)
Lemma pow_loop_sound : forall fuel base acc e, 1 <= e < 2 ^ Z.of_nat fuel ->
  pow_loop fuel base acc e = ONone \/
  (pow_loop fuel base acc e = OVal (VInt (acc * base ^ e)) /\ in_i64 (acc * base ^ e) = true).
Proof.
  induction fuel as [|f IH]; intros base acc e He.
  - change (2 ^ Z.of_nat 0) with 1 in He. lia.
  - assert (Hpow2 : 2 ^ Z.of_nat (S f) = 2 * 2 ^ Z.of_nat f).
    { rewrite Nat2Z.inj_succ, Z.pow_succ_r by lia. reflexivity. }
    pose proof (pow_split base e ltac:(lia)) as Hsplit.
    cbn [pow_loop]. destruct (Z.odd e) eqn:Hodd.
    + assert (Hdm : e = 2 * (e / 2) + 1).
      { pose proof (Z.div_mod e 2 ltac:(lia)) as D. rewrite Zmod_odd, Hodd in D. exact D. }
      destruct (in_i64 (acc * base)) eqn:A; [|left; reflexivity].
      destruct (Z.eqb_spec e 1) as [E1|E1].
      * right. subst e. rewrite Z.pow_1_r. split; [reflexivity|exact A].
      * destruct (in_i64 (base * base)); [|left; reflexivity].
        replace (acc * base ^ e) with ((acc * base) * (base * base) ^ (e / 2)) by (rewrite Hsplit; ring).
        apply IH. lia.
    + assert (Hdm : e = 2 * (e / 2)).
      { pose proof (Z.div_mod e 2 ltac:(lia)) as D. rewrite Zmod_odd, Hodd in D. lia. }
      destruct (in_i64 (base * base)); [|left; reflexivity].
      replace (acc * base ^ e) with (acc * (base * base) ^ (e / 2)) by (rewrite Hsplit; ring).
      apply IH. lia.
Qed.

Lemma pow_i64_none a e : 0 <= e < 2 ^ 32 -> in_i64 (a ^ e) = false -> pow_i64 a e = ONone.
Proof.
  intros He Hno. unfold pow_i64. destruct (Z.eqb_spec e 0) as [E|E].
  - subst e. rewrite Z.pow_0_r in Hno. discriminate.
  - destruct (pow_loop_sound 33 a 1 e) as [N|[_ F]].
    + change (Z.of_nat 33) with 33. change (2 ^ 33) with 8589934592. change (2 ^ 32) with 4294967296 in He. lia.
    + exact N.
    + rewrite Z.mul_1_l in F. congruence.
Qed.

(* |a| >= 2, b >= 64: a ^ b is not an i64 *)
Lemma big_pow_out a b : a <> 0 -> a <> 1 -> a <> -1 -> 64 <= b -> in_i64 (a ^ b) = false.
Proof.
  intros H0 H1 Hm Hb. apply in_i64_false. unfold i64_min, i64_max.
  assert (Habs : 2 <= Z.abs a) by lia.
  assert (Hp : 2 ^ 64 <= Z.abs a ^ b).
  { transitivity (2 ^ b); [apply Z.pow_le_mono_r; lia|apply Z.pow_le_mono_l; lia]. }
  rewrite <- Z.abs_pow in Hp. change (2 ^ 64) with 18446744073709551616 in Hp. lia.
Qed.

Lemma exact_pow_over a b : 0 < b -> exact_pow a b = XOver -> a <> 0 /\ a <> 1 /\ a <> -1 /\ in_i64 (a ^ b) = false.
Proof.
  intros Hb. unfold exact_pow.
  destruct (Z.eqb_spec b 0); [lia|].
  destruct (Z.eqb_spec a 0); [discriminate|].
  destruct (Z.eqb_spec a 1); [discriminate|].
  destruct (Z.eqb_spec a (-1)); [discriminate|].
  destruct (Z.leb_spec 64 b).
  - intros _. repeat split; try assumption. apply big_pow_out; assumption.
  - unfold xchk. destruct (in_i64 (a ^ b)) eqn:F; [discriminate|]. intros _. repeat split; assumption.
Qed.

Lemma exact_pow_shape a b : match exact_pow a b with XInt _ | XOver => True | _ => False end.
Proof.
  unfold exact_pow, xchk.
  repeat match goal with |- context [if ?c then _ else _] => destruct c end; exact I.
Qed.

(* ------------------------------------------------------------------ the evaluator against the exact semantics *)
(* what [eval] returns, given what the exact semantics says - for EVERY well-formed expression *)
Definition agrees (e : expr) : Prop :=
  match exact e with
  | XInt z => eval e = OVal (VInt z)
  | XNullP => eval e = OVal VNull \/ eval e = ONone
  | XDivZ | XAny | XOver => eval e = ONone
  end.

Lemma bin_step o a b :
  (match o with Pow => 0 <= b | _ => True end) ->
  match exact_bin o a b with
  | XInt z => eval_bin o (VInt a) (VInt b) = OVal (VInt z)
  | XNullP => False
  | XDivZ | XAny | XOver => eval_bin o (VInt a) (VInt b) = ONone
  end.
Proof.
  intros Hpow. destruct o; cbn [exact_bin eval_bin] in *.
  - unfold xchk, chk. destruct (in_i64 (a + b)); reflexivity.
  - unfold xchk, chk. destruct (in_i64 (a - b)); reflexivity.
  - unfold xchk, chk. destruct (in_i64 (a * b)); reflexivity.
  - destruct (Z.eqb_spec b 0); [reflexivity|].
    unfold xchk, chk. destruct (in_i64 (Z.quot a b)); reflexivity.
  - destruct (Z.eqb_spec b 0); reflexivity.
  - destruct (Z.leb_spec 0 b) as [B|B]; [|lia].
    pose proof (exact_pow_shape a b) as Sh.
    destruct (exact_pow a b) as [z| | | |] eqn:EP; try contradiction.
    + (* representable *)
      pose proof EP as EP'. apply exact_pow_int in EP'; [|lia]. destruct EP' as [-> F].
      destruct (Z.leb_spec b 4294967295) as [U|U].
      * apply pow_i64_ok; [change (2 ^ 32) with 4294967296; lia|exact F].
      * unfold exact_pow in EP.
        destruct (Z.eqb_spec b 0); [lia|].
        destruct (Z.eqb_spec a 0) as [->|A0]; [cbn [orb]; rewrite Z.pow_0_l by lia; reflexivity|].
        destruct (Z.eqb_spec a 1) as [->|A1]; [cbn [orb]; rewrite Z.pow_1_l by lia; reflexivity|].
        cbn [orb].
        destruct (Z.eqb_spec a (-1)) as [->|Am]; [inversion EP as [E]; rewrite E; reflexivity|].
        destruct (Z.leb_spec 64 b); [discriminate|lia].
    + (* not representable *)
      destruct (Z.eqb_spec b 0) as [->|B0]; [cbn in EP; discriminate|].
      destruct (exact_pow_over a b ltac:(lia) EP) as [A0 [A1 [Am F]]].
      destruct (Z.leb_spec b 4294967295) as [U|U].
      * apply pow_i64_none; [change (2 ^ 32) with 4294967296; lia|exact F].
      * destruct (Z.eqb_spec a 0); [contradiction|]. destruct (Z.eqb_spec a 1); [contradiction|].
        destruct (Z.eqb_spec a (-1)); [contradiction|]. reflexivity.
  - destruct ((0 <=? b) && (b <? 64)); reflexivity.
  - destruct ((0 <=? b) && (b <? 64)) eqn:C; [|reflexivity].
    rewrite Z.shiftr_div_pow2 by lia. reflexivity.
  - reflexivity.
  - reflexivity.
Qed.

Lemma un_step o a :
  match exact_un o a with
  | XInt z => eval_un o (VInt a) = OVal (VInt z)
  | XOver => eval_un o (VInt a) = ONone
  | _ => False
  end.
Proof.
  destruct o; cbn [exact_un eval_un]; try reflexivity.
  unfold xchk, chk. destruct (in_i64 (- a)); reflexivity.
Qed.

Lemma wf_lit n : wf (ELit n) = true -> agrees (ELit n).
Proof.
  intros Hwf. unfold agrees. cbn [exact eval wf] in *. unfold xchk, in_i64, i64_min.
  rewrite Hwf. replace ((-9223372036854775808 <=? n) && (n <=? i64_max)) with true by lia. reflexivity.
Qed.

Lemma agrees_all : forall e, wf e = true -> agrees e.
Proof.
  induction e as [n| |o a IHa|o l IHl r IHr]; intros Hwf.
  - apply wf_lit; exact Hwf.
  - unfold agrees. cbn [exact eval]. left; reflexivity.
  - (* unary *)
    assert (Generic : wf a = true -> (forall n, ~ (o = Neg /\ a = ELit n)) -> agrees (EUn o a)).
    { intros Hwa Hno. specialize (IHa Hwa). unfold agrees in *.
      assert (Ee : exact (EUn o a) = match exact a with XInt x => exact_un o x | r => r end).
      { destruct o; try reflexivity. destruct a; try reflexivity. exfalso. eapply Hno; eauto. }
      assert (Ev : eval (EUn o a) = match eval a with OVal v => eval_un o v | r => r end).
      { destruct o; try reflexivity. destruct a; try reflexivity. exfalso. eapply Hno; eauto. }
      rewrite Ee, Ev. destruct (exact a) as [x| | | |].
      - rewrite IHa. pose proof (un_step o x) as U. destruct (exact_un o x); try contradiction; exact U.
      - destruct IHa as [-> | ->]; right; [destruct o; reflexivity|reflexivity].
      - rewrite IHa; reflexivity.
      - rewrite IHa; reflexivity.
      - rewrite IHa; reflexivity. }
    destruct o; try (apply Generic; [destruct a; exact Hwf|intros n [Hc _]; discriminate]).
    destruct a as [n| | |]; try (apply Generic; [exact Hwf|intros n [_ Hc]; discriminate]).
    (* a signed numeral *)
    unfold agrees. cbn [exact eval wf] in *. unfold xchk, in_i64, i64_min, i64_max. rewrite Hwf.
    replace ((-9223372036854775808 <=? - n) && (- n <=? 9223372036854775807)) with true by lia. reflexivity.
  - (* binary *)
    assert (Hwfl : wf l = true) by (destruct o; cbn [wf] in Hwf; apply andb_true_iff in Hwf; tauto).
    assert (Hwfr : wf r = true).
    { destruct o; cbn [wf] in Hwf; apply andb_true_iff in Hwf; try tauto.
      destruct Hwf as [_ Hr]. destruct r; try discriminate. cbn [wf]. exact Hr. }
    specialize (IHl Hwfl). specialize (IHr Hwfr). unfold agrees in *.
    cbn [exact eval].
    destruct (exact l) as [a| | | |] eqn:El; destruct (exact r) as [b| | | |] eqn:Er.
    + rewrite IHl, IHr.
      assert (Hp : match o with Pow => 0 <= b | _ => True end).
      { destruct o; try exact I. cbn [wf] in Hwf. apply andb_true_iff in Hwf. destruct Hwf as [_ Hr].
        destruct r as [n| | |]; try discriminate.
        cbn [exact] in Er. unfold xchk in Er. destruct (in_i64 n); [|discriminate]. inversion Er; subst. lia. }
      pose proof (bin_step o a b Hp) as B.
      destruct (exact_bin o a b); try contradiction; exact B.
    + rewrite IHl. destruct IHr as [-> | ->]; right; [destruct o; reflexivity|reflexivity].
    + rewrite IHl, IHr. reflexivity.
    + rewrite IHl, IHr. reflexivity.
    + rewrite IHl, IHr. reflexivity.
    + destruct IHl as [-> | ->]; [|right; reflexivity]. rewrite IHr. right. destruct o; reflexivity.
    + destruct IHl as [-> | ->]; [|right; reflexivity].
      destruct IHr as [-> | ->]; right; [destruct o; reflexivity|reflexivity].
    + destruct IHl as [-> | ->]; [|reflexivity]. rewrite IHr. reflexivity.
    + destruct IHl as [-> | ->]; [|reflexivity]. rewrite IHr. reflexivity.
    + destruct IHl as [-> | ->]; [|reflexivity]. rewrite IHr. reflexivity.
    + rewrite IHl. reflexivity.
    + rewrite IHl. reflexivity.
    + rewrite IHl. reflexivity.
    + rewrite IHl. reflexivity.
    + rewrite IHl. reflexivity.
    + rewrite IHl. reflexivity.
    + rewrite IHl. reflexivity.
    + rewrite IHl. reflexivity.
    + rewrite IHl. reflexivity.
    + rewrite IHl. reflexivity.
    + rewrite IHl. reflexivity.
    + rewrite IHl. reflexivity.
    + rewrite IHl. reflexivity.
    + rewrite IHl. reflexivity.
    + rewrite IHl. reflexivity.
Qed.

(* every expression whose exact evaluation stays inside i64: SELECT shows exactly the result *)
Theorem arith_in_range_correct_l : forall e z, wf e = true -> exact e = XInt z -> eval e = OVal (VInt z).
Proof. intros e z Hwf Hx. pose proof (agrees_all e Hwf) as A. unfold agrees in A. rewrite Hx in A. exact A. Qed.

Theorem arith_null_l : forall e, wf e = true ->
  (exact e = XNullP \/ exact e = XDivZ \/ exact e = XAny) -> to_sql (eval e) = OVal VNull.
Proof.
  intros e Hwf Hx. pose proof (agrees_all e Hwf) as A. unfold agrees in A.
  destruct Hx as [Hx|[Hx|Hx]]; rewrite Hx in A.
  - destruct A as [-> | ->]; reflexivity.
  - rewrite A; reflexivity.
  - rewrite A; reflexivity.
Qed.

(* no expression panics any more (nor runs the model out of fuel) *)
Theorem arith_never_panics_l : forall e, wf e = true ->
  eval e <> OPanic /\ eval e <> OFuel /\ eval e <> OUnmod /\ eval e <> OErr.
Proof.
  intros e Hwf. pose proof (agrees_all e Hwf) as A. unfold agrees in A.
  destruct (exact e); try (rewrite A; repeat split; discriminate).
  destruct A as [-> | ->]; repeat split; discriminate.
Qed.

(* outside the one recorded class what SELECT shows satisfies the property *)
Theorem arith_class0_ok_l : forall e, wf e = true -> arith_class e = 0 ->
  obs_ok (exact e) (to_sql (eval e)) = true.
Proof.
  intros e Hwf Hc. pose proof (agrees_all e Hwf) as A. unfold agrees, arith_class in *.
  destruct (exact e) as [z| | | |]; try discriminate.
  - rewrite A. cbn. apply Z.eqb_refl.
  - destruct A as [-> | ->]; reflexivity.
  - rewrite A. reflexivity.
  - rewrite A. reflexivity.
Qed.

(* F-C20-1 as it stands on the repaired code: where some step is not representable the property
   demands an error; the evaluator shows NULL (it has no error channel) *)
Theorem arith_overflow_shows_null_l : forall e, wf e = true -> arith_class e = 1 ->
  exact e = XOver /\ to_sql (eval e) = OVal VNull /\ obs_ok (exact e) (to_sql (eval e)) = false.
Proof.
  intros e Hwf Hc. pose proof (agrees_all e Hwf) as A. unfold agrees, arith_class in *.
  destruct (exact e); try discriminate. rewrite A. repeat split; reflexivity.
Qed.

Theorem div_zero_null_l : forall a, in_i64 a = true ->
  eval_bin Div (VInt a) (VInt 0) = ONone /\ eval_bin Rem (VInt a) (VInt 0) = ONone.
Proof. intros a _. split; reflexivity. Qed.

Definition lit_min : expr := EUn Neg (ELit 9223372036854775808).
(* the witnesses of the repaired findings F-C20-1 (panics) and F-C20-2 (exponent cut to 32 bits), on the new model *)
Theorem arith_witnesses_l :
  wf (EBin Add (ELit i64_max) (ELit 1)) = true /\ arith_class (EBin Add (ELit i64_max) (ELit 1)) = 1 /\
  eval (EBin Add (ELit i64_max) (ELit 1)) = ONone /\
  eval lit_min = OVal (VInt i64_min) /\
  eval (EBin Div lit_min (EUn Neg (ELit 1))) = ONone /\ exact (EBin Div lit_min (EUn Neg (ELit 1))) = XOver /\
  eval (EUn Neg lit_min) = ONone /\ eval (EBin Pow (ELit 2) (ELit 64)) = ONone /\
  eval (EBin Rem lit_min (EUn Neg (ELit 1))) = OVal (VInt 0) /\
  eval (EBin Pow (ELit 0) (ELit 4294967296)) = OVal (VInt 0) /\ exact (EBin Pow (ELit 0) (ELit 4294967296)) = XInt 0 /\
  eval (EBin Pow (EUn Neg (ELit 1)) (ELit 4294967297)) = OVal (VInt (-1)) /\
  eval (EBin Pow (ELit 2) (ELit 4294967297)) = ONone /\ exact (EBin Pow (ELit 2) (ELit 4294967297)) = XOver.
Proof. vm_compute. repeat split. Qed.

(* ------------------------------------------------------------------ functions *)
Definition int_args (args : list val) : Prop := Forall (fun v => match v with VInt n => in_i64 n = true | VNull => True | _ => False end) args.

Lemma args_ok_of args : int_args args -> args_ok args = true.
Proof.
  unfold args_ok. induction 1 as [|v t Hv _ IH]; [reflexivity|]. cbn [forallb]. rewrite IH.
  destruct v; try contradiction; [reflexivity|]. rewrite Hv. reflexivity.
Qed.

(* ABS SIGN CEIL FLOOR ROUND TRUNCATE on one integer; ROUND / TRUNCATE to d >= 0 decimals *)
Theorem unary_fn_correct_l : forall n, in_i64 n = true ->
  (n <> i64_min -> eval_nfn FAbs [VInt n] = OVal (VInt (Z.abs n))) /\
  eval_nfn FSign [VInt n] = OVal (VInt (Z.sgn n)) /\
  eval_nfn FCeil [VInt n] = OVal (VInt n) /\ eval_nfn FFloor [VInt n] = OVal (VInt n) /\
  eval_nfn FRound [VInt n] = OVal (VInt n) /\ eval_nfn FTrunc [VInt n] = OVal (VInt n) /\
  (forall d, 0 <= d -> in_i64 d = true ->
     eval_nfn FRound [VInt n; VInt d] = OVal (VInt n) /\ eval_nfn FTrunc [VInt n; VInt d] = OVal (VInt n)).
Proof.
  intros n Hn. unfold eval_nfn. cbn [args_ok forallb]. rewrite Hn. cbn [andb negb get_num].
  split; [|repeat split; try reflexivity].
  - intros Hmin. unfold chk. replace (in_i64 (Z.abs n)) with true; [reflexivity|].
    symmetry. apply in_i64_true. apply in_i64_true in Hn. unfold i64_min, i64_max in *. lia.
  - rewrite H0. cbn [andb negb]. replace (0 <=? d) with true by lia. reflexivity.
  - rewrite H0. cbn [andb negb]. replace (0 <=? d) with true by lia. reflexivity.
Qed.

Ltac Zify.zify_post_hook ::= Z.to_euclidean_division_equations.

Lemma quot_in_range a b : b <> 0 -> i64_min <= a <= i64_max -> i64_min <= b <= i64_max -> ~ (a = i64_min /\ b = -1) ->
  i64_min <= Z.quot a b <= i64_max.
Proof. unfold i64_min, i64_max. intros. nia. Qed.

(* MOD and DIV on two integers: exact for every pair of i64 *)
Theorem mod_div_correct_l : forall a b, in_i64 a = true -> in_i64 b = true ->
  (b = 0 -> eval_nfn FMod [VInt a; VInt b] = OVal VNull /\ eval_nfn FDivI [VInt a; VInt b] = OVal VNull) /\
  (b <> 0 -> eval_nfn FMod [VInt a; VInt b] = OVal (VInt (Z.rem a b))) /\
  (b <> 0 -> ~ (a = i64_min /\ b = -1) -> eval_nfn FDivI [VInt a; VInt b] = OVal (VInt (Z.quot a b))).
Proof.
  intros a b Ha Hb. unfold eval_nfn. cbn [args_ok forallb]. rewrite Ha, Hb. cbn [andb negb get_num].
  split; [|split].
  - intros ->. split; reflexivity.
  - intros Hb0. destruct (Z.eqb_spec b 0); [contradiction|reflexivity].
  - intros Hb0 Hmin. destruct (Z.eqb_spec b 0); [contradiction|].
    unfold chk. replace (in_i64 (Z.quot a b)) with true; [reflexivity|].
    symmetry. apply in_i64_true. apply in_i64_true in Ha. apply in_i64_true in Hb.
    apply quot_in_range; assumption.
Qed.

(* NULL in, NULL out *)
Theorem fn_null_l :
  eval_nfn FAbs [VNull] = OVal VNull /\ eval_nfn FSign [VNull] = OVal VNull /\ eval_nfn FCeil [VNull] = OVal VNull /\
  eval_nfn FFloor [VNull] = OVal VNull /\
  (forall v, to_sql (eval_nfn FMod [VNull; v]) = OVal VNull \/ eval_nfn FMod [VNull; v] = OUnmod) /\
  to_sql (eval_nfn FRound [VNull]) = OVal VNull /\ to_sql (eval_nfn FTrunc [VNull]) = OVal VNull.
Proof.
  repeat split; try reflexivity.
  intros v. unfold eval_nfn. destruct (args_ok [VNull; v]); [left; reflexivity|right; reflexivity].
Qed.

(* GREATEST / LEAST of integers: the maximum / minimum of the list *)
Lemma fold_ext_ints pick : forall t acc hn, Forall (fun v => exists n, v = VInt n) t ->
  fold_ext pick t (Some acc) hn = (Some (fold_left pick (ints_of t) acc), hn).
Proof.
  induction t as [|v t IH]; intros acc hn H; [reflexivity|].
  inversion H as [|? ? [n ->] Ht]; subst. cbn [fold_ext ints_of flat_map app fold_left].
  rewrite IH by assumption. reflexivity.
Qed.

Theorem greatest_least_correct_l : forall n t, in_i64 n = true ->
  Forall (fun v => exists k, v = VInt k /\ in_i64 k = true) t ->
  eval_nfn FGreatest (VInt n :: t) = OVal (VInt (fold_left Z.max (ints_of t) n)) /\
  eval_nfn FLeast (VInt n :: t) = OVal (VInt (fold_left Z.min (ints_of t) n)).
Proof.
  intros n t Hn Ht.
  assert (Hok : args_ok (VInt n :: t) = true).
  { apply args_ok_of. constructor; [exact Hn|]. clear - Ht. induction Ht as [|v t [k [-> Hk]] _ IH]; [constructor|constructor; assumption]. }
  assert (Hi : Forall (fun v => exists k, v = VInt k) t).
  { clear - Ht. induction Ht as [|v t [k [-> Hk]] _ IH]; [constructor|constructor; [eexists; reflexivity|assumption]]. }
  unfold eval_nfn. rewrite Hok. cbn [negb]. unfold eval_ext. cbn [fold_ext].
  rewrite !fold_ext_ints by assumption. split; reflexivity.
Qed.

(* ABS(i64::MIN) and DIV(i64::MIN, -1): no panic any more, NULL where an error is required (class 1);
   the witnesses of the repaired F-C20-3 (integers beyond 2^53) now come back exact *)
Theorem fn_witnesses_l :
  eval_nfn FAbs [VInt i64_min] = ONone /\ fn_exact FAbs [VInt i64_min] = XOver /\ nfn_class FAbs [VInt i64_min] = 1 /\
  eval_nfn FDivI [VInt i64_min; VInt (-1)] = ONone /\ fn_exact FDivI [VInt i64_min; VInt (-1)] = XOver /\
  eval_nfn FRound [VInt 9007199254740993] = OVal (VInt 9007199254740993) /\
  eval_nfn FMod [VInt 9007199254740993; VInt 2] = OVal (VInt 1) /\ fn_exact FMod [VInt 9007199254740993; VInt 2] = XInt 1 /\
  nfn_class FRound [VInt 9007199254740993] = 0.
Proof. vm_compute. repeat split. Qed.
