(* C18: bags of rows by multiplicity.  The set operations of set_ops.rs (Model/SubqImpl.v impl_op)
   against the multiplicities SQL defines (Model/SubqSpec.v spec_mult / spec_op). *)
From Coq Require Import ZArith List Bool Arith Lia.
From TV Require Import Model.SqlSpec Proof.SqlSpecLaws Model.SubqSpec Model.SubqImpl.
Import ListNotations.
Open Scope nat_scope.

(* ------------------------------------------------------------------ structural equality of rows *)
Lemma value_eqb_eq' : forall a b, value_eqb a b = true <-> a = b.
Proof.
  intros a b; destruct a, b; cbn [value_eqb]; split; intro H; try discriminate; try reflexivity.
  - apply Z.eqb_eq in H. subst. reflexivity.
  - inversion H. apply Z.eqb_refl.
  - apply Z.eqb_eq in H. subst. reflexivity.
  - inversion H. apply Z.eqb_refl.
  - apply zlist_eqb'_eq in H. subst. reflexivity.
  - inversion H. apply zlist_eqb'_eq. reflexivity.
  - apply Bool.eqb_prop in H. subst. reflexivity.
  - inversion H. apply Bool.eqb_reflx.
Qed.

Lemma srow_eqb_eq : forall a b, srow_eqb a b = true <-> a = b.
Proof.
  induction a as [|x a IH]; destruct b as [|y b]; cbn [srow_eqb]; split; intro H; try discriminate; try reflexivity.
  - apply andb_true_iff in H. destruct H as [H1 H2]. apply value_eqb_eq' in H1. apply IH in H2. subst. reflexivity.
  - inversion H; subst. apply andb_true_iff. split; [apply value_eqb_eq'|apply IH]; reflexivity.
Qed.
Lemma srow_eqb_refl : forall a, srow_eqb a a = true.
Proof. intro a. apply srow_eqb_eq. reflexivity. Qed.
Lemma srow_eqb_sym : forall a b, srow_eqb a b = srow_eqb b a.
Proof.
  intros a b. destruct (srow_eqb a b) eqn:E.
  - apply srow_eqb_eq in E. subst. symmetry. apply srow_eqb_refl.
  - destruct (srow_eqb b a) eqn:E'; [|reflexivity]. apply srow_eqb_eq in E'. subst. rewrite srow_eqb_refl in E. discriminate.
Qed.

(* ------------------------------------------------------------------ multiplicities *)
Lemma mult_app : forall x a b, mult x (a ++ b) = mult x a + mult x b.
Proof. intros x a b. induction a as [|y a IH]; cbn [mult app]; [reflexivity|]. rewrite IH. lia. Qed.

Lemma mem_row_mult : forall x t, mem_row x t = negb (mult x t =? 0).
Proof.
  intros x t. unfold mem_row. induction t as [|y t IH]; cbn [existsb mult]; [reflexivity|].
  rewrite IH. destruct (srow_eqb x y); cbn [orb Nat.add]; [reflexivity|]. reflexivity.
Qed.
Lemma mem_row_false : forall x t, mem_row x t = false <-> mult x t = 0.
Proof. intros. rewrite mem_row_mult, negb_false_iff, Nat.eqb_eq. reflexivity. Qed.
Lemma mem_row_true : forall x t, mem_row x t = true <-> mult x t <> 0.
Proof. intros. rewrite mem_row_mult, negb_true_iff, Nat.eqb_neq. reflexivity. Qed.

Lemma mult_filter : forall p x t, mult x (filter p t) = if p x then mult x t else 0.
Proof.
  intros p x t. induction t as [|y t IH]; cbn [filter mult]; [destruct (p x); reflexivity|].
  destruct (p y) eqn:Py; cbn [mult]; rewrite IH; destruct (srow_eqb x y) eqn:E.
  - apply srow_eqb_eq in E. subst. rewrite Py. reflexivity.
  - destruct (p x); reflexivity.
  - apply srow_eqb_eq in E. subst. rewrite Py. reflexivity.
  - destruct (p x); reflexivity.
Qed.

Lemma mult_repeat : forall x y n, mult x (repeat y n) = if srow_eqb x y then n else 0.
Proof.
  intros x y n. induction n as [|n IH]; cbn [repeat mult]; [destruct (srow_eqb x y); reflexivity|].
  rewrite IH. destruct (srow_eqb x y); reflexivity.
Qed.

Lemma mult_flat_map_repeat : forall (f : row -> nat) x D,
  mult x (flat_map (fun y => repeat y (f y)) D) = mult x D * f x.
Proof.
  intros f x D. induction D as [|y D IH]; cbn [flat_map mult]; [reflexivity|].
  rewrite mult_app, mult_repeat, IH. destruct (srow_eqb x y) eqn:E.
  - apply srow_eqb_eq in E. subst. lia.
  - lia.
Qed.

(* `filter(|row| p(row) && seen.insert(key))`: every row that passes and was not seen before
   comes out exactly once *)
Lemma mult_filter_seen : forall p x t seen,
  mult x (filter_seen p seen t) =
  if p x && negb (mem_row x seen) && mem_row x t then 1 else 0.
Proof.
  intros p x t. induction t as [|y t IH]; intro seen; cbn [filter_seen mult].
  - unfold mem_row at 2. cbn [existsb]. rewrite andb_false_r. reflexivity.
  - unfold mem_row at 3. cbn [existsb]. fold (mem_row x t).
    destruct (p y && negb (mem_row y seen)) eqn:Py; cbn [mult]; rewrite IH.
    + destruct (srow_eqb x y) eqn:E.
      * apply srow_eqb_eq in E. subst y. rewrite Py. cbn [orb andb].
        assert (Hm : mem_row x (x :: seen) = true) by (unfold mem_row; cbn [existsb]; rewrite srow_eqb_refl; reflexivity).
        rewrite Hm. cbn [negb]. rewrite andb_false_r. reflexivity.
      * cbn [orb]. assert (Hm : mem_row x (y :: seen) = mem_row x seen) by (unfold mem_row; cbn [existsb]; rewrite E; reflexivity).
        rewrite Hm. reflexivity.
    + destruct (srow_eqb x y) eqn:E.
      * apply srow_eqb_eq in E. subst y. rewrite Py. cbn [orb andb]. reflexivity.
      * cbn [orb]. reflexivity.
Qed.

Lemma mult_dedup_from : forall x t seen,
  mult x (dedup_from seen t) = if negb (mem_row x seen) && mem_row x t then 1 else 0.
Proof.
  intros x t. induction t as [|y t IH]; intro seen; cbn [dedup_from mult].
  - unfold mem_row at 2. cbn [existsb]. rewrite andb_false_r. reflexivity.
  - unfold mem_row at 3. cbn [existsb]. fold (mem_row x t).
    destruct (mem_row y seen) eqn:My; cbn [mult]; rewrite IH.
    + destruct (srow_eqb x y) eqn:E.
      * apply srow_eqb_eq in E. subst y. rewrite My. reflexivity.
      * reflexivity.
    + destruct (srow_eqb x y) eqn:E.
      * apply srow_eqb_eq in E. subst y. rewrite My. cbn [negb orb andb].
        assert (Hm : mem_row x (x :: seen) = true) by (unfold mem_row; cbn [existsb]; rewrite srow_eqb_refl; reflexivity).
        rewrite Hm. reflexivity.
      * cbn [orb]. assert (Hm : mem_row x (y :: seen) = mem_row x seen) by (unfold mem_row; cbn [existsb]; rewrite E; reflexivity).
        rewrite Hm. reflexivity.
Qed.

Lemma mult_dedup : forall x t, mult x (dedup t) = Nat.min 1 (mult x t).
Proof.
  intros x t. unfold dedup. rewrite mult_dedup_from.
  assert (H0 : mem_row x [] = false) by reflexivity. rewrite H0. cbn [negb andb].
  rewrite mem_row_mult. destruct (mult x t) as [|n]; cbn [Nat.eqb negb]; [reflexivity|]. destruct n; reflexivity.
Qed.

(* ------------------------------------------------------------------ the reference table has the defined multiplicities *)
Lemma spec_mult_zero : forall k all, spec_mult k all 0 0 = 0.
Proof. intros k all; destruct k, all; reflexivity. Qed.

Theorem spec_op_mult : forall k all l r x,
  mult x (spec_op k all l r) = spec_mult k all (mult x l) (mult x r).
Proof.
  intros k all l r x. unfold spec_op.
  rewrite (mult_flat_map_repeat (fun y => spec_mult k all (mult y l) (mult y r))).
  rewrite mult_dedup, mult_app.
  destruct (mult x l + mult x r) as [|n] eqn:E.
  - assert (mult x l = 0) by lia. assert (mult x r = 0) by lia. rewrite H, H0, spec_mult_zero. reflexivity.
  - destruct n; cbn [Nat.min]; lia.
Qed.

(* ------------------------------------------------------------------ bag equality *)
Definition bag_eq (a b : table) : Prop := forall x, mult x a = mult x b.

Lemma mult_pos_in : forall x t, mult x t <> 0 -> In x t.
Proof.
  intros x t. induction t as [|y t IH]; cbn [mult]; [congruence|].
  destruct (srow_eqb x y) eqn:E; intro H.
  - apply srow_eqb_eq in E. subst. left. reflexivity.
  - right. apply IH. lia.
Qed.

Lemma bag_eqb_spec : forall a b, bag_eqb a b = true <-> bag_eq a b.
Proof.
  intros a b. unfold bag_eqb, bag_eq. rewrite forallb_forall. split.
  - intros H x. destruct (Nat.eq_dec (mult x a) 0) as [Ha|Ha]; destruct (Nat.eq_dec (mult x b) 0) as [Hb|Hb].
    + congruence.
    + apply Nat.eqb_eq. apply H. apply in_or_app. right. apply mult_pos_in. exact Hb.
    + apply Nat.eqb_eq. apply H. apply in_or_app. left. apply mult_pos_in. exact Ha.
    + apply Nat.eqb_eq. apply H. apply in_or_app. left. apply mult_pos_in. exact Ha.
  - intros H x _. apply Nat.eqb_eq. apply H.
Qed.

Lemma bag_eq_refl : forall a, bag_eq a a.
Proof. intros a x. reflexivity. Qed.
Lemma bag_eq_sym : forall a b, bag_eq a b -> bag_eq b a.
Proof. intros a b H x. symmetry. apply H. Qed.
Lemma bag_eq_trans : forall a b c, bag_eq a b -> bag_eq b c -> bag_eq a c.
Proof. intros a b c H1 H2 x. rewrite H1. apply H2. Qed.

(* ------------------------------------------------------------------ set_ops.rs against the definition *)
Lemma min1_mem : forall x t, (if mem_row x t then 1 else 0) = Nat.min 1 (mult x t).
Proof.
  intros x t. rewrite mem_row_mult. destruct (mult x t) as [|n]; cbn [Nat.eqb negb]; [reflexivity|]. destruct n; reflexivity.
Qed.

(* removing one occurrence *)
Lemma mult_remove_one : forall x y t,
  mult y (remove_one x t) = if srow_eqb y x && mem_row x t then mult y t - 1 else mult y t.
Proof.
  intros x y t. induction t as [|z t IH]; cbn [remove_one mult].
  - rewrite andb_false_r. reflexivity.
  - unfold mem_row. cbn [existsb]. fold (mem_row x t).
    destruct (srow_eqb x z) eqn:Exz.
    + apply srow_eqb_eq in Exz. subst z. cbn [orb]. rewrite andb_true_r.
      destruct (srow_eqb y x); lia.
    + cbn [orb mult]. rewrite IH. destruct (srow_eqb y x) eqn:Eyx; cbn [andb]; [|reflexivity].
      apply srow_eqb_eq in Eyx. subst y. rewrite Exz. destruct (mem_row x t) eqn:Em; [|reflexivity].
      apply mem_row_true in Em. lia.
Qed.

Lemma mult_inter_all : forall x l r, mult x (inter_all l r) = Nat.min (mult x l) (mult x r).
Proof.
  intros x l. induction l as [|y l IH]; intro r; cbn [inter_all mult]; [reflexivity|].
  destruct (mem_row y r) eqn:Em.
  - cbn [mult]. rewrite IH, mult_remove_one, Em, andb_true_r.
    destruct (srow_eqb x y) eqn:E.
    + apply srow_eqb_eq in E. subst y. apply mem_row_true in Em. lia.
    + lia.
  - rewrite IH. destruct (srow_eqb x y) eqn:E; [|lia].
    apply srow_eqb_eq in E. subst y. apply mem_row_false in Em. lia.
Qed.

Lemma mult_except_all : forall x l r, mult x (except_all l r) = mult x l - mult x r.
Proof.
  intros x l. induction l as [|y l IH]; intro r; cbn [except_all mult]; [reflexivity|].
  destruct (mem_row y r) eqn:Em.
  - rewrite IH, mult_remove_one, Em, andb_true_r.
    destruct (srow_eqb x y) eqn:E.
    + apply srow_eqb_eq in E. subst y. apply mem_row_true in Em. lia.
    + lia.
  - cbn [mult]. rewrite IH. destruct (srow_eqb x y) eqn:E; [|lia].
    apply srow_eqb_eq in E. subst y. apply mem_row_false in Em. lia.
Qed.

(* every operation of set_ops.rs has the multiplicities SQL defines, for all operands *)
Theorem impl_op_mult : forall k all l r x,
  mult x (impl_op k all l r) = spec_mult k all (mult x l) (mult x r).
Proof.
  intros k all l r x. destruct k, all; cbn [impl_op spec_mult].
  - apply mult_app.
  - rewrite mult_filter_seen. assert (H0 : mem_row x [] = false) by reflexivity. rewrite H0. cbn [negb andb].
    rewrite min1_mem, mult_app. reflexivity.
  - apply mult_inter_all.
  - rewrite mult_filter_seen. assert (H0 : mem_row x [] = false) by reflexivity. rewrite H0. rewrite andb_true_r.
    rewrite (mem_row_mult x r). destruct (mult x r) as [|b] eqn:Eb; cbn [Nat.eqb negb andb].
    + rewrite Nat.min_0_r. reflexivity.
    + rewrite min1_mem. destruct (mult x l) as [|[|a]]; reflexivity.
  - apply mult_except_all.
  - rewrite mult_filter_seen. assert (H0 : mem_row x [] = false) by reflexivity. rewrite H0. rewrite andb_true_r.
    rewrite (mem_row_mult x r), negb_involutive. destruct (mult x r =? 0); cbn [andb]; [|reflexivity]. apply min1_mem.
Qed.

Theorem impl_op_correct : forall k all l r, bag_eq (impl_op k all l r) (spec_op k all l r).
Proof. intros k all l r x. rewrite impl_op_mult, spec_op_mult. reflexivity. Qed.

(* the former witnesses of the membership defect: [1; 1] EXCEPT ALL [1] = [1], [1; 1] INTERSECT ALL [1] = [1] *)
Theorem all_variants_repaired :
  impl_op KExcept true [[VInt 1]; [VInt 1]] [[VInt 1]] = [[VInt 1]] /\
  impl_op KIntersect true [[VInt 1]; [VInt 1]] [[VInt 1]] = [[VInt 1]].
Proof. split; reflexivity. Qed.

(* the operations respect bag equality of their operands *)
Lemma impl_op_congr : forall k all l l' r r',
  bag_eq l l' -> bag_eq r r' -> bag_eq (impl_op k all l r) (impl_op k all l' r').
Proof. intros k all l l' r r' Hl Hr x. rewrite !impl_op_mult, Hl, Hr. reflexivity. Qed.
Lemma spec_op_congr : forall k all l l' r r',
  bag_eq l l' -> bag_eq r r' -> bag_eq (spec_op k all l r) (spec_op k all l' r').
Proof. intros k all l l' r r' Hl Hr x. rewrite !spec_op_mult, Hl, Hr. reflexivity. Qed.
