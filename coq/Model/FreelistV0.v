(* HISTORICAL -- not the code under verification any more.
   Freelist::allocate as it was BEFORE /repo commit bad45b6 (findings F-C34-1 / F-C34-2, both
   fixed): when the head trunk was empty it moved on to the next trunk without handing out the
   trunk page, an emptied trunk was dropped from the head, and with head_page = 0 but
   free_count > 0 it read page 0 as a trunk.  Kept only so that Props/C34.v can state, by
   evaluation, what the old code did on the two recorded witnesses.  release / poke are the
   current ones (the repair did not touch them).  Definitions only. *)
From Coq Require Import ZArith List Bool FMapPositive.
From TV Require Import Lib.MachInt Gen.FreelistConsts Gen.Freelist Model.Freelist.
Import ListNotations.
Open Scope Z_scope.

(* [fuel] bounds the old self-recursion; running out is reported as OErr here *)
Fixpoint alloc_v0 (np : Z) (fuel : nat) (st : state) : state * out :=
  if fc st =? 0 then (st, ONone)
  else if negb (in_store np (head st)) then (st, OErr)
  else
    let count := mget (mem st) (head st) W_COUNT in
    let next := mget (mem st) (head st) W_NEXT in
    if count =? 0 then
      if next =? 0 then (mkState (mem st) 0 0, ONone)
      else
        let st1 := mkState (mem st) next (fc st) in
        match fuel with
        | O => (st1, OErr)
        | S f => alloc_v0 np f st1
        end
    else
      let entry_index := count - 1 in
      let entry_offset := (PAGE_HEADER_SIZE + TRUNK_HEADER_SIZE) + entry_index * 4 in
      if entry_offset + 4 >? PAGE_SIZE then (st, OErr)
      else
        let page_no := mget (mem st) (head st) (W_ENT + entry_index) in
        let m1 := mset (mem st) (head st) W_COUNT (count - 1) in
        let hd := if count - 1 =? 0 then next else head st in
        (mkState m1 hd (fc st - 1), OSome page_no).

Definition step_v0 (np : Z) (st : state) (o : op) : state * out :=
  match o with
  | Rel p => release np st p
  | Alloc => alloc_v0 np (Z.to_nat np) st
  | Poke p i v => poke np st p i v
  end.

Fixpoint run_from_v0 (np : Z) (st : state) (ops : list op) : list ev :=
  match ops with
  | [] => []
  | o :: t => let '(st', r) := step_v0 np st o in E o r (head st') (fc st') :: run_from_v0 np st' t
  end.
Definition run_v0 (np : Z) (ops : list op) : list ev := run_from_v0 np st_new ops.
