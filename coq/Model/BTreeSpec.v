(* C28 specification: the ordered map the B-tree has to behave as.  DEFINITIONS ONLY.
   The map is a list of entries strictly sorted by key (byte-string order); `spec_check`
   says, for one operation and the result it returned, whether an ordered map may return
   that and what the map is afterwards.  It is used twice: Corr/C28.v evaluates it on what
   the implementation returned, Props/C28.v proves it accepts everything the model returns. *)
From Coq Require Import ZArith List Bool.
From TV Require Import Lib.MachInt Gen.Varint Model.BTree.
Import ListNotations.
Open Scope Z_scope.

Section SPEC.
Variable V : Type.
Variable vlen : V -> Z.
Variable veqb : V -> V -> bool.
Notation entry := (entry V).
Notation op := (op V).
Notation out := (out V).

Definition omap := list entry.

Fixpoint om_get (k : key) (m : omap) : option V :=
  match m with
  | [] => None
  | c :: r => if keqb (fst c) k then Some (snd c) else om_get k r
  end.
Fixpoint om_ins (e : entry) (m : omap) : omap :=
  match m with
  | [] => [e]
  | c :: r => if kltb (fst e) (fst c) then e :: m else c :: om_ins e r
  end.
Fixpoint om_del (k : key) (m : omap) : omap :=
  match m with
  | [] => []
  | c :: r => if keqb (fst c) k then r else c :: om_del k r
  end.
Fixpoint om_upd (k : key) (v : V) (m : omap) : omap :=
  match m with
  | [] => []
  | c :: r => if keqb (fst c) k then (fst c, v) :: r else c :: om_upd k v r
  end.
Fixpoint om_seek (k : key) (m : omap) : omap :=
  match m with
  | [] => []
  | c :: r => if kltb (fst c) k then om_seek k r else m
  end.
Definition om_all_lt (k : key) (m : omap) : bool := forallb (fun c : entry => kltb (fst c) k) m.

Definition entry_eqb (a b : entry) : bool := keqb (fst a) (fst b) && veqb (snd a) (snd b).
Fixpoint entries_eqb (a b : list entry) : bool :=
  match a, b with
  | [], [] => true
  | x :: a', y :: b' => entry_eqb x y && entries_eqb a' b'
  | _, _ => false
  end.
Definition opt_eqb (a b : option V) : bool :=
  match a, b with
  | None, None => true
  | Some x, Some y => veqb x y
  | _, _ => false
  end.
Definition out_eqb (a b : out) : bool :=
  match a, b with
  | RUnit, RUnit => true
  | RBool x, RBool y => Bool.eqb x y
  | RUniq x, RUniq y => Bool.eqb x y
  | ROpt x, ROpt y => opt_eqb x y
  | RList x, RList y => entries_eqb x y
  | RErr, RErr => true
  | RPanic, RPanic => true
  | _, _ => false
  end.

(* "of any size that fits a page": the cell and its slot fit an empty leaf page *)
Definition fits_page (e : entry) : bool := csize V vlen e + SLOT <=? LEAF_CAP.

(* An insert may be REFUSED - Err returned, map unchanged - only when an entry of more than half a page is
   involved (the new one or one already stored): two such cells and a third cannot always be arranged on two
   pages.  With all entries up to half a page every insert of an absent key must succeed. *)
Definition half_ok (e : entry) : bool := 2 * (csize V vlen e + SLOT) <=? LEAF_CAP.
Definition refusal_ok (e : entry) (m : omap) : bool := negb (half_ok e) || existsb (fun c : entry => negb (half_ok c)) m.

Inductive sres := SOk (m : omap) | SBad | SOut.

Definition expect (o expected : out) (m' : omap) : sres := if out_eqb o expected then SOk m' else SBad.
(* result of inserting an absent key: success, or a refusal where one is allowed *)
Definition expect_ins (o okr : out) (e : entry) (m : omap) : sres :=
  match o with
  | RErr => if refusal_ok e m then SOk m else SBad
  | _ => expect o okr (om_ins e m)
  end.

Definition spec_check (m : omap) (o : op) (r : out) : sres :=
  match o with
  | OInsert k v =>
      if negb (fits_page (k, v)) then SOut else
      match om_get k m with
      | Some _ => expect r RErr m               (* Err("key already exists"), map unchanged *)
      | None => expect_ins r RUnit (k, v) m
      end
  | OIine k v =>
      if negb (fits_page (k, v)) then SOut else
      match om_get k m with
      | Some _ => expect r (RUniq false) m
      | None => expect_ins r (RUniq true) (k, v) m
      end
  | OAppend k v =>
      if negb (fits_page (k, v)) || negb (om_all_lt k m) then SOut else
      expect_ins r RUnit (k, v) m
  | OUpdate k v =>
      if negb (fits_page (k, v)) then SOut else
      match om_get k m with
      | None => expect r (RBool false) m
      | Some old =>
          match r with
          | RBool true => SOk (om_upd k v m)
          | RBool false => if vlen old <? vlen v then SOk m else SBad    (* "no room" only when growing *)
          | _ => SBad
          end
      end
  | ODelete k =>
      match om_get k m with
      | Some _ => expect r (RBool true) (om_del k m)
      | None => expect r (RBool false) m
      end
  | OGet k => expect r (ROpt (om_get k m)) m
  | OFwd lim => expect r (RList (firstn lim m)) m
  | OBwd lim => expect r (RList (firstn lim (rev m))) m
  | OSeek k lim => expect r (RList (firstn lim (om_seek k m))) m
  | OReopen _ => expect r RUnit m
  end.

(* judge a history: true unless some result is one an ordered map cannot return; judging stops
   at the first operation outside the property's scope *)
Fixpoint spec_run (m : omap) (steps : list (op * out)) : bool :=
  match steps with
  | [] => true
  | (o, r) :: rest =>
      match spec_check m o r with
      | SOk m' => spec_run m' rest
      | SBad => false
      | SOut => true
      end
  end.

(* the map after a fully judged, fully in-scope history (None otherwise) *)
Fixpoint spec_final (m : omap) (steps : list (op * out)) : option omap :=
  match steps with
  | [] => Some m
  | (o, r) :: rest =>
      match spec_check m o r with
      | SOk m' => spec_final m' rest
      | _ => None
      end
  end.

End SPEC.

Arguments SOk {V}. Arguments SBad {V}. Arguments SOut {V}.
