(* C15 proofs, ordering part: the reference key order is a total preorder with NULL least
   (greatest when descending); the implementation's comparators coincide with it on
   homogeneous key columns and are NOT transitive on mixed ones. *)
From Coq Require Import ZArith List Bool Arith Lia.
From TV Require Import Model.KnnOrder Proof.KnnOrder.
From TV Require Import Model.SqlSpec Model.SortSpec Model.SortQuery Model.SortImpl.
Import ListNotations.
Open Scope Z_scope.

(* ------------------------------------------------------------------ Z and byte strings *)
Lemma zc_trans : forall a b c : Z, (a ?= b) <> Gt -> (b ?= c) <> Gt -> (a ?= c) <> Gt.
Proof. intros a b c. rewrite !Z.compare_le_iff. lia. Qed.

Lemma bytes_cmp_antisym : forall a b, bytes_cmp b a = CompOpp (bytes_cmp a b).
Proof.
  induction a as [|x a IH]; destruct b as [|y b]; cbn [bytes_cmp CompOpp]; try reflexivity.
  rewrite (Z.compare_antisym x y). destruct (x ?= y); cbn [CompOpp]; auto.
Qed.

Lemma bytes_le_trans : forall a b c,
  bytes_cmp a b <> Gt -> bytes_cmp b c <> Gt -> bytes_cmp a c <> Gt.
Proof.
  induction a as [|x a IH]; intros [|y b] [|z c]; cbn [bytes_cmp]; try congruence.
  destruct (Z.compare_spec x y), (Z.compare_spec y z), (Z.compare_spec x z);
    try congruence; try lia; subst; try apply IH.
Qed.

(* ------------------------------------------------------------------ the reference order on values *)
Lemma sort_cmp_antisym : forall a b, sort_cmp b a = CompOpp (sort_cmp a b).
Proof.
  intros a b. destruct a, b; cbn [sort_cmp vrank]; try reflexivity;
    try apply Z.compare_antisym; apply bytes_cmp_antisym.
Qed.

Lemma sort_cmp_trans : forall a b c,
  sort_cmp a b <> Gt -> sort_cmp b c <> Gt -> sort_cmp a c <> Gt.
Proof.
  intros a b c. destruct a, b, c; cbn [sort_cmp vrank]; try (cbn; congruence);
    try apply zc_trans; apply bytes_le_trans.
Qed.

Lemma sort_cmp_preorder_l : cmp_total_preorder sort_cmp.
Proof. split; [exact sort_cmp_antisym|exact sort_cmp_trans]. Qed.

(* NULL before every non-NULL value ascending, after it descending *)
Lemma null_first_l : forall v, v <> VNull ->
  dir_cmp true VNull v = Lt /\ dir_cmp false v VNull = Lt /\ dir_cmp true VNull VNull = Eq.
Proof. intros v Hv. destruct v; try congruence; cbn; auto. Qed.

(* descending is the reverse of ascending *)
Lemma desc_is_reverse_l : forall a b, dir_cmp false a b = CompOpp (dir_cmp true a b).
Proof. intros a b. cbn [dir_cmp]. apply sort_cmp_antisym. Qed.

Lemma dir_cmp_preorder : forall asc, cmp_total_preorder (dir_cmp asc).
Proof.
  intros [|]; cbn [dir_cmp]; [exact sort_cmp_preorder_l|].
  split.
  - intros a b. apply sort_cmp_antisym.
  - intros a b c H1 H2. eapply sort_cmp_trans; eauto.
Qed.

(* on values of one type the reference order is the comparison of Model/SqlSpec.v *)
Lemma sort_cmp_is_cmp_values_l : forall a b,
  a <> VNull -> b <> VNull -> vclass_ok a = true -> vclass_ok b = true -> same_class a b = true ->
  cmp_values a b = Some (Some (sort_cmp a b)).
Proof.
  intros a b Ha Hb Oa Ob Hc.
  destruct a, b; try congruence; cbn in Hc; try discriminate; cbn [cmp_values sort_cmp]; try reflexivity.
  cbn [vclass_ok] in Oa, Ob. apply andb_prop in Oa, Ob. destruct Oa as [Oa1 Oa2], Ob as [Ob1 Ob2].
  unfold fcmp. rewrite Oa1, Ob1, Oa2, Ob2. reflexivity.
Qed.

(* ------------------------------------------------------------------ lexicographic composition *)
Section LexStep.
  Context {X Y : Type} (c1 : X -> X -> comparison) (c2 : Y -> Y -> comparison).
  Hypothesis H1 : cmp_total_preorder c1.
  Hypothesis H2 : cmp_total_preorder c2.
  Definition lex2 (p q : X * Y) : comparison :=
    match c1 (fst p) (fst q) with Eq => c2 (snd p) (snd q) | c => c end.

  Lemma lex2_preorder : cmp_total_preorder lex2.
  Proof.
    destruct H1 as [A1 T1], H2 as [A2 T2]. split.
    - intros [a1 a2] [b1 b2]. unfold lex2. cbn [fst snd]. rewrite (A1 a1 b1).
      destruct (c1 a1 b1); cbn [CompOpp]; auto.
    - intros [a1 a2] [b1 b2] [c1' c2']. unfold lex2. cbn [fst snd].
      pose proof (T1 a1 b1 c1') as Tabc.
      pose proof (T1 c1' a1 b1) as Tcab.
      pose proof (T1 b1 c1' a1) as Tbca.
      rewrite (A1 a1 c1') in Tcab, Tbca. rewrite (A1 b1 c1') in Tcab. rewrite (A1 a1 b1) in Tbca.
      destruct (c1 a1 b1), (c1 b1 c1'), (c1 a1 c1'); cbn [CompOpp] in *;
        try congruence; try (intros; exfalso; (apply Tabc + apply Tcab + apply Tbca); congruence).
      apply T2.
  Qed.
End LexStep.

Lemma lex_cmp_preorder : forall dirs, cmp_total_preorder (lex_cmp dirs).
Proof.
  induction dirs as [|asc ds IH].
  - split; cbn [lex_cmp]; [reflexivity|congruence].
  - pose proof (lex2_preorder (dir_cmp asc) (lex_cmp ds) (dir_cmp_preorder asc) IH) as [A T].
    split.
    + intros a b. exact (A (hd VNull a, tl a) (hd VNull b, tl b)).
    + intros a b c. exact (T (hd VNull a, tl a) (hd VNull b, tl b) (hd VNull c, tl c)).
Qed.

Lemma elt_cmp_preorder_l : forall dirs, cmp_total_preorder (elt_cmp dirs).
Proof.
  intros dirs. destruct (lex_cmp_preorder dirs) as [A T]. split.
  - intros a b. apply A.
  - intros a b c. apply T.
Qed.

(* ------------------------------------------------------------------ the implementation's comparator *)
Definition comparable (a b : value) : Prop :=
  vclass_ok a = true /\ vclass_ok b = true /\ same_class a b = true.

Lemma f_nan_of_ok : forall b, f_ok b && negb (f_is_nan b) = true -> f_nan b = false.
Proof.
  intros b H. apply andb_prop in H. destruct H as [H1 H2]. unfold f_nan. rewrite H1.
  cbn [negb orb]. destruct (f_is_nan b); [discriminate|reflexivity].
Qed.

(* Value::compare_for_sort = the reference order, on NULLs and values of one type (no NaN) *)
Lemma compare_for_sort_agrees_l : forall a b, comparable a b -> compare_for_sort a b = sort_cmp a b.
Proof.
  intros a b (Oa & Ob & Hc).
  destruct a, b; cbn in Hc; try discriminate;
    cbn [compare_for_sort value_compare sort_cmp vrank]; try reflexivity.
  cbn [vclass_ok] in Oa, Ob. rewrite (f_nan_of_ok _ Oa), (f_nan_of_ok _ Ob). reflexivity.
Qed.
Lemma compare_owned_agrees_l : forall a b, comparable a b -> compare_owned a b = sort_cmp a b.
Proof.
  intros a b (Oa & Ob & Hc).
  destruct a, b; cbn in Hc; try discriminate;
    cbn [compare_owned sort_cmp vrank]; try reflexivity.
  cbn [vclass_ok] in Oa, Ob. rewrite (f_nan_of_ok _ Oa), (f_nan_of_ok _ Ob). reflexivity.
Qed.
Definition not_bool (v : value) : Prop := match v with VBool _ => False | _ => True end.
Lemma sort_exec_compare_agrees_l : forall a b, comparable a b -> not_bool a -> not_bool b ->
  sort_exec_compare a b = sort_cmp a b.
Proof.
  intros a b (Oa & Ob & Hc) Na Nb.
  destruct a, b; cbn in Hc, Na, Nb; try discriminate; try contradiction;
    cbn [sort_exec_compare sort_cmp vrank]; try reflexivity.
  cbn [vclass_ok] in Oa, Ob. rewrite (f_nan_of_ok _ Oa), (f_nan_of_ok _ Ob). reflexivity.
Qed.

(* so each of them is a total preorder on every set of pairwise comparable values
   (a key column of one type, with NULLs) *)
Lemma cmp_total_preorder_on_l : forall (vcmp : value -> value -> comparison) (S : value -> Prop),
  (forall a b, S a -> S b -> vcmp a b = sort_cmp a b) ->
  (forall a b, S a -> S b -> vcmp b a = CompOpp (vcmp a b)) /\
  (forall a b c, S a -> S b -> S c -> vcmp a b <> Gt -> vcmp b c <> Gt -> vcmp a c <> Gt).
Proof.
  intros vcmp S H. split.
  - intros a b Sa Sb. rewrite !H by assumption. apply sort_cmp_antisym.
  - intros a b c Sa Sb Sc. rewrite !H by assumption. apply sort_cmp_trans.
Qed.

(* the closure of sort_by = the reference lexicographic order, when every pair of key values
   that it looks at is comparable *)
Definition keys_comparable (n : nat) (a b : list value) : Prop :=
  forall i, (i < n)%nat -> comparable (nth i a VNull) (nth i b VNull).

Lemma nth_hd_tl : forall (l : list value) i, nth (Datatypes.S i) l VNull = nth i (tl l) VNull.
Proof. intros [|x l] i; cbn [nth tl]; [destruct i; reflexivity|reflexivity]. Qed.
Lemma nth_0_hd : forall (l : list value), nth 0 l VNull = hd VNull l.
Proof. intros [|x l]; reflexivity. Qed.

Lemma impl_lex_agrees_l : forall dirs a b,
  keys_comparable (length dirs) a b ->
  impl_lex compare_for_sort dirs a b = lex_cmp dirs a b.
Proof.
  induction dirs as [|asc ds IH]; intros a b H; cbn [impl_lex lex_cmp]; [reflexivity|].
  assert (H0 : comparable (hd VNull a) (hd VNull b)).
  { rewrite <- !nth_0_hd. apply H. cbn [length]. lia. }
  rewrite (compare_for_sort_agrees_l _ _ H0).
  assert (Ht : keys_comparable (length ds) (tl a) (tl b)).
  { intros i Hi. rewrite <- !nth_hd_tl. apply H. cbn [length]. lia. }
  rewrite (IH _ _ Ht).
  destruct asc; cbn [dir_cmp]; [destruct (sort_cmp (hd VNull a) (hd VNull b)); reflexivity|].
  rewrite (sort_cmp_antisym (hd VNull a) (hd VNull b)).
  destruct (sort_cmp (hd VNull a) (hd VNull b)); reflexivity.
Qed.

(* keys_homog gives pairwise comparability of the keys of any two elements *)
Lemma homog_comparable : forall vs a b, homog vs = true -> In a vs -> In b vs -> comparable a b.
Proof.
  intros vs a b H Ha Hb. unfold homog in H. apply andb_prop in H. destruct H as [H1 H2].
  rewrite forallb_forall in H1, H2. repeat split; auto.
  specialize (H2 a Ha). rewrite forallb_forall in H2. auto.
Qed.

Lemma keys_homog_comparable : forall n (B : list elt) x y,
  keys_homog n (map fst B) = true -> In x B -> In y B -> keys_comparable n (fst x) (fst y).
Proof.
  intros n B x y H Hx Hy i Hi. unfold keys_homog in H. rewrite forallb_forall in H.
  specialize (H i). rewrite in_seq in H. specialize (H ltac:(lia)).
  apply (homog_comparable _ _ _ H); unfold nth_col; rewrite map_map;
    apply in_map_iff; eexists; split; eauto.
Qed.

Lemma impl_elt_cmp_agrees_l : forall dirs (B : list elt) x y,
  keys_homog (length dirs) (map fst B) = true -> In x B -> In y B ->
  impl_elt_cmp dirs x y = elt_cmp dirs x y.
Proof.
  intros dirs B x y H Hx Hy. unfold impl_elt_cmp, elt_cmp.
  apply impl_lex_agrees_l. eapply keys_homog_comparable; eauto.
Qed.

(* ------------------------------------------------------------------ refutations on mixed / NaN keys *)
Definition nan_bits : Z := 9221120237041090560.       (* 0x7ff8000000000000 *)
Definition f1_bits : Z := 4607182418800017408.        (* 1.0 *)
Definition f2_bits : Z := 4611686018427387904.        (* 2.0 *)

(* `_ => Ordering::Equal` makes values of different types "equal" to everything: not transitive *)
Lemma compare_owned_mixed_refuted_l :
  exists a b c, compare_owned a b <> Gt /\ compare_owned b c <> Gt /\ compare_owned a c = Gt.
Proof. exists (VInt 2), (VText [120]), (VInt 1). vm_compute. repeat split; congruence. Qed.
Lemma sort_exec_compare_mixed_refuted_l :
  exists a b c, sort_exec_compare a b <> Gt /\ sort_exec_compare b c <> Gt /\ sort_exec_compare a c = Gt.
Proof. exists (VInt 2), (VFloat f1_bits), (VInt 1). vm_compute. repeat split; congruence. Qed.
(* unwrap_or(Equal) on a NaN key *)
Lemma compare_for_sort_nan_refuted_l :
  exists a b c, compare_for_sort a b <> Gt /\ compare_for_sort b c <> Gt /\ compare_for_sort a c = Gt.
Proof. exists (VFloat f2_bits), (VFloat nan_bits), (VFloat f1_bits). vm_compute. repeat split; congruence. Qed.
