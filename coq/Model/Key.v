(* C26 implementation model: src/encoding/key.rs encode_* and decode_key, as they are.
   Type prefixes come from Gen/KeyPrefix.v (regenerated from the source on every run);
   the encoders/decoders are hand-modelled (generic KeyBuffer / closures do not fit the
   translator subset).  Definitions only.

   Meaning given to Rust operations (trusted, cross-checked by the correspondence run):
     x as u64 / as u32 / as u16 of a signed value      wrap_u
     u64 as i64 etc.                                     wrap_s
     !x on uN                                            2^N - 1 - x
     x ^ (1 << (N-1)) on uN                              flipN (toggle the top bit)
     f.is_nan(), f == +-INFINITY, f < 0.0, f == 0.0      predicates on the bit pattern *)
From Coq Require Import ZArith List Bool.
From TV Require Import Lib.MachInt Gen.KeyPrefix Model.KeySpec.
Import ListNotations.
Open Scope Z_scope.

(* ------------------------------------------------------------------ integer helpers *)
Definition flip (bits x : Z) : Z :=
  if x <? 2 ^ (bits - 1) then x + 2 ^ (bits - 1) else x - 2 ^ (bits - 1).
Definition bnot (bits x : Z) : Z := 2 ^ bits - 1 - x.
(* (v as uN) ^ (1 << (N-1)) *)
Definition bias (bits v : Z) : Z := flip bits (wrap_u bits v).
(* (e ^ (1 << (N-1))) as iN *)
Definition unbias (bits e : Z) : Z := wrap_s bits (flip bits e).

(* f < 0.0 on a bit pattern: sign set, not zero, not NaN *)
Definition lt0_64 (b : Z) : bool := neg64 b && negb (mag64 b =? 0) && negb (is_nan64 b).

(* ------------------------------------------------------------------ encode_escaped_bytes *)
Fixpoint esc (s : list Z) : list Z :=
  match s with
  | [] => [0; 0]
  | b :: t =>
      if b =? 0 then 0 :: 255 :: esc t
      else if b =? 255 then 255 :: 0 :: esc t
      else b :: esc t
  end.

(* ------------------------------------------------------------------ scalar encoders *)
Definition enc_int (n : Z) : list Z :=
  if n <? 0 then KP_NEG_INT :: be_bytes 8 (wrap_u 64 n)
  else if n =? 0 then [KP_ZERO]
  else KP_POS_INT :: be_bytes 8 (wrap_u 64 n).

Definition enc_float (b : Z) : list Z :=
  if is_nan64 b then [KP_NAN]
  else if b =? SIGN64 + INF64 then [KP_NEG_INFINITY]
  else if b =? INF64 then [KP_POS_INFINITY]
  else if lt0_64 b then KP_NEG_FLOAT :: be_bytes 8 (bnot 64 b)
  else if mag64 b =? 0 then [KP_ZERO]
  else KP_POS_FLOAT :: be_bytes 8 (flip 64 b).

(* encode_vector: one f32 component -- `if bits & (1u32 << 31) != 0 { !bits } else { bits ^ (1u32 << 31) }` *)
Definition venc (b : Z) : Z := if neg32 b then bnot 32 b else flip 32 b.
(* encode_json Number -- `if n.to_bits() & (1u64 << 63) != 0 { !bits } else { bits ^ (1u64 << 63) }` *)
Definition jnenc (b : Z) : Z := if neg64 b then bnot 64 b else flip 64 b.

(* [e1][0x01][e2][0x01]...[0x00] over already-encoded elements *)
Fixpoint jtail (l : list (list Z)) : list Z :=
  match l with
  | [] => [0]
  | e :: t => 1 :: e ++ jtail t
  end.
Definition join (l : list (list Z)) : list Z :=
  match l with
  | [] => [0]
  | e :: t => e ++ jtail t
  end.

Fixpoint jenc (j : json) : list Z :=
  match j with
  | JNull => [KP_JSON_NULL]
  | JBool false => [KP_JSON_FALSE]
  | JBool true => [KP_JSON_TRUE]
  | JNum b => KP_JSON_NUMBER :: be_bytes 8 (jnenc b)
  | JStr s => KP_JSON_STRING :: esc s
  | JArr l => KP_JSON_ARRAY :: join (map jenc l)
  | JObj l => KP_JSON_OBJECT :: join (map (fun e => esc (fst e) ++ jenc (snd e)) l)
  end.

Definition senc (v : sval) : list Z :=
  match v with
  | SNull => [KP_NULL]
  | SBool b => [if b then KP_TRUE else KP_FALSE]
  | SInt n => enc_int n
  | SFloat b => enc_float b
  | SNegInf => [KP_NEG_INFINITY]
  | SPosInf => [KP_POS_INFINITY]
  | SNan => [KP_NAN]
  | SText s => KP_TEXT :: esc s
  | SBlob s => KP_BLOB :: esc s
  | SDate d => KP_DATE :: be_bytes 4 (bias 32 d)
  | STime t => KP_TIME :: be_bytes 8 (bias 64 t)
  | STimestamp t => KP_TIMESTAMP :: be_bytes 8 (bias 64 t)
  | STimestampTz t tz => KP_TIMESTAMPTZ :: be_bytes 8 (bias 64 t) ++ be_bytes 2 (bias 16 tz)
  | SInterval mo d us => KP_INTERVAL :: be_bytes 4 (bias 32 mo) ++ be_bytes 4 (bias 32 d) ++ be_bytes 8 (bias 64 us)
  | SUuid u => KP_UUID :: u
  | SInet v6 a p => KP_INET :: (if v6 then 1 else 0) :: p :: firstn (if v6 then 16 else 4)%nat a
  | SMac m => KP_MACADDR :: m
  | SEnum t o => KP_ENUM :: be_bytes 4 t ++ be_bytes 4 o
  | SVector l => KP_VECTOR :: be_bytes 4 (wrap_u 32 (blen l)) ++ flat_map (fun b => be_bytes 4 (venc b)) l
  | SJson j => jenc j
  end.

Definition b2z (b : bool) (v : Z) : Z := if b then v else 0.
Definition range_flags (lo hi : option kval) (li ui : bool) : Z :=
  b2z (match lo with None => true | _ => false end) 1
  + b2z (match hi with None => true | _ => false end) 2
  + b2z li 4 + b2z ui 8.

Fixpoint enc (v : kval) : list Z :=
  match v with
  | KS s => senc s
  | KArray l => KP_ARRAY :: join (map enc l)
  | KTuple l => KP_TUPLE :: join (map enc l)
  | KRange lo hi li ui =>
      KP_RANGE :: range_flags lo hi li ui
        :: (match lo with Some x => enc x | None => [] end)
        ++ (match hi with Some x => enc x | None => [] end)
  | KComposite t l => KP_COMPOSITE :: be_bytes 4 t ++ join (map enc l)
  | KDomain t x => KP_DOMAIN :: be_bytes 4 t ++ enc x
  end.

(* a multi-column key: the columns' encodings one after the other (KeyEncoder / *_to buffers) *)
Definition enc_tuple (vs : list kval) : list Z := flat_map enc vs.

(* ------------------------------------------------------------------ decoders *)
Inductive res (A : Type) := ROk (a : A) (n : Z) | RErr | RFuel.
Arguments ROk {A} a n.
Arguments RErr {A}.
Arguments RFuel {A}.

Definition rmap {A B} (f : A -> Z -> res B) (r : res A) : res B :=
  match r with ROk a n => f a n | RErr => RErr | RFuel => RFuel end.

(* decode_escaped_bytes: (bytes, consumed) *)
Fixpoint unesc (d : list Z) : option (list Z * Z) :=
  match d with
  | [] => None
  | b :: t =>
      if b =? 0 then
        match t with
        | [] => None
        | n :: t' =>
            if n =? 0 then Some ([], 2)
            else if n =? 255 then
              match unesc t' with Some (r, k) => Some (0 :: r, k + 2) | None => None end
            else None
        end
      else if b =? 255 then
        match t with
        | [] => None
        | n :: t' =>
            if n =? 0 then
              match unesc t' with Some (r, k) => Some (255 :: r, k + 2) | None => None end
            else None
        end
      else match unesc t with Some (r, k) => Some (b :: r, k + 1) | None => None end
  end.

Definition drop (n : Z) (d : list Z) : list Z := skipn (Z.to_nat n) d.
Definition take (n : Z) (d : list Z) : list Z := firstn (Z.to_nat n) d.
(* data[lo..lo+n] once the length has been checked *)
Definition sub (d : list Z) (lo n : Z) : list Z := take n (drop lo d).

(* the element loops of decode_array_elements / decode_composite_fields / decode_json_array:
   `one` decodes one element at the front of its argument *)
Fixpoint elems {A} (fuel : nat) (one : list Z -> res A) (d : list Z) (first : bool) : res (list A) :=
  match fuel with
  | O => RFuel
  | S f =>
    match d with
    | [] => RErr
    | b :: t =>
      if b =? 0 then ROk [] 1
      else
        let go (d' : list Z) (off : Z) :=
          rmap (fun v n => rmap (fun vs m => ROk (v :: vs) (off + n + m)) (elems f one (drop n d') false)) (one d') in
        if first then go d 0 else if b =? 1 then go t 1 else RErr
    end
  end.

(* decode_json_object *)
Fixpoint jobj (fuel : nat) (one : list Z -> res json) (d : list Z) (first : bool) : res (list (list Z * json)) :=
  match fuel with
  | O => RFuel
  | S f =>
    match d with
    | [] => RErr
    | b :: t =>
      if b =? 0 then ROk [] 1
      else
        let go (d' : list Z) (off : Z) :=
          match unesc d' with
          | None => RErr
          | Some (k, kn) =>
              if utf8_valid k then
                rmap (fun v n => rmap (fun vs m => ROk ((k, v) :: vs) (off + kn + n + m))
                                      (jobj f one (drop (kn + n) d') false)) (one (drop kn d'))
              else RErr
          end in
        if first then go d 0 else if b =? 1 then go t 1 else RErr
    end
  end.

Fixpoint jdec (fuel : nat) (d : list Z) : res json :=
  match fuel with
  | O => RFuel
  | S f =>
    match d with
    | [] => RErr
    | p :: t =>
      if p =? KP_JSON_NULL then ROk JNull 1
      else if p =? KP_JSON_FALSE then ROk (JBool false) 1
      else if p =? KP_JSON_TRUE then ROk (JBool true) 1
      else if p =? KP_JSON_NUMBER then
        if 9 <=? blen d then
          let e := from_be (sub d 1 8) in
          ROk (JNum (if SIGN64 <=? e then flip 64 e else bnot 64 e)) 9
        else RErr
      else if p =? KP_JSON_STRING then
        match unesc t with
        | Some (s, n) => if utf8_valid s then ROk (JStr s) (1 + n) else RErr
        | None => RErr
        end
      else if p =? KP_JSON_ARRAY then
        rmap (fun l n => ROk (JArr l) (1 + n)) (elems f (jdec f) t true)
      else if p =? KP_JSON_OBJECT then
        rmap (fun l n => ROk (JObj l) (1 + n)) (jobj f (jdec f) t true)
      else RErr
    end
  end.

Definition dec_vector (d : list Z) : res sval :=
  if 5 <=? blen d then
    let n := from_be (sub d 1 4) in
    if 5 + n * 4 <=? blen d then
      ROk (SVector (map (fun i => let e := from_be (sub d (5 + Z.of_nat i * 4) 4) in
                                  if SIGN32 <=? e then flip 32 e else bnot 32 e)
                        (seq 0 (Z.to_nat n))))
          (5 + n * 4)
    else RErr
  else RErr.

(* the non-nesting arms of decode_key; None = not one of them *)
Definition sdec (fuel : nat) (d : list Z) : option (res sval) :=
  match d with
  | [] => Some RErr
  | p :: t =>
    let fixed (n : Z) (f : unit -> sval) : option (res sval) :=
      Some (if n <=? blen d then ROk (f tt) n else RErr) in
    if p =? KP_NULL then Some (ROk SNull 1)
    else if p =? KP_FALSE then Some (ROk (SBool false) 1)
    else if p =? KP_TRUE then Some (ROk (SBool true) 1)
    else if p =? KP_NEG_INFINITY then Some (ROk SNegInf 1)
    else if p =? KP_POS_INFINITY then Some (ROk SPosInf 1)
    else if p =? KP_NAN then Some (ROk SNan 1)
    else if p =? KP_ZERO then Some (ROk (SInt 0) 1)
    else if p =? KP_NEG_INT then fixed 9 (fun _ => SInt (wrap_s 64 (from_be (sub d 1 8))))
    else if p =? KP_POS_INT then fixed 9 (fun _ => SInt (wrap_s 64 (from_be (sub d 1 8))))
    else if p =? KP_NEG_FLOAT then fixed 9 (fun _ => SFloat (bnot 64 (from_be (sub d 1 8))))
    else if p =? KP_POS_FLOAT then fixed 9 (fun _ => SFloat (flip 64 (from_be (sub d 1 8))))
    else if p =? KP_TEXT then
      Some (match unesc t with
            | Some (s, n) => if utf8_valid s then ROk (SText s) (1 + n) else RErr
            | None => RErr end)
    else if p =? KP_BLOB then
      Some (match unesc t with Some (s, n) => ROk (SBlob s) (1 + n) | None => RErr end)
    else if p =? KP_DATE then fixed 5 (fun _ => SDate (unbias 32 (from_be (sub d 1 4))))
    else if p =? KP_TIME then fixed 9 (fun _ => STime (unbias 64 (from_be (sub d 1 8))))
    else if p =? KP_TIMESTAMP then fixed 9 (fun _ => STimestamp (unbias 64 (from_be (sub d 1 8))))
    else if p =? KP_TIMESTAMPTZ then
      fixed 11 (fun _ => STimestampTz (unbias 64 (from_be (sub d 1 8))) (unbias 16 (from_be (sub d 9 2))))
    else if p =? KP_INTERVAL then
      fixed 17 (fun _ => SInterval (unbias 32 (from_be (sub d 1 4))) (unbias 32 (from_be (sub d 5 4)))
                                   (unbias 64 (from_be (sub d 9 8))))
    else if p =? KP_UUID then fixed 17 (fun _ => SUuid (sub d 1 16))
    else if p =? KP_INET then
      Some (if 3 <=? blen d then
              let v6 := negb (bidx d 1 =? 0) in
              let alen := if v6 then 16 else 4 in
              if 3 + alen <=? blen d then ROk (SInet v6 (sub d 3 alen) (bidx d 2)) (3 + alen) else RErr
            else RErr)
    else if p =? KP_MACADDR then fixed 7 (fun _ => SMac (sub d 1 6))
    else if p =? KP_ENUM then fixed 9 (fun _ => SEnum (from_be (sub d 1 4)) (from_be (sub d 5 4)))
    else if p =? KP_VECTOR then Some (dec_vector d)
    else if (p =? KP_JSON_NULL) || (p =? KP_JSON_FALSE) || (p =? KP_JSON_TRUE) || (p =? KP_JSON_NUMBER)
            || (p =? KP_JSON_STRING) || (p =? KP_JSON_ARRAY) || (p =? KP_JSON_OBJECT) then
      Some (rmap (fun j n => ROk (SJson j) n) (jdec fuel d))
    else None
  end.

Definition dec_opt (one : list Z -> res kval) (absent : bool) (d : list Z) : res (option kval) :=
  if absent then ROk None 0 else rmap (fun v n => ROk (Some v) n) (one d).

Fixpoint dec (fuel : nat) (d : list Z) : res kval :=
  match fuel with
  | O => RFuel
  | S f =>
    match sdec f d with
    | Some r => rmap (fun s n => ROk (KS s) n) r
    | None =>
      match d with
      | [] => RErr
      | p :: t =>
        if p =? KP_ARRAY then rmap (fun l n => ROk (KArray l) (1 + n)) (elems f (dec f) t true)
        else if p =? KP_TUPLE then rmap (fun l n => ROk (KTuple l) (1 + n)) (elems f (dec f) t true)
        else if p =? KP_RANGE then
          if 2 <=? blen d then
            let flags := bidx d 1 in
            rmap (fun lo n1 =>
              rmap (fun hi n2 =>
                      ROk (KRange lo hi (Z.testbit flags 2) (Z.testbit flags 3)) (2 + n1 + n2))
                   (dec_opt (dec f) (Z.testbit flags 1) (drop (2 + n1) d)))
              (dec_opt (dec f) (Z.testbit flags 0) (drop 2 d))
          else RErr
        else if p =? KP_COMPOSITE then
          if 5 <=? blen d then
            rmap (fun l n => ROk (KComposite (from_be (sub d 1 4)) l) (5 + n)) (elems f (dec f) (drop 5 d) true)
          else RErr
        else if p =? KP_DOMAIN then
          if 5 <=? blen d then
            rmap (fun v n => ROk (KDomain (from_be (sub d 1 4)) v) (5 + n)) (dec f (drop 5 d))
          else RErr
        else RErr
      end
    end
  end.

(* a key of n columns decoded column after column; all bytes must be used up *)
Fixpoint dec_cols (n : nat) (fuel : nat) (d : list Z) : option (list kval) :=
  match n with
  | O => match d with [] => Some [] | _ => None end
  | S n' =>
    match dec fuel d with
    | ROk v k => match dec_cols n' fuel (drop k d) with Some vs => Some (v :: vs) | None => None end
    | _ => None
    end
  end.

(* nesting + element count: a fuel that is always enough for dec on enc v ++ rest *)
Fixpoint jsize (j : json) : nat :=
  match j with
  | JArr l => S (S (fold_right (fun x a => S (jsize x + a))%nat O l))
  | JObj l => S (S (fold_right (fun x a => S (jsize (snd x) + a))%nat O l))
  | _ => 1%nat
  end.
Definition ssize (s : sval) : nat := match s with SJson j => S (jsize j) | _ => 1%nat end.
Fixpoint ksize (v : kval) : nat :=
  match v with
  | KS s => S (ssize s)
  | KArray l | KTuple l | KComposite _ l => S (S (fold_right (fun x a => S (ksize x + a))%nat O l))
  | KRange lo hi _ _ =>
      S (match lo with Some x => ksize x | None => O end + match hi with Some x => ksize x | None => O end)
  | KDomain _ x => S (ksize x)
  end.
