(* C04 proofs, part 1: basic facts about the persistence model (Model/Persist.v):
   reflexivity of the observation equalities, when DELETE / UPDATE / a failed one-row INSERT
   leave the leaf unchanged, and monotonicity of the finding-class scanner. *)
From Coq Require Import ZArith List Bool Lia.
From TV Require Import Model.Persist.
Import ListNotations.
Open Scope Z_scope.

(* ------------------------------------------------------------------ upd *)
Lemma upd_same : forall A (f : Z -> A) t v, upd f t v t = v.
Proof. intros. unfold upd. now rewrite Z.eqb_refl. Qed.
Lemma upd_other : forall A (f : Z -> A) t v t', t' <> t -> upd f t v t' = f t'.
Proof. intros A f t v t' H. unfold upd. destruct (t' =? t) eqn:E; [apply Z.eqb_eq in E; contradiction | reflexivity]. Qed.
Lemma upd_ext : forall A (f g : Z -> A) t v, (forall x, f x = g x) -> forall x, upd f t v x = upd g t v x.
Proof. intros A f g t v H x. unfold upd. destruct (x =? t); [reflexivity | apply H]. Qed.

Lemma ltbl_eta : forall tb, mkT (t_kind tb) (t_rows tb) (t_count tb) (t_auto tb) (t_pk tb) = tb.
Proof. now destruct tb. Qed.

(* ------------------------------------------------------------------ reflexivity of the observation equalities *)
Lemma list_eqb_refl : forall A (eq : A -> A -> bool), (forall x, eq x x = true) -> forall l, list_eqb eq l l = true.
Proof. intros A eq H l. induction l as [|a l IH]; cbn; [reflexivity | now rewrite H, IH]. Qed.
Lemma cell_eqb_refl : forall x, cell_eqb x x = true.
Proof. intros [x|]; cbn; [apply Z.eqb_refl | reflexivity]. Qed.
Lemma crow_eqb_refl : forall x, crow_eqb x x = true.
Proof. apply list_eqb_refl, cell_eqb_refl. Qed.
Lemma rows_eqb_refl : forall x, rows_eqb x x = true.
Proof. apply list_eqb_refl, crow_eqb_refl. Qed.
Lemma tobs_eqb_refl : forall x, tobs_eqb x x = true.
Proof.
  intros [|r c l]; cbn; [reflexivity|].
  rewrite rows_eqb_refl, cell_eqb_refl. cbn. apply list_eqb_refl, rows_eqb_refl.
Qed.

Definition not_weird (x : obs) : bool := match x with OWeird => false | _ => true end.
Lemma obs_eqb_refl : forall x, not_weird x = true -> obs_eqb x x = true.
Proof.
  intros [n| | |r|ts] H; cbn in *; try reflexivity; try discriminate.
  - apply Z.eqb_refl.
  - apply rows_eqb_refl.
  - apply list_eqb_refl, tobs_eqb_refl.
Qed.

(* ------------------------------------------------------------------ statements of the modelled language *)
Definition is_ins (o : op) : bool := match o with Ins _ _ => true | _ => false end.

Lemma lstep_not_weird : forall o tab n w,
  op_in_lang o = true -> is_int o = false -> not_weird (l_obs (lstep tab n w o)) = true.
Proof.
  intros o tab n w HL HI. destruct o; cbn in *; try discriminate; try reflexivity.
  - destruct (tab t); reflexivity.
  - destruct (tab t); reflexivity.
  - destruct (tab t); cbn; [|reflexivity]. destruct (snd (do_insert l n vals)); reflexivity.
  - destruct (tab t); reflexivity.
  - destruct (tab t); reflexivity.
Qed.

(* ------------------------------------------------------------------ when the leaf does not change *)
Lemma n_hit_nonneg : forall v rs, 0 <= n_hit v rs.
Proof. intros. unfold n_hit. lia. Qed.

Lemma no_hit_all : forall v rs, n_hit v rs <= 0 -> forall r, In r rs -> hit v r = false.
Proof.
  intros v rs H r Hin. destruct (hit v r) eqn:E; [|reflexivity].
  assert (In r (filter (hit v) rs)) as Hf by (apply filter_In; split; assumption).
  unfold n_hit in H. destruct (filter (hit v) rs); [contradiction | cbn in H; lia].
Qed.

Lemma del_rows_none : forall v rs, n_hit v rs <= 0 -> del_rows v rs = rs.
Proof.
  intros v rs H. unfold del_rows. rewrite <- (map_id rs) at 2. apply map_ext_in.
  intros r Hin. now rewrite (no_hit_all v rs H r Hin).
Qed.
Lemma upd_rows_none : forall v w rs, n_hit v rs <= 0 -> upd_rows v w rs = rs.
Proof.
  intros v w rs H. unfold upd_rows. rewrite <- (map_id rs) at 2. apply map_ext_in.
  intros r Hin. now rewrite (no_hit_all v rs H r Hin).
Qed.

(* a row that fails adds nothing to the leaf *)
Lemma ins_row_fail_rows : forall k c v c', ins_row k c v = (c', false) -> i_rows c' = i_rows c.
Proof.
  intros k c v c' H. unfold ins_row in H.
  destruct (auto_part k (i_cur c) (i_max c) (fst v)) as [[[a cur] mx] neg].
  repeat match type of H with
         | context [if ?e then _ else _] => destruct e
         | context [match ?e with Some _ => _ | None => _ end] => destruct e
         end; cbn in H; inversion H; subst; reflexivity.
Qed.

Lemma do_insert_one_fail_rows : forall tb n v,
  snd (do_insert tb n [v]) = false -> t_rows (fst (fst (do_insert tb n [v]))) = t_rows tb.
Proof.
  intros tb n v H. unfold do_insert in *. cbn [ins_loop] in *.
  destruct (ins_row (t_kind tb) _ v) as [c ok] eqn:E.
  destruct ok; cbn in *; [discriminate|].
  now rewrite (ins_row_fail_rows _ _ _ _ E).
Qed.

Lemma do_insert_nil_ok : forall tb n, snd (do_insert tb n []) = true.
Proof. intros. reflexivity. Qed.

(* ------------------------------------------------------------------ the class flag is sticky *)
Lemma k2_touch_c2 : forall k t c f, k_c2 (k2_touch k t c f) = k_c2 k.
Proof. reflexivity. Qed.
Lemma k2_clear_c2 : forall k r, k_c2 (k2_clear k r) = k_c2 k || (r && stale_any k).
Proof. reflexivity. Qed.
Lemma k2_session_c2 : forall k, k_c2 (k2_session k) = k_c2 k.
Proof. reflexivity. Qed.

Lemma k2_step_c2_mono : forall b o x, k_c2 b = true -> k_c2 (k2_step b o x) = true.
Proof.
  intros b o x H. destruct o; cbn [k2_step]; try assumption;
    repeat match goal with
           | |- context [if ?e then _ else _] => destruct e
           | |- context [match ?v with [] => _ | _ :: _ => _ end] => destruct v
           end;
    cbn; rewrite ?H; auto.
Qed.

Lemma kscan_mono : forall h oa b, k_c2 b = true -> k_c2 (kscan b h oa) = true.
Proof.
  induction h as [|o h IH]; intros oa b H; cbn [kscan]; [exact H|].
  destruct oa as [|x oa]; [exact H|]. apply IH, k2_step_c2_mono, H.
Qed.

Lemma kclass_zero : forall b, kclass b = 0 -> k_c2 b = false.
Proof. intros b H. unfold kclass in H. destruct (k_c2 b); [discriminate | reflexivity]. Qed.
Lemma kclass_zero_intro : forall b, k_c2 b = false -> kclass b = 0.
Proof. intros b H. unfold kclass. now rewrite H. Qed.

Lemma final_zero_now : forall h oa b, kclass (kscan b h oa) = 0 -> k_c2 b = false.
Proof.
  intros h oa b H. apply kclass_zero in H.
  destruct (k_c2 b) eqn:E; [|reflexivity]. rewrite (kscan_mono h oa b E) in H. discriminate.
Qed.
