//! sqlgen: a small SQL AST shared by the SQL-level property binaries (C14 first; C05, C15..C19
//! are expected to reuse it).  Include it from a binary with
//!     #[path = "sqlgen/mod.rs"] mod sqlgen;
//! It offers, for tables of BIGINT / DOUBLE PRECISION / TEXT columns and boolean expressions:
//!   (a) printers to SQL text for TurDB (fully parenthesised, one text per value),
//!   (b) printers to the Coq terms of coq/Model/SqlSpec.v (`value`, `row`, `table`, `expr`),
//!   (c) a one-line replay notation with a parser (tables and expressions),
//!   (d) random generators (NULL-rich tables, mixed int/float/text columns, expressions of
//!       bounded depth), driven by the one harness PRNG,
//!   (e) a Rust port of the reference semantics `eval` / `sem3` of Model/SqlSpec.v, used ONLY by
//!       `search` modes and for run statistics -- the judge of a correspondence run is Coq.
#![allow(dead_code)]
use tvh::Rng;

// ------------------------------------------------------------------ values
#[derive(Clone, Debug, PartialEq)]
pub enum Val {
    Null,
    Int(i64),
    /// IEEE-754 binary64 by bit pattern (so that -0.0 / 0.0 and every payload stay distinct)
    Float(u64),
    /// UTF-8 bytes (always valid UTF-8 when produced by the generators)
    Text(Vec<u8>),
    Bool(bool),
}

impl Val {
    pub fn float(f: f64) -> Val { Val::Float(f.to_bits()) }
    pub fn text(s: &str) -> Val { Val::Text(s.as_bytes().to_vec()) }
    pub fn is_null(&self) -> bool { matches!(self, Val::Null) }

    /// SQL literal.  Negative numbers are wrapped in parentheses; floats are printed in plain
    /// positional notation (Rust's shortest round-trip digits) and always contain a '.'.
    pub fn to_sql(&self) -> String {
        match self {
            Val::Null => "NULL".into(),
            Val::Int(i) => if *i < 0 { format!("({})", i) } else { format!("{}", i) },
            Val::Float(b) => {
                let f = f64::from_bits(*b);
                let mut s = format!("{}", f.abs());
                if !s.contains('.') { s.push_str(".0"); }
                if f.is_sign_negative() { format!("(-{})", s) } else { s }
            }
            Val::Text(t) => {
                let s = String::from_utf8_lossy(t);
                format!("'{}'", s.replace('\'', "''"))
            }
            Val::Bool(b) => if *b { "TRUE".into() } else { "FALSE".into() },
        }
    }
    /// Coq term of type SqlSpec.value
    pub fn to_coq(&self) -> String {
        match self {
            Val::Null => "VNull".into(),
            Val::Int(i) => if *i < 0 { format!("(VInt ({}))", i) } else { format!("(VInt {})", i) },
            Val::Float(b) => format!("(VFloat {})", b),
            Val::Text(t) => {
                let mut s = String::from("(VText [");
                for (i, x) in t.iter().enumerate() { if i > 0 { s.push(';'); } s.push_str(&x.to_string()); }
                s.push_str("])");
                s
            }
            Val::Bool(b) => format!("(VBool {})", if *b { "true" } else { "false" }),
        }
    }
    /// replay token: N | i<int> | f<16 hex digits> | s<hex bytes> | bT | bF
    pub fn to_tok(&self) -> String {
        match self {
            Val::Null => "N".into(),
            Val::Int(i) => format!("i{}", i),
            Val::Float(b) => format!("f{:016x}", b),
            Val::Text(t) => { let mut s = String::from("s"); for x in t { s.push_str(&format!("{:02x}", x)); } s }
            Val::Bool(b) => if *b { "bT".into() } else { "bF".into() },
        }
    }
    pub fn from_tok(t: &str) -> Option<Val> {
        if t == "N" { return Some(Val::Null); }
        if t == "bT" { return Some(Val::Bool(true)); }
        if t == "bF" { return Some(Val::Bool(false)); }
        if t.is_empty() || !t.is_char_boundary(1) { return None; }
        let (k, rest) = t.split_at(1);
        match k {
            "i" => rest.parse::<i64>().ok().map(Val::Int),
            "f" => u64::from_str_radix(rest, 16).ok().map(Val::Float),
            "s" => {
                if rest.len() % 2 != 0 { return None; }
                let mut v = vec![];
                for i in 0..rest.len() / 2 { v.push(u8::from_str_radix(&rest[2 * i..2 * i + 2], 16).ok()?); }
                Some(Val::Text(v))
            }
            _ => None,
        }
    }
}

// ------------------------------------------------------------------ tables
#[derive(Clone, Copy, Debug, PartialEq)]
pub enum ColTy { Int, Float, Text }

impl ColTy {
    pub fn sql(&self) -> &'static str {
        match self { ColTy::Int => "BIGINT", ColTy::Float => "DOUBLE PRECISION", ColTy::Text => "TEXT" }
    }
    pub fn ch(&self) -> char { match self { ColTy::Int => 'I', ColTy::Float => 'F', ColTy::Text => 'T' } }
    pub fn from_ch(c: char) -> Option<ColTy> {
        match c { 'I' => Some(ColTy::Int), 'F' => Some(ColTy::Float), 'T' => Some(ColTy::Text), _ => None }
    }
}

/// A table `name(id BIGINT, c1 .., c2 .., ...)`; column 0 is always the row identity `id`
/// (1..n, no constraint and no index declared: every query is a full table scan + filter).
#[derive(Clone, Debug, PartialEq)]
pub struct Table {
    pub name: String,
    pub cols: Vec<ColTy>,
    pub rows: Vec<Vec<Val>>,
}

pub fn col_name(i: usize) -> String { if i == 0 { "id".into() } else { format!("c{}", i) } }

impl Table {
    pub fn create_sql(&self) -> String {
        let cols: Vec<String> = self.cols.iter().enumerate().map(|(i, t)| format!("{} {}", col_name(i), t.sql())).collect();
        format!("CREATE TABLE {} ({})", self.name, cols.join(", "))
    }
    pub fn insert_sql(&self, r: usize) -> String {
        let names: Vec<String> = (0..self.cols.len()).map(col_name).collect();
        let vals: Vec<String> = self.rows[r].iter().map(|v| v.to_sql()).collect();
        format!("INSERT INTO {} ({}) VALUES ({})", self.name, names.join(", "), vals.join(", "))
    }
    /// Coq term of type SqlSpec.table
    pub fn to_coq(&self) -> String {
        let rows: Vec<String> = self.rows.iter().map(|r| {
            let vs: Vec<String> = r.iter().map(|v| v.to_coq()).collect();
            format!("[{}]", vs.join("; "))
        }).collect();
        format!("[{}]", rows.join("; "))
    }
    /// replay notation: cols=IFT rows=v,v,v;v,v,v   (`-` for a table without rows)
    pub fn to_line(&self) -> String {
        let cols: String = self.cols.iter().map(|c| c.ch()).collect();
        let rows: Vec<String> = self.rows.iter().map(|r| r.iter().map(|v| v.to_tok()).collect::<Vec<_>>().join(",")).collect();
        format!("cols={} rows={}", cols, if rows.is_empty() { "-".to_string() } else { rows.join(";") })
    }
    pub fn from_line(name: &str, cols: &str, rows: &str) -> Option<Table> {
        let cols: Option<Vec<ColTy>> = cols.chars().map(ColTy::from_ch).collect();
        let cols = cols?;
        let mut out = vec![];
        if rows != "-" {
            for r in rows.split(';') {
                let vs: Option<Vec<Val>> = r.split(',').map(Val::from_tok).collect();
                let vs = vs?;
                if vs.len() != cols.len() { return None; }
                out.push(vs);
            }
        }
        Some(Table { name: name.to_string(), cols, rows: out })
    }
}

// ------------------------------------------------------------------ expressions
#[derive(Clone, Copy, Debug, PartialEq)]
pub enum CmpOp { Eq, Ne, Lt, Le, Gt, Ge }
#[derive(Clone, Copy, Debug, PartialEq)]
pub enum ArithOp { Add, Sub, Mul }

#[derive(Clone, Debug, PartialEq)]
pub enum Expr {
    Col(usize),
    Lit(Val),
    Arith(ArithOp, Box<Expr>, Box<Expr>),
    Cmp(CmpOp, Box<Expr>, Box<Expr>),
    And(Box<Expr>, Box<Expr>),
    Or(Box<Expr>, Box<Expr>),
    Not(Box<Expr>),
    In(bool, Box<Expr>, Vec<Expr>),
    Between(bool, Box<Expr>, Box<Expr>, Box<Expr>),
    Like(bool, Box<Expr>, Box<Expr>),
    IsNull(bool, Box<Expr>),
}

impl CmpOp {
    pub fn sql(&self) -> &'static str { match self { CmpOp::Eq => "=", CmpOp::Ne => "<>", CmpOp::Lt => "<", CmpOp::Le => "<=", CmpOp::Gt => ">", CmpOp::Ge => ">=" } }
    pub fn coq(&self) -> &'static str { match self { CmpOp::Eq => "CEq", CmpOp::Ne => "CNe", CmpOp::Lt => "CLt", CmpOp::Le => "CLe", CmpOp::Gt => "CGt", CmpOp::Ge => "CGe" } }
    pub fn from_sql(s: &str) -> Option<CmpOp> {
        match s { "=" => Some(CmpOp::Eq), "<>" => Some(CmpOp::Ne), "<" => Some(CmpOp::Lt), "<=" => Some(CmpOp::Le), ">" => Some(CmpOp::Gt), ">=" => Some(CmpOp::Ge), _ => None }
    }
    pub fn all() -> [CmpOp; 6] { [CmpOp::Eq, CmpOp::Ne, CmpOp::Lt, CmpOp::Le, CmpOp::Gt, CmpOp::Ge] }
}
impl ArithOp {
    pub fn sql(&self) -> &'static str { match self { ArithOp::Add => "+", ArithOp::Sub => "-", ArithOp::Mul => "*" } }
    pub fn coq(&self) -> &'static str { match self { ArithOp::Add => "AAdd", ArithOp::Sub => "ASub", ArithOp::Mul => "AMul" } }
}

fn cb(b: bool) -> &'static str { if b { "true" } else { "false" } }

impl Expr {
    pub fn col(i: usize) -> Expr { Expr::Col(i) }
    pub fn int(i: i64) -> Expr { Expr::Lit(Val::Int(i)) }
    pub fn null() -> Expr { Expr::Lit(Val::Null) }
    pub fn cmp(op: CmpOp, a: Expr, b: Expr) -> Expr { Expr::Cmp(op, Box::new(a), Box::new(b)) }
    pub fn and(a: Expr, b: Expr) -> Expr { Expr::And(Box::new(a), Box::new(b)) }
    pub fn or(a: Expr, b: Expr) -> Expr { Expr::Or(Box::new(a), Box::new(b)) }
    pub fn not(a: Expr) -> Expr { Expr::Not(Box::new(a)) }
    pub fn is_null(neg: bool, a: Expr) -> Expr { Expr::IsNull(neg, Box::new(a)) }

    /// does the node produce a truth value (as opposed to a number / text)
    pub fn is_boolean_form(&self) -> bool {
        !matches!(self, Expr::Col(_) | Expr::Arith(..) | Expr::Lit(Val::Int(_)) | Expr::Lit(Val::Float(_)) | Expr::Lit(Val::Text(_)))
    }
    pub fn depth(&self) -> usize {
        match self {
            Expr::Col(_) | Expr::Lit(_) => 0,
            Expr::Arith(_, a, b) | Expr::Cmp(_, a, b) | Expr::And(a, b) | Expr::Or(a, b) | Expr::Like(_, a, b) => 1 + a.depth().max(b.depth()),
            Expr::Not(a) | Expr::IsNull(_, a) => 1 + a.depth(),
            Expr::In(_, a, l) => 1 + l.iter().map(|x| x.depth()).max().unwrap_or(0).max(a.depth()),
            Expr::Between(_, a, l, h) => 1 + a.depth().max(l.depth()).max(h.depth()),
        }
    }
    pub fn size(&self) -> usize {
        match self {
            Expr::Col(_) | Expr::Lit(_) => 1,
            Expr::Arith(_, a, b) | Expr::Cmp(_, a, b) | Expr::And(a, b) | Expr::Or(a, b) | Expr::Like(_, a, b) => 1 + a.size() + b.size(),
            Expr::Not(a) | Expr::IsNull(_, a) => 1 + a.size(),
            Expr::In(_, a, l) => 1 + a.size() + l.iter().map(|x| x.size()).sum::<usize>(),
            Expr::Between(_, a, l, h) => 1 + a.size() + l.size() + h.size(),
        }
    }
    /// visit every node (pre-order)
    pub fn walk<'a>(&'a self, f: &mut dyn FnMut(&'a Expr)) {
        f(self);
        match self {
            Expr::Col(_) | Expr::Lit(_) => {}
            Expr::Arith(_, a, b) | Expr::Cmp(_, a, b) | Expr::And(a, b) | Expr::Or(a, b) | Expr::Like(_, a, b) => { a.walk(f); b.walk(f); }
            Expr::Not(a) | Expr::IsNull(_, a) => a.walk(f),
            Expr::In(_, a, l) => { a.walk(f); for x in l { x.walk(f); } }
            Expr::Between(_, a, l, h) => { a.walk(f); l.walk(f); h.walk(f); }
        }
    }

    /// SQL text, fully parenthesised (every non-atomic node is wrapped), so that the parser's
    /// operator precedence plays no role.
    pub fn to_sql(&self) -> String { self.to_sql_sty(0) }

    /// an operand that prints without parentheses (PredImpl.bare_atom)
    pub fn bare_atom(&self) -> bool {
        match self {
            Expr::Col(_) => true,
            Expr::Lit(Val::Int(i)) => *i >= 0,
            Expr::Lit(Val::Float(b)) => b >> 63 == 0,
            Expr::Lit(_) => true,
            _ => false,
        }
    }
    /// a node `x` such that style 1 prints `NOT x` without parentheses around x (PredImpl.bare_target)
    pub fn bare_target(&self) -> bool {
        match self {
            Expr::Cmp(_, a, _) | Expr::IsNull(_, a) | Expr::In(false, a, _) | Expr::Between(false, a, _, _) | Expr::Like(false, a, _) => a.bare_atom(),
            _ => false,
        }
    }
    /// does style 1 print some NOT bare (PredImpl.has_bare)
    pub fn has_bare(&self) -> bool {
        let mut found = false;
        self.walk(&mut |x| { if let Expr::Not(a) = x { if a.bare_target() { found = true; } } });
        found
    }
    /// style 0: fully parenthesised.  style 1: the same, except that `NOT x <op> y` (x an atom) is
    /// printed without parentheses around the comparison -- standard SQL still reads
    /// NOT (x <op> y) because NOT binds weaker than comparison, IS, IN, BETWEEN and LIKE.
    pub fn to_sql_sty(&self, sty: u8) -> String {
        match self {
            Expr::Col(i) => col_name(*i),
            Expr::Lit(v) => v.to_sql(),
            Expr::Arith(op, a, b) => format!("({} {} {})", a.to_sql_sty(sty), op.sql(), b.to_sql_sty(sty)),
            Expr::Cmp(op, a, b) => format!("({} {} {})", a.to_sql_sty(sty), op.sql(), b.to_sql_sty(sty)),
            Expr::And(a, b) => format!("({} AND {})", a.to_sql_sty(sty), b.to_sql_sty(sty)),
            Expr::Or(a, b) => format!("({} OR {})", a.to_sql_sty(sty), b.to_sql_sty(sty)),
            Expr::Not(a) => {
                let inner = a.to_sql_sty(sty);
                if sty == 1 && a.bare_target() { format!("(NOT {})", &inner[1..inner.len() - 1]) } else { format!("(NOT {})", inner) }
            }
            Expr::In(neg, a, l) => format!("({} {}IN ({}))", a.to_sql_sty(sty), if *neg { "NOT " } else { "" },
                                           l.iter().map(|x| x.to_sql_sty(sty)).collect::<Vec<_>>().join(", ")),
            Expr::Between(neg, a, l, h) => format!("({} {}BETWEEN {} AND {})", a.to_sql_sty(sty), if *neg { "NOT " } else { "" }, l.to_sql_sty(sty), h.to_sql_sty(sty)),
            Expr::Like(neg, a, p) => format!("({} {}LIKE {})", a.to_sql_sty(sty), if *neg { "NOT " } else { "" }, p.to_sql_sty(sty)),
            Expr::IsNull(neg, a) => format!("({} IS {}NULL)", a.to_sql_sty(sty), if *neg { "NOT " } else { "" }),
        }
    }
    /// Coq term of type SqlSpec.expr
    pub fn to_coq(&self) -> String {
        match self {
            Expr::Col(i) => format!("(ECol {})", i),
            Expr::Lit(v) => format!("(ELit {})", v.to_coq()),
            Expr::Arith(op, a, b) => format!("(EArith {} {} {})", op.coq(), a.to_coq(), b.to_coq()),
            Expr::Cmp(op, a, b) => format!("(ECmp {} {} {})", op.coq(), a.to_coq(), b.to_coq()),
            Expr::And(a, b) => format!("(EAnd {} {})", a.to_coq(), b.to_coq()),
            Expr::Or(a, b) => format!("(EOr {} {})", a.to_coq(), b.to_coq()),
            Expr::Not(a) => format!("(ENot {})", a.to_coq()),
            Expr::In(neg, a, l) => format!("(EIn {} {} [{}])", cb(*neg), a.to_coq(), l.iter().map(|x| x.to_coq()).collect::<Vec<_>>().join("; ")),
            Expr::Between(neg, a, l, h) => format!("(EBetween {} {} {} {})", cb(*neg), a.to_coq(), l.to_coq(), h.to_coq()),
            Expr::Like(neg, a, p) => format!("(ELike {} {} {})", cb(*neg), a.to_coq(), p.to_coq()),
            Expr::IsNull(neg, a) => format!("(EIsNull {} {})", cb(*neg), a.to_coq()),
        }
    }
    /// replay notation (prefix, no spaces inside tokens):
    /// (c 1) (l i5) (+ A B) (= A B) (and A B) (or A B) (not A) (in A X..) (nin A X..)
    /// (btw A L H) (nbtw A L H) (like A P) (nlike A P) (isnull A) (notnull A)
    pub fn to_line(&self) -> String {
        match self {
            Expr::Col(i) => format!("(c {})", i),
            Expr::Lit(v) => format!("(l {})", v.to_tok()),
            Expr::Arith(op, a, b) => format!("({} {} {})", op.sql(), a.to_line(), b.to_line()),
            Expr::Cmp(op, a, b) => format!("({} {} {})", op.sql(), a.to_line(), b.to_line()),
            Expr::And(a, b) => format!("(and {} {})", a.to_line(), b.to_line()),
            Expr::Or(a, b) => format!("(or {} {})", a.to_line(), b.to_line()),
            Expr::Not(a) => format!("(not {})", a.to_line()),
            Expr::In(neg, a, l) => format!("({} {} {})", if *neg { "nin" } else { "in" }, a.to_line(), l.iter().map(|x| x.to_line()).collect::<Vec<_>>().join(" ")),
            Expr::Between(neg, a, l, h) => format!("({} {} {} {})", if *neg { "nbtw" } else { "btw" }, a.to_line(), l.to_line(), h.to_line()),
            Expr::Like(neg, a, p) => format!("({} {} {})", if *neg { "nlike" } else { "like" }, a.to_line(), p.to_line()),
            Expr::IsNull(neg, a) => format!("({} {})", if *neg { "notnull" } else { "isnull" }, a.to_line()),
        }
    }
    pub fn from_line(s: &str) -> Option<Expr> {
        let toks = tokenize(s);
        let mut pos = 0;
        let e = parse_expr(&toks, &mut pos)?;
        if pos == toks.len() { Some(e) } else { None }
    }
}

fn tokenize(s: &str) -> Vec<String> {
    let mut out = vec![];
    let mut cur = String::new();
    for ch in s.chars() {
        match ch {
            '(' | ')' => { if !cur.is_empty() { out.push(std::mem::take(&mut cur)); } out.push(ch.to_string()); }
            c if c.is_whitespace() => { if !cur.is_empty() { out.push(std::mem::take(&mut cur)); } }
            c => cur.push(c),
        }
    }
    if !cur.is_empty() { out.push(cur); }
    out
}

fn parse_expr(t: &[String], pos: &mut usize) -> Option<Expr> {
    if t.get(*pos)? != "(" { return None; }
    *pos += 1;
    let head = t.get(*pos)?.clone();
    *pos += 1;
    let e = match head.as_str() {
        "c" => { let i = t.get(*pos)?.parse::<usize>().ok()?; *pos += 1; Expr::Col(i) }
        "l" => { let v = Val::from_tok(t.get(*pos)?)?; *pos += 1; Expr::Lit(v) }
        "+" | "-" | "*" => {
            let op = match head.as_str() { "+" => ArithOp::Add, "-" => ArithOp::Sub, _ => ArithOp::Mul };
            let a = parse_expr(t, pos)?; let b = parse_expr(t, pos)?;
            Expr::Arith(op, Box::new(a), Box::new(b))
        }
        "=" | "<>" | "<" | "<=" | ">" | ">=" => {
            let op = CmpOp::from_sql(&head)?;
            let a = parse_expr(t, pos)?; let b = parse_expr(t, pos)?;
            Expr::Cmp(op, Box::new(a), Box::new(b))
        }
        "and" => { let a = parse_expr(t, pos)?; let b = parse_expr(t, pos)?; Expr::and(a, b) }
        "or" => { let a = parse_expr(t, pos)?; let b = parse_expr(t, pos)?; Expr::or(a, b) }
        "not" => { let a = parse_expr(t, pos)?; Expr::not(a) }
        "in" | "nin" => {
            let a = parse_expr(t, pos)?;
            let mut l = vec![];
            while t.get(*pos)? != ")" { l.push(parse_expr(t, pos)?); }
            Expr::In(head == "nin", Box::new(a), l)
        }
        "btw" | "nbtw" => {
            let a = parse_expr(t, pos)?; let l = parse_expr(t, pos)?; let h = parse_expr(t, pos)?;
            Expr::Between(head == "nbtw", Box::new(a), Box::new(l), Box::new(h))
        }
        "like" | "nlike" => {
            let a = parse_expr(t, pos)?; let p = parse_expr(t, pos)?;
            Expr::Like(head == "nlike", Box::new(a), Box::new(p))
        }
        "isnull" | "notnull" => { let a = parse_expr(t, pos)?; Expr::IsNull(head == "notnull", Box::new(a)) }
        _ => return None,
    };
    if t.get(*pos)? != ")" { return None; }
    *pos += 1;
    Some(e)
}

// ------------------------------------------------------------------ reference semantics (Rust port of Model/SqlSpec.v)
#[derive(Clone, Copy, Debug, PartialEq)]
pub enum Tv { T, F, U }

pub fn tv_and(a: Tv, b: Tv) -> Tv { match (a, b) { (Tv::F, _) | (_, Tv::F) => Tv::F, (Tv::T, Tv::T) => Tv::T, _ => Tv::U } }
pub fn tv_or(a: Tv, b: Tv) -> Tv { match (a, b) { (Tv::T, _) | (_, Tv::T) => Tv::T, (Tv::F, Tv::F) => Tv::F, _ => Tv::U } }
pub fn tv_not(a: Tv) -> Tv { match a { Tv::T => Tv::F, Tv::F => Tv::T, Tv::U => Tv::U } }
fn tv_of_bool(b: bool) -> Tv { if b { Tv::T } else { Tv::F } }
fn val_of_tv(t: Tv) -> Val { match t { Tv::T => Val::Bool(true), Tv::F => Val::Bool(false), Tv::U => Val::Null } }
pub fn tv_of_val(v: &Val) -> Option<Tv> { match v { Val::Bool(true) => Some(Tv::T), Val::Bool(false) => Some(Tv::F), Val::Null => Some(Tv::U), _ => None } }

use std::cmp::Ordering;
/// exact comparison of an integer with a finite or infinite (non-NaN) double
fn int_float_cmp(x: i64, f: f64) -> Ordering {
    if f == f64::INFINITY { return Ordering::Less; }
    if f == f64::NEG_INFINITY { return Ordering::Greater; }
    // |x| <= 2^53 is guaranteed by the caller: x as f64 is exact
    (x as f64).partial_cmp(&f).unwrap()
}
/// cmp_values of SqlSpec.v: None = undefined, Some(None) = UNKNOWN
pub fn cmp_values(a: &Val, b: &Val) -> Option<Option<Ordering>> {
    match (a, b) {
        (Val::Null, _) | (_, Val::Null) => Some(None),
        (Val::Int(x), Val::Int(y)) => Some(Some(x.cmp(y))),
        (Val::Float(x), Val::Float(y)) => {
            let (x, y) = (f64::from_bits(*x), f64::from_bits(*y));
            if x.is_nan() || y.is_nan() { None } else { Some(x.partial_cmp(&y)) }
        }
        (Val::Int(x), Val::Float(y)) => {
            let y = f64::from_bits(*y);
            if x.unsigned_abs() > (1u64 << 53) || y.is_nan() { None } else { Some(Some(int_float_cmp(*x, y))) }
        }
        (Val::Float(x), Val::Int(y)) => {
            let x = f64::from_bits(*x);
            if y.unsigned_abs() > (1u64 << 53) || x.is_nan() { None } else { Some(Some(int_float_cmp(*y, x).reverse())) }
        }
        (Val::Text(x), Val::Text(y)) => Some(Some(x.cmp(y))),
        (Val::Bool(x), Val::Bool(y)) => Some(Some(x.cmp(y))),
        _ => None,
    }
}
fn cmp_holds(op: CmpOp, c: Ordering) -> bool {
    match op {
        CmpOp::Eq => c == Ordering::Equal, CmpOp::Ne => c != Ordering::Equal,
        CmpOp::Lt => c == Ordering::Less, CmpOp::Le => c != Ordering::Greater,
        CmpOp::Gt => c == Ordering::Greater, CmpOp::Ge => c != Ordering::Less,
    }
}
pub fn cmp3(op: CmpOp, a: &Val, b: &Val) -> Option<Tv> {
    match cmp_values(a, b)? { None => Some(Tv::U), Some(c) => Some(tv_of_bool(cmp_holds(op, c))) }
}
/// like_spec of SqlSpec.v (pattern first)
pub fn like_spec(p: &[u8], t: &[u8]) -> bool {
    match p.split_first() {
        None => t.is_empty(),
        Some((&b'%', p1)) => (0..=t.len()).any(|k| like_spec(p1, &t[k..])),
        Some((&c, p1)) => match t.split_first() { None => false, Some((&x, t1)) => (c == b'_' || c == x) && like_spec(p1, t1) },
    }
}
fn is_ascii(s: &[u8]) -> bool { s.iter().all(|c| *c < 128) }

/// eval of SqlSpec.v: None = the reference semantics does not say
pub fn eval(e: &Expr, r: &[Val]) -> Option<Val> {
    match e {
        Expr::Col(i) => r.get(*i).cloned(),
        Expr::Lit(v) => Some(v.clone()),
        Expr::Arith(op, a, b) => {
            let (x, y) = (eval(a, r)?, eval(b, r)?);
            match (x, y) {
                (Val::Int(x), Val::Int(y)) => match op { ArithOp::Add => x.checked_add(y), ArithOp::Sub => x.checked_sub(y), ArithOp::Mul => x.checked_mul(y) }.map(Val::Int),
                (Val::Null, Val::Null) | (Val::Null, Val::Int(_)) | (Val::Int(_), Val::Null) => Some(Val::Null),
                _ => None,
            }
        }
        Expr::Cmp(op, a, b) => { let (x, y) = (eval(a, r)?, eval(b, r)?); cmp3(*op, &x, &y).map(val_of_tv) }
        Expr::And(a, b) => { let (x, y) = (eval(a, r), eval(b, r)); Some(val_of_tv(tv_and(tv_of_val(&x?)?, tv_of_val(&y?)?))) }
        Expr::Or(a, b) => { let (x, y) = (eval(a, r), eval(b, r)); Some(val_of_tv(tv_or(tv_of_val(&x?)?, tv_of_val(&y?)?))) }
        Expr::Not(a) => Some(val_of_tv(tv_not(tv_of_val(&eval(a, r)?)?))),
        Expr::In(neg, a, l) => {
            let x = eval(a, r)?;
            let mut acc = Tv::F;
            let mut vals = vec![];
            for i in l { vals.push(eval(i, r)?); }
            for y in vals.iter().rev() { acc = tv_or(cmp3(CmpOp::Eq, &x, y)?, acc); }
            Some(val_of_tv(if *neg { tv_not(acc) } else { acc }))
        }
        Expr::Between(neg, a, lo, hi) => {
            let (x, l, h) = (eval(a, r)?, eval(lo, r)?, eval(hi, r)?);
            let t = tv_and(cmp3(CmpOp::Ge, &x, &l)?, cmp3(CmpOp::Le, &x, &h)?);
            Some(val_of_tv(if *neg { tv_not(t) } else { t }))
        }
        Expr::Like(neg, a, p) => {
            let (x, q) = (eval(a, r)?, eval(p, r)?);
            match (&x, &q) {
                (Val::Text(s), Val::Text(pat)) => if is_ascii(s) && is_ascii(pat) { Some(Val::Bool(*neg != like_spec(pat, s))) } else { None },
                (Val::Null, Val::Null) | (Val::Null, Val::Text(_)) | (Val::Text(_), Val::Null) => Some(Val::Null),
                _ => None,
            }
        }
        Expr::IsNull(neg, a) => { let x = eval(a, r)?; Some(Val::Bool(x.is_null() != *neg)) }
    }
}
pub fn sem3(e: &Expr, r: &[Val]) -> Option<Tv> { tv_of_val(&eval(e, r)?) }

// ------------------------------------------------------------------ generators
/// Knobs of the generators.  Defaults give NULL-rich tables with small values that collide often.
#[derive(Clone, Debug)]
pub struct GenCfg {
    pub max_rows: usize,
    pub max_cols: usize,           // besides `id`
    pub null_pct: u64,             // chance (in %) that a cell is NULL
    pub allow_not: bool,
    pub allow_neg_forms: bool,     // NOT IN / NOT BETWEEN / NOT LIKE / IS NOT NULL
    pub allow_null_lit: bool,
    pub allow_bool_lit: bool,
    pub allow_arith: bool,
    pub allow_pred_operand: bool,  // predicates as operands of IS NULL
    pub wide_values: bool,         // extreme integers, tiny / huge floats, awkward text
    pub allow_mismatch: bool,      // operands of unrelated types (text against number, LIKE on numbers):
                                   // outside the reference semantics, still modelled
}
impl Default for GenCfg {
    fn default() -> Self {
        GenCfg { max_rows: 8, max_cols: 4, null_pct: 25, allow_not: true, allow_neg_forms: true, allow_null_lit: true,
                 allow_bool_lit: true, allow_arith: true, allow_pred_operand: true, wide_values: false, allow_mismatch: false }
    }
}

const SMALL_INTS: [i64; 9] = [-3, -1, 0, 1, 2, 3, 5, 7, 10];
const WIDE_INTS: [i64; 10] = [i64::MAX, i64::MIN + 1, 1 << 53, (1 << 53) + 1, -(1 << 53) - 1, 1 << 31, -(1 << 31), 4_000_000_000, 1 << 62, -(1 << 62)];
const SMALL_FLOATS: [f64; 11] = [-3.0, -1.5, -0.0, 0.0, 0.5, 1.0, 1.5, 2.0, 2.5, 3.0, 10.0];
const WIDE_FLOATS: [f64; 10] = [1e-17, 2e-17, 1e-300, 9007199254740992.0, 9007199254740994.0, 1e19, -1e19, 1e300, 0.1, 4294967296.0];
const TEXTS: [&str; 14] = ["", "a", "b", "ab", "abc", "abd", "b%d", "a_c", "ABC", "%", "_", "ba", "it's", " a"];
const WIDE_TEXTS: [&str; 6] = ["é", "%ba", "a%", "日本", "abcabcabc", "%%"];
const PATTERNS: [&str; 16] = ["%", "_", "a%", "%a", "%b%", "a_c", "_b_", "ab", "", "%a%c", "a%c", "__", "%_", "_%", "%%", "b%d"];

pub fn gen_val(rng: &mut Rng, ty: ColTy, cfg: &GenCfg) -> Val {
    let wide = cfg.wide_values && rng.chance(1, 4);
    match ty {
        ColTy::Int => Val::Int(if wide { *rng.pick(&WIDE_INTS) } else if rng.chance(1, 8) { rng.range(-20, 20) } else { *rng.pick(&SMALL_INTS) }),
        ColTy::Float => Val::float(if wide { *rng.pick(&WIDE_FLOATS) } else if rng.chance(1, 8) { rng.range(-40, 40) as f64 / 4.0 } else { *rng.pick(&SMALL_FLOATS) }),
        ColTy::Text => Val::text(if wide { *rng.pick(&WIDE_TEXTS) } else { *rng.pick(&TEXTS) }),
    }
}

pub fn gen_table(rng: &mut Rng, name: &str, cfg: &GenCfg) -> Table {
    let ncols = 1 + rng.below(cfg.max_cols as u64) as usize;
    let mut cols = vec![ColTy::Int];
    for _ in 0..ncols { cols.push(*rng.pick(&[ColTy::Int, ColTy::Int, ColTy::Float, ColTy::Text])); }
    let nrows = match rng.below(10) { 0 => rng.below(2) as usize, _ => 1 + rng.below(cfg.max_rows as u64) as usize };
    let mut rows = vec![];
    for r in 0..nrows {
        let mut row = vec![Val::Int(r as i64 + 1)];
        for c in 1..cols.len() {
            if rng.below(100) < cfg.null_pct { row.push(Val::Null); }
            else if r > 0 && rng.chance(1, 5) { let v: &Vec<Val> = &rows[rng.below(r as u64) as usize]; row.push(v[c].clone()); }   // duplicate an earlier cell
            else { row.push(gen_val(rng, cols[c], cfg)); }
        }
        rows.push(row);
    }
    Table { name: name.to_string(), cols, rows }
}

fn cols_of(t: &Table, ty: ColTy) -> Vec<usize> {
    (1..t.cols.len()).filter(|i| t.cols[*i] == ty).collect()
}

/// a scalar operand of type `ty`: a column of that type, a literal (sometimes a value that occurs
/// in the table), NULL, or (integers) a small arithmetic term
pub fn gen_scalar(rng: &mut Rng, t: &Table, ty: ColTy, cfg: &GenCfg, depth: usize) -> Expr {
    let cols = cols_of(t, ty);
    let k = rng.below(100);
    if !cols.is_empty() && k < 50 { return Expr::Col(*rng.pick(&cols)); }
    if cfg.allow_null_lit && k < 56 { return Expr::null(); }
    if cfg.allow_arith && ty == ColTy::Int && depth > 0 && k < 66 {
        let op = *rng.pick(&[ArithOp::Add, ArithOp::Sub, ArithOp::Mul]);
        let a = gen_scalar(rng, t, ColTy::Int, cfg, depth - 1);
        let b = gen_scalar(rng, t, ColTy::Int, cfg, depth - 1);
        return Expr::Arith(op, Box::new(a), Box::new(b));
    }
    // a literal; half of the time one that occurs in a column of that type
    if !cols.is_empty() && !t.rows.is_empty() && rng.chance(1, 2) {
        let v = &t.rows[rng.below(t.rows.len() as u64) as usize][*rng.pick(&cols)];
        if !v.is_null() { return Expr::Lit(v.clone()); }
    }
    Expr::Lit(gen_val(rng, ty, cfg))
}

fn gen_num_ty(rng: &mut Rng, t: &Table) -> ColTy {
    let has_f = !cols_of(t, ColTy::Float).is_empty();
    if has_f && rng.chance(1, 2) { ColTy::Float } else { ColTy::Int }
}

/// a comparison-like leaf predicate
pub fn gen_leaf(rng: &mut Rng, t: &Table, cfg: &GenCfg) -> Expr {
    let has_t = !cols_of(t, ColTy::Text).is_empty();
    let neg = cfg.allow_neg_forms && rng.chance(1, 3);
    // operand type: numeric (int / float, possibly mixed) or text
    let text = has_t && rng.chance(1, 3);
    let (mut ta, mut tb) = if text { (ColTy::Text, ColTy::Text) } else { let a = gen_num_ty(rng, t); (a, if rng.chance(1, 4) { gen_num_ty(rng, t) } else { a }) };
    if cfg.allow_mismatch && rng.chance(1, 3) {
        ta = *rng.pick(&[ColTy::Int, ColTy::Float, ColTy::Text]);
        tb = *rng.pick(&[ColTy::Int, ColTy::Float, ColTy::Text]);
    }
    match rng.below(100) {
        0..=39 => Expr::cmp(*rng.pick(&CmpOp::all()), gen_scalar(rng, t, ta, cfg, 1), gen_scalar(rng, t, tb, cfg, 1)),
        40..=57 => {
            let n = 1 + rng.below(4) as usize;
            let a = gen_scalar(rng, t, ta, cfg, 1);
            let l = (0..n).map(|_| gen_scalar(rng, t, tb, cfg, 0)).collect();
            Expr::In(neg, Box::new(a), l)
        }
        58..=71 => Expr::Between(neg, Box::new(gen_scalar(rng, t, ta, cfg, 1)), Box::new(gen_scalar(rng, t, tb, cfg, 0)), Box::new(gen_scalar(rng, t, tb, cfg, 0))),
        72..=85 => {
            let any = *rng.pick(&[ColTy::Int, ColTy::Float, ColTy::Text]);
            Expr::IsNull(neg, Box::new(gen_scalar(rng, t, any, cfg, 1)))
        }
        _ => {
            if has_t || rng.chance(1, 2) {
                let aty = if cfg.allow_mismatch && rng.chance(1, 4) { ta } else { ColTy::Text };
                let a = gen_scalar(rng, t, aty, cfg, 0);
                let p = if rng.chance(1, 12) && cfg.allow_null_lit { Expr::null() } else { Expr::Lit(Val::text(*rng.pick(&PATTERNS))) };
                Expr::Like(neg, Box::new(a), Box::new(p))
            } else {
                Expr::cmp(*rng.pick(&CmpOp::all()), gen_scalar(rng, t, ta, cfg, 1), gen_scalar(rng, t, tb, cfg, 1))
            }
        }
    }
}

/// a boolean expression of nesting depth <= `depth` (AND / OR / NOT over leaves)
pub fn gen_pred(rng: &mut Rng, t: &Table, cfg: &GenCfg, depth: usize) -> Expr {
    if depth == 0 || rng.chance(1, 4) {
        if cfg.allow_bool_lit && rng.chance(1, 25) { return Expr::Lit(Val::Bool(rng.chance(1, 2))); }
        if cfg.allow_null_lit && rng.chance(1, 60) { return Expr::null(); }
        return gen_leaf(rng, t, cfg);
    }
    match rng.below(100) {
        0..=37 => Expr::and(gen_pred(rng, t, cfg, depth - 1), gen_pred(rng, t, cfg, depth - 1)),
        38..=75 => Expr::or(gen_pred(rng, t, cfg, depth - 1), gen_pred(rng, t, cfg, depth - 1)),
        76..=89 if cfg.allow_not => Expr::not(gen_pred(rng, t, cfg, depth - 1)),
        90..=95 if cfg.allow_pred_operand => Expr::IsNull(cfg.allow_neg_forms && rng.chance(1, 2), Box::new(gen_pred(rng, t, cfg, depth - 1))),
        _ => gen_leaf(rng, t, cfg),
    }
}

// ------------------------------------------------------------------ structured enumeration
/// The fixed table of the structured stream: every combination of {NULL, 1, 2} in (c1, c2), a
/// DOUBLE column c3 over {NULL, 1.0, 2.5} and a TEXT column c4 over {NULL, 'abc', 'b%d', ''}.
pub fn small_domain_table(name: &str) -> Table {
    let dom_i = [Val::Null, Val::Int(1), Val::Int(2)];
    let dom_f = [Val::Null, Val::float(1.0), Val::float(2.5)];
    let dom_t = [Val::Null, Val::text("abc"), Val::text("b%d"), Val::text("")];
    let mut rows = vec![];
    let mut k = 0usize;
    for a in &dom_i { for b in &dom_i {
        rows.push(vec![Val::Int(k as i64 + 1), a.clone(), b.clone(), dom_f[k % 3].clone(), dom_t[(k / 2) % 4].clone()]);
        k += 1;
    } }
    Table { name: name.to_string(), cols: vec![ColTy::Int, ColTy::Int, ColTy::Int, ColTy::Float, ColTy::Text], rows }
}

/// every leaf predicate shape over the small-domain table: all six comparison operators over
/// column / literal / NULL operand pairs, IN / NOT IN with and without NULL, [NOT] BETWEEN,
/// [NOT] LIKE, IS [NOT] NULL, TRUE / FALSE / NULL
pub fn small_domain_leaves() -> Vec<Expr> {
    let c = Expr::col;
    let i = Expr::int;
    let f = |x: f64| Expr::Lit(Val::float(x));
    let s = |x: &str| Expr::Lit(Val::text(x));
    let n = Expr::null;
    let mut out = vec![];
    let pairs: Vec<(Expr, Expr)> = vec![
        (c(1), i(1)), (c(1), c(2)), (c(1), n()), (n(), c(2)), (n(), n()), (c(3), f(1.0)), (c(1), c(3)), (c(3), i(2)),
        (c(4), s("abc")), (c(4), n()), (i(1), i(2)), (i(1), f(1.0)), (n(), i(1)), (s("a"), s("a")),
        (Expr::Arith(ArithOp::Add, Box::new(c(1)), Box::new(i(1))), i(2)), (c(1), i(-1)),
    ];
    for (a, b) in &pairs { for op in CmpOp::all() { out.push(Expr::cmp(op, a.clone(), b.clone())); } }
    for neg in [false, true] {
        for l in [vec![i(1)], vec![i(1), n()], vec![c(2), i(2)], vec![n()], vec![f(1.0), i(2)], vec![i(3), i(4)]] {
            out.push(Expr::In(neg, Box::new(c(1)), l.clone()));
        }
        out.push(Expr::In(neg, Box::new(n()), vec![i(1), n()]));
        out.push(Expr::In(neg, Box::new(c(3)), vec![f(2.5), n()]));
        out.push(Expr::In(neg, Box::new(c(4)), vec![s("abc"), s("")]));
        for (lo, hi) in [(i(1), i(2)), (c(2), i(2)), (n(), i(1)), (i(1), n()), (i(2), i(1)), (f(0.5), f(1.5))] {
            out.push(Expr::Between(neg, Box::new(c(1)), Box::new(lo.clone()), Box::new(hi.clone())));
        }
        out.push(Expr::Between(neg, Box::new(c(3)), Box::new(i(1)), Box::new(f(2.5))));
        // a bound that is arithmetic over a possibly NULL column
        out.push(Expr::Between(neg, Box::new(c(1)), Box::new(Expr::Arith(ArithOp::Add, Box::new(c(2)), Box::new(i(1)))), Box::new(i(1))));
        out.push(Expr::Between(neg, Box::new(c(1)), Box::new(i(2)), Box::new(Expr::Arith(ArithOp::Sub, Box::new(c(2)), Box::new(i(1))))));
        out.push(Expr::Between(neg, Box::new(n()), Box::new(i(1)), Box::new(i(2))));
        for p in ["a%", "%", "_b_", "b%d", "%d", "", "b_d"] { out.push(Expr::Like(neg, Box::new(c(4)), Box::new(s(p)))); }
        out.push(Expr::Like(neg, Box::new(c(4)), Box::new(n())));
        for a in [c(1), c(3), c(4), n(), i(1), Expr::Arith(ArithOp::Mul, Box::new(c(1)), Box::new(c(2)))] { out.push(Expr::IsNull(neg, Box::new(a))); }
    }
    out.push(Expr::Lit(Val::Bool(true)));
    out.push(Expr::Lit(Val::Bool(false)));
    out.push(n());
    out
}
