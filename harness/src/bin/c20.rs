//! C20 probe (temporary)
use tvh::*;
use turdb::{Database, OwnedValue};
fn show(v: &OwnedValue) -> String {
    match v {
        OwnedValue::Null => "NULL".into(),
        OwnedValue::Int(i) => format!("{}", i),
        OwnedValue::Float(f) => format!("{:?}f", f),
        OwnedValue::Text(s) => format!("'{}'", s),
        OwnedValue::Bool(b) => format!("{}", b),
        o => format!("{:?}", o),
    }
}
fn main() {
    let a = Args::parse();
    let file = a.rest.get(0).expect("file");
    let dir = std::path::PathBuf::from(format!("/verif/build/tmp/c20-{}", std::process::id()));
    let _ = std::fs::remove_dir_all(&dir);
    std::fs::create_dir_all(&dir).expect("mkdir");
    let db = Database::create(dir.join("db")).expect("create");
    for l in std::fs::read_to_string(file).unwrap().lines() {
        let l = l.trim();
        if l.is_empty() || l.starts_with('#') { continue; }
        if l.to_uppercase().starts_with("SELECT") {
            let l2 = l.to_string();
            match catch(std::panic::AssertUnwindSafe(|| db.query(&l2))) {
                Caught::Done(Ok(rows)) => {
                    let s: Vec<String> = rows.iter().map(|r| format!("({})", r.values.iter().map(show).collect::<Vec<_>>().join(","))).collect();
                    println!("{}\n   => {}", l, s.join(" "));
                }
                Caught::Done(Err(e)) => println!("{}\n   => ERR {:#}", l, e),
                Caught::Panicked(m) => println!("{}\n   => PANIC {}", l, m),
            }
        } else if let Err(e) = db.execute(l) { println!("{}\n   => ERR {:#}", l, e) }
    }
    drop(db);
    let _ = std::fs::remove_dir_all(&dir);
}
