//! C38 commit order: 2-3 cloned handles of a REAL `Database` (WAL on) run explicit transactions
//! (BEGIN; UPDATE ...; COMMIT) under the deterministic scheduler; the WAL files are read after every
//! step.  Each table is kept on one data page; every UPDATE writes its own row with its own 8-byte
//! marker, so the set of markers found in a WAL frame tells which updates the logged page image
//! contains.  Scheduling sites: the real ones of execute_small_commit / group_commit.rs
//! (401, 301, 302, 402, 304, 404, 403, 305, 306) plus the harness's own site 400 between the last
//! UPDATE and COMMIT; every other site (page locks 201-204, ...) is passed through at once.
//!
//!   gen    cases = (programs, schedule, everything observed) for coq/Corr/C38.v
//!   search the property's oracle only (no model), random schedules, prints FAIL lines
use std::path::{Path, PathBuf};
use std::sync::{Arc, Mutex};
use std::time::{Duration, Instant};
use turdb::Database;
use tvh::sched::*;
use tvh::*;

const PAGE: usize = 16384;
const FRAME: usize = 32 + PAGE;
const MAX_UPD: usize = 12;

/// a write: (table 1|2, update id)
type Write = (u32, u32);
type Txn = Vec<Write>;

fn marker(u: u32) -> i64 { (0x5A3C_0000_7E00_0000u64 + ((u as u64 + 1) << 8) + 0xA5) as i64 }

struct Frame { file_id: u64, image: u64 }

/// frames of the WAL directory in write order, with the set of markers present in each image
fn read_wal(dir: &Path, skip: usize) -> Vec<Frame> {
    let mut segs: Vec<PathBuf> = std::fs::read_dir(dir).map(|rd| rd.filter_map(|e| e.ok().map(|e| e.path()))
        .filter(|p| p.file_name().map(|n| n.to_string_lossy().starts_with("wal.")).unwrap_or(false)).collect()).unwrap_or_default();
    segs.sort();
    let mut out = vec![];
    let mut idx = 0usize;
    for s in segs {
        let b = std::fs::read(&s).unwrap_or_default();
        let mut off = 0;
        while off + FRAME <= b.len() {
            if idx >= skip {
                let file_id = u64::from_le_bytes(b[off..off + 8].try_into().unwrap());
                let img = &b[off + 32..off + FRAME];
                let mut mask = 0u64;
                for u in 0..MAX_UPD as u32 {
                    let m = marker(u);
                    let (le, be) = (m.to_le_bytes(), m.to_be_bytes());
                    if img.windows(8).any(|w| w == le || w == be) { mask |= 1 << u; }
                }
                out.push(Frame { file_id, image: mask });
            }
            idx += 1;
            off += FRAME;
        }
    }
    out
}
fn wal_frame_count(dir: &Path) -> usize {
    std::fs::read_dir(dir).map(|rd| rd.filter_map(|e| e.ok()).filter(|e| e.file_name().to_string_lossy().starts_with("wal."))
        .map(|e| e.metadata().map(|m| m.len() as usize / FRAME).unwrap_or(0)).sum()).unwrap_or(0)
}

fn interesting(site: u32) -> bool { matches!(site, 301 | 302 | 304 | 305 | 306 | 400 | 401 | 402 | 403 | 404) }

#[derive(Clone, Debug, Default)]
struct Obs {
    sched: Vec<usize>,
    /// per step: outcome, statuses, frames in the WAL (beyond the baseline)
    steps: Vec<(i64, Vec<i64>, usize)>,
    /// (table 1|2 or 0 = unknown file, image mask)
    frames: Vec<(u32, u64)>,
    /// per thread, per transaction: (number, 1 = COMMIT returned Ok, frames in the WAL at the return)
    results: Vec<Vec<(u32, u32, usize)>>,
    drained: bool,
    avail: Vec<Vec<usize>>,
    blocked_steps: usize,
    preemptions: usize,
    setup_error: Option<String>,
}

fn status_code(s: TState) -> i64 {
    match s { TState::NotStarted => -3, TState::AtSite(n) => n as i64, TState::Running => 1, TState::Finished => 2 }
}

#[derive(Clone, Copy)]
enum Plan<'a> {
    Fixed(&'a [usize]),
    Preempt(&'a [(usize, usize)]),
    Random(u64, u64),
}

static CASE_NO: std::sync::atomic::AtomicUsize = std::sync::atomic::AtomicUsize::new(0);

fn run_case(progs: &[Vec<Txn>], plan: Plan) -> (Obs, bool) {
    let mut last = None;
    for _ in 0..5 {
        let (o, flaky, suspect) = run_once(progs, plan);
        if suspect { return (o, true); }
        if !flaky { return (o, false); }
        last = Some(o);
        std::thread::sleep(Duration::from_millis(50));
    }
    (last.unwrap(), true)
}

fn run_once(progs: &[Vec<Txn>], plan: Plan) -> (Obs, bool, bool) {
    let n = progs.len();
    let mut o = Obs { results: vec![vec![]; n], ..Default::default() };
    // ---- a fresh database: two tables, one data page each
    let base = std::env::temp_dir().join(format!("c38-{}-{}", std::process::id(), CASE_NO.fetch_add(1, std::sync::atomic::Ordering::Relaxed)));
    let _ = std::fs::remove_dir_all(&base);
    let path = base.join("db");
    let setup = (|| -> Result<Database, String> {
        std::fs::create_dir_all(&base).map_err(|e| e.to_string())?;
        let db = Database::create(&path).map_err(|e| format!("{:#}", e))?;
        db.execute("PRAGMA wal=ON").map_err(|e| format!("{:#}", e))?;
        for t in 1..=2 {
            db.execute(&format!("CREATE TABLE t{} (id INT PRIMARY KEY, v BIGINT)", t)).map_err(|e| format!("{:#}", e))?;
            let rows: Vec<String> = (1..=MAX_UPD).map(|i| format!("({}, {})", i, i)).collect();
            db.execute(&format!("INSERT INTO t{} VALUES {}", t, rows.join(", "))).map_err(|e| format!("{:#}", e))?;
        }
        Ok(db)
    })();
    let db = match setup { Ok(d) => d, Err(e) => { o.setup_error = Some(e); let _ = std::fs::remove_dir_all(&base); return (o, false, true); } };
    let wal_dir = path.join("wal");
    // which WAL file id belongs to which table: order of first appearance in the set-up frames
    let setup_frames = read_wal(&wal_dir, 0);
    let baseline = setup_frames.len();
    let mut file_ids: Vec<u64> = vec![];
    for f in &setup_frames { if !file_ids.contains(&f.file_id) { file_ids.push(f.file_id); } }
    let table_of = |fid: u64| -> u32 { file_ids.iter().position(|x| *x == fid).map(|i| i as u32 + 1).unwrap_or(0) };
    let results: Vec<Arc<Mutex<Vec<(u32, u32, usize)>>>> = (0..n).map(|_| Arc::new(Mutex::new(vec![]))).collect();
    let s = Scheduler::new(n);
    s.install();
    let mut hs = vec![];
    for (id, prog) in progs.iter().cloned().enumerate() {
        let h = db.clone();
        let res = Arc::clone(&results[id]);
        let wd = wal_dir.clone();
        hs.push(s.spawn(id, move || {
            for (k0, txn) in prog.iter().enumerate() {
                let mut ok = h.execute("BEGIN").is_ok();
                for &(table, u) in txn {
                    ok &= h.execute(&format!("UPDATE t{} SET v = {} WHERE id = {}", table, marker(u), u + 1)).is_ok();
                }
                turdb::verif_hooks::sched_point(400);
                ok &= h.execute("COMMIT").is_ok();
                let nf = wal_frame_count(&wd).saturating_sub(baseline);
                res.lock().unwrap().push((k0 as u32 + 1, ok as u32, nf));
            }
        }));
    }
    s.wait_all_started();
    let statuses = |s: &Scheduler| -> Vec<i64> { (0..n).map(|i| status_code(s.state(i))).collect() };
    let runnable = |s: &Scheduler| -> Vec<usize> { (0..n).filter(|&i| matches!(s.state(i), TState::AtSite(_))).collect() };
    let mut rng = Rng::new(match plan { Plan::Random(seed, _) => seed, _ => 0 });
    let (mut cur, mut idx, mut stuck, mut flaky) = (0usize, 0usize, false, false);
    let mut believed_blocked: Vec<usize> = vec![];
    loop {
        if believed_blocked.iter().any(|&b| s.state(b) != TState::Running) { flaky = true; }
        let av = runnable(&s);
        let fixed_left = match &plan { Plan::Fixed(l) => idx < l.len(), _ => false };
        if av.is_empty() && !fixed_left {
            if s.all_finished() { break; }
            let t0 = Instant::now();
            while runnable(&s).is_empty() && !s.all_finished() && t0.elapsed() < Duration::from_secs(3) { std::thread::sleep(Duration::from_micros(200)); }
            if runnable(&s).is_empty() && !s.all_finished() { stuck = true; break; }
            continue;
        }
        if idx >= 400 { stuck = !s.all_finished(); break; }
        let policy = if av.contains(&cur) { cur } else { (1..=n).map(|d| (cur + d) % n).find(|u| av.contains(u)).unwrap_or(cur) };
        let t = match &plan {
            Plan::Fixed(l) => if idx < l.len() { l[idx] % n } else { policy },
            Plan::Preempt(ps) => match ps.iter().find(|(p, _)| *p == idx) { Some((_, u)) => *u % n, None => policy },
            Plan::Random(_, sw) => {
                if rng.chance(1, 25) { rng.below(n as u64) as usize }
                else if rng.chance(1, *sw) || !av.contains(&cur) { *rng.pick(&av) }
                else { cur }
            }
        };
        if t != cur && av.contains(&t) && matches!(s.state(cur), TState::AtSite(x) if x != 0) { o.preemptions += 1; }
        o.avail.push(av.clone());
        // one coarse step: run to the next INTERESTING site (other sites are passed through)
        let mut before = s.state(t);
        let mut out;
        loop {
            out = s.step(t);
            if out == StepOutcome::Blocked {
                let may_block = before == TState::AtSite(302);
                let t0 = Instant::now();
                let grace = if may_block { Duration::from_millis(90) } else { Duration::from_secs(8) };
                while t0.elapsed() < grace {
                    match s.state(t) {
                        TState::AtSite(x) => { out = StepOutcome::Reached(x); break; }
                        TState::Finished => { out = StepOutcome::Finished; break; }
                        _ => std::thread::sleep(Duration::from_micros(200)),
                    }
                }
            }
            match out {
                StepOutcome::Reached(x) if !interesting(x) => { before = TState::AtSite(x); continue; }
                _ => break,
            }
        }
        let code = match out {
            StepOutcome::Reached(x) => x as i64,
            StepOutcome::Finished => 2,
            StepOutcome::Blocked => { o.blocked_steps += 1; believed_blocked.push(t); 1 }
            StepOutcome::Skipped => 3,
        };
        if matches!(out, StepOutcome::Reached(306)) {
            let t0 = Instant::now();
            while (0..n).any(|i| s.state(i) == TState::Running) && t0.elapsed() < Duration::from_secs(5) { std::thread::sleep(Duration::from_micros(100)); }
            believed_blocked.clear();
        }
        o.sched.push(t);
        o.steps.push((code, statuses(&s), wal_frame_count(&wal_dir).saturating_sub(baseline)));
        if matches!(out, StepOutcome::Reached(_) | StepOutcome::Finished | StepOutcome::Blocked) { cur = t; }
        idx += 1;
    }
    o.drained = !stuck;
    o.frames = read_wal(&wal_dir, baseline).iter().map(|f| (table_of(f.file_id), f.image)).collect();
    for i in 0..n { o.results[i] = results[i].lock().unwrap().clone(); }
    if !stuck { for h in hs { let _ = h.join(); } }
    Scheduler::uninstall();
    if !stuck { drop(db); let _ = std::fs::remove_dir_all(&base); }
    (o, flaky, stuck)
}

// ---------------------------------------------------------------- the property's oracle
fn oracle(progs: &[Vec<Txn>], o: &Obs) -> Option<&'static str> {
    if o.setup_error.is_some() { return Some("setup"); }
    // order: the last frame of a page holds the newest image among the frames of that page
    for (i, f) in o.frames.iter().enumerate() {
        let last = o.frames.iter().rev().find(|g| g.0 == f.0).unwrap();
        if f.1 & last.1 != f.1 { let _ = i; return Some("older_image_last"); }
    }
    // coverage: every write of an acknowledged transaction is in a frame that was in the log at the return
    for (t, rs) in o.results.iter().enumerate() {
        for &(k, ok, nf) in rs {
            if ok == 1 {
                for &(table, u) in &progs[t][k as usize - 1] {
                    if !o.frames.iter().take(nf).any(|f| f.0 == table && f.1 & (1 << u) != 0) { return Some("ack_without_frame"); }
                }
            } else { return Some("commit_failed"); }
        }
    }
    if !o.drained { return Some("stuck"); }
    None
}

// ---------------------------------------------------------------- printing / parsing
fn txn_str(x: &Txn) -> String { if x.is_empty() { "-".into() } else { x.iter().map(|(p, u)| format!("{}:{}", p, u)).collect::<Vec<_>>().join("+") } }
fn replay_line(progs: &[Vec<Txn>], sched: &[usize]) -> String {
    let mut s = format!("n={}", progs.len());
    for (i, p) in progs.iter().enumerate() { s.push_str(&format!(" p{}={}", i, p.iter().map(txn_str).collect::<Vec<_>>().join(","))); }
    s.push_str(&format!(" sched={}", sched.iter().map(|t| t.to_string()).collect::<Vec<_>>().join(",")));
    s
}
fn parse_line(l: &str) -> Option<(Vec<Vec<Txn>>, Vec<usize>)> {
    let mut progs: Vec<Vec<Txn>> = vec![];
    let mut sched = vec![];
    for tok in l.split_whitespace() {
        if let Some(r) = tok.strip_prefix("sched=") {
            sched = r.split(',').filter(|x| !x.is_empty()).filter_map(|x| x.parse().ok()).collect();
        } else if tok.starts_with('p') && tok.contains('=') {
            let r = tok.splitn(2, '=').nth(1).unwrap_or("");
            let mut p = vec![];
            for x in r.split(',').filter(|x| !x.is_empty()) {
                let mut txn = vec![];
                if x != "-" {
                    for w in x.split('+') {
                        let mut it = w.split(':');
                        let table: u32 = it.next()?.parse().ok()?;
                        let u: u32 = it.next()?.parse().ok()?;
                        if !(1..=2).contains(&table) || u as usize >= MAX_UPD { return None; }
                        txn.push((table, u));
                    }
                }
                p.push(txn);
            }
            progs.push(p);
        }
    }
    if progs.is_empty() || progs.len() > 3 || progs.iter().any(|p| p.is_empty()) { None } else { Some((progs, sched)) }
}
fn st4(x: i64) -> u64 {
    match x { 0 => 0, 1 => 1, 2 => 2, 3 => 3, 301 => 4, 302 => 5, 304 => 6, 305 => 7, 306 => 8, 401 => 9, 402 => 10, 403 => 11, 404 => 12, 400 => 14, _ => 15 }
}
/// compact encodings, see coq/Corr/C38.v
fn case_term(progs: &[Vec<Txn>], o: &Obs) -> String {
    let ps: Vec<String> = progs.iter().map(|p| clist(&p.iter().map(|x| clist(&x.iter().map(|(t, u)| (t * 16 + u).to_string()).collect::<Vec<_>>())).collect::<Vec<_>>())).collect();
    let steps: Vec<String> = o.sched.iter().zip(o.steps.iter()).map(|(t, (c, st, nf))| {
        let mut acc: u64 = 0;
        for x in st.iter().rev() { acc = st4(*x) + 16 * acc; }
        (*t as u64 + 4 * (st4(*c) + 16 * ((*nf).min(15) as u64 + 16 * acc))).to_string()
    }).collect();
    let frames: Vec<String> = o.frames.iter().map(|f| (f.0 as u64 * 4096 + f.1).to_string()).collect();
    let res: Vec<String> = o.results.iter().map(|rs| clist(&rs.iter().map(|r| (r.0 as u64 + 8 * (r.1 as u64 + 2 * r.2 as u64)).to_string()).collect::<Vec<_>>())).collect();
    format!("Case {} {} {} {} {}", clist(&ps), clist(&steps), clist(&frames), clist(&res), cbool(o.drained))
}
fn kind_of(base: &str, progs: &[Vec<Txn>], o: &Obs) -> String {
    match oracle(progs, o) { Some(w) => format!("{}:{}", base, w), None => base.to_string() }
}
fn nontrivial(o: &Obs) -> bool { o.preemptions > 0 || o.blocked_steps > 0 }

// ---------------------------------------------------------------- program sets
fn enum_sets(thorough: bool) -> Vec<(Vec<Vec<Txn>>, usize)> {
    let w = |t: u32, u: u32| -> Txn { vec![(t, u)] };
    if !thorough {
        vec![
            (vec![vec![w(1, 0)], vec![w(1, 1)]], 2),
            (vec![vec![w(1, 0)], vec![w(2, 1)]], 1),
            (vec![vec![vec![(1, 0), (2, 1)]], vec![w(1, 2)]], 1),
        ]
    } else {
        vec![
            (vec![vec![w(1, 0)], vec![w(1, 1)]], 3),
            (vec![vec![w(1, 0)], vec![w(2, 1)]], 2),
            (vec![vec![vec![(1, 0), (2, 1)]], vec![w(1, 2)]], 2),
            (vec![vec![w(1, 0), w(1, 1)], vec![w(1, 2)]], 2),
            (vec![vec![w(1, 0)], vec![w(1, 1)], vec![w(2, 2)]], 1),
        ]
    }
}
fn random_progs(rng: &mut Rng) -> Vec<Vec<Txn>> {
    let n = if rng.chance(2, 3) { 2 } else { 3 };
    let mut next_u = 0u32;
    (0..n).map(|_| {
        let len = 1 + rng.below(2) as usize;
        (0..len).map(|_| {
            let nw = if rng.chance(1, 12) { 0 } else { 1 + rng.below(2) as usize };
            (0..nw).filter_map(|_| { if (next_u as usize) < MAX_UPD { let u = next_u; next_u += 1; Some((1 + rng.below(2) as u32, u)) } else { None } }).collect()
        }).collect()
    }).collect()
}

fn main() {
    let a = Args::parse();
    match a.mode.as_str() {
        "gen" => gen(&a),
        "search" => search(&a),
        "worker" => worker(&a),
        _ => { eprintln!("c38: unknown mode"); std::process::exit(2); }
    }
}

#[derive(Clone, Debug)]
enum Task {
    Enum { set: usize, bound: usize, modulus: usize, res: usize },
    Random { seed: u64, count: usize },
    Lines { file: String, from: usize, to: usize },
}
impl Task {
    fn to_args(&self) -> Vec<String> {
        match self {
            Task::Enum { set, bound, modulus, res } => vec!["enum".into(), set.to_string(), bound.to_string(), modulus.to_string(), res.to_string()],
            Task::Random { seed, count } => vec!["random".into(), seed.to_string(), count.to_string()],
            Task::Lines { file, from, to } => vec!["lines".into(), file.clone(), from.to_string(), to.to_string()],
        }
    }
    fn from_args(r: &[String]) -> Option<Task> {
        let n = |i: usize| -> Option<u64> { r.get(i).and_then(|x| x.parse().ok()) };
        match r.first().map(|x| x.as_str()) {
            Some("enum") => Some(Task::Enum { set: n(1)? as usize, bound: n(2)? as usize, modulus: n(3)? as usize, res: n(4)? as usize }),
            Some("random") => Some(Task::Random { seed: n(1)?, count: n(2)? as usize }),
            Some("lines") => Some(Task::Lines { file: r.get(1)?.clone(), from: n(2)? as usize, to: n(3)? as usize }),
            _ => None,
        }
    }
}

#[derive(Clone, Debug, Default)]
struct Progress { started: bool, stack: Vec<Vec<(usize, usize)>>, rng: u64, done: usize, suspect_runs: usize }
impl Progress {
    fn save(&self, path: &Path) {
        let st: Vec<String> = self.stack.iter().map(|d| d.iter().map(|(p, u)| format!("{}:{}", p, u)).collect::<Vec<_>>().join(",")).collect();
        let _ = std::fs::write(path, format!("{}\n{}\n{}\n{}\n", self.rng, self.done, self.suspect_runs, st.join(";")));
    }
    fn load(path: &Path) -> Option<Progress> {
        let txt = std::fs::read_to_string(path).ok()?;
        let l: Vec<&str> = txt.split('\n').collect();
        if l.len() < 4 { return None; }
        let stack = if l[3].is_empty() { vec![] } else {
            l[3].split(';').map(|d| d.split(',').filter(|x| !x.is_empty()).filter_map(|x| { let mut it = x.split(':'); Some((it.next()?.parse().ok()?, it.next()?.parse().ok()?)) }).collect()).collect()
        };
        Some(Progress { started: true, stack, rng: l[0].parse().ok()?, done: l[1].parse().ok()?, suspect_runs: l[2].parse().ok()? })
    }
}

/// remove the database directories this process has left behind
fn cleanup_dirs() {
    let prefix = format!("c38-{}-", std::process::id());
    if let Ok(rd) = std::fs::read_dir(std::env::temp_dir()) {
        for e in rd.filter_map(|e| e.ok()) {
            if e.file_name().to_string_lossy().starts_with(&prefix) { let _ = std::fs::remove_dir_all(e.path()); }
        }
    }
}

/// see c37.rs: exit code 17 = ended early after a suspect run (threads left behind), start me again
fn worker(a: &Args) {
    let task = Task::from_args(&a.rest).expect("worker task");
    let state_path = PathBuf::from(format!("{}.state", a.out.display()));
    let mut pr = Progress::load(&state_path).unwrap_or_default();
    let mut out = String::new();
    let flush = |out: &mut String| {
        use std::io::Write as _;
        if let Ok(mut f) = std::fs::OpenOptions::new().create(true).append(true).open(&a.out) { let _ = f.write_all(out.as_bytes()); }
        out.clear();
    };
    let row = |progs: &[Vec<Txn>], o: &Obs, base: &str| -> String {
        format!("{}\t{}\t{}\t{}\t{}\t{}\n", kind_of(base, progs, o), if nontrivial(o) { 1 } else { 0 }, o.blocked_steps,
                oracle(progs, o).unwrap_or("ok"), replay_line(progs, &o.sched), case_term(progs, o))
    };
    let settle = |pr: &mut Progress, out: &mut String, progs: &[Vec<Txn>], o: &Obs, suspect: bool, base: &str| -> (bool, bool) {
        if !suspect { pr.suspect_runs = 0; out.push_str(&row(progs, o, base)); return (true, true); }
        pr.suspect_runs += 1;
        if pr.suspect_runs >= 3 { pr.suspect_runs = 0; out.push_str(&row(progs, o, base)); return (true, false); }
        (false, false)
    };
    match &task {
        Task::Enum { set, bound, modulus, res } => {
            let (progs, _) = enum_sets(a.thorough())[*set].clone();
            if !pr.started { pr.stack = vec![vec![]]; pr.started = true; }
            while let Some(d) = pr.stack.last().cloned() {
                let (o, suspect) = run_case(&progs, Plan::Preempt(&d));
                let emit = !d.is_empty() || *res == 0;
                let (accepted, go_on) = if emit { settle(&mut pr, &mut out, &progs, &o, suspect, &format!("enum{}t", progs.len())) }
                                        else if suspect { pr.suspect_runs += 1; (pr.suspect_runs >= 3, false) } else { (true, true) };
                if accepted {
                    pr.stack.pop();
                    if d.len() < *bound && !suspect {
                        let from = d.last().map(|x| x.0 + 1).unwrap_or(0);
                        for i in from..o.sched.len() {
                            if d.is_empty() && i % modulus != *res { continue; }
                            for &u in &o.avail[i] {
                                if u != o.sched[i] { let mut d2 = d.clone(); d2.push((i, u)); pr.stack.push(d2); }
                            }
                        }
                    }
                }
                if !go_on { flush(&mut out); pr.save(&state_path); cleanup_dirs(); std::process::exit(17); }
            }
        }
        Task::Random { seed, count } => {
            if !pr.started { pr.rng = Rng::new(*seed).0; pr.started = true; }
            while pr.done < *count {
                let mut rng = Rng(pr.rng);
                let progs = random_progs(&mut rng);
                let plan_seed = rng.next();
                let (o, suspect) = run_case(&progs, Plan::Random(plan_seed, 2 + (pr.done % 4) as u64));
                let (accepted, go_on) = settle(&mut pr, &mut out, &progs, &o, suspect, &format!("random{}t", progs.len()));
                if accepted { pr.rng = rng.0; pr.done += 1; }
                if !go_on { flush(&mut out); pr.save(&state_path); cleanup_dirs(); std::process::exit(17); }
            }
        }
        Task::Lines { file, from, to } => {
            let lines: Vec<String> = std::fs::read_to_string(file).unwrap_or_default().lines().map(|l| l.trim().to_string()).filter(|l| !l.is_empty()).collect();
            if !pr.started { pr.done = *from; pr.started = true; }
            while pr.done < (*to).min(lines.len()) {
                match parse_line(&lines[pr.done]) {
                    Some((progs, sched)) => {
                        let (o, suspect) = run_case(&progs, Plan::Fixed(&sched));
                        let (accepted, go_on) = settle(&mut pr, &mut out, &progs, &o, suspect, "replay");
                        if accepted { pr.done += 1; }
                        if !go_on { flush(&mut out); pr.save(&state_path); cleanup_dirs(); std::process::exit(17); }
                    }
                    None => pr.done += 1,
                }
            }
        }
    }
    flush(&mut out);
    let _ = std::fs::remove_file(&state_path);
    cleanup_dirs();
}

struct Row { kind: String, nontrivial: bool, blocked: usize, verdict: String, replay: String, term: String }

fn run_tasks(a: &Args, tasks: &[Task], work_dir: &Path) -> (Vec<Row>, usize) {
    let exe = std::env::current_exe().expect("current_exe");
    let jobs: usize = std::env::var("C38_JOBS").ok().and_then(|x| x.parse().ok()).unwrap_or(12);
    let _ = std::fs::remove_dir_all(work_dir);
    std::fs::create_dir_all(work_dir).expect("work dir");
    let mut running: Vec<(usize, std::process::Child, Instant, u32)> = vec![];
    let mut queue: std::collections::VecDeque<(usize, u32)> = (0..tasks.len()).map(|i| (i, 0u32)).collect();
    let (mut failed_tasks, mut restarts) = (0usize, 0usize);
    let task_limit = Duration::from_secs(if a.thorough() { 1200 } else { 400 });
    while !queue.is_empty() || !running.is_empty() {
        while !queue.is_empty() && running.len() < jobs {
            let (ti, attempt) = queue.pop_front().unwrap();
            let out = work_dir.join(format!("t{:04}.tsv", ti));
            let child = std::process::Command::new(&exe).arg("worker").arg("--tier").arg(&a.tier).arg("--out").arg(&out)
                .args(tasks[ti].to_args()).spawn().expect("spawn worker");
            running.push((ti, child, Instant::now(), attempt));
        }
        let mut i = 0;
        let mut progressed = false;
        while i < running.len() {
            let over = running[i].2.elapsed() > task_limit;
            match running[i].1.try_wait() {
                Ok(Some(st)) => {
                    let (ti, _, _, attempt) = running.remove(i);
                    if st.code() == Some(17) && attempt < 40 { queue.push_back((ti, attempt + 1)); restarts += 1; }
                    else if !st.success() { failed_tasks += 1; eprintln!("c38: worker for task {:?} failed ({:?})", tasks[ti], st.code()); }
                    progressed = true;
                }
                _ if over => {
                    let (ti, mut ch, _, _) = running.remove(i);
                    let _ = ch.kill();
                    let _ = ch.wait();
                    eprintln!("c38: worker for task {:?} exceeded its time limit", tasks[ti]);
                    failed_tasks += 1;
                    progressed = true;
                }
                _ => i += 1,
            }
        }
        if !progressed { std::thread::sleep(Duration::from_millis(20)); }
    }
    if failed_tasks > 0 { eprintln!("c38: {} worker(s) failed", failed_tasks); std::process::exit(3); }
    let mut rows = vec![];
    for i in 0..tasks.len() {
        let txt = std::fs::read_to_string(work_dir.join(format!("t{:04}.tsv", i))).unwrap_or_default();
        for l in txt.lines() {
            let f: Vec<&str> = l.splitn(6, '\t').collect();
            if f.len() != 6 { continue; }
            rows.push(Row { kind: f[0].to_string(), nontrivial: f[1] == "1", blocked: f[2].parse().unwrap_or(0), verdict: f[3].to_string(), replay: f[4].to_string(), term: f[5].to_string() });
        }
    }
    let _ = std::fs::remove_dir_all(work_dir);
    (rows, restarts)
}

fn gen(a: &Args) {
    let mut w = CaseWriter::new(&a.out, "C38", "Corr.C38", 400);
    let t_start = Instant::now();
    let mut tasks: Vec<Task> = vec![];
    if let Some(lf) = &a.lines {
        let n = a.replay_lines().map(|l| l.len()).unwrap_or(0);
        let file = lf.display().to_string();
        let mut from = 0;
        while from < n { tasks.push(Task::Lines { file: file.clone(), from, to: (from + 10).min(n) }); from += 10; }
    } else {
        for (set, (_, bound)) in enum_sets(a.thorough()).iter().enumerate() {
            let modulus = if *bound >= 3 { 8 } else if *bound == 2 { 4 } else { 2 };
            for res in 0..modulus { tasks.push(Task::Enum { set, bound: *bound, modulus, res }); }
        }
        let mut rng = Rng::new(a.seed);
        let (chunks, per) = if a.thorough() { (32, 60) } else { (8, 15) };
        for _ in 0..chunks { tasks.push(Task::Random { seed: rng.next(), count: per }); }
    }
    let (rows, restarts) = run_tasks(a, &tasks, &a.out.join("work"));
    let mut blocked_total = 0usize;
    for r in rows {
        blocked_total += r.blocked;
        w.push(r.term, r.replay, r.nontrivial, &r.kind);
    }
    let wall = t_start.elapsed().as_secs_f64();
    w.finish(&[("blocked_steps".into(), blocked_total.to_string()), ("harness_wall_s".into(), format!("{:.1}", wall)),
               ("worker_tasks".into(), tasks.len().to_string()), ("worker_restarts".into(), restarts.to_string())]);
}

fn search(a: &Args) {
    let budget = a.budget.min(1_500) as usize;
    let mut rng = Rng::new(a.seed ^ 0xC38C38);
    let per = 50;
    let tasks: Vec<Task> = (0..(budget + per - 1) / per).map(|_| Task::Random { seed: rng.next(), count: per }).collect();
    let work = PathBuf::from(format!("{}.work", a.out.display()));
    let (rows, _) = run_tasks(a, &tasks, &work);
    let mut s = String::new();
    let mut nf = 0;
    for r in &rows {
        if r.verdict != "ok" && nf < 20 { s.push_str(&format!("FAIL {} why={}\n", r.replay, r.verdict)); nf += 1; }
    }
    s.push_str(&format!("tried={}\n", rows.len()));
    std::fs::write(&a.out, s).expect("write search output");
}
