(* C15: the query fragment of the correspondence and its REFERENCE meaning (definitions only).

     SELECT [DISTINCT] <* | col [AS x<i>], ...> FROM t [WHERE id > k]
       [ORDER BY key [ASC|DESC], ...] [LIMIT l] [OFFSET o]

   over one table t(id, c1, .., cn) (column 0 is the row identity `id`; positional columns as
   in Model/SqlSpec.v).  A key is a column name (optionally written t.col), the alias of a select
   item, or an expression; an integer literal standing alone is an ORDINAL (1-based position in
   the select list), as in standard SQL.  The reference meaning of a query is the list of
   elements (evaluated keys, output row) of Model/SortSpec.v, one per row that passes WHERE. *)
From Coq Require Import ZArith List Bool.
From TV Require Import Model.KnnOrder.
From TV Require Import Model.SqlSpec Model.SortSpec.
Import ListNotations.
Open Scope Z_scope.

Inductive sel_item := SI (c : nat) (al : bool).       (* column c; al: printed `c AS x<position>` *)
Inductive select := SelStar | SelList (items : list sel_item).

Inductive kexpr :=
| XCol (c : nat)
| XInt (z : Z)                                         (* non-negative integer literal *)
| XBin (op : arith) (a b : kexpr)                      (* (a + b), (a - b), (a * b) *)
| XNeg (a : kexpr)                                     (* (- a) *)
| XAbs (a : kexpr).                                    (* ABS(a): a function call in a key *)

Inductive key :=
| KCol (c : nat) (qual : bool)                         (* `c` or `t.c` *)
| KAlias (i : nat)                                     (* `x<i>`: the alias of select item i *)
| KExpr (e : kexpr).                                   (* an expression that is not a bare column *)

Record query := mkQ {
  q_distinct : bool;
  q_sel : select;
  q_where : option Z;                                  (* WHERE id > k *)
  q_keys : list (key * bool);                          (* key, ascending? *)
  q_limit : option Z;
  q_offset : option Z
}.

Definition item_col (it : sel_item) : nat := match it with SI c _ => c end.
Definition item_al (it : sel_item) : bool := match it with SI _ al => al end.

(* ------------------------------------------------------------------ reference meaning *)
Definition passes_where (w : option Z) (r : row) : bool :=
  match w with
  | None => true
  | Some k => match r with VInt i :: _ => k <? i | _ => false end
  end.

(* reference value of a key expression: integer arithmetic as in Model/SqlSpec.v (NULL in, NULL
   out; overflow, text and float operands: undefined), ABS on integers *)
Fixpoint spec_kexpr (e : kexpr) (r : row) : option value :=
  match e with
  | XCol c => nth_error r c
  | XInt z => Some (VInt z)
  | XBin op a b =>
      match spec_kexpr a r, spec_kexpr b r with
      | Some x, Some y => arith_values op x y
      | _, _ => None
      end
  | XNeg a => match spec_kexpr a r with Some x => arith_values ASub (VInt 0) x | None => None end
  | XAbs a =>
      match spec_kexpr a r with
      | Some (VInt x) => if i64_ok (Z.abs x) then Some (VInt (Z.abs x)) else None
      | Some VNull => Some VNull
      | _ => None
      end
  end.
(* without ABS this is the evaluator of the shared SQL semantics on the corresponding expression
   (Proof/SortKeys.v spec_kexpr_is_eval); ABS has no counterpart there *)
Fixpoint kexpr_has_fn (e : kexpr) : bool :=
  match e with XAbs _ => true | XBin _ a b => kexpr_has_fn a || kexpr_has_fn b | XNeg a => kexpr_has_fn a | _ => false end.
Fixpoint to_expr (e : kexpr) : expr :=
  match e with
  | XCol c => ECol c
  | XInt z => ELit (VInt z)
  | XBin op a b => EArith op (to_expr a) (to_expr b)
  | XNeg a => EArith ASub (ELit (VInt 0)) (to_expr a)
  | XAbs a => to_expr a
  end.

(* the output column list, as table columns *)
Definition out_cols (ncols : nat) (s : select) : list nat :=
  match s with SelStar => seq 0 ncols | SelList items => map item_col items end.

(* what a key denotes; None = not a valid query (no demand) *)
Inductive kden := DCol (c : nat) | DExpr (e : kexpr).
Definition key_den (ncols : nat) (s : select) (k : key) : option kden :=
  match k with
  | KCol c _ => if (c <? ncols)%nat then Some (DCol c) else None
  | KAlias i =>
      match s with
      | SelList items => match nth_error items i with Some (SI c true) => Some (DCol c) | _ => None end
      | SelStar => None
      end
  | KExpr (XInt n) =>
      if (1 <=? n) && (n <=? Z.of_nat (length (out_cols ncols s)))
      then option_map DCol (nth_error (out_cols ncols s) (Z.to_nat (n - 1))) else None
  | KExpr (XCol c) => if (c <? ncols)%nat then Some (DCol c) else None
  | KExpr e => Some (DExpr e)
  end.
Definition den_value (d : kden) (r : row) : option value :=
  match d with DCol c => nth_error r c | DExpr e => spec_kexpr e r end.

Fixpoint all_some {X} (l : list (option X)) : option (list X) :=
  match l with
  | [] => Some []
  | Some x :: l' => match all_some l' with Some xs => Some (x :: xs) | None => None end
  | None :: _ => None
  end.

Definition spec_dens (ncols : nat) (q : query) : option (list kden) :=
  all_some (map (fun kb => key_den ncols (q_sel q) (fst kb)) (q_keys q)).
Definition spec_pay (ncols : nat) (q : query) (r : row) : option row :=
  all_some (map (nth_error r) (out_cols ncols (q_sel q))).
Definition spec_elt (ncols : nat) (q : query) (dens : list kden) (r : row) : option elt :=
  match all_some (map (fun d => den_value d r) dens), spec_pay ncols q r with
  | Some ks, Some p => Some (ks, p)
  | _, _ => None
  end.
(* the elements the query works on; None = the reference does not say (invalid key, undefined
   key expression: overflow / text or float operands) *)
Definition spec_elts (ncols : nat) (q : query) (t : table) : option (list elt) :=
  match spec_dens ncols q with
  | Some dens => all_some (map (spec_elt ncols q dens) (filter (passes_where (q_where q)) t))
  | None => None
  end.
Definition q_dirs (q : query) : list bool := map snd (q_keys q).
Definition q_off (q : query) : nat := match q_offset q with Some o => Z.to_nat o | None => O end.
Definition q_lim (q : query) : option nat := option_map Z.to_nat (q_limit q).
Definition nonneg (o : option Z) : bool := match o with Some z => 0 <=? z | None => true end.

(* THE PROPERTY for one query on one table: the rows returned are a window of a sorted
   arrangement of the (distinct) selected rows *)
Definition query_spec (ncols : nat) (q : query) (t : table) (rows : list row) : Prop :=
  match spec_elts ncols q t with
  | Some B =>
      result_defined (q_dirs q) (q_distinct q) B = true ->
      result_spec (q_dirs q) (q_distinct q) B (q_off q) (q_lim q) rows
  | None => True
  end.
