(* C14: constant folding (ConstantFoldingRule) and the two whole queries.
   `SELECT * FROM t WHERE e` returns exactly the rows on which e is TRUE in the reference
   semantics; `SELECT id, (e) FROM t` yields the reference TRUE / FALSE / NULL. *)
From Coq Require Import ZArith List Bool Lia.
From TV Require Import Model.SqlSpec Model.PredImpl Model.PredClass
  Proof.SqlSpecLaws Proof.PredBase Proof.PredEval.
Import ListNotations.
Open Scope Z_scope.

(* ------------------------------------------------------------------ literal comparisons *)
Lemma as_literal_some : forall e v, as_literal e = Some v -> e = ELit v.
Proof.
  intros e v H. destruct e; cbn in H; try discriminate.
  destruct v0 as [|z|b|s|b]; cbn in H.
  - congruence.
  - destruct (0 <=? z); congruence.
  - destruct (f_sign b =? 0); congruence.
  - congruence.
  - congruence.
Qed.

(* whenever literals_equal decides, it decides like the reference *)
Lemma literals_equal_spec : forall x y eq op t,
  literals_equal x y = Some eq -> cmp3 op x y = Some t ->
  exists c, t = tv_of_bool (cmp_holds op c) /\ (eq = true <-> c = Eq).
Proof.
  intros x y eq op t Hl Hc. destruct x, y; cbn in Hl; try discriminate.
  - destruct (i64_ok z && i64_ok z0); [|discriminate]. injection Hl as <-.
    cbn in Hc. injection Hc as <-. exists (z ?= z0). split; [reflexivity|].
    rewrite Z.eqb_eq. symmetry. apply Z.compare_eq_iff.
  - injection Hl as <-. cbn in Hc. injection Hc as <-. exists (bytes_cmp s s0). split; [reflexivity|].
    rewrite zlist_eqb'_eq. symmetry. apply bytes_cmp_eq.
  - injection Hl as <-. cbn in Hc. injection Hc as <-. exists (Z.b2z b ?= Z.b2z b0). split; [reflexivity|].
    destruct b, b0; cbn; split; intros; congruence.
Qed.

(* ------------------------------------------------------------------ try_fold is sound *)
Definition fold_ok (e : expr) (f : option folded) : Prop :=
  match f with
  | None => True
  | Some FTrue => forall r t, sem3 e r = Some t -> t = TT
  | Some FFalse => forall r t, sem3 e r = Some t -> t = FF
  | Some (FSimp e') =>
      (wf_expr e = true -> wf_expr e' = true) /\ try_fold e' = None /\
      (forall r t, sem3 e r = Some t -> exists t', sem3 e' r = Some t' /\ tv_is_true t' = tv_is_true t)
  end.

Lemma sem3_and_inv : forall a b r t, sem3 (EAnd a b) r = Some t ->
  exists ta tb, sem3 a r = Some ta /\ sem3 b r = Some tb /\ t = tv_and ta tb.
Proof.
  intros a b r t H. rewrite sem3_and in H. destruct (sem3 a r) as [ta|], (sem3 b r) as [tb|]; try discriminate.
  injection H as <-. eauto.
Qed.
Lemma sem3_or_inv : forall a b r t, sem3 (EOr a b) r = Some t ->
  exists ta tb, sem3 a r = Some ta /\ sem3 b r = Some tb /\ t = tv_or ta tb.
Proof.
  intros a b r t H. rewrite sem3_or in H. destruct (sem3 a r) as [ta|], (sem3 b r) as [tb|]; try discriminate.
  injection H as <-. eauto.
Qed.
Lemma sem3_not_inv : forall a r t, sem3 (ENot a) r = Some t -> exists ta, sem3 a r = Some ta /\ t = tv_not ta.
Proof.
  intros a r t H. rewrite sem3_not in H. destruct (sem3 a r) as [ta|]; [|discriminate]. injection H as <-. eauto.
Qed.

Lemma try_fold_cmp : forall op a b, fold_ok (ECmp op a b) (try_fold (ECmp op a b)).
Proof.
  intros op a b.
  destruct op; cbn [try_fold]; try exact I.
  - destruct (as_literal a) as [x|] eqn:La; [|exact I]. destruct (as_literal b) as [y|] eqn:Lb; [|exact I].
    pose proof (as_literal_some _ _ La) as Ea. pose proof (as_literal_some _ _ Lb) as Eb. subst a b.
    destruct (literals_equal x y) as [eq|] eqn:Hl; [|exact I].
    destruct eq; cbn [option_map fold_ok]; intros r t Hs;
      unfold sem3 in Hs; cbn [eval] in Hs; rewrite bind_ret_tv in Hs;
      destruct (literals_equal_spec x y _ CEq t Hl Hs) as (c & -> & Hiff).
    + assert (c = Eq) by (now apply Hiff). subst c. reflexivity.
    + destruct c; try reflexivity. assert (false = true) by (now apply Hiff). discriminate.
  - destruct (as_literal a) as [x|] eqn:La; [|exact I]. destruct (as_literal b) as [y|] eqn:Lb; [|exact I].
    pose proof (as_literal_some _ _ La) as Ea. pose proof (as_literal_some _ _ Lb) as Eb. subst a b.
    destruct (literals_equal x y) as [eq|] eqn:Hl; [|exact I].
    destruct eq; cbn [option_map fold_ok]; intros r t Hs;
      unfold sem3 in Hs; cbn [eval] in Hs; rewrite bind_ret_tv in Hs;
      destruct (literals_equal_spec x y _ CNe t Hl Hs) as (c & -> & Hiff).
    + assert (c = Eq) by (now apply Hiff). subst c. reflexivity.
    + destruct c; try reflexivity. assert (false = true) by (now apply Hiff). discriminate.
Qed.

Lemma try_fold_sound : forall e, fold_ok e (try_fold e).
Proof.
  induction e as [i|lv|op a IHa b IHb|op a IHa b IHb|a IHa b IHb|a IHa b IHb|a IHa|neg a IHa l|neg a IHa lo IHlo hi IHhi|neg a IHa p IHp|neg a IHa];
    try exact I.
  - (* literal *)
    destruct lv as [| | | |[]]; try exact I; cbn; intros r t Hs; unfold sem3 in Hs; cbn in Hs; congruence.
  - (* comparison *) apply try_fold_cmp.
  - (* AND *)
    cbn [try_fold].
    destruct (try_fold a) as [[| |a']|] eqn:Fa, (try_fold b) as [[| |b']|] eqn:Fb; cbn [fold_ok] in *; try exact I.
    + intros r t Hs. apply sem3_and_inv in Hs as (ta & tb & Sa & Sb & ->).
      now rewrite (IHa r ta Sa), (IHb r tb Sb).
    + intros r t Hs. apply sem3_and_inv in Hs as (ta & tb & Sa & Sb & ->).
      rewrite (IHb r tb Sb). now destruct ta.
    + split; [intros W; cbn in W; now apply andb_prop in W as [_ W]|]. split; [exact Fb|].
      intros r t Hs. apply sem3_and_inv in Hs as (ta & tb & Sa & Sb & ->).
        exists tb. split; [exact Sb|]. now rewrite (IHa r ta Sa), tv_and_TT_l.
    + intros r t Hs. apply sem3_and_inv in Hs as (ta & tb & Sa & Sb & ->). now rewrite (IHa r ta Sa).
    + intros r t Hs. apply sem3_and_inv in Hs as (ta & tb & Sa & Sb & ->). now rewrite (IHa r ta Sa).
    + intros r t Hs. apply sem3_and_inv in Hs as (ta & tb & Sa & Sb & ->). now rewrite (IHa r ta Sa).
    + intros r t Hs. apply sem3_and_inv in Hs as (ta & tb & Sa & Sb & ->). now rewrite (IHa r ta Sa).
    + intros r t Hs. apply sem3_and_inv in Hs as (ta & tb & Sa & Sb & ->).
      rewrite (IHb r tb Sb). now destruct ta.
    + split; [intros W; cbn in W; now apply andb_prop in W as [W _]|]. split; [exact Fa|].
      intros r t Hs. apply sem3_and_inv in Hs as (ta & tb & Sa & Sb & ->).
        exists ta. split; [exact Sa|]. rewrite (IHb r tb Sb). now destruct ta.
    + intros r t Hs. apply sem3_and_inv in Hs as (ta & tb & Sa & Sb & ->).
      rewrite (IHb r tb Sb). now destruct ta.
  - (* OR *)
    cbn [try_fold].
    destruct (try_fold a) as [[| |a']|] eqn:Fa, (try_fold b) as [[| |b']|] eqn:Fb; cbn [fold_ok] in *; try exact I.
    + intros r t Hs. apply sem3_or_inv in Hs as (ta & tb & Sa & Sb & ->). now rewrite (IHa r ta Sa), tv_or_TT_l.
    + intros r t Hs. apply sem3_or_inv in Hs as (ta & tb & Sa & Sb & ->). now rewrite (IHa r ta Sa), tv_or_TT_l.
    + intros r t Hs. apply sem3_or_inv in Hs as (ta & tb & Sa & Sb & ->). now rewrite (IHa r ta Sa), tv_or_TT_l.
    + intros r t Hs. apply sem3_or_inv in Hs as (ta & tb & Sa & Sb & ->). now rewrite (IHa r ta Sa), tv_or_TT_l.
    + intros r t Hs. apply sem3_or_inv in Hs as (ta & tb & Sa & Sb & ->).
      rewrite (IHb r tb Sb). now destruct ta.
    + intros r t Hs. apply sem3_or_inv in Hs as (ta & tb & Sa & Sb & ->).
      now rewrite (IHa r ta Sa), (IHb r tb Sb).
    + split; [intros W; cbn in W; now apply andb_prop in W as [_ W]|]. split; [exact Fb|].
      intros r t Hs. apply sem3_or_inv in Hs as (ta & tb & Sa & Sb & ->).
        exists tb. split; [exact Sb|]. now rewrite (IHa r ta Sa), tv_or_FF_l.
    + intros r t Hs. apply sem3_or_inv in Hs as (ta & tb & Sa & Sb & ->).
      rewrite (IHb r tb Sb). now destruct ta.
    + intros r t Hs. apply sem3_or_inv in Hs as (ta & tb & Sa & Sb & ->).
      rewrite (IHb r tb Sb). now destruct ta.
    + split; [intros W; cbn in W; now apply andb_prop in W as [W _]|]. split; [exact Fa|].
      intros r t Hs. apply sem3_or_inv in Hs as (ta & tb & Sa & Sb & ->).
        exists ta. split; [exact Sa|]. rewrite (IHb r tb Sb). now destruct ta.
  - (* NOT *)
    cbn [try_fold]. destruct (try_fold a) as [[| |a']|] eqn:Fa; cbn [fold_ok] in *; try exact I.
    + intros r t Hs. apply sem3_not_inv in Hs as (ta & Sa & ->). now rewrite (IHa r ta Sa).
    + intros r t Hs. apply sem3_not_inv in Hs as (ta & Sa & ->). now rewrite (IHa r ta Sa).
Qed.

(* ------------------------------------------------------------------ rows *)
Lemma filter_rows_correct : forall e t,
  wf_expr e = true -> plain_table t = true -> defined_on e t = true ->
  filter_rows e t = Ok (spec_rows e t).
Proof.
  intros e t Hw. induction t as [|r t IH]; intros Hp Hd; [reflexivity|].
  unfold defined_on in Hd. cbn [forallb plain_table] in Hd, Hp.
  apply andb_prop in Hd as [Hd1 Hd2]. apply andb_prop in Hp as [Hp1 Hp2].
  destruct (sem3 e r) as [tv0|] eqn:Es; [|discriminate].
  cbn [filter_rows spec_rows map]. rewrite (eval_expr_correct e r tv0 Hw Hp1 Es). cbn [bindr].
  fold (spec_rows e t). rewrite (IH Hp2 Hd2). cbn [bindr]. unfold passes. rewrite Es.
  now destruct tv0.
Qed.

Lemma spec_rows_ext : forall e e' t,
  (forall r t0, sem3 e r = Some t0 -> exists t', sem3 e' r = Some t' /\ tv_is_true t' = tv_is_true t0) ->
  defined_on e t = true -> spec_rows e' t = spec_rows e t /\ defined_on e' t = true.
Proof.
  intros e e' t H. induction t as [|r t IH]; intros Hd; [split; reflexivity|].
  unfold defined_on in Hd. cbn [forallb] in Hd. apply andb_prop in Hd as [Hd1 Hd2].
  destruct (sem3 e r) as [t0|] eqn:Es; [|discriminate].
  destruct (H r t0 Es) as (t' & Es' & Ht). destruct (IH Hd2) as (I1 & I2).
  split.
  - cbn [spec_rows map]. fold (spec_rows e' t) (spec_rows e t). rewrite I1. f_equal.
    unfold passes. rewrite Es, Es'. destruct t', t0; cbn in *; congruence.
  - unfold defined_on. cbn [forallb]. rewrite Es'. exact I2.
Qed.

Lemma rows_const : forall e t c,
  (forall r t0, sem3 e r = Some t0 -> t0 = c) -> defined_on e t = true ->
  spec_rows e t = map (fun _ => Z.b2z (tv_is_true c)) t.
Proof.
  intros e t c H. induction t as [|r t IH]; intros Hd; [reflexivity|].
  unfold defined_on in Hd. cbn [forallb] in Hd. apply andb_prop in Hd as [Hd1 Hd2].
  destruct (sem3 e r) as [t0|] eqn:Es; [|discriminate].
  cbn [spec_rows map]. fold (spec_rows e t). rewrite (IH Hd2). unfold passes. rewrite Es, (H r t0 Es).
  now destruct c.
Qed.

Lemma filter_false : forall t, filter_rows (ELit (VBool false)) t = Ok (map (fun _ => 0) t).
Proof. induction t as [|r t IH]; [reflexivity|]. cbn [filter_rows]. rewrite IH. reflexivity. Qed.

Lemma cls_query_0 : forall e t, cls_query e t = 0 -> wf_expr e = true /\ plain_table t = true.
Proof.
  intros e t H. unfold cls_query in H. destruct (wf_expr e && plain_table t) eqn:E; [|discriminate].
  now apply andb_prop in E.
Qed.

(* SELECT * FROM t WHERE e: parser (either printing style), optimizer, executor *)
Theorem where_query_correct : forall sty e t,
  cls_where sty e t = 0 -> defined_on e t = true ->
  model_where (parsed sty e) t = MOut (QRows (spec_rows e t)).
Proof.
  intros sty e t Hc Hd. unfold cls_where in Hc. apply cls_query_0 in Hc as (Hw & Hp).
  unfold parsed. pose proof (try_fold_sound e) as Hf.
  unfold model_where. cbn [fold_iter] in *.
  destruct (try_fold e) as [[| |e']|] eqn:Ef; cbn [fold_ok] in Hf.
  - now rewrite (rows_const e t TT Hf Hd).
  - rewrite filter_false. now rewrite (rows_const e t FF Hf Hd).
  - destruct Hf as (Hw' & Hn' & Hsem). cbn [fold_iter]. rewrite Hn'.
    destruct (spec_rows_ext e e' t Hsem Hd) as (R1 & R2).
    rewrite filter_rows_correct; [now rewrite R1|now apply Hw'|exact Hp|exact R2].
  - now rewrite (filter_rows_correct e t Hw Hp Hd).
Qed.

(* SELECT id, (e) FROM t *)
Theorem select_query_correct : forall sty e t,
  cls_select sty e t = 0 -> defined_on e t = true ->
  model_select (parsed sty e) t = MOut (QVals (spec_vals e t)).
Proof.
  intros sty e t Hc Hd. unfold cls_select in Hc. apply cls_query_0 in Hc as (Hw & Hp).
  unfold parsed, model_select.
  assert (G : select_rows e t = Ok (spec_vals e t)).
  { induction t as [|r t IH]; [reflexivity|].
    unfold defined_on in Hd. cbn [forallb plain_table] in Hd, Hp.
    apply andb_prop in Hd as [Hd1 Hd2]. apply andb_prop in Hp as [Hp1 Hp2].
    destruct (sem3 e r) as [t0|] eqn:Es; [|discriminate].
    destruct (eval_value_correct e r t0 Hw Hp1 Es) as (o & Vo & Co).
    cbn [select_rows spec_vals map]. rewrite Vo. cbn [bindr]. fold (spec_vals e t).
    rewrite (IH Hp2 Hd2). cbn [bindr]. now rewrite Es, Co. }
  now rewrite G.
Qed.
