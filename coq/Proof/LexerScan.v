(* C22 proofs, part 2: every scan_* helper of the lexer terminates within its fuel, makes progress
   (consumes at least one byte), keeps the state invariant and - on valid UTF-8 shorter than 2^31
   bytes - does not panic (index, slice, u32 / i32 counters, usize subtraction). *)
From Coq Require Import ZArith List Bool Arith Lia ZifyBool.
From TV Require Import Model.LexerKeywords Model.Lexer Proof.LexerBase.
Import ListNotations.
Open Scope Z_scope.

Ltac Zify.zify_post_hook ::= Z.to_euclidean_division_equations.

Section Scan.
Variable s : list Z.
Variable pan : bool.
Hypothesis Hgood : pan = false -> utf8_valid s = true /\ Z.of_nat (len s) < 2 ^ 31.

Notation inv := (inv s pan).
Notation bd := (bd s pan).
Notation wp := (wp pan).

(* result of a scanner started at st: invariant kept, at least one byte consumed *)
Definition sc_post (st : lx) (r : sres) : Prop :=
  match r with
  | Done _ st' => inv st' /\ (pos st < pos st')%nat
  | Again st' => inv st' /\ (pos st < pos st')%nat
  end.

(* ---- tactics: symbolic execution of the monadic code *)
Ltac eofs :=
  repeat match goal with
         | H : is_eof s _ = true |- _ => apply (proj1 (eof_true s _)) in H
         | H : is_eof s _ = false |- _ => apply (proj1 (eof_false s _)) in H
         end.

Ltac ex_bytes :=
  repeat match goal with
         | H : exists b, nth_error _ _ = Some b /\ _ |- _ => destruct H as (? & ? & ? & ?)
         end.

(* a goal `bd i` *)
Ltac bdt :=
  first
    [ assumption
    | apply (bd_len s pan)
    | eapply (bd_at s pan); [eassumption | cls]
    | match goal with
      | H : forall b, nth_error s _ = Some b -> is_ascii b = true -> LexerBase.bd s pan _ |- _ =>
          eapply H; [eassumption | cls]
      end ].

Ltac step :=
  match goal with
  | |- LexerBase.wp _ (bind (advance _ _) _) _ =>
      eapply wp_bind; [apply (wp_advance s pan Hgood); assumption|];
      let st' := fresh "st" in intros st' (? & ? & ? & ? & ? & ?)
  | |- LexerBase.wp _ (bind (skip_while _ _ (lfuel _) _) _) _ =>
      eapply wp_bind; [apply (wp_skip_while s pan Hgood); [assumption | unfold lfuel; lia]|];
      let st' := fresh "st" in intros st' (? & ? & ? & ? & ?)
  | |- LexerBase.wp _ (bind (slice _ _ _) _) _ =>
      eapply wp_bind; [apply (wp_slice s pan Hgood) | intros _ _]
  | |- LexerBase.wp _ (bind (at_byte _ _ _) _) _ =>
      eapply wp_bind; [apply (wp_at_byte s pan)|];
      let g := fresh "g" in intros g ?; destruct g
  | |- LexerBase.wp _ (bind (current _ _) _) _ =>
      eapply wp_bind; [apply (wp_current s pan); lia|]; let H := fresh "Hc" in intros ? H; cbv beta in H
  | |- LexerBase.wp _ (bind (Ok _) _) _ => cbn [bind]
  | |- LexerBase.wp _ (if is_eof _ _ then _ else _) _ =>
      let E := fresh "E" in destruct (is_eof s _) eqn:E; eofs
  | |- LexerBase.wp _ (if ?c then _ else _) _ => let E := fresh "E" in destruct c eqn:E
  end.

Ltac fin := simpl; split; [assumption | lia].

(* turn `pos a < len -> pos b = S (pos a)` into the equation when the premise is known *)
Ltac posn :=
  repeat match goal with
         | H : (pos ?a < len s)%nat -> pos ?b = S (pos ?a) |- _ =>
             let H' := fresh in assert (H' : (pos a < len s)%nat) by lia; specialize (H H'); clear H'
         end.

(* ---------------------------------------------------------------- one-byte and two-byte operators *)
Lemma wp_scan_single : forall t st, inv st -> (pos st < len s)%nat -> wp (scan_single s t st) (sc_post st).
Proof. intros t st Hi Hp. unfold scan_single. step. fin. Qed.

Lemma wp_scan_pair : forall c2 two one st, inv st -> (pos st < len s)%nat ->
  wp (scan_pair s c2 two one st) (sc_post st).
Proof.
  intros c2 two one st Hi Hp. unfold scan_pair. step. step.
  - ex_bytes. step. fin.
  - fin.
Qed.

Lemma wp_scan_hash : forall st, inv st -> (pos st < len s)%nat -> wp (scan_hash s st) (sc_post st).
Proof.
  intros st Hi Hp. unfold scan_hash. step. step; [fin|]. step. step; [|fin].
  step. step.
  - ex_bytes. step. fin.
  - fin.
Qed.

Lemma wp_scan_greater_than : forall st, inv st -> (pos st < len s)%nat -> wp (scan_greater_than s st) (sc_post st).
Proof.
  intros st Hi Hp. unfold scan_greater_than. step. step; [fin|]. step.
  step; [step; fin|]. step; [step; fin|]. fin.
Qed.

Lemma wp_scan_question : forall st, inv st -> (pos st < len s)%nat -> wp (scan_question s st) (sc_post st).
Proof.
  intros st Hi Hp. unfold scan_question. step. step; [fin|]. step.
  step; [step; fin|]. step; [step; fin|]. fin.
Qed.

(* `self.pos -= 1` after two advances from the token start *)
Lemma wp_back_one : forall st0 a, inv st0 -> inv a -> pos a = S (S (pos st0)) ->
  (pan = false -> col a <= col st0 + 2 /\ line a <= line st0 + 2) ->
  wp (back_one a) (fun b => inv b /\ (pos st0 < pos b)%nat).
Proof.
  intros st0 a [Hp0 Hc0] [Hpa Hca] Hpos Hcol. unfold back_one.
  rewrite Hpos. cbn [Nat.eqb]. simpl.
  split; [|cbn [pos]; lia].
  unfold LexerBase.inv. cbn [pos line col]. split; [lia|].
  intros Hq. specialize (Hc0 Hq). specialize (Hca Hq). specialize (Hcol Hq). lia.
Qed.

Lemma wp_scan_less_than : forall st, inv st -> (pos st < len s)%nat -> wp (scan_less_than s st) (sc_post st).
Proof.
  intros st Hi Hp. unfold scan_less_than. step. step; [fin|]. step.
  step.
  { step. step.
    - ex_bytes. step. fin.
    - fin. }
  step; [step; fin|]. step; [step; fin|]. step; [step; fin|].
  step.
  { step. step.
    - ex_bytes. step. fin.
    - eapply wp_bind; [eapply (wp_back_one st); try assumption; [lia | intros Hq; repeat match goal with H : pan = false -> _ |- _ => specialize (H Hq) end; lia]|].
      intros b [? ?]. fin. }
  step.
  { step. step.
    - ex_bytes. step. fin.
    - eapply wp_bind; [eapply (wp_back_one st); try assumption; [lia | intros Hq; repeat match goal with H : pan = false -> _ |- _ => specialize (H Hq) end; lia]|].
      intros b [? ?]. fin. }
  fin.
Qed.


(* ---------------------------------------------------------------- loops *)
Lemma wp_quoted_loop : forall q fuel st, inv st -> (len s - pos st < fuel)%nat ->
  wp (quoted_loop s q fuel st)
     (fun r => inv (fst r) /\ (pos st <= pos (fst r))%nat /\
               (snd r = true -> nth_error s (pos (fst r)) = Some q /\ (pos (fst r) < len s)%nat)).
Proof.
  intros q fuel. induction fuel as [|f IH]; intros st Hi Hf; [lia|].
  cbn [quoted_loop]. step.
  - simpl. split; [assumption|]. split; [lia|]. discriminate.
  - step. step.
    + step.
      * step. step. eapply wp_weaken; [apply IH; [assumption|lia]|].
        intros [st3 c] (? & ? & ?). cbn [fst snd] in *. split; [assumption|]. split; [lia|]. assumption.
      * simpl. split; [assumption|]. split; [lia|]. intros _.
        apply Z.eqb_eq in E0. subst. split; assumption.
    + step. eapply wp_weaken; [apply IH; [assumption|lia]|].
      intros [st3 c] (? & ? & ?). cbn [fst snd] in *. split; [assumption|]. split; [lia|]. assumption.
Qed.

Lemma wp_hex_lit_loop : forall fuel st, inv st -> (len s - pos st < fuel)%nat ->
  wp (hex_lit_loop s fuel st)
     (fun r => inv (fst r) /\ (pos st <= pos (fst r))%nat /\
               (snd r = false -> (pos (fst r) < len s)%nat -> nth_error s (pos (fst r)) = Some 39)).
Proof.
  induction fuel as [|f IH]; intros st Hi Hf; [lia|].
  cbn [hex_lit_loop]. step.
  - simpl. split; [assumption|]. split; [lia|]. intros _ ?. lia.
  - step. step.
    + simpl. split; [assumption|]. split; [lia|]. intros _ _. apply Z.eqb_eq in E0. subst. assumption.
    + step.
      * simpl. split; [assumption|]. split; [lia|]. discriminate.
      * step. eapply wp_weaken; [apply IH; [assumption|lia]|].
        intros [st3 c] (? & ? & ?). cbn [fst snd] in *. split; [assumption|]. split; [lia|]. assumption.
Qed.

Lemma wp_dollar_loop : forall tag fuel st, inv st -> (len s - pos st < fuel)%nat ->
  wp (dollar_loop s tag fuel st)
     (fun r => inv (fst r) /\ (pos st <= pos (fst r))%nat /\
               (snd r = true -> nth_error s (pos (fst r)) = Some 36)).
Proof.
  intros tag. induction fuel as [|f IH]; intros st Hi Hf; [lia|].
  cbn [dollar_loop]. step.
  - simpl. split; [assumption|]. split; [lia|]. discriminate.
  - step. step.
    + apply Z.eqb_eq in E0. subst a.
      eapply wp_bind; [apply (wp_slice s pan Hgood); [unfold len in *; lia | eapply (bd_at s pan); [eassumption | reflexivity] | apply (bd_len s pan)]|].
      intros _ _. step.
      * simpl. split; [assumption|]. split; [lia|]. intros _. assumption.
      * step. eapply wp_weaken; [apply IH; [assumption|lia]|].
        intros [st3 c] (? & ? & ?). cbn [fst snd] in *. split; [assumption|]. split; [lia|]. assumption.
    + step. eapply wp_weaken; [apply IH; [assumption|lia]|].
      intros [st3 c] (? & ? & ?). cbn [fst snd] in *. split; [assumption|]. split; [lia|]. assumption.
Qed.

(* depth : i32; depth <= pos keeps `depth += 1` below i32::MAX *)
Lemma wp_block_loop : forall fuel depth st, inv st -> (len s - pos st < fuel)%nat ->
  (pan = false -> depth <= Z.of_nat (pos st)) ->
  wp (block_loop s fuel depth st) (fun r => inv (fst r) /\ (pos st <= pos (fst r))%nat).
Proof.
  induction fuel as [|f IH]; intros depth st Hi Hf Hd; [lia|].
  cbn [block_loop].
  destruct (is_eof s st || (depth <=? 0)) eqn:E0.
  - simpl. split; [assumption | lia].
  - apply orb_false_elim in E0 as [E0 E1]. eofs.
    step. step.
    + step. step.
      destruct pan eqn:Epan.
      * destruct (depth <? i32_max); [|simpl; reflexivity].
        eapply wp_weaken; [apply IH; [assumption | lia | intros; discriminate]|].
        intros [st3 c] (? & ?). cbn [fst snd] in *. split; [assumption | lia].
      * destruct (Hgood eq_refl) as [_ Hl]. change (2 ^ 31) with 2147483648 in Hl.
        specialize (Hd eq_refl). unfold i32_max.
        replace (depth <? 2147483647) with true by lia.
        eapply wp_weaken; [apply IH; [assumption | lia | intros _; lia]|].
        intros [st3 c] (? & ?). cbn [fst snd] in *. split; [assumption | lia].
    + step.
      * step. step. eapply wp_weaken; [apply IH; [assumption | lia | intros Hq; specialize (Hd Hq); lia]|].
        intros [st3 c] (? & ?). cbn [fst snd] in *. split; [assumption | lia].
      * step. eapply wp_weaken; [apply IH; [assumption | lia | intros Hq; specialize (Hd Hq); lia]|].
        intros [st3 c] (? & ?). cbn [fst snd] in *. split; [assumption | lia].
Qed.


Lemma nth_lt : forall i b, nth_error s i = Some b -> (i < len s)%nat.
Proof. intros i b H. unfold len. apply nth_error_Some. congruence. Qed.

Lemma opt_is_true : forall o b, opt_is o b = true -> o = Some b.
Proof. intros [c|] b H; simpl in H; [apply Z.eqb_eq in H; subst; reflexivity | discriminate]. Qed.

(* ---------------------------------------------------------------- quoted strings and identifiers *)
Lemma wp_scan_quoted : forall q k e st, inv st -> (pos st < len s)%nat ->
  nth_error s (pos st) = Some q -> is_ascii q = true -> wp (scan_quoted s q k e st) (sc_post st).
Proof.
  intros q k e st Hi Hp Hq Ha. unfold scan_quoted. step.
  eapply wp_bind; [apply wp_quoted_loop; [assumption | unfold lfuel; lia]|].
  intros [st2 closed] (? & ? & Hc). cbn [fst snd] in *.
  destruct closed.
  - destruct (Hc eq_refl) as [Hq2 Hlt]. step. step.
    + lia.
    + bdt.
    + eapply (bd_at s pan); eassumption.
    + fin.
  - fin.
Qed.

Lemma wp_scan_hex_string_literal : forall st, inv st -> (pos st < len s)%nat ->
  nth_error s (S (pos st)) = Some 39 -> wp (scan_hex_string_literal s st) (sc_post st).
Proof.
  intros st Hi Hp Hpk. unfold scan_hex_string_literal. step. posn.
  assert (pos st0 < len s)%nat by (rewrite H0; eapply nth_lt; eauto).
  step. posn.
  eapply wp_bind; [apply wp_hex_lit_loop; [assumption | unfold lfuel; lia]|].
  intros [st3 bad] (? & ? & Hc). cbn [fst snd] in *.
  destruct bad; [fin|]. step; [fin|].
  step.
  - lia.
  - match goal with H : forall b, nth_error s (pos st0) = Some b -> _ |- _ => eapply H; [rewrite H0; eassumption | reflexivity] end.
  - eapply (bd_at s pan); [apply Hc; [reflexivity | assumption] | reflexivity].
  - step. fin.
Qed.

Lemma wp_scan_identifier_or_keyword : forall c st, inv st -> (pos st < len s)%nat ->
  nth_error s (pos st) = Some c -> is_ident_start c = true ->
  wp (scan_identifier_or_keyword s st) (sc_post st).
Proof.
  intros c st Hi Hp Hc Hs. unfold scan_identifier_or_keyword. step.
  assert (a = c) by congruence. subst a.
  step.
  - apply andb_prop in E as [_ E]. apply opt_is_true in E. apply wp_scan_hex_string_literal; assumption.
  - step. step.
    + lia.
    + eapply (bd_at s pan); [eassumption | apply ascii_ident_start; assumption].
    + match goal with H : _ -> LexerBase.bd s pan (pos st) -> LexerBase.bd s pan (pos st0) |- _ => apply H end.
      * apply ascii_ident_char.
      * eapply (bd_at s pan); [eassumption | apply ascii_ident_start; assumption].
    + assert (pos st < pos st0)%nat.
      { match goal with H : (exists b, _) -> (pos st < pos st0)%nat |- _ => apply H end.
        exists c. split; [assumption | apply ident_start_char; assumption]. }
      step; fin.
Qed.

(* ---------------------------------------------------------------- numbers *)
Lemma wp_scan_radix_number : forall p k e x st, inv st -> (pos st < len s)%nat ->
  nth_error s (S (pos st)) = Some x -> is_ascii x = true ->
  (forall b, p b = true -> is_ascii b = true) ->
  wp (scan_radix_number s p k e st) (sc_post st).
Proof.
  intros p k e x st Hi Hp Hx Hax Hpa. unfold scan_radix_number. step. posn.
  assert (pos st0 < len s)%nat by (rewrite H0; eapply nth_lt; eauto).
  step. posn. step.
  assert (Hb1 : bd (pos st1)).
  { match goal with H : forall b, nth_error s (pos st0) = Some b -> _ |- _ => eapply H; [rewrite H0; eassumption | assumption] end. }
  step; [fin|].
  step.
  - lia.
  - assumption.
  - match goal with H : _ -> LexerBase.bd s pan (pos st1) -> LexerBase.bd s pan (pos st2) |- _ => apply H; assumption end.
  - fin.
Qed.

Lemma wp_scan_exponent : forall st, inv st -> bd (pos st) ->
  wp (scan_exponent s st) (fun r => inv (fst r) /\ (pos st <= pos (fst r))%nat /\ bd (pos (fst r))).
Proof.
  intros st Hi Hb. unfold scan_exponent. step.
  - ex_bytes. step. posn.
    assert (Hb0 : bd (pos st0)) by bdt.
    step.
    + ex_bytes. step. posn. assert (Hb1 : bd (pos st1)) by bdt.
      step. simpl. split; [assumption|]. split; [lia|].
      match goal with H : _ -> LexerBase.bd s pan (pos st1) -> LexerBase.bd s pan (pos st2) |- _ => apply H; [apply ascii_digit | assumption] end.
    + step. step. simpl. split; [assumption|]. split; [lia|].
      match goal with H : _ -> LexerBase.bd s pan (pos st0) -> LexerBase.bd s pan (pos st1) |- _ => apply H; [apply ascii_digit | assumption] end.
  - simpl. split; [assumption|]. split; [lia | assumption].
Qed.

Lemma wp_scan_number : forall c st, inv st -> (pos st < len s)%nat ->
  nth_error s (pos st) = Some c -> is_digit c = true -> wp (scan_number s st) (sc_post st).
Proof.
  intros c st Hi Hp Hc Hd. unfold scan_number. step.
  assert (a = c) by congruence. subst a.
  assert (Hb0 : bd (pos st)) by (eapply (bd_at s pan); [eassumption | apply ascii_digit; assumption]).
  set (radix := if c =? 48 then _ else _).
  assert (Hr : radix = 0 \/ (exists x, nth_error s (S (pos st)) = Some x /\ is_ascii x = true)).
  { subst radix. destruct (c =? 48); [|left; reflexivity].
    unfold peek_char. destruct (nth_error s (S (pos st))) as [n|] eqn:En; [|left; reflexivity].
    destruct ((n =? 120) || (n =? 88)) eqn:E1; [right; exists n; split; [reflexivity | cls]|].
    destruct ((n =? 98) || (n =? 66)) eqn:E2; [right; exists n; split; [reflexivity | cls]|].
    destruct ((n =? 111) || (n =? 79)) eqn:E3; [right; exists n; split; [reflexivity | cls]|].
    left; reflexivity. }
  clearbody radix.
  step.
  { destruct Hr as [Hr | (x & Hx & Hax)]; [rewrite Hr in E; discriminate|].
    eapply wp_scan_radix_number; eauto. apply ascii_hexdigit. }
  step.
  { destruct Hr as [Hr | (x & Hx & Hax)]; [rewrite Hr in E0; discriminate|].
    eapply wp_scan_radix_number; eauto. apply ascii_bindigit. }
  step.
  { destruct Hr as [Hr | (x & Hx & Hax)]; [rewrite Hr in E1; discriminate|].
    eapply wp_scan_radix_number; eauto. apply ascii_octdigit. }
  step.
  assert (Hlt : (pos st < pos st0)%nat).
  { match goal with H : (exists b, _) -> (pos st < pos st0)%nat |- _ => apply H end. exists c. split; assumption. }
  assert (Hb1 : bd (pos st0)).
  { match goal with H : _ -> LexerBase.bd s pan (pos st) -> LexerBase.bd s pan (pos st0) |- _ => apply H; [apply ascii_digit | assumption] end. }
  (* the fractional part *)
  assert (Hfrac : forall (dot : bool),
            (if dot then exists b, nth_error s (pos st0) = Some b /\ (46 =? b) = true /\ (pos st0 < len s)%nat else True) ->
            wp (if dot then
                  match peek_char s st0 with
                  | Some n =>
                      if is_digit n then (do a <- advance s st0; do b <- skip_while s is_digit (lfuel s) a; Ok (b, true))
                      else if n =? 46 then Ok (st0, false)
                      else (do a <- advance s st0; Ok (a, true))
                  | None => Ok (st0, false)
                  end
                else Ok (st0, false))
               (fun r => inv (fst r) /\ (pos st0 <= pos (fst r))%nat /\ bd (pos (fst r)))).
  { intros dot Hdot. destruct dot; [|simpl; split; [assumption|]; split; [lia | assumption]].
    destruct Hdot as (b & Hb & Hb46 & Hblt).
    destruct (peek_char s st0) as [n|]; [|simpl; split; [assumption|]; split; [lia | assumption]].
    step.
    - step. posn. assert (bd (pos st1)) by bdt. step. simpl. split; [assumption|]. split; [lia|].
      match goal with H : _ -> LexerBase.bd s pan (pos st1) -> LexerBase.bd s pan (pos st2) |- _ => apply H; [apply ascii_digit | assumption] end.
    - step; [simpl; split; [assumption|]; split; [lia | assumption]|].
      step. posn. simpl. split; [assumption|]. split; [lia | bdt]. }
  step.
  - eapply wp_bind; [apply (Hfrac true); assumption|].
    intros [st2 fl] (? & ? & ?). cbn [fst snd] in *.
    eapply wp_bind; [apply wp_scan_exponent; assumption|].
    intros [st3 ex] (? & ? & ?). cbn [fst snd] in *.
    step; [lia | assumption | assumption |]. fin.
  - eapply wp_bind; [apply (Hfrac false); exact I|].
    intros [st2 fl] (? & ? & ?). cbn [fst snd] in *.
    eapply wp_bind; [apply wp_scan_exponent; assumption|].
    intros [st3 ex] (? & ? & ?). cbn [fst snd] in *.
    step; [lia | assumption | assumption |]. fin.
Qed.

End Scan.
